--------------------------- MODULE PathTextGen ---------------------------
(* Case generation for C14: the cell table  function x argument position x argument shape x unary-operand side.   *)
(*                                                                                                                  *)
(* match() and search() take arbitrary equations as arguments (length() and count() take a path: they appear as    *)
(* nested function operands).  TLC enumerates, for each function and each argument position, every operator shape   *)
(* as the argument:                                                                                                 *)
(*   level 1  a leaf, a unary operand (!path, !const, !!path, the negative constant -1), a nested function call,     *)
(*            !function;                                                                                            *)
(*   level 2  x OP y for one or two operators of every precedence level with every unary operand kind on the left,  *)
(*            on the right and on both sides, nested function calls as operands, !(x OP y);                         *)
(*   level 3  (x OP2 y) OP z and z OP (x OP2 y) for every ordered operator pair (tighter, equal, looser inner        *)
(*            operator: a group is or is not needed), the inner operands again with ! and - on either side, so that  *)
(*            "ends in a bare ! after lower-precedence right operands" occurs;                                      *)
(*   level 4  a function call whose own argument is such a shape, used as an argument.                               *)
(* The call is the whole script, an operand of == / || / && or the operand of !.  Each case is built by the         *)
(* harness through the public constructors (jp.Match, jp.Search, jp.Length, jp.Count, jp.Not, jp.Or ...), printed   *)
(* by Equation.String / Script.String / Filter.String, parsed, printed again and evaluated on a set of elements     *)
(* that tells the readings apart (k = "eq"); and rendered as text with explicit parentheses and parsed through      *)
(* every parse entry point (k = "txt").  TraceC14 judges the recorded events.                                       *)
EXTENDS PathText
CONSTANT Tier        \* "quick" | "thorough"

Kf == <<102>>
Kn == <<110>>
Ko == <<111>>
Ks == <<115>>
Const(v) == [op |-> "const", v |-> v]
PathTo(k) == [op |-> "path", root |-> "@", fr |-> <<[f |-> "child", k |-> k]>>]
Bin(o, l, r) == [op |-> o, l |-> l, r |-> r]
Un(o, l) == [op |-> o, l |-> l]
\* the elements: every truth assignment of the two flags, a number and a string (keys sorted: f n o s)
ElemOf(o, f) == ObjV(<<Kf, Kn, Ko, Ks>>, <<BoolV(f), IntV(3), BoolV(o), StrV(<<97, 98>>)>>)
Elems == <<ElemOf(FALSE, TRUE), ElemOf(TRUE, TRUE), ElemOf(FALSE, FALSE), ElemOf(TRUE, FALSE)>>

Ops == <<"*", "-", "+", "<", "==", "&&", "||">>
Logic(o) == o \in {"==", "&&", "||"}
\* operand kinds; "l" / "r" pick different members so that swapped operands show
Operand(kind, side, o) ==
    CASE kind = "plain" -> IF Logic(o) THEN PathTo(IF side = "l" THEN Ko ELSE Kf) ELSE (IF side = "l" THEN PathTo(Kn) ELSE Const(IntV(2)))
      [] kind = "!path" -> Un("!", PathTo(IF side = "l" THEN Ko ELSE Kf))
      [] kind = "!const" -> Un("!", Const(BoolV(side = "l")))
      [] kind = "!!path" -> Un("!", Un("!", PathTo(IF side = "l" THEN Ko ELSE Kf)))
      [] kind = "neg" -> Const(IntV(-1))
      [] kind = "match" -> Bin("match", PathTo(Ks), Const(StrV(<<97, 46>>)))
      [] kind = "search" -> Bin("search", PathTo(Ks), Const(StrV(<<98>>)))
      [] kind = "length" -> Un("length", PathTo(Ks))
      [] kind = "count" -> Un("count", PathTo(Ks))
      [] kind = "!match" -> Un("!", Bin("match", PathTo(Ks), Const(StrV(<<97, 46>>))))
      [] OTHER -> Un("!", Un("length", PathTo(Ks)))      \* "!length"
Unaries == <<"!path", "!const", "neg">> \o (IF Tier = "quick" THEN <<>> ELSE <<"!!path">>)
FnKinds == <<"match", "search", "length", "count", "!match", "!length">>
Kinds1 == <<"plain">> \o Unaries \o FnKinds
FnKindSet == {FnKinds[i] : i \in 1..Len(FnKinds)}

RECURSIVE Flat2(_)
\* (split in halves: a head / tail recursion over thousands of members overflows TLC's stack)
Flat2(ss) == IF Len(ss) = 0 THEN <<>> ELSE IF Len(ss) = 1 THEN ss[1]
             ELSE LET h == Len(ss) \div 2 IN Flat2(SubSeq(ss, 1, h)) \o Flat2(SubSeq(ss, h + 1, Len(ss)))
\* shape = [e |-> AST, lvl |-> level, un |-> it holds a ! or - operand]
Sh(e, lvl, un) == [e |-> e, lvl |-> lvl, un |-> un]
Level1 == [i \in 1..Len(Kinds1) |-> Sh(Operand(Kinds1[i], "l", "=="), 1, Kinds1[i] \in {"!path", "!const", "neg", "!!path"})]
\* (a nested function call is paired with a plain and with a !path operand, the unary kinds with each other)
Pair2(a, b) == (a \notin FnKindSet /\ b \notin FnKindSet) \/ (a \in FnKindSet /\ b \in {"plain", "!path"}) \/ (b \in FnKindSet /\ a \in {"plain", "!path"})
Level2 == Flat2([o \in 1..Len(Ops) |-> Flat2([i \in 1..Len(Kinds1) |-> Flat2([j \in 1..Len(Kinds1) |->
              IF Pair2(Kinds1[i], Kinds1[j])
              THEN <<Sh(Bin(Ops[o], Operand(Kinds1[i], "l", Ops[o]), Operand(Kinds1[j], "r", Ops[o])), 2, Kinds1[i] # "plain" \/ Kinds1[j] # "plain")>>
              ELSE <<>>])])])
          \o [o \in 1..Len(Ops) |-> Sh(Un("!", Bin(Ops[o], Operand("plain", "l", Ops[o]), Operand("!path", "r", Ops[o]))), 2, TRUE)]
\* the (left, right) operand kinds of the inner operator and the kind of the outer operator's other operand
InnerPairs == <<<<"plain", "plain">>, <<"!path", "plain">>, <<"plain", "!path">>, <<"neg", "plain">>, <<"plain", "neg">>>>
              \o (IF Tier = "quick" THEN <<>> ELSE <<<<"!const", "plain">>, <<"plain", "!const">>, <<"!path", "!path">>, <<"neg", "neg">>>>)
Others == <<"plain", "!path">> \o (IF Tier = "quick" THEN <<>> ELSE <<"neg", "match">>)
Level3 == Flat2([o \in 1..Len(Ops) |-> Flat2([q \in 1..Len(Ops) |-> Flat2([p \in 1..Len(InnerPairs) |-> Flat2([x \in 1..Len(Others) |->
              LET inner == Bin(Ops[q], Operand(InnerPairs[p][1], "l", Ops[q]), Operand(InnerPairs[p][2], "r", Ops[q])) IN
              <<Sh(Bin(Ops[o], inner, Operand(Others[x], "r", Ops[o])), 3, TRUE),
                Sh(Bin(Ops[o], Operand(Others[x], "l", Ops[o]), inner), 3, TRUE)>>])])])])
Pat == Const(StrV(<<116, 114, 117, 101>>))        \* 'true'
Call(fn, pos, arg) == IF pos = 1 THEN Bin(fn, arg, Pat) ELSE Bin(fn, PathTo(Ks), arg)
\* a call whose argument is a shape, used as an argument itself
Level4 == LET src == SelectSeq(Level2, LAMBDA s : s.un /\ s.e.op \in {"||", "==", "-"} /\ (Tier # "quick" \/ s.e.op = "||")) IN
          Flat2([i \in 1..Len(src) |-> <<Sh(Call("search", 1, src[i].e), 4, TRUE), Sh(Call("match", 2, src[i].e), 4, TRUE)>>])
Shapes == Level1 \o Level2 \o Level3 \o Level4

RECURSIVE ShapeName(_)
ShapeName(e) == CASE e.op = "path" -> "path"
                  [] e.op = "const" -> IF e.v.t = "int" /\ e.v.v < 0 THEN "neg" ELSE "const"
                  [] e.op = "!" -> "!" \o ShapeName(e.l)
                  [] e.op \in {"length", "count"} -> e.op \o "()"
                  [] e.op \in {"match", "search"} -> IF e.l.op = "path" /\ e.r.op = "const" THEN e.op \o "()"
                                                     ELSE e.op \o "(" \o ShapeName(e.l) \o ", " \o ShapeName(e.r) \o ")"
                  [] OTHER -> "(" \o ShapeName(e.l) \o " " \o e.op \o " " \o ShapeName(e.r) \o ")"

Fns == <<"match", "search">>
Ctxs == <<"alone", "== false", "flag ||", "&& flag", "!">>
InCtx(c, call) == CASE c = "alone" -> call
                    [] c = "== false" -> Bin("==", call, Const(BoolV(FALSE)))
                    [] c = "flag ||" -> Bin("||", PathTo(Kf), call)
                    [] c = "&& flag" -> Bin("&&", call, PathTo(Kf))
                    [] OTHER -> Un("!", call)
FPos(f, pos) == (IF f = "match" THEN 0 ELSE 2) + pos - 1
RECURSIVE HasNotPath(_)
HasNotPath(e) == IF e.op \in {"const", "path"} THEN FALSE
                 ELSE IF e.op = "!" THEN e.l.op = "path" \/ HasNotPath(e.l)
                 ELSE IF e.op \in {"length", "count"} THEN FALSE
                 ELSE HasNotPath(e.l) \/ HasNotPath(e.r)
\* the quick tier keeps the whole table for (match, first argument) and the unary-operand cells up to level 2 plus a third of
\* level 3 for the other (function, position) pairs; contexts other than "alone" for the unary-operand cells of level 1-2
RECURSIVE HasFn(_)
HasFn(e) == IF e.op \in {"const", "path"} THEN FALSE ELSE IF e.op \in {"length", "count", "match", "search"} THEN TRUE
            ELSE IF e.op = "!" THEN HasFn(e.l) ELSE HasFn(e.l) \/ HasFn(e.r)
Wanted(f, pos, s, n, c) ==
    IF c = "alone" THEN \/ s.lvl \in {1, 4}
                        \/ (s.lvl = 2 /\ (Tier # "quick" \/ (f = "match" /\ pos = 1) \/ (s.un /\ ~HasFn(s.e))))
                        \* level 3: every shape goes to one (function, position) pair in the quick tier, to two in the thorough tier
                        \/ (s.lvl = 3 /\ (IF Tier = "quick" THEN (n % 4) = FPos(f, pos) ELSE (n % 2) = (FPos(f, pos) % 2)))
    ELSE s.un /\ s.lvl <= 2 /\ (Tier # "quick" \/ (pos = 1 /\ f = "search" /\ HasNotPath(s.e) /\ ~HasFn(s.e) /\ (s.lvl = 1 \/ s.e.op \in {"||", "==", "-"})))
CellName(f, pos, s, c) == "fnarg fn=" \o f \o " pos=" \o ToString(pos) \o " shape=" \o ShapeName(s.e) \o " ctx=" \o c
EqCase(f, pos, s, c) == [k |-> "eq", cell |-> CellName(f, pos, s, c), ast |-> InCtx(c, Call(f, pos, s.e)), elem |-> Elems[1], elems |-> Elems]
\* the same call as TEXT (fully parenthesised by the harness, independent of ojg's printer) through every parse entry point:
\* the unary-operand cells: half of levels 1-2 and a sample of level 3 in the quick tier; levels 1, 2, 4 and every level 3 shape
\* through one (function, position) pair in the thorough tier
TxtWanted(f, pos, s, n, c) == c = "alone" /\ s.un /\ ((Tier # "quick" /\ (s.lvl # 3 \/ (n % 4) = FPos(f, pos))) \/ (s.lvl <= 2 /\ ~HasFn(s.e) /\ (n % 2) = (pos % 2)) \/ (s.lvl = 3 /\ (n % 28) = FPos(f, pos)))
TxtCase(f, pos, s, c) == [k |-> "txt", cell |-> "text " \o CellName(f, pos, s, c), elem |-> Elems[1], elems |-> Elems, allforms |-> TRUE,
                           items |-> <<[k |-> "atom", t |-> InCtx(c, Call(f, pos, s.e))]>>]
\* registered functions (reachable through text only): vid(x) = x, vfirst(x, y) = x, vsecond(x, y) = y, so that the VALUE of the
\* argument expression decides the script and a changed evaluation order shows on the elements (the unary-operand cells of levels
\* 1-2 and a sample of level 3 in the quick tier; in the thorough tier levels 1-2 through all three and every level-3 shape through one)
UFns == <<"vid", "vfirst", "vsecond">>
UCall(f, arg) == CASE f = "vid" -> Un("vid", arg) [] f = "vfirst" -> Bin("vfirst", arg, Const(IntV(1))) [] OTHER -> Bin("vsecond", Const(IntV(1)), arg)
UWanted(f, s, n) == s.un /\ s.lvl <= 3 /\ ((Tier # "quick" /\ (s.lvl <= 2 \/ (n % 3) = f)) \/ (s.lvl <= 2 /\ ~HasFn(s.e) /\ (n % 3) = f) \/ (s.lvl = 3 /\ (n % 30) = f))
UCells == Flat2([f \in 1..Len(UFns) |-> Flat2([n \in 1..Len(Shapes) |->
              IF UWanted(f - 1, Shapes[n], n)
              THEN <<[k |-> "txt", cell |-> "text fnarg fn=" \o UFns[f] \o " shape=" \o ShapeName(Shapes[n].e) \o " ctx=alone", elem |-> Elems[1], elems |-> Elems,
                      allforms |-> TRUE, items |-> <<[k |-> "atom", t |-> UCall(UFns[f], Shapes[n].e)]>>]>>
              ELSE <<>>])])
Cells == UCells \o Flat2([f \in 1..Len(Fns) |-> Flat2([pos \in 1..2 |-> Flat2([n \in 1..Len(Shapes) |-> Flat2([c \in 1..Len(Ctxs) |->
             (IF Wanted(Fns[f], pos, Shapes[n], n, Ctxs[c]) THEN <<EqCase(Fns[f], pos, Shapes[n], Ctxs[c])>> ELSE <<>>)
             \o (IF TxtWanted(Fns[f], pos, Shapes[n], n, Ctxs[c]) THEN <<TxtCase(Fns[f], pos, Shapes[n], Ctxs[c])>> ELSE <<>>)])])])])

VARIABLE done
Init == done = FALSE
Next == ~done /\ done' = TRUE /\ ndJsonSerialize("c14fn.ndjson", Cells)
        /\ PrintT(<<"NCELLS", Len(Cells), Len(Shapes), Len(Level1), Len(Level2), Len(Level3), Len(Level4)>>)
Spec == Init /\ [][Next]_done
=============================================================================
