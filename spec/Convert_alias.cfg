SPECIFICATION Spec
CONSTANTS MaxNodes = 3 Aliasing = TRUE
INVARIANTS NoInterference
CHECK_DEADLOCK FALSE
