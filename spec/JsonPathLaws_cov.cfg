SPECIFICATION Spec
CONSTANTS MaxLen = 1
CHECK_DEADLOCK FALSE
