SPECIFICATION Spec
CONSTANTS
  TreeNames = {"t_top", "t_member", "mixed", "htmlkey", "t_ns"}
  WrapMaps = {"none", "wrap", "map", "both"}
  SchemeNames = {"off", "ansi", "reset", "nokey", "markup"}
  Styles = {0, 1, 2}
INVARIANTS Accepted Perturbed StripLaw
CHECK_DEADLOCK FALSE
