------------------------------ MODULE DiffAlike ------------------------------
(* Behaviour generation for C19, paths that PRINT alike.  alt.Path.String() writes an index as *)
(* "[i]" and a key as its text, with a "." before every key but the first component; object    *)
(* keys may contain those very characters, so two DIFFERENT locations of one tree can have the *)
(* same text: <<"a.b">> and <<"a", "b">>, <<"a[1]">> and <<"a", 1>>, <<".b">> and <<"", "b">>,  *)
(* <<"a.1">> and <<"a", "1">>.  Print models Path.String() on character sequences (Chars gives *)
(* the characters of every key of the alphabet); TLC enumerates the trees of a small grammar   *)
(* over that alphabet, keeps those with two leaf locations that print alike and perturbs one,   *)
(* the other or both of them (and a third leaf), so that a result keyed, sorted or merged by   *)
(* the printed form loses or duplicates a path.  The pairs are judged by the ordinary laws of   *)
(* Diff.tla (paths are compared component by component, never by their text).  Every pair is    *)
(* an initial state; printed in the case format of DiffGen.                                     *)
EXTENDS Diff, Json
CONSTANT AlikeFull     \* TRUE: also the wrapped variants and kind-changing perturbations

RootKeys  == {"a", "b", "a.b", "a[1]", "a.b.b", "a.b[1]", "", ".b", "a.1", "a.[1]", "1"}
InnerKeys == {"b", "1", "[1]", ""}
Chars(k) == CASE k = "a" -> <<"a">> [] k = "b" -> <<"b">> [] k = "1" -> <<"1">> [] k = "" -> <<>>
              [] k = "a.b" -> <<"a", ".", "b">> [] k = "a[1]" -> <<"a", "[", "1", "]">>
              [] k = "a.b.b" -> <<"a", ".", "b", ".", "b">> [] k = "a.b[1]" -> <<"a", ".", "b", "[", "1", "]">>
              [] k = ".b" -> <<".", "b">> [] k = "a.1" -> <<"a", ".", "1">> [] k = "a.[1]" -> <<"a", ".", "[", "1", "]">>
              [] k = "[1]" -> <<"[", "1", "]">>
Digit(i) == <<"0", "1", "2", "3">>[i + 1]
\* alt.Path.String(): for i, a := range p { int: "[%d]"; string: if 0 < i { '.' }; the key }
RECURSIVE PrintFrom(_, _)
PrintFrom(P, i) == IF i > Len(P) THEN <<>>
                   ELSE (IF P[i].t = "i" THEN <<"[", Digit(P[i].v), "]">>
                         ELSE (IF i > 1 THEN <<".">> ELSE <<>>) \o Chars(P[i].v)) \o PrintFrom(P, i + 1)
PathText(P) == PrintFrom(P, 1)
Alike(P, Q) == P # Q /\ PathText(P) = PathText(Q)

\* member values: a leaf, or one to two levels of containers over the inner keys / indexes 0..1
Members == {In(1)} \cup {Obj(<<k>>, <<In(2)>>) : k \in InnerKeys} \cup {Arr(<<In(3), In(4)>>)}
           \cup {Obj(<<k>>, <<Obj(<<k2>>, <<In(5)>>)>>) : k \in {"b", ""}, k2 \in {"b", "1"}}
           \cup {Obj(<<k>>, <<Arr(<<In(6), In(7)>>)>>) : k \in {"b"}}
Leafs(x) == {p \in Locs(x, <<>>) : At(x, p).t \notin {"arr", "obj"}}
AlikePairs(x) == {pq \in Leafs(x) \X Leafs(x) : Alike(pq[1], pq[2])}
\* root objects with two members (keys in any order: the harness builds maps) of which the leaf locations print alike somewhere
Bases == {x \in {Obj(<<k1, k2>>, <<m1, m2>>) : k1 \in RootKeys, k2 \in RootKeys, m1 \in Members, m2 \in Members} :
             x.k[1] # x.k[2] /\ AlikePairs(x) # {}}
Wraps == IF AlikeFull THEN {"none", "arr", "obj"} ELSE {"none", "arr"}
WrapIn(w, x) == IF w = "arr" THEN Arr(<<In(0), x>>) ELSE IF w = "obj" THEN Obj(<<"a">>, <<x>>) ELSE x
Pre(w) == IF w = "arr" THEN <<Idx(1)>> ELSE IF w = "obj" THEN <<Key("a")>> ELSE <<>>

Repl(v) == IF AlikeFull THEN {In(v.v + 10), St("x")} ELSE {In(v.v + 10)}
\* perturbed copies: both alike leaves, one of them, both and a third leaf
Variants(x, P, Q) ==
   LET both == {Put(Put(x, P, r1), Q, r2) : r1 \in Repl(At(x, P)), r2 \in Repl(At(x, Q))} IN
   both \cup {Put(x, P, In(At(x, P).v + 10))}
        \cup {Put(y, R, In(At(x, R).v + 10)) : y \in both, R \in Leafs(x) \ {P, Q}}

AlikeCasesSet == UNION {UNION {{[a |-> WrapIn(w, x), b |-> WrapIn(w, y), P |-> Pre(w) \o pq[1], Q |-> Pre(w) \o pq[2]] :
                                   y \in Variants(x, pq[1], pq[2]), w \in Wraps} : pq \in AlikePairs(x)} : x \in Bases}

VARIABLES tp, tq
AlikeIgs == {{}, {tp}, {tq}, {[tp EXCEPT ![Len(tp)] = Wild]}}
AlikeInit == \E cs \in AlikeCasesSet : a = cs.a /\ b = cs.b /\ tp = cs.P /\ tq = cs.Q /\ np = 2 /\ touched = {} /\ phase = "pert"
AlikeNext == FALSE /\ UNCHANGED <<vars, tp, tq>>
Emit == PrintT(<<"CASE", ToJson([a |-> a, b |-> b, np |-> np, igs |-> AlikeIgs])>>)
\* design-level sanity: the two marked locations are distinct leaves of a that print alike, and at least one of them differs
AlikeOK == /\ tp # tq /\ PathText(tp) = PathText(tq)
           /\ tp \in Locs(a, <<>>) /\ tq \in Locs(a, <<>>)
           /\ \E T \in TruthNow : T.p \in {tp, tq}
=============================================================================
