--------------------------- MODULE JsonValue ---------------------------
(* Denotation of RFC 8259 texts (C02): what value a valid JSON text denotes, as a       *)
(* recursive-descent reading of the same grammar JsonText recognises, and the relation   *)
(* `Allowed` between that denotation and what an implementation may return for it.       *)
(* Numbers are exact decimals [neg, digits, exp10] (digit sequences: TLC integers are    *)
(* 32-bit); strings are byte sequences; objects keep their member LIST in source order    *)
(* (last duplicate wins when compared with a map).                                       *)
EXTENDS JsonText

\* ---------------------------------------------------------------- exact decimals
\* [neg, digits, exp10] denotes (-1)^neg * digits * 10^exp10; digits has no leading and no trailing zero; zero is <<>>
RECURSIVE StripLead(_), StripTrail(_)
StripLead(d) == IF d # <<>> /\ d[1] = 0 THEN StripLead(Tail(d)) ELSE d
StripTrail(d) == IF d # <<>> /\ d[Len(d)] = 0 THEN StripTrail(SubSeq(d, 1, Len(d) - 1)) ELSE d
RECURSIVE NatOf(_)
NatOf(d) == IF d = <<>> THEN 0 ELSE NatOf(SubSeq(d, 1, Len(d) - 1)) * 10 + d[Len(d)]
MkDec(neg, idig, fdig, eneg, edig) ==
  LET all == StripLead(idig \o fdig)
      sig == StripTrail(all)
      e   == (IF eneg THEN 0 - NatOf(edig) ELSE NatOf(edig)) - Len(fdig) + (Len(all) - Len(sig))
  IN IF sig = <<>> THEN [neg |-> FALSE, digits |-> <<>>, exp10 |-> 0]
     ELSE [neg |-> neg, digits |-> sig, exp10 |-> e]
IsZero(a) == a.digits = <<>>
Sgn(n) == IF n < 0 THEN -1 ELSE IF n > 0 THEN 1 ELSE 0
RECURSIVE LexCmp(_, _, _)
LexCmp(a, b, k) == IF k > Len(a) /\ k > Len(b) THEN 0
                   ELSE LET x == IF k <= Len(a) THEN a[k] ELSE 0
                            y == IF k <= Len(b) THEN b[k] ELSE 0
                        IN IF x # y THEN Sgn(x - y) ELSE LexCmp(a, b, k + 1)
\* compare magnitudes
MagCmp(a, b) == IF IsZero(a) /\ IsZero(b) THEN 0 ELSE IF IsZero(a) THEN -1 ELSE IF IsZero(b) THEN 1
                ELSE LET ma == Len(a.digits) + a.exp10
                         mb == Len(b.digits) + b.exp10
                     IN IF ma # mb THEN Sgn(ma - mb) ELSE LexCmp(a.digits, b.digits, 1)
DecCmp(a, b) == IF a.neg /\ ~b.neg THEN (IF IsZero(a) /\ IsZero(b) THEN 0 ELSE -1)
                ELSE IF ~a.neg /\ b.neg THEN (IF IsZero(a) /\ IsZero(b) THEN 0 ELSE 1)
                ELSE IF a.neg THEN MagCmp(b, a) ELSE MagCmp(a, b)
DecEq(a, b) == DecCmp(a, b) = 0
MaxInt64 == [neg |-> FALSE, digits |-> <<9,2,2,3,3,7,2,0,3,6,8,5,4,7,7,5,8,0,7>>, exp10 |-> 0]
MinInt64Mag == [neg |-> FALSE, digits |-> <<9,2,2,3,3,7,2,0,3,6,8,5,4,7,7,5,8,0,8>>, exp10 |-> 0]
\* "a plain integer literal whose MAGNITUDE fits int64": -9223372036854775808 is therefore not covered by the int rule
FitsInt64(d) == MagCmp(d, MaxInt64) <= 0

\* ---------------------------------------------------------------- reading a number literal
RECURSIVE DigitsFrom(_, _)
DigitsFrom(x, p) == IF At(x, p) \in Digit THEN <<At(x, p) - 48>> \o DigitsFrom(x, p + 1) ELSE <<>>
\* p at the first byte of a number (valid input assumed); result: the literal's parts and the position after it
PNum(x, p) ==
  LET neg == At(x, p) = 45
      p1  == IF neg THEN p + 1 ELSE p
      idig == DigitsFrom(x, p1)
      p2  == p1 + Len(idig)
      hasF == At(x, p2) = 46
      fdig == IF hasF THEN DigitsFrom(x, p2 + 1) ELSE <<>>
      p3  == IF hasF THEN p2 + 1 + Len(fdig) ELSE p2
      hasE == At(x, p3) \in {69, 101}
      esign == hasE /\ At(x, p3 + 1) \in {43, 45}
      eneg == hasE /\ At(x, p3 + 1) = 45
      p4  == IF hasE THEN (IF esign THEN p3 + 2 ELSE p3 + 1) ELSE p3
      edig == IF hasE THEN DigitsFrom(x, p4) ELSE <<>>
      p5  == p4 + Len(edig)
      e1  == StripLead(edig)           \* exponent digits without leading zeros; more than 7 of them is beyond TLC's integers
  IN [v |-> [t |-> "num", dec |-> MkDec(neg, idig, fdig, eneg, IF Len(e1) > 7 THEN <<>> ELSE e1),
             plain |-> ~hasF /\ ~hasE, minus |-> neg, huge |-> Len(e1) > 7],
      p |-> p5]

\* ---------------------------------------------------------------- reading a string
HexVal(b) == IF b \in 48..57 THEN b - 48 ELSE IF b \in 65..70 THEN b - 55 ELSE b - 87
U16(x, p) == HexVal(x[p]) * 4096 + HexVal(x[p + 1]) * 256 + HexVal(x[p + 2]) * 16 + HexVal(x[p + 3])
Utf8(cp) == IF cp < 128 THEN <<cp>>
            ELSE IF cp < 2048 THEN <<192 + (cp \div 64), 128 + (cp % 64)>>
            ELSE IF cp < 65536 THEN <<224 + (cp \div 4096), 128 + ((cp \div 64) % 64), 128 + (cp % 64)>>
            ELSE <<240 + (cp \div 262144), 128 + ((cp \div 4096) % 64), 128 + ((cp \div 64) % 64), 128 + (cp % 64)>>
IsHigh(u) == u >= 55296 /\ u <= 56319
IsLow(u)  == u >= 56320 /\ u <= 57343
EscByte(b) == CASE b = 98 -> 8 [] b = 102 -> 12 [] b = 110 -> 10 [] b = 114 -> 13 [] b = 116 -> 9 [] OTHER -> b
FFFD == <<239, 191, 189>>
\* p just after the opening quote. Two decodings are returned: a = a lone surrogate becomes its 3-byte generalised
\* encoding, b = a lone surrogate becomes U+FFFD (the statement fixes only pairs); they differ in nothing else.
\* A third reading c is NOT allowed; it is the defective "each half of a pair on its own -> two U+FFFD" and only names the locus.
RECURSIVE PStrBody(_, _, _, _, _)
PStrBody(x, p, a, b, c) ==
  LET ch == x[p] IN
  IF ch = 34 THEN [a |-> a, b |-> b, c |-> c, p |-> p + 1]
  ELSE IF ch # 92 THEN PStrBody(x, p + 1, Append(a, ch), Append(b, ch), Append(c, ch))
  ELSE IF x[p + 1] # 117 THEN PStrBody(x, p + 2, Append(a, EscByte(x[p + 1])), Append(b, EscByte(x[p + 1])), Append(c, EscByte(x[p + 1])))
  ELSE LET u == U16(x, p + 2) IN
       IF IsHigh(u) /\ At(x, p + 6) = 92 /\ At(x, p + 7) = 117 /\ IsLow(U16(x, p + 8))
       THEN LET cp == 65536 + (u - 55296) * 1024 + (U16(x, p + 8) - 56320) IN
            PStrBody(x, p + 12, a \o Utf8(cp), b \o Utf8(cp), c \o FFFD \o FFFD)
       ELSE IF IsHigh(u) \/ IsLow(u) THEN PStrBody(x, p + 6, a \o Utf8(u), b \o FFFD, c \o FFFD)
       ELSE PStrBody(x, p + 6, a \o Utf8(u), b \o Utf8(u), c \o Utf8(u))
PStr(x, p) == PStrBody(x, p + 1, <<>>, <<>>, <<>>)

\* ---------------------------------------------------------------- reading a value
RECURSIVE PValue(_, _), PElems(_, _, _), PMembers(_, _, _, _)
PValue(x, p0) ==
  LET p == GWs(x, p0)
      ch == At(x, p)
  IN CASE ch = 110 -> [v |-> [t |-> "null"], p |-> p + 4]
       [] ch = 116 -> [v |-> [t |-> "bool", v |-> TRUE], p |-> p + 4]
       [] ch = 102 -> [v |-> [t |-> "bool", v |-> FALSE], p |-> p + 5]
       [] ch = 34 -> LET s == PStr(x, p) IN [v |-> [t |-> "str", a |-> s.a, b |-> s.b, c |-> s.c], p |-> s.p]
       [] ch = 91 -> LET q == GWs(x, p + 1) IN
                     IF At(x, q) = 93 THEN [v |-> [t |-> "arr", v |-> <<>>], p |-> q + 1] ELSE PElems(x, q, <<>>)
       [] ch = 123 -> LET q == GWs(x, p + 1) IN
                      IF At(x, q) = 125 THEN [v |-> [t |-> "obj", k |-> <<>>, v |-> <<>>], p |-> q + 1] ELSE PMembers(x, q, <<>>, <<>>)
       [] OTHER -> PNum(x, p)
PElems(x, p, acc) ==
  LET e == PValue(x, p)
      q == GWs(x, e.p)
  IN IF At(x, q) = 44 THEN PElems(x, q + 1, Append(acc, e.v))
     ELSE [v |-> [t |-> "arr", v |-> Append(acc, e.v)], p |-> q + 1]
PMembers(x, p0, ks, vs) ==
  LET p == GWs(x, p0)
      k == PStr(x, p)
      c == GWs(x, k.p)                 \* the colon
      e == PValue(x, c + 1)
      q == GWs(x, e.p)
      ks2 == Append(ks, [a |-> k.a, b |-> k.b, c |-> k.c])
      vs2 == Append(vs, e.v)
  IN IF At(x, q) = 44 THEN PMembers(x, q + 1, ks2, vs2)
     ELSE [v |-> [t |-> "obj", k |-> ks2, v |-> vs2], p |-> q + 1]
\* the value denoted by a valid JSON text (BOM and surrounding whitespace skipped)
Denote(x) == PValue(x, GBom(x)).v

\* ---------------------------------------------------------------- what an implementation may return
\* r is the projection of the returned Go value (harness/absval with Dec and FloatMid):
\*   [t: null] [t: bool, v] [t: int, dec] [t: flt, lo, hi | inf, thr] [t: big, dec, text] [t: str, v: bytes] [t: arr, v] [t: obj, k, v]
RECURSIVE AllDigits(_, _)
AllDigits(x, p) == IF p > Len(x) THEN TRUE ELSE x[p] \in Digit /\ AllDigits(x, p + 1)
NumOK(lit, r) ==
  IF lit.huge THEN r.t \in {"int", "flt", "big"}      \* exponents beyond 10^7 digits: out of the arithmetic used here
  ELSE
  /\ r.t \in {"int", "flt", "big"}
  /\ (lit.plain /\ FitsInt64(lit.dec) /\ ~(lit.minus /\ IsZero(lit.dec))) => r.t = "int"
  /\ r.t = "int" => DecEq(r.dec, lit.dec)
  \* an infinity is never the float64 "nearest to" a literal: every digit is lost (a literal beyond the float64 range comes back as
  \* json.Number / gen.Big; until fix 1e400->Number the overflow reading was tolerated here)
  /\ r.t = "flt" => r.inf = 0 /\ DecCmp(r.lo, lit.dec) <= 0 /\ DecCmp(lit.dec, r.hi) <= 0
  /\ r.t = "big" => /\ "digits" \in DOMAIN r.dec          \* the text is a decimal literal at all
                    /\ DecEq(r.dec, lit.dec)
                    /\ LET n == PNum(r.text, 1) IN n.p = Len(r.text) + 1 /\ Accepts(RunSeq(S0, r.text))
RECURSIVE Matches(_, _)
LastIdx(ks, key) == CHOOSE i \in 1..Len(ks) : (ks[i].a = key \/ ks[i].b = key) /\ \A j \in (i + 1)..Len(ks) : ~(ks[j].a = key \/ ks[j].b = key)
Matches(s, r) ==
  CASE s.t = "null" -> r.t = "null"
    [] s.t = "bool" -> r.t = "bool" /\ r.v = s.v
    [] s.t = "str" -> r.t = "str" /\ (r.v = s.a \/ r.v = s.b)
    [] s.t = "num" -> NumOK(s, r)
    [] s.t = "arr" -> r.t = "arr" /\ Len(r.v) = Len(s.v) /\ \A i \in 1..Len(s.v) : Matches(s.v[i], r.v[i])
    [] s.t = "obj" -> /\ r.t = "obj"
                      \* same key set, no invented and no lost member, each value is that of the LAST duplicate
                      /\ \A i \in 1..Len(s.k) : \E j \in 1..Len(r.k) : r.k[j] = s.k[i].a \/ r.k[j] = s.k[i].b
                      /\ \A j \in 1..Len(r.k) : /\ \E i \in 1..Len(s.k) : r.k[j] = s.k[i].a \/ r.k[j] = s.k[i].b
                                                /\ Matches(s.v[LastIdx(s.k, r.k[j])], r.v[j])
                      /\ \A j1, j2 \in 1..Len(r.k) : r.k[j1] = r.k[j2] => j1 = j2
\* coarse shape of the first mismatching leaf, used only to name the locus
RECURSIVE Blame(_, _)
Top8 == [neg |-> FALSE, digits |-> <<9,2,2,3,3,7,2,0,3,6,8,5,4,7,7,5,8>>, exp10 |-> 2]     \* 9223372036854775800
NumShape(n) == <<"num", IF n.plain THEN (IF FitsInt64(n.dec) /\ MagCmp(n.dec, Top8) >= 0 THEN "plain-int64-top8" ELSE "plain") ELSE "frac/exp",
                 IF Len(n.dec.digits) <= 15 THEN "<=15d" ELSE IF Len(n.dec.digits) <= 19 THEN "16-19d" ELSE ">19d",
                 IF IsZero(n.dec) THEN "zero" ELSE IF Len(n.dec.digits) + n.dec.exp10 > 19 THEN "mag>1e19"
                 ELSE IF Len(n.dec.digits) + n.dec.exp10 < -5 THEN "mag<1e-5" ELSE "mid">>
Blame(s, r) ==
  CASE s.t = "num" -> NumShape(s) \o <<IF r.t \in {"int", "flt", "big"} THEN r.t ELSE "kind">>
    [] s.t = "str" -> <<"str", IF r.t # "str" THEN "kind" ELSE IF r.v = s.c THEN "pair-as-two-U+FFFD" ELSE "bytes">>
    [] s.t = "arr" /\ r.t = "arr" /\ Len(r.v) = Len(s.v) ->
         LET i == CHOOSE i \in 1..Len(s.v) : ~Matches(s.v[i], r.v[i]) IN Blame(s.v[i], r.v[i])
    [] s.t = "obj" /\ r.t = "obj" ->
         IF \E j \in 1..Len(r.k) : (\E i \in 1..Len(s.k) : r.k[j] = s.k[i].a \/ r.k[j] = s.k[i].b) /\ ~Matches(s.v[LastIdx(s.k, r.k[j])], r.v[j])
         THEN LET j == CHOOSE j \in 1..Len(r.k) : (\E i \in 1..Len(s.k) : r.k[j] = s.k[i].a \/ r.k[j] = s.k[i].b) /\ ~Matches(s.v[LastIdx(s.k, r.k[j])], r.v[j])
              IN Blame(s.v[LastIdx(s.k, r.k[j])], r.v[j])
         ELSE <<"obj", IF /\ \A i \in 1..Len(s.k) : \E j \in 1..Len(r.k) : r.k[j] \in {s.k[i].a, s.k[i].b, s.k[i].c}
                          /\ \A j \in 1..Len(r.k) : \E i \in 1..Len(s.k) : r.k[j] \in {s.k[i].a, s.k[i].b, s.k[i].c}
                       THEN "key-pair-as-two-U+FFFD" ELSE "keys">>
    [] OTHER -> <<s.t, "kind/len">>
=============================================================================
