--------------------------- MODULE Asm ---------------------------
(* Assembly plans of ojg/asm (C20): a plan is a LISP-like AST evaluated against a root document   *)
(* {src, asm, ...}.  Exec is defined by structural recursion.  Each clause below is transcribed   *)
(* from the function's description string (asm.FnDocs(), package doc of asm) - NOT from the Go    *)
(* code.  Where a description is silent (wrong arity, wrong argument kind without "an error is    *)
(* raised", float formatting, results of inexact division, ...) the result is "any": the trace    *)
(* specification then demands only the generic obligations (Total, Deterministic, PrintRebuild,   *)
(* SrcFrame).  Functions without a clause are Opaque: "any".                                      *)
(*                                                                                                *)
(* Values (tagged, shared with the Go projection in harness/cmd/asmx):                            *)
(*   [t|->"null"] [t|->"bool",v|->B] [t|->"int",v|->n] [t|->"flt",q|-><<n,k>>] (= n/2^k, dyadic)  *)
(*   [t|->"str",v|-><<bytes>>] [t|->"arr",v|-><<..>>] [t|->"obj",m|->[key |-> value]]             *)
(* Plan nodes: values, [t|->"path",at|->B,fr|-><<[k|->"c"|"n"|"w"|"d", s|->key, i|->index]>>],    *)
(*   [t|->"call",fn|->name,a|-><<nodes>>], [t|->"pair",c|->node,v|->node] (a cond clause).        *)
(* API-level only: nothing here mirrors a private field of the implementation.                    *)
EXTENDS Integers, Sequences, TLC, FiniteSets

Null == [t |-> "null"]
Bool(b) == [t |-> "bool", v |-> b]
IntV(n) == [t |-> "int", v |-> n]
Flt(n, k) == [t |-> "flt", q |-> <<n, k>>]
Str(s) == [t |-> "str", v |-> s]
Arr(xs) == [t |-> "arr", v |-> xs]
Obj(m) == [t |-> "obj", m |-> m]
ValueTags == {"null", "bool", "int", "bigint", "flt", "str", "arr", "obj"}
ScalarTags == {"null", "bool", "int", "bigint", "flt", "str"}
\* integers outside TLC's 32-bit range are carried as sign + decimal digit sequence (as spec/JsonValue.tla does):
\* [t |-> "bigint", neg |-> B, d |-> <<digits, no leading zero>>]; the harness uses it exactly for |n| > 2^30

\* ------------------------------------------------------------------ dyadic rationals <<n, k>> = n / 2^k
RECURSIVE Pow2(_)
Pow2(k) == IF k <= 0 THEN 1 ELSE 2 * Pow2(k - 1)
RECURSIVE QNorm(_)
QNorm(q) == IF q[2] > 0 /\ q[1] % 2 = 0 THEN QNorm(<<q[1] \div 2, q[2] - 1>>) ELSE q
IsNum(v) == v.t = "int" \/ (v.t = "flt" /\ Len(v.q) = 2)          \* a number the dyadic arithmetic can handle
IsBig(v) == v.t = "bigint"
IsInt(v) == v.t \in {"int", "bigint"}
RECURSIVE DigitSeq(_)
DigitSeq(n) == IF n < 10 THEN <<n>> ELSE Append(DigitSeq(n \div 10), n % 10)
\* sign and magnitude of any integer value
INeg(v) == IF v.t = "int" THEN v.v < 0 ELSE v.neg
IMag(v) == IF v.t = "int" THEN DigitSeq(IF v.v < 0 THEN -v.v ELSE v.v) ELSE v.d
RECURSIVE SeqLt(_, _)
SeqLt(x, y) == IF x = <<>> THEN FALSE ELSE IF x[1] # y[1] THEN x[1] < y[1] ELSE SeqLt(Tail(x), Tail(y))
MagLt(x, y) == IF Len(x) # Len(y) THEN Len(x) < Len(y) ELSE SeqLt(x, y)
IsZeroI(v) == IMag(v) = <<0>>
\* exact order of two integers (int/int comparison is never approximate)
ILt(a, b) == IF IsZeroI(a) /\ IsZeroI(b) THEN FALSE
             ELSE IF INeg(a) /\ ~INeg(b) THEN TRUE ELSE IF ~INeg(a) /\ INeg(b) THEN FALSE
             ELSE IF INeg(a) THEN MagLt(IMag(b), IMag(a)) ELSE MagLt(IMag(a), IMag(b))
\* does a value contain a big integer / a float somewhere (mixed int/float comparison of big values is not described)
RECURSIVE HasBig(_), HasFlt(_)
HasBig(v) == CASE v.t = "bigint" -> TRUE
               [] v.t = "arr" -> \E j \in 1..Len(v.v) : HasBig(v.v[j])
               [] v.t = "obj" -> \E x \in DOMAIN v.m : HasBig(v.m[x])
               [] OTHER -> FALSE
HasFlt(v) == CASE v.t = "flt" -> TRUE
               [] v.t = "arr" -> \E j \in 1..Len(v.v) : HasFlt(v.v[j])
               [] v.t = "obj" -> \E x \in DOMAIN v.m : HasFlt(v.m[x])
               [] OTHER -> FALSE
Q(v) == IF v.t = "int" THEN <<v.v, 0>> ELSE v.q
Max(a, b) == IF a > b THEN a ELSE b
QAdd(a, b) == LET k == Max(a[2], b[2]) IN QNorm(<<a[1] * Pow2(k - a[2]) + b[1] * Pow2(k - b[2]), k>>)
QSub(a, b) == QAdd(a, <<-b[1], b[2]>>)
QMul(a, b) == QNorm(<<a[1] * b[1], a[2] + b[2]>>)
QLt(a, b) == a[1] * Pow2(b[2]) < b[1] * Pow2(a[2])
QEq(a, b) == QNorm(a) = QNorm(b)
\* exact dyadic quotient or <<>> (not representable: the statement's operand universe ends here)
QDiv(a, b) == LET n0 == a[1] * Pow2(b[2])
                  d0 == b[1] * Pow2(a[2])
                  n  == IF d0 < 0 THEN -n0 ELSE n0
                  d  == IF d0 < 0 THEN -d0 ELSE d0
                  js == {j \in 0..10 : (n * Pow2(j)) % d = 0}
              IN IF js = {} THEN <<>>
                 ELSE LET j == CHOOSE x \in js : \A y \in js : x <= y IN QNorm(<<(n * Pow2(j)) \div d, j>>)
Small(q) == q[1] < 100000 /\ q[1] > -100000 /\ q[2] <= 10
MkNum(q, isInt) == IF isInt THEN IntV(q[1]) ELSE Flt(q[1], q[2])

\* values compared "by value across int/float": the descriptions never say which Go number kind a result has
RECURSIVE Norm(_)
Norm(v) == CASE v.t = "int" -> [t |-> "num", q |-> <<v.v, 0>>]
             [] v.t = "flt" -> IF Len(v.q) = 2 THEN [t |-> "num", q |-> QNorm(v.q)] ELSE v
             [] v.t = "arr" -> [t |-> "arr", v |-> [j \in 1..Len(v.v) |-> Norm(v.v[j])]]
             [] v.t = "obj" -> [t |-> "obj", m |-> [x \in DOMAIN v.m |-> Norm(v.m[x])]]
             [] OTHER -> v
VEq(a, b) == Norm(a) = Norm(b)

RECURSIVE SLt(_, _)
SLt(a, b) == IF b = <<>> THEN FALSE ELSE IF a = <<>> THEN TRUE
             ELSE IF a[1] # b[1] THEN a[1] < b[1] ELSE SLt(Tail(a), Tail(b))

\* decimal digits of an integer as bytes
RECURSIVE Digits(_)
Digits(n) == IF n < 10 THEN <<48 + n>> ELSE Append(Digits(n \div 10), 48 + (n % 10))
IntText(n) == IF n < 0 THEN <<45>> \o Digits(-n) ELSE Digits(n)

\* ------------------------------------------------------------------ paths (child / nth are specified; the rest is opaque)
Simple(p) == \A j \in 1..Len(p.fr) : p.fr[j].k \in {"c", "n"}
Missing == [t |-> "missing"]
Idx(n, i) == IF i < 0 THEN n + i + 1 ELSE i + 1
RECURSIVE Look(_, _)
Look(v, fr) ==
  IF fr = <<>> THEN v
  ELSE LET f == fr[1] IN
       IF f.k = "c" THEN (IF v.t = "obj" /\ f.s \in DOMAIN v.m THEN Look(v.m[f.s], Tail(fr)) ELSE Missing)
       ELSE IF v.t = "arr" /\ Idx(Len(v.v), f.i) >= 1 /\ Idx(Len(v.v), f.i) <= Len(v.v)
            THEN Look(v.v[Idx(Len(v.v), f.i)], Tail(fr)) ELSE Missing

ErrR == [k |-> "err"]
AnyR == [k |-> "any"]
\* jp.SetOne / jp.Set on a child/nth path ("If the path to the child does not exist array and map elements are added.
\* An error is returned if it is not possible."): a scalar in the way is an error; creation of missing maps is specified;
\* the cells the jp documentation leaves open (child on an array, index on an object, index out of range, creation of
\* arrays, following an existing null) are "any".
RECURSIVE Put(_, _, _)
Put(node, fr, val) ==
  LET f == fr[1]
      last == Len(fr) = 1
      Wrap(r, mk(_)) == IF r.k = "ok" THEN [k |-> "ok", v |-> mk(r.v)] ELSE r
  IN
  IF f.k = "c" THEN
     IF node.t = "obj" THEN
        IF last THEN [k |-> "ok", v |-> Obj((f.s :> val) @@ node.m)]
        ELSE IF f.s \in DOMAIN node.m
             THEN (IF node.m[f.s].t = "null" THEN AnyR
                   ELSE Wrap(Put(node.m[f.s], Tail(fr), val), LAMBDA x : Obj((f.s :> x) @@ node.m)))
             ELSE IF fr[2].k = "c" THEN Wrap(Put(Obj(<<>>), Tail(fr), val), LAMBDA x : Obj((f.s :> x) @@ node.m))
             ELSE AnyR
     ELSE IF node.t \in {"arr", "other"} THEN AnyR ELSE ErrR
  ELSE
     IF node.t = "arr" THEN
        LET n == Len(node.v)
            j == Idx(n, f.i) IN
        IF j < 1 \/ j > n THEN AnyR
        ELSE IF last THEN [k |-> "ok", v |-> Arr([node.v EXCEPT ![j] = val])]
        ELSE IF node.v[j].t = "null" THEN AnyR
        ELSE Wrap(Put(node.v[j], Tail(fr), val), LAMBDA x : Arr([node.v EXCEPT ![j] = x]))
     ELSE IF node.t \in {"obj", "other"} THEN AnyR ELSE ErrR

\* jp.DelOne / jp.Del: removing a member of an object reached through existing containers is specified
RECURSIVE Del(_, _)
Del(node, fr) ==
  LET f == fr[1]
      last == Len(fr) = 1
      Wrap(r, mk(_)) == IF r.k = "ok" THEN [k |-> "ok", v |-> mk(r.v)] ELSE r
  IN
  IF f.k = "c" /\ node.t = "obj" THEN
     IF last THEN [k |-> "ok", v |-> Obj([x \in (DOMAIN node.m) \ {f.s} |-> node.m[x]])]
     ELSE IF f.s \in DOMAIN node.m /\ node.m[f.s].t \in {"obj", "arr"}
          THEN Wrap(Del(node.m[f.s], Tail(fr)), LAMBDA x : Obj((f.s :> x) @@ node.m))
          ELSE AnyR
  ELSE IF f.k = "n" /\ node.t = "arr" /\ ~last /\ Idx(Len(node.v), f.i) >= 1 /\ Idx(Len(node.v), f.i) <= Len(node.v)
          /\ node.v[Idx(Len(node.v), f.i)].t \in {"obj", "arr"}
       THEN Wrap(Del(node.v[Idx(Len(node.v), f.i)], Tail(fr)), LAMBDA x : Arr([node.v EXCEPT ![Idx(Len(node.v), f.i)] = x]))
       ELSE AnyR

\* ------------------------------------------------------------------ function names
Canon(fn) == CASE fn \in {"==", "eq", "equal"} -> "equal"
               [] fn \in {"!=", "neq"} -> "neq"
               [] fn \in {"<", "lt"} -> "lt"
               [] fn \in {"<=", "lte"} -> "lte"
               [] fn \in {">", "gt"} -> "gt"
               [] fn \in {">=", "gte"} -> "gte"
               [] fn \in {"+", "sum"} -> "sum"
               [] fn \in {"-", "dif"} -> "dif"
               [] fn \in {"*", "product"} -> "product"
               [] fn \in {"/", "quotient"} -> "quotient"
               [] fn \in {"nil?", "null?"} -> "null?"
               [] OTHER -> fn
\* functions documented to modify their target
Mutators == {"set", "setall", "del", "delall", "append"}
\* functions with a clause in Apply/Call below; every other function is Opaque
Specified == {"each", "at", "root", "asm", "set", "setall", "get", "getall", "del", "delall", "cond", "and", "or", "not", "equal", "neq",
              "lt", "lte", "gt", "gte", "sum", "dif", "product", "quotient", "mod", "list", "map?", "array?", "string?",
              "num?", "bool?", "null?", "size", "nth", "append", "reverse", "sort", "quote"}

\* ------------------------------------------------------------------ evaluation
\* at: the local (@) value.  mode "root": @ is the root itself (top level);  mode "det": some other value v - the
\*     statement does not say whether it shares structure with the root or the plan, so mutating through it is "any".
\* al: a container value has been stored into the root by set/setall; the descriptions do not say whether it is
\*     copied, so every later mutation is "any" (allowance: aliasing).
\* rd: the READING of a clause the descriptions leave open but that must be the same in every call: the sign rule of mod
\*     ("trunc": sign of the dividend, "floor": sign of the divisor, "euclid": never negative).  A plan is judged against
\*     every reading; the code has to agree with ONE of them throughout the plan.
\*     Likewise the reading of sum over numbers and strings: "sumcat" or (any other rd) the left fold, see SumMixed (a
\*     plan that uses both mod and a mixed sum is judged for "sumcat" with the truncating mod only).
AtRoot == [mode |-> "root", v |-> Null, al |-> FALSE, rd |-> "trunc"]
ModReadings == {"trunc", "floor", "euclid"}
ModRd(vs, rd) ==
  IF Len(vs) # 2 THEN AnyR
  ELSE IF ~IsInt(vs[1]) \/ ~IsInt(vs[2]) THEN ErrR        \* "An error is raised if the wrong argument types are given"
  ELSE IF IsBig(vs[1]) \/ IsBig(vs[2]) THEN AnyR
  ELSE IF vs[2].v = 0 THEN AnyR                           \* a zero modulus is not described
  ELSE LET a == vs[1].v
           b == vs[2].v
           ab == IF b < 0 THEN -b ELSE b
           m == a % ab                                    \* 0 .. ab-1
           neg == IF m = 0 THEN 0 ELSE m - ab IN
       [k |-> "ok", v |-> IntV(CASE rd = "euclid" -> m
                                 [] rd = "floor" -> (IF b > 0 THEN m ELSE neg)
                                 [] OTHER -> (IF a >= 0 THEN m ELSE neg))]
AtVal(root, at) == IF at.mode = "root" THEN root ELSE at.v
Ok(v, root, at) == [k |-> "ok", v |-> v, isAt |-> FALSE, root |-> root, at |-> at]

\* strict functions on evaluated argument values: result [k |-> "ok", v |-> value] | ErrR | AnyR
Arith(f, vs) ==
  IF \E j \in 1..Len(vs) : ~IsNum(vs[j]) /\ vs[j].t \notin {"flt", "bigint"} THEN ErrR   \* "If any of the arguments are not a number an error is raised"
  ELSE IF \E j \in 1..Len(vs) : ~IsNum(vs[j]) THEN AnyR                      \* a float outside the dyadic universe, a big integer (overflow is not described)
  ELSE IF vs = <<>> THEN AnyR                                               \* the sum/product of nothing is not described
  ELSE LET RECURSIVE Fold(_, _, _)
           Fold(acc, isInt, j) ==
             IF j > Len(vs) THEN [k |-> "ok", v |-> MkNum(acc, isInt)]
             ELSE IF ~Small(acc) THEN AnyR
             ELSE LET b == Q(vs[j])
                      bi == vs[j].t = "int" IN
                  CASE f = "sum" -> Fold(QAdd(acc, b), isInt /\ bi, j + 1)
                    [] f = "dif" -> Fold(QSub(acc, b), isInt /\ bi, j + 1)
                    [] f = "product" -> Fold(QMul(acc, b), isInt /\ bi, j + 1)
                    [] f = "quotient" ->
                         IF b[1] = 0 THEN ErrR                               \* "If an attempt is made to divide by zero an error will be raised"
                         ELSE LET d == QDiv(acc, b) IN
                              IF d = <<>> THEN AnyR                          \* inexact quotient: outside the operand universe
                              ELSE IF isInt /\ bi /\ d[2] # 0 THEN AnyR      \* int/int with a remainder: truncation is not described
                              ELSE Fold(d, isInt /\ bi, j + 1)
       IN Fold(Q(vs[1]), vs[1].t = "int", 2)

Compare(f, vs) ==
  LET nums == \A j \in 1..Len(vs) : IsNum(vs[j])
      strs == \A j \in 1..Len(vs) : vs[j].t = "str"
      rel(a, b) == CASE f = "lt" -> (IF nums THEN QLt(Q(a), Q(b)) ELSE SLt(a.v, b.v))
                     [] f = "gt" -> (IF nums THEN QLt(Q(b), Q(a)) ELSE SLt(b.v, a.v))
                     [] f = "lte" -> (IF nums THEN ~QLt(Q(b), Q(a)) ELSE ~SLt(b.v, a.v))
                     [] f = "gte" -> (IF nums THEN ~QLt(Q(a), Q(b)) ELSE ~SLt(a.v, b.v))
      ints == \A j \in 1..Len(vs) : IsInt(vs[j])
      irel(a, b) == CASE f = "lt" -> ILt(a, b) [] f = "gt" -> ILt(b, a) [] f = "lte" -> ~ILt(b, a) [] f = "gte" -> ~ILt(a, b)
  IN IF vs = <<>> THEN AnyR
     \* integers are compared exactly, whatever their size; a big integer against a float is not described
     ELSE IF ints THEN [k |-> "ok", v |-> Bool(\A i, j \in 1..Len(vs) : i < j => irel(vs[i], vs[j]))]
     ELSE IF ~(nums \/ strs) THEN AnyR    \* mixed or other kinds: the descriptions are silent
     ELSE [k |-> "ok", v |-> Bool(\A i, j \in 1..Len(vs) : i < j => rel(vs[i], vs[j]))]

\* sum over numbers AND strings: "If any argument is a string then the result will be a string".  How the numbers enter the
\* string is not described; two readings are allowed (the code has to follow ONE of them throughout a plan, see rd):
\*   fold (default): the arguments are added from left to right, number + number is arithmetic, anything + string is
\*                   concatenation: [sum 1 2.5 x 1] = "3.5x1";
\*   "sumcat":       every argument is written out, the texts are concatenated: "12.5x1".
\* Number texts: integers in decimal; floats only where the usual formats agree (non-integral, one or two binary fraction
\* digits: 2.5, -0.25); any other float that would have to be written makes the result "any".
FltText(q0) == LET q == QNorm(q0)
                   m == IF q[1] < 0 THEN -q[1] ELSE q[1]
                   d == Pow2(q[2]) IN
               IF q[2] \notin {1, 2} THEN <<>>
               ELSE (IF q[1] < 0 THEN <<45>> ELSE <<>>) \o Digits(m \div d) \o <<46>>
                    \o (IF q[2] = 1 THEN <<53>> ELSE IF (m % d) = 1 THEN <<50, 53>> ELSE <<55, 53>>)
IsMixedSum(vs) == (\E j \in 1..Len(vs) : vs[j].t = "str") /\ (\E j \in 1..Len(vs) : vs[j].t # "str")
                  /\ \A j \in 1..Len(vs) : vs[j].t = "str" \/ IsNum(vs[j])
SumMixed(vs, rd) ==
  LET n == Len(vs)
      txt(v) == IF v.t = "str" THEN v.v ELSE IF v.t = "int" THEN IntText(v.v) ELSE FltText(v.q)
      bad(v) == v.t # "str" /\ txt(v) = <<>>
      RECURSIVE Cat(_), Fold(_, _, _)
      Cat(j) == IF j > n THEN <<>> ELSE txt(vs[j]) \o Cat(j + 1)
      Fold(acc, isInt, j) ==            \* (a string follows: j never exceeds n)
        IF vs[j].t = "str"
        THEN LET num == MkNum(acc, isInt) IN
             IF (j > 1 /\ bad(num)) \/ \E i \in j..n : bad(vs[i]) THEN AnyR
             ELSE [k |-> "ok", v |-> Str((IF j > 1 THEN txt(num) ELSE <<>>) \o Cat(j))]
        ELSE IF ~Small(acc) THEN AnyR
        ELSE Fold(QAdd(acc, Q(vs[j])), isInt /\ vs[j].t = "int", j + 1)
  IN IF rd = "sumcat" THEN (IF \E i \in 1..n : bad(vs[i]) THEN AnyR ELSE [k |-> "ok", v |-> Str(Cat(1))])
     ELSE Fold(<<0, 0>>, TRUE, 1)

Apply(f, vs) ==
  LET n == Len(vs)
      V(x) == [k |-> "ok", v |-> x] IN
  CASE f \in {"sum"} ->
         IF n > 0 /\ \A j \in 1..n : vs[j].t = "str"
         THEN LET RECURSIVE Cat(_)
                  Cat(j) == IF j > n THEN <<>> ELSE vs[j].v \o Cat(j + 1) IN V(Str(Cat(1)))
         ELSE IF \E j \in 1..n : vs[j].t = "str"
              THEN (IF \E j \in 1..n : vs[j].t \notin {"str", "int", "bigint", "flt"} THEN ErrR ELSE AnyR)  \* (numbers mixed with strings: SumMixed, by reading)
              ELSE Arith(f, vs)
    [] f \in {"dif", "product", "quotient"} -> Arith(f, vs)
    [] f = "mod" -> IF n # 2 THEN AnyR
                    ELSE IF ~IsInt(vs[1]) \/ ~IsInt(vs[2]) THEN ErrR        \* "An error is raised if the wrong argument types are given"
                    ELSE IF IsBig(vs[1]) \/ IsBig(vs[2]) THEN AnyR
                    ELSE IF vs[2].v <= 0 \/ vs[1].v < 0 THEN AnyR           \* sign conventions / zero modulus are not described
                    ELSE V(IntV(vs[1].v % vs[2].v))
    [] f \in {"lt", "lte", "gt", "gte"} -> Compare(f, vs)
    \* deep equality; integers exactly (also inside lists and maps); int against float by value for the small universe,
    \* a BIG integer against a float is left open (the description does not say how they are compared)
    [] f = "equal" -> IF (\E j \in 1..n : HasBig(vs[j])) /\ (\E j \in 1..n : HasFlt(vs[j])) THEN AnyR
                      ELSE V(Bool(\A j \in 1..n : VEq(vs[1], vs[j])))
    [] f = "neq" -> IF (\E j \in 1..n : HasBig(vs[j])) /\ (\E j \in 1..n : HasFlt(vs[j])) THEN AnyR
                    ELSE V(Bool(~(\A j \in 1..n : VEq(vs[1], vs[j]))))
    [] f = "not" -> IF n = 1 /\ vs[1].t = "bool" THEN V(Bool(~vs[1].v)) ELSE AnyR
    [] f = "and" -> IF \E j \in 1..n : vs[j].t \notin {"bool", "null"} THEN AnyR  \* error or short-circuit: both reasonable
                    ELSE V(Bool(\A j \in 1..n : vs[j].t = "bool" /\ vs[j].v))
    [] f = "or" -> IF \E j \in 1..n : vs[j].t \notin {"bool", "null"} THEN AnyR
                   ELSE V(Bool(\E j \in 1..n : vs[j].t = "bool" /\ vs[j].v))
    [] f = "list" -> V(Arr(vs))
    [] f = "map?" -> IF n = 1 THEN V(Bool(vs[1].t = "obj")) ELSE AnyR
    [] f = "array?" -> IF n = 1 THEN V(Bool(vs[1].t = "arr")) ELSE AnyR
    [] f = "string?" -> IF n = 1 THEN V(Bool(vs[1].t = "str")) ELSE AnyR
    [] f = "num?" -> IF n = 1 THEN V(Bool(vs[1].t \in {"int", "bigint", "flt"})) ELSE AnyR
    [] f = "bool?" -> IF n = 1 THEN V(Bool(vs[1].t = "bool")) ELSE AnyR
    [] f = "null?" -> IF n = 1 THEN V(Bool(vs[1].t = "null")) ELSE AnyR
    [] f = "size" -> IF n # 1 THEN AnyR
                     ELSE V(IntV(CASE vs[1].t \in {"str", "arr"} -> Len(vs[1].v)
                                  [] vs[1].t = "obj" -> Cardinality(DOMAIN vs[1].m)
                                  [] OTHER -> 0))
    [] f = "nth" -> IF n # 2 \/ vs[1].t # "arr" \/ vs[2].t # "int" THEN AnyR
                    ELSE LET j == Idx(Len(vs[1].v), vs[2].v) IN
                         IF j < 1 \/ j > Len(vs[1].v) THEN AnyR ELSE V(vs[1].v[j])
    [] f = "append" -> IF n # 2 \/ vs[1].t # "arr" THEN AnyR ELSE V(Arr(Append(vs[1].v, vs[2])))
    [] f = "reverse" -> IF n # 1 \/ vs[1].t # "arr" THEN AnyR
                        ELSE V(Arr([j \in 1..Len(vs[1].v) |-> vs[1].v[Len(vs[1].v) + 1 - j]]))
    [] OTHER -> AnyR

\* sort: "Sort the items in an array and return a copy of the array. Valid types for comparison are strings, numbers,
\* and times. Any other type returned or a type mismatch will raise an error."  The key path is applied to each item.
SortBy(list, p) ==
  LET n == Len(list)
      key(x) == Look(x, p.fr)
      ks == [j \in 1..n |-> key(list[j])]
      allNum == \A j \in 1..n : ks[j] # Missing /\ IsNum(ks[j])
      allStr == \A j \in 1..n : ks[j] # Missing /\ ks[j].t = "str"
      lt(a, b) == IF allNum THEN QLt(Q(key(a)), Q(key(b))) ELSE SLt(key(a).v, key(b).v)
      RECURSIVE Ins(_, _), Srt(_)
      Ins(x, xs) == IF xs = <<>> THEN <<x>> ELSE IF lt(x, xs[1]) THEN <<x>> \o xs ELSE <<xs[1]>> \o Ins(x, Tail(xs))
      Srt(m) == IF m = 0 THEN <<>> ELSE Ins(list[m], Srt(m - 1))
  \* fewer than two items: nothing is compared, so whether the key type is checked is open - unless the keys are valid
  \* anyway (no item, or one item with a number / string key): then the result is the copy of the array
  IN IF n < 2 /\ ~(allNum \/ allStr) THEN AnyR
     ELSE IF \E j \in 1..n : ks[j] # Missing /\ ks[j].t \in {"other", "bigint"} THEN AnyR
     ELSE IF ~(allNum \/ allStr) THEN ErrR
     ELSE IF \E i, j \in 1..n : i < j /\ VEq(ks[i], ks[j]) /\ ~VEq(list[i], list[j]) THEN AnyR   \* order of equal keys is open
     ELSE [k |-> "ok", v |-> Arr(Srt(n))]

CopyFns == {"reverse", "sort"}     \* "... and return a copy of it", "... and return a copy of the array"
RECURSIVE HasMut(_)
HasMut(n) == CASE n.t = "call" -> Canon(n.fn) \in Mutators \/ n.fn = "each" \/ \E j \in 1..Len(n.a) : HasMut(n.a[j])
               [] n.t = "pair" -> HasMut(n.c) \/ HasMut(n.v)
               [] OTHER -> FALSE

\* all call nodes of a plan / those of documented mutators
RECURSIVE Calls(_)
Calls(n) == CASE n.t = "call" -> <<n>> \o (LET RECURSIVE Cs(_)
                                               Cs(j) == IF j > Len(n.a) THEN <<>> ELSE Calls(n.a[j]) \o Cs(j + 1) IN Cs(1))
              [] n.t = "pair" -> Calls(n.c) \o Calls(n.v)
              [] OTHER -> <<>>
MutCalls(plan) == SelectSeq(Calls(plan), LAMBDA c : Canon(c.fn) \in Mutators)
RECURSIVE Eval(_, _, _), EvalList(_, _, _, _), Chain(_, _, _, _), Cond(_, _, _), PathArg(_, _, _)
\* byte spelling of the plain member names the specification knows (string values are byte sequences, member names atoms)
Names == [src |-> <<115, 114, 99>>, asm |-> <<97, 115, 109>>, a |-> <<97>>, b |-> <<98>>, c |-> <<99>>, d |-> <<100>>, e |-> <<101>>,
          f |-> <<102>>, k |-> <<107>>, l |-> <<108>>, n |-> <<110>>, s |-> <<115>>, t |-> <<116>>, v |-> <<118>>, x |-> <<120>>,
          y |-> <<121>>, z |-> <<122>>, o |-> <<111>>, sel |-> <<115, 101, 108>>, keys |-> <<107, 101, 121, 115>>, ll |-> <<108, 108>>,
          zz |-> <<122, 122>>, q |-> <<113>>, r |-> <<114>>]
NameOf(bs) == IF \E x \in DOMAIN Names : Names[x] = bs THEN CHOOSE x \in DOMAIN Names : Names[x] = bs ELSE ""
PathArg(n, root, at) == IF n.t = "path" THEN Ok(n, root, at) ELSE Eval(n, root, at)
EvalList(args, root, at, acc) ==
  IF args = <<>> THEN [k |-> "ok", vs |-> acc, root |-> root, at |-> at]
  ELSE LET r == Eval(args[1], root, at) IN
       IF r.k # "ok" THEN [k |-> r.k] ELSE EvalList(Tail(args), r.root, r.at, Append(acc, r.v))

\* asm: "Processes all arguments in order using the return of each as input for the next."
Chain(args, root, at, same) ==
  IF args = <<>> THEN [k |-> "ok", v |-> AtVal(root, at), isAt |-> same, root |-> root, at |-> at]
  ELSE LET r == Eval(args[1], root, at) IN
       IF r.k # "ok" THEN [k |-> r.k]
       \* the next step's @ is this step's return value; a container LITERAL step yields a fresh value that shares nothing
       \* ("loc": it can be mutated through @ with value semantics), any other value may share structure ("det")
       ELSE Chain(Tail(args), r.root,
                  IF r.isAt THEN r.at
                  ELSE [mode |-> IF args[1].t \in {"arr", "obj"} THEN "loc" ELSE "det", v |-> r.v, al |-> r.at.al, rd |-> r.at.rd],
                  same /\ r.isAt)

\* cond: "All arguments must be array of two elements. The first element must evaluate to a boolean and the second can be
\* any value. The value of the first true first argument is returned. If none match nil is returned."
Cond(args, root, at) ==
  IF args = <<>> THEN Ok(Null, root, at)
  ELSE IF args[1].t # "pair" THEN AnyR
  ELSE LET c == Eval(args[1].c, root, at) IN
       IF c.k # "ok" THEN [k |-> c.k]
       ELSE IF c.v.t # "bool" THEN AnyR
       ELSE IF c.v.v THEN Eval(args[1].v, c.root, c.at)
       ELSE Cond(Tail(args), c.root, c.at)

\* storing a value that contains the root itself makes the root cyclic: outside the value universe
RECURSIVE Contains(_, _)
Contains(v, x) == \/ v = x
                  \/ (v.t = "arr" /\ \E j \in 1..Len(v.v) : Contains(v.v[j], x))
                  \/ (v.t = "obj" /\ \E y \in DOMAIN v.m : Contains(v.m[y], x))
Mutate(f, args, root, at) ==
  LET need == IF f \in {"set", "setall"} THEN 2 ELSE 1
      \* a container LITERAL of the plan denotes a value: every evaluation yields it anew (otherwise a plan would not give
      \* the same result on every run), so storing it shares nothing; containers that come from paths or calls may share
      FreshLit == need = 2 /\ Len(args) = 2 /\ args[2].t \in {"arr", "obj"}
      \* the result of a function documented to "return a copy" (reverse, sort) is a new array whatever the length of its
      \* argument (0, 1 or more items): storing it shares nothing with the argument.  The copy is not said to be deep, so
      \* this holds for arrays of scalars only (container items may be shared with the original)
      FreshCopy(v) == need = 2 /\ Len(args) = 2 /\ args[2].t = "call" /\ Canon(args[2].fn) \in CopyFns /\ v.t = "arr"
                      /\ \A j \in 1..Len(v.v) : v.v[j].t \in ScalarTags IN
  IF Len(args) # need THEN AnyR
  ELSE IF args[1].t \notin {"path", "call"} \/ (args[1].t = "call" /\ need = 1) THEN AnyR
  ELSE LET pr == PathArg(args[1], root, at) IN     \* the path is given literally or computed by a nested call (root / at)
  IF pr.k # "ok" THEN [k |-> pr.k]
  ELSE IF pr.v.t # "path" THEN AnyR
  ELSE IF ~Simple(pr.v) \/ pr.v.fr = <<>> THEN AnyR
  ELSE LET p == pr.v
           rv == IF need = 2 THEN Eval(args[2], pr.root, pr.at) ELSE Ok(Null, pr.root, pr.at) IN
       IF rv.k # "ok" THEN [k |-> rv.k]
       ELSE IF rv.v.t \notin ValueTags THEN AnyR                    \* a path object as data is outside the value universe
       ELSE IF rv.at.al THEN AnyR                                   \* aliasing allowance
       ELSE IF need = 2 /\ Contains(rv.v, rv.root) THEN AnyR
       ELSE IF need = 2 /\ rv.v.t \in {"arr", "obj"} /\ \E j \in 0..(Len(p.fr) - 1) : Look(rv.root, SubSeq(p.fr, 1, j)) = rv.v
            THEN AnyR                                               \* a container stored inside itself (if not copied: a cycle)
       ELSE IF p.at /\ rv.at.mode = "det" THEN AnyR                 \* mutation through a detached local value
       ELSE IF p.at /\ rv.at.mode = "loc" THEN
            \* the local context of an each iteration: a fresh map {src: element}.  Its own members are the iteration's
            \* scratch space (value semantics); the element under src may be data under $.src, so going below it is "any"
            IF Len(p.fr) >= 2 /\ p.fr[1].k = "c" /\ p.fr[1].s = "src" THEN AnyR
            ELSE IF need = 2 /\ Contains(rv.v, rv.at.v) THEN AnyR
            ELSE IF need = 2 /\ rv.v.t \in {"arr", "obj"} /\ \E j \in 1..(Len(p.fr) - 1) : Look(rv.at.v, SubSeq(p.fr, 1, j)) = rv.v THEN AnyR
            ELSE LET r == IF need = 2 THEN Put(rv.at.v, p.fr, rv.v) ELSE Del(rv.at.v, p.fr) IN
                 IF r.k # "ok" THEN [k |-> r.k]
                 ELSE LET at2 == [rv.at EXCEPT !.v = r.v, !.al = @ \/ (need = 2 /\ rv.v.t \in {"arr", "obj"} /\ ~FreshLit /\ ~FreshCopy(rv.v))] IN
                      [k |-> "ok", v |-> at2.v, isAt |-> TRUE, root |-> rv.root, at |-> at2]
       ELSE LET r == IF need = 2 THEN Put(rv.root, p.fr, rv.v) ELSE Del(rv.root, p.fr) IN
            IF r.k # "ok" THEN [k |-> r.k]
            ELSE LET at2 == [rv.at EXCEPT !.al = @ \/ (need = 2 /\ rv.v.t \in {"arr", "obj"} /\ ~FreshLit /\ ~FreshCopy(rv.v))] IN
                 [k |-> "ok", v |-> AtVal(r.v, at2), isAt |-> TRUE, root |-> r.v, at |-> at2]

Eval(n, root, at) ==
  CASE n.t \in ValueTags -> Ok(n, root, at)
    [] n.t = "path" ->
         IF ~Simple(n) THEN AnyR
         ELSE IF n.fr = <<>> THEN (IF n.at THEN [Ok(AtVal(root, at), root, at) EXCEPT !.isAt = TRUE] ELSE Ok(root, root, at))
         ELSE IF n.at /\ AtVal(root, at).t \notin ValueTags THEN AnyR
         ELSE LET r == Look(IF n.at THEN AtVal(root, at) ELSE root, n.fr) IN
              IF r # Missing /\ r.t = "other" THEN AnyR ELSE Ok(IF r = Missing THEN Null ELSE r, root, at)
    [] n.t = "call" ->
         LET f == Canon(n.fn) IN
         CASE f = "asm" ->
                LET r == Chain(n.a, root, at, TRUE) IN
                IF r.k # "ok" THEN r
                ELSE IF r.isAt THEN r
                ELSE IF at.mode = "root" THEN [r EXCEPT !.at = [at EXCEPT !.al = r.at.al]]
                ELSE AnyR
           [] f \in {"set", "setall", "del", "delall"} -> Mutate(f, n.a, root, at)
           \* (LISP cond: tests in order, the value of the first true one; later clauses are not evaluated)
           [] f = "cond" -> Cond(n.a, root, at)
           [] f = "quote" ->
                IF n.a = <<>> THEN Ok(Null, root, at)
                ELSE IF n.a[1].t \in ValueTags THEN Ok(n.a[1], root, at) ELSE AnyR
           [] f \in {"get", "getall"} ->
                IF Len(n.a) \notin {1, 2} \/ n.a[1].t \notin {"path", "call"} THEN AnyR
                ELSE LET pr == PathArg(n.a[1], root, at) IN
                IF pr.k # "ok" THEN [k |-> pr.k]
                ELSE IF pr.v.t # "path" THEN AnyR
                ELSE IF ~Simple(pr.v) THEN AnyR
                ELSE LET d == IF Len(n.a) = 2 THEN Eval(n.a[2], pr.root, pr.at)
                              ELSE Ok(IF pr.v.at THEN AtVal(pr.root, pr.at) ELSE pr.root, pr.root, pr.at) IN
                     IF d.k # "ok" THEN [k |-> d.k]
                     ELSE IF d.v.t \notin ValueTags THEN AnyR
                     ELSE LET r == Look(d.v, pr.v.fr) IN
                          IF r # Missing /\ r.t = "other" THEN AnyR
                          ELSE IF f = "get" THEN Ok(IF r = Missing THEN Null ELSE r, d.root, d.at)
                          ELSE Ok(IF r = Missing THEN Arr(<<>>) ELSE Arr(<<r>>), d.root, d.at)
           \* at / root: "Forms a path starting with @ [root: the code and the name say $; the description says @ for both].
           \* The remaining string arguments are joined with a '.' and parsed to form a jp.Expr."  Specified for plain member
           \* names; root only where @ and $ coincide (top level)
           [] f \in {"at", "root"} ->
                LET e == EvalList(n.a, root, at, <<>>) IN
                IF e.k # "ok" THEN AnyR
                ELSE IF e.vs = <<>> \/ \E j \in 1..Len(e.vs) : e.vs[j].t # "str" \/ NameOf(e.vs[j].v) = "" THEN AnyR
                ELSE IF f = "root" /\ e.at.mode # "root" THEN AnyR
                ELSE IF \E j \in 1..Len(n.a) : HasMut(n.a[j]) THEN AnyR
                ELSE Ok([t |-> "path", at |-> f = "at", fr |-> [j \in 1..Len(e.vs) |-> [k |-> "c", s |-> NameOf(e.vs[j].v), i |-> 0]]], e.root, e.at)
           [] f = "sort" ->
                IF Len(n.a) # 2 \/ n.a[2].t # "path" THEN AnyR
                ELSE IF ~Simple(n.a[2]) THEN AnyR
                ELSE LET d == Eval(n.a[1], root, at) IN
                     IF d.k # "ok" THEN [k |-> d.k]
                     ELSE IF d.v.t # "arr" THEN AnyR
                     ELSE LET r == SortBy(d.v.v, n.a[2]) IN
                          IF r.k # "ok" THEN r ELSE Ok(r.v, d.root, d.at)
           \* each: the description string is just "Each .": the semantics is the one the package's own examples/tests show:
           \* [each list fn key?]: for every element, in order, fn is evaluated with a FRESH local context @ = {src: element}
           \* (nothing else in it); the result is the list of the values found under key (default "asm") afterwards.
           \* Specified when the body mutates only its local context (a body that changes the root may change the list
           \* it is iterating over: "any").
           [] f = "each" ->
                IF Len(n.a) \notin {2, 3} \/ n.a[2].t # "call" THEN AnyR
                ELSE IF n.a[1].t # "arr" /\ \E j \in 1..Len(MutCalls(n.a[2])) : ~(MutCalls(n.a[2])[j].a # <<>> /\ MutCalls(n.a[2])[j].a[1].t = "path" /\ MutCalls(n.a[2])[j].a[1].at)
                     THEN AnyR          \* (a literal list cannot be reached by a mutation of the root)
                ELSE LET l == Eval(n.a[1], root, at) IN
                IF l.k # "ok" THEN [k |-> l.k]
                ELSE IF l.v.t # "arr" THEN AnyR
                ELSE LET kk == IF Len(n.a) = 3 THEN Eval(n.a[3], l.root, l.at) ELSE Ok(Str(Names["asm"]), l.root, l.at) IN
                IF kk.k # "ok" THEN [k |-> kk.k]
                ELSE IF kk.v.t # "str" \/ NameOf(kk.v.v) = "" THEN AnyR
                ELSE LET key == NameOf(kk.v.v)
                         RECURSIVE Iter(_, _, _, _)
                         Iter(j, rt, al, acc) ==
                           IF j > Len(l.v.v) THEN [k |-> "ok", vs |-> acc, root |-> rt, al |-> al]
                           ELSE LET r == Eval(n.a[2], rt, [mode |-> "loc", v |-> Obj([src |-> l.v.v[j]]), al |-> al, rd |-> kk.at.rd]) IN
                                IF r.k # "ok" THEN [k |-> r.k]
                                ELSE IF r.at.mode # "loc" THEN AnyR
                                ELSE Iter(j + 1, r.root, r.at.al,
                                          Append(acc, IF key \in DOMAIN r.at.v.m THEN r.at.v.m[key] ELSE Null))
                         it == Iter(1, kk.root, kk.at.al, <<>>) IN
                     IF it.k # "ok" THEN [k |-> it.k]
                     ELSE Ok(Arr(it.vs), it.root, [kk.at EXCEPT !.al = it.al])
           [] f \in Specified ->
                \* strict functions; the short-circuiting ones (and, or, equal, neq, lt, ...) may skip arguments, so a
                \* plan whose skipped argument would mutate or fail is "any" (the descriptions do not fix the order)
                LET e == EvalList(n.a, root, at, <<>>) IN
                IF e.k = "any" THEN AnyR
                ELSE IF e.k = "err" THEN (IF f \in {"and", "or", "equal", "neq", "lt", "lte", "gt", "gte"} THEN AnyR ELSE ErrR)
                ELSE IF f \in {"and", "or", "equal", "neq", "lt", "lte", "gt", "gte"} /\ \E j \in 1..Len(n.a) : HasMut(n.a[j]) THEN AnyR
                ELSE IF \E j \in 1..Len(e.vs) : e.vs[j].t \notin ValueTags THEN AnyR
                ELSE LET r == IF f = "mod" THEN ModRd(e.vs, e.at.rd)
                              ELSE IF f = "sum" /\ IsMixedSum(e.vs) THEN SumMixed(e.vs, e.at.rd) ELSE Apply(f, e.vs) IN
                     IF r.k # "ok" THEN r ELSE Ok(r.v, e.root, e.at)
           [] OTHER -> AnyR      \* Opaque(fn)
    [] OTHER -> AnyR

\* Execute: the plan function is evaluated with @ = $ = root; the returned value is discarded, the root is the result
Exec(plan, root) == Eval(plan, root, AtRoot)
ExecRd(plan, root, rd) == Eval(plan, root, [AtRoot EXCEPT !.rd = rd])

\* ------------------------------------------------------------------ frame condition for $.src
\* root'.src = root.src unless a documented mutator is applied to a path that may denote data under $.src: a path under
\* $.src, $ itself, a path that does not start with a plain member name, any @ path (the local value may be, or share
\* structure with, data under $.src), a computed path; or unless a container may have been shared between $.src and
\* another place by an earlier set (aliasing is not excluded by the descriptions) and is then mutated there.
TargetsSrc(c) == c.a = <<>> \/ c.a[1].t # "path" \/ c.a[1].at \/ c.a[1].fr = <<>> \/ c.a[1].fr[1].k # "c" \/ c.a[1].fr[1].s = "src"
StoresContainer(c) == Canon(c.fn) \in {"set", "setall"} /\ Len(c.a) >= 2 /\ c.a[2].t \notin ScalarTags
HasEach(plan) == \E j \in 1..Len(Calls(plan)) : Calls(plan)[j].fn = "each"
MayTouchSrc(plan) ==
  LET ms == MutCalls(plan) IN
  \/ \E j \in 1..Len(ms) : TargetsSrc(ms[j])
  \/ ((Len(ms) >= 2 \/ (Len(ms) >= 1 /\ HasEach(plan))) /\ \E j \in 1..Len(ms) : StoresContainer(ms[j]))
SrcOf(r) == IF r.t = "obj" /\ "src" \in DOMAIN r.m THEN r.m["src"] ELSE Missing

\* features used to name the locus of a generic-obligation failure
RECURSIVE Paths(_)
Paths(n) == CASE n.t = "call" -> (LET RECURSIVE Ps(_)
                                      Ps(j) == IF j > Len(n.a) THEN <<>> ELSE Paths(n.a[j]) \o Ps(j + 1) IN Ps(1))
              [] n.t = "pair" -> Paths(n.c) \o Paths(n.v)
              [] n.t = "path" -> <<n>>
              [] OTHER -> <<>>
HasMultiPath(plan) == \E j \in 1..Len(Paths(plan)) : ~Simple(Paths(plan)[j])
RECURSIVE HasIntegralFloat(_)
HasIntegralFloat(n) == CASE n.t = "flt" -> Len(n.q) = 2 /\ QNorm(n.q)[2] = 0
                         [] n.t = "arr" -> \E j \in 1..Len(n.v) : HasIntegralFloat(n.v[j])
                         [] n.t = "obj" -> \E x \in DOMAIN n.m : HasIntegralFloat(n.m[x])
                         [] n.t = "call" -> \E j \in 1..Len(n.a) : HasIntegralFloat(n.a[j])
                         [] n.t = "pair" -> HasIntegralFloat(n.c) \/ HasIntegralFloat(n.v)
                         [] OTHER -> FALSE

\* ------------------------------------------------------------------ design check: a small machine over the root
CONSTANTS Plans,      \* plans offered by the design check
          Root0,      \* initial root
          MaxSteps    \* plans executed in a row by the design check
VARIABLES root, last, steps
vars == <<root, last, steps>>
Init == root = Root0 /\ last = [p |-> Null, pre |-> Root0, r |-> AnyR] /\ steps = 0
\* one action per outcome of Plan.Execute
ExecOk(p)  == LET r == Exec(p, root) IN r.k = "ok" /\ root' = r.root /\ last' = [p |-> p, pre |-> root, r |-> r] /\ steps' = steps + 1
ExecErr(p) == LET r == Exec(p, root) IN r.k = "err" /\ UNCHANGED root /\ last' = [p |-> p, pre |-> root, r |-> r] /\ steps' = steps + 1
ExecAny(p) == LET r == Exec(p, root) IN r.k = "any" /\ UNCHANGED root /\ last' = [p |-> p, pre |-> root, r |-> r] /\ steps' = steps + 1
Next == steps < MaxSteps /\ \E p \in Plans : ExecOk(p) \/ ExecErr(p) \/ ExecAny(p)
Spec == Init /\ [][Next]_vars

\* the semantics is total: every plan has one of the three outcomes and an ok outcome carries an object root
TotalLaw == last.r.k \in {"ok", "err", "any"} /\ root.t = "obj"
\* the frame predicate is consistent with the semantics: a plan the predicate calls harmless leaves src alone
FrameLaw == (last.r.k = "ok" /\ ~MayTouchSrc(last.p)) => SrcOf(last.r.root) = SrcOf(last.pre)
\* set-then-get: after an ok [set p v] with a literal v, looking p up yields v
SetGetLaw == (last.r.k = "ok" /\ last.p.t = "call" /\ last.p.fn = "set" /\ last.p.a[1].t = "path" /\ last.p.a[2].t \in ValueTags)
             => VEq(Look(last.r.root, last.p.a[1].fr), last.p.a[2])
\* del-then-get: after an ok [del p] the path is gone
DelGetLaw == (last.r.k = "ok" /\ last.p.t = "call" /\ last.p.fn = "del" /\ last.p.a[1].t = "path") => Look(last.r.root, last.p.a[1].fr) = Missing
=============================================================================
