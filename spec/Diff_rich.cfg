SPECIFICATION Spec
CONSTANTS MaxNodes = 2 MaxPert = 2 Rich = TRUE
INVARIANTS TypeOK TruthLocal TruthEq TruthSym Reflexive RefOK MatchLaws
CHECK_DEADLOCK FALSE
