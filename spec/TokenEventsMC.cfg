SPECIFICATION Spec
CONSTANTS
  MaxEv = 8
  MaxNest = 3
INVARIANTS MachineAgrees Sound PrefixOfWellFormed
CHECK_DEADLOCK FALSE
