------------------------------ MODULE AltFilter ------------------------------
(* XBUILD (2): alt.Filter.  NewFilter(spec): "the keys are simple paths of keys delimited by  *)
(* the dot character ... The matching will either match the key when the data is traversed    *)
(* directly or in the case of a slice the elements of the slice are also traversed ... An      *)
(* alternate format is a nested set of maps."  Filter.Match(data), Filter.Simplify().          *)
(*                                                                                            *)
(* A filter in normal form is [t |-> "filter", m |-> [key |-> leaf value or filter]].          *)
(* FM(target, data) is the three-valued rule table ("T" must match, "F" must not, "O" open):   *)
(*  R1 data object, target filter: every filter key must match the member of that name        *)
(*  R2 data slice: matches iff some element matches (elements are traversed), at any depth    *)
(*  R3 leaves: same kind and same value; numeric width does not matter (NewFilter converts    *)
(*     every integer to int64 and every float to float64)                                     *)
(*  R4 a leaf expectation against an absent member does not match, except null: OPEN          *)
(*  R5 a non-empty filter against a scalar, null or absent member does not match              *)
(* Open (the documentation is silent): int against a numerically equal float; a slice as the  *)
(* expected value; the empty filter against anything but an object; null against an absent    *)
(* member or an empty slice; conflicting spec keys ("a" and "a.b").                           *)
(* Laws judged on the real code: the dotted and the nested form of a spec give the same       *)
(* answers; a Filter can be reused (same answer the second time); gen data is matched like    *)
(* its simple form; Simplify() is the nested normal form.                                     *)
EXTENDS Integers, Sequences, FiniteSets, TLC, Json
CONSTANT Full

Null == [t |-> "null"]
I(n) == [t |-> "int", v |-> n]
F(s) == [t |-> "flt", s |-> s]
S(s) == [t |-> "str", v |-> s]
B(b) == [t |-> "bool", v |-> b]
Arr(s) == [t |-> "arr", v |-> s]
Obj(f) == [t |-> "obj", m |-> f]
Flt(f) == [t |-> "filter", m |-> f]
Absent == [t |-> "absent"]

And3(s) == IF "F" \in s THEN "F" ELSE IF "O" \in s THEN "O" ELSE "T"
Or3(s)  == IF "T" \in s THEN "T" ELSE IF "O" \in s THEN "O" ELSE "F"

\* the integer a float text denotes, where this specification knows it: <<TRUE, n>> or <<FALSE, 0>>
FltInt(s) == CASE s = "0" -> <<TRUE, 0>> [] s = "1" -> <<TRUE, 1>> [] s = "2" -> <<TRUE, 2>> [] s = "1.5" -> <<FALSE, 1>> [] s = "0.5" -> <<FALSE, 0>>
               [] OTHER -> <<FALSE, -1>>
IntKey(x) == IF "v" \in DOMAIN x THEN <<"v", x.v>> ELSE <<"s", x.s>>
\* int against float: equal value -> open; known different -> "F"; unknown -> open
Cross(i, f) == LET r == FltInt(f.s) IN
               IF r[2] = -1 \/ "v" \notin DOMAIN i THEN "O" ELSE IF r[1] /\ r[2] = i.v THEN "O" ELSE "F"

Leaf(target, data) ==                                                                       \* R3
   IF target.t = "filter" THEN (IF DOMAIN target.m = {} THEN "O" ELSE "F")                   \* R5
   ELSE IF data.t = "null" THEN (IF target.t = "null" THEN "T" ELSE "F")
   ELSE IF data.t = "int" THEN (IF target.t = "int" THEN (IF IntKey(target) = IntKey(data) THEN "T" ELSE "F")
                                ELSE IF target.t = "flt" THEN Cross(data, target) ELSE "F")
   ELSE IF data.t = "flt" THEN (IF target.t = "flt" THEN (IF target.s = data.s THEN "T" ELSE "F")
                                ELSE IF target.t = "int" THEN Cross(target, data) ELSE "F")
   ELSE IF data.t \in {"bool", "str"} THEN (IF target.t = data.t /\ target.v = data.v THEN "T" ELSE "F")
   ELSE "O"                                                                                  \* other kinds (big numbers, times): not modelled

RECURSIVE FM(_, _)
FM(target, data) ==
   IF target.t = "arr" THEN "O"
   ELSE IF data.t = "absent" THEN (IF target.t = "null" THEN "O"                             \* R4
                                   ELSE IF target.t = "filter" /\ DOMAIN target.m = {} THEN "O" ELSE "F")
   ELSE IF data.t = "obj" THEN
        (IF target.t = "filter"
         THEN And3({FM(target.m[k], IF k \in DOMAIN data.m THEN data.m[k] ELSE Absent) : k \in DOMAIN target.m})   \* R1
         ELSE "F")
   ELSE IF data.t = "arr" THEN
        (IF data.v = <<>> THEN (IF target.t = "null" \/ (target.t = "filter" /\ DOMAIN target.m = {}) THEN "O" ELSE "F")
         ELSE Or3({FM(target, data.v[j]) : j \in 1..Len(data.v)}))                           \* R2
   ELSE Leaf(target, data)

\* equality of value trees ignoring the Go-width hint "w" of generated integers
RECURSIVE Same(_, _)
\* (Simplify() hands back plain maps: a filter node and an object node are the same thing here)
Same(x, y) == IF x.t \in {"obj", "filter"} /\ y.t \in {"obj", "filter"} THEN DOMAIN x.m = DOMAIN y.m /\ \A k \in DOMAIN x.m : Same(x.m[k], y.m[k])
              ELSE IF x.t # y.t THEN FALSE
              ELSE IF x.t = "arr" THEN Len(x.v) = Len(y.v) /\ \A j \in 1..Len(x.v) : Same(x.v[j], y.v[j])
              ELSE IF x.t = "int" THEN IntKey(x) = IntKey(y)
              ELSE IF x.t = "flt" THEN x.s = y.s
              ELSE IF x.t = "null" THEN TRUE
              ELSE x.v = y.v

-----------------------------------------------------------------------------
(* the cells TLC enumerates: filters x data *)
Keys == {"a", "b"}
FLeaf == {Null, I(1), F("1"), F("1.5"), S("x"), B(TRUE)}
DLeaf == {Null, I(1), I(2), F("1"), S("x"), B(TRUE)}
Fns(D, V) == [D -> V]
ObjsOver(V) == {Fns(D, V) : D \in SUBSET Keys}
Filters1 == {Flt(f) : f \in UNION ObjsOver(FLeaf)}
Filters2 == {Flt([k \in {"a"} |-> g]) : g \in Filters1}
            \cup (IF Full THEN {Flt([k \in Keys |-> IF k = "a" THEN g ELSE l]) : g \in Filters1, l \in FLeaf} ELSE {})
Arr1 == {Arr(<<>>)} \cup {Arr(<<x>>) : x \in DLeaf}
        \cup (IF Full THEN {Arr(<<x, y>>) : x \in DLeaf, y \in DLeaf} ELSE {Arr(<<I(2), I(1)>>), Arr(<<S("x"), Null>>), Arr(<<I(1), I(1)>>)})
Obj1 == {Obj(f) : f \in UNION ObjsOver(DLeaf)}
D1 == DLeaf \cup Arr1 \cup Obj1
Data2 == D1 \cup {Obj([k \in {"a"} |-> x]) : x \in D1}
         \cup {Obj([k \in Keys |-> IF k = "a" THEN x ELSE y]) : x \in D1, y \in {I(1), Null}}
         \cup {Arr(<<x>>) : x \in D1} \cup {Arr(<<x, y>>) : x \in D1, y \in {I(1), Obj([k \in {"a"} |-> I(1)])}}
Cells == (Filters1 \cup Filters2) \X Data2

VARIABLES spec, data
fvars == <<spec, data>>
FInit == \E cl \in Cells : spec = cl[1] /\ data = cl[2]
FNext == FALSE /\ UNCHANGED fvars

\* behaviour generation: every cell is printed as a case for the Go driver (CONSTRAINT Emit)
Emit == PrintT(<<"CELL", ToJson([spec |-> spec, data |-> data])>>)

\* design-level laws of the rule table
Wrap1(x) == Arr(<<x>>)
Laws == /\ FM(spec, Wrap1(data)) = FM(spec, data)                            \* a one-element slice matches like its element (R2)
        /\ FM(Flt(<<>>), Obj(<<>>)) = "T"                                    \* the empty filter matches an object
        /\ (data.t = "obj" /\ spec.t = "filter") =>                          \* removing a filter key never turns a match into a non-match
             \A k \in DOMAIN spec.m : FM(spec, data) = "T" => FM(Flt([j \in (DOMAIN spec.m) \ {k} |-> spec.m[j]]), data) = "T"
        /\ FM(spec, data) \in {"T", "F", "O"}
=============================================================================
