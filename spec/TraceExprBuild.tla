--------------------------- MODULE TraceExprBuild ---------------------------
(* Trace validation for XPROC (1).  trace.ndjson: one line per history of builder calls made on real     *)
(* jp.Expr values by harness/cmd/xproc:                                                                   *)
(*   {k: "build", h: [ {r, m, a, ch,                      the call: receiver handle (0 = package), method  *)
(*                      obs: [{fr, s}] ,                  AFTER the call: fragments and String() of EVERY  *)
(*                                                        value created so far (the new one is the last)   *)
(*                      nw: {panic, normal, ap, bs, perr, pfr, ps, bperr, bpfr, g, pg}} ]}                 *)
(*   nw is about the new value x: Normal(), Append("xy"), BracketString(), ParseString(x.String()) ->      *)
(*   (perr, fragments pfr, String() ps), ParseString(x.BracketString()) -> (bperr, bpfr), x.Get(doc) g and  *)
(*   parsed.Get(doc) pg as canonical JSON strings.                                                         *)
(* Every call is replayed with the actions New / Ext of ExprBuild.tla (TStep).  Judged:                    *)
(*   value semantics      every OLD value still shows the fragments the specification holds for it         *)
(*   wrong-fragments      the new value is receiver's value + the fragment the call denotes                *)
(*   text round trip      for values inside the documented language (Judged): the text parses, the parsed  *)
(*                        fragments equal the built ones up to Norm, the parsed value prints the same      *)
(*                        text (dot form) and evaluates to the same bag of results; likewise BracketString *)
(*   Normal(), Append     as documented                                                                    *)
(* After the first value-level deviation of a line the heap of the code no longer is the specification's: *)
(* the rest of the line is consumed without judging (dead).  Deviations go to TLC register 1 (-workers 1). *)
EXTENDS ExprBuild, Json
CONSTANT MaxBad
Log == ndJsonDeserialize("trace.ndjson")
N == Len(Log)
VARIABLES c, i, dead
tvars == <<vals, parent, arrs, hnd, c, i, dead>>

TraceInit == BInit /\ IInit /\ c = 1 /\ i = 1 /\ dead = FALSE /\ TLCSet(1, <<>>) /\ TLCSet(2, 0) /\ TLCSet(3, 0) /\ TLCSet(4, 0)

Bad(kind, loc, k) == <<[i |-> c, k |-> k, kind |-> kind, loc |-> loc]>>
RangeOf(s) == {s[j] : j \in 1..Len(s)}
BagEq(x, y) == Len(x) = Len(y) /\ \A v \in RangeOf(x) : Cardinality({j \in 1..Len(x) : x[j] = v}) = Cardinality({j \in 1..Len(y) : y[j] = v})
FirstDiff(n, p) == IF Len(n) # Len(p) THEN "length" ELSE LET D == {j \in 1..Len(n) : n[j] # p[j]} IN n[CHOOSE j \in D : \A q \in D : j <= q].f
Where(e) == IF e.r = 0 THEN "constructor" ELSE "method"

\* the disturbed old values: relation of the first one to the call that disturbed it
Disturbed(e, old) == {h \in 1..Len(old) : e.obs[h].fr # old[h]}
Relation(e, h, par) == IF h = e.r THEN "receiver" ELSE IF e.r # 0 /\ par[h] = e.r THEN "sibling-derived-from-the-same-receiver" ELSE "unrelated"

JudgeValue(e, old, new, par, k) ==
   LET D == Disturbed(e, old)
       nh == Len(new)
       want == IF e.m = "Parse" THEN Norm(new[nh]) ELSE new[nh]
       got == IF e.m = "Parse" THEN Norm(e.obs[nh].fr) ELSE e.obs[nh].fr IN
   IF D # {} THEN LET h == CHOOSE h \in D : \A q \in D : h <= q IN Bad("alias", <<"value-semantics", Relation(e, h, par)>>, k)
   ELSE IF got # want THEN Bad("wrong-fragments", <<Where(e), KindOf(IF e.m \in {"Parse", "X"} THEN "R" ELSE e.m)>>, k)
   ELSE <<>>

\* the evaluation law is located at the trailing Bracket flag whenever there is one (the code treats the fragment before it as inner)
EvalClass(v) == IF v # <<>> /\ v[Len(v)].f = "bracket" THEN "bracket-flag-last" ELSE PrintClass(v)
JudgeText(e, v, k) ==
   LET w == e.nw  s == e.obs[Len(e.obs)].s  cls == PrintClass(v) IN
   (IF ~NormalOpen(v) /\ w.normal # NormalOf(v) THEN Bad("wrong-normal", <<"Normal">>, k) ELSE <<>>)
   \o (IF w.ap # <<120, 121>> \o s THEN Bad("append-differs-from-string", <<"Append">>, k) ELSE <<>>)
   \o (IF ~Judged(v) THEN <<>>
       ELSE IF w.perr THEN Bad("unparseable-text", <<"String", cls>>, k)
       ELSE IF Norm(w.pfr) # Norm(v) THEN Bad("reparse-differs", <<"String", cls, FirstDiff(Norm(v), Norm(w.pfr))>>, k)
       ELSE (IF cls = "dot-form" /\ Canonical(v) /\ w.ps # s THEN Bad("reprint-differs", <<"String", cls>>, k) ELSE <<>>)
            \o (IF ~OnlyFlags(v) /\ ~BagEq(w.g, w.pg) THEN Bad("reparse-evaluates-differently", <<"String", EvalClass(v)>>, k) ELSE <<>>))
   \o (IF ~Judged(v) THEN <<>>
       ELSE IF w.bperr THEN Bad("unparseable-text", <<"BracketString", cls>>, k)
       ELSE IF Norm(w.bpfr) # Norm(v) THEN Bad("reparse-differs", <<"BracketString", cls, FirstDiff(Norm(v), Norm(w.bpfr))>>, k)
       ELSE <<>>)

JudgeStep(e, old, new, par, k) ==
   IF dead THEN <<>>
   ELSE IF e.obs = <<>> THEN Bad("panic", <<Where(e), "call">>, k)
   ELSE LET jv == JudgeValue(e, old, new, par, k) IN
        IF jv # <<>> THEN jv
        ELSE IF e.nw.panic THEN Bad("panic", <<Where(e), "observers">>, k)
        ELSE JudgeText(e, new[Len(new)], k)

Record(j) == IF j = <<>> THEN TRUE
             ELSE /\ (IF Len(TLCGet(1)) >= MaxBad THEN TRUE ELSE TLCSet(1, TLCGet(1) \o j))
                  /\ TLCSet(3, TLCGet(3) + Len(j))

TStep == /\ c <= N /\ i <= Len(Log[c].h)
         /\ LET e == Log[c].h[i]
                cl == [m |-> e.m, a |-> e.a, ch |-> e.ch]
                j == JudgeStep(e, vals, vals', parent, i) IN
            /\ Step(e.r, cl)
            /\ Record(j)
            /\ dead' = (dead \/ (j # <<>> /\ j[1].kind \in {"alias", "wrong-fragments", "panic"}))
         /\ i' = i + 1 /\ UNCHANGED <<c, arrs, hnd>>

TEnd == /\ c <= N /\ i > Len(Log[c].h)
        /\ TLCSet(2, c)
        /\ c' = c + 1 /\ i' = 1 /\ dead' = FALSE /\ vals' = <<>> /\ parent' = <<>> /\ UNCHANGED <<arrs, hnd>>

TraceNext == TStep \/ TEnd
TraceSpec == TraceInit /\ [][TraceNext]_tvars
Post == JsonSerialize("out.json", [n |-> TLCGet(2), bad |-> TLCGet(1), nbad |-> TLCGet(3), hits |-> [x \in {} |-> 0]])
=============================================================================
