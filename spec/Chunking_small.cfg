SPECIFICATION CSpec
CONSTANTS MaxLen = 0 MaxDepth = 3 Alpha = {}
MaxRead = 8
Input <- SmallInputs
INVARIANT PrefixInv
INVARIANT StateIsFunctionOfBytes
INVARIANT OutcomeInv
PROPERTY RefillStutters
CHECK_DEADLOCK FALSE
