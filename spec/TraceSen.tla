--------------------------- MODULE TraceSen ---------------------------
(* Trace validation of the real SEN round trip against SenText (C10).                      *)
(* trace.ndjson: one case per line                                                          *)
(*   {tree, o: {indent, tab, sort, htmlunsafe}, outs: [{as: [api...], x: text, r: parsed, ek, e}]} *)
(*   tree / r in the encoding of JsonWriterOps (ints: dec; input floats: ex = exact decimal; *)
(*   parsed numbers: dec = exact decimal value); ek = "" | write-error | write-panic |        *)
(*   parse-error | parse-panic.                                                               *)
(* Each out is one behaviour Write(value) -> text, Read(text) -> parsed of the SenText        *)
(* machine; TRound requires parsed = value: strings stay strings (bytes equal; invalid        *)
(* UTF-8 as U+FFFD), keys keep their spelling, numbers keep their value.  The locus of a      *)
(* deviation is computed from SenText: (context, first-byte class, body class, how the        *)
(* reader model classifies the bare spelling) of the first string that differs / that the    *)
(* model predicts to be misread.  Deviations go to TLC register 1; needs -workers 1.          *)
EXTENDS SenText
CONSTANT MaxBad

TraceLog == ndJsonDeserialize("trace.ndjson")
N == Len(TraceLog)

VARIABLES cse, oi, val, acc, cnt
tvars == <<str, sctx, html, phase, bare, readas, cse, oi, val, acc, cnt>>

RECURSIVE Expand(_), ChainFrom(_, _, _)
\* a deep spine is written by the harness as one node [t |-> "chain", lv |-> <<levels, outermost first>>, inner |-> tree]; a level is
\* [k |-> 0 array | 1 object, pre, post |-> siblings before / after the spine member, key, pk, qk |-> the keys]
ChainFrom(e, i, x) ==
  IF i = 0 THEN x
  ELSE LET l == e.lv[i]
           pre == [j \in 1..Len(l.pre) |-> Expand(l.pre[j])]
           post == [j \in 1..Len(l.post) |-> Expand(l.post[j])]
       IN ChainFrom(e, i - 1, IF l.k = 0 THEN [t |-> "arr", v |-> (pre \o <<x>>) \o post]
                                ELSE [t |-> "obj", k |-> (l.pk \o <<l.key>>) \o l.qk, v |-> (pre \o <<x>>) \o post])
Expand(e) == CASE e.t = "chain" -> ChainFrom(e, Len(e.lv), Expand(e.inner))
               [] e.t = "arr" -> [t |-> "arr", v |-> [i \in 1..Len(e.v) |-> Expand(e.v[i])]]
               [] e.t = "obj" -> [t |-> "obj", k |-> e.k, v |-> [i \in 1..Len(e.v) |-> Expand(e.v[i])]]
               [] OTHER -> e
TreeOf(n) == IF n <= N THEN Expand(TraceLog[n].tree) ELSE 0
Case == TraceLog[cse]
Out == Case.outs[oi]
HtmlSafe == ~Case.o.htmlunsafe

\* ---------------------------------------------------------------- parsed = value
NumDec(e) == IF e.t = "flt" /\ "ex" \in DOMAIN e THEN e.ex ELSE e.dec
IsNum(e) == e.t \in {"int", "flt", "big"}
\* ALLOWANCE: a string with invalid UTF-8 cannot be spelled in SEN; the writers replace each invalid byte by U+FFFD (as the
\* JSON writers do, C04) - accepted, per byte or per run.  Valid strings must come back byte for byte.
SameStr(e, g) == e = g \/ (~ValidUtf8(e) /\ Canon(e) = Canon(g))
\* SenWhy = <<>> iff equal; otherwise the SenText locus of the first difference
RECURSIVE SenWhy(_, _, _)
SenWhy(e, g, ctx) ==
  CASE e.t = "null" -> IF g.t = "null" THEN <<>> ELSE <<ctx, "null", "read-as", g.t>>
    [] e.t = "bool" -> IF g.t = "bool" /\ g.v = e.v THEN <<>> ELSE <<ctx, "bool", "read-as", g.t>>
    \* a float64 keeps its value iff what was read lies between the midpoints to its neighbours: a float64 result is then the same
    \* float64; ALLOWANCE: a json.Number result (the reader keeps long literals as text) denotes the literal, which is the shortest
    \* text of that float64 - accepted under the same criterion.  Integers must come back exactly.
    [] IsNum(e) -> IF IsNum(g) /\ (IF e.t = "flt" /\ "lo" \in DOMAIN e
                                   THEN DecCmp(e.lo, NumDec(g)) <= 0 /\ DecCmp(NumDec(g), e.hi) <= 0
                                   ELSE DecCmp(NumDec(g), NumDec(e)) = 0)
                   THEN <<>> ELSE <<ctx, e.t, "read-as", g.t>>
    [] e.t = "str" -> IF g.t = "str" /\ SameStr(e.v, g.v) THEN <<>> ELSE StrLocus(e.v, ctx) \o <<"read-as", g.t>>
    [] e.t = "arr" -> IF g.t # "arr" THEN <<ctx, "arr", "read-as", g.t>>
                      ELSE LET n == IF Len(e.v) < Len(g.v) THEN Len(e.v) ELSE Len(g.v)
                               w == FirstBad(LAMBDA i : SenWhy(e.v[i], g.v[i], "elem"), n)
                           IN IF w # <<>> THEN w ELSE IF Len(e.v) # Len(g.v) THEN <<ctx, "arr", "length">> ELSE <<>>
    [] e.t = "obj" -> IF g.t # "obj" THEN <<ctx, "obj", "read-as", g.t>>
                      ELSE LET n == Len(e.k)
                               lost == {i \in 1..n : ~\E j \in 1..Len(g.k) : SameStr(e.k[i], g.k[j])}
                           IN IF lost # {} THEN StrLocus(e.k[Min(lost)], "key") \o <<"key-lost">>
                              ELSE IF Len(g.k) # n THEN <<ctx, "obj", "extra-key">>
                              ELSE FirstBad(LAMBDA i : SenWhy(e.v[i], g.v[CHOOSE j \in 1..Len(g.k) : SameStr(e.k[i], g.k[j])], "value"), n)
    [] OTHER -> <<ctx, "bad-input-node">>
\* when the reader rejects the text there is no parsed value: name the first string (pre-order, keys before values) that the
\* model predicts to be misread
RECURSIVE Suspect(_, _)
Suspect(e, ctx) ==
  CASE e.t = "str" -> IF PredictedUnsafe(e.v, ctx, HtmlSafe) THEN StrLocus(e.v, ctx) ELSE <<>>
    [] e.t = "arr" -> FirstBad(LAMBDA i : Suspect(e.v[i], "elem"), Len(e.v))
    [] e.t = "obj" -> FirstBad(LAMBDA i : IF PredictedUnsafe(e.k[i], "key", HtmlSafe) THEN StrLocus(e.k[i], "key")
                                          ELSE Suspect(e.v[i], "value"), Len(e.v))
    [] OTHER -> <<>>
\* fallback when the model of the writer would have quoted everything dangerous: the first string that is not a safe bare token
RECURSIVE Unsafe2(_, _)
Unsafe2(e, ctx) ==
  CASE e.t = "str" -> IF e.v # <<>> /\ ~SafeBare(e.v, ctx) THEN StrLocus(e.v, ctx) ELSE <<>>
    [] e.t = "arr" -> FirstBad(LAMBDA i : Unsafe2(e.v[i], "elem"), Len(e.v))
    [] e.t = "obj" -> FirstBad(LAMBDA i : IF e.k[i] # <<>> /\ ~SafeBare(e.k[i], "key") THEN StrLocus(e.k[i], "key")
                                          ELSE Unsafe2(e.v[i], "value"), Len(e.v))
    [] OTHER -> <<>>
Verdict(o) ==
  IF o.ek # "" THEN [kind |-> o.ek, loc |-> (LET s == Suspect(val, "top") IN
                                             IF s # <<>> THEN s
                                             ELSE LET u == Unsafe2(val, "top") IN IF u = <<>> THEN <<"unpredicted">> ELSE u \o <<"model-quotes">>)]
  ELSE LET w == SenWhy(val, Expand(o.r), "top")
           s == Suspect(val, "top")
       IN IF w = <<>> THEN [kind |-> "ok", loc |-> <<>>]
          \* a string the model predicts to be misread is the locus even when the first visible difference is elsewhere
          \* (["x", "+", "a b"] reads back as ["xa b"]: the culprit is "+", the first differing element is "x")
          ELSE IF s # <<>> THEN [kind |-> "wrong-value", loc |-> s \o <<"read-as", w[Len(w)]>>]
          ELSE [kind |-> "wrong-value", loc |-> w]
\* model drift (logged, never a verdict): a single top-level string whose fate the model predicts differently
Drift(o, vd) == val.t = "str" /\ val.v # <<>> /\ (PredictedUnsafe(val.v, "top", HtmlSafe) <=> vd.kind = "ok")

TraceInit == /\ cse = 1 /\ oi = 1 /\ val = TreeOf(1) /\ acc = <<>> /\ cnt = <<0, 0>>
             /\ str = <<>> /\ sctx = "top" /\ html = FALSE /\ phase = "start" /\ bare = FALSE /\ readas = "-"
             /\ TLCSet(1, <<>>) /\ TLCSet(2, 0) /\ TLCSet(3, 0) /\ TLCSet(4, 0) /\ TLCSet(5, 0)
\* one recorded behaviour Write(value) ; Read(text) of the SenText machine, judged by RoundTrip on the real values
TRound == /\ cse <= N /\ oi <= Len(Case.outs)
          /\ LET vd == Verdict(Out) IN
             /\ acc' = IF vd.kind = "ok" THEN acc
                       ELSE Append(acc, [i |-> cse, as |-> Out.as, kind |-> vd.kind, loc |-> vd.loc, m |-> Out.e,
                                         ref |-> \E k \in 1..Len(Out.as) : Out.as[k] = "sen.String"])
             /\ cnt' = <<cnt[1] + Len(Out.as), cnt[2] + (IF Drift(Out, vd) THEN 1 ELSE 0)>>
          /\ oi' = oi + 1 /\ UNCHANGED <<str, sctx, html, phase, bare, readas, cse, val>>
TEnd == /\ cse <= N /\ oi > Len(Case.outs)
        /\ (acc = <<>> \/ Len(TLCGet(1)) >= MaxBad \/ TLCSet(1, TLCGet(1) \o acc))
        /\ (acc = <<>> \/ TLCSet(3, TLCGet(3) + Len(acc)))
        /\ TLCSet(2, cse) /\ TLCSet(4, cnt[1]) /\ TLCSet(5, cnt[2])
        /\ cse' = cse + 1 /\ oi' = 1 /\ acc' = <<>> /\ val' = TreeOf(cse + 1)
        /\ UNCHANGED <<str, sctx, html, phase, bare, readas, cnt>>
TraceNext == TRound \/ TEnd
TraceSpec == TraceInit /\ [][TraceNext]_tvars
Post == JsonSerialize("out.json", [n |-> TLCGet(2), bad |-> TLCGet(1), nbad |-> TLCGet(3),
                                   hits |-> [calls |-> TLCGet(4), drift |-> TLCGet(5)]])
=============================================================================
