------------------------ MODULE TraceJsonPathStore ------------------------
(* Trace validation of the path mutations against the store JsonPathStore (C13).                *)
(* trace.ndjson: one line per executed step of a behaviour                                      *)
(*   {b (behaviour), k (step, 1-based), fx, m: {op, path, v | md}, o: [{as: [flavours], before,  *)
(*    r: "ok" | "err" | "panic", after, msg}]}                                                   *)
(* ApplyMutation consumes one line: every flavour group must be an allowed outcome of the action *)
(* m.op in the state it logged as "before" (JsonPathStore!Allowed, defined from Locs), and the    *)
(* simple-data flavour threads the state variable doc through the behaviour (the document logged *)
(* before step k > 1 must be the one reached by step k - 1).  Deviations go to TLC register 1.    *)
EXTENDS JsonPathStore
CONSTANTS MaxBad

Lines == ndJsonDeserialize("trace.ndjson")
NLines == Len(Lines)
VARIABLE cur
tvars == <<doc, hist, last, doc0, cur>>

TraceInit == /\ cur = 1 /\ doc = Null /\ doc0 = Null /\ hist = <<>> /\ last = [before |-> Null, done |-> FALSE]
             /\ TLCSet(1, <<>>) /\ TLCSet(2, 0) /\ TLCSet(3, 0) /\ TLCSet(4, {})

\* how an outcome that is not allowed left the action (kind of the deviation)
Changed(before, after, m) ==
  LET S == IF m.op \in {"Set", "SetOne"} THEN OneCands(before, m, SetMax(before, m.path, m.v)) ELSE Sel(before, m)
      ls == AllLocs(before)
      shifts == m.op = "Remove" IN
  \E j \in 1..Len(ls) : ~Touched(ls[j], S) /\ LET l2 == IF shifts THEN Reindex(ls[j], S) ELSE ls[j] IN
                                                 ~(Exists(after, l2) /\ DocEq(At(after, l2), At(before, ls[j])))
KindOf(ln, g) ==
  IF g.r = "panic" THEN "panic"
  ELSE IF g.r = "err" THEN "unexpected-error"
  ELSE IF Impossible(ln.m.op, ln.m.path) THEN "missing-error"
  ELSE IF IsOne(ln.m) THEN (IF DocEq(g.after, g.before) THEN "one-no-effect" ELSE "one-wrong")
  ELSE IF DocEq(g.after, g.before) THEN "no-effect"
  ELSE IF Changed(g.before, g.after, ln.m) THEN "frame" ELSE "effect"

\* Allowance (round 7): the statement names simple and gen data.  Documents held in typed Go containers (typed maps with a named key
\* type, typed slices, Go arrays: flavours nmap, nmapi, tslice, array) cannot hold every value and a Go array held in an interface cannot
\* be changed in place, so for the calls that STORE a value (Set, SetOne, Modify, ModifyOne) an error that leaves the document as it was is
\* accepted there; removals get no allowance, and a success must be the store's outcome in every flavour.
TypedFl == {"nmap", "nmapi", "tslice", "array"}
TypedErr(g, m) == g.r = "err" /\ m.op \in {"Set", "SetOne", "Modify", "ModifyOne"} /\ DocEq(g.after, g.before)
                  /\ \A q \in 1..Len(g.as) : g.as[q] \in TypedFl
DevsM(ln, m0) == FlatMap(LAMBDA g : LET m == ResM(m0, g.before)
                                        lm == [ln EXCEPT !.m = m] IN
                               IF Allowed(g.before, m, [r |-> g.r, after |-> g.after]) \/ TypedErr(g, m) THEN <<>>
                               ELSE IF g.r # "panic" /\ ImplAllowed(g.before, m, [r |-> g.r, after |-> g.after])
                               THEN << [i |-> cur, as |-> g.as, op |-> m.op, kind |-> "as-implemented", m |-> g.msg,
                                        loc |-> [frag |-> "slice", pos |-> "inclusive-end-reading", cont |-> "-", pre |-> "-", bound |-> <<"-">>]] >>
                               ELSE << [i |-> cur, as |-> g.as, op |-> m.op, kind |-> KindOf(lm, g), m |-> g.msg,
                                        loc |-> Locus(m.path, g.before, ln.fx)] >>, ln.o)
Devs(ln) == DevsM(ln, ln.m)
\* the simple flavour threads doc
Simple(ln) == LET gs == SelectSeq(ln.o, LAMBDA g : \E q \in 1..Len(g.as) : g.as[q] = "simple") IN gs[1]
\* (a chunk of the trace may start in the middle of a behaviour: only checked when the previous line is in this chunk)
Discont(ln) == IF ln.k > 1 /\ cur > 1 /\ Lines[cur - 1].b = ln.b /\ ~DocEq(Simple(ln).before, doc)
               THEN << [i |-> cur, as |-> <<"simple">>, op |-> ln.m.op, kind |-> "trace-discontinuity", m |-> "",
                        loc |-> Locus(ResM(ln.m, doc).path, doc, ln.fx)] >> ELSE <<>>

ApplyMutation(op) ==
  /\ cur <= NLines /\ Lines[cur].m.op = op
  /\ LET ln == Lines[cur]
         devs == Devs(ln) \o Discont(ln) IN
     /\ (IF devs = <<>> \/ Len(TLCGet(1)) >= MaxBad THEN TRUE ELSE TLCSet(1, TLCGet(1) \o devs))
     /\ (IF devs = <<>> THEN TRUE ELSE TLCSet(3, TLCGet(3) + Len(devs)))
     /\ TLCSet(4, TLCGet(4) \cup {ToString(<<op, Locus(ResM(ln.m, Simple(ln).before).path, Simple(ln).before, ln.fx)>>)})
     /\ TLCSet(2, cur)
     /\ doc' = Simple(ln).after
     /\ doc0' = IF ln.k = 1 THEN Simple(ln).before ELSE doc0
     /\ hist' = IF ln.k = 1 THEN <<ln.m>> ELSE Append(hist, ln.m)
     /\ last' = [before |-> Simple(ln).before, done |-> TRUE, m |-> ln.m]
  /\ cur' = cur + 1

TraceNext == \E op \in Ops : ApplyMutation(op)
TraceSpec == TraceInit /\ [][TraceNext]_tvars
Post == JsonSerialize("out.json", [n |-> TLCGet(2), bad |-> TLCGet(1), nbad |-> TLCGet(3), hits |-> [x \in TLCGet(4) |-> 1]])
=============================================================================
