--------------------------- MODULE TraceChunking ---------------------------
(* Trace validation for C03.  One recorded case = one input and what every front-end and  *)
(* every chunking returned for it; observations with identical projections are merged by  *)
(* the harness, the specification decides whether the remaining groups agree:             *)
(*   single-document mode: within the JSON family (oj.Parse, oj.ParseReader, tokenizer +  *)
(*   Builder, gen.Parser + Simplify) and within the SEN family all observations are either *)
(*   errors, or equal value trees; on input JsonText accepts the two families agree too.  *)
(*   multi-document mode: same error flag and equal sequences of delivered documents.     *)
(* trace.ndjson: {b, o: [{fam, as, r, v}], m: [{fam, as, err, docs}]}                      *)
EXTENDS JsonValue, Json
CONSTANT MaxBad
Trace == ndJsonDeserialize("trace.ndjson")
N == Len(Trace)
VARIABLE c
tvars == <<st, hist, c>>
TraceInit == st = S0 /\ hist = <<>> /\ c = 1 /\ TLCSet(1, <<>>) /\ TLCSet(2, 0) /\ TLCSet(3, 0) /\ TLCSet(4, 0)

NumKey(v) == IF v.t = "flt" THEN v.exact ELSE v.dec
IsNum(v) == v.t \in {"int", "flt", "big"}
IsDec(d) == "digits" \in DOMAIN d
RoundsTo(d, f) == /\ IsDec(d) /\ f.t = "flt"
                  /\ f.inf = 0 /\ DecCmp(f.lo, d) <= 0 /\ DecCmp(d, f.hi) <= 0         \* an infinity equals no decimal
\* Equality comes in two strengths.  STRICT (s = TRUE, the one that decides): numbers are equal when they denote the same decimal,
\* whatever Go type carries them - a float64 and a text number are equal only if the float's exact value IS that decimal.  LOOSE
\* (s = FALSE): additionally a float64 equals a decimal that rounds to it.  A disagreement that is strict-only is a difference of
\* representation between two paths of the number accumulator for the same literal; it is reported with locus `repr:...`.
NumEqX(a, b, s) == \/ NumKey(a) = NumKey(b)
                   \/ (~s /\ (RoundsTo(NumKey(a), b) \/ RoundsTo(NumKey(b), a)))
\* a big number and a string are equal when the string is a JSON number literal denoting the same decimal
BigIsText(big, txt) == \/ big.text = txt
                       \/ /\ txt # <<>> /\ LET e == RunSeq(S0, txt) IN Accepts(e) /\ NumEndOK(e.pc)
                          /\ IsDec(big.dec) /\ DecEq(PNum(txt, 1).v.dec, big.dec)
RECURSIVE ValEqX(_, _, _)
ValEqX(a, b, s) ==
  IF IsNum(a) /\ IsNum(b) THEN NumEqX(a, b, s)
  ELSE IF a.t = "big" /\ b.t = "str" THEN BigIsText(a, b.v)     \* gen.Big simplifies to its text
  ELSE IF a.t = "str" /\ b.t = "big" THEN BigIsText(b, a.v)
  ELSE IF a.t # b.t THEN FALSE
  ELSE CASE a.t = "null" -> TRUE
         [] a.t = "bool" -> a.v = b.v
         [] a.t = "str" -> a.v = b.v
         [] a.t = "arr" -> Len(a.v) = Len(b.v) /\ \A i \in 1..Len(a.v) : ValEqX(a.v[i], b.v[i], s)
         [] a.t = "obj" -> a.k = b.k /\ \A i \in 1..Len(a.v) : ValEqX(a.v[i], b.v[i], s)
         [] OTHER -> a = b
ValEq(a, b) == ValEqX(a, b, TRUE)
Fam(gs, f) == SelectSeq(gs, LAMBDA g : g.fam = f)
NoPanic(gs) == \A i \in 1..Len(gs) : gs[i].r # 2
AgreeSingleX(gs, s) == \/ Len(gs) <= 1
                       \/ \A i \in 1..Len(gs) : gs[i].r = 0
                       \/ \A i \in 1..Len(gs) : gs[i].r = 1 /\ ValEqX(gs[i].v, gs[1].v, s)
AgreeSingle(gs) == AgreeSingleX(gs, TRUE)
\* Multi-document mode.  Without an error: the same sequence of documents.  With an error (in every case): the statement
\* compares "the sequence of documents delivered"; whether the value being completed when the error is detected (e.g. the
\* number in `1 2,`) was already handed to the callback is left open, so the sequences may differ by that one trailing
\* document but must otherwise be prefixes of each other.
DocsPrefixX(a, b, s) == Len(a) <= Len(b) /\ \A k \in 1..Len(a) : ValEqX(a[k], b[k], s)
AgreeMultiX(gs, s) == \/ Len(gs) <= 1
                      \/ \A i \in 1..Len(gs) : /\ gs[i].err = gs[1].err
                                                /\ IF gs[1].err
                                                   THEN \/ DocsPrefixX(gs[i].docs, gs[1].docs, s) /\ Len(gs[1].docs) - Len(gs[i].docs) <= 1
                                                        \/ DocsPrefixX(gs[1].docs, gs[i].docs, s) /\ Len(gs[i].docs) - Len(gs[1].docs) <= 1
                                                   ELSE Len(gs[i].docs) = Len(gs[1].docs) /\ DocsPrefixX(gs[i].docs, gs[1].docs, s)
AgreeMulti(gs) == AgreeMultiX(gs, TRUE)
\* the representation class of a strict-only disagreement: the only literals for which the CURRENT code picks the representation by
\* path are those whose digits start with 922337203685477580 (the int64 top-8 band, where the fast digit loops hand over to the text
\* number one digit early - ojg's own parser tests encode it); anything else is "other"
Top8Pfx == <<57, 50, 50, 51, 51, 55, 50, 48, 51, 54, 56, 53, 52, 55, 55, 53, 56, 48>>
HasTop8(x) == \E p \in 1..(Len(x) - 17) : SubSeq(x, p, p + 17) = Top8Pfx /\ (p = 1 \/ x[p - 1] \notin 48..57)
Repr(k, loose) == IF ~loose THEN "no" ELSE IF HasTop8(Trace[k].b) THEN "top8" ELSE "other"
\* the harness merges observations with identical projections; groups that are equal in the sense of the specification
\* (same outcome, ValEq values) get the same class number, so that a representation difference is never blamed
SameSingle(a, b) == a.r = b.r /\ (a.r # 1 \/ ValEq(a.v, b.v))
ClassOf(gs, i, Same(_, _)) == CHOOSE j \in 1..i : Same(gs[j], gs[i]) /\ \A q \in 1..(j - 1) : ~Same(gs[q], gs[i])
Summary(gs) == [i \in 1..Len(gs) |-> [as |-> gs[i].as, r |-> gs[i].r, cl |-> ClassOf(gs, i, SameSingle)]]
SameMulti(a, b) == AgreeMulti(<<a, b>>)
SummaryM(gs) == [i \in 1..Len(gs) |-> [as |-> gs[i].as, r |-> IF gs[i].err THEN 0 ELSE 1, nd |-> Len(gs[i].docs), cl |-> ClassOf(gs, i, SameMulti)]]
StrictValid(x) == LET e == RunSeq(S0, x) IN Accepts(e) /\ HasDoc(e)
Judge(k) ==
  LET o == Trace[k].o
      m == Trace[k].m
      J == Fam(o, "J")
      S == Fam(o, "S")
  IN (IF ~NoPanic(o) THEN <<[i |-> k, kind |-> "panic", fam |-> "-", gs |-> Summary(SelectSeq(o, LAMBDA g : g.r = 2))]>> ELSE <<>>)
     \o (IF ~AgreeSingle(J) THEN <<[i |-> k, kind |-> "disagree", fam |-> "J", gs |-> Summary(J), repr |-> Repr(k, AgreeSingleX(J, FALSE))]>> ELSE <<>>)
     \o (IF ~AgreeSingle(S) THEN <<[i |-> k, kind |-> "disagree", fam |-> "S", gs |-> Summary(S), sv |-> StrictValid(Trace[k].b),
                                      repr |-> Repr(k, AgreeSingleX(S, FALSE))]>> ELSE <<>>)
     \o (IF AgreeSingle(J) /\ AgreeSingle(S) /\ J # <<>> /\ S # <<>> /\ StrictValid(Trace[k].b) /\ ~AgreeSingle(<<J[1], S[1]>>)
         THEN <<[i |-> k, kind |-> "disagree", fam |-> "J~S", gs |-> Summary(<<J[1], S[1]>>), repr |-> Repr(k, AgreeSingleX(<<J[1], S[1]>>, FALSE))]>> ELSE <<>>)
     \o (IF ~AgreeMulti(Fam(m, "J")) THEN <<[i |-> k, kind |-> "disagree-multi", fam |-> "J", gs |-> SummaryM(Fam(m, "J")),
                                              repr |-> Repr(k, AgreeMultiX(Fam(m, "J"), FALSE))]>> ELSE <<>>)
     \o (IF ~AgreeMulti(Fam(m, "S")) THEN <<[i |-> k, kind |-> "disagree-multi", fam |-> "S", gs |-> SummaryM(Fam(m, "S")),
                                              repr |-> Repr(k, AgreeMultiX(Fam(m, "S"), FALSE))]>> ELSE <<>>)
CheckCase == /\ c <= N
             /\ c' = c + 1 /\ UNCHANGED <<st, hist>>
             /\ LET j == Judge(c) IN
                /\ (IF j = <<>> \/ Len(TLCGet(1)) >= MaxBad THEN TRUE ELSE TLCSet(1, TLCGet(1) \o j))
                /\ (IF j = <<>> THEN TRUE ELSE TLCSet(3, TLCGet(3) + Len(j)))
             /\ TLCSet(2, c)
TraceSpec == TraceInit /\ [][CheckCase]_tvars
Post == JsonSerialize("out.json", [n |-> TLCGet(2), bad |-> TLCGet(1), nbad |-> TLCGet(3), hits |-> [x \in {} |-> 0]])
=============================================================================
