---------------------------- MODULE TraceBuilder ----------------------------
(* Trace validation for XBUILD (1).  trace.ndjson: one line per call sequence                *)
(*   {src, prime, h: [{c: call, alt: obs, gen: obs}], nx: [{c, alt, gen}], hasparse, parse}   *)
(*   obs = {o: "ok"|"err"|"panic", r: projected Result() after the call, st: steps whose      *)
(*   earlier handed-out Result has changed since}.  h is replayed call by call with the       *)
(*   actions of Builder.tla (TStep); every nx entry is an alternative next call made on a     *)
(*   fresh builder brought to the same state, judged with Apply at TEnd.  Judged per builder: *)
(*   outcome, Result whenever the specification defines it (D1), no change of a Result that   *)
(*   was handed out when the first item was complete.  If the line carries the oj.Parse       *)
(*   result of the text whose tokenizer events produced h, the final Result must equal it.    *)
(* Deviations are collected in TLC register 1; needs -workers 1.                              *)
EXTENDS Builder, Json
CONSTANT MaxBad
Log == ndJsonDeserialize("trace.ndjson")
N == Len(Log)
VARIABLES c, i, defd, trig, seen      \* seen: builders whose Result is already reported wrong on this line (a wrong first item stays wrong)
\* trig: since the last Reset an object was closed whose parent is an object (the situation the locus of a wrong result names)
tvars == <<stack, tops, last, c, i, defd, trig, seen>>

TraceInit == BInit /\ c = 1 /\ i = 1 /\ defd = <<>> /\ seen = {} /\ trig = FALSE /\ TLCSet(1, <<>>) /\ TLCSet(2, 0) /\ TLCSet(3, 0)

Ctx(fs) == IF fs = <<>> THEN "none" ELSE fs[Len(fs)].kind
KeyMode(cl) == IF cl.key = <<>> THEN "nokey" ELSE "key"
Bad(api, kind, loc, k) == <<[i |-> c, k |-> k, api |-> api, kind |-> kind, loc |-> loc]>>

\* where an observed result leaves the specified one: the locus of a wrong-result deviation
RECURSIVE DiffClass(_, _)
DiffClass(e, g) ==
   IF e.t # g.t THEN "kind"
   ELSE IF e.t = "obj" THEN
        (IF (DOMAIN e.m) \ (DOMAIN g.m) # {} THEN "missing-member"
         ELSE IF (DOMAIN g.m) \ (DOMAIN e.m) # {} THEN "extra-member"
         ELSE LET k == CHOOSE k \in DOMAIN e.m : e.m[k] # g.m[k] IN DiffClass(e.m[k], g.m[k]))
   ELSE IF e.t = "arr" THEN
        (IF Len(e.v) # Len(g.v) THEN "array-length"
         ELSE LET k == CHOOSE k \in 1..Len(e.v) : e.v[k] # g.v[k] IN DiffClass(e.v[k], g.v[k]))
   ELSE "value"

TrigBy(cl, fs) == \/ cl.op = "Pop" /\ Len(fs) >= 2 /\ fs[Len(fs)].kind = "obj" /\ fs[Len(fs) - 1].kind = "obj"
                  \/ cl.op = "PopAll" /\ \E j \in 2..Len(fs) : fs[j].kind = "obj" /\ fs[j - 1].kind = "obj"
TrigAfter(cl, fs) == IF cl.op = "Reset" THEN FALSE ELSE trig \/ TrigBy(cl, fs)

\* one builder's observation ob of call cl made in state (fs0, ts0) with specified post-state r; dd = definedness per earlier step
JudgeObs(api, cl, fs0, ts0, r, ob, dd, k) ==
   (IF ob.o # r.o THEN Bad(api, IF ob.o = "panic" THEN "panic" ELSE "wrong-outcome", <<cl.op, KeyMode(cl), Ctx(fs0), r.o, ob.o>>, k) ELSE <<>>)
   \o (IF api \notin seen /\ ob.o # "panic" /\ ResultDefined(r.s, r.t) /\ ob.r # ResultOf(r.s, r.t)
       THEN Bad(api, "wrong-result", <<IF TrigAfter(cl, fs0) THEN "after-closing-object-in-object" ELSE DiffClass(ResultOf(r.s, r.t), ob.r)>>, k) ELSE <<>>)
   \o (IF \E j \in {ob.st[n] : n \in 1..Len(ob.st)} : j <= Len(dd) /\ dd[j]
       THEN Bad(api, "result-mutated", <<cl.op, Ctx(fs0)>>, k) ELSE <<>>)
JudgeBoth(e, fs0, ts0, r, dd, k) ==
   JudgeObs("alt.Builder", e.c, fs0, ts0, r, e.alt, dd, k) \o JudgeObs("gen.Builder", e.c, fs0, ts0, r, e.gen, dd, k)

Record(j) == /\ (j = <<>> \/ Len(TLCGet(1)) >= MaxBad \/ TLCSet(1, TLCGet(1) \o j))
             /\ (j = <<>> \/ TLCSet(3, TLCGet(3) + Len(j)))

TStep == /\ c <= N /\ i <= Len(Log[c].h)
         /\ LET e == Log[c].h[i] IN
            /\ Call(e.c)
            /\ Record(JudgeBoth(e, stack, tops, [s |-> stack', t |-> tops', o |-> last'], defd, i))
            /\ defd' = Append(defd, tops' # <<>>)
            /\ seen' = seen \cup {b.api : b \in {x \in {JudgeBoth(e, stack, tops, [s |-> stack', t |-> tops', o |-> last'], defd, i)[n] :
                                                             n \in 1..Len(JudgeBoth(e, stack, tops, [s |-> stack', t |-> tops', o |-> last'], defd, i))} :
                                                    x.kind = "wrong-result"}}
            /\ trig' = TrigAfter(e.c, stack)
         /\ i' = i + 1 /\ UNCHANGED c

RECURSIVE JudgeAlts(_, _)
JudgeAlts(nx, k) == IF k > Len(nx) THEN <<>>
                    ELSE JudgeBoth(nx[k], stack, tops, Apply(nx[k].c, stack, tops), defd, Len(Log[c].h) + k) \o JudgeAlts(nx, k + 1)

\* Loose equality for the tokenizer law: equal, or differing only in the Go representation (int64 from the tokenizer,
\* json.Number from oj.Parse) of a number literal that is one of 9223372036854775800..807 ("top8", a fact about the text
\* supplied by the harness) with the same decimal text.  That is the known oj.Parse defect recorded under C02, not a
\* property of the builders; it gets its own locus, every other difference stays "final".
NumText(z) == IF z.t = "int" THEN z.s ELSE z.v
Top8Pair(x, y) == /\ "top8" \in DOMAIN x /\ "top8" \in DOMAIN y /\ x.t \in {"int", "big"} /\ y.t \in {"int", "big"}
                  /\ NumText(x) = NumText(y)
RECURSIVE Loose(_, _)
Loose(e, g) == IF e = g THEN TRUE
               ELSE IF e.t = "obj" /\ g.t = "obj" THEN DOMAIN e.m = DOMAIN g.m /\ \A k \in DOMAIN e.m : Loose(e.m[k], g.m[k])
               ELSE IF e.t = "arr" /\ g.t = "arr" THEN Len(e.v) = Len(g.v) /\ \A k \in 1..Len(e.v) : Loose(e.v[k], g.v[k])
               ELSE Top8Pair(e, g)
ParseLoc(r, p) == IF Loose(r, p) THEN <<"final", "repr:int64-top8">> ELSE <<"final">>

\* the tokenizer law: the builders driven by the event stream hand back what oj.Parse returns for the text
JudgeParse(L) == IF ~L.hasparse \/ L.h = <<>> THEN <<>>
                 ELSE LET e == L.h[Len(L.h)] IN
                      (IF "alt.Builder" \notin seen /\ e.alt.o = "ok" /\ e.alt.r # L.parse THEN Bad("oj.Tokenize+alt.Builder", "differs-from-parse", ParseLoc(e.alt.r, L.parse), 0) ELSE <<>>)
                      \o (IF "gen.Builder" \notin seen /\ e.gen.o = "ok" /\ e.gen.r # L.parse THEN Bad("oj.Tokenize+gen.Builder", "differs-from-parse", ParseLoc(e.gen.r, L.parse), 0) ELSE <<>>)

TEnd == /\ c <= N /\ i > Len(Log[c].h)
        /\ Record(JudgeAlts(Log[c].nx, 1) \o JudgeParse(Log[c]))
        /\ TLCSet(2, c)
        /\ c' = c + 1 /\ i' = 1 /\ defd' = <<>> /\ seen' = {} /\ trig' = FALSE /\ stack' = <<>> /\ tops' = <<>> /\ last' = "none"

TraceNext == TStep \/ TEnd
TraceSpec == TraceInit /\ [][TraceNext]_tvars
Post == JsonSerialize("out.json", [n |-> TLCGet(2), bad |-> TLCGet(1), nbad |-> TLCGet(3), hits |-> [x \in {} |-> 0]])
=============================================================================
