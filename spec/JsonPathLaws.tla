---------------------------- MODULE JsonPathLaws ----------------------------
(* Design check (a) of the selection function JsonPath!Locs (C05): TLC enumerates every path of   *)
(* up to MaxLen fragments from FragSet over every tree of TreeSet and checks the model-level laws *)
(* that make Locs a faithful reading of the statement:                                           *)
(*   Composition  Locs(p \o q, r) = concatenation over l in Locs(p, r) of l \o Locs(q, At(r, l))   *)
(*                (a fragment selects the same elements in every position)                        *)
(*   Sound        every location returned exists and carries the value reported                   *)
(*   NoDup        no location twice unless a union lists an item twice                            *)
(*   SelfJudge    the observation comparison accepts Locs' own answer and rejects a reordering of *)
(*                an array-ordered answer and a dropped / added element (non-vacuity)             *)
(*   SliceLaw     in the strict slice region the natural reading, RFC 9535 clamping and the        *)
(*                implementation's principal branch are the same function                          *)
EXTENDS JsonPath
CONSTANT MaxLen

I(v) == INode(v)
TreeSet == {
  I(1), Null, ANode(<<>>), ONode(<<>>, <<>>),
  ANode(<<I(0), I(1), I(2), I(3), I(4)>>),
  ANode(<<ANode(<<I(1), I(2)>>), ANode(<<I(3)>>), I(4)>>),
  ONode(<<"a", "b">>, <<I(1), ANode(<<I(2), I(3)>>)>>),
  ANode(<<ONode(<<"a">>, <<I(1)>>), ONode(<<"a", "b">>, <<I(2), I(3)>>), ONode(<<"b">>, <<I(4)>>)>>),
  ONode(<<"a", "b">>, <<ONode(<<"a">>, <<ANode(<<I(1)>>)>>), ANode(<<ONode(<<"a">>, <<I(2)>>), I(3)>>)>>) }

Sl(s, e, st) == [f |-> "slice", sa |-> s = 99, s |-> IF s = 99 THEN 0 ELSE s, ea |-> e = 99, e |-> IF e = 99 THEN 0 ELSE e,
                 sta |-> st = 99, st |-> IF st = 99 THEN 0 ELSE st]
Children == {[f |-> "child", key |-> k] : k \in {"a", "b"}}
Nths == {[f |-> "nth", i |-> i] : i \in {0, 1, 0 - 1, 0 - 3, 5}}
Unions == {[f |-> "union", items |-> u] : u \in {<<[i |-> 0], [i |-> 1]>>, <<[i |-> 1], [i |-> 0]>>, <<[k |-> "a"], [k |-> "b"]>>,
                                                  <<[i |-> 0], [i |-> 0]>>, <<[k |-> "b"], [i |-> 0 - 1]>>}}
Slices == {Sl(1, 99, 99), Sl(0, 2, 99), Sl(0 - 2, 99, 99), Sl(1, 0 - 1, 99), Sl(0, 99, 2), Sl(1, 5, 2), Sl(3, 0, 0 - 1),
           Sl(0 - 1, 0 - 4, 0 - 2), Sl(0, 0, 2), Sl(2, 2, 0 - 2), Sl(99, 99, 0), Sl(4, 1, 0 - 1)}
Filters == {[f |-> "filter", op |-> "eqk", key |-> "a", c |-> I(2)], [f |-> "filter", op |-> "gtk", key |-> "a", c |-> I(1)],
            [f |-> "filter", op |-> "exk", key |-> "b", c |-> Null], [f |-> "filter", op |-> "gts", key |-> "", c |-> I(1)],
            [f |-> "filter", op |-> "eqs", key |-> "", c |-> I(3)]}

VARIABLES tree, path
vars == <<tree, path>>

Init == tree \in TreeSet /\ path \in {<<>>, <<[f |-> "root"]>>, <<[f |-> "at"]>>}
Steppers == Len(path) - (IF path # <<>> /\ path[1].f \in {"root", "at"} THEN 1 ELSE 0)
Add(f) == Steppers < MaxLen /\ path' = Append(path, f) /\ UNCHANGED tree
AddChild == \E f \in Children : Add(f)
AddNth == \E f \in Nths : Add(f)
AddWild == Add([f |-> "wild"])
AddDesc == ~HasDesc(path) /\ Add([f |-> "desc"])
AddUnion == \E f \in Unions : Add(f)
AddSlice == \E f \in Slices : Add(f)
AddFilter == \E f \in Filters : Add(f)
Next == AddChild \/ AddNth \/ AddWild \/ AddDesc \/ AddUnion \/ AddSlice \/ AddFilter
Spec == Init /\ [][Next]_vars

E == Locs(path, tree)
Sound == \A j \in 1..Len(E) : Exists(tree, E[j].loc) /\ At(tree, E[j].loc) = E[j].val /\ Len(E[j].ok) = Len(E[j].loc)
NoDup == UnionDup(path) \/ \A j1, j2 \in 1..Len(E) : j1 < j2 => E[j1].loc # E[j2].loc
Composition ==
  \A k \in 1..Len(path) :
     LET p == SubSeq(path, 1, k)
         q == SubSeq(path, k + 1, Len(path)) IN
     LocsOnly(E) = FlatMap(LAMBDA e : LET R == Locs(q, e.val) IN [x \in 1..Len(R) |-> e.loc \o R[x].loc], Locs(p, tree))

Rev(s) == [j \in 1..Len(s) |-> s[Len(s) + 1 - j]]
SelfJudge ==
  LET got == Vals(E) IN
  /\ JudgeGet(path, tree, got, TRUE) = "ok"
  /\ (Len(got) >= 2 /\ OrderDefined(E, path) /\ ~UnionDup(path) => JudgeGet(path, tree, Rev(got), TRUE) = "order")
  /\ (Len(got) >= 1 /\ ~EndsDesc(path) /\ ~UnionDup(path) => JudgeGet(path, tree, Tail(got), TRUE) = "fewer")
  /\ (~EndsDesc(path) => JudgeGet(path, tree, Append(got, I(777)), TRUE) = "extra")

\* slice readings over the full parameter matrix (state independent: evaluated in the initial states only)
B == (0 - 7)..7 \cup {99}
SliceLaw ==
  path # <<>> \/ tree # I(1) \/
  \A s \in B, e \in B, st \in ((0 - 3)..3) \cup {99}, n \in 0..5 :
     LET f == Sl(s, e, st) IN
     /\ SliceStrict(f, n) => (Natural(f, n) = Rfc(f, n, FALSE) /\ Natural(f, n) = Principal(f, n))
     /\ \A j \in 1..Len(Natural(f, n)) : Natural(f, n)[j] \in 0..(n - 1)
     /\ \A r \in Readings(f, n) : \A j \in 1..Len(r) : r[j] \in 0..(n - 1)
=============================================================================
