---------------------------- MODULE Concurrency ----------------------------
(* C08 - concurrent use of the package-level APIs and shared paths is safe.                    *)
(*                                                                                             *)
(* Goroutines g \in 1..N each run a short program of API calls.  A call is split at its         *)
(* linearization points:                                                                       *)
(*   PoolGet     take an instance out of the API's sync.Pool (any pooled one, or a fresh one -  *)
(*               sync.Pool may drop instances at any time)                                      *)
(*   CacheLock / CacheReadBegin / CacheReadEnd / CacheWriteBegin / CacheWriteEnd / CacheUnlock  *)
(*               the struct-info cache (oj/sinfo.go, sen/sinfo.go, alt/sinfo.go: lookup AND     *)
(*               build happen under structMut)                                                  *)
(*   RegistryRead  the recomposer registry (types are registered before the goroutines start)   *)
(*   Use         the call writes its output into the instance's buffer                          *)
(*   CopyOut     only APIs that copy: the result is copied out of the instance's buffer         *)
(*   PoolPut     the instance goes back to the pool                                             *)
(*   Return      the caller now holds the result: a private copy, or (API does not copy) the    *)
(*               instance's buffer itself                                                       *)
(* A buffer's content is modelled by the tag <<g, k>> of the call that wrote it last.           *)
(*                                                                                             *)
(* Invariants (the statement of C08):                                                           *)
(*   Exclusive              no instance is held by two goroutines                                *)
(*   BufferIsolation        a buffer a caller holds after Return is never written by ANOTHER    *)
(*                          caller's call (the same caller re-using "its" buffer on its next    *)
(*                          call is the documented behaviour of the buffer-returning APIs)      *)
(*   NoUnlockedWriteRead    a write of a shared map never overlaps another access of it          *)
(*   SequentialEquivalence  every call returns what it returns when run alone: the result only  *)
(*                          depends on the call's own writes                                     *)
(* The flags Copies (which APIs copy their result out), LockedLookup (cache lookup under the     *)
(* mutex), PreRegistered (recomposer types registered beforehand), ExclusivePool (Get removes    *)
(* the instance from the pool) are set as the code is MEANT to be in the design configuration;  *)
(* clearing one yields a counterexample = the shortest bad schedule to try on the real code.    *)
(* Granularity Gran: "fine" every step interleaves; "gate" a goroutine runs from one scheduling *)
(* gate (the verif hooks after pool.Get and after pool.Put, and the USER's hook of a "hook"     *)
(* call) to the next; "hook" the gates are the call boundaries and the user's hooks only (user  *)
(* code: available on any tree, no verif hooks needed); "call" calls are atomic.  Sched records *)
(* which goroutine was resumed at each gate: the schedules replayed on the real code.           *)
(*                                                                                             *)
(* Resource class "scratch" (API class "hook"): a call that runs USER code in the middle - a    *)
(* MarshalJSON / MarshalText / Simplify / Generic / UnmarshalJSON / SetAttr method, a composer  *)
(* function, a callback - keeps per-call state across that hook: the nesting depth, the bytes   *)
(* it hands to the hook, a validator's stack.  Two linearization points:                        *)
(*   ScratchBegin  the call fills its scratch and enters the user's hook                        *)
(*   HookRun       the hook (which may yield, block, or call back into the package) reads what  *)
(*                 it was handed / the call reads its scratch back; the result depends on it    *)
(* Scratch = "percall": the scratch belongs to the call (the code as it is meant to be);        *)
(* "global": ONE package-level object used between the two points without a lock - two calls    *)
(* inside at the same time violate NoUnlockedWriteRead and SequentialEquivalence; "released":   *)
(* the scratch is a pooled instance that is put back BEFORE the hook reads it - the hook holds  *)
(* a buffer that another caller's call writes: BufferIsolation (the hook is the caller's code). *)
EXTENDS Naturals, Sequences, FiniteSets, TLC, Json

CONSTANTS N,              \* goroutines
          Menu,           \* API classes the programs are drawn from
          MaxCalls,       \* program length bound
          Copies,         \* API classes that copy their result out of the pooled buffer
          LockedLookup,   \* cache lookup happens under the mutex
          PreRegistered,  \* recomposer registry is only read during concurrent use
          ExclusivePool,  \* pool.Get removes the instance from the pool
          Scratch,        \* "percall" | "global" | "released": where a "hook" call keeps its state across the user's hook
          Gran            \* "fine" | "gate" | "hook" | "call"

G == 1..N

\* API classes -> the real functions (harness/cmd/conc):  pool used, shape of the result
\*   json      oj.JSON / oj.Write / sen.String / sen.Write    pooled writer, result copied (string / io.Writer)
\*   marshal   oj.Marshal                                      pooled writer, []byte copied out
\*   bytes     sen.Bytes                                       pooled writer, []byte result
\*   parse     oj.Parse / oj.Load / sen.Parse                  pooled parser, fresh values
\*   struct    oj.JSON(struct) / sen.String(struct) / alt.Decompose   struct-info cache, then as json
\*   recompose alt.Recompose with pre-registered types         registry read, no pool
\*   pure      pretty.JSON, oj.Validate, oj.Tokenize, jp.Expr.Get ...  no shared state at all
\*   hook      any of the above on values / targets with user hooks (json.Marshaler, TextMarshaler, Simplifier,
\*             Genericer, json.Unmarshaler, AttrSetter, composer functions, callbacks) and on deeply nested data
PoolOf(a) == CASE a \in {"json", "struct"} -> "writer"
               [] a \in {"marshal"} -> "marshalw"
               [] a \in {"bytes"} -> "writer"
               [] a \in {"parse"} -> "parser"
               [] OTHER -> "none"
UsesCache(a) == a = "struct"
UsesRegistry(a) == a = "recompose"
ReturnsBuffer(a) == a \in {"marshal", "bytes"}     \* result is a []byte that COULD be the pooled buffer
UsesHook(a) == a = "hook"
AllApis == {"json", "marshal", "bytes", "parse", "struct", "recompose", "pure", "hook"}
Pools == {"writer", "marshalw", "parser"}

VARIABLES prog,     \* g -> sequence of API classes
          k,        \* g -> index of the current / next call
          pc,       \* g -> position inside the call
          inst,     \* g -> instance held (0: none)
          free,     \* pool -> set of pooled instances
          nextInst, \* fresh instance ids
          buf,      \* instance -> tag <<g, k>> of the last call that wrote its buffer
          val,      \* g -> tag copied out / produced by the current call
          held,     \* g -> set of [call, ref (instance whose buffer the caller holds, 0: private copy), tag]
          result,   \* g -> sequence of result tags
          lock,     \* goroutine holding the cache mutex (0: free)
          cached,   \* is the struct type already in the cache
          miss,     \* g -> last lookup missed
          reading, writing,  \* sets of <<goroutine, map>> inside a read / write of the shared map "cache", "registry" or "scratch"
          gscratch, \* tag in the package-level scratch (Scratch = "global")
          hinst,    \* g -> pooled instance whose buffer g's hook was handed (Scratch = "released"; 0: none)
          sched     \* goroutine resumed at each gate

vars == <<prog, k, pc, inst, free, nextInst, buf, val, held, result, lock, cached, miss, reading, writing, gscratch, hinst, sched>>

SeqsUpTo(S, n) == UNION {[1..m -> S] : m \in 0..n}

Init == /\ prog \in [G -> SeqsUpTo(Menu, MaxCalls)]
        /\ k = [g \in G |-> 1] /\ pc = [g \in G |-> "idle"] /\ inst = [g \in G |-> 0]
        /\ free = [p \in Pools |-> {}] /\ nextInst = 1 /\ buf = <<>>
        /\ val = [g \in G |-> <<0, 0>>] /\ held = [g \in G |-> {}] /\ result = [g \in G |-> <<>>]
        /\ lock = 0 /\ cached = FALSE /\ miss = [g \in G |-> FALSE] /\ reading = {} /\ writing = {}
        /\ gscratch = <<0, 0>> /\ hinst = [g \in G |-> 0]
        /\ sched = <<>>

Api(g) == prog[g][k[g]]
Active(g) == k[g] <= Len(prog[g])
\* is h parked at a scheduling gate (so that another goroutine may run)?  The hooks exist in the pooled APIs only.
Parked(h) == CASE Gran = "fine" -> TRUE
               [] Gran = "gate" -> pc[h] \in {"idle", "inhook"} \/ (pc[h] \in {"got", "put"} /\ Active(h) /\ PoolOf(Api(h)) # "none")
               [] Gran = "hook" -> pc[h] \in {"idle", "inhook"}
               [] OTHER -> pc[h] = "idle"
\* g may take a step only if every other goroutine is parked at a gate
MayRun(g) == \A h \in G \ {g} : Parked(h)
Resume(g) == sched' = IF Parked(g) THEN Append(sched, g) ELSE sched

Goto(g, p) == pc' = [pc EXCEPT ![g] = p]
AfterGet(g) == IF UsesCache(Api(g)) THEN (IF LockedLookup THEN "need-lock" ELSE "need-read")
               ELSE IF UsesRegistry(Api(g)) THEN "need-registry"
               ELSE IF UsesHook(Api(g)) THEN "need-scratch" ELSE "need-use"
At(g, p) == pc[g] = p \/ (pc[g] = "got" /\ AfterGet(g) = p)

\* ---- pool
PoolGet(g) == /\ Active(g) /\ pc[g] = "idle" /\ MayRun(g) /\ PoolOf(Api(g)) # "none"
              /\ \E i \in free[PoolOf(Api(g))] \cup {nextInst} :
                    /\ inst' = [inst EXCEPT ![g] = i]
                    /\ free' = IF ExclusivePool THEN [free EXCEPT ![PoolOf(Api(g))] = @ \ {i}] ELSE free
                    /\ nextInst' = IF i = nextInst THEN nextInst + 1 ELSE nextInst
                    /\ buf' = IF i = nextInst THEN Append(buf, <<0, 0>>) ELSE buf
              /\ Goto(g, "got") /\ Resume(g)
              /\ UNCHANGED <<prog, k, val, held, result, lock, cached, miss, reading, writing, gscratch, hinst>>

\* calls without a pool start directly
NoPoolStart(g) == /\ Active(g) /\ pc[g] = "idle" /\ MayRun(g) /\ PoolOf(Api(g)) = "none"
                  /\ Goto(g, "got") /\ Resume(g)
                  /\ UNCHANGED <<prog, k, inst, free, nextInst, buf, val, held, result, lock, cached, miss, reading, writing, gscratch, hinst>>

Stay == UNCHANGED <<prog, k, inst, free, nextInst, buf, val, held, result, gscratch, hinst>>

\* ---- struct-info cache
CacheLock(g) == /\ (At(g, "need-lock") \/ pc[g] = "need-wlock")
                /\ MayRun(g) /\ lock = 0 /\ lock' = g
                /\ Goto(g, IF pc[g] = "need-wlock" THEN "need-write" ELSE "need-read") /\ Resume(g)
                /\ Stay /\ UNCHANGED <<cached, miss, reading, writing, gscratch, hinst>>
CacheReadBegin(g) == /\ At(g, "need-read") /\ MayRun(g)
                     /\ (LockedLookup => lock = g)
                     /\ reading' = reading \cup {<<g, "cache">>} /\ Goto(g, "rbegin") /\ Resume(g)
                     /\ Stay /\ UNCHANGED <<lock, cached, miss, writing>>
CacheReadEnd(g) == /\ pc[g] = "rbegin" /\ MayRun(g)
                   /\ reading' = reading \ {<<g, "cache">>} /\ miss' = [miss EXCEPT ![g] = ~cached]
                   /\ Goto(g, IF cached THEN (IF lock = g THEN "need-unlock" ELSE "need-use")
                              ELSE (IF lock = g THEN "need-write" ELSE "need-wlock")) /\ Resume(g)
                   /\ Stay /\ UNCHANGED <<lock, cached, writing>>
CacheWriteBegin(g) == /\ pc[g] = "need-write" /\ MayRun(g) /\ lock = g
                      /\ writing' = writing \cup {<<g, "cache">>} /\ Goto(g, "wbegin") /\ Resume(g)
                      /\ Stay /\ UNCHANGED <<lock, cached, miss, reading>>
CacheWriteEnd(g) == /\ pc[g] = "wbegin" /\ MayRun(g)
                    /\ writing' = writing \ {<<g, "cache">>} /\ cached' = TRUE /\ Goto(g, "need-unlock") /\ Resume(g)
                    /\ Stay /\ UNCHANGED <<lock, miss, reading>>
CacheUnlock(g) == /\ pc[g] = "need-unlock" /\ MayRun(g) /\ lock = g /\ lock' = 0
                  /\ Goto(g, "need-use") /\ Resume(g)
                  /\ Stay /\ UNCHANGED <<cached, miss, reading, writing, gscratch, hinst>>

\* ---- recomposer registry: read-only when the types were registered beforehand, otherwise the
\* first use of a type writes the registry map without any lock
RegistryRead(g) == /\ At(g, "need-registry") /\ MayRun(g)
                   /\ IF PreRegistered THEN reading' = reading \cup {<<g, "registry">>} /\ UNCHANGED writing
                                       ELSE writing' = writing \cup {<<g, "registry">>} /\ UNCHANGED reading
                   /\ Goto(g, "registry") /\ Resume(g)
                   /\ Stay /\ UNCHANGED <<lock, cached, miss>>
RegistryDone(g) == /\ pc[g] = "registry" /\ MayRun(g)
                   /\ reading' = reading \ {<<g, "registry">>} /\ writing' = writing \ {<<g, "registry">>}
                   /\ Goto(g, "need-use") /\ Resume(g)
                   /\ Stay /\ UNCHANGED <<lock, cached, miss>>

Tag(g) == <<g, k[g]>>
\* ---- scratch kept across the user's hook
ScratchBegin(g) ==
    /\ At(g, "need-scratch") /\ MayRun(g)
    /\ CASE Scratch = "percall" ->
              /\ val' = [val EXCEPT ![g] = Tag(g)]
              /\ UNCHANGED <<free, nextInst, buf, held, writing, gscratch, hinst>>
         [] Scratch = "global" ->
              /\ gscratch' = Tag(g) /\ writing' = writing \cup {<<g, "scratch">>}
              /\ UNCHANGED <<free, nextInst, buf, held, val, hinst>>
         [] OTHER ->          \* "released": encode into a pooled instance, put it back, hand its buffer to the hook
              \E i \in free["writer"] \cup {nextInst} :
                 /\ free' = [free EXCEPT !["writer"] = @ \cup {i}]
                 /\ nextInst' = IF i = nextInst THEN nextInst + 1 ELSE nextInst
                 /\ buf' = IF i = nextInst THEN Append(buf, Tag(g)) ELSE [buf EXCEPT ![i] = Tag(g)]
                 /\ hinst' = [hinst EXCEPT ![g] = i]
                 /\ held' = [held EXCEPT ![g] = @ \cup {[call |-> 0, ref |-> i, tag |-> Tag(g)]}]
                 /\ UNCHANGED <<val, writing, gscratch>>
    /\ Goto(g, "inhook") /\ Resume(g)
    /\ UNCHANGED <<prog, k, inst, result, lock, cached, miss, reading>>
\* the user's hook ran (pc = "inhook" is a scheduling gate: user code may yield, block, call back into the package)
HookRun(g) ==
    /\ pc[g] = "inhook" /\ MayRun(g)
    /\ CASE Scratch = "percall" -> UNCHANGED <<val, held, writing, hinst>>
         [] Scratch = "global" -> /\ val' = [val EXCEPT ![g] = gscratch] /\ writing' = writing \ {<<g, "scratch">>}
                                  /\ UNCHANGED <<held, hinst>>
         [] OTHER -> /\ val' = [val EXCEPT ![g] = buf[hinst[g]]]
                     /\ held' = [held EXCEPT ![g] = {x \in @ : x.call # 0}]
                     /\ hinst' = [hinst EXCEPT ![g] = 0] /\ UNCHANGED writing
    /\ Goto(g, "used") /\ Resume(g)
    /\ UNCHANGED <<prog, k, inst, free, nextInst, buf, result, lock, cached, miss, reading, gscratch>>

\* ---- the call proper
Use(g) == /\ At(g, "need-use") /\ MayRun(g)
          /\ IF inst[g] # 0 THEN buf' = [buf EXCEPT ![inst[g]] = Tag(g)] /\ UNCHANGED val
                            ELSE val' = [val EXCEPT ![g] = Tag(g)] /\ UNCHANGED buf
          /\ Goto(g, "used") /\ Resume(g)
          /\ UNCHANGED <<prog, k, inst, free, nextInst, held, result, lock, cached, miss, reading, writing, gscratch, hinst>>
CopyOut(g) == /\ pc[g] = "used" /\ MayRun(g) /\ inst[g] # 0 /\ Api(g) \in Copies
              /\ val' = [val EXCEPT ![g] = buf[inst[g]]]
              /\ Goto(g, "copied") /\ Resume(g)
              /\ UNCHANGED <<prog, k, inst, free, nextInst, buf, held, result, lock, cached, miss, reading, writing, gscratch, hinst>>
PoolPut(g) == /\ (pc[g] = "copied" \/ (pc[g] = "used" /\ (inst[g] = 0 \/ Api(g) \notin Copies))) /\ MayRun(g)
              /\ free' = IF inst[g] # 0 THEN [free EXCEPT ![PoolOf(Api(g))] = @ \cup {inst[g]}] ELSE free
              /\ Goto(g, "put") /\ Resume(g)
              /\ UNCHANGED <<prog, k, inst, nextInst, buf, val, held, result, lock, cached, miss, reading, writing, gscratch, hinst>>
Return(g) == /\ pc[g] = "put" /\ MayRun(g)
             /\ LET copied == inst[g] = 0 \/ Api(g) \in Copies
                    tag    == IF copied THEN val[g] ELSE buf[inst[g]]
                    ref    == IF copied \/ ~ReturnsBuffer(Api(g)) THEN 0 ELSE inst[g]
                IN /\ result' = [result EXCEPT ![g] = Append(@, tag)]
                   /\ held' = [held EXCEPT ![g] = @ \cup {[call |-> k[g], ref |-> ref, tag |-> tag]}]
             /\ inst' = [inst EXCEPT ![g] = 0] /\ k' = [k EXCEPT ![g] = @ + 1]
             /\ Goto(g, "idle") /\ Resume(g)
             /\ UNCHANGED <<prog, free, nextInst, buf, val, lock, cached, miss, reading, writing, gscratch, hinst>>

Step(g) == \/ PoolGet(g) \/ NoPoolStart(g) \/ CacheLock(g) \/ CacheReadBegin(g) \/ CacheReadEnd(g)
           \/ CacheWriteBegin(g) \/ CacheWriteEnd(g) \/ CacheUnlock(g) \/ RegistryRead(g) \/ RegistryDone(g)
           \/ ScratchBegin(g) \/ HookRun(g) \/ Use(g) \/ CopyOut(g) \/ PoolPut(g) \/ Return(g)
Next == \E g \in G : Step(g)
Spec == Init /\ [][Next]_vars

----------------------------------------------------------------------------
\* between PoolGet and PoolPut (after the Put, inst only remembers which buffer Return hands out)
Holding(g) == inst[g] # 0 /\ pc[g] # "put"
Exclusive == \A g, h \in G : g # h /\ Holding(g) /\ Holding(h) => inst[g] # inst[h]
\* last writer of every buffer a caller holds is that caller itself
BufferIsolation == \A g \in G : \A x \in held[g] : x.ref # 0 => buf[x.ref][1] = g
NoUnlockedWriteRead == \A w \in writing : \A x \in reading \cup writing : x = w \/ x[2] # w[2]
SequentialEquivalence == \A g \in G : \A i \in 1..Len(result[g]) : result[g][i] = <<g, i>>

DesignView == <<prog, k, pc, inst, free, nextInst, buf, val, held, result, lock, cached, miss, reading, writing, gscratch, hinst>>
AllDone == \A g \in G : ~Active(g)
\* behaviour generation: one line per complete schedule (programs + the goroutine resumed at each gate)
Emit == ~AllDone \/ PrintT(<<"S", ToJson([prog |-> prog, sched |-> sched])>>)
=============================================================================
