SPECIFICATION CSpec
CONSTANTS MaxLen = 0 MaxDepth = 3 Alpha = {}
MaxRead = 8
Input <- BlankInputs
INVARIANT EmitCuts
CHECK_DEADLOCK FALSE
