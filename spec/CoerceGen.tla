----------------------------- MODULE CoerceGen -----------------------------
(* Case generation for XCONV part 2 (b): TLC enumerates the WHOLE cell table of the coercion functions             *)
(*      value (one or more per value class of Coerce.tla)  x  function  x  number of defaults (0, 1, 2)             *)
(* as initial states and prints one case per state (INPUT encoding of harness/cmd/xconv: g = the Go type to build). *)
(* alt.Bool gets every combination of boolean defaults (a default can coincide with the natural answer only in     *)
(* some of them); the other functions get defaults that are no natural answer of any value in the universe.        *)
EXTENDS Integers, Sequences, Json, TLC

I(g, d) == [g |-> g, i |-> d]
Fl(g, lit) == [g |-> g, f |-> lit]
S(g, txt) == [g |-> g, s |-> txt]
Three == <<0, 3>>
U63 == <<0, 9, 2, 2, 3, 3, 7, 2, 0, 3, 6, 8, 5, 4, 7, 7, 5, 8, 0, 8>>
IntKinds == <<"int", "int8", "int16", "int32", "int64", "uint", "uint8", "uint16", "uint32", "uint64", "gen.Int">>
SignedKinds == <<"int", "int8", "int16", "int32", "int64", "gen.Int">>
Ints == [j \in 1..Len(IntKinds) |-> I(IntKinds[j], Three)] \o [j \in 1..Len(SignedKinds) |-> I(SignedKinds[j], <<1, 3>>)] \o
        << I("int", <<0, 0>>), I("uint8", <<0, 0>>), I("int64", <<0, 0>>),
           I("uint64", <<0, 1, 8, 4, 4, 6, 7, 4, 4, 0, 7, 3, 7, 0, 9, 5, 5, 1, 6, 1, 5>>), I("uint64", U63), I("uint", U63),
           I("uint64", <<0, 9, 2, 2, 3, 3, 7, 2, 0, 3, 6, 8, 5, 4, 7, 7, 5, 8, 0, 7>>),
           I("int64", <<0, 9, 2, 2, 3, 3, 7, 2, 0, 3, 6, 8, 5, 4, 7, 7, 5, 8, 0, 7>>),
           I("int64", <<1, 9, 2, 2, 3, 3, 7, 2, 0, 3, 6, 8, 5, 4, 7, 7, 5, 8, 0, 8>>),
           I("int64", <<0, 1, 5, 8, 6, 7, 0, 9, 2, 4, 4, 1, 2, 3, 4, 5, 6, 7, 8, 9>>), I("int", <<0, 1, 5, 0, 0, 0, 0, 0, 0, 0, 0>>),
           I("int64", <<1, 1, 5, 0, 0, 0, 0, 0, 0, 0, 0>>), I("int64", <<1, 5>>), I("gen.Int", <<0, 1, 0, 0, 0, 0, 0, 0, 0, 0, 0>>),
           I("uint32", <<0, 4, 2, 9, 4, 9, 6, 7, 2, 9, 5>>), I("int32", <<1, 2, 1, 4, 7, 4, 8, 3, 6, 4, 8>>), I("uint", <<0, 5>>) >>
Floats == << Fl("float64", "3"), Fl("float32", "3"), Fl("gen.Float", "3"), Fl("float64", "3.5"), Fl("float32", "3.5"), Fl("gen.Float", "3.5"),
             Fl("float64", "-3.5"), Fl("float64", "-3"), Fl("float64", "0.1234567890123"), Fl("gen.Float", "0.1234567890123"), Fl("float32", "0.7"),
             Fl("float64", "1e19"), Fl("float32", "1e19"), Fl("float64", "-1e19"), Fl("gen.Float", "1e19"), Fl("float64", "9223372036854775808"),
             Fl("float64", "-9223372036854775808"), Fl("float64", "NaN"), Fl("float32", "NaN"), Fl("gen.Float", "NaN"), Fl("float64", "+Inf"),
             Fl("float64", "-Inf"), Fl("float32", "+Inf"), Fl("float32", "90.5"), Fl("float32", "-90.5"), Fl("float64", "1.5"), Fl("float64", "-1.5"),
             Fl("float64", "0.25"), Fl("float64", "-0.0000015"), Fl("float64", "0"), Fl("float64", "-0"), Fl("float64", "1586709244.111112"),
             Fl("float64", "1999.999999"), Fl("gen.Float", "1.5"), Fl("float32", "1586709244"), Fl("float64", "1e300") >>
StrTexts == << "3", "-3", "+3", "007", "-0", "3.0", "3.5", "-3.5", "1e3", "1e30", "1e400", "-1e400", "9223372036854775807", "9223372036854775808",
               "-9223372036854775808", "9223372036854775807.0", "NaN", "inf", "3x", "", " 3", "true", "false", "TRUE", "True", "t", "F", "1", "0",
               "yes", "2021-03-05T10:11:12Z", "2021-03-05T10:11:12.123456789-05:00", "2021-03-05", "2021-03-05T10:11:12", "0x1p4", "1_000", "0.1",
               "123456789012345678901234567890", "0.5", "1e-400" >>
Strs == [j \in 1..Len(StrTexts) |-> S("string", StrTexts[j])] \o
        << S("gen.String", "3"), S("gen.String", "3.5"), S("gen.String", "true"), S("gen.String", "TRUE"), S("gen.String", "x"),
           S("gen.String", "2021-03-05T10:11:12Z"), S("gen.String", "1e30"), S("gen.String", "1e400"), S("gen.String", "3.0"),
           S("gen.Big", "3"), S("gen.Big", "3.5"), S("gen.Big", "1e30"), S("gen.Big", "x"), S("gen.Big", "123456789012345678901234567890"),
           S("[]byte", "3"), S("[]byte", "true"), S("[]byte", "") >>
Others == << [g |-> "nil"], [g |-> "bool", b |-> TRUE], [g |-> "bool", b |-> FALSE], [g |-> "gen.Bool", b |-> TRUE], [g |-> "gen.Bool", b |-> FALSE],
             S("time.Time", "2020-04-12T16:34:04.5Z"), S("time.Time", "1970-01-01T00:00:00Z"), S("time.Time", "1969-12-31T23:59:58.5Z"),
             S("time.Time", "2020-04-12T16:34:04.123456789Z"), S("time.Time", "2500-01-01T00:00:00Z"), S("time.Time", "0001-01-01T00:00:00Z"),
             S("gen.Time", "2020-04-12T16:34:04.5Z"), S("gen.Time", "1969-12-31T23:59:58.5Z"),
             [g |-> "[]any", a |-> <<>>], [g |-> "[]any", a |-> <<I("int", Three)>>], [g |-> "map[string]any", o |-> <<>>, v |-> <<>>],
             [g |-> "map[string]any", o |-> <<"a">>, v |-> <<I("int", Three)>>], [g |-> "struct"], [g |-> "[]int", a |-> <<I("int", Three)>>],
             [g |-> "gen.Array", a |-> <<>>], [g |-> "gen.Object", o |-> <<>>, v |-> <<>>], [g |-> "[]string", a |-> <<S("string", "3")>>] >>
Vals == Ints \o Floats \o Strs \o Others

Fns == <<"Bool", "Int", "Float", "String", "Time">>
\* defaults: <<d0, d1>> per function and variant
Defs(fn, var) ==
  CASE fn = "Bool" -> << [g |-> "bool", b |-> var \in {1, 2}], [g |-> "bool", b |-> var \in {1, 3}] >>
    [] fn = "Int" -> << I("int64", <<1, 7, 7, 7, 0, 0, 1>>), I("int64", <<1, 8, 8, 8, 0, 0, 2>>) >>
    [] fn = "Float" -> << Fl("float64", "-777001.25"), Fl("float64", "-888002.75") >>
    [] fn = "String" -> << S("string", "<d0>"), S("string", "<d1>") >>
    [] fn = "Time" -> << S("time.Time", "1999-01-02T03:04:05.000000006Z"), S("time.Time", "1998-07-06T05:04:03.000000002Z") >>

VARIABLES gi, gfn, gnd, gvar
Init == /\ gi \in 1..Len(Vals) /\ gfn \in 1..Len(Fns) /\ gnd \in 0..2
        /\ gvar \in (IF Fns[gfn] = "Bool" /\ gnd > 0 THEN 1..4 ELSE {1})
Next == UNCHANGED <<gi, gfn, gnd, gvar>>
Spec == Init /\ [][Next]_<<gi, gfn, gnd, gvar>>
CaseOf == [part |-> "coerce", src |-> "tlc", fn |-> Fns[gfn], v |-> Vals[gi], d |-> SubSeq(Defs(Fns[gfn], gvar), 1, gnd)]
EmitCase == PrintT(<<"CC", ToJson(CaseOf)>>)
=============================================================================
