SPECIFICATION GSpec
CONSTANTS
  Colourings = 3
  Deep = TRUE
CONSTRAINT Emit
CHECK_DEADLOCK FALSE
