--------------------------- MODULE StreamMatch ---------------------------
(* C17: streaming Match (oj.Match / MatchString / MatchLoad, sen.Match) equals parse-then- *)
(* locate.  Two formulations over the JsonPath module:                                      *)
(*   Expected(targets, doc): the statement itself - the locations the targets select        *)
(*     (JsonPath!Locs), outermost only, in document order, each with its value;             *)
(*   the event machine: what a handler can do while the tokens stream by (a current         *)
(*     location, a stack of partially built containers once a target matched, the calls     *)
(*     made so far), one action per token event.                                            *)
(* TLC checks the two equal on small documents for the targets a stream can decide          *)
(* (child, index >= 0, wildcard, union, forward slice with non-negative bounds, descent),   *)
(* which is the design argument; the conformance check compares the real callbacks with     *)
(* Expected for ALL target kinds the statement lists.                                       *)
(* Documents carry their members in source order (the harness writes them sorted by key).   *)
EXTENDS JsonPath

\* ---------------------------------------------------------------- the statement
IsProperPrefix(p, l) == Len(p) < Len(l) /\ SubSeq(l, 1, Len(p)) = p
SelSet(targets, doc) == UNION { {e.loc : e \in {Locs(targets[t], doc)[i] : i \in 1..Len(Locs(targets[t], doc))}} : t \in 1..Len(targets) }
DocOrder(doc) == LET ns == DescNodes(doc, <<>>) IN [i \in 1..Len(ns) |-> ns[i].loc]
Expected(targets, doc) ==
  LET sel == SelSet(targets, doc)
      out == SelectSeq(DocOrder(doc), LAMBDA l : l \in sel /\ ~\E p \in sel : IsProperPrefix(p, l))
  IN [i \in 1..Len(out) |-> [loc |-> out[i], val |-> At(doc, out[i])]]

\* ---------------------------------------------------------------- token events of a document
RECURSIVE Events(_)
Events(n) == IF IsArr(n) THEN <<[e |-> "["]>> \o FlatMap(LAMBDA x : Events(x), n.a) \o <<[e |-> "]"]>>
             ELSE IF IsObj(n) THEN <<[e |-> "{"]>> \o FlatMap(LAMBDA i : <<[e |-> "key", k |-> n.k[i]]>> \o Events(n.o[i]), [i \in 1..Len(n.o) |-> i]) \o <<[e |-> "}"]>>
             ELSE <<[e |-> "val", v |-> n]>>

\* ---------------------------------------------------------------- what a stream can decide: does a location match a target?
StreamableFrag(f) == \/ f.f \in {"root", "child", "wild", "desc"}
                     \/ f.f = "nth" /\ f.i >= 0
                     \/ f.f = "union" /\ \A j \in 1..Len(f.items) : IsK(f.items[j]) \/ f.items[j].i >= 0
                     \/ f.f = "slice" /\ (f.sa \/ f.s >= 0) /\ ~f.ea /\ f.e >= 0 /\ (f.sta \/ f.st > 0)
Streamable(p) == \A i \in 1..Len(p) : StreamableFrag(p[i])
StepMatch(f, s) ==
  CASE f.f = "child" -> IsK(s) /\ s.k = f.key
    [] f.f = "nth" -> ~IsK(s) /\ s.i = f.i
    [] f.f = "wild" -> TRUE
    [] f.f = "union" -> \E j \in 1..Len(f.items) : f.items[j] = s
    [] f.f = "slice" -> /\ ~IsK(s)
                        /\ LET s0 == IF f.sa THEN 0 ELSE f.s
                               st == IF f.sta THEN 1 ELSE f.st
                           IN s.i >= s0 /\ s.i < f.e /\ (s.i - s0) % st = 0
    [] OTHER -> FALSE
RECURSIVE LocMatch(_, _)
LocMatch(p, l) ==
  IF p = <<>> THEN l = <<>>
  ELSE IF Head(p).f = "root" THEN LocMatch(Tail(p), l)
  ELSE IF Head(p).f = "desc" THEN \E k \in 0..Len(l) : LocMatch(Tail(p), SubSeq(l, k + 1, Len(l)))
  ELSE l # <<>> /\ StepMatch(Head(p), Head(l)) /\ LocMatch(Tail(p), Tail(l))

\* ---------------------------------------------------------------- the event machine
CONSTANTS Docs, TargetSets         \* explored by the design check
VARIABLES doc, targets,            \* the case
          evs,                     \* events still to come
          ctx,                     \* open containers: [kind |-> "a"|"o", n |-> next index, key |-> pending key]
          col,                     \* partially built containers since a target matched (empty = not collecting)
          colLoc,                  \* where the collected value sits
          calls                    \* callbacks made so far
svars == <<doc, targets, evs, ctx, col, colLoc, calls>>
SInit == /\ doc \in Docs /\ targets \in TargetSets /\ evs = Events(doc) /\ ctx = <<>> /\ col = <<>> /\ colLoc = <<>> /\ calls = <<>>
CurLoc == [i \in 1..Len(ctx) |-> IF ctx[i].kind = "a" THEN IStep(ctx[i].n) ELSE KStep(ctx[i].key)]
Matches(l) == \E t \in 1..Len(targets) : LocMatch(targets[t], l)
Advance(c) == IF c = <<>> THEN c ELSE [c EXCEPT ![Len(c)].n = @ + 1]
\* put value v into the innermost partial container
AddTo(c, v) == LET top == c[Len(c)] IN
               [c EXCEPT ![Len(c)] = IF top.kind = "a" THEN [top EXCEPT !.a = Append(@, v)]
                                     ELSE [top EXCEPT !.k = Append(@, ctx[Len(ctx)].key), !.o = Append(@, v)]]
Finish(p) == IF p.kind = "a" THEN ANode(p.a) ELSE ONode(p.k, p.o)
OnVal == /\ evs # <<>> /\ Head(evs).e = "val"
         /\ evs' = Tail(evs) /\ ctx' = Advance(ctx) /\ UNCHANGED <<doc, targets, colLoc>>
         /\ IF col # <<>> THEN col' = AddTo(col, Head(evs).v) /\ UNCHANGED calls
            ELSE /\ col' = col
                 /\ calls' = IF Matches(CurLoc) THEN Append(calls, [loc |-> CurLoc, val |-> Head(evs).v]) ELSE calls
OnKey == /\ evs # <<>> /\ Head(evs).e = "key"
         /\ evs' = Tail(evs) /\ ctx' = [ctx EXCEPT ![Len(ctx)].key = Head(evs).k]
         /\ UNCHANGED <<doc, targets, col, colLoc, calls>>
OnStart == /\ evs # <<>> /\ Head(evs).e \in {"[", "{"}
           /\ LET kind == IF Head(evs).e = "[" THEN "a" ELSE "o"
                  fresh == [kind |-> kind, a |-> <<>>, k |-> <<>>, o |-> <<>>]
              IN /\ IF col # <<>> THEN col' = Append(col, fresh) /\ colLoc' = colLoc
                    ELSE IF Matches(CurLoc) THEN col' = <<fresh>> /\ colLoc' = CurLoc
                    ELSE col' = col /\ colLoc' = colLoc
                 /\ ctx' = Append(ctx, [kind |-> kind, n |-> 0, key |-> ""])
           /\ evs' = Tail(evs) /\ UNCHANGED <<doc, targets, calls>>
OnEnd == /\ evs # <<>> /\ Head(evs).e \in {"]", "}"}
         /\ evs' = Tail(evs) /\ UNCHANGED <<doc, targets, colLoc>>
         /\ LET up == SubSeq(ctx, 1, Len(ctx) - 1) IN
            /\ ctx' = Advance(up)
            /\ IF col = <<>> THEN UNCHANGED <<col, calls>>
               ELSE IF Len(col) = 1 THEN col' = <<>> /\ calls' = Append(calls, [loc |-> colLoc, val |-> Finish(col[1])])
               ELSE /\ calls' = calls
                    /\ LET inner == Finish(col[Len(col)])
                           rest == SubSeq(col, 1, Len(col) - 1)
                           top == rest[Len(rest)]
                       IN col' = [rest EXCEPT ![Len(rest)] = IF top.kind = "a" THEN [top EXCEPT !.a = Append(@, inner)]
                                                               ELSE [top EXCEPT !.k = Append(@, up[Len(up)].key), !.o = Append(@, inner)]]
SNext == OnVal \/ OnKey \/ OnStart \/ OnEnd
SSpec == SInit /\ [][SNext]_svars
\* at the end of the stream the machine has made exactly the calls the statement demands
Denotational == (evs = <<>> /\ \A t \in 1..Len(targets) : Streamable(targets[t])) => calls = Expected(targets, doc)
\* callbacks are never retracted
CallsGrow == [][Len(calls') >= Len(calls) /\ SubSeq(calls', 1, Len(calls)) = calls]_svars
=============================================================================
