--------------------------- MODULE TraceRobust ---------------------------
(* Trace validation for C06.  trace.ndjson holds two kinds of events:                                 *)
(*  {ev:"agg", api, cls, must, n, n_ok, n_err, n_perr}  many non-failing calls of one (api, input class): *)
(*       consumed by the Robust transitions in bulk - the step is enabled iff n = n_ok + n_err + n_perr,  *)
(*       an ordinary variant has n_perr = 0 and a Must variant has n_err = 0;                         *)
(*  {ev:"fail", api, lang, must, r, m, b, cls, count, vk, tk}  one call whose outcome r is not a transition of *)
(*       Robust (panic of an ordinary variant, panic with a runtime.Error / non-error value, hang),   *)
(*       shrunk by the harness.  It is rejected, and located by the JsonText automaton:               *)
(*       (pc before the decisive byte, class of that byte, stack top, classes of the next two bytes)  *)
(*       for JSON and SEN text; the byte classes of the shrunk input for path/filter text; (value     *)
(*       kind, target kind) for the conversion matrix.                                                *)
EXTENDS JsonText, Json
CONSTANT MaxBad

Tr == ndJsonDeserialize("trace.ndjson")
NT == Len(Tr)
VARIABLES ci, nok, nerr, nperr
tvars == <<st, hist, ci, nok, nerr, nperr>>

TInit == st = S0 /\ hist = <<>> /\ ci = 1 /\ nok = 0 /\ nerr = 0 /\ nperr = 0
         /\ TLCSet(1, <<>>) /\ TLCSet(2, 0) /\ TLCSet(3, 0) /\ TLCSet(4, {})

Outcomes(isMust) == IF isMust THEN {"ok", "panic-error"} ELSE {"ok", "err"}

\* ---- locus of a failing text input
RECURSIVE Walk(_, _, _)
\* returns <<state before the decisive byte, index of the decisive byte (0 = none: end of input)>>
Walk(s, bs, k) == IF k > Len(bs) THEN <<s, 0>>
                  ELSE IF Dead(Step(s, bs[k])) THEN <<s, k>> ELSE Walk(Step(s, bs[k]), bs, k + 1)
TextLocus(bs) == LET w == Walk(S0, bs, 1)
                     s == w[1]
                     k == w[2] IN
                 IF k = 0 THEN <<s.pc, -1, TopOf(s), <<>>>>
                 ELSE <<s.pc, Rep(bs[k]), TopOf(s), [j \in 1..(IF Len(bs) - k > 2 THEN 2 ELSE Len(bs) - k) |-> Rep(bs[k + j])]>>
\* path / filter text: byte classes (digits, letters, others by themselves)
JpRep(b) == CASE b \in 48..57 -> 48 [] b \in (65..90) \cup (97..122) -> 97 [] b >= 128 -> 128 [] OTHER -> b
JpLocus(bs) == [j \in 1..(IF Len(bs) > 12 THEN 12 ELSE Len(bs)) |-> JpRep(bs[j])]

Locus(e) == CASE e.lang \in {"json", "sen"} -> [kind |-> "text", loc |-> TextLocus(e.b)]
              [] e.lang = "jp" -> [kind |-> "path", loc |-> JpLocus(e.b)]
              [] OTHER -> [kind |-> "conv", loc |-> <<e.vk, e.tk>>]

\* an aggregated event is a bulk step of Robust's Return / MustReturn / PanicWithError transitions
AggOk(e) == /\ e.n = e.n_ok + e.n_err + e.n_perr
            /\ (e.must => e.n_err = 0) /\ (~e.must => e.n_perr = 0)
TAgg == /\ ci <= NT /\ Tr[ci].ev = "agg"
        /\ LET e == Tr[ci] IN
           /\ nok' = nok + e.n_ok /\ nerr' = nerr + e.n_err /\ nperr' = nperr + e.n_perr
           \* (side effects are written without disjunctions: TLC explores every disjunct of an action)
           /\ TLCSet(1, TLCGet(1) \o (IF AggOk(e) THEN <<>> ELSE <<[i |-> ci, kind |-> "accounting", api |-> e.api, r |-> "agg",
                                                                    loc |-> [kind |-> "agg", loc |-> <<e.cls>>]]>>))
           /\ TLCSet(3, TLCGet(3) + (IF AggOk(e) THEN 0 ELSE 1))
           /\ TLCSet(4, TLCGet(4) \cup {<<e.api, e.cls>>})
        /\ TLCSet(2, ci) /\ ci' = ci + 1 /\ UNCHANGED <<st, hist>>
\* a failing event: its outcome is not in Outcomes(must), so no Robust transition matches; it is recorded and skipped
TFail == /\ ci <= NT /\ Tr[ci].ev = "fail"
         /\ LET e == Tr[ci] IN
            /\ TLCSet(1, TLCGet(1) \o (IF e.r \in Outcomes(e.must) \/ Len(TLCGet(1)) >= MaxBad THEN <<>>
                                        ELSE <<[i |-> ci, kind |-> IF e.r = "hang" THEN "hang" ELSE "panic", api |-> e.api, r |-> e.r, loc |-> Locus(e)]>>))
            /\ TLCSet(3, TLCGet(3) + (IF e.r \in Outcomes(e.must) THEN 0 ELSE 1))
         /\ TLCSet(2, ci) /\ ci' = ci + 1 /\ UNCHANGED <<st, hist, nok, nerr, nperr>>
TraceNext == TAgg \/ TFail
TraceSpec == TInit /\ [][TraceNext]_tvars
Post == JsonSerialize("out.json", [n |-> TLCGet(2), bad |-> TLCGet(1), nbad |-> TLCGet(3),
                                   hits |-> [x \in {ToString(y) : y \in TLCGet(4)} |-> 1]])
=============================================================================
