SPECIFICATION SSpec
CONSTANTS Docs <- MCDocs
TargetSets <- MCTargets
INVARIANT Denotational
PROPERTY CallsGrow
CHECK_DEADLOCK FALSE
