---------------------------- MODULE ConverterGen ----------------------------
(* Case generation for XCONV part 1 (b).  TLC enumerates, as initial states,                                          *)
(*   family "table":  rule set (menu: every rule kind, match / no match, two rules for one key, results that another  *)
(*                    rule would match, identity results, unwrap rules whose member is matchable, results nil / 0)    *)
(*                    x  subject X (every leaf kind incl. the Go numeric kinds, float32 inexact / NaN / Inf, uint64   *)
(*                       above MaxInt64, gen.* and typed containers, foreign struct, single-member / two-member maps, *)
(*                       tagged / untagged arrays, empty containers, nested matchables)                               *)
(*                    x  position (root, element, element with siblings, member, member with sibling, nested 2 and 3) *)
(*                    x  API (Converter.Convert, ojg.Convert [+ junk funcs], alt.Alter, alt.Decompose);               *)
(*   family "pre":    predefined converter (TimeRFC3339Converter, TimeNanoConverter, MongoConverter, both combined)   *)
(*                    x  subject (time-ish strings in and out of the layouts, integers around 946684800000000000 in   *)
(*                       the Go kinds, mongo decorations with well- and ill-formed / non-string / nested members)     *)
(*                    x  position.                                                                                    *)
(* One case per state is printed in the INPUT encoding of harness/cmd/xconv (g = Go type to build).                   *)
EXTENDS Integers, Sequences, Json, TLC

I(g, d) == [g |-> g, i |-> d]
Fl(g, lit) == [g |-> g, f |-> lit]
S(txt) == [g |-> "string", s |-> txt]
A(s) == [g |-> "[]any", a |-> s]
O(k, v) == [g |-> "map[string]any", o |-> k, v |-> v]
NIL == [g |-> "nil"]
One == <<0, 1>>
U63 == <<0, 9, 2, 2, 3, 3, 7, 2, 0, 3, 6, 8, 5, 4, 7, 7, 5, 8, 0, 8>>
MinI == <<1, 9, 2, 2, 3, 3, 7, 2, 0, 3, 6, 8, 5, 4, 7, 7, 5, 8, 0, 8>>

\* ------------------------------------------------------------------ family "table"
PlainLeaves == << I("int", One), I("int64", One), I("int8", One), I("uint8", One), I("uint64", One), I("int", <<0, 2>>), I("int32", <<0, 7>>),
                  Fl("float64", "0.5"), Fl("float64", "1.5"), S("a"), S("b"), S(""), NIL, [g |-> "bool", b |-> TRUE] >>
OddLeaves == << I("uint64", U63), I("uint", U63), I("int64", MinI), Fl("float32", "0.5"), Fl("float32", "0.7"), Fl("float32", "16777216"),
                Fl("float32", "+Inf"), Fl("float32", "NaN"), Fl("float32", "-Inf"), Fl("float64", "NaN"), Fl("float32", "0.1"),
                I("gen.Int", One), [g |-> "gen.String", s |-> "a"], [g |-> "[]string", a |-> <<S("a")>>], [g |-> "map[string]int", o |-> <<"k">>, v |-> <<I("int", One)>>],
                [g |-> "struct"], [g |-> "time.Time", s |-> "2021-03-05T10:11:12Z"], [g |-> "gen.Array", a |-> <<[g |-> "gen.String", s |-> "a"]>>],
                [g |-> "[]int", a |-> <<I("int", One)>>], [g |-> "gen.Float", f |-> "0.5"],
                I("uint8", <<0, 2, 0, 0>>), I("uint16", <<0, 6, 5, 5, 3, 5>>), I("uint32", <<0, 4, 2, 9, 4, 9, 6, 7, 2, 9, 5>>), I("int8", <<1, 1, 2, 8>>),
                I("int16", <<1, 3, 2, 7, 6, 8>>), I("int32", <<1, 2, 1, 4, 7, 4, 8, 3, 6, 4, 8>>) >>
Core == << I("int", One), S("a"), Fl("float64", "0.5"), NIL >>
Wrap(x) == << O(<<"k">>, <<x>>), O(<<"q">>, <<x>>), O(<<"k", "z">>, <<x, I("int", One)>>), A(<<S("T"), x>>), A(<<S("U"), x>>), A(<<x, S("T")>>) >>
Wrapped == Wrap(Core[1]) \o Wrap(Core[2]) \o Wrap(Core[3]) \o Wrap(Core[4])
Nested == << A(<<>>), O(<<>>, <<>>), O(<<"k">>, <<O(<<"k">>, <<I("int", One)>>)>>), A(<<S("T"), O(<<"k">>, <<S("a")>>)>>), O(<<"k">>, <<A(<<S("T"), I("int", One)>>)>>),
            A(<<S("T")>>), O(<<"k">>, <<A(<<S("a"), I("int", One)>>)>>), A(<<S("T"), A(<<S("T"), S("a")>>)>>) >>
PlainX == PlainLeaves \o Wrapped \o Nested
AllX == PlainX \o OddLeaves
NPlain == Len(PlainX)

Ctx(c, x) == CASE c = 1 -> x
               [] c = 2 -> A(<<x>>)
               [] c = 3 -> A(<<NIL, x, [g |-> "bool", b |-> TRUE]>>)
               [] c = 4 -> O(<<"m">>, <<x>>)
               [] c = 5 -> O(<<"m", "n">>, <<x, S("a")>>)
               [] c = 6 -> A(<<A(<<x>>)>>)
               [] c = 7 -> O(<<"m">>, <<A(<<x>>)>>)
               [] c = 8 -> A(<<O(<<"m">>, <<x>>)>>)
               [] c = 9 -> O(<<"m">>, <<O(<<"n">>, <<x>>)>>)
               [] c = 10 -> A(<<A(<<A(<<x, I("int", One)>>)>>)>>)
               [] c = 11 -> O(<<"m">>, <<A(<<O(<<"n", "k">>, <<x, S("b")>>)>>)>>)
NCtx == 11

RI(d, r) == [k |-> "int", m |-> [i |-> d], r |-> r]
RF(lit, r) == [k |-> "flt", m |-> [f |-> lit], r |-> r]
RS(kind, txt, r) == [k |-> kind, m |-> [s |-> txt], r |-> r]
Cn(x) == [c |-> x]
Un == [u |-> 1]
Menu == << <<>>,
           << RI(One, Cn(S("one"))) >>,
           << RI(One, Cn(I("int", <<0, 2>>))), RI(<<0, 2>>, Cn(I("int", <<0, 3>>))) >>,
           << RI(One, Cn(S("first"))), RI(One, Cn(S("second"))) >>,
           << RF("0.5", Cn(S("half"))), RF("0.7", Cn(S("seven-tenths"))) >>,
           << RS("str", "a", Cn(S("b"))), RS("str", "b", Cn(S("c"))) >>,
           << RS("str", "a", Un), RI(One, Un), RF("0.5", Un) >>,
           << RS("map", "k", Un), RS("str", "a", Cn(S("A"))) >>,
           << RS("map", "k", Cn(A(<<S("a")>>))), RS("str", "a", Cn(S("A"))) >>,
           << RS("arr", "T", Un), RI(One, Cn(S("one"))) >>,
           << RS("arr", "T", Cn(O(<<"k">>, <<I("int", One)>>))), RS("map", "k", Un) >>,
           << RI(MinI, Cn(S("neg"))), RI(<<1, 1>>, Cn(S("minus-one"))), RI(<<0, 2, 0, 0>>, Cn(S("two-hundred"))), RI(<<1, 5, 6>>, Cn(S("minus-56"))),
              RI(<<1, 1, 2, 8>>, Cn(S("minus-128"))), RI(<<0, 1, 2, 8>>, Cn(S("plus-128"))) >>,
           << RI(One, Cn(NIL)), RS("str", "", Cn(I("int", <<0, 0>>))) >>,
           << RI(One, Cn(S("I"))), RF("0.5", Cn(S("F"))), RS("str", "a", Cn(S("S"))), RS("map", "k", Cn(S("M"))), RS("arr", "T", Cn(S("A"))) >>,
           << RS("map", "k", Un), RS("map", "q", Cn(O(<<"k">>, <<I("int", One)>>))), RS("arr", "U", Un) >> >>

Apis == <<"method", "func", "alter", "decompose">>
\* ------------------------------------------------------------------ family "pre"
TimeStrs == << "2021-03-05T10:11:12Z", "2021-03-05T10:11:12.123Z", "2021-03-05T10:11:12.123456789-05:00", "2021-03-05", "2021-03-05T10:11:12",
               "2021-03-05T10:11:12.1234567890-05:00", "2021-03-05 10:11:12.123Z", "2021-03-05T10:11:12,5Z", "2021-03-05T10:11:12.120Z",
               "2021-03-05T10:11:12+00:00", "", "a", "2021-13-05", "2021-3-5", "20210305", "2021-03-05T24:00:00Z", "2021-03-05t10:11:12z",
               "2021-02-30", "2021-03-05T10:11:12.5+05:30", "0000-01-01", "2021-03-05T10:11:12.Z" >>
NanoInts == << I("int64", <<0, 9, 4, 6, 6, 8, 4, 8, 0, 0, 0, 0, 0, 0, 0, 0, 0, 0, 0>>), I("int", <<0, 9, 4, 6, 6, 8, 4, 8, 0, 0, 0, 0, 0, 0, 0, 0, 0, 0, 0>>),
               I("uint64", <<0, 9, 4, 6, 6, 8, 4, 8, 0, 0, 0, 0, 0, 0, 0, 0, 0, 0, 1>>), I("uint", <<0, 9, 4, 6, 6, 8, 4, 8, 0, 0, 0, 0, 0, 0, 0, 0, 0, 0, 0>>),
               I("int64", <<0, 9, 4, 6, 6, 8, 4, 7, 9, 9, 9, 9, 9, 9, 9, 9, 9, 9, 9>>), I("int64", <<0, 1, 6, 0, 9, 8, 0, 4, 8, 0, 0, 1, 2, 3, 4, 5, 6, 7, 8, 9>>),
               I("int64", <<0, 9, 2, 2, 3, 3, 7, 2, 0, 3, 6, 8, 5, 4, 7, 7, 5, 8, 0, 7>>), I("uint64", U63),
               I("uint64", <<0, 1, 8, 4, 4, 6, 7, 4, 4, 0, 7, 3, 7, 0, 9, 5, 5, 1, 6, 1, 5>>), I("int32", <<0, 1, 2, 3, 4, 5>>), I("int", <<0, 0>>),
               I("int64", <<1, 1>>), I("gen.Int", <<0, 9, 4, 6, 6, 8, 4, 8, 0, 0, 0, 0, 0, 0, 0, 0, 0, 0, 1>>), Fl("float64", "9.466848e17"), I("int64", MinI) >>
MongoKeys == << "$date", "$numberLong", "$numberDecimal", "$oid", "$other" >>
MongoMembers == << S("2021-03-05T11:22:33.123Z"), S("2021-03-05T11:22:33Z"), S("2021-03-05T11:22:33.123456Z"), S("2021-03-05"), S("123456789"), S("-5"),
                   S("+5"), S("007"), S("9223372036854775807"), S("9223372036854775808"), S("123.456"), S("1e3"), S("NaN"), S("Infinity"), S("0x1p4"),
                   S(""), S("507f191e810c19729de860ea"), S("1e400"), S("12 "), S("0x10"), S("010"), S("1_000"), I("int", <<0, 5>>), NIL, A(<<>>), O(<<"$numberLong">>, <<S("5")>>),
                   Fl("float64", "1.5"), [g |-> "bool", b |-> TRUE], [g |-> "gen.String", s |-> "5"] >>
MongoX == [j \in 1..(Len(MongoKeys) * Len(MongoMembers)) |->
              O(<<MongoKeys[((j - 1) % Len(MongoKeys)) + 1]>>, <<MongoMembers[((j - 1) \div Len(MongoKeys)) + 1]>>)] \o
          << O(<<"$numberLong", "x">>, <<S("5"), I("int", <<0, 3>>)>>), O(<<>>, <<>>), [g |-> "gen.Object", o |-> <<"$oid">>, v |-> <<[g |-> "gen.String", s |-> "ab"]>>],
             [g |-> "map[string]string", o |-> <<"$numberLong">>, v |-> <<S("5")>>] >>
PreX == [j \in 1..Len(TimeStrs) |-> S(TimeStrs[j])] \o NanoInts \o MongoX
PreConvs == <<"rfc3339", "nano", "mongo", "rfc3339+mongo">>
PreCtxs == <<1, 2, 4, 6, 9>>

VARIABLES fam, gr, gx, gc, ga
Init == \/ /\ fam = "table" /\ gr \in 1..Len(Menu) /\ gc \in 1..NCtx /\ ga \in 1..Len(Apis)
           /\ gx \in (IF ga = 1 THEN 1..Len(AllX) ELSE 1..NPlain)
           /\ (ga > 1 => gc \in {1, 2, 4, 7, 11})
        \/ /\ fam = "pre" /\ gr \in 1..Len(PreConvs) /\ gc \in 1..Len(PreCtxs) /\ gx \in 1..Len(PreX) /\ ga = 1
Next == UNCHANGED <<fam, gr, gx, gc, ga>>
Spec == Init /\ [][Next]_<<fam, gr, gx, gc, ga>>
CaseOf == IF fam = "table"
          THEN [part |-> "conv", src |-> "tlc", api |-> Apis[ga], conv |-> "table", rules |-> Menu[gr], junk |-> (ga = 2 /\ (gx % 2) = 0), v |-> Ctx(gc, AllX[gx])]
          ELSE [part |-> "conv", src |-> "tlc", api |-> "method", conv |-> PreConvs[gr], rules |-> <<>>, junk |-> FALSE, v |-> Ctx(PreCtxs[gc], PreX[gx])]
EmitCase == PrintT(<<"CV", ToJson(CaseOf)>>)
=============================================================================
