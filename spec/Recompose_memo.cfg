SPECIFICATION Spec
CONSTANTS KeyedBy = "full" MaxHist = 0 GraphLen = 2 IndexMemo = "bytype"
INVARIANT TypeOK
INVARIANT FreshIsOwn
INVARIANT HistoryFreeStruct
CHECK_DEADLOCK FALSE
