SPECIFICATION Spec
CONSTANTS
  TreeNames = {"t_member"}
  WrapMaps = {"none"}
  SchemeNames = {"ansi"}
  Styles = {1}
INVARIANTS AllAccepted
CHECK_DEADLOCK FALSE
