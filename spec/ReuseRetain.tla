---------------------------- MODULE ReuseRetain ----------------------------
(* C07, results that are retained by the caller.  Reuse.tla, operator Stable: what a call handed to   *)
(* its caller is unchanged by every later call, unless the producing call is a documented exception    *)
(* (Reuse = TRUE, a buffer-returning API).  The Unmarshal / Recompose family has no such exception:     *)
(* everything reachable from the TARGET of the call - the members built by reflection AND the values     *)
(* user code was handed on the way and kept (the arguments of alt.AttrSetter.SetAttr, of a              *)
(* RecomposeFunc and of a RecomposeAnyFunc registered in the *alt.Recomposer) - belongs to the caller.   *)
(*                                                                                                     *)
(* This module enumerates the histories that put Stable to the test for that family: a PRODUCER call    *)
(* (entry point, target, document) followed by a chain of LATER calls (a later call is what would       *)
(* clobber recycled maps, slices or buffers), on one pair of reused oj.Parser / sen.Parser instances    *)
(* and through the pooled package-level functions.  TraceReuse re-inspects EVERY earlier result after   *)
(* every call, so one history <p, l1, ..., ln> tests p against l1..ln and each li against the calls     *)
(* behind it.  The later kinds are dealt round-robin into Groups chains of at most 12 calls (the        *)
(* shrinker of props/C07.py searches sub-histories up to that length), so over all histories every       *)
(* producer kind is followed by every later kind.  Every call is also judged by CallConforms (fresh      *)
(* result) and ScribbleConforms (caller overwrites its input).                                          *)
(* Quick:    producer = every applicable (entry, target, document); later kinds = every entry, targets   *)
(*           {struct, any} (+ composer where the entry accepts a *Recomposer), every document.           *)
(* Thorough: later kinds = every kind.                                                                  *)
(* The Go driver (harness/cmd/reuse/retain.go) executes a kind "<entry>|<target>|<doc>".                 *)
EXTENDS Naturals, Sequences, FiniteSets, TLC, Json

CONSTANT Thorough        \* BOOLEAN

Family == "Unmarshal(retained)"

\* entry points that accept a *alt.Recomposer (oj.Parser.Unmarshal / sen.Parser.Unmarshal ignore their recomposer argument)
WithRecomposer == {"oj.Unmarshal", "sen.Unmarshal", "oj.Parse+Recompose", "sen.Parse+Recompose",
                   "oj.Parser.Parse+Recompose", "sen.Parser.Parse+Recompose"}
EntrySeq == <<"oj.Unmarshal", "sen.Unmarshal", "sen.Parser.Unmarshal", "oj.Parser.Unmarshal", "oj.Parse+Recompose",
              "sen.Parse+Recompose", "sen.Parser.Parse+Recompose", "oj.Parser.Parse+Recompose">>

\* targets filled by reflection / through the AttrSetter interface (no recomposer needed)
PlainTargets == {"struct", "map", "slice", "any", "typedmap", "attrsetter"}
\* targets that need user hooks registered in a *alt.Recomposer: a RecomposeFunc found by the create key / by the type of the
\* target, a RecomposeAnyFunc, and hooks below the top level (a member built by a composer, AttrSetter members)
HookTargets  == {"composer", "composer-typed", "anycomposer", "hooks-in-struct"}
TargetSeq == <<"struct", "any", "composer", "map", "slice", "typedmap", "attrsetter", "composer-typed", "anycomposer", "hooks-in-struct">>
DocSeq == <<"A", "B", "C">>      \* different member names, array lengths and string lengths at the same nesting positions

Applies(e, t) == t \in PlainTargets \/ e \in WithRecomposer
LaterTarget(e, t) == Thorough \/ t \in {"struct", "any", "composer"}

NE == Len(EntrySeq)
NT == Len(TargetSeq)
ND == Len(DocSeq)
\* all (entry, target, document) combinations in a fixed order (entry fastest, then target, document slowest)
Combos == [i \in 1..(NE * NT * ND) |-> <<EntrySeq[((i - 1) % NE) + 1], TargetSeq[(((i - 1) \div NE) % NT) + 1], DocSeq[((i - 1) \div (NE * NT)) + 1]>>]
IsKind(k) == Applies(k[1], k[2])
IsLater(k) == IsKind(k) /\ LaterTarget(k[1], k[2])
Kinds == SelectSeq(Combos, IsKind)
Later == SelectSeq(Combos, IsLater)

ChainMax == 11                                              \* later calls per history
Groups == ((Len(Later) - 1) \div ChainMax) + 1
\* chain g (0-based) takes the later kinds g+1, g+1+Groups, g+1+2*Groups, ... : every chain runs through all documents and
\* mixes entries and targets
ChainLen(g) == ((Len(Later) - (g + 1)) \div Groups) + 1
ChainAt(g, n) == Later[g + 1 + ((n - 1) * Groups)]

VARIABLES hist, grp
vars == <<hist, grp>>
Init == hist = <<>> /\ grp \in 0..(Groups - 1)
Produce(i) == hist = <<>> /\ hist' = <<Kinds[i]>> /\ UNCHANGED grp
Follow == /\ hist # <<>> /\ Len(hist) <= ChainLen(grp)
          /\ hist' = Append(hist, ChainAt(grp, Len(hist))) /\ UNCHANGED grp
Next == (\E i \in 1..Len(Kinds) : Produce(i)) \/ Follow
Spec == Init /\ [][Next]_vars

Shape == /\ Len(hist) <= 1 + ChainMax
         /\ \A i \in 1..Len(hist) : IsKind(hist[i])
         /\ \A i \in 2..Len(hist) : IsLater(hist[i])
Complete == Len(hist) = 1 + ChainLen(grp)
Emit == ~Complete \/ PrintT(<<"R", ToJson([f |-> Family, h |-> hist])>>)
=============================================================================
