SPECIFICATION MCSpec
INVARIANTS Total NoD1WithoutTwo NativeKept SecondDefaultWins ReadingsWellFormed ArrayUnconvertible TimeArith
CHECK_DEADLOCK FALSE
