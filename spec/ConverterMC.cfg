SPECIFICATION Spec
INVARIANTS Identity Deterministic Frame ShapeKept ResultFinal Idempotent OrderAgrees PickAgrees LocusSound
CHECK_DEADLOCK FALSE
