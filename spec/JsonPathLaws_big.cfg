SPECIFICATION Spec
CONSTANTS MaxLen = 3
INVARIANTS Sound NoDup Composition SelfJudge SliceLaw
CHECK_DEADLOCK FALSE
