SPECIFICATION SSpec
CONSTANTS MaxSteps = 1
INVARIANTS RepAllowed Frame Effect AtMostOne
CHECK_DEADLOCK FALSE
