SPECIFICATION Spec
CONSTANTS
  LeafSet <- LeavesQuick
  MaxLen = 2
CONSTRAINT EmitCase
CHECK_DEADLOCK FALSE
