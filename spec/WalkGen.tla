------------------------------ MODULE WalkGen ------------------------------
(* Case generation for XWALK part 1: TLC enumerates every ordered tree SHAPE of depth <= 2 with up to 3    *)
(* children per node and of depth <= 3 with up to 2 children per node, and labels each shape under a      *)
(* number of COLOURINGS (rotation of leaf kinds, container kinds, member names, Simplifier wrappers over   *)
(* the position of a node), in the simple and in the gen form.  Every (shape, colouring, form) is one TLC  *)
(* state; the CONSTRAINT prints the tree together with the number of nodes and leaves the specification   *)
(* expects to be visited (cross-checked by the trace specification).                                      *)
(* Leaf universe: null, true, false, 0, 1, -7, "", "a", "a.b", 1.5 and - simple form only - the opaque     *)
(* values ints ([]int), smap (map[string]int), struct, time, bytes, keyed (jp.Keyed), indexed, ptr.        *)
(* Member names: "", "$", "'", "0", "a", "a.b", "b", "x y", "é" (bytewise sorted; several need brackets).   *)
EXTENDS Integers, Sequences, FiniteSets, TLC, Json
W == INSTANCE Walk WITH tree <- 0, jl <- FALSE, seen <- {}, fin <- FALSE, Trees <- {}

CONSTANTS Colourings,     \* number of colourings per shape
          Deep            \* TRUE: also the depth-3 shapes

Seqs(S, w) == UNION {[1..n -> S] : n \in 0..w}
Sh0 == {<<>>}
Sh1 == Seqs(Sh0, 3)
Sh2 == Seqs(Sh1, 3)
Sh1n == Seqs(Sh0, 2)
Sh2n == Seqs(Sh1n, 2)
Sh3n == Seqs(Sh2n, 2)
Shapes == Sh2 \cup (IF Deep THEN Sh3n ELSE {})

KeyU == << <<>>, <<36>>, <<39>>, <<48>>, <<97>>, <<97, 46, 98>>, <<98>>, <<120, 32, 121>>, <<195, 169>> >>
NK == Len(KeyU)
LeafS == << [t |-> "null"], [t |-> "bool", v |-> TRUE], [t |-> "int", v |-> 1], [t |-> "str", v |-> <<97>>],
            [t |-> "opq", id |-> "ints"], [t |-> "int", v |-> 0], [t |-> "bool", v |-> FALSE], [t |-> "str", v |-> <<>>],
            [t |-> "flt", s |-> "1.5"], [t |-> "opq", id |-> "struct"], [t |-> "int", v |-> 1], [t |-> "str", v |-> <<97, 46, 98>>],
            [t |-> "opq", id |-> "smap"], [t |-> "int", v |-> -7], [t |-> "opq", id |-> "keyed"], [t |-> "null"],
            [t |-> "opq", id |-> "time"], [t |-> "opq", id |-> "bytes"], [t |-> "opq", id |-> "indexed"], [t |-> "opq", id |-> "ptr"] >>
LeafG == << [t |-> "null"], [t |-> "bool", v |-> TRUE], [t |-> "int", v |-> 1], [t |-> "str", v |-> <<97>>],
            [t |-> "int", v |-> 0], [t |-> "bool", v |-> FALSE], [t |-> "str", v |-> <<>>], [t |-> "flt", s |-> "1.5"],
            [t |-> "int", v |-> 1], [t |-> "str", v |-> <<97, 46, 98>>], [t |-> "int", v |-> -7] >>

\* n member names: a cyclic window of the universe starting at s, in universe (= bytewise) order
KeysFor(n, s) == LET idx == {((s + j) % NK) + 1 : j \in 0..(n - 1)}
                     F[i \in 0..NK] == IF i = 0 THEN <<>> ELSE IF i \in idx THEN Append(F[i - 1], KeyU[i]) ELSE F[i - 1]
                 IN F[NK]
\* label a shape: h = a number derived from the colouring and the position (depth d, index i in the parent)
RECURSIVE Label(_, _, _, _, _)
Label(sh, c, g, d, i) ==
  LET h == c + (3 * d) + (5 * i) + Len(sh)
      body == IF sh = <<>>
              THEN (IF h % 4 = 3 THEN (IF h % 8 = 3 THEN [t |-> "arr", g |-> g, v |-> <<>>] ELSE [t |-> "obj", g |-> g, k |-> <<>>, v |-> <<>>])
                    ELSE LET a == IF g = 1 THEN LeafG[(h % Len(LeafG)) + 1] ELSE LeafS[(h % Len(LeafS)) + 1]
                         IN [t |-> "leaf", g |-> IF a.t = "null" THEN 0 ELSE g, a |-> a])
              ELSE LET kids == [j \in 1..Len(sh) |-> Label(sh[j], c + j, g, d + 1, j)]
                   IN IF (h + d) % 2 = 0 THEN [t |-> "arr", g |-> g, v |-> kids]
                      ELSE [t |-> "obj", g |-> g, k |-> KeysFor(Len(sh), h), v |-> kids]
  IN IF g = 0 /\ h % 7 = 2 THEN [t |-> "sim", g |-> 0, v |-> body] ELSE body

VARIABLES shape, col, gen
gvars == <<shape, col, gen>>
GInit == shape \in Shapes /\ col \in 0..(Colourings - 1) /\ gen \in {0, 1}
GNext == UNCHANGED gvars
GSpec == GInit /\ [][GNext]_gvars
Emit == LET t == Label(shape, col, gen, 0, 0) IN
        PrintT(<<"WT", ToJson([tree |-> t, nn |-> Cardinality(W!AllPaths(t, <<>>)), nl |-> Cardinality(W!LeafPaths(t))])>>)
=============================================================================
