SPECIFICATION Spec
CONSTANTS
  MaxDocs = 2
  Wide = TRUE
  Bug = "none"
INVARIANTS AcceptsOwn OrderKept FailClean SplitIndependent Sharp Filtered
CHECK_DEADLOCK FALSE
