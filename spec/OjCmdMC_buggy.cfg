SPECIFICATION Spec
CONSTANTS
  MaxDocs = 1
  Wide = FALSE
  Bug = "extract-first"
INVARIANTS AcceptsOwn
CHECK_DEADLOCK FALSE
