------------------------------ MODULE Convert ------------------------------
(* C18: generic and simple forms convert losslessly and copy deeply.                        *)
(*                                                                                          *)
(* A heap model.  `heap` is a sequence of container cells (address = index); a slot is a    *)
(* leaf record or a reference [t |-> "ref", a |-> address].  Leaves and cells carry the Go  *)
(* type `g` they have in the real data (int8 ... uint64, float32, gen.Int, []any, ...).     *)
(*   Build(tree)      allocate the input                                                    *)
(*   Copy(op)         the copying operations: fresh cells for every container               *)
(*   InPlace(op)      the in-place operations: cells are re-typed, the result is the input  *)
(*   Mutate(side, addr, kind)   set element 0 / append / set key / delete key on one cell   *)
(* Invariants: Preserve (the result denotes the input's value), InputKept (a copying        *)
(* operation leaves its input as it was), Disjoint (no cell reachable from both), and hence *)
(* NoInterference (a mutation on one side never changes what the other side denotes).       *)
(* With Aliasing = TRUE a deliberately shallow Copy is added; NoInterference must fail.     *)
(*                                                                                          *)
(* Allowances ("exactly" = same kind and same value):                                       *)
(*  B1 Go integer widths normalise to int64 / gen.Int, float32 to float64 (documented);     *)
(*     for alt.Decompose/Dup/Alter a float32 may also come back as the "nicer" float64 that *)
(*     rounds to the same float32 (documented in alt/decompose.go).                         *)
(*  B2 a big number (json.Number, gen.Big) may come back as a big number or as a string     *)
(*     with the same text (gen.Big.Simplify documents the string); it may not vanish.       *)
(*  B3 in-place operations are only required to preserve the value.                         *)
(*  B4 options are fixed to keep nulls (OmitNil off) and times (TimeFormat "time").         *)
(*  B5 the projection records whether a container is nil: a non-nil (possibly empty) input  *)
(*     container must come back non-nil (a nil slice is another Go value and prints as null *)
(*     in the strict writer); what a nil input container becomes is not stated anywhere.    *)
(*  B6 option sets that change what a copying operation returns (a Converter with Int / Float / *)
(*     String / Map / Array functions, the stock TimeRFC3339 / TimeNano / Mongo converters,  *)
(*     OmitNil, OmitEmpty, TimeFormat, TimeMap, TimeWrap: ConvOpts): what the result must    *)
(*     DENOTE then is the business of the converter specification (XCONV), not of C18; but   *)
(*     Copy is Copy under every option set: InputKept, Disjoint and NoInterference hold      *)
(*     whatever the options are ("the results of the copying operations share no mutable     *)
(*     state with their input" has no exception for options).                                *)
(*  B7 a time leaf is a time.Time: instant AND location (zone name, offset).  "Exactly"       *)
(*     includes the location; monotonic clock readings are not modelled.                     *)
EXTENDS Integers, Sequences, FiniteSets, TLC

CONSTANTS MaxNodes,     \* size bound of generated input trees
          Aliasing      \* TRUE: add the shallow (wrong) copy

-----------------------------------------------------------------------------
(* typed trees *)
IsCont(x) == x.t \in {"arr", "obj"}
Range(s) == {s[j] : j \in 1..Len(s)}

SimpleInts == {"int", "int8", "int16", "int32", "int64", "uint", "uint8", "uint16", "uint32", "uint64"}
CopyOps    == {"alt.Generify", "gen.Simplify", "gen.Dup", "alt.Dup", "alt.Decompose", "Generify+Simplify"}
InPlaceOps == {"alt.GenAlter", "gen.Alter", "alt.Alter", "Generify+Alter", "GenAlter+Simplify", "GenAlter+Alter"}
GenInput   == {"gen.Simplify", "gen.Dup", "gen.Alter"}                  \* operations whose input is a gen tree
ToGen      == {"alt.Generify", "alt.GenAlter"}                          \* result is a gen tree
Decomposing == {"alt.Dup", "alt.Decompose", "alt.Alter"}                \* B1: nicer float32 widening allowed

\* the value part of a number leaf, whatever its width
IntPart(x) == IF "v" \in DOMAIN x THEN <<"v", x.v>> ELSE <<"dec", x.dec>>
FltSame(op, i, o) == IF "s" \in DOMAIN i
                     THEN i.s = o.s \/ (op \in Decomposing /\ i.g = "float32" /\ "s32" \in DOMAIN o /\ i.s32 = o.s32)   \* B1
                     ELSE i.q = o.q
TimePart(x) == IF "ns" \in DOMAIN x THEN x.ns ELSE x.sec
ZonePart(x) == IF "zo" \in DOMAIN x THEN <<x.zn, x.zo>> ELSE <<"UTC", 0>>      \* B7
ConvOpts == {"mongo", "rfc3339", "nano", "intf", "fltf", "strf", "mapf", "arrf", "mapf+arrf", "timef", "allf",
             "omitnil", "omitempty", "timefmt", "timemap", "timewrap"}            \* B6

LeafOK(op, i, o) ==
   IF i.t = "big" THEN (o.t = "big" /\ o.text = i.text) \/ (o.t = "str" /\ o.v = i.text)                           \* B2
   ELSE IF i.t # o.t THEN FALSE
   ELSE IF i.t = "int" THEN IntPart(i) = IntPart(o)
   ELSE IF i.t = "flt" THEN FltSame(op, i, o)
   ELSE IF i.t = "time" THEN TimePart(i) = TimePart(o) /\ ZonePart(i) = ZonePart(o)
   ELSE IF i.t = "null" THEN TRUE
   ELSE IF i.t \in {"bool", "str"} THEN i.v = o.v
   ELSE FALSE

(* first location (depth first) where `o` does not denote `i`: <<>> if none, else <<[gi, to]>> *)
RECURSIVE FirstBad(_, _, _)
FirstBad(op, i, o) ==
   IF IsCont(i) THEN
      IF o.t # i.t \/ Len(o.v) # Len(i.v) \/ (i.t = "obj" /\ o.k # i.k) THEN <<[gi |-> i.g, to |-> o.t]>>
      \* lossless: a non-nil (empty) container must not come back as a nil one; what a nil container maps to is open (B5)
      ELSE IF "nil" \in DOMAIN i /\ "nil" \in DOMAIN o /\ ~i.nil /\ o.nil THEN <<[gi |-> i.g, to |-> "nil-container"]>>
      ELSE LET RECURSIVE Scan(_)
               Scan(j) == IF j > Len(i.v) THEN <<>>
                          ELSE LET r == FirstBad(op, i.v[j], o.v[j]) IN IF r # <<>> THEN r ELSE Scan(j + 1)
           IN Scan(1)
   ELSE IF IsCont(o) \/ ~LeafOK(op, i, o) THEN <<[gi |-> i.g, to |-> o.t]>> ELSE <<>>

\* exact equality of typed trees (kinds, values and Go types): "unchanged"
RECURSIVE FirstDiff(_, _)
FirstDiff(x, y) ==
   IF IsCont(x) THEN
      IF y.t # x.t \/ y.g # x.g \/ Len(y.v) # Len(x.v) \/ (x.t = "obj" /\ y.k # x.k)
         \/ ("nil" \in DOMAIN x /\ "nil" \in DOMAIN y /\ x.nil # y.nil) THEN <<[gi |-> x.g, to |-> y.t, go |-> y.g]>>
      ELSE LET RECURSIVE Scan(_)
               Scan(j) == IF j > Len(x.v) THEN <<>>
                          ELSE LET r == FirstDiff(x.v[j], y.v[j]) IN IF r # <<>> THEN r ELSE Scan(j + 1)
           IN Scan(1)
   ELSE IF x.t = y.t /\ x.g = y.g /\ x = y THEN <<>> ELSE <<[gi |-> x.g, to |-> y.t, go |-> y.g]>>

-----------------------------------------------------------------------------
(* leaf and cell typing of each operation *)
GenType(t)    == CASE t = "int" -> "gen.Int" [] t = "flt" -> "gen.Float" [] t = "str" -> "gen.String" [] t = "bool" -> "gen.Bool"
                   [] t = "time" -> "gen.Time" [] t = "big" -> "gen.Big" [] t = "arr" -> "gen.Array" [] t = "obj" -> "gen.Object"
                   [] OTHER -> "nil"
SimpleType(t) == CASE t = "int" -> "int64" [] t = "flt" -> "float64" [] t = "str" -> "string" [] t = "bool" -> "bool"
                   [] t = "time" -> "time.Time" [] t = "big" -> "json.Number" [] t = "arr" -> "[]any" [] t = "obj" -> "map[string]any"
                   [] OTHER -> "nil"
ResultType(op, t) == IF op \in ToGen \/ op = "gen.Dup" THEN GenType(t) ELSE SimpleType(t)
\* the model's own leaf conversion (the deterministic reading inside the allowances)
ConvLeaf(op, x) == IF x.t = "big" /\ ~(op \in ToGen \/ op = "gen.Dup") /\ x.g = "gen.Big"
                   THEN [t |-> "str", v |-> x.text, g |-> "string"]
                   ELSE [x EXCEPT !.g = ResultType(op, x.t)]

RECURSIVE ConvTree(_, _)
ConvTree(op, x) == IF IsCont(x) THEN [x EXCEPT !.g = ResultType(op, x.t), !.v = [j \in 1..Len(x.v) |-> ConvTree(op, x.v[j])]]
                   ELSE ConvLeaf(op, x)

-----------------------------------------------------------------------------
(* the heap *)
Ref(n) == [t |-> "ref", a |-> n]

RECURSIVE Alloc(_, _), AllocSeq(_, _, _)
\* allocate tree tr in heap h: [s |-> slot, h |-> heap]
Alloc(tr, h) == IF ~IsCont(tr) THEN [s |-> tr, h |-> h]
                ELSE LET r == AllocSeq(tr.v, 1, [ss |-> <<>>, h |-> h]) IN
                     [s |-> Ref(Len(r.h) + 1), h |-> Append(r.h, [tr EXCEPT !.v = r.ss])]
AllocSeq(vs, j, acc) == IF j > Len(vs) THEN acc
                        ELSE LET r == Alloc(vs[j], acc.h) IN AllocSeq(vs, j + 1, [ss |-> Append(acc.ss, r.s), h |-> r.h])

RECURSIVE TreeOf(_, _)
TreeOf(s, h) == IF s.t # "ref" THEN s
                ELSE LET cl == h[s.a] IN [cl EXCEPT !.v = [j \in 1..Len(cl.v) |-> TreeOf(cl.v[j], h)]]

RECURSIVE Reach(_, _)
Reach(s, h) == IF s.t # "ref" THEN {} ELSE {s.a} \cup UNION {Reach(h[s.a].v[j], h) : j \in 1..Len(h[s.a].v)}

\* in-place conversion of the cells reachable from s
Retyped(op, s, h) == LET R == Reach(s, h) IN
   [n \in 1..Len(h) |-> IF n \notin R THEN h[n]
                        ELSE [h[n] EXCEPT !.g = ResultType(op, h[n].t),
                                          !.v = [j \in 1..Len(h[n].v) |-> IF h[n].v[j].t = "ref" THEN h[n].v[j] ELSE ConvLeaf(op, h[n].v[j])]]]

Marker(gen) == [t |-> "str", v |-> "MUT!", g |-> IF gen THEN "gen.String" ELSE "string"]
MutKinds(cl) == IF cl.t = "arr" THEN {"append"} \cup (IF Len(cl.v) > 0 THEN {"set0"} ELSE {})
                ELSE {"setkey"} \cup (IF Len(cl.v) > 0 THEN {"delkey"} ELSE {})
IsGenCell(cl) == cl.g \in {"gen.Array", "gen.Object"}
\* keys are kept sorted; "~" sorts after the keys the generator uses, so the new member goes last
NonNil(cl) == IF "nil" \in DOMAIN cl THEN [cl EXCEPT !.nil = FALSE] ELSE cl      \* a container that received a member is not nil
MutCell(cl, kind) ==
   CASE kind = "set0"   -> [cl EXCEPT !.v[1] = Marker(IsGenCell(cl))]
     [] kind = "append" -> NonNil([cl EXCEPT !.v = Append(@, Marker(IsGenCell(cl)))])
     [] kind = "setkey" -> NonNil([cl EXCEPT !.k = Append(@, "~"), !.v = Append(@, Marker(IsGenCell(cl)))])
     [] kind = "delkey" -> [cl EXCEPT !.k = Tail(@), !.v = Tail(@)]

\* the same mutation on a tree, at the container found under `path` (sequence of 1-based child positions)
RECURSIVE MutTree(_, _, _)
MutTree(x, path, kind) == IF path = <<>> THEN MutCell(x, kind)
                          ELSE [x EXCEPT !.v[Head(path)] = MutTree(@, Tail(path), kind)]

\* paths (1-based child positions) of all container nodes of a tree
RECURSIVE ContPaths(_, _)
ContPaths(x, p) == IF ~IsCont(x) THEN {} ELSE {p} \cup UNION {ContPaths(x.v[j], Append(p, j)) : j \in 1..Len(x.v)}
RECURSIVE NodeAt(_, _)
NodeAt(x, p) == IF p = <<>> THEN x ELSE NodeAt(x.v[Head(p)], Tail(p))

-----------------------------------------------------------------------------
(* the machine *)
VARIABLES heap, inp, res, op, pc, tree0, snapIn, snapRes, mside
vars == <<heap, inp, res, op, pc, tree0, snapIn, snapRes, mside>>

None == [t |-> "none"]
Nil  == [t |-> "null", g |-> "nil"]
I64(n) == [t |-> "int", v |-> n, g |-> "int64"]
EArr == [t |-> "arr", g |-> "[]any", v |-> <<>>]
EObj == [t |-> "obj", g |-> "map[string]any", k |-> <<>>, v |-> <<>>]
\* every leaf kind and width of simple data
AllLeaves == {Nil, [t |-> "bool", v |-> TRUE, g |-> "bool"], [t |-> "str", v |-> "x", g |-> "string"],
              [t |-> "flt", q |-> <<3, 1>>, g |-> "float64"], [t |-> "flt", q |-> <<1, 1>>, g |-> "float32"],
              [t |-> "time", sec |-> 1, g |-> "time.Time"], [t |-> "time", sec |-> 2, g |-> "time.Time", zn |-> "JST", zo |-> 32400],
              [t |-> "big", text |-> "123456789012345678901234567890", g |-> "json.Number"]}
             \cup {[t |-> "int", v |-> 7, g |-> w] : w \in SimpleInts}
SmallVals == {Nil, I64(1), EArr, EObj}
KeySeq == <<"a", "b">>

RECURSIVE Size(_)
Size(x) == IF IsCont(x) THEN 1 + (LET RECURSIVE Sum(_)
                                      Sum(j) == IF j = 0 THEN 0 ELSE Size(x.v[j]) + Sum(j - 1)
                                  IN Sum(Len(x.v)))
           ELSE 1
RECURSIVE Depth(_)
Depth(x) == IF IsCont(x) /\ Len(x.v) > 0
            THEN 1 + (CHOOSE d \in {Depth(x.v[j]) : j \in 1..Len(x.v)} : \A e \in {Depth(x.v[j]) : j \in 1..Len(x.v)} : e <= d)
            ELSE 1

\* growth of the input tree: the first child of the root may be any leaf kind, later nodes come from SmallVals
GrowAt(x, p, n) == LET cl == NodeAt(x, p) IN
   IF cl.t = "arr" THEN (IF Len(cl.v) < 2 THEN {[cl EXCEPT !.v = Append(@, n)]} ELSE {})
   ELSE (IF Len(cl.v) < Len(KeySeq) THEN {[cl EXCEPT !.k = Append(@, KeySeq[Len(cl.v) + 1]), !.v = Append(@, n)]} ELSE {})
RECURSIVE PutAt(_, _, _)
PutAt(x, p, n) == IF p = <<>> THEN n ELSE [x EXCEPT !.v[Head(p)] = PutAt(@, Tail(p), n)]

\* the gen equivalent of a simple tree (input of the gen operations)
RECURSIVE AsGen(_)
AsGen(x) == IF IsCont(x) THEN [x EXCEPT !.g = GenType(x.t), !.v = [j \in 1..Len(x.v) |-> AsGen(x.v[j])]]
            ELSE [x EXCEPT !.g = GenType(x.t)]

Init == /\ heap = <<>> /\ inp = None /\ res = None /\ op = "none" /\ pc = "grow"
        /\ tree0 \in {EArr, EObj} \cup AllLeaves /\ snapIn = None /\ snapRes = None /\ mside = "none"

Grow == /\ pc = "grow" /\ Size(tree0) < MaxNodes
        /\ \E p \in ContPaths(tree0, <<>>) : Len(p) < 2 /\
              \E n \in (IF Size(tree0) = 1 THEN AllLeaves \cup SmallVals ELSE SmallVals) :
                 \E cl \in GrowAt(tree0, p, n) : tree0' = PutAt(tree0, p, cl)
        /\ UNCHANGED <<heap, inp, res, op, pc, snapIn, snapRes, mside>>

\* Build: choose the operation and allocate its input (the gen form of the tree for the gen operations)
Build == /\ pc = "grow"
         /\ \E o \in CopyOps \cup InPlaceOps :
               LET tr == IF o \in GenInput THEN AsGen(tree0) ELSE tree0
                   r  == Alloc(tr, <<>>) IN
               /\ op' = o /\ heap' = r.h /\ inp' = r.s /\ tree0' = tr
         /\ pc' = "built" /\ UNCHANGED <<res, snapIn, snapRes, mside>>

Copy == /\ pc = "built" /\ op \in CopyOps
        /\ LET r == Alloc(ConvTree(op, TreeOf(inp, heap)), heap) IN heap' = r.h /\ res' = r.s
        /\ pc' = "done" /\ snapIn' = TreeOf(inp, heap) /\ snapRes' = ConvTree(op, TreeOf(inp, heap))
        /\ UNCHANGED <<inp, op, tree0, mside>>

\* the wrong copy: a fresh root cell whose slots still refer to the input's children
ShallowCopy == /\ Aliasing /\ pc = "built" /\ op \in CopyOps /\ inp.t = "ref"
               /\ heap' = Append(heap, [heap[inp.a] EXCEPT !.g = ResultType(op, heap[inp.a].t)])
               /\ res' = Ref(Len(heap) + 1)
               /\ pc' = "done" /\ snapIn' = TreeOf(inp, heap) /\ snapRes' = TreeOf(Ref(Len(heap) + 1), heap')
               /\ UNCHANGED <<inp, op, tree0, mside>>

InPlace == /\ pc = "built" /\ op \in InPlaceOps
           /\ heap' = Retyped(op, inp, heap) /\ res' = inp
           /\ pc' = "done" /\ snapIn' = None /\ snapRes' = None
           /\ UNCHANGED <<inp, op, tree0, mside>>

Mutate == /\ pc = "done" /\ op \in CopyOps
          /\ \E side \in {"in", "res"} : \E n \in Reach(IF side = "in" THEN inp ELSE res, heap) : \E kind \in MutKinds(heap[n]) :
                /\ heap' = [heap EXCEPT ![n] = MutCell(@, kind)]
                /\ mside' = side
          /\ pc' = "mutated" /\ UNCHANGED <<inp, res, op, tree0, snapIn, snapRes>>

Next == Grow \/ Build \/ Copy \/ ShallowCopy \/ InPlace \/ Mutate
Spec == Init /\ [][Next]_vars

-----------------------------------------------------------------------------
(* design check *)
TypeOK == pc \in {"grow", "built", "done", "mutated"} /\ Depth(tree0) <= 3
Preserve == pc = "done" => FirstBad(op, tree0, TreeOf(res, heap)) = <<>>
InputKept == (pc = "done" /\ op \in CopyOps) => TreeOf(inp, heap) = tree0
Disjoint == (pc = "done" /\ op \in CopyOps) => Reach(inp, heap) \cap Reach(res, heap) = {}
NoInterference == pc = "mutated" => /\ mside = "res" => TreeOf(inp, heap) = snapIn
                                    /\ mside = "in"  => TreeOf(res, heap) = snapRes
\* the mutation is visible on the side it was applied to (the experiment is not vacuous)
MutationVisible == pc = "mutated" => /\ mside = "res" => TreeOf(res, heap) # snapRes
                                     /\ mside = "in"  => TreeOf(inp, heap) # snapIn
=============================================================================
