--------------------------- MODULE JsonText ---------------------------
(* RFC 8259 as a deterministic push-down automaton over bytes, plus a second,     *)
(* declarative formulation of the same language (the ABNF, production by          *)
(* production) against which TLC checks the automaton.  The automaton is the      *)
(* oracle of C01 (accept/reject), C09 (position of the first offending byte),     *)
(* C03 (chunking is a stuttering step) and supplies the machine states whose      *)
(* transition cover drives the real parsers (C01, C06).                           *)
(* API-level only: no variable mirrors a private field of ojg.                    *)
EXTENDS Integers, Sequences, TLC, FiniteSets

CONSTANTS MaxLen,      \* bound on the input length explored by the design check
          MaxDepth,    \* bound on container nesting explored by the design check
          Alpha        \* bytes offered by the design check

\* ---------------------------------------------------------------- byte classes
WS       == {32, 10, 9, 13}
Digit19  == 49..57
Digit    == 48..57
Hex      == (48..57) \cup (65..70) \cup (97..102)
EscLetters == {34, 92, 47, 98, 102, 110, 114, 116}      \* " \ / b f n r t
Lits == [n |-> <<110,117,108,108>>, t |-> <<116,114,117,101>>, f |-> <<102,97,108,115,101>>]

\* one representative per class, used only to name the locus of a deviation
Rep(b) == CASE b \in Digit19 -> 49
            [] b >= 128 -> 128
            [] b \in {9, 13, 32} -> 32
            [] b < 32 /\ b # 10 -> 1
            [] b \in {99, 100, 65, 66, 67, 68, 70} -> 99          \* hex digit with no other role
            [] b \in {10, 34, 92, 47, 98, 102, 110, 114, 116, 117, 97, 108, 115, 101, 69,
                      123, 125, 91, 93, 44, 58, 48, 45, 43, 46, 127} -> b
            [] OTHER -> 120                                        \* any other byte ("x")

\* ---------------------------------------------------------------- the automaton
\* state: pc     grammar position
\*        stack  open containers, "A" or "O"
\*        sk     "k" while a string is an object key, else "v"
\*        w, i   literal word being read and characters of it already seen; i also counts \u hex digits
S0 == [pc |-> "Start", stack |-> <<>>, sk |-> "v", w |-> "n", i |-> 0]
TopOf(s) == IF s.stack = <<>> THEN "-" ELSE s.stack[Len(s.stack)]
Pop(s) == [s EXCEPT !.stack = SubSeq(@, 1, Len(@) - 1)]
\* leaving a token also forgets the token-local registers, so that machine states are canonical
AfterValue(s) == [s EXCEPT !.pc = IF s.stack = <<>> THEN "Done" ELSE "After", !.sk = "v", !.w = "n", !.i = 0]
Err(s) == [s EXCEPT !.pc = "Err"]
Dead(s) == s.pc \in {"Err", "Cut"}

StartValue(s, b) ==
  CASE b = 123 -> IF Len(s.stack) < MaxDepth THEN [s EXCEPT !.pc = "ObjFirst", !.stack = Append(@, "O")] ELSE [s EXCEPT !.pc = "Cut"]
    [] b = 91  -> IF Len(s.stack) < MaxDepth THEN [s EXCEPT !.pc = "ArrFirst", !.stack = Append(@, "A")] ELSE [s EXCEPT !.pc = "Cut"]
    [] b = 34  -> [s EXCEPT !.pc = "Str", !.sk = "v"]
    [] b = 45  -> [s EXCEPT !.pc = "Minus"]
    [] b = 48  -> [s EXCEPT !.pc = "Zero"]
    [] b \in Digit19 -> [s EXCEPT !.pc = "Int"]
    [] b = 110 -> [s EXCEPT !.pc = "Lit", !.w = "n", !.i = 1]
    [] b = 116 -> [s EXCEPT !.pc = "Lit", !.w = "t", !.i = 1]
    [] b = 102 -> [s EXCEPT !.pc = "Lit", !.w = "f", !.i = 1]
    [] OTHER -> Err(s)

\* a complete value has been read inside a container (also: a number terminated by b)
AfterStep(s, b) ==
  CASE b \in WS -> s
    [] b = 44 /\ TopOf(s) = "A" -> [s EXCEPT !.pc = "Val"]
    [] b = 44 /\ TopOf(s) = "O" -> [s EXCEPT !.pc = "Key"]
    [] b = 93 /\ TopOf(s) = "A" -> AfterValue(Pop(s))
    [] b = 125 /\ TopOf(s) = "O" -> AfterValue(Pop(s))
    [] OTHER -> Err(s)

\* a number is terminated by the first byte that cannot continue it
NumEnd(s, b) == IF s.stack = <<>> THEN (IF b \in WS THEN [s EXCEPT !.pc = "Done"] ELSE Err(s))
                ELSE AfterStep([s EXCEPT !.pc = "After"], b)

Step(s, b) ==
  CASE Dead(s) -> s
    [] s.pc = "Start" -> IF b = 239 THEN [s EXCEPT !.pc = "Bom1"] ELSE IF b \in WS THEN [s EXCEPT !.pc = "Top"] ELSE StartValue(s, b)
    [] s.pc = "Bom1" -> IF b = 187 THEN [s EXCEPT !.pc = "Bom2"] ELSE Err(s)
    [] s.pc = "Bom2" -> IF b = 191 THEN [s EXCEPT !.pc = "Top"] ELSE Err(s)
    [] s.pc \in {"Top", "Val"} -> IF b \in WS THEN s ELSE StartValue(s, b)
    [] s.pc = "ArrFirst" -> IF b \in WS THEN s ELSE IF b = 93 THEN AfterValue(Pop(s)) ELSE StartValue(s, b)
    [] s.pc = "ObjFirst" -> IF b \in WS THEN s ELSE IF b = 125 THEN AfterValue(Pop(s))
                            ELSE IF b = 34 THEN [s EXCEPT !.pc = "Str", !.sk = "k"] ELSE Err(s)
    [] s.pc = "Key" -> IF b \in WS THEN s ELSE IF b = 34 THEN [s EXCEPT !.pc = "Str", !.sk = "k"] ELSE Err(s)
    [] s.pc = "Colon" -> IF b \in WS THEN s ELSE IF b = 58 THEN [s EXCEPT !.pc = "Val"] ELSE Err(s)
    [] s.pc = "Done" -> IF b \in WS THEN s ELSE Err(s)
    [] s.pc = "After" -> AfterStep(s, b)
    [] s.pc = "Str" -> IF b = 34 THEN (IF s.sk = "k" THEN [s EXCEPT !.pc = "Colon", !.sk = "v"] ELSE AfterValue(s))
                       ELSE IF b = 92 THEN [s EXCEPT !.pc = "Esc"] ELSE IF b < 32 THEN Err(s) ELSE s
    [] s.pc = "Esc" -> IF b \in EscLetters THEN [s EXCEPT !.pc = "Str"]
                       ELSE IF b = 117 THEN [s EXCEPT !.pc = "U", !.i = 0] ELSE Err(s)
    [] s.pc = "U" -> IF b \in Hex THEN (IF s.i = 3 THEN [s EXCEPT !.pc = "Str", !.i = 0] ELSE [s EXCEPT !.i = @ + 1]) ELSE Err(s)
    [] s.pc = "Lit" -> IF b = Lits[s.w][s.i + 1]
                       THEN (IF s.i + 1 = Len(Lits[s.w]) THEN AfterValue(s) ELSE [s EXCEPT !.i = @ + 1]) ELSE Err(s)
    [] s.pc = "Minus" -> IF b = 48 THEN [s EXCEPT !.pc = "Zero"] ELSE IF b \in Digit19 THEN [s EXCEPT !.pc = "Int"] ELSE Err(s)
    [] s.pc = "Zero" -> IF b = 46 THEN [s EXCEPT !.pc = "Dot"] ELSE IF b \in {69, 101} THEN [s EXCEPT !.pc = "E"] ELSE NumEnd(s, b)
    [] s.pc = "Int" -> IF b \in Digit THEN s ELSE IF b = 46 THEN [s EXCEPT !.pc = "Dot"]
                       ELSE IF b \in {69, 101} THEN [s EXCEPT !.pc = "E"] ELSE NumEnd(s, b)
    [] s.pc = "Dot" -> IF b \in Digit THEN [s EXCEPT !.pc = "Frac"] ELSE Err(s)
    [] s.pc = "Frac" -> IF b \in Digit THEN s ELSE IF b \in {69, 101} THEN [s EXCEPT !.pc = "E"] ELSE NumEnd(s, b)
    [] s.pc = "E" -> IF b \in {43, 45} THEN [s EXCEPT !.pc = "ESign"] ELSE IF b \in Digit THEN [s EXCEPT !.pc = "Exp"] ELSE Err(s)
    [] s.pc = "ESign" -> IF b \in Digit THEN [s EXCEPT !.pc = "Exp"] ELSE Err(s)
    [] s.pc = "Exp" -> IF b \in Digit THEN s ELSE NumEnd(s, b)

NumEndOK(pc) == pc \in {"Zero", "Int", "Frac", "Exp"}
\* end of input: accepted iff no container is open and a whole value (or nothing at all) was read
Final(s)   == s.stack = <<>> /\ (s.pc \in {"Done", "Top", "Start"} \/ NumEndOK(s.pc))
HasDoc(s)  == s.stack = <<>> /\ (s.pc = "Done" \/ NumEndOK(s.pc))
Accepts(s) == ~Dead(s) /\ Final(s)
\* the statement leaves "BOM followed by no document" open
Unsettled(s) == FALSE

RECURSIVE RunSeq(_, _)
RunSeq(s, bs) == IF bs = <<>> THEN s ELSE RunSeq(Step(s, Head(bs)), Tail(bs))

\* ---------------------------------------------------------------- completion
\* an explicit witness that every non-dead state is a viable prefix
TokenDone(s) ==
  CASE s.pc = "Str" -> <<34>>
    [] s.pc = "Esc" -> <<110, 34>>
    [] s.pc = "U" -> [k \in 1..(4 - s.i) |-> 48] \o <<34>>
    [] s.pc = "Lit" -> SubSeq(Lits[s.w], s.i + 1, Len(Lits[s.w]))
    [] s.pc \in {"Minus", "Dot", "E", "ESign"} -> <<48>>
    [] s.pc \in {"Val", "Top", "Start"} -> <<48>>
    [] s.pc = "Bom1" -> <<187, 191, 48>>
    [] s.pc = "Bom2" -> <<191, 48>>
    [] s.pc = "Key" -> <<34, 34, 58, 48>>
    [] s.pc = "Colon" -> <<58, 48>>
    [] OTHER -> <<>>
Closers(s) == [k \in 1..Len(s.stack) |-> IF s.stack[Len(s.stack) + 1 - k] = "A" THEN 93 ELSE 125]
Completion(s) == LET t  == TokenDone(s)
                     s2 == RunSeq(s, t)
                     t2 == IF s2.pc = "Colon" THEN <<58, 48>> ELSE <<>>
                 IN t \o t2 \o Closers(s2)

\* ---------------------------------------------------------------- positions (C09)
\* line/column (1-based, lines end at \n, columns count bytes) of byte k of x; k = Len(x)+1 is "just past the end"
RECURSIVE LastNl(_, _)
LastNl(x, k) == IF k = 0 THEN 0 ELSE IF x[k] = 10 THEN k ELSE LastNl(x, k - 1)
RECURSIVE CountNl(_, _)
CountNl(x, k) == IF k = 0 THEN 0 ELSE (IF x[k] = 10 THEN 1 ELSE 0) + CountNl(x, k - 1)
LineOf(x, k) == 1 + CountNl(x, k - 1)
ColOf(x, k)  == k - LastNl(x, k - 1)

\* ---------------------------------------------------------------- the declarative grammar (RFC 8259 ABNF)
\* every operator returns the set of positions at which the production can end when started at p
At(x, p) == IF p >= 1 /\ p <= Len(x) THEN x[p] ELSE -1
RECURSIVE GWs(_, _), GValue(_, _), GElems(_, _), GMembers(_, _), GStrBody(_, _), GDigits(_, _)
GWs(x, p) == IF At(x, p) \in WS THEN GWs(x, p + 1) ELSE p
GDigits(x, p) == IF At(x, p) \in Digit THEN {p + 1} \cup GDigits(x, p + 1) ELSE {}
GStrBody(x, p) ==
  LET c == At(x, p) IN
  IF c = 34 THEN {p + 1}
  ELSE IF c = 92 THEN (IF At(x, p + 1) \in EscLetters THEN GStrBody(x, p + 2)
                       ELSE IF At(x, p + 1) = 117 /\ At(x, p + 2) \in Hex /\ At(x, p + 3) \in Hex
                               /\ At(x, p + 4) \in Hex /\ At(x, p + 5) \in Hex THEN GStrBody(x, p + 6) ELSE {})
  ELSE IF c >= 32 THEN GStrBody(x, p + 1) ELSE {}
GString(x, p) == IF At(x, p) = 34 THEN GStrBody(x, p + 1) ELSE {}
GInt(x, p) == LET q == IF At(x, p) = 45 THEN p + 1 ELSE p IN
              IF At(x, q) = 48 THEN {q + 1} ELSE IF At(x, q) \in Digit19 THEN {q + 1} \cup GDigits(x, q + 1) ELSE {}
GFrac(x, p) == {p} \cup (IF At(x, p) = 46 THEN GDigits(x, p + 1) ELSE {})
GExp(x, p) == {p} \cup (IF At(x, p) \in {69, 101}
                        THEN (LET q == IF At(x, p + 1) \in {43, 45} THEN p + 2 ELSE p + 1 IN GDigits(x, q)) ELSE {})
GNumber(x, p) == UNION {UNION {GExp(x, r) : r \in GFrac(x, q)} : q \in GInt(x, p)}
GLit(x, p, w) == IF p + Len(w) - 1 <= Len(x) /\ SubSeq(x, p, p + Len(w) - 1) = w THEN {p + Len(w)} ELSE {}
GValue(x, p) ==
  GLit(x, p, Lits.n) \cup GLit(x, p, Lits.t) \cup GLit(x, p, Lits.f) \cup GNumber(x, p) \cup GString(x, p)
  \cup (IF At(x, p) = 91 THEN (LET q == GWs(x, p + 1) IN IF At(x, q) = 93 THEN {q + 1} ELSE GElems(x, q)) ELSE {})
  \cup (IF At(x, p) = 123 THEN (LET q == GWs(x, p + 1) IN IF At(x, q) = 125 THEN {q + 1} ELSE GMembers(x, q)) ELSE {})
GElems(x, p) == UNION { LET r == GWs(x, q) IN
                        IF At(x, r) = 93 THEN {r + 1} ELSE IF At(x, r) = 44 THEN GElems(x, GWs(x, r + 1)) ELSE {}
                      : q \in GValue(x, p) }
GMembers(x, p) == UNION { LET c == GWs(x, k) IN IF At(x, c) # 58 THEN {} ELSE
                          UNION { LET r == GWs(x, q) IN
                                  IF At(x, r) = 125 THEN {r + 1} ELSE IF At(x, r) = 44 THEN GMembers(x, GWs(x, r + 1)) ELSE {}
                                : q \in GValue(x, GWs(x, c + 1)) }
                        : k \in GString(x, p) }
GBom(x) == IF Len(x) >= 3 /\ SubSeq(x, 1, 3) = <<239, 187, 191>> THEN 4 ELSE 1
IsJsonText(x) == \E q \in GValue(x, GWs(x, GBom(x))) : GWs(x, q) = Len(x) + 1
IsBlank(x) == GWs(x, GBom(x)) = Len(x) + 1

\* ---------------------------------------------------------------- design check
VARIABLES st, hist
vars == <<st, hist>>
Init == st = S0 /\ hist = <<>>
Feed(b) == /\ ~Dead(st) /\ Len(hist) < MaxLen
           /\ st' = Step(st, b) /\ hist' = Append(hist, b)
Next == \E b \in Alpha : Feed(b)
Spec == Init /\ [][Next]_vars

TypeOK == st.pc \in {"Start", "Bom1", "Bom2", "Top", "Val", "ArrFirst", "ObjFirst", "Key", "Colon", "After", "Done",
                     "Str", "Esc", "U", "Lit", "Minus", "Zero", "Int", "Dot", "Frac", "E", "ESign", "Exp", "Err", "Cut"}
          /\ st.stack \in Seq({"A", "O"})
\* the automaton accepts exactly the texts the grammar derives (plus blank input = no document)
GrammarEquiv == st.pc # "Cut" => (Accepts(st) <=> (IsJsonText(hist) \/ IsBlank(hist)))
\* every live state can be completed to an accepted text that contains a document
ViablePrefix == ~Dead(st) => (LET e == RunSeq(st, Completion(st)) IN Accepts(e) /\ HasDoc(e))
\* Err is entered only when the grammar offers no continuation (checked by GrammarEquiv on all extensions) and is a sink
ErrIsSink == [][st.pc = "Err" => st'.pc = "Err"]_vars
\* container depth equals the number of unmatched openers: a structural sanity law
DepthLaw == st.pc \in {"ArrFirst", "ObjFirst", "Key", "Colon", "After"} => st.stack # <<>>
View == st
=============================================================================
