---------------------------- MODULE TraceCoerce ----------------------------
(* Trace validation for XCONV part 2 (c): every recorded call of alt.Bool / Int / Float / String / Time is judged    *)
(* against the case table of Coerce.tla.  trace.ndjson: one call per line                                             *)
(*    {id, part:"coerce", fn, in, nd, d:[defaults], out, panic, F: facts about in, OF: facts about a string result}   *)
(* One action per call.  A call deviates when                                                                         *)
(*    panic         the function panicked;                                                                            *)
(*    wrong-value   the result is admissible under NO reading of its cell;                                            *)
(*    inconsistent  the result is admissible only under a reading of the cell's parameter that an earlier call of     *)
(*                  the same function has already excluded (allowance A2: either reading, but one reading): the       *)
(*                  record names the earlier call (`with`), the pair is the witness.                                  *)
(* `alive` = for every (function, parameter) the readings consistent with everything seen so far; deviating calls do  *)
(* not narrow it.  Deviations are collected in TLC register 1 (capped, all counted).  Needs -workers 1.               *)
EXTENDS Coerce, Json
CONSTANT MaxBad

Trace == ndJsonDeserialize("trace.ndjson")
N == Len(Trace)
Pars == {"nil", "strcase", "strpb", "num", "fracF", "fracS", "strloose", "strfltint", "timenum", "boolnum", "strrange", "smallint"}

VARIABLES c, alive, pin, hits
tvars == <<c, alive, pin, hits, mfn, mv, mf, mnd>>

TraceInit == /\ c = 1 /\ alive = [k \in Fns \X Pars |-> {"conv", "unconv"}] /\ pin = [k \in Fns \X Pars |-> 0] /\ hits = <<>>
             /\ mfn = "" /\ mv = 0 /\ mf = 0 /\ mnd = 0
             /\ TLCSet(1, <<>>) /\ TLCSet(2, 0) /\ TLCSet(3, 0) /\ TLCSet(4, <<>>)

Bump(h, name) == IF name \in DOMAIN h THEN [h EXCEPT ![name] = @ + 1] ELSE h @@ (name :> 1)
Record(b) == /\ (IF Len(TLCGet(1)) >= MaxBad THEN TRUE ELSE TLCSet(1, Append(TLCGet(1), b)))
             /\ TLCSet(3, TLCGet(3) + 1)

TCall == /\ c <= N
         /\ LET r == Trace[c]
                cell == CellOf(r.fn, r.in, r.F, r.nd)
                ok == IF r.panic # "" THEN {} ELSE OkReadings(cell, r.fn, r.out, r.d, r.OF)
                key == <<r.fn, cell.par>>
                narrowed == IF cell.par = "" THEN {""} ELSE alive[key] \cap ok
            IN /\ hits' = Bump(hits, cell.cell)
               /\ IF r.panic # "" THEN
                    /\ Record([i |-> c, kind |-> "panic", cell |-> cell.cell, with |-> 0, nd |-> r.nd, par |-> ""]) /\ UNCHANGED <<alive, pin>>
                  ELSE IF ok = {} THEN
                    /\ Record([i |-> c, kind |-> "wrong-value", cell |-> cell.cell, with |-> 0, nd |-> r.nd, par |-> ""]) /\ UNCHANGED <<alive, pin>>
                  ELSE IF narrowed = {} THEN
                    /\ Record([i |-> c, kind |-> "inconsistent", cell |-> cell.cell, with |-> pin[key], nd |-> r.nd, par |-> cell.par])
                    /\ UNCHANGED <<alive, pin>>
                  ELSE IF cell.par # "" /\ narrowed # alive[key] THEN
                    /\ alive' = [alive EXCEPT ![key] = narrowed] /\ pin' = [pin EXCEPT ![key] = c]
                  ELSE UNCHANGED <<alive, pin>>
         /\ c' = c + 1 /\ TLCSet(2, c) /\ TLCSet(4, hits')
         /\ UNCHANGED <<mfn, mv, mf, mnd>>

TraceNext == TCall
TraceSpec == TraceInit /\ [][TraceNext]_tvars
Post == JsonSerialize("out.json", [n |-> TLCGet(2), bad |-> TLCGet(1), nbad |-> TLCGet(3), hits |-> TLCGet(4)])
=============================================================================
