--------------------------- MODULE PrettyLayout ---------------------------
(* LAYOUT rules of ojg's pretty printer (pretty.JSON / SEN / WriteJSON / WriteSEN / Writer) and of the     *)
(* indenting writers (oj.JSON, sen.String with Indent / Tab).  Extension check XPRETTY: C04 / C10 decide   *)
(* that the output is valid and denotes the data; this module decides whether the layout is the            *)
(* DOCUMENTED one.  Sources of the rules (nothing else is demanded):                                       *)
(*   pretty/doc.go        "suggested maximum width to stay within and the maximum nested depth on a        *)
(*                         single line. An alignment option is also available."                            *)
(*   pretty/writer.go     Width: "the suggested maximum width. In some cases it may not be possible to     *)
(*                         stay within the specified width."  MaxDepth: "the maximum depth of an element   *)
(*                         on a single line."  Align: "attempts to align elements of children in list."    *)
(*   pretty/pretty.go     "An int sets the width while a float64 is separated into a width as the integer  *)
(*                         portion of the float and the 10ths sets the maximum depth per line. A bool sets *)
(*                         the align option"                                                               *)
(*   pretty/example_test.go, writer_test.go, align_test.go  (layouts documented by example: members one    *)
(*                         per line indented by 2, `[3, 2, 1]`, `{"a": 1}`, SEN `[3 2 1]` `{a: 1 b: 2}`,   *)
(*                         `[]` / `{}` never broken, depth counted with scalars and empty containers at    *)
(*                         level 1, aligned rows, CHANGELOG 1.12.0 "map members are now aligned")          *)
(*   options.go           "Indent for the output", "Tab if true will indent using tabs and ignore Indent"  *)
(*                                                                                                         *)
(* The module has (1) constant operators: one-line rendering, sizes, the three rules R-depth, R-flat,      *)
(* R-width, the aligned table; (2) the layout MACHINE (variables todo = tree cursor as a work list, col =  *)
(* column, out = text so far; depth and remaining width are carried by the head item: lvl, Width - col)    *)
(* whose terminal `out` values are the set Layout(tree, opts) of admissible renderings; (3) the ACCEPTOR   *)
(* step AccStep, the same machine driven by a given text (used by TracePrettyLayout on the bytes the real  *)
(* code emitted, and by PrettyLayoutMC to show machine and acceptor agree).                                *)
(*                                                                                                         *)
(* ALLOW = deliberately permissive because the documentation is silent; every ALLOW is commented.          *)
EXTENDS Integers, Sequences, FiniteSets, TLC, SequencesExt

\* ================================================================= bytes
NLc == 10
SPc == 32
Spaces(n) == [i \in 1..(IF n > 0 THEN n ELSE 0) |-> 32]
Tabs(n) == [i \in 1..(IF n > 0 THEN n ELSE 0) |-> 9]
Cat(ss) == FoldLeft(LAMBDA a, b : a \o b, <<>>, ss)
Join(ss, sep) == FoldLeft(LAMBDA a, i : IF i = 1 THEN ss[1] ELSE a \o sep \o ss[i], <<>>, [i \in 1..Len(ss) |-> i])
MaxOf(S) == IF S = {} THEN 0 ELSE CHOOSE x \in S : \A y \in S : y <= x
MinOf(S) == CHOOSE x \in S : \A y \in S : x <= y
Big == 1000000
\* x[p..] starts with b
Match(x, p, b) == p + Len(b) - 1 <= Len(x) /\ \A i \in 1..Len(b) : x[p + i - 1] = b[i]
\* column after appending e at column c
ColAfter(c, e) == LET nls == {i \in 1..Len(e) : e[i] = 10} IN IF nls = {} THEN c + Len(e) ELSE Len(e) - MaxOf(nls)

\* ================================================================= leaves (deliberately small universe: how a scalar is
\* spelled is C04's / C10's subject; the layout check only needs scalars whose spelling is beyond doubt)
\*   [t |-> "null"], [t |-> "bool", v |-> TRUE], [t |-> "int", v |-> n], [t |-> "str", v |-> <<bytes>>] with bytes in a-z and space
RECURSIVE Digits(_)
Digits(n) == IF n < 10 THEN <<48 + n>> ELSE Append(Digits(n \div 10), 48 + (n % 10))
IntBytes(n) == IF n < 0 THEN <<45>> \o Digits(0 - n) ELSE Digits(n)
Bare(s) == s # <<>> /\ \A i \in 1..Len(s) : s[i] >= 97 /\ s[i] <= 122     \* SEN writes such a string without quotes
StrBytes(s, sen) == IF sen /\ Bare(s) THEN s ELSE <<34>> \o s \o <<34>>
LeafBytes(n, sen) == CASE n.t = "null" -> <<110, 117, 108, 108>>
                       [] n.t = "bool" -> (IF n.v THEN <<116, 114, 117, 101>> ELSE <<102, 97, 108, 115, 101>>)
                       [] n.t = "int" -> IntBytes(n.v)
                       [] n.t = "str" -> StrBytes(n.v, sen)
IsLeaf(n) == n.t \notin {"arr", "obj"}
IsNum(n) == n.t = "int"
Sep(sen) == IF sen THEN <<32>> ELSE <<44, 32>>
OpenB(n) == IF n.t = "arr" THEN 91 ELSE 123
CloseB(n) == IF n.t = "arr" THEN 93 ELSE 125

\* ================================================================= annotated trees
\* Ann adds to every node fl = its ONE-LINE rendering (documented by the examples: `[3, 2, 1]`, `{"a": 1, "b": 2}`, SEN
\* `[3 2 1]`, `{a: 1 b: 2}`, `[]`, `{}`), h = its height (scalars and EMPTY containers 0 - TestJSONDepth / ExampleJSON show
\* `["x", "y", "z", []]` on one line under depth 2), and to objects kb = the encoded keys.
RECURSIVE Ann(_, _)
Ann(n, sen) ==
  CASE n.t = "arr" ->
         LET vs == [i \in 1..Len(n.v) |-> Ann(n.v[i], sen)] IN
         [t |-> "arr", v |-> vs, h |-> IF vs = <<>> THEN 0 ELSE 1 + MaxOf({vs[i].h : i \in 1..Len(vs)}),
          fl |-> <<91>> \o Join([i \in 1..Len(vs) |-> vs[i].fl], Sep(sen)) \o <<93>>]
    [] n.t = "obj" ->
         LET vs == [i \in 1..Len(n.v) |-> Ann(n.v[i], sen)]
             kb == [i \in 1..Len(n.k) |-> StrBytes(n.k[i], sen)] IN
         [t |-> "obj", k |-> n.k, kb |-> kb, v |-> vs, h |-> IF vs = <<>> THEN 0 ELSE 1 + MaxOf({vs[i].h : i \in 1..Len(vs)}),
          fl |-> <<123>> \o Join([i \in 1..Len(vs) |-> kb[i] \o <<58, 32>> \o vs[i].fl], Sep(sen)) \o <<125>>]
    [] OTHER -> [t |-> n.t, v |-> IF n.t \in {"bool", "int", "str"} THEN n.v ELSE 0, h |-> 0, fl |-> LeafBytes(n, sen)]
Size(a) == Len(a.fl)
Atomic(a) == IF IsLeaf(a) THEN TRUE ELSE a.v = <<>>              \* written as one token: a scalar, `[]`, `{}`
\* tight rendering of the non-indenting writers (oj.JSON / sen.String with Indent 0): `{"a":[1,2]}`, SEN `{a:[1 2]}`
RECURSIVE Tight(_, _)
Tight(a, sen) ==
  LET sp == IF sen THEN <<32>> ELSE <<44>> IN
  CASE a.t = "arr" -> <<91>> \o Join([i \in 1..Len(a.v) |-> Tight(a.v[i], sen)], sp) \o <<93>>
    [] a.t = "obj" -> <<123>> \o Join([i \in 1..Len(a.v) |-> a.kb[i] \o <<58>> \o Tight(a.v[i], sen)], sp) \o <<125>>
    [] OTHER -> a.fl

\* ================================================================= options / run
\* o = [mode |-> "pretty", w, d, al, sen]  or  [mode |-> "indent", ind, tab, sen]
\* R = [o |-> o, step |-> columns per nesting level, th |-> height of the whole tree]
\* Indentation step of the pretty printer: 2 (every example).  ALLOW: 1 when the tree is deep relative to the width
\* (TestDeep shows step 1 for an 11-deep tree at width 10; no text says when; the spec admits step 1 exactly when
\* indentation by 2 at the deepest level would take more than 3/4 of the width, and always admits 2).
Steps(o, th) == IF o.mode = "indent" THEN {o.ind} ELSE IF 8 * th > 3 * o.w THEN {1, 2} ELSE {2}
IndentBytes(R, lvl) == IF R.o.mode = "indent" /\ R.o.tab THEN Tabs(lvl) ELSE Spaces(lvl * R.step)
NLInd(R, lvl) == <<10>> \o IndentBytes(R, lvl)
IndCols(R, lvl) == Len(IndentBytes(R, lvl))

\* ================================================================= the rules (pretty mode)
\* it = work item of a node: [k |-> "node", n, lvl, t (1 if a comma follows the node on its line, else 0), ps (position tag)]
\* c = column at which the node starts (characters already on the line: indentation + key + colon + space + padding)
\* R-depth  (strict; TestJSONDepth, examples): a container is on one line only if its height < MaxDepth.
DepthOK(a, R) == a.h < R.o.d
\* R-flat   (strict): a container that satisfies R-depth and FITS is on one line.  ALLOW (tie-breaking is undocumented):
\*          "fits" is demanded only when it fits under every reading - line length counted with the trailing comma and
\*          compared strictly (col + size + comma < Width); the code's reading is indentation + size < Width.
MustFlat(it, c, R) == DepthOK(it.n, R) /\ c + Size(it.n) + it.t < R.o.w
\* R-width  (strict; "In some cases it may not be possible to stay within the specified width" - so where it IS possible it
\*          is stayed within): a one-line rendering of length L that overflows under every reading (col + L > Width, trailing
\*          comma not counted) is inadmissible when a broken rendering of the same node exists all of whose lines are <= Width.
\* BestBroken = the longest line of the best rendering that breaks this node (children one-line where R-depth allows and
\*          that is shorter, else broken in turn); under Align the keys of a broken object are padded (KeyPad).
KeyW(a, R) == IF a.t = "obj" THEN (IF R.o.al THEN MaxOf({Len(a.kb[i]) : i \in 1..Len(a.kb)}) ELSE 0) ELSE 0
KeyCols(a, i, R) == IF a.t = "obj" THEN (IF R.o.al THEN KeyW(a, R) ELSE Len(a.kb[i])) + 2 ELSE 0
Trail(a, i, R) == IF ~R.o.sen /\ i < Len(a.v) THEN 1 ELSE 0
RECURSIVE BestBroken(_, _, _, _, _)
BestBroken(a, c, lvl, t, R) ==
  LET ind == (lvl + 1) * R.step
      M(i) == LET m == a.v[i]
                  ci == ind + KeyCols(a, i, R)
                  ti == Trail(a, i, R)
                  one == ci + Size(m) + ti
              IN IF Atomic(m) THEN one
                 ELSE IF one <= R.o.w /\ DepthOK(m, R) THEN one
                 ELSE LET b == BestBroken(m, ci, lvl + 1, ti, R) IN IF DepthOK(m, R) /\ one < b THEN one ELSE b
  IN MaxOf({c + 1, lvl * R.step + 1 + t} \cup {M(i) : i \in 1..Len(a.v)})
BrokenFits(it, c, R) == BestBroken(it.n, c, it.lvl, it.t, R) <= R.o.w
Overflows(c, len, R) == c + len > R.o.w
\* class of the width relative to what the node needs at this column (the locus component asked for)
BClass(c, len, R) == LET dl == R.o.w - (c + len) IN
                     IF dl = 0 THEN "width-exact" ELSE IF dl = 0 - 1 THEN "width-1" ELSE IF dl = 1 THEN "width+1"
                     ELSE IF dl < 0 THEN "width-less" ELSE "width-more"

\* ================================================================= squeeze (one line): collapse runs of spaces, drop the
\* spaces after an opening bracket and before a closing bracket or comma; a comma directly before a closing bracket is
\* dropped as well (the trailing comma of an aligned row that lacks its last columns is C04's known finding, not ours)
Squeeze(x) ==
  LET strip(acc) == IF acc # <<>> /\ acc[Len(acc)] = 32 THEN SubSeq(acc, 1, Len(acc) - 1) ELSE acc
      stripc(acc) == IF acc # <<>> /\ acc[Len(acc)] = 44 THEN strip(SubSeq(acc, 1, Len(acc) - 1)) ELSE acc
      f(acc, b) == IF b = 32 THEN (IF acc = <<>> \/ acc[Len(acc)] \in {32, 91, 123} THEN acc ELSE Append(acc, b))
                   ELSE IF b = 44 THEN Append(strip(acc), b)
                   ELSE IF b \in {93, 125} THEN Append(stripc(strip(acc)), b)
                   ELSE Append(acc, b)
  IN FoldLeft(f, <<>>, x)
DropSp(x) == FoldLeft(LAMBDA acc, b : IF b = 32 /\ acc # <<>> /\ acc[Len(acc)] \in {93, 125} THEN acc ELSE Append(acc, b), <<>>, x)
\* One-line forms.  Strict without Align: exactly fl.  ALLOW with Align: any padding (the documentation says only that Align
\* "attempts to align elements of children"; the code pads keys and cells also inside a single line: `{"a":   1, "bbb": 22}`,
\* `[ [ 1,  2], [10, 20]]`) - a padded one-line form is accepted and counted as model drift.
OneLineOK(x, a, R) == x = a.fl \/ (R.o.al /\ Squeeze(x) = Squeeze(a.fl))

\* ================================================================= aligned tables (Align; documented by align_test.go)
\* A broken array of >= 2 rows that are all arrays or all objects, rows one per line, cells padded to column widths: numbers
\* right-aligned, everything else left-aligned (padding before the comma), a missing object member replaced by blanks, nested
\* containers aligned recursively, a shorter array row simply ends.  The exact table is demanded only for REGULAR tables
\* (every column holds scalars, or non-empty containers of one kind - arrays of one length -, possibly mixed with scalars not
\* wider than the nested table: TestWriteAlignArrayNested); for other shapes the tests are silent and any padding is accepted.
RowKind(a) == IF \A i \in 1..Len(a.v) : a.v[i].t = "arr" THEN "arr" ELSE IF \A i \in 1..Len(a.v) : a.v[i].t = "obj" THEN "obj" ELSE "none"
Eligible(a) == a.t = "arr" /\ Len(a.v) >= 2 /\ RowKind(a) # "none"
RECURSIVE BLess(_, _, _)
BLess(x, y, i) == IF i > Len(x) THEN i <= Len(y) ELSE IF i > Len(y) THEN FALSE
                  ELSE IF x[i] < y[i] THEN TRUE ELSE IF x[i] > y[i] THEN FALSE ELSE BLess(x, y, i + 1)
KeyIdx(r, key) == LET s == {i \in 1..Len(r.k) : r.k[i] = key} IN IF s = {} THEN 0 ELSE MinOf(s)
\* TabOf(rows) = [kind, keys, kbs, cols, size, reg]; a column = [w, sub, reg]
RECURSIVE TabOf(_, _), ColOf(_, _)
ColOf(cells, sen) ==
  LET cont == SelectSeq(cells, LAMBDA m : ~IsLeaf(m))
      lw == MaxOf({Len(cells[i].fl) : i \in {j \in 1..Len(cells) : IsLeaf(cells[j])}})
  IN IF cont = <<>> THEN [w |-> lw, sub |-> <<>>, reg |-> TRUE]
     ELSE LET sub == TabOf(cont, sen)
              same == \A i \in 1..Len(cont) : cont[i].t = cont[1].t /\ cont[i].v # <<>>
                                               /\ (cont[1].t = "arr" => Len(cont[i].v) = Len(cont[1].v))
          IN [w |-> IF same THEN sub.size ELSE 0, sub |-> sub, reg |-> same /\ sub.reg /\ lw <= sub.size]
TabOf(rows, sen) ==
  IF \E i \in 1..Len(rows) : rows[i].t # rows[1].t THEN [kind |-> "none", keys |-> <<>>, kbs |-> <<>>, cols |-> <<>>, size |-> 0, reg |-> FALSE]
  ELSE IF rows[1].t = "arr" THEN
    LET nc == MaxOf({Len(rows[i].v) : i \in 1..Len(rows)})
        cols == [k \in 1..nc |-> ColOf(LET rs == SelectSeq(rows, LAMBDA r : Len(r.v) >= k) IN [i \in 1..Len(rs) |-> rs[i].v[k]], sen)]
    IN [kind |-> "arr", keys |-> <<>>, kbs |-> <<>>, cols |-> cols,
        size |-> FoldLeft(LAMBDA s, k : s + cols[k].w, 0, [k \in 1..nc |-> k]) + (IF nc > 0 THEN (nc - 1) * Len(Sep(sen)) ELSE 0) + 2,
        reg |-> nc > 0 /\ \A k \in 1..nc : cols[k].reg]
  ELSE
    LET kset == UNION {{rows[i].k[j] : j \in 1..Len(rows[i].k)} : i \in 1..Len(rows)}
        keys == SortSeq(SetToSeq(kset), LAMBDA x, y : BLess(x, y, 1))
        nc == Len(keys)
        kbs == [j \in 1..nc |-> StrBytes(keys[j], sen)]
        cols == [j \in 1..nc |-> ColOf(LET rs == SelectSeq(rows, LAMBDA r : KeyIdx(r, keys[j]) > 0)
                                       IN [i \in 1..Len(rs) |-> rs[i].v[KeyIdx(rs[i], keys[j])]], sen)]
    IN [kind |-> "obj", keys |-> keys, kbs |-> kbs, cols |-> cols,
        size |-> FoldLeft(LAMBDA s, j : s + cols[j].w + Len(kbs[j]) + 2, 0, [j \in 1..nc |-> j]) + (IF nc > 0 THEN (nc - 1) * Len(Sep(sen)) ELSE 0) + 2,
        reg |-> nc > 0 /\ \A j \in 1..nc : cols[j].reg]
\* one row of the table.  c04 = TRUE: the separator behind the last present member of a JSON object row that lacks its
\* last columns is written as a comma (the code as it is; invalid JSON, C04's known finding), FALSE: as a blank.
RECURSIVE RowBytes(_, _, _, _)
RowBytes(r, T, sen, c04) ==
  LET Cell(m, C) == IF IsLeaf(m) THEN (IF IsNum(m) THEN Spaces(C.w - Len(m.fl)) \o m.fl ELSE m.fl \o Spaces(C.w - Len(m.fl)))
                    ELSE RowBytes(m, C.sub, sen, c04)
  IN IF r.t = "arr" THEN <<91>> \o Join([k \in 1..Len(r.v) |-> Cell(r.v[k], T.cols[k])], Sep(sen)) \o <<93>>
     ELSE LET nc == Len(T.keys)
              lastp == MaxOf({j \in 1..nc : KeyIdx(r, T.keys[j]) > 0})
              f(acc, j) ==
                LET i == KeyIdx(r, T.keys[j])
                    sp == IF ~acc.prev THEN <<>> ELSE IF j > lastp /\ ~sen /\ ~c04 THEN <<32, 32>> ELSE Sep(sen)
                IN IF i > 0 THEN [b |-> acc.b \o sp \o T.kbs[j] \o <<58, 32>> \o Cell(r.v[i], T.cols[j]), prev |-> TRUE]
                   ELSE [b |-> acc.b \o sp \o Spaces(Len(T.kbs[j]) + 2 + T.cols[j].w + (IF j < nc THEN Len(Sep(sen)) ELSE 0)), prev |-> FALSE]
          IN <<123>> \o FoldLeft(f, [b |-> <<>>, prev |-> FALSE], [j \in 1..nc |-> j]).b \o <<125>>
TableBlock(a, lvl, R, c04) ==
  LET T == TabOf(a.v, R.o.sen) IN
  <<91>> \o Cat([i \in 1..Len(a.v) |-> (IF i > 1 /\ ~R.o.sen THEN <<44>> ELSE <<>>) \o NLInd(R, lvl + 1) \o RowBytes(a.v[i], T, R.o.sen, c04)])
         \o NLInd(R, lvl) \o <<93>>
\* longest row line of the table (with the comma behind it)
TableMaxLine(a, lvl, R) ==
  LET T == TabOf(a.v, R.o.sen) IN
  MaxOf({(lvl + 1) * R.step + Len(RowBytes(a.v[i], T, R.o.sen, TRUE)) + Trail(a, i, R) : i \in 1..Len(a.v)})
Tabular(a, R) == R.o.mode = "pretty" /\ R.o.al /\ Eligible(a) /\ TabOf(a.v, R.o.sen).reg /\ \A i \in 1..Len(a.v) : DepthOK(a.v[i], R)
\* R-align (strict where explicit): a regular table whose aligned rows fit under every reading MUST be written as the table
\*          ("attempts to align": nothing prevents it there); otherwise table or ordinary broken form are both admissible.
MustTable(it, c, R) == Tabular(it.n, R) /\ TableMaxLine(it.n, it.lvl, R) < R.o.w
\* the table is inadmissible when a row overflows although an ordinary broken rendering would stay within the width.
\* ALLOW: the row is measured from the indentation of the LIST, not of the row, and without its comma: TestWriteAlignArrayStrings
\* (Width 30) expects the 31-character row `  ["alpha", "bravo", "charlie"],` - a row may exceed the width by one indentation step
\* plus the comma; such rows are counted as model drift (drift_aligned_row_beyond_width)
TableRowsWidest(a, lvl, R) == TableMaxLine(a, lvl, R) - R.step - (IF R.o.sen THEN 0 ELSE 1)
TableOverflow(it, c, R) == TableRowsWidest(it.n, it.lvl, R) > R.o.w /\ BrokenFits(it, c, R)

\* ================================================================= work items and moves
NodeIt(n, lvl, t, ps) == [k |-> "node", n |-> n, lvl |-> lvl, t |-> t, ps |-> ps]
LitIt(b, tag) == [k |-> "lit", b |-> b, tag |-> tag]
Move(e, p, rule, drift) == [dev |-> FALSE, emit |-> e, push |-> p, rule |-> rule, drift |-> drift]
Dev(kind, it, c, len, R) ==
  [dev |-> TRUE, kind |-> kind, nk |-> IF it.k = "node" THEN it.n.t ELSE it.tag, ps |-> IF it.k = "node" THEN it.ps ELSE "-",
   bc |-> IF it.k = "node" /\ R.o.mode = "pretty" THEN BClass(c, len, R) ELSE "-"]
\* what follows the opening bracket of a broken container: members one per line, indented one step further (strict: every
\* example), `key: value` with one space, under Align the values of a broken object start in one column (TestAlignMap,
\* CHANGELOG 1.12.0), JSON commas at the end of the line, the closing bracket on its own line at the container's indentation
BrokenPush(it, R) ==
  LET a == it.n
      kw == KeyW(a, R)
      One(i) == <<LitIt(NLInd(R, it.lvl + 1), "newline-indent")>>
                \o (IF a.t = "obj" THEN <<LitIt(a.kb[i] \o <<58, 32>> \o (IF R.o.mode = "pretty" /\ R.o.al THEN Spaces(kw - Len(a.kb[i])) ELSE <<>>), "key")>> ELSE <<>>)
                \o <<NodeIt(a.v[i], it.lvl + 1, Trail(a, i, R), IF a.t = "obj" THEN "member" ELSE "elem")>>
                \o (IF Trail(a, i, R) = 1 THEN <<LitIt(<<44>>, "comma")>> ELSE <<>>)
  IN Cat([i \in 1..Len(a.v) |-> One(i)]) \o <<LitIt(NLInd(R, it.lvl) \o <<CloseB(a)>>, "close")>>

EmptyBroken(it, R) == <<OpenB(it.n)>> \o NLInd(R, it.lvl) \o <<CloseB(it.n)>>

\* ================================================================= (2) the generative machine: Layout(tree, opts)
\* NodeMoves = every admissible way to continue at a node item standing at column c
NodeMoves(it, c, R) ==
  LET a == it.n IN
  IF R.o.mode = "indent" THEN
    IF R.o.ind = 0 /\ ~R.o.tab THEN {Move(Tight(a, R.o.sen), <<>>, "tight", FALSE)}
    ELSE IF IsLeaf(a) THEN {Move(a.fl, <<>>, "atom", FALSE)}
    ELSE IF a.v = <<>> THEN {Move(a.fl, <<>>, "atom", FALSE)}
         \* ALLOW: sen's indenting writer spells an empty object `{` newline indentation `}` (its own tests expect "{\n}");
         \* no text documents either spelling; both are admitted, the second is counted as model drift
         \cup (IF R.o.sen /\ a.t = "obj" THEN {Move(<<123>> \o NLInd(R, it.lvl) \o <<125>>, <<>>, "empty-object-broken", TRUE)} ELSE {})
    ELSE {Move(<<OpenB(a)>>, BrokenPush(it, R), "broken", FALSE)}
  ELSE
    IF Atomic(a) THEN {Move(a.fl, <<>>, "atom", FALSE)}
         \* ALLOW: an empty container that does not fit (col + 2 + comma >= Width) may be written `[` newline indentation `]`
         \* (the code does so at very small widths; every example shows `[]` where it fits); counted as model drift
         \cup (IF ~IsLeaf(a) /\ ~(c + 2 + it.t < R.o.w) THEN {Move(EmptyBroken(it, R), <<>>, "empty-broken", TRUE)} ELSE {})
    ELSE
      (IF DepthOK(a, R) /\ ~(Overflows(c, Size(a), R) /\ BrokenFits(it, c, R)) THEN {Move(a.fl, <<>>, "one-line", FALSE)} ELSE {})
      \cup (IF ~MustFlat(it, c, R) /\ ~MustTable(it, c, R) THEN {Move(<<OpenB(a)>>, BrokenPush(it, R), "broken", FALSE)} ELSE {})
      \cup (IF Tabular(a, R) /\ ~MustFlat(it, c, R) /\ ~TableOverflow(it, c, R)
            THEN {Move(TableBlock(a, it.lvl, R, FALSE), <<>>, "table", FALSE)} ELSE {})   \* (the acceptor also tolerates the trailing-comma form: C04)

VARIABLES todo,    \* tree cursor: the work list (head = what is written next; a node item carries its depth lvl)
          col,     \* column: characters already on the current line (remaining width = Width - col)
          out,     \* the text so far
          run      \* [tree (annotated), o, step, th]
lvars == <<todo, col, out, run>>

\* Runs = the (tree, options) universe of a model; supplied by the MC / Gen modules
LInit(Runs) == /\ run \in Runs
               /\ todo = <<NodeIt(run.tree, 0, 0, "root")>> /\ col = 0 /\ out = <<>>
Emit(e) == /\ out' = out \o e /\ col' = ColAfter(col, e)
WriteLit == /\ todo # <<>> /\ Head(todo).k = "lit"
            /\ Emit(Head(todo).b) /\ todo' = Tail(todo) /\ UNCHANGED run
WriteNode(rule) == /\ todo # <<>> /\ Head(todo).k = "node"
                   /\ \E m \in NodeMoves(Head(todo), col, run) :
                        /\ m.rule = rule /\ Emit(m.emit) /\ todo' = m.push \o Tail(todo)
                   /\ UNCHANGED run
Atom == WriteNode("atom")
OneLine == WriteNode("one-line")
Break == WriteNode("broken")
Table == WriteNode("table")
TightAll == WriteNode("tight")
EmptyObjectBroken == WriteNode("empty-object-broken") \/ WriteNode("empty-broken")
LNext == WriteLit \/ Atom \/ OneLine \/ Break \/ Table \/ TightAll \/ EmptyObjectBroken
Finished == todo = <<>>

\* ================================================================= (3) the acceptor: the same machine driven by a text x
\* S = [todo, col, pos (next unread byte of x), nl (lines so far)]
LineEnd(x, p) == LET s == {i \in p..Len(x) : x[i] = 10} IN IF s = {} THEN Len(x) + 1 ELSE MinOf(s)
AccNode(it, c, R, x, p) ==
  LET a == it.n IN
  IF R.o.mode = "indent" THEN
    IF R.o.ind = 0 /\ ~R.o.tab THEN (IF Match(x, p, Tight(a, R.o.sen)) THEN Move(Tight(a, R.o.sen), <<>>, "tight", FALSE)
                                    \* ALLOW: tight SEN may omit the separating space behind a closing bracket (`[{}null]`; SEN
                                    \* separators are optional, no text says when the writer omits them); counted as drift
                                    ELSE IF R.o.sen /\ it.ps = "root" /\ DropSp(SubSeq(x, p, Len(x))) = DropSp(Tight(a, TRUE))
                                    THEN Move(SubSeq(x, p, Len(x)), <<>>, "tight", TRUE)
                                    ELSE Dev("bytes", it, c, 0, R))
    ELSE IF Atomic(a) /\ Match(x, p, a.fl) THEN Move(a.fl, <<>>, "atom", FALSE)
    ELSE IF Atomic(a) /\ R.o.sen /\ a.t = "obj" /\ Match(x, p, <<123>> \o NLInd(R, it.lvl) \o <<125>>)
         THEN Move(<<123>> \o NLInd(R, it.lvl) \o <<125>>, <<>>, "empty-object-broken", TRUE)
    ELSE IF Atomic(a) THEN Dev("bytes", it, c, 0, R)
    ELSE IF Match(x, p, <<OpenB(a), 10>>) THEN Move(<<OpenB(a)>>, BrokenPush(it, R), "broken", FALSE)
    ELSE Dev("not-broken", it, c, 0, R)
  ELSE
    IF Atomic(a) THEN (IF Match(x, p, a.fl) THEN Move(a.fl, <<>>, "atom", FALSE)
                       ELSE IF ~IsLeaf(a) /\ Match(x, p, EmptyBroken(it, R))
                       THEN (IF c + 2 + it.t < R.o.w THEN Dev("broken-though-fits", it, c, 2, R) ELSE Move(EmptyBroken(it, R), <<>>, "empty-broken", TRUE))
                       ELSE Dev("bytes", it, c, Size(a), R))
    ELSE IF ~Match(x, p, <<OpenB(a)>>) THEN Dev("bytes", it, c, Size(a), R)
    ELSE IF Match(x, p, <<OpenB(a), 10>>) THEN
      IF Tabular(a, R) /\ (Match(x, p, TableBlock(a, it.lvl, R, TRUE)) \/ Match(x, p, TableBlock(a, it.lvl, R, FALSE))) THEN
        LET blk == IF Match(x, p, TableBlock(a, it.lvl, R, TRUE)) THEN TableBlock(a, it.lvl, R, TRUE) ELSE TableBlock(a, it.lvl, R, FALSE) IN
        IF MustFlat(it, c, R) THEN Dev("broken-though-fits", it, c, Size(a), R)
        ELSE IF TableOverflow(it, c, R) THEN Dev("aligned-row-overflows-though-breakable", it, (it.lvl + 1) * R.step, TableMaxLine(a, it.lvl, R) - (it.lvl + 1) * R.step - 1, R)
        ELSE Move(blk, <<>>, "table", TableMaxLine(a, it.lvl, R) - 1 > R.o.w)
      ELSE IF MustFlat(it, c, R) THEN Dev("broken-though-fits", it, c, Size(a), R)
      ELSE IF MustTable(it, c, R) THEN Dev("rows-not-aligned", it, c, Size(a), R)
      ELSE Move(<<OpenB(a)>>, BrokenPush(it, R), "broken", FALSE)
    ELSE
      LET q == LineEnd(x, p)
          e == IF it.t = 1 /\ q - 1 >= p /\ x[q - 1] = 44 THEN q - 2 ELSE q - 1
          y == SubSeq(x, p, e)
      IN IF ~OneLineOK(y, a, R) THEN Dev("bytes", it, c, Size(a), R)
         ELSE IF ~DepthOK(a, R) THEN Dev("one-line-deeper-than-maxdepth", it, c, Len(y), R)
         ELSE IF Overflows(c, Len(y), R) /\ BrokenFits(it, c, R)
              THEN Dev(IF y = a.fl THEN "overflows-though-breakable" ELSE "padded-one-line-overflows-though-breakable", it, c, Len(y), R)
         ELSE Move(y, <<>>, "one-line", y # a.fl)
AccStep(S, x, R) ==
  IF S.todo = <<>> THEN (IF S.pos = Len(x) + 1 THEN [dev |-> FALSE, done |-> TRUE] ELSE [dev |-> TRUE, kind |-> "trailing-bytes", nk |-> "-", ps |-> "-", bc |-> "-"])
  ELSE LET it == Head(S.todo)
           m == IF it.k = "lit" THEN (IF Match(x, S.pos, it.b) THEN Move(it.b, <<>>, "lit", FALSE) ELSE Dev("bytes", it, S.col, 0, R))
                ELSE AccNode(it, S.col, R, x, S.pos)
       IN IF m.dev THEN m
          ELSE [dev |-> FALSE, done |-> FALSE, rule |-> m.rule, drift |-> m.drift,
                S |-> [todo |-> m.push \o Tail(S.todo), col |-> ColAfter(S.col, m.emit), pos |-> S.pos + Len(m.emit)]]
AccInit(tree) == [todo |-> <<NodeIt(tree, 0, 0, "root")>>, col |-> 0, pos |-> 1]
\* the indentation step a text uses: the spaces behind its first newline (2 if it has none)
RECURSIVE CountWs(_, _)
CountWs(x, p) == IF p <= Len(x) /\ x[p] \in {32, 9} THEN 1 + CountWs(x, p + 1) ELSE 0
RECURSIVE CountSp(_, _)
CountSp(x, p) == IF p <= Len(x) /\ x[p] = 32 THEN 1 + CountSp(x, p + 1) ELSE 0
StepOf(x) == LET q == LineEnd(x, 1) IN IF q > Len(x) THEN 2 ELSE LET s == CountSp(x, q + 1) IN IF s = 0 THEN 2 ELSE s
\* run the acceptor to the end: <<>> if x is an admissible rendering, else the deviation record (design checks only; the
\* trace specification takes the same steps as TLC states)
RECURSIVE AccRun(_, _, _)
AccRun(S, x, R) == LET r == AccStep(S, x, R) IN IF r.dev THEN r ELSE IF r.done THEN <<>> ELSE AccRun(r.S, x, R)
MkRun(tree, o, step) == LET a == Ann(tree, o.sen) IN [tree |-> a, o |-> o, step |-> step, th |-> a.h]
Accepts(x, tree, o) ==
  LET a == Ann(tree, o.sen)
      st == IF o.mode = "indent" THEN o.ind ELSE StepOf(x)
  IN IF st \notin Steps(o, a.h) THEN [dev |-> TRUE, kind |-> "indent-step", nk |-> a.t, ps |-> "root", bc |-> "-"]
     ELSE AccRun(AccInit(a), x, [tree |-> a, o |-> o, step |-> st, th |-> a.h])
=============================================================================
