INIT Init
NEXT Next
CONSTANTS
  Sigs = {1, 2, 8, 15, 16, 17}
  Exps = {-324, -323, -310, -300, -100, -20, -8, -7, -6, -5, -4, -3, -2, -1, 0, 1, 5, 14, 15, 16, 17, 18, 19, 20, 21, 22, 100, 300, 308}
  Pats = {"mixed", "nines", "ones"}
CONSTRAINT Emit
CHECK_DEADLOCK FALSE
