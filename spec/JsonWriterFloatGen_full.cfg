INIT Init
NEXT Next
CONSTANTS
  Sigs <- SigsFull
  Exps <- ExpsFull
  Pats <- PatsFull
CONSTRAINT Emit
CHECK_DEADLOCK FALSE
