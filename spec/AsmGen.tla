--------------------------- MODULE AsmGen ---------------------------
(* Behaviour generation for C20/C06: TLC enumerates assembly plans - the (function x arity x     *)
(* argument kind) matrix over every function name the real package defines (Fns, read from       *)
(* asm.FnDocs()), a value-level matrix for the functions with specified semantics, targeted      *)
(* mutator / cond / sort / each families, and (with -simulate) random nested plans of depth <= 4 *)
(* - and prints each as one JSON case {plan, root, bare}.  The Go driver replays them.           *)
EXTENDS Asm, Json

CONSTANTS Fns,       \* every function name defined by the real package (from asm.FnDocs())
          Part,      \* which family to emit
          Big        \* TRUE in the thorough tier: larger atom sets and arities

C(s) == [k |-> "c", s |-> s, i |-> 0]
N(j) == [k |-> "n", s |-> "", i |-> j]
W    == [k |-> "w", s |-> "", i |-> 0]
D    == [k |-> "d", s |-> "", i |-> 0]
P(at, fr) == [t |-> "path", at |-> at, fr |-> fr]
Call(f, a) == [t |-> "call", fn |-> f, a |-> a]
Pair(c, v) == [t |-> "pair", c |-> c, v |-> v]
S1(x) == Str(<<x>>)

\* R1: unsorted, asymmetric arrays (an in-place reorder is visible), a list of lists, objects of equal size with different
\* key sets and null members, strings that name members (sel, keys: data-dependent paths)
BigI(neg, d) == [t |-> "bigint", neg |-> neg, d |-> d]
B53 == BigI(FALSE, <<9,0,0,7,1,9,9,2,5,4,7,4,0,9,9,2>>)          \* 2^53
B53p1 == BigI(FALSE, <<9,0,0,7,1,9,9,2,5,4,7,4,0,9,9,3>>)        \* 2^53 + 1: rounds to 2^53 as a float64
B62p1 == BigI(FALSE, <<4,6,1,1,6,8,6,0,1,8,4,2,7,3,8,7,9,0,5>>)  \* 2^62 + 1
B62 == BigI(FALSE, <<4,6,1,1,6,8,6,0,1,8,4,2,7,3,8,7,9,0,4>>)
MaxI == BigI(FALSE, <<9,2,2,3,3,7,2,0,3,6,8,5,4,7,7,5,8,0,7>>)
MaxIm1 == BigI(FALSE, <<9,2,2,3,3,7,2,0,3,6,8,5,4,7,7,5,8,0,6>>)
MinI == BigI(TRUE, <<9,2,2,3,3,7,2,0,3,6,8,5,4,7,7,5,8,0,8>>)
MinIp1 == BigI(TRUE, <<9,2,2,3,3,7,2,0,3,6,8,5,4,7,7,5,8,0,7>>)
BigInts == {B53, B53p1, B62p1, B62, MaxI, MaxIm1, MinI, MinIp1}
R1 == Obj([src |-> Obj([a |-> IntV(1), b |-> Arr(<<IntV(3), IntV(1), IntV(2)>>), c |-> Obj([d |-> S1(120), e |-> IntV(2)]),
                        s |-> Str(<<97, 98>>), f |-> Flt(3, 1), t |-> Bool(TRUE), n |-> Null,
                        l |-> Arr(<<Obj([k |-> IntV(2), v |-> S1(112)]), Obj([k |-> IntV(1), v |-> S1(113)])>>),
                        ll |-> Arr(<<Arr(<<IntV(3), IntV(1), IntV(2)>>), Arr(<<IntV(2), IntV(1)>>)>>),
                        sel |-> S1(97), keys |-> Arr(<<S1(97), S1(102), S1(97)>>), o |-> Obj([a |-> IntV(1), c |-> Null]),
                        zf |-> Flt(0, 0), zi |-> IntV(0), tmp |-> IntV(1),
                        big |-> B53p1, big2 |-> B53, ids |-> Arr(<<B62p1, B62>>), rec |-> Obj([id |-> MaxI]), kn |-> Str(<<97, 115, 109>>)])])
R2 == Obj([src |-> Arr(<<IntV(1), S1(97), Arr(<<IntV(2)>>)>>), asm |-> Obj([x |-> IntV(1)])])
R3 == Obj([src |-> Obj([k |-> IntV(5), x |-> IntV(7)])])
\* the second root of every case (same shape, other values): the SAME Plan object is executed on it after the first root
R1b == Obj([src |-> Obj([a |-> IntV(5), b |-> Arr(<<IntV(9), IntV(7), IntV(8)>>), c |-> Obj([d |-> S1(121), e |-> IntV(4)]),
                         s |-> Str(<<99, 100>>), f |-> Flt(5, 1), t |-> Bool(FALSE), n |-> Null,
                         l |-> Arr(<<Obj([k |-> IntV(1), v |-> S1(113)]), Obj([k |-> IntV(3), v |-> S1(114)])>>),
                         ll |-> Arr(<<Arr(<<IntV(2), IntV(9), IntV(4)>>), Arr(<<IntV(1), IntV(0)>>)>>),
                         sel |-> S1(102), keys |-> Arr(<<S1(102), S1(97)>>), o |-> Obj([a |-> IntV(1), c |-> IntV(2)]),
                         zf |-> Flt(0, 0), zi |-> IntV(0), tmp |-> IntV(2),
                         big |-> B62p1, big2 |-> B62, ids |-> Arr(<<B53p1, B53>>), rec |-> Obj([id |-> MaxIm1]), kn |-> Str(<<97, 115, 109>>)])])
R2b == Obj([src |-> Arr(<<IntV(4), S1(98), Arr(<<IntV(6), IntV(5)>>)>>), asm |-> Obj([x |-> IntV(2)])])
R3b == Obj([src |-> Obj([k |-> IntV(6), x |-> IntV(1)])])

\* R4: arrays of 0, 1, 2 and 3 scalars under $.src (directly and one level down): what a "returns a copy" function hands back
\* for the SHORT ones must be a copy too
R4 == Obj([src |-> Obj([e0 |-> Arr(<<>>), e1 |-> Arr(<<S1(102)>>), e2 |-> Arr(<<IntV(7), IntV(8)>>), e3 |-> Arr(<<IntV(3), IntV(1), IntV(2)>>),
                        o |-> Obj([e0 |-> Arr(<<>>), e1 |-> Arr(<<IntV(5)>>)]), a |-> IntV(1)])])
R4b == Obj([src |-> Obj([e0 |-> Arr(<<>>), e1 |-> Arr(<<S1(103)>>), e2 |-> Arr(<<IntV(4), IntV(6)>>), e3 |-> Arr(<<IntV(9), IntV(7), IntV(8)>>),
                         o |-> Obj([e0 |-> Arr(<<>>), e1 |-> Arr(<<IntV(6)>>)]), a |-> IntV(2)])])
Asm == P(FALSE, <<C("asm")>>)
Wrapped(x) == Call("set", <<Asm, x>>)
Case(p, r, bare) == [plan |-> p, root |-> r, bare |-> bare]

\* ------------------------------------------------------------------ kind matrix: every function x arity x argument kind
KindRep == [null |-> Null, bool |-> Bool(TRUE), int |-> IntV(2), flt |-> Flt(3, 1), str |-> Str(<<97, 98>>),
            arr |-> Arr(<<IntV(3), IntV(1), IntV(2)>>), obj |-> Obj([a |-> IntV(1)]),
            rpath |-> P(FALSE, <<C("src"), C("b")>>), apath |-> P(TRUE, <<C("src"), C("a")>>),
            call |-> Call("sum", <<IntV(1), IntV(2)>>)]
Kinds10 == DOMAIN KindRep
Kinds5 == {"int", "str", "arr", "rpath", "call"}
Kinds3 == {"int", "str", "rpath"}
Tuples(K, n) == CASE n = 0 -> {<<>>}
                  [] n = 1 -> {<<a>> : a \in K}
                  [] n = 2 -> {<<a, b>> : a \in K, b \in K}
                  [] n = 3 -> {<<a, b, d>> : a \in K, b \in K, d \in K}
                  [] n = 4 -> {<<a, b, d, e>> : a \in K, b \in K, d \in K, e \in K}
Reps(K) == {KindRep[x] : x \in K}
Matrix012 == {Call(f, t) : f \in Fns, t \in Tuples(Reps(Kinds10), 0) \cup Tuples(Reps(Kinds10), 1)}
             \cup {Call(f, t) : f \in {x \in Fns : Big \/ ~(Canon(x) \in Specified /\ Canon(x) = x)
                                                          \/ Canon(x) \in {"each", "at", "root", "set", "setall", "del", "delall", "cond", "sort", "quote", "asm"}},
                            t \in Tuples(Reps(Kinds10), 2)}
             \* (quick: arity 2 of the canonical specified functions is the value matrix values2, which has every kind and more)
Matrix3 == {Call(f, t) : f \in Fns, t \in Tuples(Reps(Kinds5), 3)}
Matrix4 == {Call(f, t) : f \in Fns, t \in Tuples(Reps(Kinds3), 4)}

\* ------------------------------------------------------------------ value matrix for the specified functions
\* The cell table is generated, not hand-picked: one representative per argument-type class (TypeReps) and the special
\* values of every class (Special: 0, 0.0, -0.0, negative int / float, empty string / list / map, null, a missing path).
NegZero == [t |-> "flt", q |-> <<0, 0>>, nz |-> TRUE]          \* the literal -0.0
TypeReps == {Bool(TRUE), IntV(3), Flt(3, 1), Str(<<97, 98>>), Arr(<<IntV(3), IntV(1), IntV(2)>>), Obj([a |-> IntV(1)]),
             P(FALSE, <<C("src"), C("a")>>), P(TRUE, <<C("src"), C("s")>>), Call("sum", <<IntV(1), IntV(2)>>)}
Special == {IntV(0), Flt(0, 0), NegZero, IntV(-2), Flt(-1, 1), Str(<<>>), Arr(<<>>), Obj(<<>>), Null, P(FALSE, <<C("src"), C("zz")>>)}
NumSpecial == {IntV(0), Flt(0, 0), NegZero, IntV(-2), Flt(-1, 1)}
AtomsQ == TypeReps \cup Special
AtomsB == AtomsQ \cup {Flt(2, 0), P(FALSE, <<C("src"), C("s")>>), P(FALSE, <<C("src"), C("zf")>>), Bool(FALSE), S1(97), IntV(1), IntV(-1), Flt(1, 1), Flt(0, 0), Str(<<>>), S1(98), Arr(<<>>), P(FALSE, <<C("src"), C("f")>>),
           P(FALSE, <<C("src"), C("b")>>), Call("list", <<IntV(1), S1(97)>>), IntV(2), IntV(4), Flt(-3, 2), Flt(4, 0), Arr(<<S1(98), S1(97)>>), Arr(<<IntV(1), Flt(2, 0)>>),
           Arr(<<IntV(1), IntV(2)>>), Obj(<<>>), Obj([a |-> Flt(1, 0)]), Str(<<98, 97>>),
           P(FALSE, <<C("src"), C("b"), N(1)>>), P(FALSE, <<C("src"), C("b"), N(-1)>>), P(TRUE, <<C("src"), C("c")>>),
           P(FALSE, <<C("src"), C("c"), C("d")>>), P(FALSE, <<C("src"), W>>), P(FALSE, <<D, C("k")>>),
           P(FALSE, <<C("src"), C("t")>>), P(FALSE, <<C("src"), C("n")>>), P(TRUE, <<>>),
           Call("get", <<P(FALSE, <<C("src"), C("c")>>)>>), Call("quote", <<S1(97)>>), Call("not", <<IntV(1)>>)}
Atoms == IF Big THEN AtomsB ELSE AtomsQ
SpecFns == {f \in Fns : Canon(f) \in Specified /\ (Big \/ Canon(f) = f)}   \* quick: canonical names (aliases are in the kind matrix)
Values1 == {Call(f, <<a>>) : f \in Fns, a \in Atoms}
\* quick: (rep, rep), (special, rep), (rep, special) and the numeric specials among themselves; thorough: AtomsB x AtomsQ and AtomsQ x AtomsB
Pairs2 == IF Big THEN (AtomsB \X AtomsQ) \cup (AtomsQ \X AtomsB)
          ELSE (TypeReps \X TypeReps) \cup (Special \X TypeReps) \cup (TypeReps \X Special) \cup (NumSpecial \X NumSpecial)
\* functions whose first argument must be a path / clause / body are exercised by their own families (mutate, computed, forms,
\* scratch, retval) and by the kind matrix; the value matrix takes the functions that work on evaluated values
ValFns == {f \in SpecFns : Big \/ Canon(f) \notin {"each", "at", "root", "set", "setall", "del", "delall", "cond", "sort", "quote", "asm"}}
Values2 == {Call(f, <<pr[1], pr[2]>>) : f \in ValFns, pr \in Pairs2}
Nums == {IntV(0), IntV(1), IntV(3), IntV(-1), Flt(1, 1), Flt(3, 1), Flt(2, 0), S1(97), S1(98), Null, Bool(TRUE),
         P(FALSE, <<C("src"), C("a")>>), Call("sum", <<IntV(1), IntV(2)>>)}
Values3 == {Call(f, <<a, b, c>>) : f \in {"lt", "<=", "gt", "gte", "sum", "-", "product", "/", "equal", "neq", "and", "or", "list", "asm"},
                                   a \in Nums, b \in Nums, c \in Nums}

\* ------------------------------------------------------------------ mutators: path x value x root
MPaths == {P(FALSE, <<C("asm")>>), P(FALSE, <<C("asm"), C("x")>>), P(FALSE, <<C("asm"), C("x"), C("y")>>),
           P(FALSE, <<C("asm"), N(1)>>), P(FALSE, <<C("asm"), C("q"), N(0)>>), P(FALSE, <<C("src"), C("a")>>),
           P(FALSE, <<C("src"), C("a"), C("z")>>), P(FALSE, <<C("src"), C("b"), N(1)>>), P(FALSE, <<C("src"), C("b"), N(-1)>>),
           P(FALSE, <<C("src"), C("b"), N(5)>>), P(FALSE, <<C("src"), C("b"), C("z")>>), P(FALSE, <<C("src"), C("c"), C("d")>>),
           P(FALSE, <<C("src"), C("c"), N(0)>>), P(FALSE, <<C("src"), C("n"), C("z")>>), P(FALSE, <<C("src"), C("zz")>>),
           P(FALSE, <<C("src"), C("l"), N(0), C("k")>>), P(FALSE, <<C("src"), C("l"), N(1), C("z")>>), P(FALSE, <<C("src"), N(0)>>),
           P(FALSE, <<C("src"), N(2), N(0)>>), P(FALSE, <<>>), P(TRUE, <<>>), P(TRUE, <<C("asm"), C("x")>>), P(TRUE, <<C("src"), C("a")>>),
           P(FALSE, <<C("src"), W>>), P(FALSE, <<C("src"), C("b"), W>>), P(FALSE, <<D, C("k")>>), P(FALSE, <<C("other"), C("x")>>),
           P(FALSE, <<C("asm"), C("x"), N(0)>>), P(FALSE, <<N(0)>>)}
MVals == {Null, IntV(7), Flt(1, 1), S1(97), Arr(<<IntV(1)>>), Obj([z |-> IntV(1)]), P(FALSE, <<C("src"), C("b")>>),
          P(FALSE, <<C("src"), C("c")>>), Call("sum", <<IntV(1), IntV(2)>>)}
Mutating == {Call(f, <<p, v>>) : f \in {"set", "setall"}, p \in MPaths, v \in MVals}
            \cup {Call(f, <<p>>) : f \in {"del", "delall"}, p \in MPaths}
\* two-step plans: a mutation followed by a read or a second mutation (frame and aliasing cells)
Seq2 == {Call("asm", <<m, Call("set", <<P(FALSE, <<C("asm"), C("r")>>), g>>)>>) :
           m \in {Call("set", <<p, v>>) : p \in {P(FALSE, <<C("asm"), C("x")>>), P(FALSE, <<C("src"), C("a")>>), P(FALSE, <<C("asm")>>)},
                                          v \in {IntV(7), Obj([n |-> IntV(0)]), P(FALSE, <<C("src"), C("c")>>)}}
               \cup {Call("del", <<P(FALSE, <<C("src"), C("a")>>)>>)},
           g \in {Call("get", <<P(FALSE, <<C("asm"), C("x")>>)>>), Call("sum", <<P(FALSE, <<C("src"), C("a")>>), IntV(1)>>),
                  Call("size", <<P(FALSE, <<C("src")>>)>>), IntV(1)}}
        \cup {Call("asm", <<Call("set", <<Asm, Obj([n |-> IntV(0)])>>),
                            Call("set", <<P(FALSE, <<C("asm"), C("n")>>), Call("sum", <<P(FALSE, <<C("asm"), C("n")>>), IntV(1)>>)>>)>>),
              Call("asm", <<Call("set", <<Asm, P(FALSE, <<C("src"), C("b")>>)>>), Call("set", <<P(FALSE, <<C("asm"), N(0)>>), IntV(9)>>)>>),
              Call("asm", <<P(FALSE, <<C("src"), C("c")>>), Call("set", <<P(TRUE, <<C("d")>>), IntV(5)>>)>>)}

\* ------------------------------------------------------------------ cond / sort / each
Conds == {Bool(TRUE), Bool(FALSE), Call("lt", <<IntV(1), IntV(2)>>), Call("gt", <<IntV(1), IntV(2)>>),
          P(FALSE, <<C("src"), C("t")>>), IntV(1), Null, Call("null?", <<P(FALSE, <<C("src"), C("zz")>>)>>)}
CVals == {IntV(1), S1(97), P(FALSE, <<C("src"), C("a")>>), Call("sum", <<IntV(1), IntV(2)>>)}
CondPlans == {Call("cond", <<Pair(c, v)>>) : c \in Conds, v \in CVals}
             \cup {Call("cond", <<Pair(c, IntV(1)), Pair(c2, IntV(2))>>) : c \in Conds, c2 \in Conds}
             \cup {Call("cond", <<Pair(Bool(FALSE), IntV(1)), IntV(3)>>), Call("cond", <<Arr(<<Bool(TRUE)>>)>>),
                   Call("cond", <<Arr(<<Bool(TRUE), IntV(1), IntV(2)>>)>>)}
Lists == {Arr(<<>>), Arr(<<IntV(3), IntV(1), IntV(2)>>), Arr(<<S1(98), S1(97), S1(99)>>), Arr(<<IntV(2), Flt(3, 1), IntV(1)>>),
          Arr(<<IntV(1), S1(97)>>), Arr(<<Bool(TRUE), Bool(FALSE)>>), Arr(<<IntV(1)>>), Arr(<<Null, IntV(1)>>),
          P(FALSE, <<C("src"), C("b")>>), P(FALSE, <<C("src"), C("l")>>), P(FALSE, <<C("src"), C("a")>>),
          Arr(<<Obj([k |-> IntV(2)]), Obj([k |-> IntV(1)]), Obj([k |-> IntV(3)])>>), Arr(<<Obj([k |-> IntV(1), v |-> IntV(1)]), Obj([k |-> IntV(1), v |-> IntV(2)])>>),
          Arr(<<Arr(<<IntV(2)>>), Arr(<<IntV(1)>>)>>), Arr(<<IntV(3), IntV(3), IntV(1)>>)}
Keys == {P(TRUE, <<>>), P(TRUE, <<C("k")>>), P(TRUE, <<N(0)>>), P(TRUE, <<C("zz")>>), P(FALSE, <<C("k")>>), P(TRUE, <<C("v")>>)}
SortPlans == {Call("sort", <<l, k>>) : l \in Lists, k \in Keys} \cup {Call("reverse", <<l>>) : l \in Lists}
EachPlans == {Call("each", <<l, Call("set", <<P(TRUE, <<C("asm")>>), b>>)>>) : l \in Lists,
                b \in {P(TRUE, <<C("src")>>), Call("sum", <<IntV(1), P(TRUE, <<C("src")>>)>>), P(TRUE, <<C("src"), C("k")>>)}}
             \cup {Call("each", <<l, Call("set", <<P(TRUE, <<C("zz")>>), P(TRUE, <<C("src")>>)>>), S1(122)>>) : l \in Lists}
             \cup {Call("each", <<l, Call("set", <<P(TRUE, <<C("src"), C("k")>>), IntV(0)>>)>>) : l \in Lists}

\* ------------------------------------------------------------------ references: a nested call that returns data living under
\* $.src (get, getall, nth, cond, asm, each, list) as an argument of every function: a function that works in place on what
\* it was handed changes $.src although it is documented to return a copy / a new value
Refs == {Call("get", <<P(FALSE, <<C("src"), C("b")>>)>>), Call("get", <<P(TRUE, <<C("src"), C("l")>>)>>),
         Call("nth", <<P(FALSE, <<C("src"), C("ll")>>), IntV(0)>>), Call("cond", <<Pair(Bool(TRUE), P(FALSE, <<C("src"), C("b")>>))>>),
         Call("asm", <<P(FALSE, <<C("src"), C("ll"), N(1)>>)>>), Call("get", <<P(FALSE, <<C("src"), C("c")>>)>>)}
         \cup (IF Big THEN {Call("nth", <<Call("getall", <<P(FALSE, <<C("src"), C("b")>>)>>), IntV(0)>>), Call("get", <<P(FALSE, <<C("keys")>>), P(FALSE, <<C("src")>>)>>)} ELSE {})
RefExtra == {P(TRUE, <<>>), P(TRUE, <<C("k")>>), IntV(0)}
RefPlans == {Call(f, <<r>>) : f \in Fns, r \in Refs} \cup {Call(f, <<r, x>>) : f \in Fns, r \in Refs, x \in RefExtra}
            \cup (IF Big THEN {Call(f, <<x, r>>) : f \in Fns, r \in Refs, x \in {Arr(<<IntV(5)>>)}} ELSE {})

\* ------------------------------------------------------------------ computed, data-dependent paths: a path argument produced by a
\* nested call (root / at over strings read from the data), used by get/getall/set/setall and offered to every function,
\* evaluated more than once: inside each and across the two roots of a case
PathCalls == {Call("root", <<Str(<<115, 114, 99>>), P(FALSE, <<C("src"), C("sel")>>)>>), Call("at", <<Str(<<115, 114, 99>>), P(TRUE, <<C("src"), C("sel")>>)>>),
              Call("root", <<Str(<<115, 114, 99>>), S1(97)>>), Call("root", <<Str(<<115, 114, 99>>), Call("nth", <<P(FALSE, <<C("src"), C("keys")>>), IntV(0)>>)>>)}
ComputedPlans == {Call(f, <<pc>>) : f \in Fns, pc \in PathCalls}
                 \cup {Call(f, <<pc, v>>) : f \in {"set", "setall", "get", "getall", "sort", "list", "equal"}, pc \in PathCalls, v \in {IntV(7), P(FALSE, <<>>), P(FALSE, <<C("src"), C("b")>>)}}
                 \cup {Call("each", <<P(FALSE, <<C("src"), C("keys")>>), Call("set", <<P(TRUE, <<C("asm")>>), Call(f, <<Call("root", <<Str(<<115, 114, 99>>), P(TRUE, <<C("src")>>)>>)>>)>>)>>) : f \in {"get", "getall", "list", "size"}}
                 \cup {Call("asm", <<Call("set", <<P(FALSE, <<C("asm"), C("x")>>), Call("get", <<pc>>)>>), Call("set", <<P(FALSE, <<C("src"), C("sel")>>), S1(102)>>),
                                      Call("set", <<P(FALSE, <<C("asm"), C("y")>>), Call("get", <<pc>>)>>)>>) : pc \in PathCalls}

\* ------------------------------------------------------------------ equality on containers: same-size objects with different key sets,
\* null members, nested lists and objects
ContAtoms == {Obj(<<>>), Obj([a |-> IntV(1), b |-> Null]), Obj([a |-> IntV(1), c |-> Null]), Obj([a |-> IntV(1), c |-> IntV(2)]), Obj([a |-> Null]), Obj([b |-> Null]),
              Obj([a |-> Flt(1, 0), c |-> Null]), Obj([a |-> Arr(<<IntV(1)>>)]), Obj([a |-> Arr(<<Null>>)]), Obj([a |-> Obj([b |-> Null])]), Obj([a |-> Obj([c |-> Null])]),
              Arr(<<>>), Arr(<<Null>>), Arr(<<IntV(1), Null>>), Arr(<<Null, IntV(1)>>), Arr(<<IntV(1), IntV(2)>>), Arr(<<Obj([a |-> Null])>>), Arr(<<Obj([b |-> Null])>>), Null,
              P(FALSE, <<C("src"), C("o")>>), P(FALSE, <<C("src"), C("c")>>), P(FALSE, <<C("src"), C("ll"), N(1)>>)}
EqPlans == {Call(f, <<a, b>>) : f \in (IF Big THEN {"equal", "==", "eq", "neq", "!="} ELSE {"equal", "neq"}), a \in ContAtoms, b \in ContAtoms}
           \cup (IF Big THEN {Call("equal", <<a, a, b>>) : a \in ContAtoms, b \in ContAtoms} ELSE {})

\* ------------------------------------------------------------------ each with a scratch key: the body sets a NON-result local key for
\* SOME elements only (inside cond) and reads it afterwards; lists of >= 3 elements where the test holds for an early
\* element only - an implementation that does not start every iteration from a fresh local context leaks the key
Flag == P(TRUE, <<C("flag")>>)
LSrc == P(TRUE, <<C("src")>>)
ScratchLists == {Arr(<<IntV(3), IntV(1), IntV(2)>>), Arr(<<IntV(1), IntV(2), IntV(3), IntV(1)>>), P(FALSE, <<C("src"), C("b")>>),
                 Arr(<<S1(97), S1(98), S1(99)>>), Arr(<<Obj([k |-> IntV(3)]), Obj([k |-> IntV(1)]), Obj([k |-> IntV(2)])>>), P(FALSE, <<C("src"), C("ll"), N(0)>>)}
ScratchTests == {Call("equal", <<LSrc, IntV(3)>>), Call("gt", <<LSrc, IntV(2)>>), Call("equal", <<LSrc, IntV(1)>>), Call("equal", <<LSrc, S1(97)>>),
                 Call("equal", <<P(TRUE, <<C("src"), C("k")>>), IntV(3)>>), Call("lt", <<LSrc, IntV(2)>>)}
ScratchBodies(t) == {Call("asm", <<Call("cond", <<Pair(t, Call("set", <<Flag, Bool(TRUE)>>)), Pair(Bool(TRUE), P(TRUE, <<>>))>>), Call("set", <<P(TRUE, <<C("asm")>>), Flag>>)>>),
                     Call("set", <<P(TRUE, <<C("asm")>>), Call("nth", <<Call("list", <<Call("cond", <<Pair(t, Call("null?", <<Call("set", <<Flag, Bool(TRUE)>>)>>))>>), Flag>>), IntV(1)>>)>>),
                     Call("asm", <<Call("cond", <<Pair(t, Call("set", <<Flag, LSrc>>)), Pair(Bool(TRUE), P(TRUE, <<>>))>>), Call("set", <<P(TRUE, <<C("asm")>>), Call("list", <<LSrc, Flag>>)>>)>>),
                     Call("asm", <<Call("cond", <<Pair(t, Call("set", <<P(TRUE, <<C("asm")>>), LSrc>>)), Pair(Bool(TRUE), P(TRUE, <<>>))>>)>>),
                     Call("asm", <<Call("cond", <<Pair(t, Call("set", <<Flag, Obj([n |-> IntV(1)])>>)), Pair(Bool(TRUE), P(TRUE, <<>>))>>), Call("set", <<P(TRUE, <<C("asm")>>), Call("size", <<Flag>>)>>)>>)}
ScratchPlans == {Call("each", <<l, b>>) : l \in ScratchLists, b \in UNION {ScratchBodies(t) : t \in ScratchTests}}
                \cup {Call("each", <<l, Call("asm", <<Call("cond", <<Pair(t, Call("set", <<Flag, Bool(TRUE)>>)), Pair(Bool(TRUE), P(TRUE, <<>>))>>), Call("set", <<P(TRUE, <<C("z")>>), Flag>>)>>), S1(122)>>) :
                         l \in ScratchLists, t \in ScratchTests}
                \cup {Call("each", <<Arr(<<Arr(<<IntV(3), IntV(1)>>), Arr(<<IntV(2), IntV(3), IntV(2)>>)>>), Call("set", <<P(TRUE, <<C("asm")>>), Call("each", <<LSrc, b>>)>>)>>) :
                         b \in ScratchBodies(Call("equal", <<LSrc, IntV(3)>>))}

\* ------------------------------------------------------------------ nested container literals (depth 2 and 3, map in list, list in
\* map) that are stored and then modified IN PLACE at the nested level: inside each (results must not share the
\* literal) and at top level across the two Execute calls of a case (the plan's literal must not change)
NestLits == {<<Obj([id |-> IntV(0), tags |-> Obj([n |-> IntV(0)])]), <<C("tags"), C("n")>>>>,
             <<Arr(<<Arr(<<IntV(0)>>)>>), <<N(0), N(0)>>>>,
             <<Obj([a |-> Arr(<<Obj([n |-> IntV(0)])>>)]), <<C("a"), N(0), C("n")>>>>,
             <<Arr(<<Obj([m |-> Obj([n |-> IntV(0)])])>>), <<N(0), C("m"), C("n")>>>>,
             <<Obj([x |-> Obj([y |-> Obj([z |-> IntV(0)])])]), <<C("x"), C("y"), C("z")>>>>,
             <<Arr(<<IntV(7), Arr(<<IntV(8), Arr(<<IntV(0)>>)>>)>>), <<N(1), N(1), N(0)>>>>}
NestPlans == {Call("each", <<l, Call("asm", <<Call("set", <<P(TRUE, <<C("asm")>>), nl[1]>>), Call("set", <<P(TRUE, <<C("asm")>> \o nl[2]), LSrc>>)>>)>>) :
                 l \in {Arr(<<IntV(3), IntV(1), IntV(2)>>), P(FALSE, <<C("src"), C("b")>>)}, nl \in NestLits}
             \cup UNION {{Call("asm", <<Call("set", <<P(FALSE, <<C("asm")>>), nl[1]>>), Call("set", <<P(FALSE, <<C("asm")>> \o nl[2]), v>>)>>) :
                            v \in {P(FALSE, <<C("src"), C("a")>>), Call("sum", <<P(FALSE, <<C("asm")>> \o nl[2]), P(FALSE, <<C("src"), C("a")>>)>>)}} : nl \in NestLits}
             \cup {Call("asm", <<Call("set", <<P(FALSE, <<C("asm"), C("x")>>), nl[1]>>), Call("set", <<P(FALSE, <<C("asm"), C("y")>>), nl[1]>>),
                                  Call("set", <<P(FALSE, <<C("asm"), C("x")>> \o nl[2]), P(FALSE, <<C("src"), C("a")>>)>>)>>) : nl \in NestLits}
             \cup {Call("set", <<P(FALSE, <<C("asm")>>), Call("each", <<Arr(<<IntV(1), IntV(2), IntV(3)>>), Call("asm", <<Call("set", <<P(TRUE, <<C("asm")>>), nl[1]>>),
                                  Call("set", <<P(TRUE, <<C("asm")>> \o nl[2]), Call("sum", <<P(TRUE, <<C("asm")>> \o nl[2]), LSrc>>)>>)>>)>>)>>) : nl \in NestLits}

\* ------------------------------------------------------------------ arithmetic: 0, 0.0, -0.0, negatives in EVERY position of int, float
\* and mixed chains (arity 2 and 3), literal and read from the data
ArithAtoms3 == {IntV(0), Flt(0, 0), NegZero, IntV(4), Flt(3, 1), IntV(-2)}
ArithAtoms2 == ArithAtoms3 \cup {Flt(-1, 1), IntV(3), Flt(1, 2), P(FALSE, <<C("src"), C("zf")>>), P(FALSE, <<C("src"), C("zi")>>), P(FALSE, <<C("src"), C("f")>>),
                                IntV(-7), IntV(8), IntV(-4)}      \* a negative odd number, powers of two of either sign
ArithFns == {f \in Fns : Canon(f) \in {"sum", "dif", "product", "quotient"} /\ (Big \/ Canon(f) = f)}
ArithPlans == {Call(f, <<a, b>>) : f \in ArithFns \cup {"mod"}, a \in ArithAtoms2, b \in ArithAtoms2}
              \cup {Call(f, <<a, b, d>>) : f \in ArithFns, a \in ArithAtoms3, b \in ArithAtoms3, d \in ArithAtoms3}
              \cup {Call(f, <<a>>) : f \in ArithFns \cup {"mod"}, a \in ArithAtoms2}

\* ------------------------------------------------------------------ comparison chains of 3 and 4 arguments, every order: among them the
\* non-monotone ones whose members all are <= / >= the FIRST ("compare with predecessor" vs "compare with first"),
\* for ints, floats, mixed numbers and strings (the types the descriptions list)
CmpFns == {f \in Fns : Canon(f) \in {"lt", "lte", "gt", "gte", "equal", "neq"} /\ (Big \/ Canon(f) = f)}
Cube(S) == {<<a, b, d>> : a \in S, b \in S, d \in S}
Quad(S) == {<<a, b, d, e>> : a \in S, b \in S, d \in S, e \in S}
CmpTuples == Cube({IntV(1), IntV(2), IntV(3)}) \cup Cube({Flt(1, 1), Flt(3, 1), Flt(5, 1)}) \cup Cube({IntV(1), Flt(3, 1), IntV(2)})
             \cup Cube({S1(97), S1(107), S1(109)}) \cup (IF Big THEN Quad({IntV(1), IntV(2), IntV(3)}) ELSE {}) \cup Quad({S1(97), S1(107), S1(109)})
             \cup Cube({P(FALSE, <<C("src"), C("a")>>), IntV(2), P(FALSE, <<C("src"), C("f")>>)})
             \cup Cube({IntV(-2), IntV(0), Flt(-1, 1)}) \cup Cube({IntV(-7), IntV(-8), NegZero})      \* negative operands, zero, -0.0
CmpPlans == {Call(f, t) : f \in CmpFns, t \in CmpTuples}

\* ------------------------------------------------------------------ return values: every function in the MIDDLE of an asm sequence whose
\* local value @ is a distinguishable literal (not the root), followed by a step that consumes @
Keep == Obj([keep |-> IntV(7), tmp |-> IntV(1), lst |-> Arr(<<IntV(3), IntV(1), IntV(2)>>), s |-> Str(<<97, 98>>)])
LK(x) == P(TRUE, <<C(x)>>)
MidTuples == {<<>>, <<LK("keep")>>, <<LK("keep"), IntV(2)>>, <<LK("lst")>>, <<LK("lst"), IntV(0)>>}
             \cup (IF Big THEN {<<LK("s")>>, <<LK("keep"), LK("keep"), IntV(9)>>, <<LK("lst"), P(TRUE, <<>>)>>} ELSE {})
Mids == {Call(f, t) : f \in Fns, t \in MidTuples}
        \cup {Call("del", <<P(FALSE, <<C("src"), C("tmp")>>)>>), Call("delall", <<P(FALSE, <<C("src"), C("tmp")>>)>>), Call("del", <<LK("tmp")>>), Call("delall", <<LK("tmp")>>),
              Call("set", <<P(FALSE, <<C("src"), C("tmp")>>), IntV(5)>>), Call("setall", <<P(FALSE, <<C("src"), C("tmp")>>), IntV(5)>>), Call("set", <<LK("x"), IntV(5)>>),
              Call("setall", <<LK("x"), IntV(5)>>), Call("set", <<P(FALSE, <<C("asm"), C("q")>>), LK("keep")>>), Call("del", <<P(FALSE, <<C("src"), C("zz")>>)>>),
              Call("cond", <<Pair(Bool(TRUE), Call("del", <<P(FALSE, <<C("src"), C("tmp")>>)>>))>>), Call("asm", <<Call("del", <<P(FALSE, <<C("src"), C("tmp")>>)>>)>>),
              Call("each", <<Arr(<<IntV(1), IntV(2)>>), Call("asm", <<Call("del", <<P(FALSE, <<C("src"), C("tmp")>>)>>), Call("set", <<P(TRUE, <<C("asm")>>), P(TRUE, <<C("src")>>)>>)>>)>>)}
Consumers == {Call("set", <<P(FALSE, <<C("asm"), C("kept")>>), LK("keep")>>), Call("set", <<P(FALSE, <<C("asm"), C("r")>>), P(TRUE, <<>>)>>)}
RetPlans == {Call("asm", <<Keep, m, u>>) : m \in Mids, u \in Consumers}
            \cup {Call("each", <<Arr(<<IntV(1), IntV(2), IntV(3)>>), Call("asm", <<m, Call("set", <<P(TRUE, <<C("asm")>>), P(TRUE, <<C("src")>>)>>)>>)>>) :
                    m \in {x \in Mids : x.fn \in {"del", "delall", "set", "setall"}}}

\* ------------------------------------------------------------------ arity 3+: a special value in each position of the variadic functions
Var3Plans == {Call(f, t) : f \in {x \in Fns : Canon(x) \in {"and", "or", "list", "equal", "neq", "asm", "sum"} /\ Canon(x) = x},
                           t \in UNION {{<<s, r, r>>, <<r, s, r>>, <<r, r, s>>, <<r, s, r, r>>} : s \in Special \cup {Bool(FALSE)}, r \in {Bool(TRUE), IntV(3)}}}

\* ------------------------------------------------------------------ integers beyond 2^53 (distinct integers that round to the same
\* float64): literal and read from $.src, pairwise, alone and inside lists / maps, for equality and for the order functions
BigAtoms == BigInts \cup {IntV(3), P(FALSE, <<C("src"), C("big")>>), P(FALSE, <<C("src"), C("big2")>>), P(FALSE, <<C("src"), C("ids"), N(0)>>)}
BigConts == {Arr(<<B53>>), Arr(<<B53p1>>), Obj([id |-> B53p1]), Obj([id |-> B53]), Arr(<<IntV(1), Obj([id |-> MaxI])>>), Arr(<<IntV(1), Obj([id |-> MaxIm1])>>),
             P(FALSE, <<C("src"), C("ids")>>), Arr(<<B62p1, B62>>), Arr(<<B62, B62>>), P(FALSE, <<C("src"), C("rec")>>), Obj([id |-> MaxI]), Flt(3, 1), Flt(2, 0)}
BigPlans == {Call(f, <<a, b>>) : f \in {x \in Fns : (Big /\ Canon(x) \in {"equal", "neq", "lt", "lte", "gt", "gte"}) \/ x \in {"equal", "neq", "lt", "gte"}}, a \in BigAtoms, b \in BigAtoms}
            \cup {Call(f, <<a, b>>) : f \in {x \in Fns : (Big /\ Canon(x) \in {"equal", "neq"}) \/ x = "equal"}, a \in BigConts \cup {B53, B53p1, MaxI}, b \in BigConts \cup {B53, B53p1, MaxI}}
            \cup {Call(f, <<a, b, d>>) : f \in {"equal", "neq", "lt", "gte"}, a \in {B53, B53p1}, b \in {B53, B53p1, MaxI}, d \in {B53, B53p1, IntV(3)}}
            \cup {Call(f, <<a>>) : f \in Fns, a \in {B53p1, MinI}} \cup {Call(f, <<a, b>>) : f \in {"sum", "dif", "product", "quotient", "mod", "nth", "list", "size"}, a \in {B53p1, IntV(3)}, b \in {MaxI, IntV(2)}}

\* ------------------------------------------------------------------ the implied asm: "the first asm is optional" - a plan whose first
\* element is not a function name (a path string, a plain string, a number, a map, a list, null, true) is the asm of ALL
\* its elements; emitted bare (without the name) and with it: both must behave as Exec says (law plan == [asm plan...])
ImpliedFirsts == {P(FALSE, <<C("src"), C("b")>>), P(TRUE, <<C("src"), C("c")>>), Str(<<97, 98>>), Str(<<>>), IntV(5), Flt(3, 1), Obj([keep |-> IntV(7)]), Obj(<<>>),
                  Arr(<<IntV(3), IntV(1), IntV(2)>>), Arr(<<>>), Null, Bool(TRUE), Bool(FALSE), B53p1}
ImpliedRests == {<<>>, <<Call("set", <<P(FALSE, <<C("asm")>>), P(TRUE, <<>>)>>)>>, <<Call("set", <<P(FALSE, <<C("asm"), C("r")>>), Call("size", <<P(TRUE, <<>>)>>)>>)>>,
                 <<Call("set", <<P(FALSE, <<C("asm"), C("k")>>), P(TRUE, <<C("keep")>>)>>)>>, <<Call("set", <<P(FALSE, <<C("asm")>>), Call("list", <<P(TRUE, <<>>), IntV(1)>>)>>)>>,
                 <<IntV(9), Call("set", <<P(FALSE, <<C("asm")>>), P(TRUE, <<>>)>>)>>, <<Call("set", <<P(FALSE, <<C("asm"), C("a")>>), P(TRUE, <<>>)>>), Call("set", <<P(FALSE, <<C("asm"), C("b")>>), IntV(2)>>)>>,
                 <<Call("set", <<P(FALSE, <<C("asm")>>), Call("null?", <<P(TRUE, <<>>)>>)>>)>>}
ImpliedPlans == {Call("asm", <<x>> \o r) : x \in ImpliedFirsts, r \in ImpliedRests}

\* ------------------------------------------------------------------ argument routing: $ paths read the root, @ paths the local value.
\* The table (function x argument position x root of the path) is generated for contexts where @ is NOT the root and the
\* same path resolves to DIFFERENT values under $ and @: behind a literal step of an asm ([asm LOCAL call consumer]) and in
\* an each body over maps that mirror $.src; plus the special forms (cond test and value, each list / key, asm steps, get
\* with data, sort key, nested combinations)
Local == Obj([src |-> Obj([a |-> IntV(100), b |-> Arr(<<IntV(9), IntV(8)>>), s |-> Str(<<122, 122>>), t |-> Bool(FALSE), c |-> Obj([d |-> S1(113)]),
                           l |-> Arr(<<Obj([k |-> IntV(5)]), Obj([k |-> IntV(4)])>>), kn |-> S1(122), sel |-> S1(98), zi |-> IntV(1)])])
RP(at, x) == P(at, <<C("src"), C(x)>>)
RouteNames == {"a", "b", "t"}
Fill == IntV(2)
RouteArgs(at) == {<<RP(at, x)>> : x \in RouteNames \cup {"s"}}
                 \cup {<<RP(at, x), Fill>> : x \in RouteNames} \cup {<<Fill, RP(at, x)>> : x \in RouteNames}
                 \cup {<<RP(at, x), Fill, Fill>> : x \in RouteNames} \cup {<<Fill, RP(at, x), Fill>> : x \in RouteNames} \cup {<<Fill, Fill, RP(at, x)>> : x \in RouteNames}
StoreAt == Call("set", <<P(FALSE, <<C("asm"), C("r")>>), P(TRUE, <<>>)>>)
Behind(mid) == Call("asm", <<Local, mid, StoreAt>>)
EachMaps == Arr(<<Obj([t |-> Bool(FALSE), a |-> IntV(10), b |-> Arr(<<IntV(9)>>)]), Obj([t |-> Bool(FALSE), a |-> IntV(20), b |-> Arr(<<IntV(7), IntV(6)>>)])>>)
InEach(mid) == Call("each", <<EachMaps, Call("set", <<P(TRUE, <<C("asm")>>), mid>>)>>)
Variadic == {x \in Fns : Canon(x) \in {"sum", "product", "lt", "gte", "equal", "neq", "and", "or", "list", "asm", "cond", "each", "string", "substr", "replace", "join"} /\ Canon(x) = x}
Variadic0 == Variadic
\* an each body over maps: @ = {src: {t, a, b}}, so @.src.<name> and $.src.<name> differ
InEachSrc(mid) == Call("each", <<Arr(<<Obj([a |-> IntV(10), sel |-> S1(98)]), Obj([a |-> IntV(20), sel |-> S1(97)])>>), Call("set", <<P(TRUE, <<C("asm")>>), mid>>)>>)
RouteTable == UNION {{Behind(Call(f, t)) : f \in Fns, t \in {a \in RouteArgs(at) : Len(a) <= 2}}
                     \cup {Behind(Call(f, t)) : f \in (IF Big THEN Fns ELSE Variadic), t \in {a \in RouteArgs(at) : Len(a) = 3}}
                     \cup {InEach(Call(f, t)) : f \in {x \in Fns : Canon(x) \in Specified /\ Canon(x) = x},
                                                  t \in {<<RP(at, x)>> : x \in RouteNames} \cup {<<RP(at, x), Fill>> : x \in RouteNames}
                                                         \cup (IF Big THEN {<<Fill, RP(at, x)>> : x \in RouteNames} ELSE {})}
                     : at \in BOOLEAN}
\* typed pairs: a list (or map / string) first, then an index / value path of either root
TypedPairs == UNION {{Behind(Call(f, <<RP(a1, x), RP(a2, y)>>)) : f \in {q \in Fns : Canon(q) \in Specified /\ Canon(q) = q} \cup {"include", "join", "split", "substr", "string", "trim"},
                                                                x \in {"b", "c", "s"}, y \in {"zi", "a"}} : a1 \in BOOLEAN, a2 \in BOOLEAN}
\* special forms
CondForms(at) == {Call("cond", <<Pair(RP(at, "t"), IntV(1)), Pair(Bool(TRUE), IntV(2))>>), Call("cond", <<Pair(Bool(TRUE), RP(at, "a"))>>),
                  Call("cond", <<Pair(Bool(FALSE), IntV(0)), Pair(RP(at, "t"), RP(at, "a")), Pair(Bool(TRUE), RP(~at, "a"))>>),
                  Call("cond", <<Pair(Call("equal", <<RP(at, "a"), IntV(1)>>), RP(at, "s")), Pair(Bool(TRUE), RP(at, "b"))>>),
                  Call("cond", <<Pair(Call("not", <<RP(at, "t")>>), Call("list", <<RP(at, "a"), RP(~at, "a")>>))>>)}
RouteForms == UNION {{Behind(x) : x \in CondForms(at)} \cup {InEach(x) : x \in CondForms(at)}
                     \cup {Behind(Call("each", <<RP(at, "b"), Call("set", <<P(TRUE, <<C("asm")>>), Call("sum", <<P(TRUE, <<C("src")>>), IntV(1)>>)>>)>>)),
                           Behind(Call("each", <<RP(at, "b"), Call("set", <<P(TRUE, <<C("asm")>>), Call("sum", <<P(TRUE, <<C("src")>>), P(FALSE, <<C("src"), C("a")>>)>>)>>)>>)),
                           Behind(Call("each", <<RP(at, "l"), Call("set", <<P(TRUE, <<C("asm")>>), P(TRUE, <<C("src"), C("k")>>)>>)>>)),
                           Behind(Call("each", <<Arr(<<IntV(1), IntV(2)>>), Call("asm", <<Call("set", <<P(TRUE, <<C("asm")>>), IntV(1)>>), Call("set", <<P(TRUE, <<C("z")>>), IntV(2)>>)>>), RP(at, "kn")>>)),
                           Behind(Call("asm", <<RP(at, "a")>>)), Call("asm", <<Local, RP(at, "a"), StoreAt>>), Call("asm", <<Local, Call("asm", <<RP(at, "c"), P(TRUE, <<C("d")>>)>>), StoreAt>>),
                           Behind(Call("get", <<P(at, <<C("a")>>), RP(~at, "c")>>)), Behind(Call("get", <<P(~at, <<C("d")>>), RP(at, "c")>>)), Behind(Call("getall", <<P(at, <<C("d")>>), RP(at, "c")>>)),
                           Behind(Call("sort", <<RP(at, "l"), P(~at, <<C("k")>>)>>)), Behind(Call("sort", <<RP(at, "l"), P(at, <<C("k")>>)>>)),
                           Behind(Call("set", <<P(FALSE, <<C("asm"), C("x")>>), Call("get", <<RP(at, "a")>>)>>)), Behind(Call("set", <<P(TRUE, <<C("x")>>), RP(at, "a")>>)),
                           Behind(Call("set", <<Call("root", <<Str(<<97, 115, 109>>), RP(at, "sel")>>), IntV(1)>>)), Behind(Call("get", <<Call("at", <<Str(<<115, 114, 99>>), RP(at, "sel")>>)>>)),
                           InEach(Call("each", <<RP(at, "b"), Call("set", <<P(TRUE, <<C("asm")>>), P(TRUE, <<C("src")>>)>>)>>)),
                           Behind(InEach(Call("list", <<RP(at, "a"), P(TRUE, <<C("src"), C("a")>>)>>))),
                           Behind(Call("nth", <<RP(at, "b"), RP(~at, "zi")>>)), Behind(Call("append", <<RP(at, "b"), RP(~at, "a")>>))} : at \in BOOLEAN}

\* ------------------------------------------------------------------ the argument-class CELL TABLE (totality of NewPlan and Execute):
\* function x argument position x argument class.  Classes: the eight value kinds, a nested call, a valid $ / @ path that
\* selects something, the bare roots $ and @, valid paths that select NOTHING, and strings that LOOK like paths (start
\* with $ or @) but are not JSONPaths ("$5.00", "@@", "$[", "$.", "@ x", "@alice": arguments are routed by their first
\* character; a string that does not parse as a path is a plain string - quote's description: "@.x" is a path unless
\* quoted, these are not paths at all).  Every cell carries the obligations of spec/Robust.tla through TraceAsm.Total (the
\* call comes back, with a result or an error value, from NewPlan as well as from Execute), Deterministic, and - where Asm
\* defines the function - the documented result.  The plain kinds x arity 0..2 are the part matrix012.
BadPaths == {Str(<<36, 53, 46, 48, 48>>), Str(<<64, 64>>), Str(<<36, 91>>), Str(<<36, 46>>), Str(<<64, 32, 120>>), Str(<<64, 97, 108, 105, 99, 101>>)}
MissPaths == {P(FALSE, <<C("src"), C("zz")>>), P(TRUE, <<C("zz")>>), P(FALSE, <<C("src"), C("b"), N(9)>>), P(FALSE, <<C("zz"), C("y")>>)}
RootPaths == {P(FALSE, <<>>), P(TRUE, <<>>)}
PlainReps == {Null, Bool(TRUE), IntV(2), Flt(3, 1), Str(<<97, 98>>), Arr(<<IntV(3), IntV(1), IntV(2)>>), Obj([a |-> IntV(1)]), Call("sum", <<IntV(1), IntV(2)>>),
              P(FALSE, <<C("src"), C("b")>>), P(TRUE, <<C("src"), C("a")>>)}
NewClasses == BadPaths \cup MissPaths \cup RootPaths
AllClasses == PlainReps \cup NewClasses
\* the other argument of a two-argument cell: an int, and for the path-like strings also a string and a list (so that a
\* function that checks its first argument before it looks at the second still reaches the cell)
Fillers(x) == IF Big THEN {IntV(2), Str(<<97, 98>>), P(FALSE, <<C("src"), C("b")>>)} ELSE IF x \in BadPaths THEN {IntV(2), P(FALSE, <<C("src"), C("b")>>)} ELSE {IntV(2)}
CellArity1 == {Call(f, <<x>>) : f \in Fns, x \in NewClasses}
NewClasses2 == IF Big THEN NewClasses ELSE BadPaths \cup {P(FALSE, <<C("src"), C("zz")>>), P(TRUE, <<C("zz")>>), P(FALSE, <<>>)}
CellArity2 == UNION {{Call(f, <<x, y>>) : f \in Fns, y \in Fillers(x)} \cup {Call(f, <<y, x>>) : f \in Fns, y \in Fillers(x)} : x \in NewClasses2}
CellArity3 == IF Big THEN UNION {{Call(f, <<x, IntV(2), IntV(2)>>), Call(f, <<IntV(2), x, IntV(2)>>), Call(f, <<IntV(2), IntV(2), x>>)} : f \in Fns, x \in NewClasses}
              ELSE UNION {{Call(f, <<IntV(2), IntV(2), x>>), Call(f, <<Str(<<97, 98>>), x, IntV(2)>>)} : f \in Variadic0, x \in BadPaths}
\* special forms: every position that evaluates an argument in its own way (cond clauses are evaluated at Execute time,
\* asm steps become the next @, each takes a list / a body / a key, literals inside lists and maps, at / root build paths
\* from strings, the implied asm) x EVERY class
StoreR == Call("set", <<P(FALSE, <<C("asm"), C("r")>>), P(TRUE, <<>>)>>)
CellForms(x) == {Call("cond", <<Pair(x, IntV(1)), Pair(Bool(TRUE), IntV(2))>>), Call("cond", <<Pair(Bool(FALSE), IntV(1)), Pair(x, IntV(2)), Pair(Bool(TRUE), IntV(3))>>),
                 Call("cond", <<Pair(Bool(TRUE), x)>>), Call("cond", <<Pair(Bool(FALSE), IntV(1)), Pair(Bool(TRUE), x)>>), Call("cond", <<Pair(Bool(TRUE), IntV(1)), Pair(Bool(TRUE), x)>>),
                 Call("cond", <<Pair(Bool(FALSE), x), Pair(Bool(TRUE), IntV(2))>>), Call("cond", <<Pair(x, x)>>), Call("cond", <<Pair(Call("equal", <<x, x>>), x)>>),
                 Call("cond", <<Pair(Call("not", <<Call("null?", <<x>>)>>), Call("list", <<x>>))>>), Call("cond", <<x>>),
                 Call("asm", <<x, StoreR>>), Call("asm", <<Obj([keep |-> IntV(7)]), x, StoreR>>), Call("asm", <<x, x>>),
                 Call("asm", <<Obj([keep |-> IntV(7)]), Call("cond", <<Pair(Bool(TRUE), x)>>), StoreR>>),
                 Call("asm", <<Obj([keep |-> IntV(7)]), Call("cond", <<Pair(x, IntV(1)), Pair(Bool(TRUE), IntV(2))>>), StoreR>>),
                 Call("each", <<Arr(<<IntV(1), IntV(2)>>), Call("set", <<P(TRUE, <<C("asm")>>), Call("cond", <<Pair(Call("equal", <<P(TRUE, <<C("src")>>), IntV(1)>>), x), Pair(Bool(TRUE), P(TRUE, <<C("src")>>))>>)>>)>>),
                 Call("each", <<Arr(<<IntV(1), IntV(2)>>), Call("set", <<P(TRUE, <<C("asm")>>), Call("cond", <<Pair(x, IntV(1)), Pair(Bool(TRUE), P(TRUE, <<C("src")>>))>>)>>)>>),
                 Call("each", <<Arr(<<IntV(1), IntV(2)>>), Call("set", <<P(TRUE, <<C("asm")>>), Call("list", <<x, P(TRUE, <<C("src")>>)>>)>>)>>),
                 Call("each", <<x, Call("set", <<P(TRUE, <<C("asm")>>), IntV(1)>>)>>), Call("each", <<Arr(<<IntV(1)>>), Call("set", <<P(TRUE, <<C("asm")>>), IntV(1)>>), x>>),
                 Call("each", <<Arr(<<IntV(1)>>), x>>), Call("equal", <<x, x, x>>),
                 Call("get", <<Call("at", <<x>>)>>), Call("get", <<Call("root", <<Str(<<115, 114, 99>>), x>>)>>), Call("set", <<Call("root", <<Str(<<97, 115, 109>>), x>>), IntV(1)>>),
                 Call("sort", <<P(FALSE, <<C("src"), C("l")>>), x>>), Call("sort", <<x, P(TRUE, <<C("k")>>)>>), Call("get", <<P(TRUE, <<C("a")>>), x>>), Call("quote", <<x>>)}
\* inside container literals (only values can stand there: a list / map literal is data, its members are not evaluated)
CellLits(x) == {Call("each", <<Arr(<<x, x>>), Call("set", <<P(TRUE, <<C("asm")>>), P(TRUE, <<C("src")>>)>>)>>), Call("list", <<x, Arr(<<x>>), Obj([k |-> x])>>),
                Call("set", <<P(FALSE, <<C("asm"), C("m")>>), Obj([k |-> x, l |-> Arr(<<x>>)])>>), Call("asm", <<Arr(<<x>>), StoreR>>), Call("cond", <<Pair(Bool(TRUE), Arr(<<x, IntV(1)>>))>>)}
CellPlans == UNION {CellLits(x) : x \in {y \in AllClasses : y.t \in ValueTags}} \cup CellArity1 \cup CellArity2 \cup CellArity3 \cup UNION {CellForms(x) : x \in AllClasses}
\* the same cells as TOP-LEVEL plans (NewPlan compiles the top-level function itself) and as the first element of a bare plan
\* (the implied asm: a first element that is not a function name)
CellTop == {Call(f, <<x>>) : f \in Fns, x \in (IF Big THEN BadPaths ELSE {Str(<<36, 53, 46, 48, 48>>), Str(<<64, 64>>), Str(<<36, 91>>)})} \cup UNION {CellForms(x) : x \in NewClasses}
CellBare == {Call("asm", <<x, StoreR>>) : x \in AllClasses} \cup {Call("asm", <<x>>) : x \in AllClasses}

\* ------------------------------------------------------------------ histories: the same plan evaluated after OTHER plans in one process
\* must give the same result as alone (Deterministic over the life of a process: nothing a plan does may be remembered
\* by the package).  The pool: every function in contexts where @ is not $ (behind a local value, in an each body) with a
\* $ and an @ argument, the path builders at / root with the SAME argument lists under both names, top-level twins.  The
\* pipeline makes one history per pool plan: all the other pool plans first, then the plan (so every plan runs after
\* every other one), in a fresh process, and the plan alone in another fresh process.
HistArgs == {<<Str(<<115, 114, 99>>), S1(97)>>, <<Str(<<115, 114, 99>>), RP(TRUE, "sel")>>, <<Str(<<115, 114, 99>>), RP(FALSE, "sel")>>, <<Str(<<115, 114, 99>>)>>,
             <<Str(<<115, 114, 99>>), S1(99), S1(100)>>}
HistBuilders == UNION {{Behind(Call("get", <<Call(f, t)>>)), InEachSrc(Call("get", <<Call(f, t)>>)), Call("get", <<Call(f, t)>>),
                        Behind(Call("set", <<Call(f, <<Str(<<97, 115, 109>>), S1(120)>>), Call("get", <<Call(f, t)>>)>>))} : f \in {"at", "root"}, t \in HistArgs}
HistPool == {Behind(Call(f, t)) : f \in Fns, t \in {<<RP(TRUE, "a")>>, <<RP(FALSE, "b"), RP(TRUE, "zi")>>} \cup (IF Big THEN {<<RP(FALSE, "a")>>, <<RP(TRUE, "s"), Fill>>} ELSE {})}
            \cup {InEach(Call(f, <<RP(at, "a"), P(TRUE, <<C("src"), C("a")>>)>>)) : f \in Fns, at \in (IF Big THEN BOOLEAN ELSE {TRUE})}
            \cup HistBuilders \cup UNION {{Behind(x) : x \in CondForms(at)} : at \in BOOLEAN}

\* ------------------------------------------------------------------ mod: sign combinations, zero, powers of two.  The description does not
\* give the sign rule; whichever it is, it is ONE rule (Asm.ModReadings): two mod calls in one plan are judged together
ModAs == {IntV(-7), IntV(-8), IntV(7), IntV(-1), IntV(0)}
ModBs == {IntV(1), IntV(2), IntV(3), IntV(4), IntV(8), IntV(5), IntV(-4), IntV(-3)}
ModPlans == {Call("mod", <<a, b>>) : a \in ModAs, b \in ModBs \cup {IntV(0)}}
            \cup {Call("list", <<Call("mod", <<a, b>>), Call("mod", <<a, d>>)>>) : a \in {IntV(-7), IntV(-8), IntV(7)}, b \in ModBs, d \in ModBs}
            \cup {Call("list", <<Call("mod", <<a, b>>), Call("mod", <<d, b>>)>>) : a \in ModAs, d \in ModAs, b \in {IntV(2), IntV(3), IntV(4), IntV(-4)}}
            \cup {Call("list", <<Call("mod", <<P(FALSE, <<C("src"), C("a")>>), b>>), Call("mod", <<Call("dif", <<IntV(0), P(FALSE, <<C("src"), C("a")>>)>>), b>>), Call("mod", <<IntV(-7), b>>), Call("mod", <<IntV(-7), IntV(3)>>)>>) : b \in ModBs}

\* ------------------------------------------------------------------ variadic arithmetic over argument-kind SEQUENCES: the cell table
\* (function x kind sequence) for sequences of length 3 and 4 that mix int (also 0), float, string and a non-number in
\* every order (the running total changes its kind on the way: int -> float -> string; a zero factor early or late)
Seq3Atoms == {IntV(1), IntV(0), Flt(5, 1), S1(120), Bool(TRUE)}
Seq4Atoms == {IntV(2), IntV(0), Flt(5, 1), S1(120)}
SeqFns == {f \in Fns : Canon(f) \in {"sum", "dif", "product", "quotient"} /\ Canon(f) = f}
SumKindPlans == {Call(f, t) : f \in SeqFns, t \in Tuples(Seq3Atoms, 3)}
                \cup {Call(f, t) : f \in {x \in SeqFns : x \in {"sum", "product"}}, t \in Tuples(Seq4Atoms, 4)}
                \cup {Call(f, <<P(FALSE, <<C("src"), C("zi")>>), x>>) : f \in SeqFns, x \in {P(FALSE, <<C("src"), C("b")>>), P(FALSE, <<C("src"), C("zz")>>), P(FALSE, <<C("src"), C("f")>>), P(FALSE, <<C("src"), C("s")>>)}}

\* ------------------------------------------------------------------ copies: the result of a function documented to return a copy
\* (reverse, sort) of an array of 0, 1, 2, 3 items that lives under $.src is stored under $.asm and then MODIFIED there by a
\* later step: $.src must not change (the copy is a copy for every length)
CopyLists == {P(FALSE, <<C("src"), C(x)>>) : x \in {"e0", "e1", "e2", "e3"}} \cup {P(FALSE, <<C("src"), C("o"), C(x)>>) : x \in {"e0", "e1"}}
             \cup {Call("get", <<P(FALSE, <<C("src"), C("e1")>>)>>), P(TRUE, <<C("src"), C("e1")>>)}
CopyCalls == {Call("reverse", <<l>>) : l \in CopyLists} \cup {Call("sort", <<l, P(TRUE, <<>>)>>) : l \in CopyLists}
AsmR == P(FALSE, <<C("asm"), C("r")>>)
CopyMods == {Call("set", <<P(FALSE, <<C("asm"), C("r"), N(0)>>), IntV(9)>>), Call("set", <<P(FALSE, <<C("asm"), C("r"), N(-1)>>), S1(122)>>),
             Call("setall", <<P(FALSE, <<C("asm"), C("r"), N(0)>>), IntV(9)>>)}
CopyPlans == {Call("asm", <<Call("set", <<AsmR, x>>), m>>) : x \in CopyCalls, m \in CopyMods}
             \cup {Call("asm", <<Call("set", <<AsmR, x>>), m, Call("set", <<P(FALSE, <<C("asm"), C("s")>>), x>>)>>) : x \in CopyCalls, m \in CopyMods}

\* ------------------------------------------------------------------ families
Both(ps, r) == {Case(Wrapped(p), r, FALSE) : p \in ps} \cup {Case(p, r, FALSE) : p \in ps}
Cases ==
  CASE Part = "matrix012" -> {Case(Wrapped(p), R1, FALSE) : p \in Matrix012}
    [] Part = "matrix012b" -> {Case(p, R1, FALSE) : p \in Matrix012}
    [] Part = "matrix3" -> {Case(Wrapped(p), R1, FALSE) : p \in Matrix3}
    [] Part = "matrix4" -> {Case(Wrapped(p), R1, FALSE) : p \in Matrix4}
    [] Part = "values1" -> {Case(Wrapped(p), R1, FALSE) : p \in Values1}
    [] Part = "values2" -> {Case(Wrapped(p), R1, FALSE) : p \in Values2}
    [] Part = "values3" -> {Case(Wrapped(p), R1, FALSE) : p \in Values3}
    [] Part = "mutate" -> {Case(p, r, FALSE) : p \in Mutating, r \in {R1, R2}} \cup {Case(p, R1, b) : p \in Seq2, b \in BOOLEAN}
    [] Part = "refs" -> {Case(Wrapped(p), R1, FALSE) : p \in RefPlans}
    [] Part = "computed" -> Both(ComputedPlans, R1)
    [] Part = "eqcont" -> {Case(Wrapped(p), R1, FALSE) : p \in EqPlans}
    [] Part = "scratch" -> Both(ScratchPlans, R1)
    [] Part = "nestlit" -> Both(NestPlans, R1)
    [] Part = "arith" -> {Case(Wrapped(p), R1, FALSE) : p \in ArithPlans}
    [] Part = "cmp" -> {Case(Wrapped(p), R1, FALSE) : p \in CmpPlans}
    [] Part = "retval" -> {Case(p, R1, b) : p \in RetPlans, b \in (IF Big THEN BOOLEAN ELSE {FALSE})}
    [] Part = "var3" -> {Case(Wrapped(p), R1, FALSE) : p \in Var3Plans}
    [] Part = "bigint" -> {Case(Wrapped(p), R1, FALSE) : p \in BigPlans}
    [] Part = "implied" -> {Case(p, R1, b) : p \in ImpliedPlans, b \in BOOLEAN}
    [] Part = "route" -> {Case(p, R1, FALSE) : p \in RouteTable \cup RouteForms \cup TypedPairs}
    [] Part = "cells" -> {Case(Wrapped(p), R1, FALSE) : p \in CellPlans} \cup {Case(p, R1, FALSE) : p \in CellTop} \cup {Case(p, R1, b) : p \in CellBare, b \in BOOLEAN}
    [] Part = "hist" -> {Case(p, R1, FALSE) : p \in HistPool}
    [] Part = "sumkinds" -> {Case(Wrapped(p), R1, FALSE) : p \in SumKindPlans}
    [] Part = "copyres" -> {Case(p, R4, b) : p \in CopyPlans, b \in BOOLEAN}
    [] Part = "modsign" -> {Case(Wrapped(p), R1, FALSE) : p \in ModPlans}
    [] Part = "forms" -> Both(CondPlans \cup SortPlans \cup EachPlans, R1) \cup Both(SortPlans, R3)
    [] OTHER -> {}

\* ------------------------------------------------------------------ random nested plans (tlc -simulate)
RECURSIVE Gen(_)
RandAtom(d) == RandomElement(AtomsB \cup Refs \cup PathCalls \cup ContAtoms)      \* (a parameter, so that TLC does not cache one draw)
Gen(d) ==
  IF d = 0 \/ RandomElement(1..4) = 1 THEN RandAtom(d)
  ELSE LET f == RandomElement(Fns)
           g == Canon(f) IN
       CASE g \in {"set", "setall"} -> Call(f, <<RandomElement(MPaths), Gen(d - 1)>>)
         [] g \in {"del", "delall"} -> Call(f, <<RandomElement(MPaths)>>)
         [] g \in {"get", "getall"} -> Call(f, <<RandomElement(MPaths \cup {P(TRUE, <<C("src"), C("c")>>)})>>)
         [] g = "cond" -> Call(f, <<Pair(Gen(d - 1), Gen(d - 1)), Pair(Bool(TRUE), Gen(d - 1))>>)
         [] g = "sort" -> Call(f, <<Gen(d - 1), RandomElement(Keys)>>)
         [] g = "each" -> Call(f, <<Gen(d - 1), Call("set", <<P(TRUE, <<C("asm")>>), Gen(d - 1)>>)>>)
         [] g \in {"not", "map?", "array?", "string?", "num?", "bool?", "null?", "size", "reverse", "quote"} -> Call(f, <<Gen(d - 1)>>)
         [] OTHER -> Call(f, [j \in 1..RandomElement(1..3) |-> Gen(d - 1)])
RandCase == LET g == Gen(3) IN
            Case(IF g.t = "call" /\ RandomElement(1..3) = 1 THEN g ELSE Wrapped(g), RandomElement({R1, R2, R3}), FALSE)

VARIABLE c
Idle == root = Null /\ last = Null /\ steps = 0      \* the design-check machine of Asm is not used here
GInit == Idle /\ (IF Part = "random" THEN c = RandCase ELSE c \in Cases)
GNext == UNCHANGED vars /\ (IF Part = "random" THEN c' = RandCase ELSE UNCHANGED c)
Emit == PrintT(<<"PL", ToJson(c)>>)
RootName(r) == CASE r = R1 -> "R1" [] r = R2 -> "R2" [] r = R3 -> "R3" [] r = R4 -> "R4" [] OTHER -> "?"
EmitShort == PrintT(<<"PL", ToJson([plan |-> c.plan, root |-> RootName(c.root), bare |-> c.bare])>>)
Roots == [R1 |-> R1, R2 |-> R2, R3 |-> R3, R1b |-> R1b, R2b |-> R2b, R3b |-> R3b, R4 |-> R4, R4b |-> R4b]
ASSUME PrintT(<<"ROOTS", ToJson(Roots)>>)

\* ------------------------------------------------------------------ design check of Asm over the generated universe
MCPlans == {x.plan : x \in Cases}
MC2Plans == {p \in Mutating : p.a[1] \in {P(FALSE, <<C("asm"), C("x")>>), P(FALSE, <<C("src"), C("a")>>), P(FALSE, <<C("asm")>>),
                                          P(FALSE, <<C("src"), C("b"), N(1)>>), P(TRUE, <<C("asm"), C("x")>>)}
                             /\ (Len(p.a) = 1 \/ p.a[2] \in {IntV(7), Obj([z |-> IntV(1)]), P(FALSE, <<C("src"), C("c")>>)})}
            \cup {Wrapped(Call("sum", <<P(FALSE, <<C("src"), C("a")>>), IntV(1)>>)), Wrapped(Call("get", <<P(FALSE, <<C("asm"), C("x")>>)>>)),
                  Wrapped(Call("size", <<P(FALSE, <<C("src")>>)>>))}
MCInit == Init /\ c = Null
MCNext == Next /\ UNCHANGED c
=============================================================================
