SPECIFICATION Spec
INVARIANTS OrderIrrelevant
CHECK_DEADLOCK FALSE
