--------------------------- MODULE TraceStreamMatch ---------------------------
(* Trace validation for C17: the callbacks the real streaming matchers made, compared with *)
(* StreamMatch!Expected (the statement).                                                   *)
(* trace.ndjson: {doc, targets: [path AST...], o: [{as: [api@chunk...], err, calls: [{loc, val, normal}]}]} *)
EXTENDS StreamMatchMC, Json
CONSTANT MaxBad
Trace == ndJsonDeserialize("trace.ndjson")
NCases == Len(Trace)
VARIABLE c
tvars == <<doc, targets, evs, ctx, col, colLoc, calls, c>>
TraceInit == /\ doc = Null /\ targets = <<>> /\ evs = <<>> /\ ctx = <<>> /\ col = <<>> /\ colLoc = <<>> /\ calls = <<>> /\ c = 1
             /\ TLCSet(1, <<>>) /\ TLCSet(2, 0) /\ TLCSet(3, 0)
Want(k) == Expected(Trace[k].targets, Trace[k].doc)
Plain(cs) == [i \in 1..Len(cs) |-> [loc |-> cs[i].loc, val |-> cs[i].val]]
\* how the observed call sequence differs from the expected one (names the locus)
SetOf(s) == {s[i] : i \in 1..Len(s)}
What(got, want) == IF SetOf(got) = SetOf(want) /\ Len(got) = Len(want) THEN "order"
                   ELSE IF SetOf(got) = SetOf(want) THEN "repeated"
                   ELSE IF SetOf(got) \subseteq SetOf(want) THEN "missing"
                   ELSE IF SetOf(want) \subseteq SetOf(got) THEN "extra"
                   ELSE IF {x.loc : x \in SetOf(got)} = {x.loc : x \in SetOf(want)} THEN "value" ELSE "other"
Judge(k) ==
  LET want == Want(k)
      bad == SelectSeq(Trace[k].o, LAMBDA g : g.err \/ (\E i \in 1..Len(g.calls) : ~g.calls[i].normal) \/ Plain(g.calls) # want)
  IN [j \in 1..Len(bad) |-> [i |-> k, as |-> bad[j].as,
                             kind |-> IF bad[j].err THEN "error" ELSE IF \E i \in 1..Len(bad[j].calls) : ~bad[j].calls[i].normal THEN "path-not-normal" ELSE "wrong-calls",
                             what |-> IF bad[j].err THEN "error" ELSE What(Plain(bad[j].calls), want),
                             nwant |-> Len(want), ngot |-> Len(bad[j].calls)]]
CheckCase == /\ c <= NCases /\ c' = c + 1 /\ UNCHANGED <<doc, targets, evs, ctx, col, colLoc, calls>>
             /\ LET j == Judge(c) IN
                /\ (IF j = <<>> \/ Len(TLCGet(1)) >= MaxBad THEN TRUE ELSE TLCSet(1, TLCGet(1) \o j))
                /\ (IF j = <<>> THEN TRUE ELSE TLCSet(3, TLCGet(3) + Len(j)))
             /\ TLCSet(2, c)
TraceSpec == TraceInit /\ [][CheckCase]_tvars
Post == JsonSerialize("out.json", [n |-> TLCGet(2), bad |-> TLCGet(1), nbad |-> TLCGet(3), hits |-> [x \in {} |-> 0]])
=============================================================================
