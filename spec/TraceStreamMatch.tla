--------------------------- MODULE TraceStreamMatch ---------------------------
(* Trace validation for C17: the callbacks the real streaming matchers made, compared with *)
(* StreamMatch!Expected (the statement).                                                   *)
(* trace.ndjson: {doc, targets: [path AST...], o: [{as: [api@chunk...], err, calls: [{loc, val, normal}]}]} *)
EXTENDS StreamMatchMC, Json
CONSTANT MaxBad
Trace == ndJsonDeserialize("trace.ndjson")
NCases == Len(Trace)
VARIABLE c
tvars == <<doc, targets, evs, ctx, col, colLoc, calls, c>>
TraceInit == /\ doc = Null /\ targets = <<>> /\ evs = <<>> /\ ctx = <<>> /\ col = <<>> /\ colLoc = <<>> /\ calls = <<>> /\ c = 1
             /\ TLCSet(1, <<>>) /\ TLCSet(2, 0) /\ TLCSet(3, 0)
Want(k) == Expected(Trace[k].targets, Trace[k].doc)
Plain(cs) == [i \in 1..Len(cs) |-> [loc |-> cs[i].loc, val |-> cs[i].val]]
\* how the observed call sequence differs from the expected one (names the locus)
SetOf(s) == {s[i] : i \in 1..Len(s)}
What(got, want) == IF SetOf(got) = SetOf(want) /\ Len(got) = Len(want) THEN "order"
                   ELSE IF SetOf(got) = SetOf(want) THEN "repeated"
                   ELSE IF SetOf(got) \subseteq SetOf(want) THEN "missing"
                   ELSE IF SetOf(want) \subseteq SetOf(got) THEN "extra"
                   ELSE IF {x.loc : x \in SetOf(got)} = {x.loc : x \in SetOf(want)} THEN "value" ELSE "other"
\* ---------------------------------------------------------------- the as-implemented reading (names known findings only)
\* jp.MatchHandler as it is written (jp/matchhandler.go, jp/match.go): a target is split at its first filter into Target and
\* Rest; PathMatch lets a Slice match ANY index and compares an Nth literally (a negative index never matches); a container
\* matched by the Target part of any target is collected (everything inside it is suppressed); at its end the FIRST
\* matching target decides: no Rest -> one call with the container; Rest -> Locate(v, 1) + First(v): at most ONE call whose
\* location and value are those of SOME match of Rest inside the container; a leaf is reported iff a target WITHOUT Rest
\* matches it.  A recorded call sequence that deviates from Expected but EQUALS this reading is the known defect family
\* (slice, negative index, trailing filter); anything else is a new violation.
FirstFilter(p) == IF \E i \in 1..Len(p) : p[i].f = "filter" THEN CHOOSE i \in 1..Len(p) : p[i].f = "filter" /\ \A j \in 1..(i - 1) : p[j].f # "filter" ELSE 0
TargetPart(p) == IF FirstFilter(p) = 0 THEN p ELSE SubSeq(p, 1, FirstFilter(p) - 1)
RestPart(p) == IF FirstFilter(p) = 0 THEN <<>> ELSE SubSeq(p, FirstFilter(p), Len(p))
StepMatchImpl(f, st) ==
  CASE f.f = "child" -> IsK(st) /\ st.k = f.key
    [] f.f = "nth" -> ~IsK(st) /\ st.i = f.i
    [] f.f = "wild" -> TRUE
    [] f.f = "union" -> \E j \in 1..Len(f.items) : f.items[j] = st
    [] f.f = "slice" -> ~IsK(st)
    [] OTHER -> FALSE
RECURSIVE LocMatchImpl(_, _)
LocMatchImpl(p, l) ==
  IF p = <<>> THEN TRUE          \* PathMatch returns true once the target is used up: a PREFIX match (longer paths lie inside a collected container anyway)
  ELSE IF Head(p).f = "root" THEN LocMatchImpl(Tail(p), l)
  ELSE IF Head(p).f = "desc" THEN \E k \in 0..(Len(l) - 1) : LocMatchImpl(Tail(p), SubSeq(l, k + 1, Len(l)))   \* only non-empty suffixes are tried
  ELSE l # <<>> /\ StepMatchImpl(Head(p), Head(l)) /\ LocMatchImpl(Tail(p), Tail(l))
ImplOK(tg, d, got) ==
  LET all == DocOrder(d)
      hit(l) == \E t \in 1..Len(tg) : LocMatchImpl(TargetPart(tg[t]), l)
      coll(l) == IsCont(At(d, l)) /\ hit(l)
      inside(l) == \E q \in 1..Len(all) : coll(all[q]) /\ IsProperPrefix(all[q], l)
      leafhit(l) == ~IsCont(At(d, l)) /\ \E t \in 1..Len(tg) : RestPart(tg[t]) = <<>> /\ LocMatchImpl(tg[t], l)
      first(l) == CHOOSE t \in 1..Len(tg) : LocMatchImpl(TargetPart(tg[t]), l) /\ \A u \in 1..(t - 1) : ~LocMatchImpl(TargetPart(tg[u]), l)
      inner(l) == LocsR(<<[f |-> "at"]>> \o RestPart(tg[first(l)]), At(d, l), <<>>, <<>>, At(d, l))
      ncalls(l) == IF ~coll(l) THEN 1 ELSE IF RestPart(tg[first(l)]) = <<>> THEN 1 ELSE IF inner(l) = <<>> THEN 0 ELSE 1
      sites == SelectSeq(all, LAMBDA l : ~inside(l) /\ (coll(l) \/ leafhit(l)) /\ ncalls(l) = 1)
  IN /\ Len(got) = Len(sites)
     /\ \A i \in 1..Len(sites) :
          LET l == sites[i] IN
          IF ~coll(l) \/ RestPart(tg[first(l)]) = <<>> THEN got[i] = [loc |-> l, val |-> At(d, l)]
          ELSE LET m == inner(l) IN
               /\ \E j \in 1..Len(m) : got[i].loc = l \o m[j].loc
               /\ \E j \in 1..Len(m) : got[i].val = m[j].val
Judge(k) ==
  LET want == Want(k)
      bad == SelectSeq(Trace[k].o, LAMBDA g : g.err \/ (\E i \in 1..Len(g.calls) : ~g.calls[i].normal) \/ Plain(g.calls) # want)
  IN [j \in 1..Len(bad) |-> [i |-> k, as |-> bad[j].as,
                             kind |-> IF bad[j].err THEN "error" ELSE IF \E i \in 1..Len(bad[j].calls) : ~bad[j].calls[i].normal THEN "path-not-normal" ELSE "wrong-calls",
                             what |-> IF bad[j].err THEN "error"
                                      ELSE IF (\A i \in 1..Len(bad[j].calls) : bad[j].calls[i].normal) /\ ImplOK(Trace[k].targets, Trace[k].doc, Plain(bad[j].calls)) THEN "as-implemented"
                                      ELSE What(Plain(bad[j].calls), want),
                             nwant |-> Len(want), ngot |-> Len(bad[j].calls)]]
CheckCase == /\ c <= NCases /\ c' = c + 1 /\ UNCHANGED <<doc, targets, evs, ctx, col, colLoc, calls>>
             /\ LET j == Judge(c) IN
                /\ (IF j = <<>> \/ Len(TLCGet(1)) >= MaxBad THEN TRUE ELSE TLCSet(1, TLCGet(1) \o j))
                /\ (IF j = <<>> THEN TRUE ELSE TLCSet(3, TLCGet(3) + Len(j)))
             /\ TLCSet(2, c)
TraceSpec == TraceInit /\ [][CheckCase]_tvars
Post == JsonSerialize("out.json", [n |-> TLCGet(2), bad |-> TLCGet(1), nbad |-> TLCGet(3), hits |-> [x \in {} |-> 0]])
=============================================================================
