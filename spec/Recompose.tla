--------------------------- MODULE Recompose ---------------------------
(* C16: the recomposer registry and the outcome of recomposing into a target type.               *)
(* State: reg, the registry of one alt.Recomposer: a map from NAME to type id ("none" = absent),  *)
(* filled lazily.  As implemented (alt/recomposer.go) a type is entered under two keys, its short *)
(* name rt.Name() and pkgpath/name, the struct branch of recomp and the field walk of             *)
(* registerComposer look types up by SHORT name, and anonymous struct types all have the names    *)
(* "" and "/".  KeyedBy = "short" models that; KeyedBy = "full" models a registry that looks up   *)
(* by pkgpath/name and does not cache anonymous types.                                            *)
(* Action Present(t): recompose a value into type t: look t up, register it lazily together with  *)
(* the struct types its fields reach, then do the same for every struct type reached.  The        *)
(* outcome of one call is "own" when every type involved was recomposed with its own field index, *)
(* otherwise <<target, used>> names the first type that got another type's index.                 *)
(* HistoryFree: the outcome of Present(t) is a function of t only (always "own").                 *)
EXTENDS Integers, Sequences, FiniteSets, TLC
CONSTANTS KeyedBy, MaxHist, GraphLen, IndexMemo
(* Type GRAPHS (follow-up, round 6).  Besides the name family (same short name in two packages, anonymous types, types    *)
(* nested in other targets) the menu holds a graph family: struct types that embed pointers to EACH OTHER (GA/GB, the      *)
(* three-cycle HA/HB/HC, the anonymous Anon4 that embeds *GA), mutually recursive member types (MA has []*MB, MB has       *)
(* map[string]*MA), a type that is an embedded part of other targets and a target of its own (A.EI in EO by value, in EP by   *)
(* pointer), a same-named type of another package embedded (EQ embeds B.EI), an anonymous struct with an anonymous member   *)
(* (Anon3 holds an Anon1).  The member index of a type (the set of members a composer offers: own members plus the          *)
(* members promoted through embedded structs, cut where an embedding cycle closes) is a function of the type alone:         *)
(* Members(t, {}).  IndexMemo = "bytype" models an implementation that keeps indexes in a table keyed by type and fills it  *)
(* from nested walks as well (where the cycle cut depends on the context): the design check shows that HistoryFree rejects  *)
(* it (prediction); IndexMemo = "none" is the specification.                                                                *)
(* Histories: every sequence over the name family up to MaxHist; over the graph family every sequence up to GraphLen and,   *)
(* inside one group of related types, up to GraphLen + 1: every set of targets is presented in every order.                 *)

NameTypes == {"A.T", "B.T", "Anon1", "Anon2", "A.U", "A.V", "A.V1", "A.W"}
GraphGroups == {{"GA", "GB", "Anon4"}, {"HA", "HB", "HC"}, {"MA", "MB"}, {"EO", "EP", "A.EI", "EQ", "B.EI"}, {"Anon1", "Anon2", "Anon3"}}
GraphTypes == UNION GraphGroups
Types == NameTypes \cup GraphTypes
AnonTypes == {"Anon1", "Anon2", "Anon3", "Anon4"}
Short(t) == CASE t \in {"A.T", "B.T"} -> "T" [] t \in AnonTypes -> "" [] t = "A.U" -> "U" [] t = "A.V" -> "V"
              [] t = "A.V1" -> "V1" [] t = "A.W" -> "W" [] t \in {"A.EI", "B.EI"} -> "EI" [] OTHER -> t
Full(t) == IF t \in AnonTypes THEN "/" ELSE t
\* struct types reached through the member fields of t (element types of slices, arrays, maps and pointers)
Reach(t) == CASE t = "A.U" -> <<"A.T">> [] t = "A.V" -> <<"B.T">> [] t = "A.V1" -> <<"A.T">>
              [] t = "MA" -> <<"MB">> [] t = "MB" -> <<"MA">> [] t = "Anon3" -> <<"Anon1">> [] OTHER -> <<>>
\* struct types embedded in t (by value or by pointer)
Emb(t) == CASE t = "GA" -> <<"GB">> [] t = "GB" -> <<"GA">> [] t = "HA" -> <<"HB">> [] t = "HB" -> <<"HC">> [] t = "HC" -> <<"HA">>
            [] t = "EO" -> <<"A.EI">> [] t = "EP" -> <<"A.EI">> [] t = "EQ" -> <<"B.EI">> [] t = "Anon4" -> <<"GA">> [] OTHER -> <<>>
\* the members t declares itself
Own(t) == CASE t = "A.T" -> {"X", "Name"} [] t = "B.T" -> {"Y", "Flag"} [] t = "Anon1" -> {"P", "Q"} [] t = "Anon2" -> {"R", "S"}
            [] t = "A.U" -> {"Ts", "N"} [] t \in {"A.V", "A.V1"} -> {"P", "N"} [] t = "A.W" -> {"I", "N"}
            [] t = "GA" -> {"A1", "A2"} [] t = "GB" -> {"B1", "B2"} [] t = "HA" -> {"Ha"} [] t = "HB" -> {"Hb"} [] t = "HC" -> {"Hc"}
            [] t = "MA" -> {"Bs", "N"} [] t = "MB" -> {"As", "S"} [] t = "EO" -> {"O"} [] t = "EP" -> {"P"} [] t = "A.EI" -> {"I1", "I2"}
            [] t = "B.EI" -> {"J1", "J2"} [] t = "EQ" -> {"Q"} [] t = "Anon3" -> {"In", "Z"} [] t = "Anon4" -> {"K"}
\* the type name the create key of an interface-typed field carries in decomposed data (A.W holds an A.T)
CreateRef(t) == IF t = "A.W" THEN <<"A.T">> ELSE <<>>
Names == {"T", "", "U", "V", "V1", "W", "/", "EI"} \cup Types
Cached(t) == KeyedBy = "short" \/ t \notin AnonTypes
LookupKey(t) == IF KeyedBy = "short" THEN Short(t) ELSE Full(t)

\* ---- the member index.  Specification: own members and the members of the embedded types, an embedded type that is t
\* itself or one of the types being walked (the embedding context) offers nothing further.
RECURSIVE Members(_, _), MembersEmb(_, _, _, _)
Members(t, embedding) == Own(t) \cup MembersEmb(t, embedding, Emb(t), 1)
MembersEmb(t, embedding, es, i) == IF i > Len(es) THEN {}
                                   ELSE (IF es[i] = t \/ es[i] \in embedding THEN {} ELSE Members(es[i], embedding \cup {t}))
                                        \cup MembersEmb(t, embedding, es, i + 1)
\* the same walk over a table m (type -> <<>> or <<index>>) that is consulted first and filled on return when IndexMemo = "bytype"
EmptyMemo == [t \in Types |-> <<>>]
RECURSIVE IndexM(_, _, _), IndexEmb(_, _, _, _, _)
IndexM(m, t, embedding) == IF IndexMemo = "bytype" /\ m[t] # <<>> THEN [m |-> m, ix |-> m[t][1]]
                           ELSE LET x == IndexEmb([m |-> m, ix |-> Own(t)], t, embedding, Emb(t), 1) IN
                                [m |-> IF IndexMemo = "bytype" THEN [x.m EXCEPT ![t] = <<x.ix>>] ELSE x.m, ix |-> x.ix]
IndexEmb(acc, t, embedding, es, i) ==
    IF i > Len(es) THEN acc
    ELSE IF es[i] = t \/ es[i] \in embedding THEN IndexEmb(acc, t, embedding, es, i + 1)
    ELSE LET x == IndexM(acc.m, es[i], embedding \cup {t}) IN IndexEmb([m |-> x.m, ix |-> acc.ix \cup x.ix], t, embedding, es, i + 1)
IndexStep(s, t) == [s EXCEPT !.m = IndexM(s.m, t, {}).m]

\* a registry state s = [r |-> names -> type id, m |-> index table]
RECURSIVE Register(_, _), RegisterAll(_, _, _)
\* registerComposer: by full name; enters short and full; builds the index; walks ALL fields (members and embedded parts),
\* skipping those whose lookup key is present
Register(s, t) == IF ~Cached(t) THEN RegisterAll(IndexStep(s, t), Reach(t) \o Emb(t), 1)
                  ELSE IF s.r[Full(t)] # "none" THEN s
                  ELSE RegisterAll(IndexStep([s EXCEPT !.r = [s.r EXCEPT ![Short(t)] = t, ![Full(t)] = t]], t), Reach(t) \o Emb(t), 1)
RegisterAll(s, ts, i) == IF i > Len(ts) THEN s
                         ELSE RegisterAll(IF Cached(ts[i]) /\ s.r[LookupKey(ts[i])] # "none" THEN s ELSE Register(s, ts[i]), ts, i + 1)

\* recomp into t: returns [s |-> registry state afterwards, bad |-> <<>> or <<target, used>> or <<"index", type>>]
\* (seen: the walk over member TYPES ends where a type recurs; the code walks the finite value)
RECURSIVE Recomp(_, _, _), RecompAll(_, _, _, _)
Recomp(s, t, seen) ==
                LET c == IF Cached(t) THEN s.r[LookupKey(t)] ELSE "none"
                    s1 == IF c = "none" THEN Register(s, t) ELSE s
                    used == IF c = "none" THEN t ELSE c
                    ixUsed == IF IndexMemo = "bytype" /\ s1.m[used] # <<>> THEN s1.m[used][1] ELSE Members(used, {})
                    sub == IF t \in seen THEN [s |-> s1, bad |-> <<>>] ELSE RecompAll(s1, Reach(t), 1, seen \cup {t})
                    \* create-key lookup (always by the name found in the data, i.e. the short name): an unregistered
                    \* name leaves a map, a registered one builds that type
                    ck == IF CreateRef(t) = <<>> THEN <<>>
                          ELSE LET want == CreateRef(t)[1]  got == sub.s.r[Short(want)] IN
                               IF got = "none" THEN <<>> ELSE <<"createkey", got>>
                IN IF used # t THEN [s |-> s1, bad |-> <<t, used>>]
                   ELSE IF ixUsed # Members(t, {}) THEN [s |-> s1, bad |-> <<"index", t>>]
                   ELSE IF sub.bad # <<>> THEN sub ELSE [s |-> sub.s, bad |-> ck]
RecompAll(s, ts, i, seen) == IF i > Len(ts) THEN [s |-> s, bad |-> <<>>]
                             ELSE LET x == Recomp(s, ts[i], seen) IN IF x.bad # <<>> THEN x ELSE RecompAll(x.s, ts, i + 1, seen)

EmptyReg == [n \in Names |-> "none"]
EmptyState == [r |-> EmptyReg, m |-> EmptyMemo]
\* histories (prefix closed): over the name family up to MaxHist; over the graph family up to GraphLen, and one longer
\* inside one group of related types
Admissible(h) == \/ Len(h) <= MaxHist /\ \A i \in DOMAIN h : h[i] \in NameTypes
                 \/ /\ \A i \in DOMAIN h : h[i] \in GraphTypes
                    /\ \/ Len(h) <= GraphLen
                       \/ Len(h) <= GraphLen + 1 /\ \E g \in GraphGroups : \A i \in DOMAIN h : h[i] \in g
VARIABLES reg, memo, hist, outs
vars == <<reg, memo, hist, outs>>
Init == reg = EmptyReg /\ memo = EmptyMemo /\ hist = <<>> /\ outs = <<>>
Present(t) == /\ Admissible(Append(hist, t))
              /\ LET x == Recomp([r |-> reg, m |-> memo], t, {}) IN
                 /\ reg' = x.s.r /\ memo' = x.s.m /\ hist' = Append(hist, t) /\ outs' = Append(outs, x.bad)
Next == \E t \in Types : Present(t)
Spec == Init /\ [][Next]_vars

\* what a fresh recomposer (in a fresh process: nothing indexed yet) does with t
Fresh(t) == Recomp(EmptyState, t, {}).bad
HistoryFree == \A i \in 1..Len(outs) : outs[i] = Fresh(hist[i])
\* ... for the targets without a create-key reference (a create key names a type by its short name by design)
HistoryFreeStruct == \A i \in 1..Len(outs) : hist[i] # "A.W" => outs[i] = Fresh(hist[i])
FreshIsOwn == \A t \in Types : Fresh(t) = <<>>
FreshIsOwnNames == \A t \in NameTypes : Fresh(t) = <<>>     \* (keyed by short name an anonymous member of an anonymous struct collides at once)
TypeOK == /\ \A n \in Names : reg[n] \in Types \cup {"none"}
          /\ \A t \in Types : memo[t] = <<>> \/ (Len(memo[t]) = 1 /\ memo[t][1] \subseteq Members(t, {}))
\* the cut of an embedding cycle loses nothing that Go's promotion rule offers: the index of every type of a cycle holds the
\* own members of every type of the cycle
CycleComplete == /\ Members("GA", {}) = {"A1", "A2", "B1", "B2"} /\ Members("GB", {}) = {"A1", "A2", "B1", "B2"}
                 /\ \A t \in {"HA", "HB", "HC"} : Members(t, {}) = {"Ha", "Hb", "Hc"}
                 /\ Members("Anon4", {}) = {"K", "A1", "A2", "B1", "B2"}
\* the registry never forgets: a full name once entered keeps its type
Monotone == [][\A t \in Types : (reg[Full(t)] # "none") => (reg'[Full(t)] = reg[Full(t)])]_vars
=============================================================================
