--------------------------- MODULE Recompose ---------------------------
(* C16: the recomposer registry and the outcome of recomposing into a target type.               *)
(* State: reg, the registry of one alt.Recomposer: a map from NAME to type id ("none" = absent),  *)
(* filled lazily.  As implemented (alt/recomposer.go) a type is entered under two keys, its short *)
(* name rt.Name() and pkgpath/name, the struct branch of recomp and the field walk of             *)
(* registerComposer look types up by SHORT name, and anonymous struct types all have the names    *)
(* "" and "/".  KeyedBy = "short" models that; KeyedBy = "full" models a registry that looks up   *)
(* by pkgpath/name and does not cache anonymous types.                                            *)
(* Action Present(t): recompose a value into type t: look t up, register it lazily together with  *)
(* the struct types its fields reach, then do the same for every struct type reached.  The        *)
(* outcome of one call is "own" when every type involved was recomposed with its own field index, *)
(* otherwise <<target, used>> names the first type that got another type's index.                 *)
(* HistoryFree: the outcome of Present(t) is a function of t only (always "own").                 *)
EXTENDS Integers, Sequences, FiniteSets, TLC
CONSTANTS KeyedBy, MaxHist

Types == {"A.T", "B.T", "Anon1", "Anon2", "A.U", "A.V", "A.V1", "A.W"}
Short(t) == CASE t \in {"A.T", "B.T"} -> "T" [] t \in {"Anon1", "Anon2"} -> "" [] t = "A.U" -> "U" [] t = "A.V" -> "V"
              [] t = "A.V1" -> "V1" [] t = "A.W" -> "W"
Full(t) == IF t \in {"Anon1", "Anon2"} THEN "/" ELSE t
\* struct types reached through the fields of t (element types of slices, arrays, maps and pointers)
Reach(t) == CASE t = "A.U" -> <<"A.T">> [] t = "A.V" -> <<"B.T">> [] t = "A.V1" -> <<"A.T">> [] OTHER -> <<>>
\* the type name the create key of an interface-typed field carries in decomposed data (A.W holds an A.T)
CreateRef(t) == IF t = "A.W" THEN <<"A.T">> ELSE <<>>
Names == {"T", "", "U", "V", "V1", "W", "/"} \cup Types
Cached(t) == KeyedBy = "short" \/ t \notin {"Anon1", "Anon2"}
LookupKey(t) == IF KeyedBy = "short" THEN Short(t) ELSE Full(t)

RECURSIVE Register(_, _), RegisterAll(_, _, _)
\* registerComposer: by full name; enters short and full; walks the fields, skipping those whose lookup key is present
Register(r, t) == IF ~Cached(t) THEN RegisterAll(r, Reach(t), 1)
                  ELSE IF r[Full(t)] # "none" THEN r
                  ELSE RegisterAll([r EXCEPT ![Short(t)] = t, ![Full(t)] = t], Reach(t), 1)
RegisterAll(r, ts, i) == IF i > Len(ts) THEN r
                         ELSE RegisterAll(IF r[LookupKey(ts[i])] # "none" THEN r ELSE Register(r, ts[i]), ts, i + 1)

\* recomp into t: returns [r |-> registry afterwards, bad |-> <<>> or <<target, used>>]
RECURSIVE Recomp(_, _), RecompAll(_, _, _)
Recomp(r, t) == LET c == IF Cached(t) THEN r[LookupKey(t)] ELSE "none"
                    r1 == IF c = "none" THEN Register(r, t) ELSE r
                    used == IF c = "none" THEN t ELSE c
                    sub == RecompAll(r1, Reach(t), 1)
                    \* create-key lookup (always by the name found in the data, i.e. the short name): an unregistered
                    \* name leaves a map, a registered one builds that type
                    ck == IF CreateRef(t) = <<>> THEN <<>>
                          ELSE LET want == CreateRef(t)[1]  got == sub.r[Short(want)] IN
                               IF got = "none" THEN <<>> ELSE <<"createkey", got>>
                IN IF used # t THEN [r |-> r1, bad |-> <<t, used>>]
                   ELSE IF sub.bad # <<>> THEN sub ELSE [r |-> sub.r, bad |-> ck]
RecompAll(r, ts, i) == IF i > Len(ts) THEN [r |-> r, bad |-> <<>>]
                       ELSE LET x == Recomp(r, ts[i]) IN IF x.bad # <<>> THEN x ELSE RecompAll(x.r, ts, i + 1)

EmptyReg == [n \in Names |-> "none"]
VARIABLES reg, hist, outs
vars == <<reg, hist, outs>>
Init == reg = EmptyReg /\ hist = <<>> /\ outs = <<>>
Present(t) == /\ Len(hist) < MaxHist
              /\ LET x == Recomp(reg, t) IN
                 /\ reg' = x.r /\ hist' = Append(hist, t) /\ outs' = Append(outs, x.bad)
Next == \E t \in Types : Present(t)
Spec == Init /\ [][Next]_vars

\* what a fresh recomposer does with t
Fresh(t) == Recomp(EmptyReg, t).bad
HistoryFree == \A i \in 1..Len(outs) : outs[i] = Fresh(hist[i])
\* ... for the targets without a create-key reference (a create key names a type by its short name by design)
HistoryFreeStruct == \A i \in 1..Len(outs) : hist[i] # "A.W" => outs[i] = Fresh(hist[i])
FreshIsOwn == \A t \in Types : Fresh(t) = <<>>
TypeOK == \A n \in Names : reg[n] \in Types \cup {"none"}
\* the registry never forgets: a full name once entered keeps its type
Monotone == [][\A t \in Types : (reg[Full(t)] # "none") => (reg'[Full(t)] = reg[Full(t)])]_vars
=============================================================================
