INIT Init
NEXT Next
CONSTANTS MaxR = 3
CONSTRAINT Emit
CHECK_DEADLOCK FALSE
