-------------------------- MODULE TraceTokenEvents --------------------------
(* Trace validation for XWALK part 2: the events the real tokenizers / callback parsers delivered are consumed  *)
(* ONE BY ONE by the stack machine of TokenEvents (actions Push, Key, Leaf, Pop, Doc) and compared with the       *)
(* events the specification reads off the text.  trace.ndjson, one case per line:                               *)
(*   {id, src, x: base text (valid, possibly several documents), m: {t: none|cut|swap, k, b}, y: the text fed,    *)
(*    ne, nd: the generator's event / document counts of x (-1 = not given),                                      *)
(*    obs: [{fam: "oj"|"sen"|"docs-oj"|"docs-sen"|"docs-gen", as: [api@chunking ...], err: 0|1, pan: 0|1,          *)
(*           ev: [{k: "{"|"}"|"["|"]"|"key"|"string"|"null"|"bool"|"int"|"float"|"number"|"doc", v, r}]}]}          *)
(* obs = the DISTINCT observations of each family (the driver merges calls that delivered the same stream with    *)
(* the same error flag: Tokenize, TokenizeString, TokenizeLoad under every chunking).                             *)
(* Laws judged (locus in brackets):                                                                               *)
(*  - every event is admissible for the stack machine [illegal-event: event kind, frame];                         *)
(*  - y valid: no error, and the stream is exactly the specification's [wrong-event / wrong-value /                *)
(*    callback-class / missing-events / extra-event / error-on-valid];                                            *)
(*  - y invalid (a truncation or a swap of a valid x): the stream is a prefix of the events of the tokens that     *)
(*    end before the error point, plus at most ONE event for the token the truncation fell into (a number; for      *)
(*    sen any bare token) [not-a-prefix]; without an error the stream must be balanced [unbalanced-without-error];  *)
(*  - one observation per tokenizer family: every API and every chunking delivered the same stream [stream-differs];*)
(*  - no panic escapes [panic].                                                                                   *)
(* Needs -workers 1 (TLCSet registers).                                                                           *)
EXTENDS TokenEvents, Json
CONSTANT MaxBad

TraceLog == ndJsonDeserialize("trace.ndjson")
N == Len(TraceLog)

VARIABLES cse,    \* case
          ob,     \* observation of the case being consumed (0 = case not started)
          pos,    \* next event of it
          exp,    \* what the specification expects for this case (computed once per case)
          used,   \* the one extra event an invalid input admits has been consumed
          bad, cnt
tvars == <<stk, ndocs, cse, ob, pos, exp, used, bad, cnt>>
Case == TraceLog[cse]
Obs == Case.obs[ob]

Cnt0 == [x \in {"n", "nbad", "obs", "events", "push", "key", "leaf", "pop", "doc", "extra_used", "valid_cases", "cut_cases", "swap_cases",
                 "leaf_int", "leaf_float", "leaf_number", "multi_doc_cases", "drift_prefix_differs_across_calls"} |-> 0]
TraceInit == /\ cse = 1 /\ ob = 0 /\ pos = 1 /\ exp = <<>> /\ used = FALSE /\ bad = <<>> /\ cnt = Cnt0
             /\ stk = <<>> /\ ndocs = 0
             /\ TLCSet(1, <<>>) /\ TLCSet(2, Cnt0)
AddBad(j) == IF Len(bad) >= MaxBad THEN bad ELSE bad \o j
Dev(kind, loc) == <<[i |-> cse, ob |-> ob, fam |-> IF ob = 0 THEN "-" ELSE Obs.fam, as |-> IF ob = 0 THEN <<>> ELSE Obs.as,
                     kind |-> kind, loc |-> loc, mt |-> Case.m.t, pos |-> pos]>>

\* ---- case start: what the specification expects
Expect ==
  LET x == Case.x
      m == Case.m
      y == Case.y
      tsx == Tokens(x)
      evx == SelectSeq(tsx, IsEvent)
      drift == IF ~MValid(x) THEN "base-text-invalid"
               ELSE IF y # Mut(x, m) THEN "fed-text-is-not-the-mutation"
               ELSE IF m.t = "swap" /\ (~SwapOK(tsx, m) \/ FirstDead(y) # m.k) THEN "swap-not-admissible"
               ELSE IF m.t = "cut" /\ (m.k < 0 \/ m.k >= Len(x) \/ FirstDead(y) # 0) THEN "cut-not-viable"
               ELSE IF Case.ne >= 0 /\ (Case.ne # Len(evx) \/ Case.nd # Len(Docs(x))) THEN "event-count"
               ELSE ""
      yvalid == m.t = "none" \/ (m.t = "cut" /\ MValid(y))
      \* "a byte order mark followed by no document" is left open (JsonText!Unsettled): not judged
      open == y # <<>> /\ y[1] = 239 /\ JV!GWs(y, JV!GBom(y)) > Len(y)
      pt == Partial(evx, m)
  IN IF drift # "" THEN [drift |-> drift]
     ELSE IF open THEN [drift |-> "", skip |-> TRUE]
     ELSE IF yvalid THEN [drift |-> "", valid |-> TRUE, extra |-> "none", top |-> FALSE,
                          ev |-> IF m.t = "none" THEN evx ELSE EventTokens(y), docs |-> Docs(y)]
     ELSE [drift |-> "", valid |-> FALSE, top |-> OpenAt(evx, m) = 0,
           extra |-> IF pt = <<>> THEN "none" ELSE IF pt[1].k = "num" THEN "num" ELSE IF pt[1].k \in {"null", "true", "false"} THEN "lit" ELSE "none",
           ev |-> Definite(evx, m), docs |-> SelectSeq(Docs(x), LAMBDA d : d.e <= Boundary(m))]
Reset == stk' = <<>> /\ ndocs' = 0 /\ pos' = 1 /\ used' = FALSE
NextCase(j, c2) ==
  LET c3 == [c2 EXCEPT !.n = @ + 1, !.nbad = @ + Len(j)]
      b2 == AddBad(j)
  IN /\ bad' = b2 /\ cnt' = c3 /\ TLCSet(1, b2) /\ TLCSet(2, c3)
     /\ cse' = cse + 1 /\ ob' = 0 /\ exp' = <<>> /\ Reset
\* leave the current observation with deviation j (<<>> = accepted)
NextObs(j, c2) ==
  IF ob < Len(Case.obs)
  THEN /\ bad' = AddBad(j) /\ cnt' = [c2 EXCEPT !.nbad = @ + Len(j), !.obs = @ + 1]
       /\ ob' = ob + 1 /\ Reset /\ UNCHANGED <<cse, exp>>
  ELSE NextCase(j, [c2 EXCEPT !.obs = @ + 1])
TCaseStart == /\ cse <= N /\ ob = 0
              /\ LET ex == Expect IN
                 IF ex.drift # "" THEN NextCase(Dev("generator-drift", ex.drift), cnt)
                 ELSE IF Case.obs = <<>> \/ "skip" \in DOMAIN ex THEN NextCase(<<>>, cnt)
                 ELSE /\ exp' = ex /\ ob' = 1 /\ Reset /\ UNCHANGED <<cse, bad>>
                      /\ cnt' = [cnt EXCEPT !.valid_cases = @ + (IF ex.valid THEN 1 ELSE 0),
                                            !.cut_cases = @ + (IF Case.m.t = "cut" THEN 1 ELSE 0),
                                            !.swap_cases = @ + (IF Case.m.t = "swap" THEN 1 ELSE 0),
                                            !.multi_doc_cases = @ + (IF Len(ex.docs) > 1 THEN 1 ELSE 0)]

\* ---- one event
Fam == IF Obs.fam \in {"oj", "sen"} THEN Obs.fam ELSE "docs"
Ctx == TopF(stk)
KindMatch(t, e) == CASE t.k = "true" -> e.k = "bool" /\ e.v
                     [] t.k = "false" -> e.k = "bool" /\ ~e.v
                     [] t.k = "num" -> e.k \in {"int", "float", "number"}
                     [] OTHER -> e.k = t.k
Legal(e) == CASE Class(e.k) = "Push" -> CanValue(stk)
              [] Class(e.k) = "Key" -> Ctx = "O"
              [] Class(e.k) = "Pop" -> Ctx = (IF e.k = "]" THEN "A" ELSE "O")
              [] Class(e.k) = "Doc" -> stk = <<>>
              [] OTHER -> CanValue(stk)
ExtraOK(e) == \/ exp.extra = "num" /\ e.k \in {"int", "float", "number"}
              \/ Obs.fam = "sen" /\ exp.extra \in {"num", "lit"} /\ Class(e.k) = "Leaf"
ExtraDocOK(e) == /\ exp.top /\ exp.extra # "none"
                 /\ IF Obs.fam = "docs-sen" THEN e.r.t \notin {"arr", "obj"} ELSE (exp.extra = "num" /\ e.r.t \in {"int", "flt", "big"})
\* <<>> = admissible (x = the extra event was used), else the deviation
\* ',' <-> ':' is an error at that byte in JSON; the SEN front-ends are not judged on those inputs beyond well-formedness
\* likewise a truncation inside the byte order mark: EF / EF BB is a bare SEN token
JsonOnly == /\ Obs.fam \in {"sen", "docs-sen"}
            /\ \/ Case.m.t = "swap" /\ Case.m.b \in {44, 58}
               \/ Case.m.t = "cut" /\ Case.m.k \in {1, 2} /\ Case.x[1] = 239
EvDev(e) ==
  IF (Fam = "docs") # (e.k = "doc") THEN [kind |-> "illegal-event", loc |-> e.k \o " in a " \o Fam \o " stream"]
  ELSE IF ~Legal(e) THEN [kind |-> "illegal-event", loc |-> e.k \o " in " \o Ctx]
  ELSE IF JsonOnly THEN [kind |-> ""]
  ELSE IF e.k = "doc" THEN
       (IF pos <= Len(exp.docs)
        THEN (IF JV!Matches(exp.docs[pos].v, e.r) THEN [kind |-> ""]
              ELSE [kind |-> "wrong-document", loc |-> ToString(JV!Blame(exp.docs[pos].v, e.r))])
        ELSE IF exp.valid THEN [kind |-> "extra-document", loc |-> "after " \o ToString(Len(exp.docs))]
        ELSE IF ~used /\ ExtraDocOK(e) THEN [kind |-> "", x |-> TRUE]
        ELSE [kind |-> "not-a-prefix", loc |-> "document beyond the error point after " \o Case.m.t])
  ELSE IF pos <= Len(exp.ev) THEN
       LET t == exp.ev[pos] IN
       IF ~KindMatch(t, e) THEN [kind |-> IF exp.valid THEN "wrong-event" ELSE "not-a-prefix", loc |-> "want " \o t.k \o " got " \o e.k \o " in " \o Ctx]
       ELSE IF t.k \in {"string", "key"} /\ e.v # t.d.a /\ e.v # t.d.b
            THEN [kind |-> "wrong-value", loc |-> t.k \o (IF e.v = t.d.c THEN " pair-as-two-U+FFFD" ELSE " bytes")]
       ELSE IF t.k = "num" /\ (e.r.t # ClassTag(e.k) \/ ~JV!NumOK(t.d, e.r)) THEN [kind |-> "wrong-value", loc |-> "num " \o NumShape(t.d) \o " via " \o e.k]
       ELSE IF t.k = "num" /\ ~ClassOK(t.d, e.k) THEN [kind |-> "callback-class", loc |-> "num " \o NumShape(t.d) \o " via " \o e.k]
       ELSE [kind |-> ""]
  ELSE IF exp.valid THEN [kind |-> "extra-event", loc |-> "got " \o e.k \o " in " \o Ctx]
  ELSE IF ~used /\ ExtraOK(e) THEN [kind |-> "", x |-> TRUE]
  ELSE [kind |-> "not-a-prefix", loc |-> "got " \o e.k \o " in " \o Ctx \o " beyond the error point after " \o Case.m.t]
Machine(e) == CASE e.k = "[" -> Push("A") [] e.k = "{" -> Push("O") [] e.k = "key" -> Key
                [] e.k = "]" -> Pop("A") [] e.k = "}" -> Pop("O") [] e.k = "doc" -> Doc [] OTHER -> Leaf
TEvent == /\ cse <= N /\ ob >= 1 /\ pos <= Len(Obs.ev)
          /\ LET e == Obs.ev[pos]
                 d == EvDev(e)
                 c2 == [cnt EXCEPT !.events = @ + 1]
             IN IF d.kind = ""
                THEN /\ Machine(e)
                     /\ pos' = pos + 1 /\ used' = (used \/ "x" \in DOMAIN d) /\ UNCHANGED <<cse, ob, exp, bad>>
                     /\ cnt' = [c2 EXCEPT !.push = @ + (IF Class(e.k) = "Push" THEN 1 ELSE 0), !.key = @ + (IF Class(e.k) = "Key" THEN 1 ELSE 0),
                                          !.pop = @ + (IF Class(e.k) = "Pop" THEN 1 ELSE 0), !.doc = @ + (IF Class(e.k) = "Doc" THEN 1 ELSE 0),
                                          !.leaf = @ + (IF Class(e.k) = "Leaf" THEN 1 ELSE 0), !.extra_used = @ + (IF "x" \in DOMAIN d THEN 1 ELSE 0),
                                          !.leaf_int = @ + (IF e.k = "int" THEN 1 ELSE 0), !.leaf_float = @ + (IF e.k = "float" THEN 1 ELSE 0),
                                          !.leaf_number = @ + (IF e.k = "number" THEN 1 ELSE 0)]
                ELSE NextObs(Dev(d.kind, d.loc), c2)
\* ---- the call returned
EarlierSameFam == \E o \in 1..(ob - 1) : Case.obs[o].fam = Obs.fam
\* where this observation first differs from the first observation of its family (the locus of stream-differs)
EvSame(a, b) == a.k = b.k /\ (a.k \in {"string", "key", "bool"} => a.v = b.v) /\ (a.k \in {"int", "float", "number"} => a.r = b.r)
DiffLoc == LET o1 == Case.obs[CHOOSE o \in 1..(ob - 1) : Case.obs[o].fam = Obs.fam /\ \A o2 \in 1..(o - 1) : Case.obs[o2].fam # Obs.fam]
               a == o1.ev
               b == Obs.ev
               df == {i \in 1..Len(a) : i > Len(b) \/ ~EvSame(a[i], b[i])}
               p == IF df = {} THEN Len(a) + 1 ELSE CHOOSE i \in df : \A j \in df : i <= j
               ka == IF p <= Len(a) THEN a[p].k ELSE IF o1.err = 1 THEN "error" ELSE "end"
               kb == IF p <= Len(b) THEN b[p].k ELSE IF Obs.err = 1 THEN "error" ELSE "end"
           IN ka \o " / " \o kb \o (IF p <= Len(exp.ev) /\ exp.ev[p].k = "num" THEN " at num " \o NumShape(exp.ev[p].d) ELSE IF p <= Len(exp.ev) THEN " at " \o exp.ev[p].k ELSE "")
EndDev ==
  IF Obs.pan = 1 THEN Dev("panic", Obs.fam)
  ELSE IF JsonOnly THEN <<>>
  ELSE IF exp.valid /\ Obs.err = 1
       THEN Dev("error-on-valid", IF Fam = "docs" THEN "after " \o ToString(pos - 1) \o " documents" ELSE IF pos <= Len(exp.ev) THEN "before " \o exp.ev[pos].k ELSE "at the end")
  ELSE IF exp.valid /\ Fam = "docs" /\ pos - 1 < Len(exp.docs) THEN Dev("missing-documents", ToString(pos - 1) \o " of " \o ToString(Len(exp.docs)))
  ELSE IF exp.valid /\ Fam # "docs" /\ pos - 1 < Len(exp.ev) THEN Dev("missing-events", "want " \o exp.ev[pos].k \o " in " \o Ctx)
  ELSE IF ~exp.valid /\ Obs.err = 0 /\ stk # <<>> THEN Dev("unbalanced-without-error", "open " \o Ctx \o " after " \o Case.m.t)
  \* strict on valid inputs only; on an input with an error any two prefixes are admitted (counted as drift)
  ELSE IF Fam # "docs" /\ EarlierSameFam /\ exp.valid THEN Dev("stream-differs", DiffLoc)
  ELSE <<>>
TObsEnd == /\ cse <= N /\ ob >= 1 /\ pos = Len(Obs.ev) + 1
           /\ NextObs(EndDev, [cnt EXCEPT !.drift_prefix_differs_across_calls = @ + (IF Fam # "docs" /\ EarlierSameFam /\ ~exp.valid THEN 1 ELSE 0)])
TraceNext == TCaseStart \/ TEvent \/ TObsEnd
TraceSpec == TraceInit /\ [][TraceNext]_tvars
Post == LET c == TLCGet(2) IN JsonSerialize("out.json", [n |-> c.n, bad |-> TLCGet(1), nbad |-> c.nbad, hits |-> c])
=============================================================================
