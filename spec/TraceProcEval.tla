--------------------------- MODULE TraceProcEval ---------------------------
(* Trace validation for XPROC (2)-(4): one line per case recorded by harness/cmd/xproc exec.               *)
(*  k = "proc": {rep, doc, path, get|first|ff|has|loc|set|rm|walk: {r, calls} or {panic}, parsed: {err, r}}  *)
(*  k = "fn":   {ar, gl, gr, l, r, usage, c, elem, rep, perr, sel, sel2, calls: [{l, r}]} or {panic}          *)
(*  k = "form": {ast, perr, form} or {panic}                                                                 *)
(* One action per case kind (EvalPath, CallFn, InspectScript); each compares what the code did with the      *)
(* operators of ProcEval.tla and records deviations [i, kind, loc] in TLC register 1 (-workers 1).           *)
EXTENDS ProcEval, Json
CONSTANT MaxBad
Log == ndJsonDeserialize("trace.ndjson")
N == Len(Log)
VARIABLE c
TraceInit == c = 1 /\ TLCSet(1, <<>>) /\ TLCSet(2, 0) /\ TLCSet(3, 0)

Bad(kind, loc) == <<[i |-> c, kind |-> kind, loc |-> loc]>>
BagEq(x, y) == Len(x) = Len(y) /\ \A v \in RangeOf(x) : Cardinality({j \in 1..Len(x) : x[j] = v}) = Cardinality({j \in 1..Len(y) : y[j] = v})
SeqEq(x, y, unordered) == IF unordered THEN BagEq(x, y) ELSE x = y
Panicked(o) == "panic" \in DOMAIN o
Pos(path) == IF LastIsProc(path) THEN "proc-last" ELSE "proc-inner"
HowMany(path) == IF NProcs(path) >= 2 THEN "several-procs" ELSE "one-proc"
Args(calls) == [j \in 1..Len(calls) |-> calls[j].arg]

JudgeProc(L) ==
   LET m == Sel(L.path, L.doc)
       pos == Pos(L.path)
       P(op) == Bad("panic", <<op, pos>>) IN
   (IF Panicked(L.get) THEN P("Get")
    ELSE IF m.open THEN <<>>
    ELSE (IF ~SeqEq(L.get.r, m.r, m.u) THEN Bad("get-differs", <<"Get", pos, L.rep>>) ELSE <<>>)
         \o (IF ~BagEq(SelectSeq(Args(L.get.calls), IsCont), m.pc) \/ \E j \in 1..Len(L.get.calls) : L.get.calls[j].op # "Get"
             THEN Bad("procedure-calls-differ", <<"Get", pos>>) ELSE <<>>))
   \o (IF Panicked(L.first) THEN P("First")
       ELSE IF m.open \/ Panicked(L.get) THEN <<>>
       ELSE IF m.r = <<>> THEN (IF L.first.r # Null THEN Bad("first-differs-from-get", <<"First", pos, "none-selected">>) ELSE <<>>)
       ELSE IF (IF m.u THEN L.first.r \notin RangeOf(m.r) ELSE L.first.r # m.r[1])
            THEN Bad("first-differs-from-get", <<"First", pos, IF L.first.r = Null THEN "nil-though-selected" ELSE "other-element">>) ELSE <<>>)
   \o (IF Panicked(L.ff) THEN P("FirstFound")
       ELSE IF m.open THEN <<>>
       ELSE IF L.ff.r.ok # (m.r # <<>>) THEN Bad("found-flag-differs-from-get", <<"FirstFound", pos>>) ELSE <<>>)
   \o (IF Panicked(L.has) THEN P("Has")
       ELSE IF m.open THEN <<>>
       ELSE IF L.has.r # (m.r # <<>>) THEN Bad("has-differs-from-get", <<"Has", pos>>) ELSE <<>>)
   \o (IF Panicked(L.loc) THEN P("Locate")
       ELSE IF m.open THEN <<>>
       ELSE IF Len(L.loc.r) # Len(m.r) THEN Bad("locate-count-differs", <<"Locate", pos>>) ELSE <<>>)
   \o (IF Panicked(L.walk) THEN P("Walk")
       ELSE IF m.open THEN <<>>
       ELSE IF L.walk.r # Len(m.r) THEN Bad("walk-count-differs", <<"Walk", pos>>) ELSE <<>>)
   \o (IF Panicked(L.set) THEN P("Set") ELSE <<>>)                                                    \* P3
   \o (IF Panicked(L.rm) THEN P("Remove")
       ELSE IF LastIsProc(L.path) /\ (~L.rm.r.err \/ L.rm.r.doc # L.doc) THEN Bad("remove-through-proc", <<"Remove", pos>>) ELSE <<>>)
   \o (IF Panicked(L.parsed) THEN Bad("panic", <<"ParseString", HowMany(L.path)>>)
       ELSE IF L.parsed.err THEN Bad("unparseable-text", <<"ParseString", HowMany(L.path)>>)
       ELSE IF m.open \/ Panicked(L.get) THEN <<>>
       ELSE IF ~SeqEq(L.parsed.r, L.get.r, m.u) THEN Bad("reparse-evaluates-differently", <<"ParseString", HowMany(L.path)>>) ELSE <<>>)

Flag(b) == IF b THEN "get" ELSE "first"
JudgeFn(L) ==
   IF Panicked(L) THEN Bad("panic", <<"filter", L.ar>>)
   ELSE IF L.perr THEN Bad("unparseable-text", <<"function", L.ar>>)
   ELSE LET LA == AllowedArgs(L.l, L.gl, L.elem)
            RA == AllowedArgs(L.r, L.gr, L.elem)
            badL == ~(L.l = "const" /\ L.gl) /\ \E j \in 1..Len(L.calls) : L.calls[j].l \notin LA
            badR == L.ar = 2 /\ ~(L.r = "const" /\ L.gr) /\ \E j \in 1..Len(L.calls) : L.calls[j].r \notin RA IN
        (IF badL THEN Bad("wrong-argument", <<L.ar, "left", Flag(L.gl)>>) ELSE <<>>)
        \o (IF badR THEN Bad("wrong-argument", <<L.ar, "right", Flag(L.gr)>>) ELSE <<>>)
        \o (IF L.calls = <<>> THEN Bad("function-not-called", <<L.ar>>) ELSE <<>>)
        \o (IF FnOpen(L) \/ badL \/ badR THEN <<>>
            ELSE IF L.sel # SelFirst(L) /\ L.sel # SelSome(L) THEN Bad("wrong-selection", <<L.ar, L.usage>>) ELSE <<>>)
        \o (IF L.sel2 # L.sel THEN Bad("printed-filter-evaluates-differently", <<L.ar, L.usage>>) ELSE <<>>)

JudgeForm(L) ==
   IF Panicked(L) THEN Bad("panic", <<"Inspect">>)
   ELSE IF L.perr THEN Bad("unparseable-text", <<"script">>)
   ELSE LET got == Strip(L.form) IN
        IF got # L.ast THEN Bad("form-differs", <<"Inspect", FormDiff(L.ast, got)>>) ELSE <<>>

Record(j) == IF j = <<>> THEN TRUE
             ELSE /\ (IF Len(TLCGet(1)) >= MaxBad THEN TRUE ELSE TLCSet(1, TLCGet(1) \o j))
                  /\ TLCSet(3, TLCGet(3) + Len(j))
Consume == TLCSet(2, c) /\ c' = c + 1
EvalPath      == c <= N /\ Log[c].k = "proc" /\ Record(JudgeProc(Log[c])) /\ Consume
CallFn        == c <= N /\ Log[c].k = "fn"   /\ Record(JudgeFn(Log[c]))   /\ Consume
InspectScript == c <= N /\ Log[c].k = "form" /\ Record(JudgeForm(Log[c])) /\ Consume

TraceNext == EvalPath \/ CallFn \/ InspectScript
TraceSpec == TraceInit /\ [][TraceNext]_c
Post == JsonSerialize("out.json", [n |-> TLCGet(2), bad |-> TLCGet(1), nbad |-> TLCGet(3), hits |-> [x \in {} |-> 0]])
=============================================================================
