SPECIFICATION GSpec
CONSTANTS
  Colourings = 2
  Deep = TRUE
CONSTRAINT Emit
CHECK_DEADLOCK FALSE
