SPECIFICATION GSpec
CONSTANTS
  Colourings = 1
  Deep = TRUE
CONSTRAINT Emit
CHECK_DEADLOCK FALSE
