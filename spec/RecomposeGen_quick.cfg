INIT Init
NEXT Next
CONSTANTS KeyedBy = "short" MaxHist = 3
CONSTRAINT Emit
CHECK_DEADLOCK FALSE
