INIT Init
NEXT Next
CONSTANTS KeyedBy = "short" MaxHist = 3 GraphLen = 2 IndexMemo = "none"
CONSTRAINT Emit
CHECK_DEADLOCK FALSE
