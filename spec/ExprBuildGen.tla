---------------------------- MODULE ExprBuildGen ----------------------------
(* Behaviour generation for XPROC (1): the DERIVATION SHAPES of builder-call histories.  Whether a call     *)
(* disturbs another value depends on who was derived from whom (and on lengths), not on the fragment kind, *)
(* so TLC enumerates every history of at most MaxSteps calls over one constructor and one method - the     *)
(* reachable states of ExprBuild's machine under that alphabet are exactly the derivation forests - and    *)
(* prints the receiver sequence of each.  The Go driver decorates every shape with concrete calls (every   *)
(* method, both names, every constructor including jp.MustParseString) and replays it step by step into    *)
(* real jp.Expr values.  The Go slice half of ExprBuild runs alongside: `al` tells whether the slice model  *)
(* predicts a disturbed value for the shape (a prediction for the evidence; verdicts come from the trace).  *)
EXTENDS ExprBuild, Json
CONSTANT MaxSteps
VARIABLE sh
gvars == <<vals, parent, arrs, hnd, sh>>
TheCtor == [m |-> "R", a |-> <<>>, ch |-> <<>>]
TheMeth(k) == [m |-> "C", a |-> <<<<96 + k>>>>, ch |-> <<>>]      \* a different key per step: a disturbed value is visible
GInit == BInit /\ IInit /\ sh = <<>>
GNext == /\ Len(vals) < MaxSteps
         /\ \/ New(TheCtor) /\ INew(TheCtor) /\ sh' = Append(sh, 0)
            \/ \E h \in 1..Len(vals) : Ext(h, TheMeth(Len(vals) + 1)) /\ IExt(h, TheMeth(Len(vals) + 1), FALSE) /\ sh' = Append(sh, h)
GSpec == GInit /\ [][GNext]_gvars
Aliased == \E h \in 1..Len(vals) : ImplVal(h) # vals[h]
Emit == sh = <<>> \/ PrintT(<<"SHAPE", ToJson([sh |-> sh, al |-> Aliased])>>)
=============================================================================
