--------------------------- MODULE ScriptGen ---------------------------
(* Case generation for C12 (DESIGN 6/C12 (b)): the exhaustive cell matrix                                *)
(*   operator x left operand (form, kind, value) x right operand (form, kind, value).                    *)
(* An operand is an equation AST plus the data it needs: the element itself (form @), a member of the    *)
(* element (@.k left, @.j right; absent / null / any kind), a member of the root document ($.k, $.j),    *)
(* a multi-valued sub-path (@.k.* over an array or object), nested arithmetic, length(), count().        *)
(* Each case = [ast, elem, root]; the Go harness builds the script through the jp constructors and from   *)
(* text, runs it through every route and records the outcomes for TraceScript.                           *)
EXTENDS Script
CONSTANT Tier        \* "quick" | "thorough"

None == [t |-> "none"]
Kk == <<107>>
Kj == <<106>>
A == <<97>>
B == <<98>>

Const(v) == [op |-> "const", v |-> v]
Path(r, fr) == [op |-> "path", root |-> r, fr |-> fr]
Child(k) == [f |-> "child", k |-> k]
Nth(i) == [f |-> "nth", i |-> i]
Wild == [f |-> "wild"]
Bin(op, l, r) == [op |-> op, l |-> l, r |-> r]
Un(op, l) == [op |-> op, l |-> l]

\* value universe: every kind, at least two ordered values for numbers and strings, 2.0 = 2 across int/float,
\* empty and non-empty strings and containers
Scalars == IF Tier = "quick"
           THEN <<NullV, BoolV(TRUE), BoolV(FALSE), IntV(1), IntV(2), FltV(3, 1), FltV(2, 0), StrV(A), StrV(B), StrV(<<>>)>>
           ELSE <<NullV, BoolV(TRUE), BoolV(FALSE), IntV(0), IntV(1), IntV(2), IntV(-1), FltV(3, 1), FltV(2, 0), FltV(5, 1), FltV(0, 0),
                  StrV(A), StrV(B), StrV(<<>>), StrV(<<97, 98>>)>>
Conts == IF Tier = "quick"
         \* (a container inside a container: as a struct / fixed-size array the outer value is comparable in Go, its member is not)
         THEN <<ArrV(<<>>), ArrV(<<IntV(1), StrV(A)>>), ObjV(<<>>, <<>>), ObjV(<<A>>, <<IntV(1)>>), ObjV(<<A>>, <<ArrV(<<IntV(1)>>)>>)>>
         ELSE <<ArrV(<<>>), ArrV(<<IntV(1)>>), ArrV(<<IntV(1), StrV(A)>>), ArrV(<<FltV(2, 0), NullV, ArrV(<<>>)>>),
                ObjV(<<>>, <<>>), ObjV(<<A>>, <<IntV(1)>>), ObjV(<<A, B>>, <<IntV(1), StrV(A)>>), ObjV(<<A>>, <<ArrV(<<IntV(1)>>)>>),
                ObjV(<<A, B>>, <<ObjV(<<A>>, <<IntV(1)>>), ArrV(<<>>)>>)>>
Data == Scalars \o Conts                      \* what a data member can be
\* (the text form has no empty list constant: "[]" is a parse error; C14 deals with that)
Lists == <<ArrV(<<IntV(2)>>), ArrV(<<IntV(1), StrV(A), FltV(3, 1), BoolV(TRUE), NullV>>)>>
Rxs == <<[t |-> "rx", p |-> A], [t |-> "rx", p |-> <<94, 97, 46>>]>>   \* /a/  /^a./
ConstVals == <<NothingV>> \o Scalars \o Lists \o Rxs \o (IF Tier = "quick" THEN <<>> ELSE <<StrV(<<97, 124, 98>>), StrV(<<94, 97, 46>>)>>)
\* containers whose members are the values of a multi-valued sub-path
Multis == IF Tier = "quick"
          THEN <<ArrV(<<IntV(1), IntV(2)>>), ObjV(<<A, B>>, <<StrV(A), FltV(3, 1)>>), ArrV(<<BoolV(FALSE), BoolV(TRUE)>>)>>
          ELSE <<ArrV(<<IntV(1), IntV(2)>>), ObjV(<<A, B>>, <<StrV(A), FltV(3, 1)>>), ArrV(<<BoolV(FALSE), BoolV(TRUE)>>),
                 ArrV(<<NullV, StrV(B), ArrV(<<>>)>>), ArrV(<<IntV(2)>>), ArrV(<<>>)>>
ArithData == IF Tier = "quick" THEN <<NothingV, IntV(1), FltV(3, 1), StrV(A)>>
             ELSE <<NothingV, NullV, BoolV(TRUE), IntV(1), IntV(0), FltV(3, 1), StrV(A), ArrV(<<>>)>>

Seq1(f(_), s) == [i \in 1..Len(s) |-> f(s[i])]
Key(side) == IF side = "L" THEN Kk ELSE Kj

\* operand: e = AST, at = required element, ek = required member of the element, rk = required member of the root
Opd(e, at, ek, rk) == [e |-> e, at |-> at, ek |-> ek, rk |-> rk]
Operands(side) ==
    LET key == Key(side)
        cst(v) == Opd(Const(v), None, None, None)
        atf(v) == Opd(Path("@", <<>>), v, None, None)
        chd(v) == Opd(Path("@", <<Child(key)>>), None, v, None)
        rch(v) == Opd(Path("$", <<Child(key)>>), None, None, v)
        mul(v) == Opd(Path("@", <<Child(key), Wild>>), None, v, None)
        idx(v) == Opd(Path("@", <<Child(key), Nth(-1)>>), None, ArrV(<<IntV(7), v>>), None)
        add(v) == Opd(Bin("+", Path("@", <<Child(key)>>), Const(IntV(1))), None, v, None)
        mlt(v) == Opd(Bin("*", Const(FltV(1, 1)), Path("@", <<Child(key)>>)), None, v, None)
        dvd(v) == Opd(Bin("/", Path("@", <<Child(key)>>), Const(IntV(2))), None, v, None)
        sbt(v) == Opd(Bin("-", Const(IntV(3)), Path("@", <<Child(key)>>)), None, v, None)
        len(v) == Opd(Un("length", Path("@", <<Child(key)>>)), None, v, None)
        cnt(v) == Opd(Un("count", Path("@", <<Child(key), Wild>>)), None, v, None)
        neg(v) == Opd(Un("!", Path("@", <<Child(key)>>)), None, v, None)
    IN Seq1(cst, ConstVals) \o Seq1(atf, Data) \o Seq1(chd, <<NothingV>> \o Data) \o Seq1(rch, <<NothingV>> \o Data)
       \o Seq1(mul, Multis) \o Seq1(idx, <<IntV(1), StrV(A)>>) \o Seq1(add, ArithData) \o Seq1(mlt, ArithData)
       \o (IF Tier = "quick" THEN <<>> ELSE Seq1(dvd, ArithData) \o Seq1(sbt, ArithData))
       \o Seq1(len, <<NothingV, StrV(A), StrV(<<>>), IntV(1)>> \o Conts) \o Seq1(cnt, <<NothingV, IntV(1)>> \o Multis)
       \o Seq1(neg, <<NothingV, BoolV(TRUE), BoolV(FALSE), IntV(1)>>)

LOps == Operands("L")
ROps == Operands("R")

Has(x) == x.t # "none" /\ x.t # "nothing"
\* object with the members j (from the right operand) and k (from the left operand), keys sorted
Members(rj, lk) == ObjV((IF Has(rj) THEN <<Kj>> ELSE <<>>) \o (IF Has(lk) THEN <<Kk>> ELSE <<>>),
                        (IF Has(rj) THEN <<rj>> ELSE <<>>) \o (IF Has(lk) THEN <<lk>> ELSE <<>>))
\* form @ fixes the element: the other side may then only be a constant, a root member, or @ with the same value
Compatible(l, r) == /\ (l.at.t # "none" => r.ek.t = "none" /\ (r.at.t = "none" \/ r.at = l.at))
                    /\ (r.at.t # "none" => l.ek.t = "none" /\ (l.at.t = "none" \/ r.at = l.at))
ElemOf(l, r) == IF l.at.t # "none" THEN l.at ELSE IF r.at.t # "none" THEN r.at ELSE Members(r.ek, l.ek)
MkCase(op, l, r) == [ast |-> Bin(op, l.e, r.e), elem |-> ElemOf(l, r), root |-> Members(r.rk, l.rk)]
MkUn(op, l) == [ast |-> Un(op, l.e), elem |-> ElemOf(l, Opd(Const(NullV), None, None, None)), root |-> Members(None, l.rk)]

NL == Len(LOps)
NR == Len(ROps)
NO == Len(BinOps)
Pairs == SelectSeq([n \in 1..(NL * NR) |-> <<((n - 1) \div NR) + 1, ((n - 1) % NR) + 1>>],
                   LAMBDA p : Compatible(LOps[p[1]], ROps[p[2]]))
NP == Len(Pairs)
BinCases == [n \in 1..(NO * NP) |-> LET o == ((n - 1) \div NP) + 1 p == Pairs[((n - 1) % NP) + 1] IN
                                     MkCase(BinOps[o], LOps[p[1]], ROps[p[2]])]
UnCases == [n \in 1..NL |-> MkUn("!", LOps[n])]
\* a bare operand as the whole script: constants and paths (truth value of a non-boolean is open, see Script!Verdict)
BareCases == [n \in 1..NL |-> [ast |-> LOps[n].e, elem |-> ElemOf(LOps[n], Opd(Const(NullV), None, None, None)),
                               root |-> Members(None, LOps[n].rk)]]
\* long multi-valued operands, given by description (the harness builds the list): n members equal to fill except member
\* "at"; the script is true only through that member (or, with two lists, through one pair): every combination has to be tried
Big(n, at, v, fill) == [t |-> "biglist", n |-> n, at |-> at, v |-> v, fill |-> fill]
BigSizes == <<33, 40, 1025, 1500>>
BigOps == <<"==", "!=", "<", ">", "<=", ">=", "in">>
BigOne == [n \in 1..(Len(BigSizes) * 2 * Len(BigOps)) |->
             LET sz == BigSizes[((n - 1) \div (2 * Len(BigOps))) + 1] first == (((n - 1) \div Len(BigOps)) % 2) = 0 o == BigOps[((n - 1) % Len(BigOps)) + 1]
                 \* fill 5 everywhere, the one member that makes the comparison with 5 (or the list [7]) true
                 v == CASE o \in {"==", "in"} -> IntV(7) [] o = "!=" -> IntV(7) [] o \in {"<", "<="} -> IntV(3) [] OTHER -> IntV(9)
                 c == CASE o = "==" -> Const(IntV(7)) [] o = "in" -> Const(ArrV(<<IntV(7)>>)) [] o = "!=" -> Const(IntV(5))
                        [] o \in {"<", ">"} -> Const(IntV(5)) [] o = "<=" -> Const(IntV(4)) [] OTHER -> Const(IntV(6)) IN
             [ast |-> Bin(o, Path("@", <<Child(Kk), Wild>>), c), root |-> Members(None, None),
              elem |-> ObjV(<<Kk>>, <<Big(sz, IF first THEN 1 ELSE sz, v, IntV(5))>>)]]
\* both operands multi-valued, only one pair matches (fills 5 and 6, the shared member 7): 33 x 33 and 40 x 40 combinations
BigTwo == [n \in 1..8 |->
             LET sz == IF n <= 4 THEN 33 ELSE 40 lf == n % 2 = 0 rf == (n \div 2) % 2 = 0 IN
             [ast |-> Bin("==", Path("@", <<Child(Kk), Wild>>), Path("@", <<Child(Kj), Wild>>)), root |-> Members(None, None),
              elem |-> ObjV(<<Kj, Kk>>, <<Big(sz, IF rf THEN 1 ELSE sz, IntV(7), IntV(6)), Big(sz, IF lf THEN 1 ELSE sz, IntV(7), IntV(5))>>)]]
\* regular expressions: whole-string (match) versus anywhere (search, =~) - patterns with top-level alternation with and without
\* their own anchors, an escaped trailing "$" / leading "^", anchors in the middle, ".*"; subjects that match only as a prefix,
\* suffix or in the middle.  The truth comes from the Go regexp facts in rx.ndjson under the documented semantics
\* (match = the pattern wrapped as ^(?:p)$, search / =~ unanchored).  Patterns: a|b  ^a|b$  ^(a|b)$  ^a$|^b$  ^abc|xyz$  cost\$  ^cost\$  \^a  a^b  a$b  .*  a.*  abc  ^abc$ ; subjects: 'a'  'b'  'ab'  'abc'  'abcZZ'  'ZZxyz'  'xyz'  'ZZabcZZ'  'cost$'  'cost$x'  'xcost$'  '^a'  'x^a'  ''  'a^b'  'ZZ'
RxPats == <<<<97, 124, 98>>, <<94, 97, 124, 98, 36>>, <<94, 40, 97, 124, 98, 41, 36>>, <<94, 97, 36, 124, 94, 98, 36>>, <<94, 97, 98, 99, 124, 120, 121, 122, 36>>, <<99, 111, 115, 116, 92, 36>>, <<94, 99, 111, 115, 116, 92, 36>>, <<92, 94, 97>>, <<97, 94, 98>>, <<97, 36, 98>>, <<46, 42>>, <<97, 46, 42>>, <<97, 98, 99>>, <<94, 97, 98, 99, 36>>,
           \* leftmost-first alternation and non-greedy repeats: the leftmost match is a proper prefix although the whole string matches
           <<97, 124, 97, 98>>, <<97, 98, 43, 63>>, <<40, 97, 124, 97, 98, 41, 40, 99, 124, 98, 99, 100, 41>>>>
RxSubs == <<<<97>>, <<98>>, <<97, 98>>, <<97, 98, 99>>, <<97, 98, 99, 90, 90>>, <<90, 90, 120, 121, 122>>, <<120, 121, 122>>, <<90, 90, 97, 98, 99, 90, 90>>, <<99, 111, 115, 116, 36>>, <<99, 111, 115, 116, 36, 120>>, <<120, 99, 111, 115, 116, 36>>, <<94, 97>>, <<120, 94, 97>>, <<>>, <<97, 94, 98>>, <<90, 90>>, <<97, 98, 98>>, <<97, 98, 99, 100>>>>
RxFns == <<"match", "search", "=~", "rx">>       \* "rx": =~ with a /regex/ constant instead of a string pattern
RxCases == [n \in 1..(Len(RxFns) * Len(RxPats) * Len(RxSubs)) |->
              LET fn == RxFns[((n - 1) \div (Len(RxPats) * Len(RxSubs))) + 1]
                  pt == RxPats[(((n - 1) \div Len(RxSubs)) % Len(RxPats)) + 1]
                  sb == RxSubs[((n - 1) % Len(RxSubs)) + 1] IN
              [ast |-> IF fn = "rx" THEN Bin("=~", Path("@", <<>>), Const([t |-> "rx", p |-> pt]))
                       ELSE Bin(fn, Path("@", <<>>), Const(StrV(pt))),
               elem |-> StrV(sb), root |-> Members(None, None)]]
\* integers beyond 2^53 (two neighbours round to the same float64): int / int comparison is exact.  As constants and as
\* members read from the data, on both sides of == != < > <= >=  (2^53, 2^53+1, MaxInt64-1, MaxInt64, their negatives, and 5)
BigInts == <<[t |-> "int", dec |-> [neg |-> FALSE, digits |-> <<9, 0, 0, 7, 1, 9, 9, 2, 5, 4, 7, 4, 0, 9, 9, 2>>, exp10 |-> 0]], [t |-> "int", dec |-> [neg |-> FALSE, digits |-> <<9, 0, 0, 7, 1, 9, 9, 2, 5, 4, 7, 4, 0, 9, 9, 3>>, exp10 |-> 0]], [t |-> "int", dec |-> [neg |-> FALSE, digits |-> <<9, 2, 2, 3, 3, 7, 2, 0, 3, 6, 8, 5, 4, 7, 7, 5, 8, 0, 6>>, exp10 |-> 0]], [t |-> "int", dec |-> [neg |-> FALSE, digits |-> <<9, 2, 2, 3, 3, 7, 2, 0, 3, 6, 8, 5, 4, 7, 7, 5, 8, 0, 7>>, exp10 |-> 0]], [t |-> "int", dec |-> [neg |-> TRUE, digits |-> <<9, 0, 0, 7, 1, 9, 9, 2, 5, 4, 7, 4, 0, 9, 9, 3>>, exp10 |-> 0]], [t |-> "int", dec |-> [neg |-> TRUE, digits |-> <<9, 0, 0, 7, 1, 9, 9, 2, 5, 4, 7, 4, 0, 9, 9, 2>>, exp10 |-> 0]], [t |-> "int", dec |-> [neg |-> TRUE, digits |-> <<9, 2, 2, 3, 3, 7, 2, 0, 3, 6, 8, 5, 4, 7, 7, 5, 8, 0, 8>>, exp10 |-> 0]], [t |-> "int", dec |-> [neg |-> TRUE, digits |-> <<9, 2, 2, 3, 3, 7, 2, 0, 3, 6, 8, 5, 4, 7, 7, 5, 8, 0, 7>>, exp10 |-> 0]], IntV(5)>>
CmpOps == <<"==", "!=", "<", ">", "<=", ">=">>
BigIntForms == <<"cc", "dd", "cd", "dc">>       \* c = constant, d = member of the element (@.k left, @.j right)
BigIntCases == [n \in 1..(Len(CmpOps) * Len(BigInts) * Len(BigInts) * Len(BigIntForms)) |->
                  LET nb == Len(BigInts) nf == Len(BigIntForms)
                      o == CmpOps[((n - 1) \div (nb * nb * nf)) + 1]
                      x == BigInts[(((n - 1) \div (nb * nf)) % nb) + 1]
                      y == BigInts[(((n - 1) \div nf) % nb) + 1]
                      f == BigIntForms[((n - 1) % nf) + 1]
                      le == IF f \in {"cc", "cd"} THEN Const(x) ELSE Path("@", <<Child(Kk)>>)
                      re == IF f \in {"cc", "dc"} THEN Const(y) ELSE Path("@", <<Child(Kj)>>) IN
                  [ast |-> Bin(o, le, re), root |-> Members(None, None), elem |-> ObjV(<<Kj, Kk>>, <<y, x>>)]]
\* operand paths of depth 2-3 (@.a.b, @.a.b.c, @.a[0].b, @.a[-1].b): the harness runs each case again with the intermediate
\* containers in other Go representations (gen inside plain, struct, pointer, typed / named map and slice, Keyed / Indexed,
\* mixed); what the path denotes is the same
Ka == <<97>>
Kb == <<98>>
Kc == <<99>>
DeepLeaves == <<IntV(1), IntV(2), StrV(A), BoolV(TRUE), NullV, NothingV>>
DeepShapes == <<"ab", "abc", "a0b", "a-1b">>
DeepOps == <<"==", "!=", "<", ">=", "has", "exists">>
Wrap1(k, v) == IF v.t = "nothing" THEN ObjV(<<>>, <<>>) ELSE ObjV(<<k>>, <<v>>)
DeepCases == [n \in 1..(Len(DeepShapes) * Len(DeepLeaves) * Len(DeepOps)) |->
                LET sh == DeepShapes[((n - 1) \div (Len(DeepLeaves) * Len(DeepOps))) + 1]
                    v == DeepLeaves[(((n - 1) \div Len(DeepOps)) % Len(DeepLeaves)) + 1]
                    o == DeepOps[((n - 1) % Len(DeepOps)) + 1]
                    fr == CASE sh = "ab" -> <<Child(Ka), Child(Kb)>> [] sh = "abc" -> <<Child(Ka), Child(Kb), Child(Kc)>>
                            [] sh = "a0b" -> <<Child(Ka), Nth(0), Child(Kb)>> [] OTHER -> <<Child(Ka), Nth(-1), Child(Kb)>>
                    inner == CASE sh = "ab" -> Wrap1(Kb, v) [] sh = "abc" -> ObjV(<<Kb>>, <<Wrap1(Kc, v)>>)
                               [] sh = "a0b" -> ArrV(<<Wrap1(Kb, v), IntV(7)>>) [] OTHER -> ArrV(<<IntV(7), Wrap1(Kb, v)>>)
                    c == IF o \in {"has", "exists"} THEN Const(BoolV(TRUE)) ELSE Const(IntV(1)) IN
                [ast |-> Bin(o, Path("@", fr), c), root |-> Members(None, None), elem |-> ObjV(<<Ka>>, <<inner>>)]]
(* ------------------------------------------------------------------ multi-valued operands over look-alike values          *)
(* "A multi-valued script is true if ANY combination is true": every value an operand path selects has to be tried, and values   *)
(* of different kinds are different values even when they PRINT alike (1 / "1" / 1.0, true / "true", null / "<nil>" / "null",     *)
(* [] / "[]" / "", {} / "{}" / "map[]" / "", [1,"2"] / [1,2] / "[1 2]", {a:1} / {a:"1"} / "map[a:1]").                            *)
(* Cell table, enumerated and FILTERED by TLC from Script!Expect:                                                                *)
(*   operator shape x ordered pair (x decoy, y target) of one look-alike group x arrangement of the operand's value list         *)
(*   (target last / first / behind a filler / decoy twice) x the fragment that makes the operand multi-valued (wildcard over an   *)
(*   array / object, index union in both listings, key union, slice with and without step, descent, child behind a wildcard with  *)
(*   a member missing in between, nested filter, wildcard behind an index, `$`-rooted wildcard).                                  *)
(* A cell is kept iff the script is TRUE (Expect = "T") and is no longer demanded true once the target y is taken out of the     *)
(* list (Expect # "T"): the verdict then hangs on exactly that one value being tried whatever stands before or behind it.        *)
S1 == StrV(<<49>>)
S2 == StrV(<<50>>)
STrue == StrV(<<116, 114, 117, 101>>)
SFalse == StrV(<<102, 97, 108, 115, 101>>)
SNil == StrV(<<60, 110, 105, 108, 62>>)                   \* "<nil>"
SNull == StrV(<<110, 117, 108, 108>>)
S1p5 == StrV(<<49, 46, 53>>)
SBrk == StrV(<<91, 93>>)                                  \* "[]"
SBrc == StrV(<<123, 125>>)                                \* "{}"
SMap == StrV(<<109, 97, 112, 91, 93>>)                    \* "map[]"
SL12 == StrV(<<91, 49, 32, 50, 93>>)                      \* "[1 2]"
SMa1 == StrV(<<109, 97, 112, 91, 97, 58, 49, 93>>)        \* "map[a:1]"
AlikeGroups == << <<IntV(1), S1, FltV(1, 0)>>, <<BoolV(TRUE), STrue>>, <<BoolV(FALSE), SFalse>>, <<NullV, SNil, SNull>>, <<FltV(3, 1), S1p5>>,
                  <<ArrV(<<>>), SBrk, StrV(<<>>)>>, <<ObjV(<<>>, <<>>), SBrc, SMap, StrV(<<>>)>>,
                  <<ArrV(<<IntV(1), S2>>), ArrV(<<IntV(1), IntV(2)>>), SL12>>, <<ObjV(<<A>>, <<IntV(1)>>), ObjV(<<A>>, <<S1>>), SMa1>> >>
\* ordered pairs <<decoy, target>> of distinct members of one group (by position: values of different kinds are never compared here)
PairsOf(g) == LET n == Len(g) ix == SelectSeq([q \in 1..(n * n) |-> q], LAMBDA q : ((q - 1) \div n) # ((q - 1) % n)) IN
              [q \in 1..Len(ix) |-> <<g[((ix[q] - 1) \div n) + 1], g[((ix[q] - 1) % n) + 1]>>]
AlikePairs == Flat([g \in 1..Len(AlikeGroups) |-> PairsOf(AlikeGroups[g])])
Zf == IntV(7)                                              \* a filler that looks like nothing else
Arrangements == IF Tier = "quick" THEN << <<"x", "y">>, <<"y", "x">>, <<"x", "z", "y">> >>
                ELSE << <<"x", "y">>, <<"y", "x">>, <<"x", "z", "y">>, <<"x", "x", "y">>, <<"z", "x", "y">>, <<"y", "z", "x">> >>
RoleVal(r, x, y) == CASE r = "x" -> x [] r = "y" -> y [] OTHER -> Zf
UIdx(i) == [is |-> FALSE, i |-> i]
UKey(k) == [is |-> TRUE, k |-> k]
Union(us) == [f |-> "union", u |-> us]
Slice(a) == [f |-> "slice", s |-> a]
Desc == [f |-> "desc"]
Filt(e) == [f |-> "filter", e |-> e]
ObjKeys(n) == [i \in 1..n |-> <<96 + i>>]
MultiForms == <<"wild", "owild", "uidx", "uidxr", "ukey", "slice", "slice2", "desc", "wchild", "filt", "nwild", "rwild">>
\* the operand path and the member k (of the element, or of the root for a `$` path) that make it select exactly the values vs
MkForm(fm, vs) ==
    LET n == Len(vs) wrapA == [i \in 1..n |-> ObjV(<<A>>, <<vs[i]>>)] IN
    CASE fm = "wild"   -> [rt |-> "@", fr |-> <<Child(Kk), Wild>>, kv |-> ArrV(vs)]
      [] fm = "owild"  -> [rt |-> "@", fr |-> <<Child(Kk), Wild>>, kv |-> ObjV(ObjKeys(n), vs)]
      [] fm = "uidx"   -> [rt |-> "@", fr |-> <<Child(Kk), Union([i \in 1..n |-> UIdx(i - 1)])>>, kv |-> ArrV(vs)]
      [] fm = "uidxr"  -> [rt |-> "@", fr |-> <<Child(Kk), Union([i \in 1..n |-> UIdx(n - i)])>>, kv |-> ArrV(vs)]
      [] fm = "ukey"   -> [rt |-> "@", fr |-> <<Child(Kk), Union([i \in 1..n |-> UKey(<<96 + i>>)])>>, kv |-> ObjV(ObjKeys(n), vs)]
      [] fm = "slice"  -> [rt |-> "@", fr |-> <<Child(Kk), Slice(<<0, n>>)>>, kv |-> ArrV(vs \o <<Zf>>)]
      [] fm = "slice2" -> [rt |-> "@", fr |-> <<Child(Kk), Slice(<<0, 2 * n, 2>>)>>,
                           kv |-> ArrV([i \in 1..(2 * n) |-> IF (i % 2) = 1 THEN vs[(i + 1) \div 2] ELSE Zf])]
      [] fm = "desc"   -> [rt |-> "@", fr |-> <<Child(Kk), Desc, Child(A)>>, kv |-> ArrV(wrapA)]
      \* (a member without the key in between: a missing value is no value)
      [] fm = "wchild" -> [rt |-> "@", fr |-> <<Child(Kk), Wild, Child(A)>>, kv |-> ArrV(<<wrapA[1], ObjV(<<>>, <<>>)>> \o Tail(wrapA))]
      [] fm = "filt"   -> [rt |-> "@", fr |-> <<Child(Kk), Filt(Bin("!=", Path("@", <<>>), Const(Zf)))>>, kv |-> ArrV(vs \o <<Zf>>)]
      [] fm = "nwild"  -> [rt |-> "@", fr |-> <<Child(Kk), Nth(0), Wild>>, kv |-> ArrV(<<ArrV(vs)>>)]
      [] OTHER         -> [rt |-> "$", fr |-> <<Child(Kk), Wild>>, kv |-> ArrV(vs)]
ScalarV(v) == v.t \in {"null", "bool", "int", "flt", "str"}
NoAst == [op |-> "none"]
\* a constant that orders against y as the operator says (numbers here are 1, 1.0, 1.5; strings: y itself, y + "z", y less its last byte)
OrdConst(o, y) == IF IsNum(y) THEN (CASE o = "<" -> IntV(2) [] o = ">" -> IntV(0) [] OTHER -> y)
                  ELSE IF y.t = "str" THEN (CASE o = "<" -> StrV(y.v \o <<122>>)
                                              [] o = ">" -> IF Len(y.v) > 0 THEN StrV(SubSeq(y.v, 1, Len(y.v) - 1)) ELSE None
                                              [] OTHER -> y)
                  ELSE None
FlipOp(o) == CASE o = "<" -> ">" [] o = ">" -> "<" [] o = "<=" -> ">=" [] OTHER -> "<="
DotStar == <<46, 42>>
ShapeNames == <<"==", "==r", "!=", "!=r", "<", "<=", ">", ">=", "<r", "<=r", ">r", ">=r", "in", "inr", "=~", "=~s", "search", "match",
                "has", "exists", "emptyT", "emptyF", "arith", "length", "not", "&&", "||", "mm", "mmr">>
MJ == Path("@", <<Child(Kj), Wild>>)
ShapeAst(sh, m, x, y) ==
    LET ord(o, rev) == LET c == OrdConst(o, y) IN IF c.t = "none" THEN NoAst ELSE IF rev THEN Bin(FlipOp(o), Const(c), m) ELSE Bin(o, m, Const(c))
        tt == Const(BoolV(TRUE)) IN
    CASE sh = "==" -> IF ScalarV(y) THEN Bin("==", m, Const(y)) ELSE NoAst
      [] sh = "==r" -> IF ScalarV(y) THEN Bin("==", Const(y), m) ELSE NoAst
      [] sh = "!=" -> IF ScalarV(x) THEN Bin("!=", m, Const(x)) ELSE NoAst
      [] sh = "!=r" -> IF ScalarV(x) THEN Bin("!=", Const(x), m) ELSE NoAst
      [] sh \in {"<", "<=", ">", ">="} -> ord(sh, FALSE)
      [] sh = "<r" -> ord("<", TRUE) [] sh = "<=r" -> ord("<=", TRUE) [] sh = ">r" -> ord(">", TRUE) [] sh = ">=r" -> ord(">=", TRUE)
      [] sh = "in" -> IF ScalarV(y) THEN Bin("in", m, Const(ArrV(<<StrV(B), y>>))) ELSE NoAst
      \* the operand's values are the one-member lists [x], [y]: `y in @.k[*]`
      [] sh = "inr" -> IF ScalarV(y) THEN Bin("in", Const(y), m) ELSE NoAst
      [] sh = "=~" -> Bin("=~", m, Const([t |-> "rx", p |-> DotStar]))
      [] sh = "=~s" -> Bin("=~", m, Const(StrV(DotStar)))
      [] sh \in {"search", "match"} -> Bin(sh, m, Const(StrV(DotStar)))
      [] sh \in {"has", "exists"} -> Bin(sh, m, tt)
      [] sh = "emptyT" -> Bin("empty", m, tt)
      [] sh = "emptyF" -> Bin("empty", m, Const(BoolV(FALSE)))
      [] sh = "arith" -> Bin(">", Bin("+", m, Const(IntV(1))), Const(IntV(1)))
      [] sh = "length" -> IF y.t = "str" THEN Bin("==", Un("length", m), Const(IntV(Len(y.v))))
                          ELSE IF y.t = "arr" THEN Bin("==", Un("length", m), Const(IntV(Len(y.v))))
                          ELSE IF y.t = "obj" THEN Bin("==", Un("length", m), Const(IntV(Len(y.k)))) ELSE NoAst
      [] sh = "not" -> Un("!", m)
      [] sh = "&&" -> Bin("&&", m, tt)
      [] sh = "||" -> Bin("||", Const(BoolV(FALSE)), m)
      [] sh = "mm" -> Bin("==", m, MJ)
      [] OTHER -> Bin("==", MJ, m)
ColCase(sh, fm, vs, x, y) ==
    LET vv == IF sh = "inr" THEN [i \in 1..Len(vs) |-> ArrV(<<vs[i]>>)] ELSE vs
        F == MkForm(fm, vv)
        jv == IF sh \in {"mm", "mmr"} THEN ArrV(<<Zf, y>>) ELSE None IN
    [ast |-> ShapeAst(sh, Path(F.rt, F.fr), x, y),
     elem |-> IF F.rt = "@" THEN Members(jv, F.kv) ELSE Members(jv, None),
     root |-> IF F.rt = "$" THEN Members(None, F.kv) ELSE Members(None, None)]
ColOf(sh, fm, arr, x, y) == ColCase(sh, fm, [i \in 1..Len(arr) |-> RoleVal(arr[i], x, y)], x, y)
Sensitive(sh, fm, arr, x, y) ==
    LET full == ColOf(sh, fm, arr, x, y)
        cut == ColOf(sh, fm, SelectSeq(arr, LAMBDA r : r # "y"), x, y) IN
    /\ full.ast.op # "none"
    /\ Expect(full.ast, full.elem, full.root) = "T"
    /\ Expect(cut.ast, cut.elem, cut.root) # "T"
ColCell(p, a, f) == LET x == AlikePairs[p][1] y == AlikePairs[p][2]
                        ss == SelectSeq(ShapeNames, LAMBDA sh : Sensitive(sh, MultiForms[f], Arrangements[a], x, y)) IN
                    [i \in 1..Len(ss) |-> ColOf(ss[i], MultiForms[f], Arrangements[a], x, y) @@ [src |-> "alike"]]
ColCases == Flat([p \in 1..Len(AlikePairs) |-> Flat([a \in 1..Len(Arrangements) |-> Flat([f \in 1..Len(MultiForms) |-> ColCell(p, a, f)])])])

Cases == BinCases \o UnCases \o BareCases \o BigOne \o BigTwo \o RxCases \o BigIntCases \o DeepCases \o ColCases

VARIABLE done
Init == done = FALSE
Next == ~done /\ done' = TRUE /\ ndJsonSerialize("cases.ndjson", Cases) /\ PrintT(<<"NCASES", Len(Cases), NL, NR, NP, Len(ColCases)>>)
Spec == Init /\ [][Next]_done
=============================================================================
