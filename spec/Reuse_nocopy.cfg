SPECIFICATION Spec
CONSTANTS K = 16 MaxLen = 3 NF = 2 Leaky = {} CopiesOut = FALSE
INVARIANTS FunctionOfArgs ReturnedStable
CHECK_DEADLOCK FALSE
