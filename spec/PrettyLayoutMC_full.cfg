SPECIFICATION Spec
CONSTANTS
  MaxW = 44
  Shapes <- TreesMore
INVARIANTS ParsesBack Accepted Perturbed OneLineIffFits DepthRespected Indented Monotone
CHECK_DEADLOCK FALSE
