INIT Init
NEXT Next
CONSTANTS Lens = {1, 2, 3, 4, 5, 6, 7, 8, 9, 10, 11, 12, 13, 14, 15, 16, 17, 18, 19, 20, 21, 22, 23, 25, 30, 40}
Tier = "thorough"
CONSTRAINT Emit
CHECK_DEADLOCK FALSE
