---------------------------- MODULE JsonPathStore ----------------------------
(* The JSONPath store of C13 (DESIGN 6/C13): variable doc, one action per mutating API call      *)
(* (Set, SetOne, Del, DelOne, Remove, RemoveOne, Modify, ModifyOne) whose next-state relation is  *)
(* defined from JsonPath!Locs: the selected set is Locs(path, doc) (SameAsGet), exactly those      *)
(* locations change (Effect), everything else keeps its value (Frame), the *One forms change at    *)
(* most one location (AtMostOne).                                                                 *)
(*                                                                                               *)
(* Allowances (the statement is silent; every reasonable reading is accepted):                    *)
(*  - Set may create the members "along a child/index path": the result must lie between the      *)
(*    minimal effect (only existing selected locations replaced) and the maximal creation          *)
(*    (SetMax) in the member-inclusion order Sub; what exactly is created is not prescribed.       *)
(*  - Del of an array element may null the slot or remove it.                                      *)
(*  - A request is Blocked when the walk meets a scalar it would have to enter, an index outside    *)
(*    an existing array, a member it cannot create, or a last fragment the API documents as         *)
(*    impossible; then an error is an allowed outcome and the document after an error is           *)
(*    unconstrained.  Without Blocked an error is not allowed.  A panic never is.                  *)
(*  - The *One forms may pick any one selected location.                                          *)
EXTENDS JsonPath, Json

\* ------------------------------------------------------------------ tree surgery
RECURSIVE PutAt(_, _, _)
PutAt(n, loc, v) ==
  IF loc = <<>> THEN v
  ELSE LET s == Head(loc) IN
       IF IsK(s) THEN LET j == KeyIdx(n, s.k) IN [n EXCEPT !.o = [@ EXCEPT ![j] = PutAt(@, Tail(loc), v)]]
       ELSE [n EXCEPT !.a = [@ EXCEPT ![s.i + 1] = PutAt(@, Tail(loc), v)]]

InSeq(l, S) == \E q \in 1..Len(S) : S[q] = l
\* IsPrefix(p, l) comes from SequencesExt

\* apply F at every location of S (no location of S lies inside another: paths here have no descent)
RECURSIVE MapAtR(_, _, _, _)
MapAtR(n, S, F(_), q) == IF q > Len(S) THEN n ELSE MapAtR(PutAt(n, S[q], F(At(n, S[q]))), S, F, q + 1)
MapAt(n, S, F(_)) == MapAtR(n, S, F, 1)

\* remove the members at the locations S: object keys disappear, array survivors keep their order
RECURSIVE Rem(_, _, _)
Rem(n, pre, S) ==
  IF IsArr(n) THEN LET keep == SelectSeq([i \in 1..Len(n.a) |-> i], LAMBDA i : ~InSeq(Append(pre, IStep(i - 1)), S)) IN
                   ANode([j \in 1..Len(keep) |-> Rem(n.a[keep[j]], Append(pre, IStep(keep[j] - 1)), S)])
  ELSE IF IsObj(n) THEN LET keep == SelectSeq([i \in 1..Len(n.k) |-> i], LAMBDA i : ~InSeq(Append(pre, KStep(n.k[i])), S)) IN
                   ONode([j \in 1..Len(keep) |-> n.k[keep[j]]], [j \in 1..Len(keep) |-> Rem(n.o[keep[j]], Append(pre, KStep(n.k[keep[j]])), S)])
  ELSE n
RemoveAll(n, S) == Rem(n, <<>>, S)

\* Del as implemented at design time: object keys disappear, array slots become null
RECURSIVE DelN(_, _, _)
DelN(n, pre, S) ==
  IF IsArr(n) THEN ANode([i \in 1..Len(n.a) |-> IF InSeq(Append(pre, IStep(i - 1)), S) THEN Null ELSE DelN(n.a[i], Append(pre, IStep(i - 1)), S)])
  ELSE IF IsObj(n) THEN LET keep == SelectSeq([i \in 1..Len(n.k) |-> i], LAMBDA i : ~InSeq(Append(pre, KStep(n.k[i])), S)) IN
                   ONode([j \in 1..Len(keep) |-> n.k[keep[j]]], [j \in 1..Len(keep) |-> DelN(n.o[keep[j]], Append(pre, KStep(n.k[keep[j]])), S)])
  ELSE n
DelNull(n, S) == DelN(n, <<>>, S)

\* member-inclusion order: b is a with (possibly) more object members, recursively; arrays and scalars as they are
RECURSIVE Sub(_, _)
Sub(x, y) ==
  IF IsArr(x) THEN IsArr(y) /\ Len(x.a) = Len(y.a) /\ \A i \in 1..Len(x.a) : Sub(x.a[i], y.a[i])
  ELSE IF IsObj(x) THEN IsObj(y) /\ \A i \in 1..Len(x.k) : HasKey(y, x.k[i]) /\ Sub(x.o[i], Member(y, x.k[i]))
  ELSE x = y

\* insert or replace a member, keys kept sorted by the order given in the (sorted) key universe of the two docs;
\* comparison of string atoms is not available in TLA+, so objects are compared through HasKey/Member only
\* and AddKey simply appends (key order is irrelevant to every operator of this module except "=" on whole docs,
\* which is why whole-document equality is always taken modulo key order: DocEq).
AddKey(n, k, v) == IF HasKey(n, k) THEN [n EXCEPT !.o = [@ EXCEPT ![KeyIdx(n, k)] = v]] ELSE ONode(Append(n.k, k), Append(n.o, v))
RECURSIVE DocEq(_, _)
DocEq(x, y) ==
  IF IsArr(x) THEN IsArr(y) /\ Len(x.a) = Len(y.a) /\ \A i \in 1..Len(x.a) : DocEq(x.a[i], y.a[i])
  ELSE IF IsObj(x) THEN IsObj(y) /\ Len(x.k) = Len(y.k) /\ \A i \in 1..Len(x.k) : HasKey(y, x.k[i]) /\ DocEq(x.o[i], Member(y, x.k[i]))
  ELSE x = y

\* ------------------------------------------------------------------ Set with creation
Steppers(path) == SelectSeq(path, LAMBDA f : f.f \notin {"root", "at", "bracket"})
Creatable(f) == f.f = "child" \/ (f.f = "nth" /\ f.i >= 0)
Fresh(f) == IF f.f = "child" THEN ONode(<<>>, <<>>) ELSE ANode([j \in 1..(f.i + 1) |-> Null])

RECURSIVE SetMaxR(_, _, _)
\* the most a Set may do: replace every selected member and create every member a child/index path can create
SetMaxR(n, path, v) ==
  IF path = <<>> THEN v
  ELSE LET f == Head(path)
           rest == Tail(path)
           \* a key selected by a child fragment or a union item on an object
           viaKey(m, k) == IF HasKey(m, k) THEN AddKey(m, k, SetMaxR(Member(m, k), rest, v))
                           ELSE IF rest = <<>> THEN AddKey(m, k, v)
                           ELSE IF Creatable(Head(rest)) THEN AddKey(m, k, SetMaxR(Fresh(Head(rest)), rest, v))
                           ELSE m
           viaIdx(m, i) == IF InRange(i, m) THEN LET j == Norm(i, Len(m.a)) IN [m EXCEPT !.a = [@ EXCEPT ![j + 1] = SetMaxR(@, rest, v)]] ELSE m
       IN CASE f.f = "child" -> IF IsObj(n) THEN viaKey(n, f.key) ELSE n
            [] f.f = "nth" -> viaIdx(n, f.i)
            \* descent: the rest applies to the node itself and, with the descent still in place, to every container member the
            \* first application left untouched (an upper bound of what Set may create: a trailing child creates its key in every object)
            [] f.f = "desc" -> LET self == SetMaxR(n, rest, v) IN
                               IF IsArr(n) /\ IsArr(self) /\ Len(self.a) = Len(n.a)
                               THEN [self EXCEPT !.a = [j \in 1..Len(n.a) |-> IF IsCont(n.a[j]) /\ IsCont(self.a[j]) /\ (self.a[j] # v \/ n.a[j] = v)
                                                                              THEN SetMaxR(self.a[j], path, v) ELSE self.a[j]]]
                               ELSE IF IsObj(n) /\ IsObj(self)
                               THEN [self EXCEPT !.o = [j \in 1..Len(self.k) |->
                                        IF HasKey(n, self.k[j]) /\ IsCont(Member(n, self.k[j])) /\ IsCont(self.o[j]) /\ (self.o[j] # v \/ Member(n, self.k[j]) = v)
                                        THEN SetMaxR(self.o[j], path, v) ELSE self.o[j]]]
                               ELSE self
            [] f.f = "union" -> LET RECURSIVE U(_, _)
                                    U(m, j) == IF j > Len(f.items) THEN m
                                               ELSE LET u == f.items[j] IN
                                                    IF IsK(u) THEN U(IF IsObj(m) THEN viaKey(m, u.k) ELSE m, j + 1)
                                                    ELSE U(viaIdx(m, u.i), j + 1)
                                IN U(n, 1)
            [] OTHER -> LET ks == Kids(f, n)
                            RECURSIVE W(_, _)
                            W(m, j) == IF j > Len(ks) THEN m ELSE W(PutAt(m, <<ks[j].s>>, SetMaxR(ks[j].n, rest, v)), j + 1)
                        IN W(n, 1)
SetMax(doc, path, v) == SetMaxR(doc, Steppers(Bind(path, doc)), v)
SetMin(doc, path, v) == MapAt(doc, LocsOnly(Locs(path, doc)), LAMBDA x : v)

\* the walk meets something it cannot pass: an error is then an allowed outcome (see header)
RECURSIVE BlockedR(_, _, _)
BlockedR(n, path, creating) ==
  IF path = <<>> THEN FALSE
  ELSE LET f == Head(path)
           rest == Tail(path)
           into(c) == (rest # <<>> /\ ~IsCont(c)) \/ BlockedR(c, rest, creating)
           missing == rest # <<>> /\ creating /\ ~Creatable(Head(rest))
           viaKey(k) == IF ~IsObj(n) THEN TRUE ELSE IF HasKey(n, k) THEN into(Member(n, k)) ELSE (missing \/ (creating /\ rest # <<>> /\ BlockedR(Fresh(Head(rest)), rest, creating)))
           viaIdx(i) == IF InRange(i, n) THEN into(n.a[Norm(i, Len(n.a)) + 1]) ELSE TRUE
       IN CASE f.f = "child" -> viaKey(f.key)
            [] f.f = "nth" -> viaIdx(f.i)
            [] f.f = "union" -> \E j \in 1..Len(f.items) : IF IsK(f.items[j]) THEN viaKey(f.items[j].k) ELSE viaIdx(f.items[j].i)
            [] OTHER -> ~IsCont(n) \/ LET ks == Kids(f, n) IN \E j \in 1..Len(ks) : into(ks[j].n)
LastFrag(path) == IF path = <<>> THEN "none" ELSE path[Len(path)].f
Impossible(op, path) ==
  CASE op \in {"Set", "SetOne", "Del", "DelOne"} -> LastFrag(path) \in {"none", "root", "at", "bracket", "desc", "slice", "filter"}
    [] op \in {"Remove", "RemoveOne"} -> LastFrag(path) \in {"none", "root", "at", "bracket", "desc"}
    [] OTHER -> LastFrag(path) \in {"none", "desc"}
Blocked(doc, op, path) == Impossible(op, path) \/ HasDesc(path)
                          \/ BlockedR(doc, Steppers(Bind(path, doc)), op \in {"Set", "SetOne"})

\* ------------------------------------------------------------------ modifiers (menu of the checks)
\* "foreign": the modifier returns a value of a foreign Go kind for the data (a plain int64 / string / []any / map / nil on gen data, a
\* gen.Node on simple data); md.v is the value it denotes
\* modifiers that hand back the collection they were given (round 7): "trunc" an array -> the same backing array one element shorter
\* (a re-slice), "grow" an array -> the argument with 7 appended, "mapset" an object -> the same map with member zz = 7; every other
\* element is reported unchanged.  The law is the ordinary one: afterwards the location holds what the modifier returned.
ApplyMod(md, x) == CASE md.m \in {"const", "foreign"} -> md.v [] md.m = "wrap" -> ANode(<<x>>)
                     [] md.m = "trunc" -> (IF IsArr(x) /\ Len(x.a) > 0 THEN ANode(SubSeq(x.a, 1, Len(x.a) - 1)) ELSE x)
                     [] md.m = "grow" -> (IF IsArr(x) THEN ANode(Append(x.a, INode(7))) ELSE x)
                     [] md.m = "mapset" -> (IF IsObj(x) THEN AddKey(x, "zz", INode(7)) ELSE x)
                     [] OTHER -> x    \* "same": reports unchanged

\* ------------------------------------------------------------------ `$` operands that point into the document (round 7)
(* filter "eqp": `@ == $<rp>` / `@.key == $<rp>`, rp a chain of member names [k] and indexes [i] from the root.  The selection of a    *)
(* mutator is the one Get makes in the document BEFORE the call (statement: "select the same locations Get does"), so the operand is     *)
(* resolved in that document once and the fragment becomes the constant filter eqs / eqk; an operand that does not exist is Nothing,      *)
(* which no element equals (the generators only emit operands that exist).                                                               *)
RECURSIVE RAt(_, _)
RAt(n, rp) == IF rp = <<>> THEN <<n>>
              ELSE LET s == Head(rp) IN
                   IF IsK(s) THEN (IF IsObj(n) /\ HasKey(n, s.k) THEN RAt(Member(n, s.k), Tail(rp)) ELSE <<>>)
                   ELSE IF IsArr(n) /\ InRange(s.i, n) THEN RAt(n.a[Norm(s.i, Len(n.a)) + 1], Tail(rp)) ELSE <<>>
ResF(f, root) == IF f.f = "filter" /\ f.op = "eqp"
                 THEN LET r == RAt(root, f.rp)
                          c == IF r = <<>> THEN [n |-> 0] ELSE r[1] IN
                      IF "key" \in DOMAIN f THEN [f |-> "filter", op |-> "eqk", key |-> f.key, c |-> c] ELSE [f |-> "filter", op |-> "eqs", c |-> c]
                 ELSE f
ResM(m, root) == [m EXCEPT !.path = [i \in 1..Len(m.path) |-> ResF(m.path[i], root)]]

\* graft: doc plus whatever mx has along the single location l (creation for the *One forms)
RECURSIVE Graft(_, _, _)
Graft(n, l, mx) ==
  IF l = <<>> THEN mx
  ELSE LET s == Head(l) IN
       IF IsK(s) THEN (IF HasKey(n, s.k) THEN AddKey(n, s.k, Graft(Member(n, s.k), Tail(l), Member(mx, s.k))) ELSE AddKey(n, s.k, Member(mx, s.k)))
       ELSE [n EXCEPT !.a = [@ EXCEPT ![s.i + 1] = Graft(@, Tail(l), mx.a[s.i + 1])]]

\* ------------------------------------------------------------------ the action relation
(* Allowed(doc, m, out): out = [r |-> "ok" | "err" | "panic", after |-> doc'] is an allowed outcome of the call *)
(* m = [op, path, v (Set: value), md (Modify: modifier)] in state doc.                                        *)
Sel(doc, m) == LocsOnly(Dedup(Locs(m.path, doc)))
\* the path reaches some location more than once (union listing an item twice, or [-1,0] on a one-element array)
LocDup(doc, path) == Len(Dedup(Locs(path, doc))) < Len(Locs(path, doc))
OkAll(doc, m, S, after) ==
  CASE m.op \in {"Set", "SetOne"} -> Sub(MapAt(doc, SelectSeq(S, LAMBDA l : Exists(doc, l)), LAMBDA x : m.v), after)
    [] m.op \in {"Del", "DelOne"} -> DocEq(after, DelNull(doc, S)) \/ DocEq(after, RemoveAll(doc, S))
    [] m.op \in {"Remove", "RemoveOne"} -> DocEq(after, RemoveAll(doc, S))
    [] OTHER -> DocEq(after, MapAt(doc, S, LAMBDA x : ApplyMod(m.md, x)))
                \* a union that lists an item twice selects the location twice: applying the modifier per listing is a fair reading
                \/ (LocDup(doc, m.path) /\ DocEq(after, MapAt(doc, LocsOnly(Locs(m.path, doc)), LAMBDA x : ApplyMod(m.md, x))))
IsOne(m) == m.op \in {"SetOne", "DelOne", "RemoveOne", "ModifyOne"}
\* the locations a SetOne may set: the selected ones, and the ones creation adds (read off the maximal creation mx; the
\* path is not simply re-evaluated on mx because a filter may stop matching once the new value is in place)
OneCands(doc, m, mx) == Sel(doc, m) \o SelectSeq(LocsOnly(Dedup(Locs(m.path, mx))), LAMBDA l : ~Exists(doc, l))
AllowedOk(doc, m, after) ==
  IF m.op = "Set" THEN OkAll(doc, m, Sel(doc, m), after) /\ Sub(after, SetMax(doc, m.path, m.v))
  ELSE IF m.op = "SetOne" /\ HasDesc(m.path) THEN
    \* SetOne through a descent = SetOne of the rest of the path at the start node or at any container below it (which one is
    \* not prescribed, and creation is judged node by node), or no change when that is possible nowhere
    LET di == CHOOSE i \in 1..Len(m.path) : m.path[i].f = "desc"
        pre == SubSeq(m.path, 1, di - 1)
        rest == <<[f |-> "root"]>> \o SubSeq(m.path, di + 1, Len(m.path))
        starts == LocsOnly(Dedup(Locs(pre, doc)))
        \* (bound: the same judgement, one level down; rest has no descent, so this does not recurse further)
        okAt(l) == Exists(after, l) /\ DocEq(after, PutAt(doc, l, At(after, l)))
                   /\ LET sub == At(doc, l)
                           mx == SetMax(sub, rest, m.v)
                           cand == OneCands(sub, [m EXCEPT !.path = rest], mx) IN
                       cand # <<>> /\ \E q \in 1..Len(cand) : OkAll(sub, [m EXCEPT !.path = rest], <<cand[q]>>, At(after, l))
                                                                /\ Sub(At(after, l), Graft(sub, cand[q], mx))
        hasCand(l) == LET sub == At(doc, l) IN OneCands(sub, [m EXCEPT !.path = rest], SetMax(sub, rest, m.v)) # <<>>
        anyNode(P(_)) == \E a \in 1..Len(starts) : LET ds == DescNodes(At(doc, starts[a]), starts[a]) IN
                                                     \E d \in 1..Len(ds) : IsCont(ds[d].n) /\ P(ds[d].loc)
    IN anyNode(okAt) \/ (DocEq(after, doc) /\ ~anyNode(hasCand))
  ELSE IF m.op = "SetOne" THEN
    LET mx == SetMax(doc, m.path, m.v)
        cand == OneCands(doc, m, mx) IN
    IF cand = <<>> THEN DocEq(after, doc)
    ELSE \E q \in 1..Len(cand) : OkAll(doc, m, <<cand[q]>>, after) /\ Sub(after, Graft(doc, cand[q], mx))
  ELSE LET S == Sel(doc, m) IN
       IF ~IsOne(m) \/ S = <<>> THEN OkAll(doc, m, S, after)
       ELSE IF m.op = "ModifyOne" /\ m.md.m = "same" THEN DocEq(after, doc)
       ELSE \E q \in 1..Len(S) : OkAll(doc, m, <<S[q]>>, after)
\* outside the store's definition: a recursive descent with nested selected locations, and removals through a path that
\* reaches a location twice (removing "the same location" twice is not defined by the statement): anything but a panic
\* (a descent is defined as long as no selected location lies inside another one: then the order of application cannot matter)
NestedSel(S) == \E p, q \in 1..Len(S) : p # q /\ IsPrefix(S[p], S[q])
\* (and Set of a container value through a descent: whether the walk continues into the value just stored is not prescribed)
Undefined(doc, m) == (HasDesc(m.path) /\ (NestedSel(Sel(doc, m)) \/ LocDup(doc, m.path) \/ (m.op \in {"Set", "SetOne"} /\ IsCont(m.v))))
                     \/ (m.op \in {"Remove", "RemoveOne", "Del", "DelOne"} /\ LocDup(doc, m.path))
Allowed(doc, m, out) ==
  CASE out.r = "panic" -> FALSE
    \* the documentation of Modify is silent on a modifier result of a foreign kind: the store law is that the call either reports an error
    \* and leaves the data as it was, or succeeds and the location holds a value denoting the returned one (the ordinary Modify outcome
    \* with md.v) - never success with a different value
    [] out.r = "err" -> Blocked(doc, m.op, m.path)
                        \/ (m.op \in {"Modify", "ModifyOne"} /\ m.md.m = "foreign" /\ DocEq(out.after, doc))
    [] OTHER -> IF Impossible(m.op, m.path) THEN FALSE ELSE Undefined(doc, m) \/ AllowedOk(doc, m, out.after)

(* Known defect C13-1 made precise.  The mutators read a slice with their own arithmetic (three copies): bounds        *)
(* normalised by adding the length only (no clamping below -length: nothing selected), absent end = last element, END   *)
(* INCLUSIVE; M = jp/modify.go (Modify, ModifyOne, and slices before the last fragment of Remove), R = Slice.remove/removeOne     *)
(* (a negative step is anchored at the end bound), S = jp/set.go (Set and Del forms, inner positions; the truncating division    *)
(* keeps the start element of a range that is empty by less than one step).  ImplAllowed is Allowed with every slice of  *)
(* the path read that way.  It never accepts anything: a deviation that it explains exactly gets the locus               *)
(* slice/inclusive-end-reading, every other deviation in the same cell stays an ordinary one.                            *)
MutIdx(f, n, var) ==
  LET st == StepOf(f)
      s0 == IF f.sa THEN 0 ELSE f.s
      s == IF s0 < 0 THEN n + s0 ELSE s0
      e0 == IF f.ea THEN n - 1 ELSE IF f.e < 0 THEN n + f.e ELSE f.e
      e == IF e0 >= n THEN n - 1 ELSE e0
  IN IF st = 0 \/ s < 0 \/ e < 0 \/ s >= n THEN <<>>
     ELSE IF st > 0 THEN (IF e >= s THEN Up(s, e + 1, st, n) ELSE IF var = "S" /\ s - e < st THEN <<s>> ELSE <<>>)
     ELSE IF e <= s THEN (IF var = "R" THEN Down(e + ((s - e) \div (0 - st)) * (0 - st), e - 1, st, n) ELSE Down(s, e - 1, st, n))
     ELSE IF var = "S" /\ e - s < 0 - st THEN <<s>> ELSE <<>>
MutIdxM(f, n) == MutIdx(f, n, "M")
MutIdxR(f, n) == MutIdx(f, n, "R")
MutIdxS(f, n) == MutIdx(f, n, "S")
LastStepper(path) == LET ix == {i \in 1..Len(path) : path[i].f \notin {"root", "at", "bracket"}} IN
                     IF ix = {} THEN 0 ELSE CHOOSE i \in ix : \A j \in ix : j <= i
ImplPath(doc, m) ==
  LET mx == Max2(MaxArrLen(doc), 8) IN
  [i \in 1..Len(m.path) |->
     IF m.path[i].f # "slice" THEN m.path[i]
     ELSE IF m.op \in {"Modify", "ModifyOne"} THEN WithOv(m.path[i], MutIdxM, mx)
     ELSE IF m.op \in {"Remove", "RemoveOne"} THEN (IF i = LastStepper(m.path) THEN WithOv(m.path[i], MutIdxR, mx) ELSE WithOv(m.path[i], MutIdxM, mx))
     ELSE WithOv(m.path[i], MutIdxS, mx)]
ImplAllowed(doc, m, out) == HasSlice(m.path) /\ Allowed(doc, [m EXCEPT !.path = ImplPath(doc, m)], out)

\* the outcome the generator follows (one representative of the allowed set)
Representative(doc, m) ==
  IF Blocked(doc, m.op, m.path) THEN doc
  ELSE LET S == Sel(doc, m)
           S1 == IF S = <<>> THEN <<>> ELSE <<S[1]>> IN
       CASE m.op = "Set" -> SetMax(doc, m.path, m.v)
         [] m.op = "SetOne" -> LET mx == SetMax(doc, m.path, m.v)
                                   cand == OneCands(doc, m, mx) IN
                               IF cand = <<>> THEN doc ELSE Graft(doc, cand[1], mx)
         [] m.op = "Del" -> DelNull(doc, S)
         [] m.op = "DelOne" -> DelNull(doc, S1)
         [] m.op = "Remove" -> RemoveAll(doc, S)
         [] m.op = "RemoveOne" -> RemoveAll(doc, S1)
         [] m.op = "Modify" -> MapAt(doc, S, LAMBDA x : ApplyMod(m.md, x))
         [] OTHER -> IF m.md.m = "same" THEN doc ELSE MapAt(doc, S1, LAMBDA x : ApplyMod(m.md, x))

\* ------------------------------------------------------------------ the store as a state machine (design check, generation)
CONSTANTS MaxSteps
VARIABLES doc, hist, last, doc0
svars == <<doc, hist, last, doc0>>

I(v) == INode(v)
Docs == {
  ANode(<<I(1), I(2), I(3), I(4)>>),
  ONode(<<"a", "b">>, <<I(1), ANode(<<I(2), I(3)>>)>>),
  ANode(<<ONode(<<"a">>, <<I(1)>>), ONode(<<"a", "b">>, <<I(2), I(3)>>), ANode(<<I(4), I(5), I(6)>>)>>),
  ONode(<<"a", "b">>, <<ONode(<<"a", "b">>, <<ANode(<<I(1), I(2)>>), I(3)>>), ANode(<<ONode(<<"a">>, <<I(4)>>), I(5)>>)>>),
  ONode(<<>>, <<>>) }

Sl(s, e, st) == [f |-> "slice", sa |-> s = 99, s |-> IF s = 99 THEN 0 ELSE s, ea |-> e = 99, e |-> IF e = 99 THEN 0 ELSE e,
                 sta |-> st = 99, st |-> IF st = 99 THEN 0 ELSE st]
R == [f |-> "root"]
C(k) == [f |-> "child", key |-> k]
Nn(i) == [f |-> "nth", i |-> i]
W == [f |-> "wild"]
U(items) == [f |-> "union", items |-> items]
Flt == [f |-> "filter", op |-> "gts", key |-> "", c |-> I(2)]
FltK == [f |-> "filter", op |-> "exk", key |-> "a", c |-> Null]
Paths == { <<R, C("a")>>, <<R, C("zz")>>, <<R, Nn(0)>>, <<R, Nn(0 - 1)>>, <<R, Nn(7)>>, <<R, W>>, <<R, Sl(1, 3, 99)>>, <<R, Sl(0, 99, 2)>>,
           <<R, Sl(0 - 1, 0, 0 - 1)>>, <<R, U(<<[i |-> 0], [i |-> 2]>>)>>, <<R, U(<<[k |-> "a"], [k |-> "b"]>>)>>, <<R, U(<<[i |-> 1], [i |-> 1]>>)>>,
           <<R, Flt>>, <<R, FltK>>, <<R>>,
           <<R, C("a"), C("b")>>, <<R, C("b"), Nn(0)>>, <<R, C("x"), C("y")>>, <<R, C("x"), Nn(2)>>, <<R, W, C("a")>>, <<R, W, Nn(0)>>, <<R, W, W>>,
           <<R, Nn(2), Sl(0, 2, 99)>>, <<R, Sl(0, 2, 99), C("a")>>, <<R, Nn(0 - 1), U(<<[i |-> 0], [i |-> 0 - 1]>>)>>, <<R, C("b"), Flt>>,
           <<R, FltK, C("a")>>, <<R, C("a"), W>>, <<R, [f |-> "desc"]>>, <<R, [f |-> "desc"], C("a")>> }
Ops == {"Set", "SetOne", "Del", "DelOne", "Remove", "RemoveOne", "Modify", "ModifyOne"}
Mods == {[m |-> "const", v |-> I(99)], [m |-> "wrap"], [m |-> "same"]}
Calls(op) == IF op \in {"Set", "SetOne"} THEN {[op |-> op, path |-> p, v |-> v] : p \in Paths, v \in {I(99), ANode(<<I(98)>>)}}
             ELSE IF op \in {"Modify", "ModifyOne"} THEN {[op |-> op, path |-> p, md |-> md] : p \in Paths, md \in Mods}
             ELSE {[op |-> op, path |-> p] : p \in Paths}

SInit == doc \in Docs /\ doc0 = doc /\ hist = <<>> /\ last = [before |-> Null, done |-> FALSE]
Do(m) == /\ Len(hist) < MaxSteps
         /\ doc' = Representative(doc, m)
         /\ hist' = Append(hist, m)
         /\ last' = [before |-> doc, done |-> TRUE, m |-> m]
         /\ UNCHANGED doc0
SetCall == \E m \in Calls("Set") : Do(m)
SetOneCall == \E m \in Calls("SetOne") : Do(m)
DelCall == \E m \in Calls("Del") : Do(m)
DelOneCall == \E m \in Calls("DelOne") : Do(m)
RemoveCall == \E m \in Calls("Remove") : Do(m)
RemoveOneCall == \E m \in Calls("RemoveOne") : Do(m)
ModifyCall == \E m \in Calls("Modify") : Do(m)
ModifyOneCall == \E m \in Calls("ModifyOne") : Do(m)
\* (named ...Call because SequencesExt already defines Remove)
SNext == SetCall \/ SetOneCall \/ DelCall \/ DelOneCall \/ RemoveCall \/ RemoveOneCall \/ ModifyCall \/ ModifyOneCall
SSpec == SInit /\ [][SNext]_svars

\* ------------------------------------------------------------------ laws of the store (design check (a))
AllLocs(n) == LET ds == DescNodes(n, <<>>) IN [j \in 1..Len(ds) |-> ds[j].loc]
Touched(l, S) == \E q \in 1..Len(S) : IsPrefix(S[q], l) \/ IsPrefix(l, S[q])
\* location of l after the members S have been removed from their arrays
Reindex(l, S) == [p \in 1..Len(l) |->
                   IF IsK(l[p]) THEN l[p]
                   ELSE IStep(l[p].i - Cardinality({q \in 1..Len(S) : Len(S[q]) = p /\ SubSeq(S[q], 1, p - 1) = SubSeq(l, 1, p - 1)
                                                                       /\ ~IsK(S[q][p]) /\ S[q][p].i < l[p].i}))]
Ran == last.done /\ ~Blocked(last.before, last.m.op, last.m.path)
\* the representative outcome is an allowed outcome
RepAllowed == last.done => Allowed(last.before, last.m, [r |-> IF Blocked(last.before, last.m.op, last.m.path) THEN "err" ELSE "ok", after |-> doc])
\* Frame: every location not touched by the selection keeps its value (re-indexed after removals)
Frame == Ran =>
  LET b == last.before
      m == last.m
      S == IF m.op \in {"Set", "SetOne"} THEN LocsOnly(Locs(m.path, doc)) ELSE Sel(b, m)
      shifts == m.op \in {"Remove", "RemoveOne"} IN
  \A j \in 1..Len(AllLocs(b)) : LET l == AllLocs(b)[j] IN
     Touched(l, S) \/ (LET l2 == IF shifts /\ ~IsOne(m) THEN Reindex(l, S) ELSE l IN
                       IsOne(m) \/ (Exists(doc, l2) /\ DocEq(At(doc, l2), At(b, l))))
\* Effect: after Set / Modify(const) Get at the path returns the new value everywhere; a removed member is gone
Effect == Ran =>
  LET b == last.before
      m == last.m IN
  CASE m.op = "Set" -> \A x \in 1..Len(Locs(m.path, doc)) : Locs(m.path, doc)[x].val = m.v
    [] m.op = "Modify" /\ m.md.m = "const" -> \A q \in 1..Len(Sel(b, m)) : At(doc, Sel(b, m)[q]) = m.md.v
    [] m.op = "Remove" -> Len(AllLocs(doc)) <= Len(AllLocs(b)) - Len(Sel(b, m))
                          /\ \A q \in 1..Len(Sel(b, m)) : LET l == Sel(b, m)[q] IN IsK(l[Len(l)]) => ~Exists(doc, l)
    [] OTHER -> TRUE
\* AtMostOne: a *One call changes at most one member of the selection (and nothing else)
AtMostOne == Ran /\ IsOne(last.m) /\ last.m.op # "SetOne" =>
  LET b == last.before
      S == Sel(b, last.m) IN
  DocEq(doc, b) \/ \E q \in 1..Len(S) : \A j \in 1..Len(AllLocs(b)) : LET l == AllLocs(b)[j] IN
      Touched(l, <<S[q]>>) \/ last.m.op = "RemoveOne" \/ (Exists(doc, l) /\ DocEq(At(doc, l), At(b, l)))

\* generation: one line per reached behaviour (history), replayed into the real code
Emit == hist = <<>> \/ PrintT(<<"BEH", ToJson([init |-> doc0, hist |-> hist])>>)
=============================================================================
