SPECIFICATION Spec
CONSTANTS N = 2 MaxCalls = 2
Menu = {"json", "marshal", "bytes", "parse", "struct", "recompose", "pure"}
Copies = {"json", "marshal", "bytes", "parse", "struct"}
LockedLookup = TRUE PreRegistered = FALSE ExclusivePool = TRUE Scratch = "percall" Gran = "fine"
INVARIANTS Exclusive BufferIsolation NoUnlockedWriteRead SequentialEquivalence
VIEW DesignView
CHECK_DEADLOCK FALSE
