------------------------------ MODULE DiffDeep ------------------------------
(* Behaviour generation for C19, deep and narrow pairs: a chain of Depth containers (arrays  *)
(* and objects along the chain, by pattern) whose deepest container holds three members of   *)
(* which two or three are perturbed, so that several differences lie under one parent at     *)
(* path lengths 3..12.  Every such pair is an initial state (the machine of Diff with b      *)
(* already perturbed); the ignore-path sets offered are: none, one differing path, that path *)
(* with a wildcard last / first component, every unperturbed sibling, and two differing      *)
(* paths together.  Printed in the case format of DiffGen.                                   *)
EXTENDS Diff, Json
CONSTANT DeepFull      \* TRUE: all chain patterns and all replacement combinations

Pats == IF DeepFull THEN {<<"arr">>, <<"obj">>, <<"arr", "obj">>, <<"obj", "arr">>, <<"arr", "arr", "obj">>, <<"obj", "obj", "arr">>}
        ELSE {<<"arr">>, <<"obj">>, <<"arr", "obj">>, <<"obj", "arr">>}
Wrap(kind, x) == IF kind = "arr" THEN Arr(<<In(0), x>>) ELSE Obj(<<"a">>, <<x>>)
RECURSIVE Chain(_, _, _)
\* d containers above `bottom`; container number i (from the top, 1-based) has kind pat[((i - 1) % Len(pat)) + 1]
Chain(d, pat, bottom) == LET RECURSIVE Build(_)
                             Build(i) == IF i > d THEN bottom ELSE Wrap(pat[((i - 1) % Len(pat)) + 1], Build(i + 1))
                         IN Build(1)
Bottom(kind, vs) == IF kind = "arr" THEN Arr(vs) ELSE Obj(<<"a", "b", "c">>, vs)

Orig == <<In(1), In(2), In(3)>>
\* replacement of member j: same kind or another kind
Repl(j) == IF DeepFull THEN {In(j), In(j + 10), St("x")} ELSE {In(j), In(j + 10)}
Variants == {vs \in [1..3 -> UNION {Repl(j) : j \in 1..3}] :
               /\ \A j \in 1..3 : vs[j] \in Repl(j)
               /\ Cardinality({j \in 1..3 : vs[j] # Orig[j]}) >= 2}

DeepCases == {[a |-> Chain(d, pat, Bottom(k, Orig)), b |-> Chain(d, pat, Bottom(k, vs))] :
                 d \in 2..11, pat \in Pats, k \in {"arr", "obj"}, vs \in Variants}

DeepIgs(x, y) ==
   LET tp   == {T.p : T \in Truth(x, y, <<>>)}
       p1   == CHOOSE p \in tp : TRUE
       par  == Front(p1)
       sibs == {Append(par, cc) : cc \in (IF Last(p1).t = "i" THEN {Idx(0), Idx(1), Idx(2)} ELSE {Key("a"), Key("b"), Key("c")})}
   IN {{}, {p1}, {[p1 EXCEPT ![Len(p1)] = Wild]}, {[p1 EXCEPT ![1] = Wild]}}
      \cup {{s} : s \in sibs \ tp}
      \cup {{p1, q} : q \in tp \ {p1}}

DeepInit == \E cs \in DeepCases : a = cs.a /\ b = cs.b /\ np = 2 /\ touched = {} /\ phase = "pert"
DeepNext == FALSE /\ UNCHANGED vars
Emit == PrintT(<<"CASE", ToJson([a |-> a, b |-> b, np |-> np, igs |-> DeepIgs(a, b)])>>)
\* design-level sanity of the generated pairs: at least two differences, all under one parent, at path lengths 3..12
DeepOK == LET tp == {T.p : T \in TruthNow} IN
          /\ Cardinality(tp) >= 2
          /\ \A p \in tp, q \in tp : Len(p) = Len(q) /\ Front(p) = Front(q)
          /\ \A p \in tp : Len(p) \in 3..12
=============================================================================
