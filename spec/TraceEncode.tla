--------------------------- MODULE TraceEncode ---------------------------
(* Trace validation for C15.  trace.ndjson: one event per line                                    *)
(*   [tv, o, gocompat, outs = <<[as, r, m, tree]>>, gj = [r, tree]]                               *)
(* tv = typed projection of the Go value that was encoded, o = options, outs = the encoders       *)
(* grouped by identical output tree (r = ok | fail | invalid), gj = what encoding/json produced.  *)
(* One TStep per event judges, with the operators of Encode:                                      *)
(*   Reference  every output tree is one Pat(tv, o) allows (the option documentation);            *)
(*   Agreement  all encoders describe the same tree (Norm: the one documented exception);         *)
(*   GoCompat   under Go-compatible options and for features both support the tree equals         *)
(*              encoding/json's up to nil-versus-empty containers;                                *)
(*   no encoder fails ("a nil pointer anywhere encodes as null instead of failing").              *)
(* Deviations are collected in TLC register 1 (capped), counted in 3; needs -workers 1.           *)
EXTENDS Encode, Json, TLCExt
CONSTANT MaxBad

Events == ndJsonDeserialize("trace.ndjson")
N == Len(Events)
VARIABLE c
TraceInit == c = 1 /\ TLCSet(1, <<>>) /\ TLCSet(2, 0) /\ TLCSet(3, 0)

\* what could have made an encoder fail: risky positions present in the value (priority order)
RECURSIVE Trig(_)
Trig(tv) == IF tv.g \in {"ptr", "iface"} THEN (IF "cyc" \in DOMAIN tv THEN {"embedded-pointer-cycle"} ELSE {}) \cup (IF tv.nil THEN {} ELSE Trig(tv.a[1]))
            ELSE IF tv.g \in {"slice", "array"} THEN
                 (IF \E i \in 1..Len(tv.a) : IsNilPtr(tv.a[i]) THEN {"nil-pointer-in-slice"} ELSE {}) \cup UNION {Trig(tv.a[i]) : i \in 1..Len(tv.a)}
            ELSE IF tv.g = "map" THEN
                 (IF \E i \in 1..Len(tv.a) : IsNilPtr(tv.a[i]) THEN {"nil-pointer-in-map"} ELSE {}) \cup UNION {Trig(tv.a[i]) : i \in 1..Len(tv.a)}
            ELSE IF tv.g = "struct" THEN
                 (IF "cyc" \in DOMAIN tv THEN {"embedded-pointer-cycle"} ELSE {}) \cup
                 UNION {IF ~tv.f[i].exp THEN {}
                        ELSE (IF tv.f[i].emb /\ IsNilPtr(tv.f[i].v) THEN {"nil-embedded-pointer"} ELSE {})
                             \cup (IF tv.f[i].v.g = "int" /\ tv.f[i].v.name # "" THEN {"named-scalar"} ELSE {})
                             \cup (IF tv.f[i].v.g = "custom" THEN {"custom"} ELSE {})
                             \cup (IF tv.f[i].v.g = "time" THEN {"time-field"} ELSE {})
                             \cup Trig(tv.f[i].v) : i \in 1..Len(tv.f)}
            ELSE {}
Trigger(tv) == LET s == Trig(tv) IN
               IF "embedded-pointer-cycle" \in s THEN "embedded-pointer-cycle" ELSE IF "nil-embedded-pointer" \in s THEN "nil-embedded-pointer" ELSE IF "nil-pointer-in-slice" \in s THEN "nil-pointer-in-slice"
               ELSE IF "nil-pointer-in-map" \in s THEN "nil-pointer-in-map" ELSE IF "named-scalar" \in s THEN "named-scalar"
               ELSE IF "custom" \in s THEN "custom" ELSE IF "time-field" \in s THEN "time-field" ELSE "-"

OptStr(o) == <<IF o.tags THEN "tags" ELSE IF o.exact THEN "exact" ELSE "low", IF o.nest THEN "nest" ELSE "flat",
               IF o.onil THEN "omitnil" ELSE "-", IF o.oempty THEN "omitempty" ELSE "-", IF o.ck # "" THEN "createkey" ELSE "-">>

Judge(e) ==
  LET pat0 == Pat(e.tv, e.o)
      \* entries of the top-level struct are labelled "top" (nested structs keep anon-struct / named-struct)
      pat == IF pat0.p # "obj" THEN pat0
             ELSE [pat0 EXCEPT !.m = [k \in 1..Len(pat0.m) |->
                      IF pat0.m[k].d.ctx \in {"anon-struct", "named-struct"} THEN [pat0.m[k] EXCEPT !.d.ctx = "top"] ELSE pat0.m[k]]]
      oks == SelectSeq(e.outs, LAMBDA g : g.r = "ok")
      withOj == SelectSeq(oks, LAMBDA g : \E k \in 1..Len(g.as) : g.as[k] = "oj.JSON")
      ref == IF withOj # <<>> THEN withOj[1] ELSE IF oks # <<>> THEN oks[1] ELSE [as |-> <<>>, r |-> "none", tree |-> [t |-> "none"]]
      Own(key) == IF e.tv.g = "custom" THEN [NoDescr EXCEPT !.ctx = "top-custom", !.fk = KindOf(e.tv)] ELSE OwnerOf(pat, key, 1)
      \* r = "unparsed": SEN text that sen.Parse does not read back (C10's property), left out
      Fail(g) == IF g.r \in {"ok", "unparsed"} THEN <<>> ELSE <<[i |-> c, kind |-> "fails", as |-> g.as, w |-> g.r, d |-> [NoDescr EXCEPT !.ctx = Trigger(e.tv)],
                                                 o |-> OptStr(e.o), m |-> g.m]>>
      Ref(g) == IF g.r # "ok" THEN <<>> ELSE
                LET dv == Dev(pat, g.tree, NoDescr) IN
                IF dv = <<>> THEN <<>> ELSE <<[i |-> c, kind |-> "not-as-documented", as |-> g.as, w |-> dv[1].w, d |-> dv[1].d, o |-> OptStr(e.o), m |-> ""]>>
      IsDec(g) == \E k \in 1..Len(g.as) : g.as[k] \in {"alt.Decompose", "alt.Decompose/ptr", "alt.Decompose+oj.JSON", "pretty.JSON"}
      Agree(g) == IF g.r # "ok" \/ ref.r # "ok" \/ g.as = ref.as \/ NilEqC(NormP(pat, g.tree, e.o), NormP(pat, ref.tree, e.o)) THEN <<>>
                  ELSE IF PtrRecv(e.tv) \/ (HasMarshaler(e.tv) /\ IsDec(g)) THEN <<>>    \* documented / Go-inherited differences
                  ELSE IF Match(pat, g.tree) # Match(pat, ref.tree) THEN <<>>     \* already explained by the Reference layer
                  ELSE LET x == NormP(pat, g.tree, e.o)  y == NormP(pat, ref.tree, e.o)
                           df == TreeDiff(x, y)
                           \* as-implemented reading of a time.Time struct field: the oj / sen plans write the RFC 3339 string of
                           \* MarshalJSON, the Decompose family the TimeFormat number, {} under NestEmbed, or (pruned) nothing
                           timeField == /\ Own(df.key).fk = <<"time", "-">> /\ x.t = "obj" /\ y.t = "obj" /\ IsDec(g)
                                        /\ df.key \in KeysOf(y) /\ CountK(y, df.key) = 1 /\ ValOf(y, df.key).t = "str"
                                        /\ (df.key \notin KeysOf(x) \/ (CountK(x, df.key) = 1 /\ ValOf(x, df.key).t \in {"num", "obj"}))
                           \* a nil / `,string`-tagged NAMED byte slice (Reference silent): Decompose family writes an array, the writers a string
                           bytesArr == /\ Own(df.key).fk = <<"bytes", "-">> /\ x.t = "obj" /\ y.t = "obj" /\ IsDec(g)
                                       /\ (df.key \notin KeysOf(y) \/ (CountK(y, df.key) = 1 /\ ValOf(y, df.key).t = "str"))
                                       /\ (df.key \notin KeysOf(x) \/ (CountK(x, df.key) = 1 /\ ValOf(x, df.key).t = "arr")) IN
                       <<[i |-> c, kind |-> "disagrees", as |-> g.as,
                          w |-> IF timeField THEN "as-implemented:time-field" ELSE IF bytesArr THEN "as-implemented:bytes-as-array" ELSE df.w,
                          d |-> Own(df.key), o |-> OptStr(e.o), m |-> ref.as[1]]>>
      GoC(g) == IF g.r # "ok" \/ (HasMarshaler(e.tv) /\ IsDec(g)) \/ ~e.gocompat \/ e.gj.r # "ok" \/ ~BothSupport(e.tv) \/ ~Match(pat, g.tree) \/ NilEq(g.tree, e.gj.tree) THEN <<>>
                ELSE LET df == TreeDiff(g.tree, e.gj.tree) IN
                     <<[i |-> c, kind |-> "differs-from-encoding/json", as |-> g.as, w |-> df.w, d |-> Own(df.key), o |-> OptStr(e.o), m |-> ""]>>
      \* encoding/json's own output should satisfy the documented pattern; if not the documentation and encoding/json part ways
      \* (recorded as model drift by the pipeline, not a verdict about ojg)
      Drift == IF e.gocompat /\ e.gj.r = "ok" /\ BothSupport(e.tv) /\ ~Match(pat, e.gj.tree)
               THEN <<[i |-> c, kind |-> "drift", as |-> <<"encoding/json">>, w |-> Dev(pat, e.gj.tree, NoDescr)[1].w,
                       d |-> Dev(pat, e.gj.tree, NoDescr)[1].d, o |-> OptStr(e.o), m |-> ""]>> ELSE <<>>
      RECURSIVE All(_)
      All(k) == IF k > Len(e.outs) THEN <<>> ELSE Fail(e.outs[k]) \o Ref(e.outs[k]) \o Agree(e.outs[k]) \o GoC(e.outs[k]) \o All(k + 1)
  IN All(1) \o Drift

TStep == /\ c <= N /\ c' = c + 1
         /\ LET j == Judge(Events[c]) IN
            /\ (j = <<>> \/ Len(TLCGet(1)) >= MaxBad \/ TLCSet(1, TLCGet(1) \o j))
            /\ (j = <<>> \/ TLCSet(3, TLCGet(3) + Len(j)))
         /\ TLCSet(2, c)
TraceSpec == TraceInit /\ [][TStep]_c
Post == JsonSerialize("out.json", [n |-> TLCGet(2), bad |-> TLCGet(1), nbad |-> TLCGet(3), hits |-> [x \in {} |-> 0]])
=============================================================================
