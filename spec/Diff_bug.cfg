SPECIFICATION Spec
CONSTANTS MaxNodes = 5 MaxPert = 1 Rich = FALSE
INVARIANTS BugOK
CHECK_DEADLOCK FALSE
