INIT FInit
NEXT FNext
CONSTANTS Full = FALSE
INVARIANT Laws
CHECK_DEADLOCK FALSE
