--------------------------- MODULE TraceConverter ---------------------------
(* Trace validation for XCONV part 1 (c): every recorded call of Converter.Convert / ojg.Convert / alt.Alter /       *)
(* alt.Decompose with a Converter is judged against the denotation of Converter.tla.  trace.ndjson, one call per line: *)
(*   {id, part:"conv", api, conv, rules:[{k, mi, ms, ru, rc}], in, out, after, same, panic, facts:[{s, ...}]}          *)
(* in / out = projections of the provided value before the call and of the result; after = projection of the          *)
(* provided value after the call; same = the result is the provided map / slice itself.                               *)
(* One action per call; a call deviates with kind                                                                     *)
(*   panic               the call panicked (D4);                                                                      *)
(*   wrong-value         the result is admissible under none of the readings (locus = first node, walking down from   *)
(*                       the root, at which it leaves the denotation: kind of the node, position, depth, what);       *)
(*   inconsistent        admissible only under readings that earlier calls have excluded (`with` = the calls that      *)
(*                       narrowed `alive`, at most three: together with this call they are the witness);              *)
(*   not-in-place        no rule can apply to the provided map / slice, yet the result is another object or the       *)
(*                       provided value does not show the conversions afterwards (D3);                                *)
(*   original-modified   alt.Decompose ("a deep copy is returned leaving the original data unchanged") changed the    *)
(*                       provided value.                                                                              *)
(* Deviations go to TLC register 1 (capped, all counted).  Needs -workers 1.                                          *)
EXTENDS Converter, Json
CONSTANT MaxBad

Trace == ndJsonDeserialize("trace.ndjson")
N == Len(Trace)

VARIABLES c, alive, pin, hits
tvars == <<c, alive, pin, hits>>
TraceInit == /\ c = 1 /\ alive = Readings /\ pin = <<>> /\ hits = <<>>
             /\ TLCSet(1, <<>>) /\ TLCSet(2, 0) /\ TLCSet(3, 0) /\ TLCSet(4, <<>>) /\ TLCSet(5, Readings)
Bump(h, name) == IF name \in DOMAIN h THEN [h EXCEPT ![name] = @ + 1] ELSE h @@ (name :> 1)
Push(b) == IF Len(TLCGet(1)) >= MaxBad THEN TLCSet(3, TLCGet(3) + 1) ELSE (TLCSet(1, Append(TLCGet(1), b)) /\ TLCSet(3, TLCGet(3) + 1))
RECURSIVE PushAll(_)
PushAll(bs) == IF bs = <<>> THEN TRUE ELSE Push(Head(bs)) /\ PushAll(Tail(bs))
Rec(kind, loc, with) == [i |-> c, kind |-> kind, loc |-> loc, with |-> with]

TCall ==
  /\ c <= N
  /\ LET r == Trace[c]
         C == [kind |-> r.conv, rules |-> r.rules]
         ok == IF r.panic # "" THEN {} ELSE {rd \in Readings : Admissible(C, r.facts, rd, r.in, r.out)}
         narrowed == alive \cap ok
         loc == Loc(C, r.facts, r.in, r.out, "root", 0)
         rootk == <<KindName(r.in), "root", 0>>
         \* D3: only where no reading lets a rule touch the root
         inplace == IF r.api \in {"method", "func"} /\ (PlainArr(r.in) \/ PlainObj(r.in)) /\ ok # {}
                       /\ (\A rd \in ok : RootFree(C, r.facts, rd, r.in)) /\ ~(r.same /\ r.after = r.out)
                    THEN <<Rec("not-in-place", rootk \o <<IF r.same THEN "after-differs" ELSE "other-object">>, <<>>)>> ELSE <<>>
         orig == IF r.api = "decompose" /\ r.panic = "" /\ r.after # r.in
                 THEN <<Rec("original-modified", rootk \o <<"provided-value-changed">>, <<>>)>> ELSE <<>>
         main == IF r.panic # "" THEN <<Rec("panic", rootk \o <<"panic">>, <<>>)>>
                 ELSE IF ok = {} THEN <<Rec("wrong-value", IF loc = <<>> THEN rootk \o <<"other">> ELSE loc, <<>>)>>
                 ELSE IF narrowed = {} THEN <<Rec("inconsistent", rootk \o <<"reading">>, pin)>>
                 ELSE <<>>
     IN /\ PushAll(main \o inplace \o orig)
        /\ hits' = Bump(Bump(hits, r.conv \o "/" \o r.api), "node/" \o KindName(r.in))
        /\ IF r.panic = "" /\ ok # {} /\ narrowed # {} /\ narrowed # alive
           THEN alive' = narrowed /\ pin' = Append(pin, c) ELSE UNCHANGED <<alive, pin>>
  /\ c' = c + 1 /\ TLCSet(2, c) /\ TLCSet(4, hits') /\ TLCSet(5, alive')

TraceNext == TCall
TraceSpec == TraceInit /\ [][TraceNext]_tvars
Post == JsonSerialize("out.json", [n |-> TLCGet(2), bad |-> TLCGet(1), nbad |-> TLCGet(3), hits |-> TLCGet(4),
                                   alive |-> {<<rd.order, rd.pick>> : rd \in TLCGet(5)}])
=============================================================================
