---------------------------- MODULE TokenEvents ----------------------------
(* Extension check XWALK, part 2: the SAX-style EVENT STREAM of the tokenizers (oj.Tokenize, TokenizeString, *)
(* TokenizeLoad, sen.Tokenize...) with an oj.TokenHandler, and the document stream of the callback parsers.  *)
(* C03 compares the VALUE a builder handler assembles from the callbacks; this module specifies the stream   *)
(* itself.  Documented (oj/tokenhandler.go): Null / Bool / String "when a JSON null / true or false / string *)
(* is encountered", ObjectStart/End and ArrayStart/End at the brackets, Key "when a JSON object key is       *)
(* encountered", Int for "a JSON integer", Float for "a JSON decimal ... that fits into a float64", Number   *)
(* for a number "that does not fit into an int64 or float64".                                                 *)
(*                                                                                                            *)
(* 1. Events(v): the event sequence of a document is the pre-order serialisation of its value tree (member   *)
(*    LIST in source order, duplicates kept: one Key per member).                                            *)
(* 2. The consumer's stack machine: variables stk / ndocs, actions Push, Key, Leaf, Pop (and Doc for the      *)
(*    callback parsers); a stream is well formed iff the machine accepts it event by event: Key only directly *)
(*    inside an object and exactly one before each member value, Start/End balanced and matching.            *)
(* 3. Tokens(x): the same events read off the TEXT with their byte positions (a recursive descent over the   *)
(*    grammar of JsonText, string and number denotations of JsonValue), so that "the events of the tokens     *)
(*    that end before byte k" is defined: on an input with an error the events delivered must be a prefix of  *)
(*    the events of some valid completion.                                                                   *)
(* 4. The callback class of a number (ClassOK) and its value (JsonValue!NumOK).                              *)
(* The design check (TokenEventsMC) ties 1, 2 and 3 together.                                                *)
EXTENDS Integers, Sequences, FiniteSets, TLC, SequencesExt
JV == INSTANCE JsonValue WITH MaxLen <- 0, MaxDepth <- 100000, Alpha <- {}, st <- 0, hist <- 0

\* ------------------------------------------------------------------ 1. events of a value
\* values as JsonValue!Denote returns them: [t: null] [t: bool, v] [t: num, dec, plain, minus, huge] [t: str, a, b, c]
\* [t: arr, v: <<..>>] [t: obj, k: <<[a, b, c]..>>, v: <<..>>]   (a/b/c = the admissible / as-implemented string decodings)
\* event: [k |-> "null"|"true"|"false"|"num"|"string"|"key"|"{"|"}"|"["|"]", d |-> payload (<<>> when none)]
Ev(k, d) == [k |-> k, d |-> d]
Cat(ss) == LET F[i \in 0..Len(ss)] == IF i = 0 THEN <<>> ELSE F[i - 1] \o ss[i] IN F[Len(ss)]
RECURSIVE Events(_)
Events(v) ==
  CASE v.t = "null" -> <<Ev("null", <<>>)>>
    [] v.t = "bool" -> <<Ev(IF v.v THEN "true" ELSE "false", <<>>)>>
    [] v.t = "num" -> <<Ev("num", v)>>
    [] v.t = "str" -> <<Ev("string", [a |-> v.a, b |-> v.b, c |-> v.c])>>
    [] v.t = "arr" -> <<Ev("[", <<>>)>> \o Cat([i \in 1..Len(v.v) |-> Events(v.v[i])]) \o <<Ev("]", <<>>)>>
    [] v.t = "obj" -> <<Ev("{", <<>>)>> \o Cat([i \in 1..Len(v.v) |-> <<Ev("key", v.k[i])>> \o Events(v.v[i])]) \o <<Ev("}", <<>>)>>
DocEvents(ds) == Cat([i \in 1..Len(ds) |-> Events(ds[i])])

\* ------------------------------------------------------------------ 2. the consumer's stack machine
\* frames: "A" inside an array, "O" inside an object where a key is due, "V" inside an object after a key (value due)
TopF(s) == IF s = <<>> THEN "top" ELSE s[Len(s)]
CanValue(s) == TopF(s) \in {"top", "A", "V"}
ValueDone(s) == IF s # <<>> /\ s[Len(s)] = "V" THEN [s EXCEPT ![Len(s)] = "O"] ELSE s
Class(k) == CASE k \in {"{", "["} -> "Push" [] k \in {"}", "]"} -> "Pop" [] k = "key" -> "Key" [] k = "doc" -> "Doc" [] OTHER -> "Leaf"
VARIABLES stk, ndocs
mvars == <<stk, ndocs>>
Push(c) == /\ CanValue(stk) /\ stk' = Append(stk, c) /\ UNCHANGED ndocs                \* c = "A" | "O"
Key == /\ TopF(stk) = "O" /\ stk' = [stk EXCEPT ![Len(stk)] = "V"] /\ UNCHANGED ndocs
Leaf == /\ CanValue(stk) /\ stk' = ValueDone(stk) /\ ndocs' = ndocs + (IF stk = <<>> THEN 1 ELSE 0)
Pop(c) == /\ TopF(stk) = c                                                             \* "V" on top = a key without its value
          /\ stk' = ValueDone(SubSeq(stk, 1, Len(stk) - 1)) /\ ndocs' = ndocs + (IF Len(stk) = 1 THEN 1 ELSE 0)
Doc == /\ stk = <<>> /\ ndocs' = ndocs + 1 /\ UNCHANGED stk                            \* a whole document handed to a callback
\* the same machine as a pure step function over event kinds (used by the laws of the design check); BadStk = rejected
BadStk == <<"bad">>
MStepK(s, k) == IF s = BadStk THEN BadStk
                ELSE CASE k = "[" -> IF CanValue(s) THEN Append(s, "A") ELSE BadStk
                       [] k = "{" -> IF CanValue(s) THEN Append(s, "O") ELSE BadStk
                       [] k = "key" -> IF TopF(s) = "O" THEN [s EXCEPT ![Len(s)] = "V"] ELSE BadStk
                       [] k = "]" -> IF TopF(s) = "A" THEN ValueDone(SubSeq(s, 1, Len(s) - 1)) ELSE BadStk
                       [] k = "}" -> IF TopF(s) = "O" THEN ValueDone(SubSeq(s, 1, Len(s) - 1)) ELSE BadStk
                       [] OTHER -> IF CanValue(s) THEN ValueDone(s) ELSE BadStk
RunK(ks) == LET F[i \in 0..Len(ks)] == IF i = 0 THEN <<>> ELSE MStepK(F[i - 1], ks[i]) IN F[Len(ks)]
WellFormed(ks) == RunK(ks) = <<>>

\* ------------------------------------------------------------------ 3. tokens of a text, with positions
\* token: [k, s |-> first byte, e |-> byte after the last, d]; k additionally "," and ":" (no event)
Tk(k, s, e, d) == [k |-> k, s |-> s, e |-> e, d |-> d]
RECURSIVE TkValue(_, _), TkElems(_, _, _), TkMembers(_, _, _)
TkValue(x, p0) ==
  LET p == JV!GWs(x, p0)
      ch == JV!At(x, p)
  IN CASE ch = 110 -> [ts |-> <<Tk("null", p, p + 4, <<>>)>>, p |-> p + 4]
       [] ch = 116 -> [ts |-> <<Tk("true", p, p + 4, <<>>)>>, p |-> p + 4]
       [] ch = 102 -> [ts |-> <<Tk("false", p, p + 5, <<>>)>>, p |-> p + 5]
       [] ch = 34 -> LET s == JV!PStr(x, p) IN [ts |-> <<Tk("string", p, s.p, [a |-> s.a, b |-> s.b, c |-> s.c])>>, p |-> s.p]
       [] ch = 91 -> LET q == JV!GWs(x, p + 1) IN
                     IF JV!At(x, q) = 93 THEN [ts |-> <<Tk("[", p, p + 1, <<>>), Tk("]", q, q + 1, <<>>)>>, p |-> q + 1]
                     ELSE TkElems(x, q, <<Tk("[", p, p + 1, <<>>)>>)
       [] ch = 123 -> LET q == JV!GWs(x, p + 1) IN
                      IF JV!At(x, q) = 125 THEN [ts |-> <<Tk("{", p, p + 1, <<>>), Tk("}", q, q + 1, <<>>)>>, p |-> q + 1]
                      ELSE TkMembers(x, q, <<Tk("{", p, p + 1, <<>>)>>)
       [] OTHER -> LET n == JV!PNum(x, p) IN [ts |-> <<Tk("num", p, n.p, n.v)>>, p |-> n.p]
TkElems(x, p, acc) ==
  LET e == TkValue(x, p)
      q == JV!GWs(x, e.p)
  IN IF JV!At(x, q) = 44 THEN TkElems(x, q + 1, acc \o e.ts \o <<Tk(",", q, q + 1, <<>>)>>)
     ELSE [ts |-> acc \o e.ts \o <<Tk("]", q, q + 1, <<>>)>>, p |-> q + 1]
TkMembers(x, p0, acc) ==
  LET p == JV!GWs(x, p0)
      k == JV!PStr(x, p)
      c == JV!GWs(x, k.p)
      e == TkValue(x, c + 1)
      q == JV!GWs(x, e.p)
      a2 == acc \o <<Tk("key", p, k.p, [a |-> k.a, b |-> k.b, c |-> k.c]), Tk(":", c, c + 1, <<>>)>> \o e.ts
  IN IF JV!At(x, q) = 44 THEN TkMembers(x, q + 1, a2 \o <<Tk(",", q, q + 1, <<>>)>>)
     ELSE [ts |-> a2 \o <<Tk("}", q, q + 1, <<>>)>>, p |-> q + 1]
\* all documents of a valid multi-document text
RECURSIVE TkDocs(_, _, _)
TkDocs(x, p, acc) == LET q == JV!GWs(x, p) IN
                     IF q > Len(x) THEN acc ELSE LET v == TkValue(x, q) IN TkDocs(x, v.p, acc \o v.ts)
Tokens(x) == TkDocs(x, JV!GBom(x), <<>>)
IsEvent(t) == t.k \notin {",", ":"}
EventTokens(x) == SelectSeq(Tokens(x), IsEvent)
\* the documents (values, with the position after each)
RECURSIVE DocsFrom(_, _, _)
DocsFrom(x, p, acc) == LET q == JV!GWs(x, p) IN
                       IF q > Len(x) THEN acc ELSE LET v == JV!PValue(x, q) IN DocsFrom(x, v.p, Append(acc, [v |-> v.v, e |-> v.p]))
Docs(x) == DocsFrom(x, JV!GBom(x), <<>>)

\* multi-document texts: JsonText's automaton, restarted by the first byte of the next document.
\* Only the separations every reading admits are generated: white space, or nothing between a closing bracket / quote and
\* an opening bracket / quote.
MStep(s, b) == IF s.pc = "Done" /\ b \notin JV!WS THEN JV!StartValue([s EXCEPT !.pc = "Top"], b)
               ELSE IF s.stack = <<>> /\ JV!NumEndOK(s.pc) /\ b \in JV!WS THEN [s EXCEPT !.pc = "Done"]
               ELSE JV!Step(s, b)
MRun(x) == FoldLeft(MStep, JV!S0, x)
\* first position at which the automaton is dead (0 = never)
FirstDead(x) == FoldLeft(LAMBDA acc, b : IF acc.at # 0 THEN acc
                                         ELSE LET n == MStep(acc.s, b) IN [s |-> n, at |-> IF JV!Dead(n) THEN acc.i ELSE 0, i |-> acc.i + 1],
                         [s |-> JV!S0, at |-> 0, i |-> 1], x).at
MValid(x) == LET e == MRun(x) IN JV!Accepts(e) /\ FirstDead(x) = 0

\* mutations of a valid base text x: [t |-> "none"] | [t |-> "cut", k] (keep the first k bytes) | [t |-> "swap", k, b] (byte k := b)
Mut(x, m) == CASE m.t = "cut" -> SubSeq(x, 1, m.k)
               [] m.t = "swap" -> [x EXCEPT ![m.k] = m.b]
               [] OTHER -> x
\* swaps that make byte k the first offending byte in EVERY reading: a closing bracket by the other one, ',' <-> ':' (JSON only)
\* (ts = Tokens(x), ev = EventTokens(x): passed in so that they are computed once)
SwapOK(ts, m) == \E i \in 1..Len(ts) : LET t == ts[i] IN
                   t.s = m.k /\ ((t.k = "]" /\ m.b = 125) \/ (t.k = "}" /\ m.b = 93) \/ (t.k = "," /\ m.b = 58) \/ (t.k = ":" /\ m.b = 44))
\* the boundary: tokens with e <= B lie wholly before the point of the error
Boundary(m) == IF m.t = "cut" THEN m.k + 1 ELSE m.k
Definite(ev, m) == SelectSeq(ev, LAMBDA t : t.e <= Boundary(m))
\* the token a cut falls into (<<>> if none): it may complete into ONE more event in some valid completion
Partial(ev, m) == IF m.t # "cut" THEN <<>> ELSE SelectSeq(ev, LAMBDA t : t.s <= m.k /\ t.e > m.k + 1)
OpenAt(ev, m) == LET d == Definite(ev, m) IN
                 Cardinality({i \in 1..Len(d) : d[i].k \in {"{", "["}}) - Cardinality({i \in 1..Len(d) : d[i].k \in {"}", "]"}})

\* ------------------------------------------------------------------ 4. numbers: which callback, which value
\* cls = "int" | "float" | "number"; lit = JsonValue!PNum(..).v.   Strict where every reading agrees:
\*  - a plain integer literal whose magnitude fits int64 -> Int ("-0" may also come as a float);
\*  - a decimal (fraction or exponent) of at most 15 significant digits and a magnitude within 1e-300..1e300 fits a float64 in
\*    every reading -> Float (ALLOW Int when its value is integral: "1.0", "1e2");
\*  - a magnitude of 1e309 or more fits neither -> Number;
\* ALLOW everywhere else (plain integers beyond int64, long decimals, tiny magnitudes): Float or Number (or Int when exact).
Mag(d) == Len(d.digits) + d.exp10
ClassOK(lit, cls) ==
  IF lit.huge THEN TRUE
  ELSE IF lit.plain /\ JV!FitsInt64(lit.dec) THEN (cls = "int" \/ (lit.minus /\ JV!IsZero(lit.dec) /\ cls = "float"))
  ELSE IF lit.plain THEN TRUE
  ELSE IF JV!IsZero(lit.dec) THEN cls \in {"float", "int"}
  ELSE IF Mag(lit.dec) > 309 THEN cls = "number"
  ELSE IF Len(lit.dec.digits) <= 15 /\ Mag(lit.dec) <= 300 /\ Mag(lit.dec) >= -300 THEN cls \in {"float", "int"}
  ELSE TRUE
ClassTag(cls) == CASE cls = "int" -> "int" [] cls = "float" -> "flt" [] cls = "number" -> "big" [] OTHER -> "?"
NumShape(lit) == IF lit.huge THEN "huge-exponent"
                 ELSE IF lit.plain THEN (IF JV!FitsInt64(lit.dec) THEN (IF JV!MagCmp(lit.dec, JV!Top8) >= 0 THEN "plain-int64-top8" ELSE "plain-int64") ELSE "plain-beyond-int64")
                 ELSE IF JV!IsZero(lit.dec) THEN "decimal-zero"
                 ELSE IF Mag(lit.dec) > 309 THEN "decimal-beyond-float64"
                 ELSE IF Len(lit.dec.digits) <= 15 /\ Mag(lit.dec) <= 300 /\ Mag(lit.dec) >= -300 THEN "decimal-fits" ELSE "decimal-long-or-tiny"
\* ------------------------------------------------------------------ 5. source-form values and their rendering (generators)
\* [t |-> "lit", b |-> bytes of null / true / false / a number]  [t |-> "str", b |-> the bytes between the quotes]
\* [t |-> "arr", v |-> <<..>>]  [t |-> "obj", k |-> <<bytes between the quotes>>, v |-> <<..>>] (duplicates allowed)
\* lay: 0 compact, 1 a space after every token, 2 newline + tab after every token and a space before the colon
Sp(lay) == IF lay = 0 THEN <<>> ELSE IF lay = 1 THEN <<32>> ELSE <<10, 9>>
Join(ss, sep) == LET F[i \in 0..Len(ss)] == IF i = 0 THEN <<>> ELSE IF i = 1 THEN ss[1] ELSE F[i - 1] \o sep \o ss[i] IN F[Len(ss)]
RECURSIVE Render(_, _)
Render(v, lay) ==
  CASE v.t = "lit" -> v.b
    [] v.t = "str" -> <<34>> \o v.b \o <<34>>
    [] v.t = "arr" -> <<91>> \o Sp(lay) \o Join([i \in 1..Len(v.v) |-> Render(v.v[i], lay)], <<44>> \o Sp(lay))
                      \o (IF v.v = <<>> THEN <<>> ELSE Sp(lay)) \o <<93>>
    [] v.t = "obj" -> <<123>> \o Sp(lay)
                      \o Join([i \in 1..Len(v.v) |-> <<34>> \o v.k[i] \o <<34>> \o (IF lay = 2 THEN <<32>> ELSE <<>>) \o <<58>> \o Sp(lay) \o Render(v.v[i], lay)],
                              <<44>> \o Sp(lay))
                      \o (IF v.v = <<>> THEN <<>> ELSE Sp(lay)) \o <<125>>
\* several documents: white space between them, or nothing between two containers when tight
RenderDocs(ds, lay, tight) ==
  LET F[i \in 0..Len(ds)] ==
        IF i = 0 THEN <<>> ELSE IF i = 1 THEN Render(ds[1], lay)
        ELSE F[i - 1] \o (IF tight /\ ds[i - 1].t \in {"arr", "obj"} /\ ds[i].t \in {"arr", "obj"} THEN <<>> ELSE IF lay = 2 THEN <<10>> ELSE <<32>>)
             \o Render(ds[i], lay)
  IN F[Len(ds)]
=============================================================================
