SPECIFICATION Spec
CONSTANTS
  TreeNames = {"t_member", "mixed"}
  WrapMaps = {"none", "both"}
  SchemeNames = {"off", "ansi", "markup"}
  Styles = {1}
INVARIANTS Accepted Perturbed StripLaw
CHECK_DEADLOCK FALSE
