------------------------------ MODULE JsonPath ------------------------------
(* JSONPath selection over JSON-like trees (C05, C11, C13; DESIGN 6).                         *)
(*                                                                                          *)
(* Values: the harness/absval "Atoms" projection, re-tagged by harness/jplib so that the kind  *)
(* is the field NAME (TLC orders record fields by interning order, so a tag field is not       *)
(* reliably compared first; records with different field names compare unequal safely):       *)
(*   [z |-> 0] null   [b |-> TRUE]   [i |-> 3]   [s |-> "x"] (string atom)   [x |-> "1.5"] other*)
(*   [a |-> <<nodes>>] array      [k |-> <<keys sorted>>, o |-> <<nodes>>] object              *)
(* Location = sequence of steps [k |-> key] / [i |-> index >= 0].                              *)
(* Path = sequence of fragment records                                                      *)
(*   [f |-> "root"|"at"|"bracket"|"wild"|"desc"]   [f |-> "child", key |-> k]                *)
(*   [f |-> "nth", i |-> n]   [f |-> "union", items |-> <<[k |-> key] | [i |-> n]>>]          *)
(*   [f |-> "slice", sa, s, ea, e, sta, st (, pr)]  sa/ea/sta = bound absent; pr = probes     *)
(*   [f |-> "filter", op |-> "eqk"|"gtk"|"exk"|"eqs"|"gts", key |-> k, c |-> scalar value]    *)
(*                                                                                          *)
(* Locs(path, root) is the selection function of the property statement, one clause per      *)
(* fragment kind, with no notion of "last fragment": position independence is built in.      *)
(* This module has no variables; JsonPathStore adds the store (doc) for C13.                 *)
EXTENDS Integers, Sequences, FiniteSets, TLC, SequencesExt

Min2(a, b) == IF a < b THEN a ELSE b
Max2(a, b) == IF a > b THEN a ELSE b

FlatMap(F(_), s) == FoldLeft(LAMBDA acc, x : acc \o F(x), <<>>, s)
\* indexes i of s (ascending) with P(s[i])
SelectIdx(P(_), s, i0) == SelectSeq([i \in 1..Len(s) |-> i], LAMBDA i : P(s[i]))

\* ------------------------------------------------------------------ values
IsArr(n) == "a" \in DOMAIN n
IsObj(n) == "o" \in DOMAIN n
IsInt(n) == "i" \in DOMAIN n
IsCont(n) == IsArr(n) \/ IsObj(n)
KStep(k) == [k |-> k]
IStep(i) == [i |-> i]
IsK(s) == "k" \in DOMAIN s
HasKey(n, k) == IsObj(n) /\ \E i \in 1..Len(n.k) : n.k[i] = k
KeyIdx(n, k) == CHOOSE i \in 1..Len(n.k) : n.k[i] = k
Member(n, k) == n.o[KeyIdx(n, k)]
ANode(s) == [a |-> s]
ONode(ks, vs) == [k |-> ks, o |-> vs]
INode(i) == [i |-> i]
Null == [z |-> 0]

RECURSIVE At(_, _)
At(n, loc) == IF loc = <<>> THEN n
              ELSE LET s == Head(loc) IN
                   IF IsK(s) THEN At(Member(n, s.k), Tail(loc)) ELSE At(n.a[s.i + 1], Tail(loc))

RECURSIVE Exists(_, _)
Exists(n, loc) == IF loc = <<>> THEN TRUE
                  ELSE LET s == Head(loc) IN
                       IF IsK(s) THEN HasKey(n, s.k) /\ Exists(Member(n, s.k), Tail(loc))
                       ELSE IsArr(n) /\ s.i >= 0 /\ s.i < Len(n.a) /\ Exists(n.a[s.i + 1], Tail(loc))

\* all nodes of a tree with their locations, pre-order, the node itself first
RECURSIVE DescNodes(_, _)
DescNodes(n, pre) ==
  << [loc |-> pre, n |-> n] >> \o
  (IF IsArr(n) THEN FlatMap(LAMBDA i : DescNodes(n.a[i], Append(pre, IStep(i - 1))), [i \in 1..Len(n.a) |-> i])
   ELSE IF IsObj(n) THEN FlatMap(LAMBDA i : DescNodes(n.o[i], Append(pre, KStep(n.k[i]))), [i \in 1..Len(n.o) |-> i])
   ELSE <<>>)

\* every node value occurs once: results can be matched to locations by value
Distinct(root) == LET ns == DescNodes(root, <<>>) IN \A i, j \in 1..Len(ns) : i < j => ns[i].n # ns[j].n

\* the longest array or object (collections that are Keyed and Indexed take slices over their members)
MaxLenAll(root) == LET ns == DescNodes(root, <<>>) IN
                   LET ls == {IF IsArr(ns[i].n) THEN Len(ns[i].n.a) ELSE IF IsObj(ns[i].n) THEN Len(ns[i].n.o) ELSE 0 : i \in 1..Len(ns)} IN
                   CHOOSE m \in ls : \A x \in ls : x <= m
MaxArrLen(root) == LET ns == DescNodes(root, <<>>) IN
                   LET ls == {IF IsArr(ns[i].n) THEN Len(ns[i].n.a) ELSE 0 : i \in 1..Len(ns)} IN
                   CHOOSE m \in ls : \A x \in ls : x <= m

\* ------------------------------------------------------------------ slices
(* The statement: "slice from start (inclusive) to end (exclusive) by step with negative      *)
(* bounds counting from the end and a negative step walking downwards".                      *)
Norm(i, n) == IF i < 0 THEN n + i ELSE i
RECURSIVE Up(_, _, _, _), Down(_, _, _, _)
Up(i, e, st, n) == IF i >= e \/ i >= n THEN <<>>
                   ELSE IF i < 0 THEN Up(i + st * ((st - 1 - i) \div st), e, st, n)
                   ELSE <<i>> \o Up(i + st, e, st, n)
Down(i, e, st, n) == IF i <= e \/ i < 0 THEN <<>>
                     ELSE IF i >= n THEN Down(i + st * (((i - n) \div (0 - st)) + 1), e, st, n)
                     ELSE <<i>> \o Down(i + st, e, st, n)
StepOf(f) == IF f.sta THEN 1 ELSE f.st
\* ojg's Slice cannot tell an absent start from start 0 (both print as "[:e:st]")
StartOpen(f) == f.sa \/ f.s = 0

\* the natural reading: i0 = s', i(k+1) = i(k) + step while before e', keeping indexes inside the array
Natural(f, n) ==
  LET st == StepOf(f)
      s1 == IF f.sa THEN 0 ELSE Norm(f.s, n)
      e1 == IF f.ea THEN (IF st > 0 THEN n ELSE 0 - 1) ELSE Norm(f.e, n)
  IN IF st = 0 THEN <<>> ELSE IF st > 0 THEN Up(s1, e1, st, n) ELSE Down(s1, e1, st, n)

\* RFC 9535 section 2.3.4.2.2 (clamping); absentStart chooses the RFC default for a missing start
Rfc(f, n, absentStart) ==
  LET st == StepOf(f) IN
  IF st = 0 THEN <<>>
  ELSE IF st > 0 THEN
    LET sN == IF absentStart THEN 0 ELSE Norm(f.s, n)
        eN == IF f.ea THEN n ELSE Norm(f.e, n)
    IN Up(Min2(Max2(sN, 0), n), Min2(Max2(eN, 0), n), st, n)
  ELSE
    LET sN == IF absentStart THEN n - 1 ELSE Norm(f.s, n)
        eN == IF f.ea THEN 0 - 1 ELSE Norm(f.e, n)
    IN Down(Min2(Max2(sN, 0 - 1), n - 1), Min2(Max2(eN, 0 - 1), n - 1), st, n)

\* the principal branch of the implementation at design time (jp/get.go, last position, []any)
Principal(f, n) ==
  LET st == StepOf(f)
      s0 == IF f.sa THEN 0 ELSE f.s
      s1 == IF s0 < 0 THEN Max2(n + s0, 0) ELSE s0
      e1 == IF f.ea THEN n ELSE IF f.e < 0 THEN n + f.e ELSE Min2(f.e, n)
  IN IF st = 0 \/ n <= s1 THEN <<>>
     ELSE IF st > 0 THEN Up(s1, e1, st, n) ELSE Down(s1, Max2(e1, 0 - 1), st, n)

(* Strict region (DESIGN 6/C05): the natural reading coincides with RFC 9535, one allowed answer. *)
SliceStrict(f, n) ==
  LET st == StepOf(f)
      s1 == IF f.sa THEN 0 ELSE Norm(f.s, n)
  IN IF st = 0 THEN TRUE
     ELSE IF st > 0 THEN (s1 >= 0 \/ st = 1)
     ELSE ~StartOpen(f) /\ ~f.ea /\ s1 >= 0 /\ s1 <= n - 1

\* the readings a maintainer may reasonably choose outside the strict region
Readings(f, n) == {Natural(f, n), Rfc(f, n, FALSE), Rfc(f, n, StartOpen(f)), Principal(f, n)}

(* pr (optional): what the implementation's Get returns for this fragment alone, in last       *)
(* position, on the arrays [0..n-1], n = 0..Len(pr)-1 (recorded by the harness).  Outside the   *)
(* strict region that recorded choice is the reference every position and evaluator must      *)
(* follow (consistency); ProbeOK judges the recorded choice itself.                           *)
HasProbe(f, n) == "pr" \in DOMAIN f /\ n + 1 <= Len(f.pr)
ProbeOK(f, n) == ~HasProbe(f, n) \/ (IF SliceStrict(f, n) THEN f.pr[n + 1] = Natural(f, n) ELSE f.pr[n + 1] \in Readings(f, n))
(* ov (optional): an override table, index sequence per array length.  It is never part of a recorded case; the trace *)
(* specifications attach it to a copy of the path to evaluate a SECOND, "as-implemented" reading of a slice (the      *)
(* arithmetic of a known defect), used only to name the locus of a deviation precisely - never to accept a result.   *)
SliceIdx(f, n) == IF "ov" \in DOMAIN f THEN (IF n + 1 <= Len(f.ov) THEN f.ov[n + 1] ELSE <<>>)
                  ELSE IF SliceStrict(f, n) THEN Natural(f, n)
                  ELSE IF HasProbe(f, n) THEN f.pr[n + 1] ELSE Principal(f, n)

WithOv(f, Idx(_, _), maxN) == [x \in (DOMAIN f) \cup {"ov"} |-> IF x = "ov" THEN [j \in 1..(maxN + 1) |-> Idx(f, j - 1)] ELSE f[x]]
HasSlice(path) == \E i \in 1..Len(path) : path[i].f = "slice"

(* Known defect C11-2: Locate and Expr.Walk take their bounds from Slice.startEndStep (jp/slice.go), not from Get's    *)
(* arithmetic: a negative end becomes inclusive (size + end + 1), a start at or beyond the size is clamped to the     *)
(* last element, an end below -size is -1 only for a negative step.                                                   *)
StartEndStepIdx(f, n) ==
  LET st == StepOf(f)
      s0 == IF f.sa THEN 0 ELSE f.s
      s1 == IF s0 < 0 THEN n + s0 ELSE IF n <= s0 THEN n - 1 ELSE s0
      s == IF s1 < 0 THEN 0 ELSE s1
      e == IF f.ea THEN n
           ELSE IF f.e < 0 THEN (IF n + f.e + 1 < 0 /\ st < 0 THEN 0 - 1 ELSE n + f.e + 1)
           ELSE IF n < f.e THEN n ELSE f.e
  IN IF st = 0 \/ n = 0 THEN <<>>
     ELSE IF st > 0 THEN Up(s, e, st, n) ELSE Down(s, e, st, n)

\* ------------------------------------------------------------------ filters (small menu; full scripts are C12)
NormA(i, n) == IF i < 0 THEN n + i ELSE i
InRangeA(i, n) == "a" \in DOMAIN n /\ NormA(i, Len(n.a)) >= 0 /\ NormA(i, Len(n.a)) < Len(n.a)
\* the values a sub-path `@.k<fr>` of a script yields, fr = wildcard or a (strict-region) slice
SubVals(fr, n) == IF fr.f = "wild" THEN (IF IsArr(n) THEN n.a ELSE IF IsObj(n) THEN n.o ELSE <<>>)
                  ELSE IF IsArr(n) THEN LET ix == SliceIdx(fr, Len(n.a)) IN [j \in 1..Len(ix) |-> n.a[ix[j] + 1]] ELSE <<>>
(* "mm"  `@.ka<fa> == @.kb<fb>`: both operands multi-valued; true when SOME pair of values is equal (scalars)            *)
(* "eqr" `@.key == $.rk`: the right operand is taken from the ROOT of the evaluation; Bind (below) copies it into the   *)
(*       fragment (hr = the root has the member, rv = its value) before Locs runs, so that Kids needs no root argument. *)
(* null-sensitive scripts (documented script semantics, as in spec/Script.tla: a missing path is Nothing; values of       *)
(* different kinds are unequal; null == null; != is the complement): "eqnull" `@.k == null` a PRESENT null member,          *)
(* "nenull" `@.k != null`, "eqnothing" `@.k == Nothing` an ABSENT member, "nenothing" `@.k != Nothing`.  (has / exists on a   *)
(* present null member is left open by the documentation and is not in the menu.)                                          *)
(* numbers: [i |-> n] and floats [fq |-> <<n, k>>] = n / 2^k (small dyadic rationals are exact).  "cmpk" `@.key <cmp> c`, "cmps" `@ <cmp> c`   *)
(* (sw: operands swapped), cmp in lt, gt, le, ge, c an int or float constant: as spec/Script.tla states, numbers compare BY VALUE across int    *)
(* and float, and an ordering between values of different kinds (a number and null / Nothing / a string / a container) is false.                *)
IsNum(n) == "i" \in DOMAIN n \/ "fq" \in DOMAIN n
RECURSIVE Pow2(_)
Pow2(k) == IF k <= 0 THEN 1 ELSE 2 * Pow2(k - 1)
NumN(n) == IF "i" \in DOMAIN n THEN n.i ELSE n.fq[1]
NumK(n) == IF "i" \in DOMAIN n THEN 0 ELSE n.fq[2]
NumLt(x, y) == NumN(x) * Pow2(NumK(y)) < NumN(y) * Pow2(NumK(x))
NumCmpOp(cmp, x, y) == IsNum(x) /\ IsNum(y) /\
                       CASE cmp = "lt" -> NumLt(x, y) [] cmp = "gt" -> NumLt(y, x) [] cmp = "le" -> ~NumLt(y, x) [] OTHER -> ~NumLt(x, y)
\* the values of a sub-path `<base><fr>`, fr a wildcard, slice or index-union fragment
FragVals(fr, n) == IF fr.f = "union" THEN LET its == SelectSeq(fr.items, LAMBDA u : ~IsK(u) /\ InRangeA(u.i, n)) IN
                                          [j \in 1..Len(its) |-> n.a[NormA(its[j].i, Len(n.a)) + 1]]
                   ELSE SubVals(fr, n)
(* "mc" `@.key<fr> <cmp> c` (sw: `c <cmp> @.key<fr>`), cmp eq / ne, c a scalar constant: a MULTI-valued `@` operand whose values may be       *)
(* look-alikes of different kinds (1 and "1", true and "true", null and "<nil>"): any-pair semantics, values of different kinds are unequal,    *)
(* an operand that selects nothing is Nothing (spec/Script.tla).                                                                              *)
FilterTrue(f, e) ==
  CASE f.op = "mc" -> LET vs == IF HasKey(e, f.key) THEN FragVals(f.fr, Member(e, f.key)) ELSE <<>>
                          L == IF vs = <<>> THEN << [n |-> 0] >> ELSE vs IN
                      \E i \in 1..Len(L) : IF f.cmp = "eq" THEN L[i] = f.c ELSE L[i] # f.c
    [] f.op = "cmps" -> IF f.sw THEN NumCmpOp(f.cmp, f.c, e) ELSE NumCmpOp(f.cmp, e, f.c)
    [] f.op = "cmpk" -> HasKey(e, f.key) /\ (IF f.sw THEN NumCmpOp(f.cmp, f.c, Member(e, f.key)) ELSE NumCmpOp(f.cmp, Member(e, f.key), f.c))
    [] f.op = "eqnull" -> HasKey(e, f.key) /\ Member(e, f.key) = [z |-> 0]
    [] f.op = "nenull" -> ~(HasKey(e, f.key) /\ Member(e, f.key) = [z |-> 0])
    \* the element itself compared (true on null / scalar / container elements as the documented semantics say: values of
    \* different kinds are unequal, != is the complement): "nes" `@ != c`, "nek" `@.k != c` (a missing member is Nothing, unequal to c)
    [] f.op = "nes" -> e # f.c
    [] f.op = "nek" -> ~(HasKey(e, f.key) /\ Member(e, f.key) = f.c)
    [] f.op = "eqnothing" -> ~HasKey(e, f.key)
    [] f.op = "nenothing" -> HasKey(e, f.key)
    [] f.op = "mm" -> HasKey(e, f.ka) /\ HasKey(e, f.kb) /\
                      LET A == SubVals(f.fa, Member(e, f.ka))
                          B == SubVals(f.fb, Member(e, f.kb)) IN
                      \E i \in 1..Len(A), j \in 1..Len(B) : ~IsCont(A[i]) /\ A[i] = B[j]
    \* "mr" `@.key <cmp> $.rk<rf>` (sw: operands swapped): the `$`-rooted operand is multi-valued (wildcard, index union, slice on the
    \* member rk of the ROOT, or `$..rk`); Bind copies its values into the fragment (rvs).  As in spec/Script.tla: an operand that selects
    \* nothing is the single value Nothing, the comparison is true when SOME pair of values satisfies it, values of different kinds are
    \* unequal, `<` holds between numbers only (the operands of the generated cases are small integers).
    [] f.op = "mr" -> "rvs" \in DOMAIN f /\
                      LET Nth0 == [n |-> 0]                                          \* Nothing
                          L == IF HasKey(e, f.key) THEN <<Member(e, f.key)>> ELSE <<Nth0>>
                          R == IF f.rvs = <<>> THEN <<Nth0>> ELSE f.rvs
                          Cmp(x, y) == CASE f.cmp = "eq" -> x = y
                                         [] f.cmp = "ne" -> x # y
                                         [] OTHER -> IsInt(x) /\ IsInt(y) /\ x.i < y.i IN
                      \E i \in 1..Len(L), j \in 1..Len(R) : IF f.sw THEN Cmp(R[j], L[i]) ELSE Cmp(L[i], R[j])
    [] f.op = "eqr" -> "hr" \in DOMAIN f /\ f.hr /\ HasKey(e, f.key) /\ Member(e, f.key) = f.rv
    [] f.op = "eqk" -> HasKey(e, f.key) /\ Member(e, f.key) = f.c
    [] f.op = "gtk" -> HasKey(e, f.key) /\ IsInt(Member(e, f.key)) /\ IsInt(f.c) /\ Member(e, f.key).i > f.c.i
    [] f.op = "exk" -> HasKey(e, f.key)
    [] f.op = "eqs" -> e = f.c
    [] f.op = "gts" -> IsInt(e) /\ IsInt(f.c) /\ e.i > f.c.i
    [] OTHER -> FALSE

\* ------------------------------------------------------------------ one fragment applied to one node
(* Kids: the members selected by a stepping fragment, in the order the fragment generates them. *)
(* o = TRUE when that order is an obligation (array order, slice direction, union listing),      *)
(* FALSE for members of an object reached by wildcard/filter (Go map order is free); r = rank.   *)
Kid(s, n, o, r) == [s |-> s, n |-> n, o |-> o, r |-> r]
InRange(i, n) == IsArr(n) /\ Norm(i, Len(n.a)) >= 0 /\ Norm(i, Len(n.a)) < Len(n.a)
NthKid(i, n, r) == LET j == Norm(i, Len(n.a)) IN Kid(IStep(j), n.a[j + 1], TRUE, r)
Kids(f, n) ==
  CASE f.f = "child" -> IF HasKey(n, f.key) THEN << Kid(KStep(f.key), Member(n, f.key), TRUE, 0) >> ELSE <<>>
    [] f.f = "nth" -> IF InRange(f.i, n) THEN << NthKid(f.i, n, 0) >> ELSE <<>>
    [] f.f = "wild" -> IF IsArr(n) THEN [i \in 1..Len(n.a) |-> Kid(IStep(i - 1), n.a[i], TRUE, i)]
                       ELSE IF IsObj(n) THEN [i \in 1..Len(n.o) |-> Kid(KStep(n.k[i]), n.o[i], FALSE, i)]
                       ELSE <<>>
    [] f.f = "union" -> FlatMap(LAMBDA j : LET u == f.items[j] IN
                                   IF IsK(u) THEN (IF HasKey(n, u.k) THEN << Kid(KStep(u.k), Member(n, u.k), TRUE, j) >> ELSE <<>>)
                                   ELSE (IF InRange(u.i, n) THEN << NthKid(u.i, n, j) >> ELSE <<>>),
                                [j \in 1..Len(f.items) |-> j])
    [] f.f = "slice" -> IF IsArr(n) THEN LET ix == SliceIdx(f, Len(n.a)) IN
                                              [j \in 1..Len(ix) |-> Kid(IStep(ix[j]), n.a[ix[j] + 1], TRUE, j)]
                        ELSE <<>>
    [] f.f = "filter" -> IF IsArr(n) THEN LET ix == SelectIdx(LAMBDA e : FilterTrue(f, e), n.a, 1) IN
                                               [j \in 1..Len(ix) |-> Kid(IStep(ix[j] - 1), n.a[ix[j]], TRUE, j)]
                         ELSE IF IsObj(n) THEN LET ix == SelectIdx(LAMBDA e : FilterTrue(f, e), n.o, 1) IN
                                               [j \in 1..Len(ix) |-> Kid(KStep(n.k[ix[j]]), n.o[ix[j]], FALSE, j)]
                         ELSE <<>>
    [] OTHER -> <<>>

\* ------------------------------------------------------------------ the selection function
Free(k) == [j \in 1..k |-> [o |-> FALSE, r |-> 0]]
RECURSIVE LocsR(_, _, _, _, _)
(* result entries [loc, val, ok]; ok has one [o, r] per location step (see Kids)              *)
LocsR(path, n, pre, oks, root) ==
  IF path = <<>> THEN << [loc |-> pre, val |-> n, ok |-> oks] >>
  ELSE LET f == Head(path)
           rest == Tail(path)
       IN CASE f.f = "root" -> LocsR(rest, root, <<>>, <<>>, root)
            [] f.f \in {"at", "bracket"} -> LocsR(rest, n, pre, oks, root)
            \* steps taken by a descent: an array index is order-obligated (elements of one array keep their index order in every
            \* result, also under a trailing descent), a member key is free; how different parents interleave is not prescribed
            [] f.f = "desc" -> FlatMap(LAMBDA d : LocsR(rest, d.n, d.loc,
                                                        oks \o [j \in 1..(Len(d.loc) - Len(pre)) |->
                                                                  LET st == d.loc[Len(pre) + j] IN IF IsK(st) THEN [o |-> FALSE, r |-> 0] ELSE [o |-> TRUE, r |-> st.i]],
                                                        root), DescNodes(n, pre))
            [] OTHER -> FlatMap(LAMBDA k : LocsR(rest, k.n, Append(pre, k.s), Append(oks, [o |-> k.o, r |-> k.r]), root), Kids(f, n))
\* copy what a script reads from the root (`$.rk`) into its filter fragment
\* the values of `$.rk<rf>` / `$..rk` on the root
RootVals(f, root) ==
  IF f.rf.f = "desc" THEN LET ds == SelectSeq(DescNodes(root, <<>>), LAMBDA d : HasKey(d.n, f.rk)) IN [j \in 1..Len(ds) |-> Member(ds[j].n, f.rk)]
  ELSE IF ~HasKey(root, f.rk) THEN <<>>
  ELSE IF f.rf.f = "union" THEN LET m == Member(root, f.rk)
                                    its == SelectSeq(f.rf.items, LAMBDA u : ~IsK(u) /\ InRange(u.i, m)) IN
                                [j \in 1..Len(its) |-> m.a[Norm(its[j].i, Len(m.a)) + 1]]
  ELSE SubVals(f.rf, Member(root, f.rk))
BindF(f, root) == IF f.f = "filter" /\ f.op = "mr"
                  THEN [x \in (DOMAIN f) \cup {"rvs"} |-> IF x = "rvs" THEN RootVals(f, root) ELSE f[x]]
                  ELSE IF f.f = "filter" /\ f.op = "eqr"
                  THEN [x \in (DOMAIN f) \cup {"hr", "rv"} |->
                          IF x = "hr" THEN HasKey(root, f.rk)
                          ELSE IF x = "rv" THEN (IF HasKey(root, f.rk) THEN Member(root, f.rk) ELSE [z |-> 0])
                          ELSE f[x]]
                  ELSE f
Bind(path, root) == [i \in 1..Len(path) |-> BindF(path[i], root)]
Locs(path, root) == LocsR(Bind(path, root), root, <<>>, <<>>, root)
\* ------------------------------------------------------------------ collections that are Keyed AND Indexed (C11)
(* An ordered map that implements both jp.Keyed and jp.Indexed holds an object whose members are reachable by name and by *)
(* position (position = rank of the key; the harness builds it in sorted key order).  Under that reading (bi = TRUE) an    *)
(* index, a slice and the integer members of a union apply to an object as they apply to the array of its member values;   *)
(* the location of a member is always its KEY step (one location per member).  Everything else is Kids.  The statement     *)
(* does not say in which order a wildcard or filter visits such a collection: free, as for every object.                   *)
AsArr(n) == [a |-> n.o]
KeyKid(n, k) == Kid(KStep(n.k[k.s.i + 1]), k.n, k.o, k.r)
Kids2(f, n, bi) ==
  IF ~(bi /\ IsObj(n)) THEN Kids(f, n)
  ELSE CASE f.f \in {"nth", "slice"} -> LET ks == Kids(f, AsArr(n)) IN [j \in 1..Len(ks) |-> KeyKid(n, ks[j])]
         [] f.f = "union" -> FlatMap(LAMBDA j : LET u == f.items[j] IN
                                        IF IsK(u) THEN (IF HasKey(n, u.k) THEN << Kid(KStep(u.k), Member(n, u.k), TRUE, j) >> ELSE <<>>)
                                        ELSE (IF InRange(u.i, AsArr(n)) THEN << KeyKid(n, NthKid(u.i, AsArr(n), j)) >> ELSE <<>>),
                                     [j \in 1..Len(f.items) |-> j])
         [] OTHER -> Kids(f, n)

\* ------------------------------------------------------------------ Go structs: the as-implemented reading of known defect C11-3
(* md = [bi, si, cls].  si names which objects the representation holds as Go structs: "m" the tag-menu struct M (key set   *)
(* A,B,C,D,Emb; its member Emb {E} is the embedded struct), "s" the structs S1..S3 (key sets a / a,b / a,b,c), "none".        *)
(* With si = "none" LocsX is the statement's selection (Locs, or the Keyed+Indexed reading when bi).  With si # "none" it is  *)
(* the SECOND reading, a transcription of what ojg does with structs today (C11-3), used ONLY to classify a deviation as the  *)
(* known defect when the observation equals it exactly - never to accept a result:                                           *)
(*   every evaluator   a filter applied to a struct selects nothing (Script.evalWithRoot has no struct arm);                  *)
(*   cls = "F" (First, FirstFound, Has)   a wildcard over a struct that is not the last fragment follows only the LAST        *)
(*                     exported field (reflectGetWildOne), and a descent does not go below a struct; cls = "F1": the same,  *)
(*                     except that a struct at which a descent STARTS is opened one level (First's stack machine pushes     *)
(*                     the reflected members of the start node).  An observation of First / FirstFound / Has is the known   *)
(*                     defect when it equals the F, the F1 or the F0 selection (F0: a descent does not even apply the rest   *)
(*                     of the path to a struct node itself - Has on `$..*` over a struct).                                   *)
(* Members of a struct are all its exported fields, the one tagged json:"-" included, in every evaluator (the statement is    *)
(* silent on tags; the harness declares the abstract object that way), so a wildcard / descent / child / union over a struct  *)
(* is judged like over any object.                                                                                          *)
MKeySeq == <<"A", "B", "C", "D", "Emb">>
IsSt(n, md) == IsObj(n) /\ (CASE md.si = "m" -> n.k = MKeySeq \/ n.k = <<"E">>
                              [] md.si = "s" -> n.k \in {<<"a">>, <<"a", "b">>, <<"a", "b", "c">>}
                              [] OTHER -> FALSE)
KidsX(f, n, md, last) ==
  IF IsSt(n, md) THEN
    CASE f.f = "filter" -> <<>>
      [] f.f = "wild" /\ md.cls \in {"F", "F1", "F0"} /\ ~last -> LET ks == Kids(f, n) IN IF ks = <<>> THEN <<>> ELSE << ks[Len(ks)] >>
      [] OTHER -> Kids(f, n)
  ELSE Kids2(f, n, md.bi)
RECURSIVE DescNodesX(_, _, _)
DescNodesX(n, pre, md) ==
  << [loc |-> pre, n |-> n] >> \o
  (IF IsArr(n) THEN FlatMap(LAMBDA i : DescNodesX(n.a[i], Append(pre, IStep(i - 1)), md), [i \in 1..Len(n.a) |-> i])
   ELSE IF IsObj(n) /\ ~(md.cls \in {"F", "F1", "F0"} /\ IsSt(n, md)) THEN FlatMap(LAMBDA i : DescNodesX(n.o[i], Append(pre, KStep(n.k[i])), md), [i \in 1..Len(n.o) |-> i])
   ELSE <<>>)
\* cls "F1": as "F", but a struct that is the START node of a descent is opened (its members are visited; structs below stay closed)
DescTopX(n, pre, md) ==
  IF md.cls = "F1" /\ IsSt(n, md)
  THEN << [loc |-> pre, n |-> n] >> \o FlatMap(LAMBDA i : DescNodesX(n.o[i], Append(pre, KStep(n.k[i])), md), [i \in 1..Len(n.o) |-> i])
  ELSE IF md.cls = "F0" THEN SelectSeq(DescNodesX(n, pre, md), LAMBDA d : ~IsSt(d.n, md))
  ELSE DescNodesX(n, pre, md)
RECURSIVE LocsRX(_, _, _, _, _, _)
LocsRX(path, n, pre, oks, root, md) ==
  IF path = <<>> THEN << [loc |-> pre, val |-> n, ok |-> oks] >>
  ELSE LET f == Head(path)
           rest == Tail(path)
       IN CASE f.f = "root" -> LocsRX(rest, root, <<>>, <<>>, root, md)
            [] f.f \in {"at", "bracket"} -> LocsRX(rest, n, pre, oks, root, md)
            [] f.f = "desc" -> FlatMap(LAMBDA d : LocsRX(rest, d.n, d.loc,
                                                         oks \o [j \in 1..(Len(d.loc) - Len(pre)) |->
                                                                   LET st == d.loc[Len(pre) + j] IN IF IsK(st) THEN [o |-> FALSE, r |-> 0] ELSE [o |-> TRUE, r |-> st.i]],
                                                         root, md), DescTopX(n, pre, md))
            [] OTHER -> FlatMap(LAMBDA k : LocsRX(rest, k.n, Append(pre, k.s), Append(oks, [o |-> k.o, r |-> k.r]), root, md), KidsX(f, n, md, rest = <<>>))
LocsX(path, root, md) == LocsRX(Bind(path, root), root, <<>>, <<>>, root, md)
Locs2(path, root, bi) == IF bi THEN LocsX(path, root, [bi |-> TRUE, si |-> "none", cls |-> "G"]) ELSE Locs(path, root)
Vals(E) == [i \in 1..Len(E) |-> E[i].val]
LocsOnly(E) == [i \in 1..Len(E) |-> E[i].loc]
Get(path, root) == Vals(Locs(path, root))

HasDesc(path) == \E i \in 1..Len(path) : path[i].f = "desc"
EndsDesc(path) == path # <<>> /\ path[Len(path)].f = "desc"
UnionDup(path) == \E i \in 1..Len(path) : path[i].f = "union" /\ \E a, b \in 1..Len(path[i].items) : a < b /\ path[i].items[a] = path[i].items[b]

\* ------------------------------------------------------------------ comparing an observed result list with Locs
Count(x, s) == Cardinality({i \in 1..Len(s) : s[i] = x})
SameBag(a, b) == Len(a) = Len(b) /\ \A i \in 1..Len(a) : Count(a[i], a) = Count(a[i], b)

\* a must come before b: they first differ at a step whose order is an obligation
FirstDiff(a, b) == LET m == Min2(Len(a.loc), Len(b.loc))
                       ds == {p \in 1..m : a.loc[p] # b.loc[p] \/ a.ok[p].r # b.ok[p].r} IN
                   IF ds = {} THEN 0 ELSE CHOOSE p \in ds : \A q \in ds : p <= q
MustPrecede(a, b) == LET p == FirstDiff(a, b) IN p > 0 /\ a.ok[p].o /\ a.ok[p].r < b.ok[p].r
\* siblings under the last fragment (the only order obligation kept for paths with a descent)
SibPrecede(a, b) == Len(a.loc) = Len(b.loc) /\ Len(a.loc) > 0
                    /\ SubSeq(a.loc, 1, Len(a.loc) - 1) = SubSeq(b.loc, 1, Len(b.loc) - 1)
                    /\ a.ok[Len(a.loc)].o /\ a.ok[Len(a.loc)].r < b.ok[Len(b.loc)].r

\* j-th observed value -> index in E: k-th occurrence of a value goes to the k-th entry of E with that value
Assign(E, got) == [j \in 1..Len(got) |->
                     LET k == Cardinality({q \in 1..j : got[q] = got[j]})
                         c == {x \in 1..Len(E) : E[x].val = got[j]} IN
                     CHOOSE x \in c : Cardinality({y \in c : y <= x}) = k]
OrderOK(E, got, desc) ==
  \/ Vals(E) = got
  \/ LET as == Assign(E, got) IN
     \A j1, j2 \in 1..Len(got) : j1 < j2 =>
        IF desc THEN ~SibPrecede(E[as[j2]], E[as[j1]]) ELSE ~MustPrecede(E[as[j2]], E[as[j1]])

\* entries of E without later repetitions of a location (a deduplicating Get is a fair reading of "one result per location")
Dedup(E) == LET keep == SelectIdx(LAMBDA i : ~\E j \in 1..(i - 1) : E[j].loc = E[i].loc, [i \in 1..Len(E) |-> i], 1) IN
            [q \in 1..Len(keep) |-> E[keep[q]]]
\* trailing bare descent: the start node(s) of the descent may or may not be reported (allowance)
DropStarts(path, root) ==
  LET E == Locs(path, root)
      starts == LocsOnly(Locs(SubSeq(path, 1, Len(path) - 1), root))
      keep == SelectIdx(LAMBDA e : ~\E s \in 1..Len(starts) : starts[s] = e.loc, E, 1) IN
  [q \in 1..Len(keep) |-> E[keep[q]]]

\* every element of a occurs at least as often in b
SubBagSeq(a, b) == \A i \in 1..Len(a) : Count(a[i], a) <= Count(a[i], b)
(* Verdict on one observed Get result: "ok", "order", or a wrong selection: "extra" (everything   *)
(* expected is there, plus more), "fewer" (nothing unexpected, something missing), "sel" (other). *)
JudgeAgainst(E, got, path, distinct) ==
  IF ~SameBag(Vals(E), got) THEN (IF SubBagSeq(Vals(E), got) THEN "extra" ELSE IF SubBagSeq(got, Vals(E)) THEN "fewer" ELSE "sel")
  ELSE IF ~distinct THEN "ok"      \* equal values at different locations: order cannot be attributed, bag only
  ELSE IF HasDesc(path) /\ Len(Dedup(E)) < Len(E) THEN "ok"   \* descent plus a location reached twice: bag only
  ELSE IF OrderOK(E, got, HasDesc(path)) THEN "ok" ELSE "order"
Better(a, b) == IF a = "ok" \/ b = "ok" THEN "ok" ELSE IF a = "order" \/ b = "order" THEN "order" ELSE a
JudgeGet(path, root, got, distinct) ==
  LET E == Locs(path, root) IN
  IF EndsDesc(path) THEN
    \* trailing bare descent: every nested node is required, each start node may or may not be reported
    \* (allowance); order: the elements of one array appear in index order relative to each other (the statement: "results that come
    \* from array traversal appear in array order"), object members are free, interleaving across different parents is not prescribed
    LET req == Vals(DropStarts(path, root))
        all == Vals(E) IN
    IF SubBagSeq(req, got) /\ SubBagSeq(got, all)
    THEN (IF distinct /\ Len(Dedup(E)) = Len(E) /\ ~OrderOK(E, got, TRUE) THEN "order" ELSE "ok")   \* siblings of one array in index order
    ELSE IF SubBagSeq(req, got) THEN "extra" ELSE IF SubBagSeq(got, all) THEN "fewer" ELSE "sel"
  ELSE
    LET j1 == JudgeAgainst(E, got, path, distinct) IN
    IF j1 # "ok" /\ UnionDup(path) THEN Better(j1, JudgeAgainst(Dedup(E), got, path, distinct)) ELSE j1

\* the same verdict against a given selection E (paths not ending in a bare descent), De = the selection without repeated locations
JudgeSel(E, path, got, distinct) ==
  LET j1 == JudgeAgainst(E, got, path, distinct) IN
  IF j1 # "ok" /\ UnionDup(path) THEN Better(j1, JudgeAgainst(Dedup(E), got, path, distinct)) ELSE j1

\* the order of Get's result is completely fixed by the statement
OrderDefined(E, path) == ~HasDesc(path) /\ \A i \in 1..Len(E) : \A p \in 1..Len(E[i].ok) : E[i].ok[p].o

\* ------------------------------------------------------------------ struct representations (C11)
(* Objects whose key set is {a}, {a,b} or {a,b,c} are held as Go structs by the struct representations of the harness.   *)
(* The child lookup and unions of names are implemented for structs in every evaluator; wildcard, descent and filter are *)
(* the fragments that lack a struct branch in some evaluators (known defect C11-3).  StructFrags names which of those     *)
(* three fragment kinds the path applies to a struct-shaped object: a deviation on a struct representation is attributed *)
(* to C11-3 only when this set is not empty; a deviation on plain child / name-union steps over structs is not.          *)
IsStructObj(n) == IsObj(n) /\ n.k \in {<<"a">>, <<"a", "b">>, <<"a", "b", "c">>}
StructFrags(path, root) ==
  LET hit(j) == LET ns == Locs(SubSeq(path, 1, j - 1), root) IN
                \E q \in 1..Len(ns) :
                   IF path[j].f = "desc" THEN LET ds == DescNodes(ns[q].val, <<>>) IN \E d \in 1..Len(ds) : IsStructObj(ds[d].n)
                   ELSE IsStructObj(ns[q].val)
      has(kind) == \E j \in 1..Len(path) : path[j].f = kind /\ hit(j)
  IN [wild |-> has("wild"), desc |-> has("desc"), filter |-> has("filter")]

\* ------------------------------------------------------------------ locus of a case (DESIGN 3.2)
Prio(f) == CASE f.f = "desc" -> 8 [] f.f = "slice" -> 7 [] f.f = "filter" -> 6 [] f.f = "union" -> 4
             [] f.f = "wild" -> 3 [] f.f = "nth" -> 2 [] f.f = "child" -> 1 [] OTHER -> 0
\* the fragment under test: given by the generator (fx > 0) or the most specific fragment of the path
Focus(path, fx) == IF fx > 0 /\ fx <= Len(path) THEN fx
                   ELSE IF path = <<>> THEN 0
                   ELSE CHOOSE i \in 1..Len(path) : \A j \in 1..Len(path) : Prio(path[j]) < Prio(path[i]) \/ (Prio(path[j]) = Prio(path[i]) /\ i <= j)
BCls(absent, b, n) == IF absent THEN "abs" ELSE IF b < 0 - n THEN "<-n" ELSE IF b < 0 THEN "-n..-1"
                      ELSE IF b < n THEN "0..n-1" ELSE IF b = n THEN "=n" ELSE ">n"
SCls(f) == IF f.sta THEN "abs" ELSE IF f.st = 0 THEN "0" ELSE IF f.st = 1 THEN "1" ELSE IF f.st > 1 THEN ">1"
           ELSE IF f.st = 0 - 1 THEN "-1" ELSE "<-1"
NodeCls(n) == IF IsArr(n) THEN "arr" ELSE IF IsObj(n) THEN "obj" ELSE IF "z" \in DOMAIN n THEN "null" ELSE "scalar"
Locus(path, root, fx) ==
  LET p == Focus(path, fx) IN
  IF p = 0 THEN [frag |-> "none", pos |-> "only", cont |-> "none", pre |-> "none", bound |-> <<"-">>]
  ELSE LET f == path[p]
           before == Locs(SubSeq(path, 1, p - 1), root)
           steppers == {i \in 1..Len(path) : path[i].f \notin {"root", "at", "bracket"}}
           pos == IF steppers = {p} THEN "only" ELSE IF \A i \in steppers : i <= p THEN "last" ELSE "inner"
           cont == IF before = <<>> THEN "none" ELSE NodeCls(before[1].val)
           n == IF before # <<>> /\ IsArr(before[1].val) THEN Len(before[1].val.a) ELSE 0
           bound == CASE f.f = "slice" -> <<BCls(f.sa, f.s, n), BCls(f.ea, f.e, n), SCls(f), IF SliceStrict(f, n) THEN "strict" ELSE "open",
                                            IF SliceIdx(f, n) = <<>> THEN "empty" ELSE "nonempty">>
                      [] f.f = "nth" -> <<BCls(FALSE, f.i, n)>>
                      [] f.f = "filter" -> <<f.op>>
                      [] OTHER -> <<"-">>
           \* how many nodes the fragments before the focus select (a defect may need several siblings in flight)
           pre == IF Len(before) = 0 THEN "none" ELSE IF Len(before) = 1 THEN "single" ELSE "multi"
       IN [frag |-> f.f, pos |-> pos, cont |-> cont, pre |-> pre, bound |-> bound]
=============================================================================
