--------------------------- MODULE EncodeGen ---------------------------
(* Behaviour generation for C15: TLC enumerates type shapes (sequences of 1..MaxFields fields over  *)
(* the kind x tag x embedding menu) together with value variants and prints each as a case for the  *)
(* Go harness, which materialises it with reflect.StructOf / the named-type library and runs every   *)
(* encoder under every option mask.                                                                  *)
(* Bound: at most one field of a shape is taken from the full menu (Hot), the others from a small    *)
(* neighbour menu (Nbr) chosen to interact with it: an omitempty-tagged field, a plain field, an     *)
(* embedded struct, a pointer.  Every ORDER of hot field and neighbours is generated, because the    *)
(* field-plan builders walk the fields in reverse and carry state from one field to the next.        *)
(* Values: all fields zero ("z"), or all non-zero ("n") except at most one field that is zero/nil    *)
(* ("z") or empty-but-not-nil ("e"): nil at each pointer / interface / slice / map position.         *)
EXTENDS Integers, Sequences, FiniteSets, TLC, Json
CONSTANTS HotKinds, HotTags, NbrSet, MaxFields, EmbKinds, TwoVariant, NameMenu, NbrDistinct,
          DeepBases, MaxDepth, EmbGraph, DeepAll,
          Hot2Kinds, Hot2Tags    \* second hot menu: scalar kinds (incl. the negative-zero floats) x tags that list SEVERAL options in every order

VARIABLES fs
\* neighbour menus (a configuration file cannot hold records)
Nbr == IF NbrSet = "quick" THEN {[k |-> "int", t |-> ""], [k |-> "string", t |-> "nmoe"]}
       ELSE {[k |-> "int", t |-> ""], [k |-> "string", t |-> "nmoe"], [k |-> "*int", t |-> "oe"], [k |-> "E1", t |-> ""]}
Names == <<"Aa", "Bb", "Cc", "Dd">>
EmbName(k) == IF k \in {"E2", "E3", "E4", "R1"} \cup EmbGraph THEN k ELSE IF k = "*P2" THEN "P2" ELSE IF k = "*Q2" THEN "Q2" ELSE "E1"
Variants(k) == IF k \in TwoVariant THEN {"z", "n"} ELSE {"z", "n", "e"}
IsNbr(f) == \E x \in Nbr : x.k = f.k /\ x.t = f.t
\* a name probe (an int field whose name comes from NameMenu: lengths 1..4, all-caps and mixed caps; the three hand-copied
\* builders each have their own copy of the lower-casing rule) counts as the one hot field of a shape
\* Embedding graphs: the kinds in EmbGraph are named struct types that embed each other (Base embeds Stamp; B1 and C1 embed D0);
\* a shape may embed SEVERAL of them, in every order: the same type reached along two paths (direct embedding declared first or
\* last), diamonds (B1; C1), uneven diamonds (B1; D0).  They do not count as the one hot field.
Hot(s) == Cardinality({i \in 1..Len(s) : (~IsNbr(s[i]) \/ s[i].n \in NameMenu) /\ s[i].k \notin EmbGraph})
\* Container nesting: DeepPre are the container / pointer prefixes (m = map[string], s = [], p = *, a = [2]; outermost first) put
\* in front of the struct kinds in DeepBases: every prefix of length <= 2, and for every length 3..MaxDepth the four rotations of
\* m s p a ... and the four homogeneous ones.
Cont == <<"m", "s", "p", "a">>
CycPre(L, st) == [i \in 1..L |-> Cont[((st + i - 2) % 4) + 1]]
SamePre(L, j) == [i \in 1..L |-> Cont[j]]
DeepPre == IF DeepAll THEN {<<Cont[i]>> : i \in 1..4} \cup {<<Cont[i], Cont[j]>> : i, j \in 1..4}
                            \cup UNION {{CycPre(L, st) : st \in 1..4} \cup {SamePre(L, j) : j \in 1..4} : L \in 3..MaxDepth}
           ELSE UNION {{CycPre(L, st) : st \in {1, 2}} : L \in 1..MaxDepth}      \* quick: two rotations per depth
ValOK(s) == (\A i \in 1..Len(s) : s[i].v = "z") \/ Cardinality({i \in 1..Len(s) : s[i].v # "n"}) <= 1
NamesOK(s) == \A i, j \in 1..Len(s) : i # j => s[i].n # s[j].n

Init == fs = <<>>
Add(k, t, v) == /\ Len(fs) < MaxFields
                /\ fs' = Append(fs, [n |-> IF k \in EmbKinds THEN EmbName(k) ELSE Names[Len(fs) + 1], k |-> k, t |-> t, v |-> v, c |-> <<>>])
AddDeep(k, pre, v) == /\ Len(fs) < MaxFields
                      /\ fs' = Append(fs, [n |-> Names[Len(fs) + 1], k |-> k, t |-> "", v |-> v, c |-> pre])
Probe(n, v) == /\ Len(fs) < MaxFields
               /\ fs' = Append(fs, [n |-> n, k |-> "int", t |-> "", v |-> v, c |-> <<>>])
Next == \/ \E n \in NameMenu, v \in {"z", "n"} : Probe(n, v)
        \/ \E k \in DeepBases, pre \in DeepPre, v \in {"z", "n", "e"} : AddDeep(k, pre, v)
        \/ \E k \in EmbGraph, v \in {"z", "n", "e"} : Add(k, "", v)
        \/ \E k \in HotKinds, t \in HotTags, v \in {"z", "n", "e"} : v \in Variants(k) /\ (k \in EmbKinds => t = "") /\ Add(k, t, v)
        \/ \E k \in Hot2Kinds, t \in Hot2Tags, v \in {"z", "n", "e"} : v \in Variants(k) /\ Add(k, t, v)
        \/ \E x \in Nbr, v \in {"z", "n", "e"} : v \in Variants(x.k) /\ Add(x.k, x.t, v)
\* quick tier: the neighbours of a shape are pairwise different menu entries (halves the 3-field shapes)
NbrOK(s) == ~NbrDistinct \/ \A i, j \in 1..Len(s) : (i # j /\ IsNbr(s[i]) /\ IsNbr(s[j]) /\ s[i].n \notin NameMenu /\ s[j].n \notin NameMenu)
                                                      => (s[i].k # s[j].k \/ s[i].t # s[j].t)
\* a shape that embeds graph kinds holds nothing else but plain int members
GraphOK(s) == (\E i \in 1..Len(s) : s[i].k \in EmbGraph) =>
              \A j \in 1..Len(s) : s[j].k \in EmbGraph \/ (s[j].k = "int" /\ s[j].t = "" /\ s[j].n \notin NameMenu /\ s[j].c = <<>>)
DeepOK(s) == \A i \in 1..Len(s) : s[i].c # <<>> => \A j \in 1..Len(s) : j = i \/ (s[j].k = "int" /\ s[j].t = "" /\ s[j].n \notin NameMenu)
OK == Hot(fs) <= 1 /\ ValOK(fs) /\ NamesOK(fs) /\ NbrOK(fs) /\ GraphOK(fs) /\ DeepOK(fs)
Emit == OK /\ (fs = <<>> \/ PrintT(<<"CASE", ToJson([f |-> fs])>>))
=============================================================================
