SPECIFICATION Spec
CONSTANTS KeyedBy = "short" MaxHist = 3
INVARIANT TypeOK
INVARIANT FreshIsOwn
INVARIANT HistoryFree
PROPERTY Monotone
CHECK_DEADLOCK FALSE
