SPECIFICATION Spec
CONSTANTS KeyedBy = "short" MaxHist = 3 GraphLen = 0 IndexMemo = "none"
INVARIANT TypeOK
INVARIANT FreshIsOwnNames
INVARIANT HistoryFree
PROPERTY Monotone
CHECK_DEADLOCK FALSE
