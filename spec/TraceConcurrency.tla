-------------------------- MODULE TraceConcurrency --------------------------
(* Trace validation for C08.  Every line of trace.ndjson is one run of the real code (a schedule  *)
(* forced by harness/cmd/conc under GOMAXPROCS(1), or a free-running -race run), its events in     *)
(* the recorded order:                                                                             *)
(*   {e:"get"|"put", g, i, p}   pool.Get returned instance i to g / g put it back   (verif hooks)    *)
(*   {e:"lock"|"fill"|"unlock", g, m}  g is inside / fills / leaves the struct-info cache of m       *)
(*   {e:"ret", g, c, op, cls, res, seq, ref}  call c of g returned res; seq is what the same call    *)
(*                              returns when run alone; ref # 0: id of the []byte the caller holds   *)
(*   {e:"hand", g, c, op, res, ref}  the call handed the []byte ref (content res) to the caller's hook  *)
(*                              (UnmarshalJSON): user code holds it until the hook returns (drop)    *)
(*   {e:"look", g, c, now}      the caller (or its hook, after it yielded) re-inspected that []byte   *)
(*   {e:"drop", g, c}           the caller called the same package again: it stops holding that []byte *)
(*   {e:"race", a, b}           the Go race detector reported a data race (top ojg frames a, b)      *)
(* The events drive the state variables of Concurrency (inst, pc, buf, held, result, reading,        *)
(* writing) with the logged choices, and after every event the invariants of Concurrency are        *)
(* evaluated on the new state: Exclusive, BufferIsolation, NoUnlockedWriteRead,                      *)
(* SequentialEquivalence.  A failed invariant is recorded with the event (register 1) and the        *)
(* offending part of the state is dropped, so one run judges the whole batch.  Needs -workers 1.     *)
EXTENDS Concurrency
CONSTANT MaxBad

TraceLog == ndJsonDeserialize("trace.ndjson")
NT == Len(TraceLog)

VARIABLES c,      \* run being consumed
          j       \* next event
tvars == <<c, j, vars>>

GMax == 16
Blank == /\ prog = <<>> /\ k = [g \in 1..GMax |-> 1] /\ pc = [g \in 1..GMax |-> "idle"] /\ inst = [g \in 1..GMax |-> 0]
         /\ free = <<>> /\ nextInst = 1 /\ buf = <<>> /\ val = <<>> /\ held = [g \in 1..GMax |-> {}]
         /\ result = [g \in 1..GMax |-> <<>>] /\ lock = 0 /\ cached = FALSE /\ miss = <<>>
         /\ reading = {} /\ writing = {} /\ gscratch = <<0, 0>> /\ hinst = <<>> /\ sched = <<>>

TraceInit == /\ c = 1 /\ j = 1 /\ Blank
             /\ TLCSet(1, <<>>) /\ TLCSet(2, 0) /\ TLCSet(3, 0) /\ TLCSet(4, 0)

Ev == TraceLog[c].ev[j]
Rec(kind, a, b) == [i |-> c, j |-> j, kind |-> kind, a |-> a, b |-> b]
Report(b) == /\ (IF b = <<>> \/ Len(TLCGet(1)) >= MaxBad THEN TRUE ELSE TLCSet(1, TLCGet(1) \o b))
             /\ (IF b = <<>> THEN TRUE ELSE TLCSet(3, TLCGet(3) + Len(b)))
             /\ TLCSet(4, TLCGet(4) + 1)

\* the invariants of Concurrency restricted to the goroutines of a run (G is a constant of the model; runs have up to GMax)
TG == 1..TraceLog[c].n
\* Exclusive restricted to the pairs an event of goroutine g can change (all other pairs were judged by earlier events)
TExclusive(g, in, p) == \A h \in TG : g # h /\ in[g] # 0 /\ p[g] # "put" /\ in[h] # 0 /\ p[h] # "put" => in[g] # in[h]
TIsolationBreaches(hd, bf) == {<<g, x>> \in UNION {{g} \X hd[g] : g \in TG} : x.ref # 0 /\ bf[x.ref][1] # g}
\* NoUnlockedWriteRead restricted to the pairs the event of x = <<goroutine, map>> can change (all other pairs were
\* judged by earlier events): another goroutine is inside the same map's critical section and one of the two writes
TNoUnlockedWriteRead(x, rd, wr) == x \in rd \cup wr => \A y \in rd \cup wr : (y[2] = x[2] /\ y[1] # x[1]) => ~(x \in wr \/ y \in wr)

Same == UNCHANGED <<prog, k, free, nextInst, val, lock, cached, miss, gscratch, hinst, sched>>

TGet == /\ Ev.e = "get"
        /\ LET in == [inst EXCEPT ![Ev.g] = Ev.i]
               p  == [pc EXCEPT ![Ev.g] = "got"]
           IN /\ Report(IF TExclusive(Ev.g, in, p) THEN <<>> ELSE <<Rec("exclusive", Ev.p, Ev.p)>>)
              /\ inst' = in /\ pc' = p
        /\ Same /\ UNCHANGED <<buf, held, result, reading, writing>>
TPut == /\ Ev.e = "put"
        /\ Report(<<>>)
        /\ inst' = [inst EXCEPT ![Ev.g] = 0] /\ pc' = [pc EXCEPT ![Ev.g] = "idle"]
        /\ Same /\ UNCHANGED <<buf, held, result, reading, writing>>
TCache == /\ Ev.e \in {"lock", "fill", "unlock"}
          /\ LET x  == <<Ev.g, Ev.m>>
                 rd == IF Ev.e = "lock" THEN reading \cup {x} ELSE IF Ev.e = "unlock" THEN reading \ {x} ELSE reading
                 wr == IF Ev.e = "fill" THEN writing \cup {x} ELSE IF Ev.e = "unlock" THEN writing \ {x} ELSE writing
             IN /\ Report(IF TNoUnlockedWriteRead(x, rd, wr) THEN <<>> ELSE <<Rec("unlocked-write-read", Ev.m, Ev.m)>>)
                /\ reading' = rd /\ writing' = IF TNoUnlockedWriteRead(x, rd, wr) THEN wr ELSE wr \ {x}
          /\ Same /\ UNCHANGED <<inst, pc, buf, held, result>>
TRet == /\ Ev.e = "ret"
        /\ LET g   == Ev.g
               n   == Len(result[g]) + 1
               tag == <<g, n>>
               ok  == Ev.res = Ev.seq                                  \* SequentialEquivalence of this call
               bf  == IF Ev.ref = 0 THEN buf ELSE (Ev.ref :> tag) @@ buf       \* Use: the call wrote this buffer
               \* only results that are buffers (ref # 0) can be written by somebody else; text = the content handed out
               hd  == IF Ev.ref = 0 THEN held
                      ELSE [held EXCEPT ![g] = @ \cup {[call |-> n, ref |-> Ev.ref, tag |-> tag, op |-> Ev.op, text |-> Ev.res]}]
               br  == TIsolationBreaches(hd, bf)                       \* BufferIsolation on the new state
               brs == {<<y[2].op, Ev.op>> : y \in br}
           IN /\ Report((IF ok THEN <<>> ELSE <<Rec("wrong-result", Ev.op, Ev.op)>>)
                        \o (IF br = {} THEN <<>> ELSE LET y == CHOOSE y \in brs : TRUE IN <<Rec("alias", y[1], y[2])>>))
              /\ result' = [result EXCEPT ![g] = Append(@, IF ok THEN tag ELSE <<0, 0>>)]
              /\ buf' = bf
              /\ held' = [h \in 1..GMax |-> {x \in hd[h] : <<h, x>> \notin br}]     \* reported once
        /\ Same /\ UNCHANGED <<inst, pc, reading, writing>>
\* ScratchBegin of the model with Scratch = "released" is the only action that hands a pooled buffer to a hook; the
\* code is meant to hand out private bytes: the hook holds them (BufferIsolation) until it returns (drop).
THand == /\ Ev.e = "hand"
         /\ LET g   == Ev.g
                tag == <<g, Len(result[g]) + 1>>
                bf  == IF Ev.ref = 0 THEN buf ELSE (Ev.ref :> tag) @@ buf
                hd  == IF Ev.ref = 0 THEN held
                       ELSE [held EXCEPT ![g] = @ \cup {[call |-> Ev.c, ref |-> Ev.ref, tag |-> tag, op |-> Ev.op, text |-> Ev.res]}]
                br  == TIsolationBreaches(hd, bf)
                brs == {<<y[2].op, Ev.op>> : y \in br}
            IN /\ Report(IF br = {} THEN <<>> ELSE LET y == CHOOSE y \in brs : TRUE IN <<Rec("alias", y[1], y[2])>>)
               /\ buf' = bf
               /\ held' = [h \in 1..GMax |-> {x \in hd[h] : <<h, x>> \notin br}]
         /\ Same /\ UNCHANGED <<inst, pc, result, reading, writing>>
TLook == /\ Ev.e = "look"
         /\ LET hs == {x \in held[Ev.g] : x.call = Ev.c} IN
            IF hs = {} THEN Report(<<>>) /\ UNCHANGED held
            ELSE LET x == CHOOSE x \in hs : TRUE
                     ownReuse == x.ref # 0 /\ buf[x.ref] # x.tag /\ buf[x.ref][1] = Ev.g   \* documented: reused by the caller's own next call
                 IN IF Ev.now = x.text \/ ownReuse THEN Report(<<>>) /\ UNCHANGED held
                    ELSE /\ Report(<<Rec("alters-returned", x.op, x.op)>>)
                         /\ held' = [held EXCEPT ![Ev.g] = @ \ {x}]
         /\ Same /\ UNCHANGED <<inst, pc, buf, result, reading, writing>>
\* the caller called the same package again itself: from now on the buffer may be reused by its own calls (documented)
TDrop == /\ Ev.e = "drop"
         /\ Report(<<>>)
         /\ held' = [held EXCEPT ![Ev.g] = {x \in @ : x.call # Ev.c}]
         /\ Same /\ UNCHANGED <<inst, pc, buf, result, reading, writing>>
TRace == /\ Ev.e = "race"
         /\ Report(<<Rec("race", Ev.a, Ev.b)>>)      \* no action of Concurrency produces a data race
         /\ Same /\ UNCHANGED <<inst, pc, buf, held, result, reading, writing>>

TStep == /\ c <= NT /\ j <= Len(TraceLog[c].ev)
         /\ (TGet \/ TPut \/ TCache \/ TRet \/ THand \/ TLook \/ TDrop \/ TRace)
         /\ j' = j + 1 /\ UNCHANGED c
TEnd == /\ c <= NT /\ j > Len(TraceLog[c].ev)
        /\ c' = c + 1 /\ j' = 1
        /\ prog' = <<>> /\ k' = k /\ pc' = [g \in 1..GMax |-> "idle"] /\ inst' = [g \in 1..GMax |-> 0]
        /\ free' = <<>> /\ nextInst' = 1 /\ buf' = <<>> /\ val' = <<>> /\ held' = [g \in 1..GMax |-> {}]
        /\ result' = [g \in 1..GMax |-> <<>>] /\ lock' = 0 /\ cached' = FALSE /\ miss' = <<>>
        /\ reading' = {} /\ writing' = {} /\ gscratch' = <<0, 0>> /\ hinst' = <<>> /\ sched' = <<>>
        /\ TLCSet(2, c)

TraceNext == TStep \/ TEnd
TraceSpec == TraceInit /\ [][TraceNext]_tvars
Post == JsonSerialize("out.json", [n |-> TLCGet(2), bad |-> TLCGet(1), nbad |-> TLCGet(3), hits |-> [events |-> TLCGet(4)]])
=============================================================================
