"""Common machinery for the ojg TLA+ model-based checks (see DESIGN.md sections 2-4).

A check is a pipeline
    design (TLC on the spec alone) -> cases (TLC-generated and Go-generated)
    -> exec (real code, Go harness built from the current /repo tree, -tags verif)
    -> validate (TLC trace specification judges the recorded behaviour)
    -> confirm (every unknown violation is re-run stand-alone) -> verdict + evidence.
Exit codes: 0 held / only known findings, 1 confirmed violation, 2 infrastructure trouble.
"""
import concurrent.futures as cf
import hashlib
import json
import os
import re
import shutil
import subprocess
import sys
import tempfile
import time

VERIF = os.path.dirname(os.path.dirname(os.path.abspath(__file__)))
REPO = os.environ.get("VERIF_REPO", "/repo")
JAR = "/opt/veriftools/tla/tla2tools.jar:/opt/veriftools/tla/CommunityModules-deps.jar"
NCPU = os.cpu_count() or 4


import threading
_LOCK = threading.Lock()


class Infra(Exception):
    """Anything that is not a verdict about the code: exit 2."""


def log(*a):
    print("[verif]", *a, file=sys.stderr, flush=True)


class TlcRun:
    def __init__(self, rc, out, wall, d):
        self.rc, self.out, self.wall, self.dir = rc, out, wall, d
        m = re.findall(r"(\d+) states generated, (\d+) distinct states found", out)
        self.generated = int(m[-1][0]) if m else 0
        self.distinct = int(m[-1][1]) if m else 0
        # simulation mode prints a different summary
        m2 = re.findall(r"The number of states generated: (\d+)", out)
        if m2 and not m:
            self.generated = int(m2[-1])
            self.distinct = int(m2[-1])
        self.violated = re.findall(r"Invariant (\S+) is violated", out) + re.findall(
            r"Action property (\S+) is violated", out) + (
            ["<temporal>"] if "Temporal properties were violated" in out else [])
        self.error = ("Error:" in out and not self.violated) or rc not in (0, 12, 13)

    def printed(self, tag):
        """Values printed with PrintT(<<"TAG", ToJson(x)>>) -> list of parsed JSON."""
        res = []
        pat = re.compile(r'^<<"%s", "(.*)">>$' % re.escape(tag))
        for line in self.out.splitlines():
            m = pat.match(line.strip())
            if m:
                s = m.group(1).replace('\\"', '"').replace("\\\\", "\\")
                res.append(json.loads(s))
        return res

    def coverage_zero(self):
        """Actions/sub-expressions with zero count in -coverage output (top-level action lines)."""
        z = []
        for line in self.out.splitlines():
            m = re.match(r"^<(\w+) line \d+, col \d+ to line \d+, col \d+ of module (\w+)>: (\d+):(\d+)", line.strip())
            if m and int(m.group(4)) == 0:
                z.append(m.group(2) + "!" + m.group(1))
        return z


class Ctx:
    def __init__(self, prop, tier, seed, keep=False):
        self.prop, self.tier, self.seed, self.keep = prop, tier, seed, keep
        self.t0 = time.time()
        base = os.environ.get("VERIF_SCRATCH") or tempfile.gettempdir()
        self.scratch = tempfile.mkdtemp(prefix="verif-%s-" % prop, dir=base)
        self.repo = REPO
        self.quick = tier == "quick"
        self.cov = {"states": 0, "transitions": 0, "traces_validated_against_impl": 0,
                    "evaluations": 0, "distinct_nontrivial": 0, "samples": [],
                    "tlc_runs": [], "model_drift": [], "rule": "", "coverage_zero_actions": []}
        self.assumptions = []
        self.records = []
        self._built = {}
        self._hdir = None
        self._n = 0

    # ------------------------------------------------------------------ Go side
    def _harness_dir(self):
        if self._hdir:
            return self._hdir
        h = os.path.join(self.scratch, "h")
        shutil.copytree(os.path.join(VERIF, "harness"), h)
        with open(os.path.join(h, "go.mod"), "w") as f:
            f.write("module verif/harness\n\ngo 1.18\n\nrequire (\n\tgithub.com/ohler55/ojg v0.0.0\n"
                    "\tpgregory.net/rapid v1.3.0\n)\n\nreplace github.com/ohler55/ojg => %s\n" % self.repo)
        src = os.path.join(self.repo, "go.sum")
        if os.path.exists(src):
            shutil.copy(src, os.path.join(h, "go.sum"))
        self._hdir = h
        return h

    def goenv(self):
        e = dict(os.environ)
        e.update(GOFLAGS="-mod=mod", GOPROXY="off", GOSUMDB="off", GOTOOLCHAIN="local")
        return e

    def build(self, cmd, race=False):
        key = (cmd, race)
        if key in self._built:
            return self._built[key]
        h = self._harness_dir()
        out = os.path.join(self.scratch, "bin", cmd + ("-race" if race else ""))
        os.makedirs(os.path.dirname(out), exist_ok=True)
        args = ["go", "build", "-tags", "verif"] + (["-race"] if race else []) + ["-o", out, "./cmd/" + cmd]
        t = time.time()
        p = subprocess.run(args, cwd=h, env=self.goenv(), capture_output=True, text=True)
        if p.returncode != 0:
            raise Infra("harness %s does not build against %s:\n%s" % (cmd, self.repo, p.stdout + p.stderr))
        log("built %s in %.1fs" % (cmd, time.time() - t))
        self._built[key] = out
        return out

    def run(self, args, stdin=None, stdout=None, timeout=3600, env=None, check=True, cwd=None):
        e = self.goenv()
        e["VERIF_SEED"] = str(self.seed)
        e["VERIF_TIER"] = self.tier
        if env:
            e.update(env)
        t = time.time()
        try:
            p = subprocess.run(args, stdin=stdin, stdout=stdout if stdout else subprocess.PIPE,
                               stderr=subprocess.PIPE, timeout=timeout, env=e, cwd=cwd or self.scratch)
        except subprocess.TimeoutExpired:
            raise Infra("timeout after %ss: %s" % (timeout, " ".join(args[:4])))
        if check and p.returncode != 0:
            raise Infra("command failed rc=%d: %s\n%s" % (p.returncode, " ".join(args[:6]),
                                                         (p.stderr or b"").decode(errors="replace")[-4000:]))
        log("ran %s in %.1fs" % (os.path.basename(args[0]) + " " + " ".join(args[1:4]), time.time() - t))
        return p

    # ------------------------------------------------------------------ TLC
    def tlc(self, module, cfg, files=None, workers=8, timeout=900, simulate=None, depth=None,
            coverage=False, heap="4g", extra=None, count=True, quiet=False):
        """Run TLC on spec/<module>.tla with the config text or spec/<cfg> file.
        files: {name: path-or-bytes} copied next to the spec (trace/case data)."""
        with _LOCK:
            self._n += 1
            d = os.path.join(self.scratch, "tlc%03d_%s" % (self._n, module))
            os.makedirs(d)
        for f in os.listdir(os.path.join(VERIF, "spec")):
            if f.endswith(".tla"):
                shutil.copy(os.path.join(VERIF, "spec", f), d)
        cfgp = os.path.join(d, "run.cfg")
        if "\n" in cfg or cfg.strip().startswith(("INIT", "SPEC", "CONST")):
            open(cfgp, "w").write(cfg)
        else:
            shutil.copy(os.path.join(VERIF, "spec", cfg), cfgp)
        for name, src in (files or {}).items():
            dst = os.path.join(d, name)
            if isinstance(src, (bytes, bytearray)):
                open(dst, "wb").write(src)
            else:
                if os.path.exists(dst):
                    os.remove(dst)
                os.symlink(os.path.abspath(src), dst)
        jtmp = os.path.join(d, "jtmp")      # TLC litters java.io.tmpdir with tlc-<n> directories: keep them inside the scratch dir
        os.makedirs(jtmp, exist_ok=True)
        args = ["timeout", str(timeout), "java", "-Xss512m", "-Xmx" + heap, "-XX:+UseParallelGC", "-Djava.io.tmpdir=" + jtmp,
                "-cp", JAR, "tlc2.TLC", "-workers", str(workers), "-metadir", os.path.join(d, "meta"),
                "-config", "run.cfg", "-seed", str(self.seed)]
        if simulate:
            args += ["-simulate", simulate]
        if depth:
            args += ["-depth", str(depth)]
        if coverage:
            args += ["-coverage", "1"]
        args += (extra or []) + [module + ".tla"]
        t = time.time()
        p = subprocess.run(args, cwd=d, capture_output=True, text=True)
        r = TlcRun(p.returncode, p.stdout + p.stderr, time.time() - t, d)
        if p.returncode == 124:
            raise Infra("TLC timeout (%ss) on %s" % (timeout, module))
        if count:
            self.cov["states"] += r.distinct
            self.cov["transitions"] += r.generated
        self.cov["tlc_runs"].append({"module": module, "distinct": r.distinct, "generated": r.generated,
                                     "wall_s": round(r.wall, 1), "mode": "simulate" if simulate else "check",
                                     "violated": r.violated})
        if not quiet:
            log("TLC %s: %d generated / %d distinct, rc=%d, %.1fs" % (module, r.generated, r.distinct, r.rc, r.wall))
        return r

    def design(self, module, cfg, expect_violation=None, **kw):
        """Design check: invariants must hold (or, for a non-vacuity config, the named one must fail)."""
        r = self.tlc(module, cfg, **kw)
        if r.error:
            raise Infra("TLC error in design check %s:\n%s" % (module, r.out[-3000:]))
        if expect_violation:
            if expect_violation not in r.violated:
                raise Infra("design check %s: expected %s to be violated (non-vacuity) but got %s"
                            % (module, expect_violation, r.violated))
        elif r.violated:
            raise Infra("design check %s: spec-internal property violated %s (specification defect, not a code verdict)\n%s"
                        % (module, r.violated, r.out[-3000:]))
        if kw.get("coverage"):
            self.cov["coverage_zero_actions"] += r.coverage_zero()
        return r

    def validate(self, module, trace, cfg=None, chunk=20000, timeout=1200, heap="3g", par=None, extra_files=None):
        """Trace validation: split the ndjson trace into chunks of whole lines, run the trace spec
        (reads trace.ndjson, writes out.json = {n, bad:[{i,...}], hits:{}}) on each with -workers 1,
        merge. Returns {n, bad, hits}; bad[].i are 1-based global line numbers."""
        cfg = cfg or "SPECIFICATION TraceSpec\nCHECK_DEADLOCK FALSE\nPOSTCONDITION Post\n"
        with open(trace, "rb") as f:
            lines = f.readlines()
        lines = [l for l in lines if l.strip()]
        if not lines:
            return {"n": 0, "bad": [], "hits": {}}
        chunks = [(s, lines[s:s + chunk]) for s in range(0, len(lines), chunk)]
        par = par or max(1, min(len(chunks), NCPU // 2))

        def one(sc):
            s, ls = sc
            r = self.tlc(module, cfg, files=dict({"trace.ndjson": b"".join(ls)}, **(extra_files or {})),
                         workers=1, timeout=timeout, heap=heap, quiet=True)
            outp = os.path.join(r.dir, "out.json")
            if r.error or r.violated or not os.path.exists(outp):
                raise Infra("trace validation %s failed (rc=%d):\n%s" % (module, r.rc, r.out[-3000:]))
            o = json.load(open(outp))
            if o.get("n") != len(ls):
                raise Infra("trace spec %s consumed %s of %d cases" % (module, o.get("n"), len(ls)))
            if not self.keep:
                shutil.rmtree(r.dir, ignore_errors=True)
            return s, o

        res = {"n": 0, "bad": [], "hits": {}, "nbad": 0}
        t = time.time()
        with cf.ThreadPoolExecutor(par) as ex:
            for s, o in ex.map(one, chunks):
                res["n"] += o["n"]
                res["nbad"] += o.get("nbad", len(o.get("bad", [])))
                for b in o.get("bad", []):
                    b["i"] = b["i"] + s
                    res["bad"].append(b)
                for k, v in (o.get("hits") or {}).items():
                    res["hits"][k] = res["hits"].get(k, 0) + v
        self.cov["traces_validated_against_impl"] += res["n"]
        if res["nbad"] > len(res["bad"]):
            log("note: %d deviations counted, %d kept (per-run cap)" % (res["nbad"], len(res["bad"])))
        log("validated %d cases with %s in %.1fs: %d rejected" % (res["n"], module, time.time() - t, res["nbad"]))
        return res

    # ------------------------------------------------------------------ verdicts
    def add(self, api, kind, locus, witness, case=None, detail=None):
        """Record one deviation of the real code from the specification."""
        self.records.append({"property": self.prop, "api": api, "kind": kind, "locus": locus,
                             "witness": witness, "case": case, "detail": detail})

    def sample(self, x, limit=6):
        if len(self.cov["samples"]) < limit:
            self.cov["samples"].append(x)

    def cleanup(self):
        if not self.keep:
            shutil.rmtree(self.scratch, ignore_errors=True)
            # Go leaves read-only module dirs nowhere here; build cache is shared on purpose.
        else:
            log("scratch kept at", self.scratch)


def load_known():
    """known_findings.json plus (while a property is being built) known_findings.d/*.json."""
    res = {"known": [], "fixed": []}
    paths = [os.path.join(VERIF, "known_findings.json")]
    d = os.path.join(VERIF, "known_findings.d")
    if os.path.isdir(d):
        paths += sorted(os.path.join(d, f) for f in os.listdir(d) if f.endswith(".json"))
    for p in paths:
        if os.path.exists(p):
            o = json.load(open(p))
            res["known"] += o.get("known", [])
            res["fixed"] += o.get("fixed", [])
    return res


def evidence_dir():
    """Evidence of runs against a scratch copy (VERIF_REPO, mutant self-tests) never overwrites the real evidence."""
    if os.environ.get("VERIF_EVIDENCE_DIR"):
        return os.environ["VERIF_EVIDENCE_DIR"]
    if os.path.realpath(REPO) != "/repo":
        return os.path.join(tempfile.gettempdir(), "verif-evidence-alt")
    return os.path.join(VERIF, "evidence")


def known_match(kset, key):
    """The known entry (its key) that suppresses this deviation, or None: exact match, or a known entry whose locus is an
    fnmatch pattern (systemic defects)."""
    import fnmatch
    if key in kset:
        return key
    for k in kset:
        if k[:3] == key[:3] and any(ch in k[3] for ch in "*?[") and fnmatch.fnmatchcase(key[3], k[3]):
            return k
    return None


def wsize(w):
    return len(json.dumps(w, sort_keys=True))


def finish(ctx, confirm=None, level="model_checking"):
    """Group deviations by (api, kind, locus); known ones print KNOWN-FINDING, unknown ones are
    confirmed stand-alone (confirm(rec) -> bool) and reported as VIOLATION. Writes evidence."""
    known = load_known()["known"]
    kset = {(k["property"], k["api"], k["kind"], k["locus"]): k for k in known}
    groups = {}
    for r in ctx.records:
        key = (r["property"], r["api"], r["kind"], r["locus"])
        g = groups.setdefault(key, {"n": 0, "best": r})
        g["n"] += 1
        if wsize(r["witness"]) < wsize(g["best"]["witness"]):
            g["best"] = r
    unknown, hit = [], []
    per_entry = {}
    for key in sorted(groups):
        g = groups[key]
        ek = known_match(kset, key)
        if ek is not None:
            hit.append(key)
            pe = per_entry.setdefault(ek, {"groups": 0, "cases": 0, "best": g["best"]})
            pe["groups"] += 1
            pe["cases"] += g["n"]
            if wsize(g["best"]["witness"]) < wsize(pe["best"]["witness"]):
                pe["best"] = g["best"]
        else:
            unknown.append((key, g))
    # one line per LISTED finding that was met in this run
    for ek in sorted(per_entry):
        pe = per_entry[ek]
        print("KNOWN-FINDING: property=%s %s %s %s e.g. %s (%d deviation groups, %d cases this run)" % (
            ek[0], ek[1], ek[2], ek[3], json.dumps(pe["best"]["witness"])[:160], pe["groups"], pe["cases"]))
    nviol, unconfirmed = 0, []
    rdir = os.path.join(VERIF, "replays") if os.path.realpath(REPO) == "/repo" else os.path.join(evidence_dir(), "replays")
    os.makedirs(rdir, exist_ok=True)
    for key, g in unknown[:12]:
        r = g["best"]
        ok = True
        if confirm is not None:
            try:
                ok = confirm(r)
            except Infra as e:
                log("confirmation failed with infrastructure error:", e)
                ok = False
        if not ok:
            unconfirmed.append(key)
            continue
        nviol += 1
        h = hashlib.sha1(json.dumps(key).encode()).hexdigest()[:10]
        path = os.path.join(rdir, "%s-%s.json" % (ctx.prop, h))
        json.dump({"property": ctx.prop, "api": r["api"], "kind": r["kind"], "locus": r["locus"],
                   "witness": r["witness"], "case": r["case"], "detail": r["detail"], "tier": ctx.tier,
                   "seed": ctx.seed, "cases_in_group": g["n"]}, open(path, "w"), indent=1)
        print("VIOLATION property=%s replay=%s" % (ctx.prop, path))
        print("  api=%s kind=%s locus=%s witness=%s" % (r["api"], r["kind"], r["locus"], json.dumps(r["witness"])[:300]))
    if len(unknown) > 12:
        log("%d further unknown violation groups not confirmed individually" % (len(unknown) - 12))
    cov = ctx.cov
    cov["known_findings_hit"] = [" ".join(k[1:]) for k in hit]
    cov["violation_groups"] = [" ".join(k[1:]) for k, _ in unknown]
    cov["deviating_cases"] = len(ctx.records)
    if not cov["samples"]:
        cov["samples"] = ["(no sample recorded)"]
    if cov["states"] < 1 or cov["transitions"] < 1:
        raise Infra("no TLC states recorded: the check did not run the model checker")
    ev = {"property_id": ctx.prop, "tier": ctx.tier, "seed": ctx.seed, "level": level, "coverage": cov,
          "assumptions": ctx.assumptions, "wall_s": round(time.time() - ctx.t0, 1), "violations": nviol}
    os.makedirs(evidence_dir(), exist_ok=True)
    json.dump(ev, open(os.path.join(evidence_dir(), ctx.prop + ".json"), "w"), indent=1)
    log("%s %s: %d TLC states, %d impl traces, %d evaluations, %d deviating cases in %d groups (%d known), %.1fs" % (
        ctx.prop, ctx.tier, cov["states"], cov["traces_validated_against_impl"], cov["evaluations"],
        len(ctx.records), len(groups), len(hit), time.time() - ctx.t0))
    if nviol:
        return 1
    if unconfirmed:
        log("deviations that did not reproduce stand-alone (treated as infrastructure trouble):", unconfirmed[:5])
        return 2
    return 0


def write_ndjson(path, items):
    with open(path, "w") as f:
        for it in items:
            f.write(json.dumps(it, separators=(",", ":")) + "\n")


def read_ndjson(path):
    with open(path) as f:
        return [json.loads(l) for l in f if l.strip()]
