// Package jplib holds the Go side of the JsonPath family of checks (C05, C11, C13): the path AST shared
// with spec/JsonPath.tla, construction of jp.Expr through the public constructors and through the parser,
// the value projection (harness/absval, re-tagged), and the data representations a tree can be held in.
// Nothing here decides a property: every comparison is made by TLC on the recorded observations.
package jplib

import (
	"fmt"
	"reflect"
	"sort"

	"github.com/ohler55/ojg/gen"
	"github.com/ohler55/ojg/jp"

	"verif/harness/absval"
)

// MaxEnd is jp's marker for an absent slice end.
const MaxEnd = 2147483647

// Node is a value in the encoding of spec/JsonPath.tla: {"z":0} null, {"b":bool}, {"i":int}, {"s":string},
// {"a":[...]} array, {"k":[sorted keys],"o":[values]} object, {"x":text} anything else.
type Node = map[string]any

// Frag is one fragment of the path AST (see the header of spec/JsonPath.tla).
type Frag = map[string]any

// ---------------------------------------------------------------- node constructors
func Null() Node          { return Node{"z": 0} }
func Int(i int64) Node    { return Node{"i": i} }
func Str(s string) Node   { return Node{"s": s} }
func Bool(b bool) Node    { return Node{"b": b} }
func Arr(e ...Node) Node  { return Node{"a": append([]Node{}, e...)} }
func Obj(kv ...any) Node { // key, node, key, node ...
	m := map[string]Node{}
	for i := 0; i+1 < len(kv); i += 2 {
		m[kv[i].(string)] = kv[i+1].(Node)
	}
	return ObjOf(m)
}
func ObjOf(m map[string]Node) Node {
	keys := make([]string, 0, len(m))
	for k := range m {
		keys = append(keys, k)
	}
	sort.Strings(keys)
	vs := make([]Node, len(keys))
	for i, k := range keys {
		vs[i] = m[k]
	}
	return Node{"k": keys, "o": vs}
}

// Norm brings a node decoded from JSON (map[string]any with []any / float64) into the canonical Go shape
// used by this package ([]Node, []string, int64).
func Norm(v any) Node {
	m, _ := v.(map[string]any)
	if m == nil {
		return Node{"x": fmt.Sprintf("%v", v)}
	}
	if a, ok := m["a"]; ok {
		out := []Node{}
		switch ta := a.(type) {
		case []any:
			for _, e := range ta {
				out = append(out, Norm(e))
			}
		case []Node:
			for _, e := range ta {
				out = append(out, Norm(e))
			}
		}
		return Node{"a": out}
	}
	if o, ok := m["o"]; ok {
		keys := []string{}
		switch tk := m["k"].(type) {
		case []any:
			for _, k := range tk {
				keys = append(keys, k.(string))
			}
		case []string:
			keys = append(keys, tk...)
		}
		vs := []Node{}
		switch to := o.(type) {
		case []any:
			for _, e := range to {
				vs = append(vs, Norm(e))
			}
		case []Node:
			for _, e := range to {
				vs = append(vs, Norm(e))
			}
		}
		return Node{"k": keys, "o": vs}
	}
	if i, ok := m["i"]; ok {
		return Node{"i": toInt(i)}
	}
	return m
}

func toInt(v any) int64 {
	switch t := v.(type) {
	case float64:
		return int64(t)
	case int:
		return int64(t)
	case int64:
		return t
	}
	return 0
}

func Elems(n Node) []Node  { e, _ := n["a"].([]Node); return e }
func Keys(n Node) []string { k, _ := n["k"].([]string); return k }
func Vals(n Node) []Node   { o, _ := n["o"].([]Node); return o }
func IsArr(n Node) bool    { _, ok := n["a"]; return ok }
func IsObj(n Node) bool    { _, ok := n["o"]; return ok }

// MaxArrLen is the longest array anywhere in the tree.
func MaxArrLen(n Node) int {
	m := 0
	if IsArr(n) {
		m = len(Elems(n))
		for _, e := range Elems(n) {
			if x := MaxArrLen(e); x > m {
				m = x
			}
		}
	}
	for _, e := range Vals(n) {
		if x := MaxArrLen(e); x > m {
			m = x
		}
	}
	return m
}

// ---------------------------------------------------------------- projection Go value -> Node
// Project is absval.Atoms followed by re-tagging; values absval does not know (structs, Keyed, Indexed,
// the harness's own collections) are first rewritten to simple data.
func Project(v any) Node { return retag(absval.Atoms(simplify(v))) }

func retag(v any) Node {
	m, _ := v.(map[string]any)
	switch m["t"] {
	case "null":
		return Null()
	case "bool":
		return Node{"b": m["v"]}
	case "int":
		if x, ok := m["v"]; ok {
			return Node{"i": x}
		}
		return Node{"x": "bigint"}
	case "str":
		return Node{"s": m["v"]}
	case "arr":
		a, _ := m["v"].([]any)
		out := make([]Node, len(a))
		for i, e := range a {
			out[i] = retag(e)
		}
		return Node{"a": out}
	case "obj":
		ks, _ := m["k"].([]any)
		vs, _ := m["v"].([]any)
		keys := make([]string, len(ks))
		for i, k := range ks {
			keys[i], _ = k.(string)
		}
		out := make([]Node, len(vs))
		for i, e := range vs {
			out[i] = retag(e)
		}
		return Node{"k": keys, "o": out}
	case "flt":
		// a small dyadic rational n / 2^k (absval's q field) is exact in TLC integers: {"fq": [n, k]}
		if q, ok := m["q"]; ok {
			switch tq := q.(type) {
			case []int64:
				return Node{"fq": []int64{tq[0], tq[1]}}
			case []any:
				return Node{"fq": []int64{toInt(tq[0]), toInt(tq[1])}}
			}
		}
		return Node{"x": fmt.Sprintf("flt:%v", m["s"])}
	}
	return Node{"x": fmt.Sprintf("%v:%v", m["t"], m["go"])}
}

func simplify(v any) any {
	switch t := v.(type) {
	case nil, bool, int, int8, int16, int32, int64, uint, uint8, uint16, uint32, uint64, float32, float64, string,
		gen.Bool, gen.Int, gen.Float, gen.String:
		return v
	case []any:
		out := make([]any, len(t))
		for i, e := range t {
			out[i] = simplify(e)
		}
		return out
	case map[string]any:
		out := make(map[string]any, len(t))
		for k, e := range t {
			out[k] = simplify(e)
		}
		return out
	case gen.Array:
		out := make([]any, len(t))
		for i, e := range t {
			out[i] = simplify(e)
		}
		return out
	case gen.Object:
		out := make(map[string]any, len(t))
		for k, e := range t {
			out[k] = simplify(e)
		}
		return out
	case Out2:
		return map[string]any{"a": simplify(t.A), "b": simplify(t.In2.B)}
	case Out3:
		return map[string]any{"a": simplify(t.A), "b": simplify(t.In2.B), "c": simplify(t.C)}
	case OutP2:
		return map[string]any{"a": simplify(t.A), "b": simplify(t.In2.B)}
	case OutP3:
		return map[string]any{"a": simplify(t.A), "b": simplify(t.In2.B), "c": simplify(t.C)}
	case M:
		return map[string]any{"A": simplify(t.A), "B": simplify(t.B), "C": simplify(t.C), "D": simplify(t.D), "Emb": simplify(t.Emb)}
	case *M:
		if t == nil {
			return nil
		}
		return simplify(*t)
	case Emb:
		return map[string]any{"E": simplify(t.E)}
	case *OrdBoth:
		out := make(map[string]any, len(t.K))
		for i, k := range t.K {
			out[k] = simplify(t.V[i])
		}
		return out
	case KMap:
		out := make(map[string]any, len(t))
		for k, e := range t {
			out[k] = simplify(e)
		}
		return out
	case ISlice:
		out := make([]any, len(t))
		for i, e := range t {
			out[i] = simplify(e)
		}
		return out
	case *OrdKeyed:
		out := make(map[string]any, len(t.K))
		for i, k := range t.K {
			out[k] = simplify(t.V[i])
		}
		return out
	case *IdxList:
		out := make([]any, len(t.V))
		for i, e := range t.V {
			out[i] = simplify(e)
		}
		return out
	}
	rv := reflect.ValueOf(v)
	switch rv.Kind() {
	case reflect.Ptr, reflect.Interface:
		if rv.IsNil() {
			return nil
		}
		return simplify(rv.Elem().Interface())
	case reflect.Slice, reflect.Array:
		out := make([]any, rv.Len())
		for i := range out {
			out[i] = simplify(rv.Index(i).Interface())
		}
		return out
	case reflect.Map:
		out := map[string]any{}
		for _, k := range rv.MapKeys() {
			out[fmt.Sprint(k.Interface())] = simplify(rv.MapIndex(k).Interface())
		}
		return out
	case reflect.Struct:
		out := map[string]any{}
		rt := rv.Type()
		for i := 0; i < rt.NumField(); i++ {
			name := rt.Field(i).Tag.Get("json")
			if name == "" {
				name = rt.Field(i).Name
			}
			out[name] = simplify(rv.Field(i).Interface())
		}
		return out
	}
	return v
}

// ---------------------------------------------------------------- Node -> Go data in a representation
// OrdKeyed is an insertion-ordered jp.Keyed.
type OrdKeyed struct {
	K []string
	V []any
}

func (o *OrdKeyed) ValueForKey(key string) (any, bool) {
	for i, k := range o.K {
		if k == key {
			return o.V[i], true
		}
	}
	return nil, false
}
func (o *OrdKeyed) SetValueForKey(key string, value any) {
	for i, k := range o.K {
		if k == key {
			o.V[i] = value
			return
		}
	}
	o.K = append(o.K, key)
	o.V = append(o.V, value)
}
func (o *OrdKeyed) RemoveValueForKey(key string) {
	for i, k := range o.K {
		if k == key {
			o.K = append(o.K[:i:i], o.K[i+1:]...)
			o.V = append(o.V[:i:i], o.V[i+1:]...)
			return
		}
	}
}
func (o *OrdKeyed) Keys() []string { return append([]string{}, o.K...) }

// IdxList is a jp.Indexed (and RemovableIndexed).
type IdxList struct{ V []any }

func (l *IdxList) ValueAtIndex(i int) any {
	if i < 0 || len(l.V) <= i {
		return nil
	}
	return l.V[i]
}
func (l *IdxList) SetValueAtIndex(i int, v any) {
	if 0 <= i && i < len(l.V) {
		l.V[i] = v
	}
}
func (l *IdxList) Size() int { return len(l.V) }
func (l *IdxList) RemoveValueAtIndex(i int) {
	if 0 <= i && i < len(l.V) {
		l.V = append(l.V[:i:i], l.V[i+1:]...)
	}
}


// OrdBoth is an ordered map that implements BOTH jp.Keyed and jp.Indexed (like the keydex type of ojg's own tests): the
// members are reachable by name and by position (position = rank of the key in K, which Build fills in sorted key order).
type OrdBoth struct {
	OrdKeyed
}

func (o *OrdBoth) ValueAtIndex(i int) any {
	if i < 0 || len(o.V) <= i {
		return nil
	}
	return o.V[i]
}
func (o *OrdBoth) SetValueAtIndex(i int, v any) {
	if 0 <= i && i < len(o.V) {
		o.V[i] = v
	}
}
func (o *OrdBoth) Size() int { return len(o.V) }

// KMap is a Go map that also implements jp.Keyed (two collection readings of one value: the interface and reflect.Map).
type KMap map[string]any

func (m KMap) ValueForKey(key string) (any, bool) { v, ok := m[key]; return v, ok }
func (m KMap) SetValueForKey(key string, value any) { m[key] = value }
func (m KMap) RemoveValueForKey(key string)         { delete(m, key) }
func (m KMap) Keys() []string {
	ks := make([]string, 0, len(m))
	for k := range m {
		ks = append(ks, k)
	}
	sort.Strings(ks)
	return ks
}

// ISlice is a Go slice that also implements jp.Indexed (the interface and reflect.Slice).
type ISlice []any

func (l ISlice) ValueAtIndex(i int) any {
	if i < 0 || len(l) <= i {
		return nil
	}
	return l[i]
}
func (l ISlice) SetValueAtIndex(i int, v any) {
	if 0 <= i && i < len(l) {
		l[i] = v
	}
}
func (l ISlice) Size() int { return len(l) }

// struct with the whole menu of field tags. The abstract object is the Go reflection view, keyed by the Go field names:
// {A, B, C, D, Emb: {E}} - every exported field is a member (also the one tagged json:"-"), the unexported one is not, the
// embedded struct is the member Emb. (Paths of the cases that use it name members by the Go field name only.)
type Emb struct {
	E any
}
type M struct {
	A any `json:"a"`
	B any `json:"-"`
	C any `json:"c,omitempty"`
	u any
	D any
	Emb
}

// MKeys is the key set an object must have to be held as M (the member Emb must be an object with the key set {E}).
var MKeys = []string{"A", "B", "C", "D", "Emb"}

// struct family: used where an object's key set is exactly the struct's field set
type S1 struct {
	A any `json:"a"`
}
type S2 struct {
	A any `json:"a"`
	B any `json:"b"`
}
type S3 struct {
	A any `json:"a"`
	B any `json:"b"`
	C any `json:"c"`
}

// Embedded + shadowed shapes (Go shadowing: the outer field wins). The abstract object is {a: outer A, b: embedded B
// (, c: outer C)}; the embedded A carries the marker Hidden and is not part of the abstract tree, so an evaluator that
// picks the shadowed field returns a value the specification does not know.
type In2 struct {
	A any `json:"a"`
	B any `json:"b"`
}
type Out2 struct {
	In2
	A any `json:"a"`
}
type Out3 struct {
	In2
	A any `json:"a"`
	C any `json:"c"`
}
type OutP2 struct { // pointer to the embedded struct
	*In2
	A any `json:"a"`
}
type OutP3 struct {
	*In2
	A any `json:"a"`
	C any `json:"c"`
}

// Hidden is the value of every shadowed field.
const Hidden = "SHADOWED"

// Reps lists the representations Build knows.
// ("tmap", typed maps, can be built too but is not in the list: the statement of C11 does not name typed maps.)
var Reps = []string{"simple", "gen", "tslice", "array", "struct", "pstruct", "estruct", "pestruct", "keyed"}

// MultiReps: representations that implement several collection readings at once (C11 follow-up): "both" every object an
// ordered map that is Keyed AND Indexed; "kmap" objects a Go map that is also Keyed, arrays a Go slice that is also Indexed;
// "tmap" map[string]int64 where every member is an int; "mstruct" / "pmstruct" the tag-menu struct M (and a pointer to it).
var MultiReps = []string{"both", "kmap", "mstruct", "pmstruct"}

// Build holds the tree n in representation rep. used reports whether the representation differs from
// "simple" anywhere (otherwise the case adds nothing).
func Build(rep string, n Node) (v any, used bool) {
	b := &builder{rep: rep}
	v = b.build(n)
	return v, b.used || rep == "simple"
}

type builder struct {
	rep  string
	used bool
}

func scalar(n Node) (any, bool) {
	if _, ok := n["z"]; ok {
		return nil, true
	}
	if b, ok := n["b"]; ok {
		return b, true
	}
	if i, ok := n["i"]; ok {
		return toInt(i), true
	}
	if s, ok := n["s"]; ok {
		return s, true
	}
	if q, ok := n["fq"]; ok {
		var num, k int64
		switch tq := q.(type) {
		case []int64:
			num, k = tq[0], tq[1]
		case []any:
			num, k = toInt(tq[0]), toInt(tq[1])
		}
		return float64(num) / float64(int64(1)<<uint(k)), true
	}
	return nil, false
}

// Flt is the float n / 2^k.
func Flt(n, k int64) Node { return Node{"fq": []int64{n, k}} }

func kindOf(n Node) string {
	for _, k := range []string{"a", "o", "i", "s", "b", "z"} {
		if _, ok := n[k]; ok {
			return k
		}
	}
	return "x"
}

func (b *builder) build(n Node) any {
	if b.rep == "gen" {
		b.used = true
		return genOf(n)
	}
	if v, ok := scalar(n); ok {
		return v
	}
	if IsArr(n) {
		es := Elems(n)
		kids := make([]any, len(es))
		for i, e := range es {
			kids[i] = b.build(e)
		}
		switch b.rep {
		case "tslice":
			same := len(es) > 0
			for _, e := range es {
				if kindOf(e) != kindOf(es[0]) {
					same = false
				}
			}
			if same {
				switch kindOf(es[0]) {
				case "i":
					out := make([]int64, len(es))
					for i := range es {
						out[i] = kids[i].(int64)
					}
					b.used = true
					return out
				case "s":
					out := make([]string, len(es))
					for i := range es {
						out[i] = kids[i].(string)
					}
					b.used = true
					return out
				case "o":
					out := make([]map[string]any, len(es))
					ok := true
					for i := range es {
						if out[i], ok = kids[i].(map[string]any); !ok {
							break
						}
					}
					if ok {
						b.used = true
						return out
					}
				case "a":
					out := make([][]any, len(es))
					ok := true
					for i := range es {
						if out[i], ok = kids[i].([]any); !ok {
							break
						}
					}
					if ok {
						b.used = true
						return out
					}
				}
			}
		case "array":
			var e any
			at := reflect.ArrayOf(len(es), reflect.TypeOf(&e).Elem())
			av := reflect.New(at).Elem()
			for i := range es {
				if kids[i] != nil {
					av.Index(i).Set(reflect.ValueOf(kids[i]))
				}
			}
			b.used = true
			return av.Interface()
		case "keyed":
			b.used = true
			return &IdxList{V: kids}
		case "kmap":
			b.used = true
			return ISlice(kids)
		}
		return kids
	}
	if IsObj(n) {
		ks, vs := Keys(n), Vals(n)
		kids := make([]any, len(vs))
		for i, e := range vs {
			kids[i] = b.build(e)
		}
		switch b.rep {
		case "tmap":
			all := len(vs) > 0
			for _, e := range vs {
				if kindOf(e) != "i" {
					all = false
				}
			}
			if all {
				out := map[string]int64{}
				for i, k := range ks {
					out[k] = kids[i].(int64)
				}
				b.used = true
				return out
			}
		case "struct", "pstruct":
			ptr := b.rep == "pstruct"
			switch {
			case len(ks) == 1 && ks[0] == "a":
				b.used = true
				if ptr {
					return &S1{A: kids[0]}
				}
				return S1{A: kids[0]}
			case len(ks) == 2 && ks[0] == "a" && ks[1] == "b":
				b.used = true
				if ptr {
					return &S2{A: kids[0], B: kids[1]}
				}
				return S2{A: kids[0], B: kids[1]}
			case len(ks) == 3 && ks[0] == "a" && ks[1] == "b" && ks[2] == "c":
				b.used = true
				if ptr {
					return &S3{A: kids[0], B: kids[1], C: kids[2]}
				}
				return S3{A: kids[0], B: kids[1], C: kids[2]}
			}
		case "estruct", "pestruct":
			ptr := b.rep == "pestruct"
			switch {
			case len(ks) == 2 && ks[0] == "a" && ks[1] == "b":
				b.used = true
				if ptr {
					return OutP2{In2: &In2{A: Hidden, B: kids[1]}, A: kids[0]}
				}
				return Out2{In2: In2{A: Hidden, B: kids[1]}, A: kids[0]}
			case len(ks) == 3 && ks[0] == "a" && ks[1] == "b" && ks[2] == "c":
				b.used = true
				if ptr {
					return OutP3{In2: &In2{A: Hidden, B: kids[1]}, A: kids[0], C: kids[2]}
				}
				return Out3{In2: In2{A: Hidden, B: kids[1]}, A: kids[0], C: kids[2]}
			}
		case "keyed":
			b.used = true
			return &OrdKeyed{K: append([]string{}, ks...), V: kids}
		case "both":
			b.used = true
			return &OrdBoth{OrdKeyed{K: append([]string{}, ks...), V: kids}}
		case "kmap":
			b.used = true
			out := make(KMap, len(ks))
			for i, k := range ks {
				out[k] = kids[i]
			}
			return out
		case "mstruct", "pmstruct":
			if len(ks) == len(MKeys) && IsObj(vs[4]) && len(Keys(vs[4])) == 1 && Keys(vs[4])[0] == "E" {
				same := true
				for i := range ks {
					same = same && ks[i] == MKeys[i]
				}
				if same {
					var e Emb
					switch te := kids[4].(type) {
					case Emb:
						e = te
					case *M: // not reachable: {E} is never held as M
					case map[string]any:
						e = Emb{E: te["E"]}
					}
					b.used = true
					m := M{A: kids[0], B: kids[1], C: kids[2], u: Hidden, D: kids[3], Emb: e}
					if b.rep == "pmstruct" {
						return &m
					}
					return m
				}
			}
		}
		out := make(map[string]any, len(ks))
		for i, k := range ks {
			out[k] = kids[i]
		}
		return out
	}
	return fmt.Sprintf("%v", n["x"])
}

func genOf(n Node) gen.Node {
	if v, ok := scalar(n); ok {
		switch t := v.(type) {
		case nil:
			return nil
		case bool:
			return gen.Bool(t)
		case int64:
			return gen.Int(t)
		case float64:
			return gen.Float(t)
		case string:
			return gen.String(t)
		}
	}
	if IsArr(n) {
		out := make(gen.Array, len(Elems(n)))
		for i, e := range Elems(n) {
			out[i] = genOf(e)
		}
		return out
	}
	if IsObj(n) {
		out := gen.Object{}
		for i, k := range Keys(n) {
			out[k] = genOf(Vals(n)[i])
		}
		return out
	}
	return gen.String(fmt.Sprintf("%v", n["x"]))
}

// ---------------------------------------------------------------- path AST <-> jp.Expr
func FRoot() Frag           { return Frag{"f": "root"} }
func FAt() Frag             { return Frag{"f": "at"} }
func FBracket() Frag        { return Frag{"f": "bracket"} }
func FWild() Frag           { return Frag{"f": "wild"} }
func FDesc() Frag           { return Frag{"f": "desc"} }
func FChild(k string) Frag  { return Frag{"f": "child", "key": k} }
func FNth(i int) Frag       { return Frag{"f": "nth", "i": i} }
func FUnion(items ...any) Frag { // string or int items
	its := []any{}
	for _, it := range items {
		switch t := it.(type) {
		case string:
			its = append(its, map[string]any{"k": t})
		case int:
			its = append(its, map[string]any{"i": t})
		}
	}
	return Frag{"f": "union", "items": its}
}

// Absent marks a missing slice bound in FSlice.
const Absent = -1 << 40

func FSlice(s, e, st int) Frag {
	f := Frag{"f": "slice", "sa": s == Absent, "s": 0, "ea": e == Absent, "e": 0, "sta": st == Absent, "st": 0}
	if s != Absent {
		f["s"] = s
	}
	if e != Absent {
		f["e"] = e
	}
	if st != Absent {
		f["st"] = st
	}
	return f
}
func FFilter(op, key string, c Node) Frag {
	f := Frag{"f": "filter", "op": op, "c": c}
	if key != "" {
		f["key"] = key
	}
	return f
}

// FFilterMM is `@.ka<fa> == @.kb<fb>` with fa, fb a wildcard or slice fragment: two multi-valued operands.
func FFilterMM(ka string, fa Frag, kb string, fb Frag) Frag {
	return Frag{"f": "filter", "op": "mm", "ka": ka, "fa": fa, "kb": kb, "fb": fb, "c": Null()}
}

// FFilterMR is `@.key <cmp> $.rk<rf>` (sw: `$.rk<rf> <cmp> @.key`): a multi-valued operand resolved against the ROOT; rf is a
// wildcard, index-union or slice fragment, or a descent fragment for `$..rk`; cmp is "eq", "ne" or "lt".
func FFilterMR(key, cmp string, sw bool, rk string, rf Frag) Frag {
	return Frag{"f": "filter", "op": "mr", "key": key, "cmp": cmp, "sw": sw, "rk": rk, "rf": rf, "c": Null()}
}

// FFilterMC is `@.key<fr> <cmp> c` (sw: `c <cmp> @.key<fr>`): a multi-valued `@` operand (fr a wildcard, slice or index union) against a
// scalar constant; cmp is "eq" or "ne".
func FFilterMC(key string, fr Frag, cmp string, sw bool, c Node) Frag {
	return Frag{"f": "filter", "op": "mc", "key": key, "fr": fr, "cmp": cmp, "sw": sw, "c": c}
}

// FFilterCmp is `@.key <cmp> c` (key "" : `@ <cmp> c`; sw: `c <cmp> @.key`), cmp in lt, gt, le, ge, c an int or a float node.
func FFilterCmp(key, cmp string, sw bool, c Node) Frag {
	f := Frag{"f": "filter", "op": "cmps", "cmp": cmp, "sw": sw, "c": c}
	if key != "" {
		f["op"], f["key"] = "cmpk", key
	}
	return f
}

// FFilterRoot is `@.key == $.rk`: the right operand comes from the root of the evaluation.
func FFilterRoot(key, rk string) Frag {
	return Frag{"f": "filter", "op": "eqr", "key": key, "rk": rk, "c": Null()}
}

func num(v any) int { return int(toInt(v)) }

// ToInt converts a decoded JSON number.
func ToInt(v any) int64 { return toInt(v) }

// SliceOf builds the jp.Slice an AST slice denotes (absent start with later parts present is 0, absent end
// with a step present is jp's maxEnd: that is how the parser represents them).
func SliceOf(f Frag) jp.Slice {
	sa, _ := f["sa"].(bool)
	ea, _ := f["ea"].(bool)
	sta, _ := f["sta"].(bool)
	s, e, st := num(f["s"]), num(f["e"]), num(f["st"])
	if sa {
		s = 0
	}
	if ea {
		e = MaxEnd
	}
	switch {
	case !sta:
		return jp.Slice{s, e, st}
	case !ea:
		return jp.Slice{s, e}
	case !sa:
		return jp.Slice{s}
	}
	return jp.Slice{}
}

func equationOf(f Frag) *jp.Equation {
	op, _ := f["op"].(string)
	key, _ := f["key"].(string)
	c := Norm(f["c"])
	var ce *jp.Equation
	if v, ok := scalar(c); ok {
		switch t := v.(type) {
		case int64:
			ce = jp.ConstInt(t)
		case float64:
			ce = jp.ConstFloat(t)
		case string:
			ce = jp.ConstString(t)
		case bool:
			ce = jp.ConstBool(t)
		default:
			ce = jp.ConstNil()
		}
	}
	switch op {
	case "mc":
		fr, _ := f["fr"].(map[string]any)
		var x jp.Expr
		switch fr["f"] {
		case "wild":
			x = jp.A().C(key).W()
		case "union":
			x = Expr([]Frag{FAt(), FChild(key), fr})
		default:
			x = append(jp.A().C(key), SliceOf(fr))
		}
		l, r := jp.Get(x), ce
		if sw, _ := f["sw"].(bool); sw {
			l, r = r, l
		}
		if f["cmp"] == "ne" {
			return jp.Neq(l, r)
		}
		return jp.Eq(l, r)
	case "cmpk", "cmps":
		operand := jp.Get(jp.A())
		if op == "cmpk" {
			operand = jp.Get(jp.A().C(key))
		}
		l, r := operand, ce
		if sw, _ := f["sw"].(bool); sw {
			l, r = r, l
		}
		switch f["cmp"] {
		case "lt":
			return jp.Lt(l, r)
		case "gt":
			return jp.Gt(l, r)
		case "le":
			return jp.Lte(l, r)
		}
		return jp.Gte(l, r)
	case "nes":
		return jp.Neq(jp.Get(jp.A()), ce)
	case "nek":
		return jp.Neq(jp.Get(jp.A().C(key)), ce)
	case "eqnull":
		return jp.Eq(jp.Get(jp.A().C(key)), jp.ConstNil())
	case "nenull":
		return jp.Neq(jp.Get(jp.A().C(key)), jp.ConstNil())
	case "eqnothing":
		return jp.Eq(jp.Get(jp.A().C(key)), jp.ConstNothing())
	case "nenothing":
		return jp.Neq(jp.Get(jp.A().C(key)), jp.ConstNothing())
	case "mm":
		sub := func(k string, fr any) jp.Expr {
			x := jp.A().C(k)
			m, _ := fr.(map[string]any)
			if m["f"] == "wild" {
				return x.W()
			}
			return append(x, SliceOf(m))
		}
		ka, _ := f["ka"].(string)
		kb, _ := f["kb"].(string)
		return jp.Eq(jp.Get(sub(ka, f["fa"])), jp.Get(sub(kb, f["fb"])))
	case "mr":
		rk, _ := f["rk"].(string)
		rf, _ := f["rf"].(map[string]any)
		var rx jp.Expr
		switch rf["f"] {
		case "desc":
			rx = jp.R().D().C(rk)
		case "wild":
			rx = jp.R().C(rk).W()
		case "union":
			rx = Expr([]Frag{FRoot(), FChild(rk), rf})
		default:
			rx = append(jp.R().C(rk), SliceOf(rf))
		}
		l, r := jp.Get(jp.A().C(key)), jp.Get(rx)
		if sw, _ := f["sw"].(bool); sw {
			l, r = r, l
		}
		switch f["cmp"] {
		case "ne":
			return jp.Neq(l, r)
		case "lt":
			return jp.Lt(l, r)
		}
		return jp.Eq(l, r)
	case "eqr":
		rk, _ := f["rk"].(string)
		return jp.Eq(jp.Get(jp.A().C(key)), jp.Get(jp.R().C(rk)))
	case "eqk":
		return jp.Eq(jp.Get(jp.A().C(key)), ce)
	case "gtk":
		return jp.Gt(jp.Get(jp.A().C(key)), ce)
	case "exk":
		return jp.Exists(jp.Get(jp.A().C(key)), jp.ConstBool(true))
	case "eqs":
		return jp.Eq(jp.Get(jp.A()), ce)
	case "gts":
		return jp.Gt(jp.Get(jp.A()), ce)
	}
	panic("unknown filter op " + op)
}

// Expr builds the path through the public constructors of package jp.
func Expr(path []Frag) jp.Expr {
	x := jp.X()
	for _, f := range path {
		switch f["f"] {
		case "root":
			x = x.R()
		case "at":
			x = x.A()
		case "bracket":
			x = x.B()
		case "wild":
			x = x.W()
		case "desc":
			x = x.D()
		case "child":
			x = x.C(f["key"].(string))
		case "nth":
			x = x.N(num(f["i"]))
		case "union":
			var items []any
			its, _ := f["items"].([]any)
			for _, it := range its {
				m := it.(map[string]any)
				if k, ok := m["k"]; ok {
					items = append(items, k.(string))
				} else {
					items = append(items, num(m["i"]))
				}
			}
			x = x.U(items...)
		case "slice":
			x = append(x, SliceOf(f))
		case "filter":
			x = x.F(equationOf(f))
		default:
			panic(fmt.Sprintf("unknown fragment %v", f["f"]))
		}
	}
	return x
}

// Steps turns a path reported by Locate/Walk into location steps; normal is false when a fragment other
// than Root/At/Bracket/Child/Nth occurs.
func Steps(x jp.Expr) (steps []any, normal bool) {
	steps = []any{}
	normal = true
	for _, f := range x {
		switch t := f.(type) {
		case jp.Child:
			steps = append(steps, map[string]any{"k": string(t)})
		case jp.Nth:
			steps = append(steps, map[string]any{"i": int(t)})
		case jp.Root, jp.At, jp.Bracket:
		default:
			normal = false
		}
	}
	return
}

// SameShape compares two expressions fragment by fragment (filters by their printed form).
func SameShape(a, b jp.Expr) bool {
	if len(a) != len(b) {
		return false
	}
	for i := range a {
		if fa, ok := a[i].(*jp.Filter); ok {
			fb, ok2 := b[i].(*jp.Filter)
			if !ok2 || fa.String() != fb.String() {
				return false
			}
			continue
		}
		if !reflect.DeepEqual(a[i], b[i]) {
			return false
		}
	}
	return true
}

// Probe records what the implementation's Get returns for the slice fragment alone (last position) on the
// index arrays [0..n-1], n = 0..maxLen: the reference choice outside the strict slice region.
func Probe(f Frag, maxLen int) [][]int {
	out := make([][]int, 0, maxLen+1)
	x := jp.Expr{SliceOf(f)}
	for n := 0; n <= maxLen; n++ {
		data := make([]any, n)
		for i := range data {
			data[i] = int64(i)
		}
		ix := []int{}
		func() {
			defer func() {
				if r := recover(); r != nil {
					ix = []int{-999}
				}
			}()
			for _, v := range x.Get(data) {
				if i, ok := v.(int64); ok {
					ix = append(ix, int(i))
				} else {
					ix = append(ix, -998)
				}
			}
		}()
		out = append(out, ix)
	}
	return out
}
