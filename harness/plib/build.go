package plib

import (
	"encoding/json"

	"github.com/ohler55/ojg/alt"
)

// BuildHandler rebuilds a tree from tokenizer callbacks with alt.Builder and also records the
// event sequence.
type BuildHandler struct {
	b      alt.Builder
	keys   []bool // per open container: is object
	key    string
	hasKey bool
	Events []string
	docs   []any
	failed any
}

func (h *BuildHandler) inObj() bool { return len(h.keys) > 0 && h.keys[len(h.keys)-1] }

func (h *BuildHandler) value(v any) {
	defer h.rec()
	if h.inObj() {
		h.fail(h.b.Value(v, h.key))
		h.hasKey = false
	} else {
		h.fail(h.b.Value(v))
	}
	h.check()
}

func (h *BuildHandler) rec() {
	if x := recover(); x != nil && h.failed == nil {
		h.failed = x
	}
}

func (h *BuildHandler) fail(err error) {
	if err != nil && h.failed == nil {
		h.failed = err
	}
}

func (h *BuildHandler) check() {
	if len(h.keys) == 0 {
		h.docs = append(h.docs, h.b.Result())
		h.b.Reset()
	}
}

func (h *BuildHandler) Null()            { h.Events = append(h.Events, "null"); h.value(nil) }
func (h *BuildHandler) Bool(v bool)      { h.Events = append(h.Events, "bool"); h.value(v) }
func (h *BuildHandler) Int(v int64)      { h.Events = append(h.Events, "int"); h.value(v) }
func (h *BuildHandler) Float(v float64)  { h.Events = append(h.Events, "float"); h.value(v) }
func (h *BuildHandler) Number(v string)  { h.Events = append(h.Events, "number"); h.value(json.Number(v)) }
func (h *BuildHandler) String(v string)  { h.Events = append(h.Events, "string"); h.value(v) }
func (h *BuildHandler) Key(v string)     { h.Events = append(h.Events, "key"); h.key = v; h.hasKey = true }
func (h *BuildHandler) ObjectStart() {
	defer h.rec()
	h.Events = append(h.Events, "{")
	if h.inObj() {
		h.fail(h.b.Object(h.key))
	} else {
		h.fail(h.b.Object())
	}
	h.keys = append(h.keys, true)
}
func (h *BuildHandler) ArrayStart() {
	defer h.rec()
	h.Events = append(h.Events, "[")
	if h.inObj() {
		h.fail(h.b.Array(h.key))
	} else {
		h.fail(h.b.Array())
	}
	h.keys = append(h.keys, false)
}
func (h *BuildHandler) ObjectEnd() { h.end("}") }
func (h *BuildHandler) ArrayEnd()  { h.end("]") }
func (h *BuildHandler) end(e string) {
	defer h.rec()
	h.Events = append(h.Events, e)
	if len(h.keys) > 0 {
		h.keys = h.keys[:len(h.keys)-1]
	}
	h.b.Pop()
	h.check()
}

// Result is the single document (or nil); Docs all documents.
func (h *BuildHandler) Result() any {
	if len(h.docs) == 0 {
		return nil
	}
	return h.docs[len(h.docs)-1]
}

// Docs returns every completed top-level document in delivery order.
func (h *BuildHandler) Docs() []any { return h.docs }
