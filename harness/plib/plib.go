// Package plib drives the real ojg parsing front-ends and records API-level observations.
package plib

import (
	"bytes"
	"encoding/json"
	"errors"
	"fmt"
	"io"
	"strings"
	"testing/iotest"

	"github.com/ohler55/ojg"
	"github.com/ohler55/ojg/gen"
	"github.com/ohler55/ojg/oj"
	"github.com/ohler55/ojg/sen"
)

// Obs is one observation of one front-end on one input.
type Obs struct {
	API   string // e.g. "oj.Parse", "oj.ParseReader@1"
	R     int    // 0 error, 1 ok, 2 panic
	Line  int
	Col   int
	PE    bool // error is *oj.ParseError
	Msg   string
	Value any // result (simple or gen), only when requested
	HasV  bool
}

// Chunked returns a reader that delivers b in pieces according to mode:
// "whole", "1", "2", "3", "7", "half", "dataerr", "split:<k>".
func Chunked(b []byte, mode string) io.Reader {
	switch mode {
	case "whole", "":
		return bytes.NewReader(b)
	case "half":
		return iotest.HalfReader(bytes.NewReader(b))
	case "dataerr":
		return iotest.DataErrReader(bytes.NewReader(b))
	case "1":
		return iotest.OneByteReader(bytes.NewReader(b))
	}
	if strings.HasPrefix(mode, "sizes:") {
		var sizes []int
		for _, f := range strings.Split(mode[6:], ",") {
			var k int
			fmt.Sscanf(f, "%d", &k)
			if k > 0 {
				sizes = append(sizes, k)
			}
		}
		return &sizesReader{b: b, sizes: sizes}
	}
	var n int
	// dataerr:N = reads of N bytes, the LAST of which arrives together with io.EOF (on a read after the first)
	if _, err := fmt.Sscanf(mode, "dataerr:%d", &n); err == nil && n > 0 {
		return iotest.DataErrReader(&fixedReader{b: b, n: n})
	}
	if _, err := fmt.Sscanf(mode, "split:%d", &n); err == nil {
		return &splitReader{b: b, at: n}
	}
	if _, err := fmt.Sscanf(mode, "%d", &n); err == nil && n > 0 {
		return &fixedReader{b: b, n: n}
	}
	panic("bad chunk mode " + mode)
}

// sizesReader delivers successive reads of the given sizes (a composition of len(b)); anything left over comes in one read.
type sizesReader struct {
	b     []byte
	sizes []int
}

func (r *sizesReader) Read(p []byte) (int, error) {
	if len(r.b) == 0 {
		return 0, io.EOF
	}
	n := len(r.b)
	if len(r.sizes) > 0 {
		n = r.sizes[0]
		r.sizes = r.sizes[1:]
	}
	if n > len(r.b) {
		n = len(r.b)
	}
	if n > len(p) {
		n = len(p)
	}
	copy(p, r.b[:n])
	r.b = r.b[n:]
	return n, nil
}

type fixedReader struct {
	b []byte
	n int
}

func (r *fixedReader) Read(p []byte) (int, error) {
	if len(r.b) == 0 {
		return 0, io.EOF
	}
	n := r.n
	if n > len(p) {
		n = len(p)
	}
	if n > len(r.b) {
		n = len(r.b)
	}
	copy(p, r.b[:n])
	r.b = r.b[n:]
	return n, nil
}

type splitReader struct {
	b    []byte
	at   int
	done bool
}

func (r *splitReader) Read(p []byte) (int, error) {
	if len(r.b) == 0 {
		return 0, io.EOF
	}
	n := len(r.b)
	if !r.done && r.at < n {
		n = r.at
		r.done = true
		if n == 0 {
			n = len(r.b)
		}
	}
	if n > len(p) {
		n = len(p)
	}
	copy(p, r.b[:n])
	r.b = r.b[n:]
	return n, nil
}

func fill(o *Obs, err error) {
	if err == nil {
		o.R = 1
		return
	}
	o.R = 0
	o.Msg = err.Error()
	var pe *oj.ParseError
	var ge *gen.ParseError
	if errors.As(err, &pe) {
		o.PE = true
		o.Line = pe.Line
		o.Col = pe.Column
	} else if errors.As(err, &ge) {
		o.PE = true
		o.Line = ge.Line
		o.Col = ge.Column
	}
}

// Call runs one front-end, chunk mode applies to reader variants. wantValue requests the result.
func Call(api string, chunk string, in []byte, wantValue bool) (o Obs) {
	o.API = api
	if chunk != "" && chunk != "whole" {
		o.API = api + "@" + chunk
	}
	defer func() {
		if x := recover(); x != nil {
			o.R = 2
			o.Msg = fmt.Sprintf("%T: %v", x, x)
			o.Value = nil
			o.HasV = false
		}
	}()
	// every front-end gets its own copy so that an implementation scribbling on its input cannot
	// influence the next observation
	b := append([]byte{}, in...)
	var v any
	var err error
	switch api {
	case "oj.Parse":
		v, err = oj.Parse(b)
	case "oj.Parser.Parse":
		p := oj.Parser{}
		v, err = p.Parse(b)
	case "oj.ParseReader":
		p := oj.Parser{}
		v, err = p.ParseReader(Chunked(b, chunk))
	case "oj.Load":
		v, err = oj.Load(Chunked(b, chunk))
	case "oj.Unmarshal":
		err = oj.Unmarshal(b, &v)
	case "oj.Parser.Unmarshal":
		p := oj.Parser{}
		err = p.Unmarshal(b, &v)
	case "oj.ParseString":
		v, err = oj.ParseString(string(b))
	case "oj.Validate1":
		p := oj.Validator{OnlyOne: true}
		err = p.Validate(b)
	case "oj.ValidateReader1":
		p := oj.Validator{OnlyOne: true}
		err = p.ValidateReader(Chunked(b, chunk))
	case "oj.Tokenize1":
		t := oj.Tokenizer{}
		t.OnlyOne = true
		if wantValue {
			h := &BuildHandler{}
			err = t.Parse(b, h)
			v = h.Result()
		} else {
			err = t.Parse(b, &oj.ZeroHandler{})
		}
	case "oj.TokenizeLoad1":
		t := oj.Tokenizer{}
		t.OnlyOne = true
		if wantValue {
			h := &BuildHandler{}
			err = t.Load(Chunked(b, chunk), h)
			v = h.Result()
		} else {
			err = t.Load(Chunked(b, chunk), &oj.ZeroHandler{})
		}
	case "gen.Parse":
		p := gen.Parser{}
		var n gen.Node
		n, err = p.Parse(b)
		if n != nil {
			v = n
		}
	case "gen.ParseReader":
		p := gen.Parser{}
		var n gen.Node
		n, err = p.ParseReader(Chunked(b, chunk))
		if n != nil {
			v = n
		}
	// ---- an option argument that must not change the accepted language: a number conversion method
	case "oj.Parse+ncm":
		v, err = oj.Parse(b, ojg.NumConvFloat64)
	case "oj.Parser.Parse+ncm":
		p := oj.Parser{}
		v, err = p.Parse(b, ojg.NumConvString)
	case "oj.ParseReader+ncm":
		p := oj.Parser{}
		v, err = p.ParseReader(Chunked(b, chunk), ojg.NumConvFloat64)
	case "oj.Load+ncm":
		v, err = oj.Load(Chunked(b, chunk), ojg.NumConvString)
	// ---- multi-document mode (a stream of JSON texts): callback / non-OnlyOne variants of the strict front-ends
	case "oj.Parse+cb":
		p := oj.Parser{}
		_, err = p.Parse(b, func(any) bool { return false })
	case "oj.ParseReader+cb":
		p := oj.Parser{}
		_, err = p.ParseReader(Chunked(b, chunk), func(any) bool { return false })
	case "oj.Load+cb":
		_, err = oj.Load(Chunked(b, chunk), func(any) bool { return false })
	case "gen.Parse+cb":
		p := gen.Parser{}
		_, err = p.Parse(b, func(gen.Node) bool { return false })
	case "gen.ParseReader+cb":
		p := gen.Parser{}
		_, err = p.ParseReader(Chunked(b, chunk), func(gen.Node) bool { return false })
	case "oj.Validate":
		p := oj.Validator{}
		err = p.Validate(b)
	case "oj.ValidateReader":
		p := oj.Validator{}
		err = p.ValidateReader(Chunked(b, chunk))
	case "oj.Tokenize":
		err = oj.Tokenize(b, &oj.ZeroHandler{})
	case "oj.TokenizeLoad":
		err = oj.TokenizeLoad(Chunked(b, chunk), &oj.ZeroHandler{})
	case "sen.Parse":
		// a fresh Parser: the package-level function recycles pooled instances, which is C07's subject
		p := sen.Parser{}
		v, err = p.Parse(b)
	case "sen.ParseReader":
		p := sen.Parser{}
		v, err = p.ParseReader(Chunked(b, chunk))
	case "sen.Parse(pooled)":
		v, err = sen.Parse(b)
	case "sen.ParseReader(pooled)":
		v, err = sen.ParseReader(Chunked(b, chunk))
	case "sen.Tokenize1":
		t := sen.Tokenizer{OnlyOne: true}
		h := &BuildHandler{}
		err = t.Parse(b, h)
		v = h.Result()
	case "sen.TokenizeLoad1":
		t := sen.Tokenizer{OnlyOne: true}
		h := &BuildHandler{}
		err = t.Load(Chunked(b, chunk), h)
		v = h.Result()
	case "sen.Tokenize":
		h := &BuildHandler{}
		err = sen.Tokenize(b, h)
		v = h.Result()
	case "sen.TokenizeLoad":
		h := &BuildHandler{}
		err = sen.TokenizeLoad(Chunked(b, chunk), h)
		v = h.Result()
	default:
		panic("unknown api " + api)
	}
	fill(&o, err)
	if wantValue && err == nil {
		o.Value = v
		o.HasV = true
	}
	return
}

// Ints converts bytes to the int list used in trace files (TLC has no byte strings).
func Ints(b []byte) []int {
	r := make([]int, len(b))
	for i, x := range b {
		r[i] = int(x)
	}
	return r
}

// Bytes is the inverse of Ints.
func Bytes(x []int) []byte {
	r := make([]byte, len(x))
	for i, v := range x {
		r[i] = byte(v)
	}
	return r
}

// Case is one input to the parser family.
type Case struct {
	B   []int  `json:"b"`
	Src string `json:"src,omitempty"`
	Pad int    `json:"pad,omitempty"` // the real input is Pad spaces followed by B (keeps long, refill-aligned inputs cheap to judge)
}

// Input returns the bytes handed to the front-ends: Pad spaces followed by B.
func (c Case) Input() []byte {
	in := make([]byte, 0, c.Pad+len(c.B))
	for i := 0; i < c.Pad; i++ {
		in = append(in, ' ')
	}
	return append(in, Bytes(c.B)...)
}

// MarshalLine encodes v as one ndjson line.
func MarshalLine(v any) []byte {
	b, err := json.Marshal(v)
	if err != nil {
		panic(err)
	}
	return append(b, '\n')
}
