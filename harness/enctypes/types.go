// Package enctypes is the fixed library of NAMED Go types the C15/C16 harness needs (Go cannot create
// named struct types at run time; anonymous shapes are built with reflect.StructOf).
package enctypes

import (
	"strconv"

	"github.com/ohler55/ojg/gen"

	"verif/harness/enctypes2"
)

// S1 is the plain nested struct used as element / pointer target.
type S1 struct {
	Sa int
	Sb string
}

// E1 is embedded without key collisions.
type E1 struct {
	Ea int
	Eb string
}

// E2 is embedded with a field (Aa) that collides with the first field name of the outer shapes.
type E2 struct {
	Aa string
	Ec int
}

// T has the same short name as enctypes2.T and different fields.
type T struct {
	X    int
	Name string
}

// U contains []T.
type U struct {
	Ts []T
	N  int
}

// V contains a pointer to the other package's T.
type V struct {
	P *enctypes2.T
	N int
}

// V1 contains a pointer to this package's T (same field layout as V otherwise).
type V1 struct {
	P *T
	N int
}

// W has an interface typed field: recomposing it needs a create key.
type W struct {
	I any
	N int
}

// Tagged exercises the json tag forms on a named type.
type Tagged struct {
	A int     `json:"a"`
	B string  `json:"b,omitempty"`
	C *int    `json:"c,omitempty"`
	D bool    `json:"-"`
	F float64 `json:"f"`
	G int
}

// Unexp has an unexported field.
type Unexp struct {
	Pub  int
	priv string
}

// NewUnexp sets the unexported field too.
func NewUnexp(p int, s string) Unexp { return Unexp{Pub: p, priv: s} }

// Emb embeds a struct value, EmbPtr a struct pointer.
type Emb struct {
	E1
	Z int
}

// EmbPtr embeds a pointer to a named struct.
type EmbPtr struct {
	*E1
	Z int
}

// Simp implements alt.Simplifier with a value receiver.
type Simp struct{ N int }

// Simplify returns a map.
func (s Simp) Simplify() any { return map[string]any{"simp": int64(s.N)} }

// PSimp implements alt.Simplifier with a pointer receiver.
type PSimp struct{ N int }

// Simplify returns a map.
func (s *PSimp) Simplify() any { return map[string]any{"psimp": int64(s.N)} }

// Gen implements alt.Genericer with a value receiver.
type Gen struct{ N int }

// Generic returns a gen.Object.
func (g Gen) Generic() gen.Node { return gen.Object{"gen": gen.Int(g.N)} }

// JM implements json.Marshaler with a value receiver.
type JM struct{ N int }

// MarshalJSON returns {"jm":N}.
func (j JM) MarshalJSON() ([]byte, error) { return []byte(`{"jm":` + strconv.Itoa(j.N) + `}`), nil }

// PJM implements json.Marshaler with a pointer receiver.
type PJM struct{ N int }

// MarshalJSON returns {"pjm":N}.
func (j *PJM) MarshalJSON() ([]byte, error) { return []byte(`{"pjm":` + strconv.Itoa(j.N) + `}`), nil }

// TM implements encoding.TextMarshaler with a value receiver.
type TM struct{ N int }

// MarshalText returns tm-N.
func (t TM) MarshalText() ([]byte, error) { return []byte("tm-" + strconv.Itoa(t.N)), nil }

// MyInt is a named integer type.
type MyInt int

// E3 is embedded by value: several numeric / bool members of different kinds and values at non-zero offsets.
type E3 struct {
	Ga int
	Gb int
	Gc bool
	Gd float64
	Ge uint8
}

// M1 has pointer, slice and map members: elements of map[string]M1, map[string]*M1, []M1, []*M1 populate them differently.
type M1 struct {
	Mp *int
	Ms []int
	Mm map[string]int
	Mn int
}

// E4 embeds E3 by value BEHIND leading members: two levels of by-value embedding when E4 itself is embedded.
type E4 struct {
	Ha int
	Hb string
	E3
	Hz bool
}

// Str1 / Str2 mix `,string` tagged and plain numeric / bool members, in both declaration orders.
type Str1 struct {
	A int
	B float64
	C bool
	D int `json:"d,string"`
}

// Str2 declares the `,string` members first and in between.
type Str2 struct {
	D int `json:",string"`
	A int
	C bool `json:"c,string"`
	B float64
	E float64 `json:"e,string"`
	F bool
}

// Col1..Col3: the json tag of one member equals a Go name (exact, first letter lowered, all lower) of ANOTHER member.
type Col1 struct {
	Kind string `json:"type"`
	Type string `json:"label"`
}

// Col2 swaps the names of two int members.
type Col2 struct {
	Id  int `json:"num"`
	Num int `json:"id"`
	Z   int `json:"z,omitempty"`
}

// Col3: exact-name collision, one member may be absent from the data (omitempty).
type Col3 struct {
	Name  string `json:"Title"`
	Title string `json:"name,omitempty"`
	Count int    `json:"count"`
}

// L1 has members of static type []any, map[string]any and any that hold user struct pointers, directly and nested.
type L1 struct {
	Items []any
	M     map[string]any
	X     any
}

// Multi-level pointer embedding: P2 embeds *P3, embedded itself as *P2 (two pointers to a promoted member);
// Q2 embeds Q3 by value which embeds *P3 (pointer -> value -> pointer); R1 embeds *P2 and is embedded by value.
type P3 struct {
	Pa int
	Pb string
}

// P2 embeds a pointer to P3.
type P2 struct {
	*P3
	Ma int
}

// Q3 embeds a pointer to P3 behind a leading member.
type Q3 struct {
	Qb int
	*P3
}

// Q2 embeds Q3 by value.
type Q2 struct {
	Q3
	Qa int
}

// R1 embeds a pointer to P2.
type R1 struct {
	Ra int
	*P2
}

// BA4 is a named byte array, BS a named byte slice.
type BA4 [4]byte

// BS is a named byte slice.
type BS []byte

// N1: numeric members whose values need full precision (long mantissa, beyond the float32 range, above 2^24).
type N1 struct {
	Nf float64
	Ng float64
	Nh float64
	Nt float64
	Ni int64
	Nu uint16
	Nb bool
	Ns float32
}

// IS1: every integer kind with the `,string` option (boundary values are set by the harness).
type IS1 struct {
	A int8   `json:",string"`
	B int16  `json:",string"`
	C int32  `json:",string"`
	D int64  `json:",string"`
	E int    `json:",string"`
	F uint8  `json:",string"`
	G uint16 `json:",string"`
	H uint32 `json:",string"`
	I uint64 `json:",string"`
	J uint   `json:",string"`
}

// IP1: every integer kind, plain (values stay below 2^53: JSON numbers pass through float64 in Unmarshal).
type IP1 struct {
	A int8
	B int16
	C int32
	D int64
	F uint8
	G uint16
	H uint32
	I uint64
}

// IS64: uint64 members in the upper half of their range, `,string` and plain.
type IS64 struct {
	I uint64 `json:",string"`
	P uint64
}

// Recursive types: containers that refer to themselves, a self-referential struct, a pointer cycle type, a mutually
// recursive pair. Values are small and finite (depth 0..3).
type Tree map[string]Tree

// List is a slice of itself.
type List []List

// Node refers to itself through a pointer, a slice and a map.
type Node struct {
	V    int
	Next *Node
	Kids []Node
	M    map[string]*Node
}

// P is a pointer to itself (legal in Go; every finite value ends in nil).
type P *P

// Ma and Mb refer to each other.
type Ma struct {
	N int
	B *Mb
}

// Mb is the other half of the pair.
type Mb struct {
	S  string
	A  *Ma
	As []Ma
}

// Embedded self pointers: EN embeds a pointer to itself, EA / EB embed pointers to each other.
type EN struct {
	*EN
	V int
}

// EA embeds *EB.
type EA struct {
	*EB
	X int
}

// EB embeds *EA.
type EB struct {
	*EA
	Y int
}

// ---- round 5: generic types, repeated / diamond embedding, OmitNil kind table, omitempty over embedding elements,
// ---- create-key collisions, deep containers

// Pair is a generic struct: the names of its instances (Pair[int], Pair[enctypes.Pair[int]]) contain characters that a
// SEN token cannot hold.
type Pair[T any] struct {
	Left  T
	Right T
}

// Stamp is embedded along two paths in Doc / Doc2.
type Stamp struct {
	Created int
	Updated int
}

// Base embeds Stamp.
type Base struct {
	Stamp
	ID int
}

// Doc embeds Stamp directly (declared first) and again through Base: the shallowest Created / Updated win.
type Doc struct {
	Stamp
	Base
	Title string
}

// Doc2 declares the direct embedding last.
type Doc2 struct {
	Base
	Stamp
	Title string
}

// D0, B1, C1, Dia: a diamond: K is reachable at the same depth through B1 and C1 (ambiguous: dropped by Go's rule).
type D0 struct{ K int }

// B1 embeds D0.
type B1 struct {
	D0
	Bx int
}

// C1 embeds D0.
type C1 struct {
	D0
	Cx int
}

// Dia embeds B1 and C1.
type Dia struct {
	B1
	C1
	T string
}

// Dia2: D0 directly and through B1 (uneven diamond: the direct K wins).
type Dia2 struct {
	B1
	D0
	T string
}

// SP is a struct whose only member is a pointer (data word zero when the pointer is nil), E0 has no members at all.
type SP struct{ P *int }

// E0 is a zero-size struct.
type E0 struct{}

// MBase / Meta: Meta embeds a POINTER to MBase; members of kind *Meta, []Meta, map[string]Meta carry omitempty.
type MBase struct {
	Rev int
	Tag string
}

// Meta embeds *MBase.
type Meta struct {
	*MBase
	Note string
}

// Ev has a member whose key is "type" (the usual create key); LogT holds pointers to Ev; Hat a member tagged "^".
type Ev struct {
	Seq  int
	Type string
}

// LogT refers to Ev through pointers (addressable when decomposed).
type LogT struct {
	Name   string
	Events []*Ev
	First  *Ev
}

// Hat has a member whose tag is the create key "^" of the harness.
type Hat struct {
	Caret string `json:"^"`
	N     int
}

// Leaf is only reachable through deep container nesting (it is never registered by the harness).
type Leaf struct {
	La int
	Lb string
}

// Deep3 .. Deep6: the owner reaches Leaf through 3 .. 6 container / pointer levels and has an interface member.
type Deep3 struct {
	Deep map[string][]*Leaf
	Top  any
}

// Deep4 has four levels.
type Deep4 struct {
	Deep [][][][]Leaf
	Top  any
}

// Deep5 has five levels.
type Deep5 struct {
	Deep map[string]map[string]map[string][]*Leaf
	Top  any
}

// Deep6 has six levels.
type Deep6 struct {
	Deep map[string][]map[string][]*[2]Leaf
	Top  any
}

// ---- round 6: type GRAPHS for the history check (Recompose.tla, graph family)

// GA and GB embed pointers to each other: the members of the one are promoted into the other; the walk along the
// embedded pointers ends where the cycle closes.
type GA struct {
	*GB
	A1 int
	A2 string
}

// GB is the other half.
type GB struct {
	*GA
	B1 int
	B2 string
}

// HA, HB, HC: an embedding cycle through a third type.
type HA struct {
	*HB
	Ha int
}

// HB embeds *HC.
type HB struct {
	*HC
	Hb int
}

// HC embeds *HA.
type HC struct {
	*HA
	Hc int
}

// MA and MB are mutually recursive through containers: MA has []*MB, MB has map[string]*MA.
type MA struct {
	Bs []*MB
	N  int
}

// MB is the other half.
type MB struct {
	As map[string]*MA
	S  string
}

// EI is an embedded part of EO (by value) and of EP (by pointer) and a target of its own; it has the same short name as
// enctypes2.EI, which EQ embeds.
type EI struct {
	I1 int
	I2 string
}

// EO embeds EI by value.
type EO struct {
	EI
	O int
}

// EP embeds a pointer to EI.
type EP struct {
	*EI
	P int
}

// EQ embeds the EI of the other package.
type EQ struct {
	enctypes2.EI
	Q int
}
