// Package absval projects Go values (simple, gen, reflect) onto the tagged abstract value encoding
// shared by all TLA+ specifications (DESIGN 4.1). It is the projection function of both
// conformance directions. The result is a tree of map[string]any / []any ready for encoding/json.
package absval

import (
	"encoding/json"
	"fmt"
	"math"
	"math/big"
	"reflect"
	"sort"
	"strconv"
	"time"

	"github.com/ohler55/ojg/gen"
)

// Opt controls the encoding.
type Opt struct {
	// StrAtoms emits strings and keys as JSON strings (TLA+ string atoms: equality only) instead of
	// byte lists.
	StrAtoms bool
	// AlwaysDec gives every int its exact decimal ("dec") even when it fits a TLC integer.
	AlwaysDec bool
	// FloatExact adds the exact decimal value of a float64 ("exact"; {"inf": +-1} for infinities).
	FloatExact bool
	// FloatMid adds the exact decimal expansions of the two midpoints around a float64 (C02/C04).
	FloatMid bool
}

// Encode with default options (byte-list strings).
func Encode(v any) any { return Opt{}.Encode(v) }

// Atoms encodes with strings as atoms.
func Atoms(v any) any { return Opt{StrAtoms: true}.Encode(v) }

func (o Opt) str(s string) any {
	if o.StrAtoms {
		return s
	}
	b := []byte(s)
	r := make([]int, len(b))
	for i, x := range b {
		r[i] = int(x)
	}
	return r
}

func (o Opt) intVal(i int64) any {
	if o.AlwaysDec {
		return map[string]any{"t": "int", "dec": Dec(strconv.FormatInt(i, 10))}
	}
	if -(1<<30) <= i && i <= 1<<30 {
		return map[string]any{"t": "int", "v": i}
	}
	return map[string]any{"t": "int", "dec": Dec(strconv.FormatInt(i, 10))}
}

func (o Opt) uintVal(u uint64) any {
	if o.AlwaysDec {
		return map[string]any{"t": "int", "dec": Dec(strconv.FormatUint(u, 10))}
	}
	if u <= 1<<30 {
		return map[string]any{"t": "int", "v": int64(u)}
	}
	return map[string]any{"t": "int", "dec": Dec(strconv.FormatUint(u, 10))}
}

// Dec turns a decimal literal (optional sign, digits, optional fraction, optional exponent) into the
// normalised form used by the specs: {neg, digits (no leading zeros, no trailing zeros), exp10} meaning
// digits * 10^exp10; zero is {neg:false, digits:[], exp10:0}.
func Dec(lit string) any {
	// parsed by hand: big.Rat refuses large exponents, and the result must be exact
	i := 0
	neg := false
	if i < len(lit) && (lit[i] == '-' || lit[i] == '+') {
		neg = lit[i] == '-'
		i++
	}
	var digs []int
	nd := 0
	for ; i < len(lit) && '0' <= lit[i] && lit[i] <= '9'; i++ {
		digs = append(digs, int(lit[i]-'0'))
		nd++
	}
	exp := 0
	if i < len(lit) && lit[i] == '.' {
		i++
		for ; i < len(lit) && '0' <= lit[i] && lit[i] <= '9'; i++ {
			digs = append(digs, int(lit[i]-'0'))
			exp--
			nd++
		}
	}
	if nd == 0 {
		return map[string]any{"bad": lit}
	}
	if i < len(lit) && (lit[i] == 'e' || lit[i] == 'E') {
		i++
		eneg := false
		if i < len(lit) && (lit[i] == '-' || lit[i] == '+') {
			eneg = lit[i] == '-'
			i++
		}
		e, n := 0, 0
		for ; i < len(lit) && '0' <= lit[i] && lit[i] <= '9'; i++ {
			if e < 100000000 {
				e = e*10 + int(lit[i]-'0')
			}
			n++
		}
		if n == 0 {
			return map[string]any{"bad": lit}
		}
		if eneg {
			e = -e
		}
		exp += e
	}
	if i != len(lit) {
		return map[string]any{"bad": lit}
	}
	for len(digs) > 0 && digs[0] == 0 {
		digs = digs[1:]
	}
	for len(digs) > 0 && digs[len(digs)-1] == 0 {
		digs = digs[:len(digs)-1]
		exp++
	}
	if len(digs) == 0 {
		return map[string]any{"neg": false, "digits": []int{}, "exp10": 0}
	}
	return map[string]any{"neg": neg, "digits": digs, "exp10": exp}
}

// RatDec normalises a rational that has a finite decimal expansion.
func RatDec(r *big.Rat) any {
	neg := r.Sign() < 0
	a := new(big.Rat).Abs(r)
	exp := 0
	// fast path: denominator 2^k (every float64 and every midpoint): value = num * 5^k * 10^-k
	if d := a.Denom(); d.BitLen() > 1 && new(big.Int).And(d, new(big.Int).Sub(d, big.NewInt(1))).Sign() == 0 {
		k := d.BitLen() - 1
		n := new(big.Int).Exp(big.NewInt(5), big.NewInt(int64(k)), nil)
		n.Mul(n, a.Num())
		a = new(big.Rat).SetInt(n)
		exp = -k
	}
	ten := big.NewRat(10, 1)
	for !a.IsInt() {
		a.Mul(a, ten)
		exp--
		if exp < -1200 {
			return map[string]any{"bad": r.String()}
		}
	}
	n := new(big.Int).Set(a.Num())
	digits := []int{}
	if n.Sign() != 0 {
		s := n.String()
		for len(s) > 1 && s[len(s)-1] == '0' {
			s = s[:len(s)-1]
			exp++
		}
		for _, c := range s {
			digits = append(digits, int(c-'0'))
		}
	} else {
		neg = false
		exp = 0
	}
	return map[string]any{"neg": neg, "digits": digits, "exp10": exp}
}

// FloatMidpoints returns the exact decimal values of the midpoints between f and its two neighbours.
// A literal L rounds to f (nearest, ties either way) iff lo <= L <= hi.
func FloatMidpoints(f float64) (lo, hi any) {
	if math.IsInf(f, 0) || math.IsNaN(f) {
		return map[string]any{"bad": "inf"}, map[string]any{"bad": "inf"}
	}
	fr := new(big.Rat).SetFloat64(f)
	dn := math.Nextafter(f, math.Inf(-1))
	up := math.Nextafter(f, math.Inf(1))
	half := big.NewRat(1, 2)
	mid := func(a float64) *big.Rat {
		var ar *big.Rat
		if math.IsInf(a, 0) {
			// the overflow threshold: MaxFloat64 + half an ulp
			ulp := new(big.Rat).Sub(new(big.Rat).SetFloat64(math.MaxFloat64), new(big.Rat).SetFloat64(math.Nextafter(math.MaxFloat64, 0)))
			ar = new(big.Rat).Add(new(big.Rat).SetFloat64(math.MaxFloat64), ulp)
			if a < 0 {
				ar.Neg(ar)
			}
		} else {
			ar = new(big.Rat).SetFloat64(a)
		}
		s := new(big.Rat).Add(fr, ar)
		return s.Mul(s, half)
	}
	return RatDec(mid(dn)), RatDec(mid(up))
}

func (o Opt) floatVal(f float64) any {
	m := map[string]any{"t": "flt", "s": strconv.FormatFloat(f, 'g', -1, 64)}
	if o.FloatExact {
		if math.IsInf(f, 0) || math.IsNaN(f) {
			m["exact"] = map[string]any{"inf": strconv.FormatFloat(f, 'g', -1, 64)}
		} else {
			m["exact"] = RatDec(new(big.Rat).SetFloat64(f))
		}
	}
	if o.FloatMid {
		// fields present in every float record so that TLC can select them
		zero := Dec("0")
		m["inf"], m["thr"], m["lo"], m["hi"] = 0, zero, zero, zero
	}
	if math.IsInf(f, 0) || math.IsNaN(f) {
		if o.FloatMid && math.IsInf(f, 0) {
			// +-Inf is "nearest" exactly for literals at or beyond MaxFloat64 + half an ulp
			ulp := new(big.Rat).Sub(new(big.Rat).SetFloat64(math.MaxFloat64), new(big.Rat).SetFloat64(math.Nextafter(math.MaxFloat64, 0)))
			thr := new(big.Rat).Add(new(big.Rat).SetFloat64(math.MaxFloat64), ulp.Mul(ulp, big.NewRat(1, 2)))
			m["thr"] = RatDec(thr)
			m["inf"] = 1
			if f < 0 {
				m["inf"] = -1
			}
		}
		return m
	}
	// small dyadic rationals n / 2^k are exact in TLC integers
	for k := 0; k <= 10; k++ {
		x := f * float64(int64(1)<<uint(k))
		if x == math.Trunc(x) && math.Abs(x) <= 1<<30 {
			m["q"] = []int64{int64(x), int64(k)}
			break
		}
	}
	if f == 0 && math.Signbit(f) {
		m["negzero"] = true
	}
	if o.FloatMid {
		m["lo"], m["hi"] = FloatMidpoints(f)
		m["exact"] = RatDec(new(big.Rat).SetFloat64(f))
	}
	return m
}

// Encode projects v.
func (o Opt) Encode(v any) any {
	switch t := v.(type) {
	case nil:
		return map[string]any{"t": "null"}
	case bool:
		return map[string]any{"t": "bool", "v": t}
	case gen.Bool:
		return map[string]any{"t": "bool", "v": bool(t)}
	case int:
		return o.intVal(int64(t))
	case int8:
		return o.intVal(int64(t))
	case int16:
		return o.intVal(int64(t))
	case int32:
		return o.intVal(int64(t))
	case int64:
		return o.intVal(t)
	case gen.Int:
		return o.intVal(int64(t))
	case uint:
		return o.uintVal(uint64(t))
	case uint8:
		return o.uintVal(uint64(t))
	case uint16:
		return o.uintVal(uint64(t))
	case uint32:
		return o.uintVal(uint64(t))
	case uint64:
		return o.uintVal(t)
	case float32:
		return o.floatVal(float64(t))
	case float64:
		return o.floatVal(t)
	case gen.Float:
		return o.floatVal(float64(t))
	case string:
		return map[string]any{"t": "str", "v": o.str(t)}
	case gen.String:
		return map[string]any{"t": "str", "v": o.str(string(t))}
	case json.Number:
		return map[string]any{"t": "big", "text": o.str(string(t)), "dec": Dec(string(t))}
	case gen.Big:
		return map[string]any{"t": "big", "text": o.str(string(t)), "dec": Dec(string(t))}
	case time.Time:
		// ns overflows beyond the years 1678..2262 (UnixNano); sec/nsec are exact for every time.Time
		return map[string]any{"t": "time", "ns": strconv.FormatInt(t.UnixNano(), 10), "sec": strconv.FormatInt(t.Unix(), 10), "nsec": t.Nanosecond()}
	case gen.Time:
		tt := time.Time(t)
		return map[string]any{"t": "time", "ns": strconv.FormatInt(tt.UnixNano(), 10), "sec": strconv.FormatInt(tt.Unix(), 10), "nsec": tt.Nanosecond()}
	case []any:
		a := make([]any, len(t))
		for i, e := range t {
			a[i] = o.Encode(e)
		}
		return map[string]any{"t": "arr", "v": a}
	case gen.Array:
		a := make([]any, len(t))
		for i, e := range t {
			a[i] = o.Encode(e)
		}
		return map[string]any{"t": "arr", "v": a}
	case map[string]any:
		keys := make([]string, 0, len(t))
		for k := range t {
			keys = append(keys, k)
		}
		sort.Strings(keys)
		ks := make([]any, len(keys))
		vs := make([]any, len(keys))
		for i, k := range keys {
			ks[i] = o.str(k)
			vs[i] = o.Encode(t[k])
		}
		return map[string]any{"t": "obj", "k": ks, "v": vs}
	case gen.Object:
		keys := make([]string, 0, len(t))
		for k := range t {
			keys = append(keys, k)
		}
		sort.Strings(keys)
		ks := make([]any, len(keys))
		vs := make([]any, len(keys))
		for i, k := range keys {
			ks[i] = o.str(k)
			vs[i] = o.Encode(t[k])
		}
		return map[string]any{"t": "obj", "k": ks, "v": vs}
	}
	// reflection for typed slices, arrays, maps with string keys, pointers
	rv := reflect.ValueOf(v)
	switch rv.Kind() {
	case reflect.Ptr, reflect.Interface:
		if rv.IsNil() {
			return map[string]any{"t": "null"}
		}
		return o.Encode(rv.Elem().Interface())
	case reflect.Slice, reflect.Array:
		if rv.Kind() == reflect.Slice && rv.IsNil() {
			return map[string]any{"t": "arr", "v": []any{}}
		}
		a := make([]any, rv.Len())
		for i := range a {
			a[i] = o.Encode(rv.Index(i).Interface())
		}
		return map[string]any{"t": "arr", "v": a}
	case reflect.Map:
		if rv.Type().Key().Kind() == reflect.String {
			keys := make([]string, 0, rv.Len())
			for _, k := range rv.MapKeys() {
				keys = append(keys, k.String())
			}
			sort.Strings(keys)
			ks := make([]any, len(keys))
			vs := make([]any, len(keys))
			for i, k := range keys {
				ks[i] = o.str(k)
				vs[i] = o.Encode(rv.MapIndex(reflect.ValueOf(k).Convert(rv.Type().Key())).Interface())
			}
			return map[string]any{"t": "obj", "k": ks, "v": vs}
		}
	case reflect.Int, reflect.Int8, reflect.Int16, reflect.Int32, reflect.Int64:
		return o.intVal(rv.Int())
	case reflect.Uint, reflect.Uint8, reflect.Uint16, reflect.Uint32, reflect.Uint64:
		return o.uintVal(rv.Uint())
	case reflect.Float32, reflect.Float64:
		return o.floatVal(rv.Float())
	case reflect.String:
		return map[string]any{"t": "str", "v": o.str(rv.String())}
	case reflect.Bool:
		return map[string]any{"t": "bool", "v": rv.Bool()}
	}
	return map[string]any{"t": "other", "go": fmt.Sprintf("%T", v)}
}
