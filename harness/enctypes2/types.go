// Package enctypes2 is the second half of the fixed library of named Go types used by the C15/C16
// harness: it declares a type with the same short name T as enctypes.T but with different fields.
package enctypes2

// T has the same short name as enctypes.T and different fields.
type T struct {
	Y    string
	Flag bool
}

// Q is only declared here (no name clash); it refers to nothing else.
type Q struct {
	Qa int
	Qs []string
}

// EI has the same short name as enctypes.EI and different members (embedded in enctypes.EQ).
type EI struct {
	J1 string
	J2 bool
}
