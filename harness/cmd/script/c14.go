package main

func genC14(tier string, n int, seed int64) {}
func execC14()                              {}
