package main

import (
	"bufio"
	"encoding/json"
	"fmt"
	"math"
	"os"
	"reflect"
	"regexp"
	"sort"
	"strings"

	"github.com/ohler55/ojg/jp"

	"verif/harness/absval"
)

// ---------------------------------------------------------------- C14: print / parse / print / evaluate

type c14case struct {
	K        string `json:"k"`                  // "path" | "eq"
	Cell     string `json:"cell"`               // the generator's coordinates (fragment kinds, key class, position / operator triple)
	Fr       []Frag `json:"fr,omitempty"`       // path: fragments after the first
	Root     string `json:"root,omitempty"`     // path: "$", "@" or "" (relative)
	Ast      *AST   `json:"ast,omitempty"`      // eq
	Elem     *Abs   `json:"elem,omitempty"`     // eq: the element the script is matched against
	Wrap     int    `json:"wrap,omitempty"`     // eq: 1 = the tree of interest is ast.l (an arithmetic tree compared with a constant)
	AllForms bool   `json:"allforms,omitempty"` // txt: run every parse entry point (else the three principal ones)
	Pair     bool   `json:"pair,omitempty"`     // path: evaluate on the document of the rune-class pair keys
	Alt      bool   `json:"alt,omitempty"`      // txt: write the regex operator in its other spelling (~=)
	Items    []Item `json:"items,omitempty"`    // txt: the script text as items (the TLA+ side derives the intended tree from them)
	Elems    []*Abs `json:"elems,omitempty"`    // eq / txt: further elements; original and re-parsed are evaluated on every one of them
}

// Item of a script text: an operand atom (constant), an operator, a ! marker or a parenthesised group.
type Item struct {
	K string `json:"k"` // "atom" | "op" | "not" | "grp"
	T *AST   `json:"t,omitempty"`
	O string `json:"o,omitempty"`
	G []Item `json:"g,omitempty"`
}

// MarshalJSON writes only the fields of the item kind.
func (it Item) MarshalJSON() ([]byte, error) {
	switch it.K {
	case "atom":
		return json.Marshal(map[string]any{"k": it.K, "t": it.T})
	case "op":
		return json.Marshal(map[string]any{"k": it.K, "o": it.O})
	case "grp":
		return json.Marshal(map[string]any{"k": it.K, "g": it.G})
	}
	return json.Marshal(map[string]any{"k": it.K})
}

func renderItems(items []Item) string {
	var b strings.Builder
	for _, it := range items {
		switch it.K {
		case "atom":
			b.WriteString(it.T.Text())
		case "op":
			b.WriteString(" " + it.O + " ")
		case "not":
			b.WriteString("!")
		case "grp":
			b.WriteString("(" + renderItems(it.G) + ")")
		}
	}
	return b.String()
}

// runTxt: a script TEXT is parsed (three entry points), printed, parsed again, printed again; both parses are evaluated.
func runTxt(c *c14case) []*c14event {
	text := renderItems(c.Items)
	if c.Alt {
		text = strings.Replace(text, " =~ ", " ~= ", -1)
	}
	elem := c.Elem.Simple()
	match := func(f func() bool) (r int) {
		defer func() {
			if rec := recover(); rec != nil {
				r = 2
			}
		}()
		if f() {
			return 1
		}
		return 0
	}
	type parsed struct {
		str   func() string
		eval  func() bool
		shape func() any
		on    func(el any) bool // the same evaluation on another element
	}
	mkParsed := func(str func() string, on func(el any) bool, shape func() any) *parsed {
		return &parsed{str, func() bool { return on(elem) }, shape, on}
	}
	filterShape := func(f jp.Frag) any {
		if ff, ok := f.(*jp.Filter); ok {
			return shapeOf(&ff.Script)
		}
		return noShape
	}
	parsers := []struct {
		form string
		src  string
		p    func(s string) (*parsed, error)
	}{
		{"ParseString.filter", "$[?(" + text + ")]", func(s string) (*parsed, error) {
			y, err := jp.ParseString(s)
			if err != nil {
				return nil, err
			}
			return mkParsed(y.String, func(el any) bool { return len(y.Get([]any{el})) == 1 }, func() any { return filterShape(y[len(y)-1]) }), nil
		}},
		{"NewFilter", "[?(" + text + ")]", func(s string) (*parsed, error) {
			f, err := jp.NewFilter(s)
			if err != nil {
				return nil, err
			}
			return mkParsed(f.String, func(el any) bool { return len(jp.Expr{jp.Root('$'), f}.Get([]any{el})) == 1 }, func() any { return shapeOf(&f.Script) }), nil
		}},
		{"NewScript", "(" + text + ")", func(s string) (*parsed, error) {
			sc, err := jp.NewScript(s)
			if err != nil {
				return nil, err
			}
			return mkParsed(sc.String, func(el any) bool { return sc.Match(el) }, func() any { return shapeOf(sc) }), nil
		}},
	}
	if c.AllForms {
		// every other entry point of the two text forms; the Must variants panic on an error
		guard := func(f func()) (err error) {
			defer func() {
				if r := recover(); r != nil {
					err = fmt.Errorf("%v", r)
				}
			}()
			f()
			return nil
		}
		exprParsed := func(y jp.Expr) *parsed {
			return mkParsed(y.String, func(el any) bool { return len(y.Get([]any{el})) == 1 }, func() any { return filterShape(y[len(y)-1]) })
		}
		parsers = append(parsers, []struct {
			form string
			src  string
			p    func(s string) (*parsed, error)
		}{
			{"MustParseString.filter", "$[?(" + text + ")]", func(s string) (*parsed, error) {
				var y jp.Expr
				if err := guard(func() { y = jp.MustParseString(s) }); err != nil {
					return nil, err
				}
				return exprParsed(y), nil
			}},
			{"Parse.filter", "$[?(" + text + ")]", func(s string) (*parsed, error) {
				y, err := parseOwned(s)
				if err != nil {
					return nil, err
				}
				return exprParsed(y), nil
			}},
			{"MustNewFilter", "[?(" + text + ")]", func(s string) (*parsed, error) {
				var f *jp.Filter
				if err := guard(func() { f = jp.MustNewFilter(s) }); err != nil {
					return nil, err
				}
				return mkParsed(f.String, func(el any) bool { return len(jp.Expr{jp.Root('$'), f}.Get([]any{el})) == 1 }, func() any { return shapeOf(&f.Script) }), nil
			}},
			{"MustNewScript", "(" + text + ")", func(s string) (*parsed, error) {
				var sc *jp.Script
				if err := guard(func() { sc = jp.MustNewScript(s) }); err != nil {
					return nil, err
				}
				return mkParsed(sc.String, func(el any) bool { return sc.Match(el) }, func() any { return shapeOf(sc) }), nil
			}},
			{"MustParseEquation", "(" + text + ")", func(s string) (*parsed, error) {
				var e *jp.Equation
				if err := guard(func() { e = jp.MustParseEquation(s) }); err != nil {
					return nil, err
				}
				return mkParsed(e.String, func(el any) bool { return e.Script().Match(el) }, func() any { return shapeOf(e.Script()) }), nil
			}},
		}...)
	}
	// the reference entry point of each kind: all entry points of a text form must read the same text alike
	refOf := map[string]string{"MustParseString.filter": "ParseString.filter", "Parse.filter": "ParseString.filter", "NewFilter": "ParseString.filter",
		"MustNewFilter": "ParseString.filter", "MustNewScript": "NewScript", "MustParseEquation": "NewScript"}
	type refRes struct {
		pt string
		mo int
	}
	refs := map[string]refRes{}
	var evs []*c14event
	for _, ps := range parsers {
		ev := &c14event{K: "txt", Cell: c.Cell, Form: ps.form, Elem: c.Elem, Mo: -1, Mr: -1, Case: c, S1: []int{}, S2: []int{}, Eo: []string{}, Er: []string{}, Eos: []string{}, Ers: []string{}, To: noShape, Tr: noShape, Mos: []int{}, Mrs: []int{}}
		p1, err := ps.p(ps.src)
		if err != nil {
			ev.Perr, ev.Pmsg = 1, clip("text: "+err.Error())
			ev.S1 = ints(ps.src)
			evs = append(evs, ev)
			continue
		}
		s1, perr := safeStr(p1.str)
		ev.S1 = ints(s1)
		ev.To = p1.shape()
		ev.Mo = match(p1.eval)
		ptb, _ := json.Marshal(ev.To)
		ev.Pt = string(ptb)
		var multi []string
		if 0 < len(c.Elems) {
			ev.Mos, multi = evalAll(c.Elems, func(el any) int { return match(func() bool { return p1.on(el) }) })
			ev.Pt += " on elems " + multi[0] // entry points are also compared on every element
		}
		refs[ps.form] = refRes{ev.Pt, ev.Mo}
		if rf, ok := refs[refOf[ps.form]]; ok {
			ev.Pref, ev.Mref = rf.pt, rf.mo
		}
		ev.Eo = []string{fmt.Sprint(ev.Mo)}
		if multi != nil {
			ev.Eo = multi
		}
		ev.Eos = ev.Eo
		if perr != "" {
			ev.Perr, ev.Pmsg = 2, perr
		} else if p2, err := ps.p(s1); err != nil {
			ev.Perr, ev.Pmsg = 1, clip(err.Error())
		} else {
			s2, _ := safeStr(p2.str)
			ev.S2 = ints(s2)
			ev.Tr = p2.shape()
			ev.Mr = match(p2.eval)
			ev.Er = []string{fmt.Sprint(ev.Mr)}
			if 0 < len(c.Elems) {
				ev.Mrs, ev.Er = evalAll(c.Elems, func(el any) int { return match(func() bool { return p2.on(el) }) })
			}
			ev.Ers = ev.Er
		}
		evs = append(evs, ev)
	}
	return evs
}

type c14event struct {
	K    string   `json:"k"`
	Cell string   `json:"cell"`
	Form string   `json:"form"`
	S1   []int    `json:"s1"`
	Perr int      `json:"perr"`
	Pmsg string   `json:"pmsg"`
	S2   []int    `json:"s2"`
	Eo   []string `json:"eo"`
	Er   []string `json:"er"`
	Ast  *AST     `json:"ast,omitempty"`
	Elem *Abs     `json:"elem,omitempty"`
	Mo   int      `json:"mo"`
	Mr   int      `json:"mr"`
	Pt   string   `json:"pt"`   // txt: canonical text of the structure this entry point parsed
	Pref string   `json:"pref"` // txt: the same through the reference entry point of the kind (jp.ParseString / jp.NewScript); "" = this is the reference
	Mref int      `json:"mref"` // txt: the evaluation through the reference entry point
	Same bool     `json:"same"` // the re-parsed expression is structurally identical to the original (reflect.DeepEqual)
	Eos  []string `json:"eos"`  // distinct results of evaluating the original several times (Get may depend on map order)
	Ers  []string `json:"ers"`  // the same for the re-parsed expression
	To   any      `json:"to"`   // structure of the original script's program (shapeOf), {"op":"?"} when not available
	Tr   any      `json:"tr"`   // the same for the re-parsed script
	Mos  []int    `json:"mos"`  // eq / txt with case.elems: the evaluation of the original on each of them (0 / 1 / 2 = panic)
	Mrs  []int    `json:"mrs"`  // the same for the re-parsed script
	Case *c14case `json:"case"`
}

// evalAll evaluates on every element of the case (ev(elem) reports the match outcome 0 / 1 / 2) and returns the outcomes and
// their joined text, which takes the place of the single outcome in eo / eos when the case names several elements.
func evalAll(elems []*Abs, ev func(elem any) int) ([]int, []string) {
	out := make([]int, len(elems))
	var b strings.Builder
	for i, el := range elems {
		out[i] = ev(el.Simple())
		fmt.Fprintf(&b, "%d", out[i])
	}
	return out, []string{b.String()}
}

var noShape = map[string]any{"op": "?"}

var keyUniverse = []struct{ cls, key string }{
	{"plain", "a"}, {"empty", ""}, {"quote", "a'b"}, {"dquote", "a\"b"}, {"backslash", "a\\b"}, {"control", "a\nb"}, {"ctl01", "a\x01b"},
	{"nonascii", "é"}, {"rbracket", "a]b"}, {"lbracket", "a[b"}, {"space", "a b"}, {"dot", "a.b"}, {"number", "12"}, {"negnum", "-1"},
	{"operator", "=="}, {"star", "*"}, {"at", "@"}, {"dollar", "$x"}, {"comma", "a,b"}, {"colon", "a:b"}, {"question", "?a"}, {"paren", "(a)"},
	{"del", "a\x7fb"}, {"cr", "a\rb"}, {"formfeed", "a\fb"}, {"backspace", "a\bb"}, {"tab", "a\tb"}, {"u2028", "a b"}, {"badutf8", "a\xffb"},
}

func init() {
	// registered functions for the text cases of the function-argument table: they hand an argument through, so the value of
	// the argument expression decides the script (the arguments of match / search only matter when they are strings)
	jp.RegisterUnaryFunction("vid", false, func(a any) any { return a })
	jp.RegisterBinaryFunction("vfirst", false, false, func(a, b any) any { return a })
	jp.RegisterBinaryFunction("vsecond", false, false, func(a, b any) any { return b })
	// every control character individually (a class representative is not enough: the printer's and the parser's escape
	// tables have one cell per character)
	for c := 0; c <= 0x1f; c++ {
		keyUniverse = append(keyUniverse, struct{ cls, key string }{fmt.Sprintf("ctl%02x", c), "a" + string(rune(c)) + "b"})
	}
}

func c14doc() any {
	inner := func(i int) any {
		return []any{int64(10 + i), map[string]any{"a": int64(i), "b": []any{int64(i)}}, []any{int64(i), int64(i + 1), int64(i + 2)}, "s"}
	}
	doc := map[string]any{}
	for i, k := range keyUniverse {
		doc[k.key] = inner(i)
	}
	doc["b"] = map[string]any{"a": inner(50), "c": int64(3)}
	return doc
}

// every 'special' rune class of the printer (AppendString) and the keys that put each class directly before each other one
var runeClasses = []struct{ n, s string }{{"u2028", "\u2028"}, {"u2029", "\u2029"}, {"badutf8", "\xff"}, {"ctl", "\x01"}, {"del", "\x7f"},
	{"quote", "'"}, {"dquote", "\""}, {"backslash", "\\"}, {"utf2", "é"}, {"utf3", "€"}, {"utf4", "😀"}}

type pairKey struct{ cell, key string }

func pairKeys() []pairKey {
	var out []pairKey
	for _, x := range runeClasses {
		for _, y := range runeClasses {
			p := x.s + y.s
			for _, v := range []struct{ pos, key string }{{"whole", p}, {"middle", "a" + p + "b"}, {"start", p + "b"}, {"end", "a" + p}} {
				out = append(out, pairKey{"pair(" + x.n + "," + y.n + ") " + v.pos, v.key})
			}
		}
	}
	return out
}

func pairDoc() any {
	doc := map[string]any{"a": int64(1)}
	for i, pk := range pairKeys() {
		doc[pk.key] = int64(100 + i)
	}
	return doc
}

func canon(vs []any) []string {
	out := make([]string, len(vs))
	for i, v := range vs {
		b, _ := json.Marshal(absval.Encode(v))
		out[i] = string(b)
	}
	sort.Strings(out) // bag projection: object members come in map order
	return out
}

func safeGet(x jp.Expr, doc any) (res []string) {
	defer func() {
		if r := recover(); r != nil {
			res = []string{"panic: " + clip(fmt.Sprint(r))}
		}
	}()
	return canon(x.Get(doc))
}

// distinctGets evaluates several times and returns the distinct results (each a joined bag).
func distinctGets(x jp.Expr, doc any) []string {
	seen := map[string]bool{}
	for i := 0; i < 6; i++ {
		seen[strings.Join(safeGet(x, doc), "\x1f")] = true
	}
	out := make([]string, 0, len(seen))
	for k := range seen {
		out = append(out, k)
	}
	sort.Strings(out)
	return out
}

func safeStr(f func() string) (s string, perr string) {
	defer func() {
		if r := recover(); r != nil {
			perr = "panic: " + clip(fmt.Sprint(r))
		}
	}()
	return f(), ""
}

func runC14(c *c14case) []*c14event {
	var evs []*c14event
	mk := func(form string) *c14event {
		return &c14event{K: c.K, Cell: c.Cell, Form: form, Ast: c.Ast, Elem: c.Elem, Mo: -1, Mr: -1, Case: c, S1: []int{}, S2: []int{}, Eo: []string{}, Er: []string{}, Eos: []string{}, Ers: []string{}, To: noShape, Tr: noShape, Mos: []int{}, Mrs: []int{}}
	}
	if c.K == "path" {
		var x jp.Expr
		switch c.Root {
		case "$":
			x = jp.R()
		case "@":
			x = jp.A()
		default:
			x = jp.X()
		}
		x = appendFrags(x, c.Fr)
		doc := c14doc()
		if c.Pair {
			doc = pairDoc()
		}
		for _, form := range []string{"Expr.String", "Expr.BracketString"} {
			ev := mk(form)
			s1, perr := safeStr(func() string {
				if form == "Expr.String" {
					return x.String()
				}
				return x.BracketString()
			})
			ev.S1 = ints(s1)
			ev.Eo = safeGet(x, doc)
			ev.Eos = distinctGets(x, doc)
			if perr != "" {
				ev.Perr, ev.Pmsg = 2, perr
			} else if y, err := parseOwned(s1); err != nil {
				ev.Perr, ev.Pmsg = 1, clip(err.Error())
			} else {
				s2, _ := safeStr(func() string {
					if form == "Expr.String" {
						return y.String()
					}
					return y.BracketString()
				})
				ev.S2 = ints(s2)
				ev.Er = safeGet(y, doc)
				ev.Ers = distinctGets(y, doc)
				ev.Same = reflect.DeepEqual(x, y)
			}
			evs = append(evs, ev)
		}
		return evs
	}
	if c.K == "txt" {
		return runTxt(c)
	}
	elem := c.Elem.Simple()
	match := func(f func() bool) (r int) {
		defer func() {
			if rec := recover(); rec != nil {
				r = 2
			}
		}()
		if f() {
			return 1
		}
		return 0
	}
	for _, form := range []string{"Equation.String", "Script.String", "Filter.String"} {
		ev := mk(form)
		var s1, perr string
		switch form {
		case "Equation.String":
			s1, perr = safeStr(func() string { return c.Ast.Build().String() })
		case "Script.String":
			s1, perr = safeStr(func() string { return c.Ast.Build().Script().String() })
		default:
			s1, perr = safeStr(func() string { return jp.R().F(c.Ast.Build()).String() })
		}
		ev.S1 = ints(s1)
		ev.To = shapeOf(c.Ast.Build().Script())
		if form == "Filter.String" {
			// the filter applied to [elem]: $ is that list, for the original and for the re-parsed filter alike
			ev.Mo = match(func() bool { return len(jp.R().F(c.Ast.Build()).Get([]any{elem})) == 1 })
		} else {
			ev.Mo = match(func() bool { return c.Ast.Build().Script().Match(elem) })
		}
		ev.Eo = []string{fmt.Sprint(ev.Mo)}
		if 0 < len(c.Elems) {
			ev.Mos, ev.Eo = evalAll(c.Elems, func(el any) int {
				if form == "Filter.String" {
					return match(func() bool { return len(jp.R().F(c.Ast.Build()).Get([]any{el})) == 1 })
				}
				return match(func() bool { return c.Ast.Build().Script().Match(el) })
			})
		}
		ev.Eos = ev.Eo
		if perr != "" {
			ev.Perr, ev.Pmsg = 2, perr
			evs = append(evs, ev)
			continue
		}
		var s2 string
		var re func() bool
		var reOn func(el any) bool
		var reShape func() any
		var err error
		switch form {
		case "Equation.String":
			var e2 *jp.Equation
			s2, perr = safeStr(func() string { e2 = jp.MustParseEquation(s1); return e2.String() })
			re = func() bool { return e2.Script().Match(elem) }
			reOn = func(el any) bool { return e2.Script().Match(el) }
			reShape = func() any { return shapeOf(e2.Script()) }
		case "Script.String":
			var sc *jp.Script
			if sc, err = jp.NewScript(s1); err == nil {
				s2 = sc.String()
				re = func() bool { return sc.Match(elem) }
				reOn = func(el any) bool { return sc.Match(el) }
				reShape = func() any { return shapeOf(sc) }
			}
		default:
			var y jp.Expr
			if y, err = parseOwned(s1); err == nil {
				s2 = y.String()
				re = func() bool { return len(y.Get([]any{elem})) == 1 }
				reOn = func(el any) bool { return len(y.Get([]any{el})) == 1 }
				reShape = func() any {
					if ff, ok := y[len(y)-1].(*jp.Filter); ok {
						return shapeOf(&ff.Script)
					}
					return noShape
				}
			}
		}
		if err != nil {
			ev.Perr, ev.Pmsg = 1, clip(err.Error())
		} else if perr != "" {
			ev.Perr, ev.Pmsg = 1, perr
		} else {
			ev.S2 = ints(s2)
			ev.Tr = reShape()
			ev.Mr = match(re)
			ev.Er = []string{fmt.Sprint(ev.Mr)}
			if 0 < len(c.Elems) {
				ev.Mrs, ev.Er = evalAll(c.Elems, func(el any) int { return match(func() bool { return reOn(el) }) })
			}
			ev.Ers = ev.Er
		}
		evs = append(evs, ev)
	}
	return evs
}

func execC14() {
	sc := bufio.NewScanner(os.Stdin)
	sc.Buffer(make([]byte, 1<<20), 1<<28)
	wr := bufio.NewWriterSize(os.Stdout, 1<<20)
	for sc.Scan() {
		if len(sc.Bytes()) == 0 {
			continue
		}
		var c c14case
		if err := json.Unmarshal(sc.Bytes(), &c); err != nil {
			fmt.Fprintln(os.Stderr, "bad case:", err)
			os.Exit(2)
		}
		for _, ev := range runC14(&c) {
			b, err := json.Marshal(ev)
			if err != nil {
				fmt.Fprintln(os.Stderr, "marshal:", err)
				os.Exit(2)
			}
			wr.Write(b)
			wr.WriteByte('\n')
		}
	}
	wr.Flush()
}

// ---------------------------------------------------------------- generation
func genC14(tier string, n int, seed int64) {
	wr := bufio.NewWriterSize(os.Stdout, 1<<20)
	ntxt := 0
	emit := func(c *c14case) {
		if c.K == "txt" { // every fourth text case also goes through the Must... / []byte entry points
			ntxt++
			if ntxt%4 == 0 {
				c.AllForms = true
			}
		}
		b, err := json.Marshal(c)
		if err != nil {
			panic(err)
		}
		wr.Write(b)
		wr.WriteByte('\n')
	}
	// ---- paths: fragment menu
	type fr struct {
		cell string
		f    Frag
	}
	var menu []fr
	for _, k := range keyUniverse {
		menu = append(menu, fr{"child(" + k.cls + ")", Frag{F: "child", K: ints(k.key)}})
	}
	for _, i := range []int{0, 1, -1, 12} {
		menu = append(menu, fr{fmt.Sprintf("nth(%d)", i), Frag{F: "nth", I: i}})
	}
	menu = append(menu, fr{"wild", Frag{F: "wild"}}, fr{"descent", Frag{F: "desc"}})
	uk := func(s string) UItem { return UItem{Is: true, K: ints(s)} }
	ui := func(i int) UItem { return UItem{I: i} }
	menu = append(menu,
		fr{"union(ints)", Frag{F: "union", U: []UItem{ui(0), ui(2)}}}, fr{"union(bigints)", Frag{F: "union", U: []UItem{ui(10), ui(12), ui(-11)}}}, fr{"union(negint)", Frag{F: "union", U: []UItem{ui(-1), ui(0)}}},
		fr{"union(keys)", Frag{F: "union", U: []UItem{uk("a"), uk("b")}}}, fr{"union(mixed)", Frag{F: "union", U: []UItem{uk("a"), ui(1)}}},
		fr{"union(single)", Frag{F: "union", U: []UItem{uk("a")}}}, fr{"union(empty)", Frag{F: "union", U: []UItem{}}})
	for _, k := range keyUniverse[1:] {
		menu = append(menu, fr{"union(key " + k.cls + ")", Frag{F: "union", U: []UItem{uk("a"), uk(k.key)}}})
	}
	maxEnd := 2147483647
	for _, s := range [][]int{{0}, {1}, {-2}, {0, 2}, {1, 3}, {1, -1}, {0, maxEnd}, {1, maxEnd}, {0, 3, 2}, {1, 3, 1}, {3, 0, -1}, {0, maxEnd, 2}, {1, maxEnd, 2}, {-1, 0, -2}, {0, -1, 1}, {1, 2, 3, 4}} {
		menu = append(menu, fr{fmt.Sprintf("slice%v", s), Frag{F: "slice", S: s}})
	}
	one := &AST{Op: "const", V: &Abs{T: "int", I: 1}}
	menu = append(menu,
		fr{"filter(@.a==1)", Frag{F: "filter", E: &AST{Op: "==", L: pth("@", "a"), R: one}}},
		fr{"filter(@[0]>1)", Frag{F: "filter", E: &AST{Op: ">", L: pth("@", "0"), R: one}}},
		fr{"filter(nested)", Frag{F: "filter", E: &AST{Op: "exists", L: &AST{Op: "path", Root: "@", Fr: []Frag{{F: "filter", E: &AST{Op: "==", L: pth("@"), R: one}}}}, R: &AST{Op: "const", V: &Abs{T: "bool", B: true}}}}},
		fr{"root", Frag{F: "root"}}, fr{"at", Frag{F: "at"}}, fr{"bracket", Frag{F: "bracket"}})
	small := []fr{menu[0], menu[2], menu[12], {"nth(0)", Frag{F: "nth", I: 0}}, {"wild", Frag{F: "wild"}}, {"descent", Frag{F: "desc"}},
		{"union(keys)", Frag{F: "union", U: []UItem{uk("a"), uk("b")}}}, {"slice[1 3]", Frag{F: "slice", S: []int{1, 3}}},
		{"filter(@.a==1)", Frag{F: "filter", E: &AST{Op: "==", L: pth("@", "a"), R: one}}}}
	for _, root := range []string{"$", "@", ""} {
		for _, a := range menu {
			emit(&c14case{K: "path", Cell: a.cell + " pos=only root=" + root, Root: root, Fr: []Frag{a.f}})
			if root != "$" {
				continue
			}
			for _, b := range small {
				emit(&c14case{K: "path", Cell: a.cell + " pos=first next=" + b.cell, Root: root, Fr: []Frag{a.f, b.f}})
				emit(&c14case{K: "path", Cell: a.cell + " pos=last prev=" + b.cell, Root: root, Fr: []Frag{b.f, a.f}})
				if tier != "quick" {
					for _, c := range small {
						emit(&c14case{K: "path", Cell: a.cell + " pos=middle prev=" + b.cell + " next=" + c.cell, Root: root, Fr: []Frag{b.f, a.f, c.f}})
						emit(&c14case{K: "path", Cell: a.cell + " pos=last4 prev=" + b.cell + " via=" + c.cell, Root: root, Fr: []Frag{b.f, c.f, b.f, a.f}})
					}
				}
			}
		}
	}
	// ---- the int64 boundaries in every integer position (index, slice start / end / step, union member)
	bigInts := []struct {
		n string
		v int
	}{{"maxint", math.MaxInt64}, {"maxint-7", math.MaxInt64 - 7}, {"maxint-8", math.MaxInt64 - 8}, {"minint", math.MinInt64}, {"minint+7", math.MinInt64 + 7},
		{"2^31", 1 << 31}, {"-2^31", -(1 << 31)}, {"2^53", 1 << 53}, {"-2^53", -(1 << 53)}}
	for _, bi := range bigInts {
		frs := []fr{{"nth(" + bi.n + ")", Frag{F: "nth", I: bi.v}},
			{"slice(end " + bi.n + ")", Frag{F: "slice", S: []int{2, bi.v}}}, {"slice(start " + bi.n + ")", Frag{F: "slice", S: []int{bi.v}}},
			{"slice(step " + bi.n + ")", Frag{F: "slice", S: []int{0, 5, bi.v}}}, {"slice(all " + bi.n + ")", Frag{F: "slice", S: []int{bi.v, bi.v, bi.v}}},
			{"union(" + bi.n + ")", Frag{F: "union", U: []UItem{{I: 0}, {I: bi.v}}}}, {"union(key," + bi.n + ")", Frag{F: "union", U: []UItem{{Is: true, K: ints("a")}, {I: bi.v}}}}}
		for _, f := range frs {
			emit(&c14case{K: "path", Cell: f.cell + " pos=only root=$", Root: "$", Fr: []Frag{f.f}})
			emit(&c14case{K: "path", Cell: f.cell + " pos=last prev=child(plain)", Root: "$", Fr: []Frag{{F: "child", K: ints("a")}, f.f}})
		}
		ia := absOf(int64(bi.v))
		emit(&c14case{K: "eq", Cell: "const(int " + bi.n + ") ==", Ast: &AST{Op: "==", L: pth("@"), R: &AST{Op: "const", V: ia}}, Elem: ia})
		emit(&c14case{K: "eq", Cell: "const(int " + bi.n + ") left", Ast: &AST{Op: "<", L: &AST{Op: "const", V: ia}, R: pth("@")}, Elem: ia})
	}
	// ---- every special rune class directly followed by every other (both orders) at the start, in the middle, at the end
	// and as the whole key: child keys, union members (String and BracketString) and string constants in scripts
	for _, pk := range pairKeys() {
		emit(&c14case{K: "path", Pair: true, Cell: "child " + pk.cell, Root: "$", Fr: []Frag{{F: "child", K: ints(pk.key)}}})
		emit(&c14case{K: "path", Pair: true, Cell: "union " + pk.cell, Root: "$", Fr: []Frag{{F: "union", U: []UItem{{Is: true, K: ints("a")}, {Is: true, K: ints(pk.key)}}}}})
		sa := absOf(pk.key)
		cell := "const(str " + pk.cell + ")"
		if strings.Contains(pk.key, "\xff") {
			cell = "const(str badutf8 " + pk.cell + ")"
		}
		emit(&c14case{K: "eq", Cell: cell, Ast: &AST{Op: "==", L: pth("@"), R: &AST{Op: "const", V: sa}}, Elem: sa})
	}
	// ---- equations: every (parent op, child op, side) triple
	ops := []string{"*", "/", "+", "-", "<", ">=", "==", "!=", "&&", "||", "in", "has", "=~"}
	isLogic := func(o string) bool { return o == "&&" || o == "||" || o == "!" }
	ival := func(i int64) *AST { return &AST{Op: "const", V: &Abs{T: "int", I: i}} }
	bval := func(b bool) *AST { return &AST{Op: "const", V: &Abs{T: "bool", B: b}} }
	leafFor := func(o string, variant, pos int) *AST {
		if isLogic(o) || o == "has" {
			return bval([][]bool{{true, false, true}, {false, true, false}, {false, false, true}}[variant][pos])
		}
		return ival([][]int64{{1, 2, 3}, {3, 1, 2}, {2, 3, 1}}[variant][pos])
	}
	mkChild := func(o string, v int) *AST {
		if o == "!" {
			return &AST{Op: "!", L: leafFor(o, v, 0)}
		}
		return &AST{Op: o, L: leafFor(o, v, 0), R: leafFor(o, v, 1)}
	}
	null := &Abs{T: "null"}
	for _, p := range append([]string{"!"}, ops...) {
		for _, ch := range append([]string{"!"}, ops...) {
			for v := 0; v < 3; v++ {
				if p == "!" {
					emit(&c14case{K: "eq", Cell: "parent=! child=" + ch, Ast: &AST{Op: "!", L: mkChild(ch, v)}, Elem: null})
					continue
				}
				emit(&c14case{K: "eq", Cell: "parent=" + p + " child=" + ch + " side=left", Ast: &AST{Op: p, L: mkChild(ch, v), R: leafFor(p, v, 2)}, Elem: null})
				emit(&c14case{K: "eq", Cell: "parent=" + p + " child=" + ch + " side=right", Ast: &AST{Op: p, L: leafFor(p, v, 2), R: mkChild(ch, v)}, Elem: null})
				if p == "*" || p == "/" || p == "+" || p == "-" {
					// a number has no truth value: compare the arithmetic tree with constants so that a changed
					// evaluation order shows in the match result
					for _, k := range []int64{1, 3} {
						emit(&c14case{K: "eq", Cell: "parent=" + p + " child=" + ch + " side=left cmp", Wrap: 1, Elem: null,
							Ast: &AST{Op: "<", L: &AST{Op: p, L: mkChild(ch, v), R: leafFor(p, v, 2)}, R: ival(k)}})
						emit(&c14case{K: "eq", Cell: "parent=" + p + " child=" + ch + " side=right cmp", Wrap: 1, Elem: null,
							Ast: &AST{Op: "<", L: &AST{Op: p, L: leafFor(p, v, 2), R: mkChild(ch, v)}, R: ival(k)}})
					}
				}
				if tier != "quick" {
					for _, ch2 := range []string{"!", "*", "+", "==", "&&", "||"} {
						emit(&c14case{K: "eq", Cell: "parent=" + p + " child=" + ch + " side=both", Ast: &AST{Op: p, L: mkChild(ch, v), R: mkChild(ch2, (v+1)%3)}, Elem: null})
					}
				}
			}
		}
	}
	// ---- constants of every kind, compared with the element itself
	consts := []any{nil, true, false, int64(0), int64(-7), int64(1234567), 1.5, 2.0, -0.25, 1e21, 1e-7, 0.1234567, 1234567.25,
		// floats by magnitude / shape: integral below 1e6, up to 2^53, 2^63, beyond int64, huge, tiny, the smallest, negative zero
		1.0, 100000.0, 4e6, 1e15, 9007199254740992.0, 9223372036854775808.0, 1e19, 18446744073709551616.0, -3e20, 1e300, 5e-324, math.Copysign(0, -1), "", "a", "a'b", "a\"b", "a\\b", "a\nb", "a\tb", "a\rb", "a\fb", "a\bb", "a\x01b", "é", "a b", "a/b",
		[]any{}, []any{int64(1)}, []any{int64(1), "a'b", 1.5, true, nil}}
	for _, cv := range consts {
		a := absOf(cv)
		cell := "const(" + a.T + ")"
		if s, ok := cv.(string); ok {
			cell = "const(str " + fmt.Sprintf("%q", s) + ")"
		}
		if f, ok := cv.(float64); ok {
			cell = fmt.Sprintf("const(flt %v)", f)
		}
		el := a
		if a.T == "arr" {
			el = absOf(int64(1))
			emit(&c14case{K: "eq", Cell: cell + " in", Ast: &AST{Op: "in", L: pth("@"), R: &AST{Op: "const", V: a}}, Elem: el})
			continue
		}
		emit(&c14case{K: "eq", Cell: cell + " ==", Ast: &AST{Op: "==", L: pth("@"), R: &AST{Op: "const", V: a}}, Elem: el})
		emit(&c14case{K: "eq", Cell: cell + " left", Ast: &AST{Op: "==", L: &AST{Op: "const", V: a}, R: pth("@")}, Elem: el})
	}
	for c := 0; c <= 0x1f; c++ { // every control character individually in a string constant
		a := absOf("a" + string(rune(c)) + "b")
		emit(&c14case{K: "eq", Cell: fmt.Sprintf("const(str ctl%02x) ==", c), Ast: &AST{Op: "==", L: pth("@"), R: &AST{Op: "const", V: a}}, Elem: a})
	}
	// ---- script TEXTS with explicit parentheses: parent op x (inner op1, inner op2 of different precedence) x side
	tops := []string{"*", "+", "-", "<", "==", "!=", "&&", "||"}
	precOf := func(o string) int {
		switch o {
		case "*", "/":
			return 1
		case "+", "-":
			return 2
		case "&&", "||":
			return 4
		}
		return 3
	}
	atomFor := func(o string, v, pos int) Item { return Item{K: "atom", T: leafFor(o, v, pos)} }
	opI := func(o string) Item { return Item{K: "op", O: o} }
	for _, p := range tops {
		for _, o1 := range tops {
			for _, o2 := range tops {
				if precOf(o1) == precOf(o2) {
					continue
				}
				for v := 0; v < 3; v++ {
					mid := o1 // the middle operand belongs to the tighter operator
					if precOf(o2) < precOf(o1) {
						mid = o2
					}
					grp := Item{K: "grp", G: []Item{atomFor(o1, v, 0), opI(o1), atomFor(mid, v, 1), opI(o2), atomFor(o2, v, 2)}}
					w := atomFor(p, (v+1)%3, 0)
					for _, side := range []string{"left", "right"} {
						items := []Item{grp, opI(p), w}
						if side == "right" {
							items = []Item{w, opI(p), grp}
						}
						cell := "text parent=" + p + " inner=" + o1 + "," + o2 + " side=" + side
						if precOf(p) <= 2 { // arithmetic parent: compare the value
							for _, k := range []int64{1, 3} {
								emit(&c14case{K: "txt", Cell: cell + " cmp", Elem: null, Items: append(append([]Item{}, items...), opI("<"), Item{K: "atom", T: ival(k)})})
							}
						} else {
							emit(&c14case{K: "txt", Cell: cell, Elem: null, Items: items})
						}
						if tier != "quick" || v == 0 { // a ! in front of the group and in front of the whole text
							ng := append([]Item{{K: "not"}}, items...)
							emit(&c14case{K: "txt", Cell: cell + " not-first", Elem: null, Items: ng})
						}
					}
				}
			}
		}
	}
	// ---- keys made of / containing every character that is an operator or a delimiter INSIDE scripts, as child keys of @- and
	// $-rooted operand paths on both sides of every operator (Equation, Script and Filter String()). The element holds the key,
	// the neighbouring key "col" and "1", so that a mis-parse such as @.col-1 -> @.col - 1 also evaluates differently.
	opChars := []struct{ n, c string }{{"minus", "-"}, {"plus", "+"}, {"star", "*"}, {"slash", "/"}, {"lt", "<"}, {"gt", ">"}, {"eq", "="}, {"bang", "!"},
		{"amp", "&"}, {"pipe", "|"}, {"tilde", "~"}, {"lparen", "("}, {"rparen", ")"}, {"lbracket", "["}, {"rbracket", "]"}, {"comma", ","}, {"space", " "},
		{"at", "@"}, {"dollar", "$"}, {"dot", "."}, {"question", "?"}, {"colon", ":"}, {"quote", "'"}, {"dquote", "\""}, {"backslash", "\\"}}
	allOps := []string{"==", "!=", "<", ">", "<=", ">=", "&&", "||", "+", "-", "*", "/", "in", "empty", "has", "exists", "=~"}
	for _, oc := range opChars {
		for _, kp := range []struct{ pos, key string }{{"middle", "col" + oc.c + "1"}, {"start", oc.c + "col"}, {"end", "col" + oc.c}} {
			elem := absOf(map[string]any{kp.key: int64(10), "col": int64(2), "1": int64(1)})
			for _, o := range allOps {
				if tier == "quick" && kp.pos != "middle" && o != "==" && o != "-" {
					continue
				}
				other := leafFor(o, 0, 2)
				switch o {
				case "in":
					other = &AST{Op: "const", V: absOf([]any{int64(10), int64(1)})}
				case "=~":
					other = &AST{Op: "const", V: absOf("1")}
				}
				for _, root := range []string{"@", "$"} {
					pk := &AST{Op: "path", Root: root, Fr: []Frag{{F: "child", K: ints(kp.key)}}}
					cell := "opkey(" + oc.n + "," + kp.pos + ") root=" + root + " op=" + o
					emit(&c14case{K: "eq", Cell: cell + " side=left", Ast: &AST{Op: o, L: pk, R: other}, Elem: elem})
					if o != "in" && o != "=~" && o != "has" && o != "exists" && o != "empty" {
						emit(&c14case{K: "eq", Cell: cell + " side=right", Ast: &AST{Op: o, L: other, R: pk}, Elem: elem})
					}
				}
			}
			// deeper in the path and inside a nested filter
			emit(&c14case{K: "eq", Cell: "opkey(" + oc.n + "," + kp.pos + ") nested", Elem: absOf(map[string]any{"a": map[string]any{kp.key: int64(10), "col": int64(2)}}),
				Ast: &AST{Op: ">", L: &AST{Op: "path", Root: "@", Fr: []Frag{{F: "child", K: ints("a")}, {F: "child", K: ints(kp.key)}}}, R: ival(2)}})
		}
	}
	// arithmetic that differs between int64 and float64: a float constant must come back as a float
	for _, fc := range []float64{2.0, 4e6, 1e15, 9007199254740992.0, 4611686018427387904.0} {
		emit(&c14case{K: "eq", Cell: fmt.Sprintf("const(flt %v) division", fc), Elem: absOf(int64(fc / 2)),
			Ast: &AST{Op: "==", L: &AST{Op: "/", L: pth("@"), R: &AST{Op: "const", V: absOf(fc)}}, R: &AST{Op: "const", V: absOf(0.5)}}})
	}
	emit(&c14case{K: "eq", Cell: "const(flt 3e+18) overflow", Elem: absOf(int64(4)),
		Ast: &AST{Op: ">", L: &AST{Op: "*", L: pth("@"), R: &AST{Op: "const", V: absOf(3e18)}}, R: &AST{Op: "const", V: absOf(1e19)}}})
	emit(&c14case{K: "eq", Cell: "const(nothing)", Ast: &AST{Op: "==", L: pth("@", "zz"), R: &AST{Op: "const", V: &Abs{T: "nothing"}}}, Elem: null})
	for _, p := range []string{"a", "^a.", "a/b", "a\\.b", "(?i)A"} {
		regexp.MustCompile(p)
		emit(&c14case{K: "eq", Cell: "const(rx " + p + ")", Ast: &AST{Op: "=~", L: pth("@"), R: &AST{Op: "const", V: &Abs{T: "rx", P: ints(p)}}}, Elem: absOf("a/b")})
	}
	// regex constants with k backslashes before a slash: built (three String() forms) and as text in both spellings,
	// each on every string of the universe that tells the patterns apart (Go regexp facts in rx.ndjson)
	for _, p := range slashPatterns {
		regexp.MustCompile(p)
		rxc := &AST{Op: "const", V: &Abs{T: "rx", P: ints(p)}}
		for _, str := range slashStrings {
			el := absOf(str)
			emit(&c14case{K: "eq", Cell: "const(rx " + p + ")", Ast: &AST{Op: "=~", L: pth("@"), R: rxc}, Elem: el})
			for _, alt := range []bool{false, true} {
				emit(&c14case{K: "txt", Cell: "text const(rx " + p + ")", Alt: alt, Elem: el,
					Items: []Item{{K: "atom", T: pth("@")}, {K: "op", O: "=~"}, {K: "atom", T: rxc}}})
			}
		}
	}
	// ---- scripts that are a bare path, a bare constant, a negated bare path (with and without a group): through EVERY parse
	// entry point; elements where the member is true / false / a number / null / absent
	bareElems := []any{map[string]any{"a": true}, map[string]any{"a": false}, map[string]any{"a": int64(1)}, map[string]any{"a": nil}, map[string]any{}}
	pa := Item{K: "atom", T: pth("@", "a")}
	bareShapes := []struct {
		n  string
		it []Item
	}{{"path", []Item{pa}}, {"group(path)", []Item{{K: "grp", G: []Item{pa}}}}, {"not path", []Item{{K: "not"}, pa}}, {"not group(path)", []Item{{K: "not"}, {K: "grp", G: []Item{pa}}}},
		{"const true", []Item{{K: "atom", T: bval(true)}}}, {"const false", []Item{{K: "atom", T: bval(false)}}}, {"const 1", []Item{{K: "atom", T: ival(1)}}},
		{"const str", []Item{{K: "atom", T: &AST{Op: "const", V: absOf("x")}}}}, {"const null", []Item{{K: "atom", T: &AST{Op: "const", V: &Abs{T: "null"}}}}},
		{"root path", []Item{{K: "atom", T: pth("$", "a")}}}}
	for _, bs := range bareShapes {
		for i, be := range bareElems {
			emit(&c14case{K: "txt", AllForms: true, Cell: fmt.Sprintf("text bare %s elem%d", bs.n, i), Elem: absOf(be), Items: bs.it})
		}
	}
	// right- and left-nested operands of EQUAL precedence, as text (built trees: the triples above): w P (x Q y), (x Q y) P w
	for _, p := range tops {
		for _, q := range tops {
			if precOf(p) != precOf(q) {
				continue
			}
			for v := 0; v < 3; v++ {
				grp := Item{K: "grp", G: []Item{atomFor(q, v, 0), opI(q), atomFor(q, v, 1)}}
				w := atomFor(p, v, 2)
				for _, items := range [][]Item{{w, opI(p), grp}, {grp, opI(p), w}} {
					cell := "text parent=" + p + " inner=" + q + " equal precedence"
					if precOf(p) <= 2 {
						for _, k := range []int64{1, 3} {
							emit(&c14case{K: "txt", Cell: cell + " cmp", Elem: null, Items: append(append([]Item{}, items...), opI("<"), Item{K: "atom", T: ival(k)})})
						}
					} else {
						emit(&c14case{K: "txt", Cell: cell, Elem: null, Items: items})
					}
				}
			}
		}
	}
	// association made visible by rounding: (0.1 + 0.2) + 0.3 != 0.1 + (0.2 + 0.3) in float64 (only original vs re-parsed is
	// compared on these, the model does not do binary floating point)
	fl := func(f float64) *AST { return &AST{Op: "const", V: absOf(f)} }
	for _, p := range []string{"+", "*", "-", "/"} {
		for _, q := range []string{"+", "*", "-", "/"} {
			for _, k := range []float64{0.6, 0.6000000000000001, 0.006, 0.006000000000000001, 0.25, 1.5} {
				emit(&c14case{K: "eq", Cell: "parent=" + p + " child=" + q + " side=right float", Wrap: 1, Elem: null,
					Ast: &AST{Op: "==", L: &AST{Op: p, L: fl(0.1), R: &AST{Op: q, L: fl(0.2), R: fl(0.3)}}, R: fl(k)}})
				emit(&c14case{K: "eq", Cell: "parent=" + p + " child=" + q + " side=left float", Wrap: 1, Elem: null,
					Ast: &AST{Op: "==", L: &AST{Op: p, L: &AST{Op: q, L: fl(0.1), R: fl(0.2)}, R: fl(0.3)}, R: fl(k)}})
			}
		}
	}
	for _, fn := range []string{"length", "count"} {
		emit(&c14case{K: "eq", Cell: "func " + fn, Ast: &AST{Op: "==", L: &AST{Op: fn, L: pth("@", "*")}, R: ival(2)}, Elem: absOf([]any{int64(1), int64(2)})})
	}
	for _, fn := range []string{"match", "search"} {
		emit(&c14case{K: "eq", Cell: "func " + fn, Ast: &AST{Op: fn, L: pth("@"), R: &AST{Op: "const", V: absOf("a.")}}, Elem: absOf("ab")})
	}
	_ = strings.Join
	wr.Flush()
}

// parseOwned parses a printed text with jp.Parse from a buffer the caller owns and overwrites the buffer afterwards, as a caller
// that reads path after path into one buffer does: the parsed expression must not depend on the text it was parsed from
// (jp.ParseString is jp.Parse on a private copy, so nothing is lost by routing the re-parse through here).
func parseOwned(s string) (jp.Expr, error) {
	buf := []byte(s)
	y, err := jp.Parse(buf)
	for i := range buf {
		buf[i] = '~'
	}
	return y, err
}
