// Command script drives jp.Script / jp.Filter / jp.Equation / jp.Expr for the properties C12 and C14.
//
//	script rxtable                      > rx.ndjson     (Go regexp facts for the fixed pattern set, DESIGN 7.2)
//	script nest -n N                    > cases.ndjson  (seeded random logic nesting, C12)
//	script exec                         < cases.ndjson > trace.ndjson  (C12: every route, outcomes per route)
//	script c14gen [-tier quick|thorough] > cases.ndjson  (C14: constructible expressions and equations)
//	script c14exec                      < cases.ndjson > trace.ndjson  (C14: print, parse, print, evaluate both)
package main

import (
	"flag"
	"fmt"
	"os"
	"strconv"
)

func seed() int64 {
	s, err := strconv.ParseInt(os.Getenv("VERIF_SEED"), 10, 64)
	if err != nil || s == 0 {
		s = 1
	}
	return s
}

func main() {
	if len(os.Args) < 2 {
		fmt.Fprintln(os.Stderr, "usage: script rxtable|nest|exec|c14gen|c14exec ...")
		os.Exit(2)
	}
	fs := flag.NewFlagSet(os.Args[1], flag.ExitOnError)
	n := fs.Int("n", 1000, "number of random cases")
	tier := fs.String("tier", "quick", "quick|thorough")
	fs.Parse(os.Args[2:])
	switch os.Args[1] {
	case "rxtable":
		rxTable()
	case "nest":
		nestC12(*n, seed())
	case "exec":
		execC12()
	case "c14gen":
		genC14(*tier, *n, seed())
	case "c14exec":
		execC14()
	default:
		fmt.Fprintln(os.Stderr, "unknown mode", os.Args[1])
		os.Exit(2)
	}
}
