package main

import (
	"encoding/json"
	"fmt"
	"math"
	"regexp"
	"strconv"
	"strings"

	"github.com/ohler55/ojg/gen"
	"github.com/ohler55/ojg/jp"
)

// Abs is a value in the tagged abstract encoding shared with the TLA+ specifications
// (harness/absval writes it, this reads what TLC generated).
type Abs struct {
	T string  `json:"t"`
	V any     `json:"-"`
	Q []int64 `json:"q,omitempty"`
	S string  `json:"s,omitempty"` // float without a small dyadic form: its shortest decimal text
	P []int   `json:"p,omitempty"`
	K [][]int `json:"k,omitempty"`
	// decoded children
	Items []*Abs `json:"-"`
	Bytes []int  `json:"-"`
	B     bool   `json:"-"`
	I     int64  `json:"-"`
	// "biglist": a list given by description, N members equal to Fill except member At (1-based) = Val
	N, At     int             `json:"-"`
	Val, Fill *Abs            `json:"-"`
	NegZero   bool            `json:"-"` // the float -0.0
	BigDec    json.RawMessage `json:"-"` // an integer beyond +-2^30: its decimal form as absval wrote it
}

func (a *Abs) UnmarshalJSON(b []byte) error {
	var raw struct {
		T    string          `json:"t"`
		V    json.RawMessage `json:"v"`
		Q    []int64         `json:"q"`
		S    string          `json:"s"`
		P    []int           `json:"p"`
		K    [][]int         `json:"k"`
		N    int             `json:"n"`
		At   int             `json:"at"`
		Fill *Abs            `json:"fill"`
		NZ   bool            `json:"negzero"`
		Dec  json.RawMessage `json:"dec"`
	}
	if err := json.Unmarshal(b, &raw); err != nil {
		return err
	}
	if raw.T == "biglist" {
		a.T, a.N, a.At, a.Fill = raw.T, raw.N, raw.At, raw.Fill
		a.Val = &Abs{}
		return json.Unmarshal(raw.V, a.Val)
	}
	a.T, a.Q, a.P, a.K, a.S, a.NegZero = raw.T, raw.Q, raw.P, raw.K, raw.S, raw.NZ
	switch raw.T {
	case "bool":
		return json.Unmarshal(raw.V, &a.B)
	case "int":
		if len(raw.V) == 0 && 0 < len(raw.Dec) { // beyond the small integers TLC can hold: absval writes the decimal digits
			var d struct {
				Neg    bool  `json:"neg"`
				Digits []int `json:"digits"`
				Exp10  int   `json:"exp10"`
			}
			if err := json.Unmarshal(raw.Dec, &d); err != nil {
				return err
			}
			for _, x := range d.Digits {
				a.I = a.I*10 + int64(x)
			}
			for i := 0; i < d.Exp10; i++ {
				a.I *= 10
			}
			if d.Neg {
				a.I = -a.I
			}
			a.BigDec = raw.Dec
			return nil
		}
		return json.Unmarshal(raw.V, &a.I)
	case "str":
		if len(raw.V) > 0 && raw.V[0] == '"' { // TLC writes an all-printable byte sequence as such; not expected, but be safe
			var s string
			if err := json.Unmarshal(raw.V, &s); err != nil {
				return err
			}
			for _, c := range []byte(s) {
				a.Bytes = append(a.Bytes, int(c))
			}
			return nil
		}
		return json.Unmarshal(raw.V, &a.Bytes)
	case "arr", "obj":
		return json.Unmarshal(raw.V, &a.Items)
	}
	return nil
}

func bstr(b []int) string {
	x := make([]byte, len(b))
	for i, c := range b {
		x[i] = byte(c)
	}
	return string(x)
}

func ints(s string) []int {
	r := make([]int, len(s))
	for i, c := range []byte(s) {
		r[i] = int(c)
	}
	return r
}

func (a *Abs) float() float64 {
	if a.NegZero {
		return math.Copysign(0, -1)
	}
	if len(a.Q) < 2 {
		f, _ := strconv.ParseFloat(a.S, 64)
		return f
	}
	f := float64(a.Q[0])
	for i := int64(0); i < a.Q[1]; i++ {
		f /= 2
	}
	return f
}

// Simple turns the abstract value into plain Go data ([]any, map[string]any, int64, float64...).
func (a *Abs) Simple() any {
	switch a.T {
	case "null":
		return nil
	case "bool":
		return a.B
	case "int":
		return a.I
	case "flt":
		return a.float()
	case "str":
		return bstr(a.Bytes)
	case "arr":
		r := make([]any, len(a.Items))
		for i, e := range a.Items {
			r[i] = e.Simple()
		}
		return r
	case "obj":
		m := map[string]any{}
		for i, e := range a.Items {
			m[bstr(a.K[i])] = e.Simple()
		}
		return m
	case "nothing":
		return jp.Nothing
	case "rx":
		return regexp.MustCompile(bstr(a.P))
	case "biglist":
		r := make([]any, a.N)
		for i := range r {
			if i+1 == a.At {
				r[i] = a.Val.Simple()
			} else {
				r[i] = a.Fill.Simple()
			}
		}
		return r
	}
	panic("abs: unknown tag " + a.T)
}

// Gen turns plain data into gen.Node data.
func toGen(v any) gen.Node {
	switch t := v.(type) {
	case nil:
		return nil
	case bool:
		return gen.Bool(t)
	case int64:
		return gen.Int(t)
	case float64:
		return gen.Float(t)
	case string:
		return gen.String(t)
	case []any:
		a := make(gen.Array, len(t))
		for i, e := range t {
			a[i] = toGen(e)
		}
		return a
	case map[string]any:
		o := gen.Object{}
		for k, e := range t {
			o[k] = toGen(e)
		}
		return o
	}
	panic(fmt.Sprintf("toGen: %T", v))
}

// Frag of a sub-path / path AST.
type Frag struct {
	F string  `json:"f"`
	K []int   `json:"k,omitempty"` // child key
	I int     `json:"i"`           // nth
	B bool    `json:"b,omitempty"` // wildcard written [*]
	U []UItem `json:"u,omitempty"` // union members
	S []int   `json:"s,omitempty"` // slice arguments as given to the constructor
	E *AST    `json:"e,omitempty"` // filter equation
	// integers beyond +-2^30 travel as decimal text (TLC integers are 32 bit): then i / s hold only the signs
	Big string   `json:"big,omitempty"`
	BS  []string `json:"bs,omitempty"`
	Br  bool     `json:"br,omitempty"` // (unused by the model) bracket marker
}

// UItem is a union member: a key or an index.
func small(i int) bool { return -(1<<30) <= i && i <= 1<<30 }

func sign(i int) int {
	if i < 0 {
		return -1
	}
	return 1
}

type UItem struct {
	Big string `json:"big,omitempty"`
	K   []int  `json:"k,omitempty"`
	I   int    `json:"i"`
	Is  bool   `json:"is"` // true: key (string), false: index
}

// AST of an equation, see spec/Script.tla.
type AST struct {
	Op   string `json:"op"`
	V    *Abs   `json:"v,omitempty"`
	Root string `json:"root,omitempty"`
	Fr   []Frag `json:"fr,omitempty"`
	L    *AST   `json:"l,omitempty"`
	R    *AST   `json:"r,omitempty"`
}

func (e *AST) expr() jp.Expr {
	var x jp.Expr
	switch e.Root {
	case "@":
		x = jp.A()
	case "$":
		x = jp.R()
	default:
		x = jp.X()
	}
	return appendFrags(x, e.Fr)
}

func appendFrags(x jp.Expr, fr []Frag) jp.Expr {
	for _, f := range fr {
		switch f.F {
		case "child":
			x = x.C(bstr(f.K))
		case "nth":
			n := f.I
			if f.Big != "" {
				v, _ := strconv.ParseInt(f.Big, 10, 64)
				n = int(v)
			}
			x = x.N(n)
		case "wild":
			x = x.W()
		case "desc":
			x = x.D()
		case "union":
			args := make([]any, len(f.U))
			for i, u := range f.U {
				if u.Is {
					args[i] = bstr(u.K)
				} else if u.Big != "" {
					v, _ := strconv.ParseInt(u.Big, 10, 64)
					args[i] = int(v)
				} else {
					args[i] = u.I
				}
			}
			x = x.U(args...)
		case "slice":
			ss := f.S
			if f.BS != nil {
				ss = make([]int, len(f.BS))
				for i, t := range f.BS {
					v, _ := strconv.ParseInt(t, 10, 64)
					ss[i] = int(v)
				}
			}
			x = x.S(ss[0], ss[1:]...)
		case "filter":
			x = x.F(f.E.Build())
		case "root":
			x = x.R()
		case "at":
			x = x.A()
		case "bracket":
			x = x.B()
		default:
			panic("frag: unknown kind " + f.F)
		}
	}
	return x
}

var binCtor = map[string]func(l, r *jp.Equation) *jp.Equation{
	"==": jp.Eq, "!=": jp.Neq, "<": jp.Lt, ">": jp.Gt, "<=": jp.Lte, ">=": jp.Gte, "||": jp.Or, "&&": jp.And,
	"+": jp.Add, "-": jp.Sub, "*": jp.Multiply, "/": jp.Divide, "in": jp.In, "empty": jp.Empty, "has": jp.Has,
	"exists": jp.Exists, "=~": jp.Regex, "match": jp.Match, "search": jp.Search,
}

// Build the equation through the public constructors of jp.
func (e *AST) Build() *jp.Equation {
	switch e.Op {
	case "const":
		switch e.V.T {
		case "nothing":
			return jp.ConstNothing()
		case "null":
			return jp.ConstNil()
		case "bool":
			return jp.ConstBool(e.V.B)
		case "int":
			return jp.ConstInt(e.V.I)
		case "flt":
			return jp.ConstFloat(e.V.float())
		case "str":
			return jp.ConstString(bstr(e.V.Bytes))
		case "arr":
			return jp.ConstList(e.V.Simple().([]any))
		case "rx":
			return jp.ConstRegex(regexp.MustCompile(bstr(e.V.P)))
		}
		panic("const: unknown tag " + e.V.T)
	case "path":
		return jp.Get(e.expr())
	case "!":
		return jp.Not(e.L.Build())
	case "length":
		return jp.Length(e.L.expr())
	case "count":
		return jp.Count(e.L.expr())
	}
	if c := binCtor[e.Op]; c != nil {
		return c(e.L.Build(), e.R.Build())
	}
	panic("build: unknown op " + e.Op)
}

func quote(s string) string {
	var b strings.Builder
	b.WriteByte('\'')
	for _, c := range []byte(s) {
		switch {
		case c == '\'' || c == '\\':
			b.WriteByte('\\')
			b.WriteByte(c)
		case c < 0x20 || c == 0x7f:
			fmt.Fprintf(&b, "\\u%04x", c)
		default:
			b.WriteByte(c)
		}
	}
	b.WriteByte('\'')
	return b.String()
}

func constText(a *Abs) string {
	switch a.T {
	case "nothing":
		return "Nothing"
	case "null":
		return "null"
	case "bool":
		if a.B {
			return "true"
		}
		return "false"
	case "int":
		return strconv.FormatInt(a.I, 10)
	case "flt":
		s := strconv.FormatFloat(a.float(), 'f', -1, 64)
		if !strings.ContainsAny(s, ".e") {
			s += ".0"
		}
		return s
	case "str":
		return quote(bstr(a.Bytes))
	case "arr":
		parts := make([]string, len(a.Items))
		for i, it := range a.Items {
			parts[i] = constText(it)
		}
		return "[" + strings.Join(parts, ",") + "]"
	case "rx":
		// between slashes: a slash that is not already escaped gets a backslash (pairs of backslashes are literal backslashes)
		var b strings.Builder
		b.WriteByte('/')
		src := bstr(a.P)
		for i := 0; i < len(src); i++ {
			switch {
			case src[i] == '\\' && i+1 < len(src):
				b.WriteByte(src[i])
				i++
				b.WriteByte(src[i])
			case src[i] == '/':
				b.WriteString("\\/")
			default:
				b.WriteByte(src[i])
			}
		}
		b.WriteByte('/')
		return b.String()
	}
	panic("constText: " + a.T)
}

func (e *AST) pathText() string {
	var b strings.Builder
	b.WriteString(e.Root)
	for _, f := range e.Fr {
		switch f.F {
		case "child":
			b.WriteString("[" + quote(bstr(f.K)) + "]")
		case "nth":
			fmt.Fprintf(&b, "[%d]", f.I)
		case "wild":
			b.WriteString("[*]")
		case "union":
			parts := make([]string, len(f.U))
			for i, u := range f.U {
				if u.Is {
					parts[i] = quote(bstr(u.K))
				} else {
					parts[i] = strconv.Itoa(u.I)
				}
			}
			b.WriteString("[" + strings.Join(parts, ",") + "]")
		case "slice":
			parts := make([]string, len(f.S))
			for i, v := range f.S {
				parts[i] = strconv.Itoa(v)
			}
			b.WriteString("[" + strings.Join(parts, ":") + "]")
		case "desc":
			b.WriteString("..")
		case "filter":
			b.WriteString("[?(" + f.E.Text() + ")]")
		default:
			panic("pathText: unsupported fragment " + f.F)
		}
	}
	return b.String()
}

// Text renders the equation independently of ojg's printer: every operator operand that is itself an operator
// expression is parenthesised, so the text does not rely on precedence rules.
func (e *AST) Text() string {
	sub := func(c *AST) string {
		switch c.Op {
		case "const", "path", "length", "count", "match", "search", "vid", "vfirst", "vsecond":
			return c.Text()
		}
		return "(" + c.Text() + ")"
	}
	switch e.Op {
	case "const":
		return constText(e.V)
	case "path":
		return e.pathText()
	case "!":
		return "!" + sub(e.L)
	case "length", "count":
		return e.Op + "(" + e.L.pathText() + ")"
	case "match", "search", "vfirst", "vsecond":
		return e.Op + "(" + e.L.Text() + ", " + e.R.Text() + ")"
	case "vid": // registered functions (C14 text cases only): vid(x) = x, vfirst(x, y) = x, vsecond(x, y) = y
		return e.Op + "(" + e.L.Text() + ")"
	}
	return sub(e.L) + " " + e.Op + " " + sub(e.R)
}

// MarshalJSON writes exactly the fields the TLA+ side expects for each node kind.
func (e *AST) MarshalJSON() ([]byte, error) {
	switch e.Op {
	case "const":
		return json.Marshal(map[string]any{"op": e.Op, "v": e.V})
	case "path":
		fr := make([]any, len(e.Fr))
		for i := range e.Fr {
			fr[i] = e.Fr[i].jsonValue()
		}
		return json.Marshal(map[string]any{"op": e.Op, "root": e.Root, "fr": fr})
	case "!", "length", "count", "vid":
		return json.Marshal(map[string]any{"op": e.Op, "l": e.L})
	}
	return json.Marshal(map[string]any{"op": e.Op, "l": e.L, "r": e.R})
}

func (f Frag) jsonValue() any {
	switch f.F {
	case "child":
		k := f.K
		if k == nil {
			k = []int{}
		}
		return map[string]any{"f": f.F, "k": k}
	case "nth":
		if f.Big != "" {
			return map[string]any{"f": f.F, "i": f.I, "big": f.Big}
		}
		if !small(f.I) {
			return map[string]any{"f": f.F, "i": sign(f.I), "big": strconv.Itoa(f.I)}
		}
		return map[string]any{"f": f.F, "i": f.I}
	case "union":
		us := make([]any, len(f.U))
		for i, u := range f.U {
			if u.Is {
				k := u.K
				if k == nil {
					k = []int{}
				}
				us[i] = map[string]any{"is": true, "k": k}
			} else if u.Big != "" {
				us[i] = map[string]any{"is": false, "i": u.I, "big": u.Big}
			} else if !small(u.I) {
				us[i] = map[string]any{"is": false, "i": sign(u.I), "big": strconv.Itoa(u.I)}
			} else {
				us[i] = map[string]any{"is": false, "i": u.I}
			}
		}
		return map[string]any{"f": f.F, "u": us}
	case "slice":
		if f.BS != nil {
			return map[string]any{"f": f.F, "s": f.S, "bs": f.BS}
		}
		for _, v := range f.S {
			if !small(v) && v != 2147483647 {
				bs := make([]string, len(f.S))
				sg := make([]int, len(f.S))
				for i, w := range f.S {
					bs[i] = strconv.Itoa(w)
					sg[i] = w
					if !small(w) {
						sg[i] = sign(w)
					}
				}
				return map[string]any{"f": f.F, "s": sg, "bs": bs}
			}
		}
		return map[string]any{"f": f.F, "s": f.S}
	case "filter":
		return map[string]any{"f": f.F, "e": f.E}
	}
	return map[string]any{"f": f.F}
}

// MarshalJSON writes a fragment with exactly the fields the TLA+ side reads (an empty key stays present).
func (f Frag) MarshalJSON() ([]byte, error) {
	return json.Marshal(f.jsonValue())
}
