package main

import (
	"bufio"
	"encoding/json"
	"fmt"
	"math/rand"
	"os"
	"reflect"
	"regexp"
	"runtime"
	"sort"
	"strconv"
	"sync"

	"github.com/ohler55/ojg/jp"

	"verif/harness/absval"
)

// MarshalJSON writes the abstract value the way absval / TLC do.
func (a *Abs) MarshalJSON() ([]byte, error) {
	switch a.T {
	case "bool":
		return json.Marshal(map[string]any{"t": a.T, "v": a.B})
	case "int":
		if a.BigDec != nil {
			return json.Marshal(map[string]any{"t": a.T, "dec": a.BigDec})
		}
		return json.Marshal(map[string]any{"t": a.T, "v": a.I})
	case "flt":
		if a.NegZero {
			return json.Marshal(map[string]any{"t": a.T, "q": a.Q, "negzero": true, "s": a.S})
		}
		if len(a.Q) < 2 {
			return json.Marshal(map[string]any{"t": a.T, "s": a.S})
		}
		if a.S != "" {
			return json.Marshal(map[string]any{"t": a.T, "q": a.Q, "s": a.S})
		}
		return json.Marshal(map[string]any{"t": a.T, "q": a.Q})
	case "str":
		b := a.Bytes
		if b == nil {
			b = []int{}
		}
		return json.Marshal(map[string]any{"t": a.T, "v": b})
	case "arr":
		it := a.Items
		if it == nil {
			it = []*Abs{}
		}
		return json.Marshal(map[string]any{"t": a.T, "v": it})
	case "obj":
		it := a.Items
		if it == nil {
			it = []*Abs{}
		}
		k := a.K
		if k == nil {
			k = [][]int{}
		}
		return json.Marshal(map[string]any{"t": a.T, "k": k, "v": it})
	case "rx":
		return json.Marshal(map[string]any{"t": a.T, "p": a.P})
	case "biglist":
		return json.Marshal(map[string]any{"t": a.T, "n": a.N, "at": a.At, "v": a.Val, "fill": a.Fill})
	}
	return json.Marshal(map[string]any{"t": a.T})
}

type c12case struct {
	Ast  *AST   `json:"ast"`
	Elem *Abs   `json:"elem"`
	Root *Abs   `json:"root"`
	Pr   bool   `json:"pr,omitempty"` // also run the script re-parsed from its own String()
	Src  string `json:"src,omitempty"`
	Cid  int    `json:"cid,omitempty"` // nest: all sub-expressions of one random tree share the id
	Sz   int    `json:"sz,omitempty"`  // nest: number of operator nodes
}

type group struct {
	As []string `json:"as"`
	Rt string   `json:"rt"`
	R  int      `json:"r"`
	D  int      `json:"d"`
	M  string   `json:"m"`
}

type c12event struct {
	Flv  string  `json:"flv,omitempty"` // Go representation of the container members k / j (reflected operands)
	Ast  *AST    `json:"ast"`
	Elem *Abs    `json:"elem"`
	Root *Abs    `json:"root"`
	Text string  `json:"text"`
	Src  string  `json:"src,omitempty"`
	Cid  int     `json:"cid,omitempty"`
	Sz   int     `json:"sz,omitempty"`
	O    []group `json:"o"`
}

type outcome struct {
	r int
	m string
}

func clip(s string) string {
	if len(s) > 120 {
		return s[:120]
	}
	return s
}

// try runs one evaluation of the real code under recover.
func try(f func() (bool, error)) (o outcome) {
	defer func() {
		if rec := recover(); rec != nil {
			o = outcome{2, clip(fmt.Sprint(rec))}
		}
	}()
	ok, err := f()
	if err != nil {
		return outcome{3, clip(err.Error())}
	}
	if ok {
		return outcome{1, ""}
	}
	return outcome{0, ""}
}

type route struct {
	name, rt string
	o        outcome
}

// runRoutes evaluates one script on one element through every route.
func runRoutes(ast *AST, elem any, rootMembers map[string]any, printed bool) []route {
	text := ast.Text()
	doc := map[string]any{"l": []any{elem}, "m": map[string]any{"x": elem}}
	for k, v := range rootMembers {
		doc[k] = v
	}
	gdoc := toGen(doc)
	var gelem any = toGen(elem)
	if elem == nil {
		gelem = nil
	}
	rs := []route{
		{"Match.built", "m", try(func() (bool, error) { return ast.Build().Script().Match(elem), nil })},
		{"Match.parsed", "m", try(func() (bool, error) {
			s, err := jp.NewScript("(" + text + ")")
			if err != nil {
				return false, err
			}
			return s.Match(elem), nil
		})},
		{"Match.gen", "m", try(func() (bool, error) { return ast.Build().Script().Match(gelem), nil })},
		{"Get.built", "g", try(func() (bool, error) { return len(jp.R().C("l").F(ast.Build()).Get(doc)) == 1, nil })},
		{"Get.parsed", "g", try(func() (bool, error) {
			x, err := jp.ParseString("$.l[?(" + text + ")]")
			if err != nil {
				return false, err
			}
			return len(x.Get(doc)) == 1, nil
		})},
		{"Get.map", "g", try(func() (bool, error) { return len(jp.R().C("m").F(ast.Build()).Get(doc)) == 1, nil })},
		{"Get.gen", "g", try(func() (bool, error) { return len(jp.R().C("l").F(ast.Build()).Get(gdoc)) == 1, nil })},
		{"First.built", "g", try(func() (bool, error) {
			_, ok := jp.R().C("l").F(ast.Build()).FirstFound(doc)
			return ok, nil
		})},
		{"Has.built", "g", try(func() (bool, error) { return jp.R().C("l").F(ast.Build()).Has(doc), nil })},
		{"Eval.built", "n", try(func() (bool, error) {
			got, _ := ast.Build().Filter().Eval([]any{}, []any{elem}).([]any)
			return len(got) == 1, nil
		})},
	}
	if elem != nil {
		// GetNodes can not return a null member at all (a nil is not a gen.Node): that is a defect of GetNodes, not
		// of script evaluation (C11), so the route is only taken for non-null elements
		rs = append(rs, route{"GetNodes.gen", "g", try(func() (bool, error) { return len(jp.R().C("l").F(ast.Build()).GetNodes(gdoc)) == 1, nil })})
	}
	if printed {
		rs = append(rs, route{"Match.printed", "m", try(func() (bool, error) {
			s, err := jp.NewScript(ast.Build().Script().String())
			if err != nil {
				return false, err
			}
			return s.Match(elem), nil
		})})
	}
	return rs
}

// reflected operands: the container members k / j of the element as Go structs, fixed-size arrays, typed slices and maps,
// pointers. The abstract value (what TLC sees) is unchanged: a struct is an object, an array a list.
type sE struct{}
type sA struct {
	A any `json:"a"`
}
type sAB struct {
	A any `json:"a"`
	B any `json:"b"`
}

func flavoured(a *Abs, flv string) (any, bool) {
	v := a.Simple()
	switch a.T {
	case "obj":
		m := v.(map[string]any)
		var st any
		switch {
		case len(m) == 0:
			st = sE{}
		case len(m) == 1 && len(a.K[0]) == 1 && a.K[0][0] == 'a':
			st = sA{A: m["a"]}
		case len(m) == 2 && bstr(a.K[0]) == "a" && bstr(a.K[1]) == "b":
			st = sAB{A: m["a"], B: m["b"]}
		default:
			return nil, false
		}
		if flv == "A" {
			return st, true
		}
		switch t := st.(type) { // "B": pointers
		case sE:
			return &t, true
		case sA:
			return &t, true
		case sAB:
			return &t, true
		}
	case "arr":
		l := v.([]any)
		if flv == "A" { // [n]any
			arr := reflect.New(reflect.ArrayOf(len(l), reflect.TypeOf((*any)(nil)).Elem())).Elem()
			for i, e := range l {
				if e != nil {
					arr.Index(i).Set(reflect.ValueOf(e))
				}
			}
			return arr.Interface(), true
		}
		allInt, allStr := 0 < len(l), 0 < len(l)
		for _, e := range l {
			if _, ok := e.(int64); !ok {
				allInt = false
			}
			if _, ok := e.(string); !ok {
				allStr = false
			}
		}
		switch {
		case allInt:
			r := make([]int64, len(l))
			for i, e := range l {
				r[i] = e.(int64)
			}
			return r, true
		case allStr:
			r := make([]string, len(l))
			for i, e := range l {
				r[i] = e.(string)
			}
			return r, true
		default:
			type anyList []any // a named slice type
			return anyList(l), true
		}
	}
	return nil, false
}

// runFlavoured: the same case with the container members of the element in reflected representations ("A": structs and
// fixed-size arrays, "B": pointers to structs and typed slices); plain-data routes only.
func runFlavoured(c *c12case) []*c12event {
	if c.Elem.T != "obj" || c.Pr {
		return nil
	}
	var evs []*c12event
	for _, flv := range []string{"A", "B", "C"} {
		elem := map[string]any{}
		any1 := false
		evElem := c.Elem
		if flv == "C" {
			// "x in list" with the SAME reflected value as a member of the list: k as a struct / array, j = [k]
			var kAbs *Abs
			for i, k := range c.Elem.K {
				if bstr(k) == "k" {
					kAbs = c.Elem.Items[i]
				}
			}
			if c.Ast.Op != "in" || kAbs == nil {
				continue
			}
			fv, ok := flavoured(kAbs, "A")
			if !ok {
				continue
			}
			evElem = &Abs{T: "obj", K: [][]int{{'j'}, {'k'}}, Items: []*Abs{{T: "arr", Items: []*Abs{kAbs}}, kAbs}}
			elem["k"], elem["j"] = fv, []any{fv}
			any1 = true
		}
		for i, k := range c.Elem.K {
			if flv == "C" {
				break
			}
			key := bstr(k)
			if fv, ok := flavoured(c.Elem.Items[i], flv); ok && (key == "k" || key == "j") {
				elem[key] = fv
				any1 = true
			} else {
				elem[key] = c.Elem.Items[i].Simple()
			}
		}
		if !any1 {
			continue
		}
		rootMembers, _ := c.Root.Simple().(map[string]any)
		ast := c.Ast
		doc := map[string]any{"l": []any{elem}, "m": map[string]any{"x": elem}}
		for k, v := range rootMembers {
			doc[k] = v
		}
		rs := []route{
			{"Match.built", "m", try(func() (bool, error) { return ast.Build().Script().Match(elem), nil })},
			{"Get.built", "g", try(func() (bool, error) { return len(jp.R().C("l").F(ast.Build()).Get(doc)) == 1, nil })},
			{"Get.map", "g", try(func() (bool, error) { return len(jp.R().C("m").F(ast.Build()).Get(doc)) == 1, nil })},
			{"First.built", "g", try(func() (bool, error) {
				_, ok := jp.R().C("l").F(ast.Build()).FirstFound(doc)
				return ok, nil
			})},
			{"Has.built", "g", try(func() (bool, error) { return jp.R().C("l").F(ast.Build()).Has(doc), nil })},
			{"Eval.built", "n", try(func() (bool, error) {
				got, _ := ast.Build().Filter().Eval([]any{}, []any{elem}).([]any)
				return len(got) == 1, nil
			})},
		}
		ev := &c12event{Flv: flv, Ast: c.Ast, Elem: evElem, Root: c.Root, Text: c.Ast.Text(), Src: c.Src}
		idx := map[string]int{}
		for _, r := range rs {
			key := r.rt + "|" + strconv.Itoa(r.o.r) + "|" + r.o.m
			if j, ok := idx[key]; ok {
				ev.O[j].As = append(ev.O[j].As, r.name+"/"+flv)
			} else {
				idx[key] = len(ev.O)
				ev.O = append(ev.O, group{As: []string{r.name + "/" + flv}, Rt: r.rt, R: r.o.r, D: -1, M: r.o.m})
			}
		}
		evs = append(evs, ev)
	}
	return evs
}

// ---------------------------------------------------------------- deep operand paths over mixed representations
type sB struct {
	B any `json:"b"`
}
type sC struct {
	C any `json:"c"`
}
type namedMap map[string]any
type namedList []any

// keyedObj is a jp.Keyed collection (ordered), indexedArr a jp.Indexed one.
type keyedObj struct {
	keys []string
	vals []any
}

func (k *keyedObj) ValueForKey(key string) (any, bool) {
	for i, x := range k.keys {
		if x == key {
			return k.vals[i], true
		}
	}
	return nil, false
}
func (k *keyedObj) SetValueForKey(key string, value any) {
	for i, x := range k.keys {
		if x == key {
			k.vals[i] = value
			return
		}
	}
	k.keys, k.vals = append(k.keys, key), append(k.vals, value)
}
func (k *keyedObj) RemoveValueForKey(key string) {
	for i, x := range k.keys {
		if x == key {
			k.keys, k.vals = append(k.keys[:i], k.keys[i+1:]...), append(k.vals[:i], k.vals[i+1:]...)
			return
		}
	}
}
func (k *keyedObj) Keys() []string { return k.keys }

type indexedArr struct{ vals []any }

func (a *indexedArr) ValueAtIndex(i int) any {
	if i < 0 || len(a.vals) <= i {
		return nil
	}
	return a.vals[i]
}
func (a *indexedArr) SetValueAtIndex(i int, v any) { a.vals[i] = v }
func (a *indexedArr) Size() int                    { return len(a.vals) }

// deepVal builds the value with its containers (below the element itself) in the representation flv.
func deepVal(a *Abs, flv string, depth int) any {
	if a.T != "obj" && a.T != "arr" {
		return a.Simple()
	}
	if depth == 0 { // the element itself stays a plain map (that is what the @.child fast path looks at)
		m := map[string]any{}
		for i, k := range a.K {
			m[bstr(k)] = deepVal(a.Items[i], flv, 1)
		}
		return m
	}
	kind := flv
	if flv == "mixed" {
		kind = []string{"", "keyed", "struct", "gen"}[min(depth, 3)]
	}
	if kind == "gen" {
		return toGen(a.Simple())
	}
	if a.T == "arr" {
		l := make([]any, len(a.Items))
		for i, it := range a.Items {
			l[i] = deepVal(it, flv, depth+1)
		}
		switch kind {
		case "keyed":
			return &indexedArr{vals: l}
		case "typed":
			return namedList(l)
		}
		return l // (a pointer to a slice is not something jp.Get follows; pointers are used for structs only)
	}
	keys := make([]string, len(a.K))
	vals := make([]any, len(a.K))
	for i, k := range a.K {
		keys[i], vals[i] = bstr(k), deepVal(a.Items[i], flv, depth+1)
	}
	switch kind {
	case "struct", "ptr":
		if len(keys) == 1 && keys[0] == "b" {
			if kind == "ptr" {
				return &sB{B: vals[0]}
			}
			return sB{B: vals[0]}
		}
		if len(keys) == 1 && keys[0] == "c" {
			if kind == "ptr" {
				return &sC{C: vals[0]}
			}
			return sC{C: vals[0]}
		}
	case "keyed":
		return &keyedObj{keys: keys, vals: vals}
	case "typed":
		allInt := 0 < len(vals)
		for _, v := range vals {
			if _, ok := v.(int64); !ok {
				allInt = false
			}
		}
		if allInt {
			tm := map[string]int64{}
			for i, k := range keys {
				tm[k] = vals[i].(int64)
			}
			return tm
		}
	}
	nm := namedMap{}
	for i, k := range keys {
		nm[k] = vals[i]
	}
	if kind == "typed" || kind == "struct" || kind == "ptr" {
		return nm
	}
	return map[string]any(nm)
}

func deepPath(e *AST) bool {
	if e == nil {
		return false
	}
	if e.Op == "path" {
		return e.Root == "@" && 2 <= len(e.Fr) && e.Fr[0].F == "child" && bstr(e.Fr[0].K) == "a"
	}
	return deepPath(e.L) || deepPath(e.R)
}

// runDeep: a case with an operand path of depth >= 2 under @.a, again with the containers below the element as gen data inside
// the plain map ("gen"), structs, pointers, named / typed maps and slices, jp.Keyed / jp.Indexed collections and a mix of them.
// What the path denotes is the same (jp.Get follows all of these), so the events are judged like the plain ones.
func runDeep(c *c12case) []*c12event {
	if c.Elem.T != "obj" || c.Pr || !deepPath(c.Ast) {
		return nil
	}
	var evs []*c12event
	for _, flv := range []string{"gen", "struct", "ptr", "typed", "keyed", "mixed"} {
		elem := deepVal(c.Elem, flv, 0)
		rootMembers, _ := c.Root.Simple().(map[string]any)
		ast := c.Ast
		doc := map[string]any{"l": []any{elem}, "m": map[string]any{"x": elem}}
		for k, v := range rootMembers {
			doc[k] = v
		}
		rs := []route{
			{"Match.built", "m", try(func() (bool, error) { return ast.Build().Script().Match(elem), nil })},
			{"Match.parsed", "m", try(func() (bool, error) {
				sc, err := jp.NewScript("(" + ast.Text() + ")")
				if err != nil {
					return false, err
				}
				return sc.Match(elem), nil
			})},
			{"Get.built", "g", try(func() (bool, error) { return len(jp.R().C("l").F(ast.Build()).Get(doc)) == 1, nil })},
			{"Get.map", "g", try(func() (bool, error) { return len(jp.R().C("m").F(ast.Build()).Get(doc)) == 1, nil })},
			{"First.built", "g", try(func() (bool, error) {
				_, ok := jp.R().C("l").F(ast.Build()).FirstFound(doc)
				return ok, nil
			})},
			{"Has.built", "g", try(func() (bool, error) { return jp.R().C("l").F(ast.Build()).Has(doc), nil })},
			{"Eval.built", "n", try(func() (bool, error) {
				got, _ := ast.Build().Filter().Eval([]any{}, []any{elem}).([]any)
				return len(got) == 1, nil
			})},
		}
		ev := &c12event{Flv: "D:" + flv, Ast: c.Ast, Elem: c.Elem, Root: c.Root, Text: c.Ast.Text(), Src: c.Src}
		idx := map[string]int{}
		for _, r := range rs {
			key := r.rt + "|" + strconv.Itoa(r.o.r) + "|" + r.o.m
			if j, ok := idx[key]; ok {
				ev.O[j].As = append(ev.O[j].As, r.name+"/"+flv)
			} else {
				idx[key] = len(ev.O)
				ev.O = append(ev.O, group{As: []string{r.name + "/" + flv}, Rt: r.rt, R: r.o.r, D: -1, M: r.o.m})
			}
		}
		evs = append(evs, ev)
	}
	return evs
}

func min(a, b int) int {
	if a < b {
		return a
	}
	return b
}

func runC12(c *c12case) *c12event {
	elem := c.Elem.Simple()
	rootMembers, _ := c.Root.Simple().(map[string]any)
	rs := runRoutes(c.Ast, elem, rootMembers, c.Pr)
	var ds []route
	if c.Ast.Op == "==" || c.Ast.Op == "!=" {
		dual := *c.Ast
		if dual.Op == "==" {
			dual.Op = "!="
		} else {
			dual.Op = "=="
		}
		ds = runRoutes(&dual, elem, rootMembers, c.Pr)
	}
	ev := &c12event{Ast: c.Ast, Elem: c.Elem, Root: c.Root, Text: c.Ast.Text(), Src: c.Src, Cid: c.Cid, Sz: c.Sz}
	idx := map[string]int{}
	for i, r := range rs {
		d := -1
		if ds != nil {
			d = ds[i].o.r
		}
		key := r.rt + "|" + strconv.Itoa(r.o.r) + "|" + strconv.Itoa(d) + "|" + r.o.m
		if j, ok := idx[key]; ok {
			ev.O[j].As = append(ev.O[j].As, r.name)
		} else {
			idx[key] = len(ev.O)
			ev.O = append(ev.O, group{As: []string{r.name}, Rt: r.rt, R: r.o.r, D: d, M: r.o.m})
		}
	}
	return ev
}

// execC12: cases.ndjson on stdin -> trace.ndjson on stdout (order preserved, parallel).
func execC12() {
	var lines [][]byte
	sc := bufio.NewScanner(os.Stdin)
	sc.Buffer(make([]byte, 1<<20), 1<<28)
	for sc.Scan() {
		if len(sc.Bytes()) > 0 {
			lines = append(lines, append([]byte{}, sc.Bytes()...))
		}
	}
	out := make([][]byte, len(lines))
	var wg sync.WaitGroup
	nw := runtime.NumCPU()
	if nw > 8 {
		nw = 8
	}
	for w := 0; w < nw; w++ {
		wg.Add(1)
		go func(w int) {
			defer wg.Done()
			for i := w; i < len(lines); i += nw {
				var c c12case
				if err := json.Unmarshal(lines[i], &c); err != nil {
					fmt.Fprintf(os.Stderr, "bad case line %d: %v\n", i+1, err)
					os.Exit(2)
				}
				b, err := json.Marshal(runC12(&c))
				if err != nil {
					fmt.Fprintf(os.Stderr, "marshal: %v\n", err)
					os.Exit(2)
				}
				for _, fe := range append(runFlavoured(&c), runDeep(&c)...) {
					fb, err := json.Marshal(fe)
					if err != nil {
						fmt.Fprintf(os.Stderr, "marshal: %v\n", err)
						os.Exit(2)
					}
					b = append(append(b, '\n'), fb...)
				}
				out[i] = b
			}
		}(w)
	}
	wg.Wait()
	wr := bufio.NewWriterSize(os.Stdout, 1<<20)
	for _, b := range out {
		wr.Write(b)
		wr.WriteByte('\n')
	}
	wr.Flush()
}

// ---------------------------------------------------------------- regex facts (DESIGN 7.2)
var rxPatterns = append(append([]string{"a", "^a.", "b$", "a|b", "[ab]+", "^$", "a.c", "x"}, slashPatterns...), wholePatterns...)
var rxStrings = append(append(append([]string{"", "a", "b", "ab", "ba", "abc", "c", "aa", "xb", "a b"}, slashStrings...), wholeStrings...), alikeStrings...)

// strings that print like a value of another kind (ScriptGen!AlikeGroups): subjects of =~ / match / search in the look-alike cells
var alikeStrings = []string{"1", "2", "true", "false", "<nil>", "null", "1.5", "[]", "{}", "map[]", "[1 2]", "map[a:1]"}

// whole-string versus partial matching (C12: match() is against the entire string, search() and =~ anywhere): top-level
// alternation with and without own anchors, escaped trailing $ / leading ^, anchors in the middle, .* - and subjects that
// match only as a prefix, suffix or in the middle (the same lists as ScriptGen!RxPats / RxSubs)
var wholePatterns = []string{`^a|b$`, `^(a|b)$`, `^a$|^b$`, `^abc|xyz$`, `cost\$`, `^cost\$`, `\^a`, `a^b`, `a$b`, `.*`, `a.*`, `abc`, `^abc$`, `a|ab`, `ab+?`, `(a|ab)(c|bcd)`}
var wholeStrings = []string{"abcZZ", "ZZxyz", "xyz", "ZZabcZZ", "cost$", "cost$x", "xcost$", "^a", "x^a", "a^b", "ZZ", "abb", "abcd"}

// patterns with k = 0..3 backslashes directly before a slash, in the middle, at the start and at the end of the pattern,
// and a backslash pair at the end (C14: printing a regex constant between slashes), with the strings that tell them apart
var slashPatterns = []string{`a/b`, `a\/b`, `a\\/b`, `a\\\/b`, `^a\\/b$`, `/a`, `\/a`, `\\/a`, `a/`, `a\/`, `a\\/`, `a\\`, `^/$`, `a\\\\`}
var slashStrings = []string{"a/b", "a\\/b", "a\\b", "a\\", "/a", "\\/a", "a/", "a\\/", "/", "\\", "a\\\\", "a\\\\/b"}

func rxTable() {
	wr := bufio.NewWriter(os.Stdout)
	for _, p := range rxPatterns {
		search := regexp.MustCompile(p)
		full := regexp.MustCompile("^(?:" + p + ")$")
		for _, s := range rxStrings {
			b, _ := json.Marshal(map[string]any{"p": ints(p), "s": ints(s), "m": search.MatchString(s), "f": full.MatchString(s)})
			wr.Write(b)
			wr.WriteByte('\n')
		}
	}
	wr.Flush()
}

// ---------------------------------------------------------------- nested logic (seeded random)
func absOf(v any) *Abs {
	b, _ := json.Marshal(absval.Encode(v))
	var a Abs
	if err := json.Unmarshal(b, &a); err != nil {
		panic(err)
	}
	return &a
}

func cst(v any) *AST { return &AST{Op: "const", V: absOf(v)} }
func pth(root string, keys ...string) *AST {
	e := &AST{Op: "path", Root: root}
	for _, k := range keys {
		if k == "*" {
			e.Fr = append(e.Fr, Frag{F: "wild"})
		} else if n, err := strconv.Atoi(k); err == nil {
			e.Fr = append(e.Fr, Frag{F: "nth", I: n})
		} else {
			e.Fr = append(e.Fr, Frag{F: "child", K: ints(k)})
		}
	}
	return e
}

func nestC12(n int, seed int64) {
	rng := rand.New(rand.NewSource(seed))
	vals := []any{nil, true, false, int64(0), int64(1), int64(2), 1.5, 2.0, "a", "b", "", []any{}, []any{int64(1), "a"}, map[string]any{}, map[string]any{"a": int64(1)}}
	consts := []any{nil, true, false, int64(1), int64(2), 1.5, 2.0, "a", "b"}
	cmps := []string{"==", "!=", "<", ">", "<=", ">="}
	var leaf func() *AST
	leaf = func() *AST {
		switch rng.Intn(10) {
		case 0:
			return cst(rng.Intn(2) == 0)
		case 1:
			return &AST{Op: []string{"has", "exists"}[rng.Intn(2)], L: pth("@", []string{"k", "j", "z"}[rng.Intn(3)]), R: cst(rng.Intn(2) == 0)}
		case 2:
			return &AST{Op: cmps[rng.Intn(6)], L: pth("@", "k"), R: pth("@", "j")}
		case 3:
			return &AST{Op: cmps[rng.Intn(6)], L: pth("$", "k"), R: cst(consts[rng.Intn(len(consts))])}
		case 4:
			return &AST{Op: cmps[rng.Intn(6)], L: pth("@", "k", "*"), R: cst(consts[rng.Intn(len(consts))])}
		case 5:
			return &AST{Op: cmps[rng.Intn(6)], L: cst(consts[rng.Intn(len(consts))]), R: pth("@", "j")}
		default:
			return &AST{Op: cmps[rng.Intn(6)], L: pth("@", []string{"k", "j", "z"}[rng.Intn(3)]), R: cst(consts[rng.Intn(len(consts))])}
		}
	}
	var tree func(d int) *AST
	tree = func(d int) *AST {
		if d == 0 || rng.Intn(5) == 0 {
			return leaf()
		}
		switch rng.Intn(5) {
		case 0:
			return &AST{Op: "!", L: tree(d - 1)}
		case 1, 2:
			return &AST{Op: "&&", L: tree(d - 1), R: tree(d - 1)}
		default:
			return &AST{Op: "||", L: tree(d - 1), R: tree(d - 1)}
		}
	}
	wr := bufio.NewWriterSize(os.Stdout, 1<<20)
	for i := 0; i < n; i++ {
		elem := map[string]any{}
		for _, k := range []string{"j", "k"} {
			if rng.Intn(6) != 0 {
				elem[k] = vals[rng.Intn(len(vals))]
			}
		}
		root := map[string]any{}
		if rng.Intn(3) != 0 {
			root["k"] = vals[rng.Intn(len(vals))]
		}
		// the tree and every operator sub-expression of it, each as a case of its own on the same data: the smallest
		// deviating one names the cell (shrinking by sub-expression)
		ea, ra := absOf(elem), absOf(root)
		var emit func(t *AST) int
		emit = func(t *AST) int {
			if t.Op == "const" || t.Op == "path" {
				return 0
			}
			sz := 1
			if t.L != nil {
				sz += emit(t.L)
			}
			if t.R != nil {
				sz += emit(t.R)
			}
			c := c12case{Ast: t, Elem: ea, Root: ra, Pr: true, Src: "nest", Cid: i + 1, Sz: sz}
			b, err := json.Marshal(&c)
			if err != nil {
				panic(err)
			}
			wr.Write(b)
			wr.WriteByte('\n')
			return sz
		}
		emit(tree(1 + rng.Intn(3)))
	}
	wr.Flush()
}

func sortedKeys(m map[string]int) []string {
	ks := make([]string, 0, len(m))
	for k := range m {
		ks = append(ks, k)
	}
	sort.Strings(ks)
	return ks
}
