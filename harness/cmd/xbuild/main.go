// Command xbuild drives alt.Builder, gen.Builder and alt.Filter for the extension check XBUILD.
//
//	xbuild expand            < seqs.ndjson  > cases.ndjson   (TLC witnesses -> cases: every witness followed by every call of the alphabet)
//	xbuild rand -n N         > cases.ndjson                  (seeded long call sequences, tokenizer-derived sequences with the oj.Parse result)
//	xbuild exec              < cases.ndjson > trace.ndjson   (replay step by step into BOTH builders; outcome + projected Result after every step)
//	xbuild frand -n N        > fcases.ndjson                 (seeded filter x data cases)
//	xbuild fexec             < fcases.ndjson > ftrace.ndjson (alt.Filter: nested and dotted spec, simple and gen data, Simplify; alt.Match for comparison)
//	xbuild nodes             > ntrace.ndjson                 (gen Node methods Empty / String on every node type)
//
// It only calls ojg and records what came back; every verdict is TLC's (spec/TraceBuilder.tla, spec/TraceAltFilter.tla).
package main

import (
	"bufio"
	"bytes"
	"encoding/json"
	"flag"
	"fmt"
	"math/rand"
	"os"
	"sort"
	"strconv"
	"strings"
	"time"

	"github.com/ohler55/ojg/alt"
	"github.com/ohler55/ojg/gen"
	"github.com/ohler55/ojg/oj"
)

type abs = map[string]any

// ---------------------------------------------------------------------------------------------
// values: {"t":"null"} {"t":"bool","v"} {"t":"int","v"} {"t":"str","v"} {"t":"flt","s"} {"t":"big","v"}
//         {"t":"arr","v":[..]} {"t":"obj","m":{key: value}}   ({"t":"filter","m":{..}} in filter cases)

func num(v any) int64 {
	switch t := v.(type) {
	case json.Number:
		i, _ := t.Int64()
		return i
	case float64:
		return int64(t)
	case int:
		return int64(t)
	case int64:
		return t
	}
	panic(fmt.Sprintf("not a number %#v", v))
}

// intAbs: TLC integers are 32-bit; larger ones travel as decimal text (equality only)
func intAbs(i int64) abs {
	if -(1<<30) <= i && i <= 1<<30 {
		return abs{"t": "int", "v": i}
	}
	return top8Fact(abs{"t": "int", "s": strconv.FormatInt(i, 10)}, strconv.FormatInt(i, 10))
}

// top8Fact marks a number whose decimal text is one of 9223372036854775800..807 (optionally negative): a fact about the
// text that the specification cannot compute (no string operations in TLA+) and needs for the locus of the known
// oj.Parse defect (json.Number instead of int64 for the top eight int64 values, root cause recorded under C02).
func top8Fact(m abs, text string) abs {
	t := strings.TrimPrefix(text, "-")
	if len(t) == 19 && strings.HasPrefix(t, "922337203685477580") {
		m["top8"] = true
	}
	return m
}

func intOf(m abs) int64 {
	if s, ok := m["s"].(string); ok {
		i, _ := strconv.ParseInt(s, 10, 64)
		return i
	}
	return num(m["v"])
}

func members(v abs) map[string]any {
	m, _ := v["m"].(map[string]any) // TLC prints an empty function as []
	return m
}

func toSimple(v any) any {
	m := v.(abs)
	switch m["t"] {
	case "null":
		return nil
	case "bool":
		return m["v"].(bool)
	case "int":
		if w, _ := m["w"].(string); w == "int" {
			return int(intOf(m))
		}
		return intOf(m)
	case "str":
		return m["v"].(string)
	case "flt":
		f, _ := strconv.ParseFloat(m["s"].(string), 64)
		return f
	case "big":
		return json.Number(m["v"].(string))
	case "arr":
		l, _ := m["v"].([]any)
		a := make([]any, len(l))
		for i, e := range l {
			a[i] = toSimple(e)
		}
		return a
	case "obj", "filter":
		o := map[string]any{}
		for k, e := range members(m) {
			o[k] = toSimple(e)
		}
		return o
	}
	panic(fmt.Sprintf("bad value %v", m))
}

func toGen(v any) gen.Node {
	m := v.(abs)
	switch m["t"] {
	case "null":
		return nil
	case "bool":
		return gen.Bool(m["v"].(bool))
	case "int":
		return gen.Int(intOf(m))
	case "str":
		return gen.String(m["v"].(string))
	case "flt":
		f, _ := strconv.ParseFloat(m["s"].(string), 64)
		return gen.Float(f)
	case "big":
		return gen.Big(m["v"].(string))
	case "arr":
		l, _ := m["v"].([]any)
		a := make(gen.Array, len(l))
		for i, e := range l {
			a[i] = toGen(e)
		}
		return a
	case "obj":
		o := gen.Object{}
		for k, e := range members(m) {
			o[k] = toGen(e)
		}
		return o
	}
	panic(fmt.Sprintf("bad value %v", m))
}

// proj projects what a builder / filter handed back onto the value encoding.
func proj(v any) any {
	switch t := v.(type) {
	case nil:
		return abs{"t": "null"}
	case bool:
		return abs{"t": "bool", "v": t}
	case gen.Bool:
		return abs{"t": "bool", "v": bool(t)}
	case int:
		return intAbs(int64(t))
	case int64:
		return intAbs(t)
	case gen.Int:
		return intAbs(int64(t))
	case float64:
		return abs{"t": "flt", "s": strconv.FormatFloat(t, 'g', -1, 64)}
	case gen.Float:
		return abs{"t": "flt", "s": strconv.FormatFloat(float64(t), 'g', -1, 64)}
	case string:
		return abs{"t": "str", "v": t}
	case gen.String:
		return abs{"t": "str", "v": string(t)}
	case json.Number:
		return top8Fact(abs{"t": "big", "v": string(t)}, string(t))
	case gen.Big:
		return top8Fact(abs{"t": "big", "v": string(t)}, string(t))
	case []any:
		a := make([]any, len(t))
		for i, e := range t {
			a[i] = proj(e)
		}
		return abs{"t": "arr", "v": a}
	case gen.Array:
		a := make([]any, len(t))
		for i, e := range t {
			if e == nil {
				a[i] = abs{"t": "null"}
			} else {
				a[i] = proj(e)
			}
		}
		return abs{"t": "arr", "v": a}
	case map[string]any:
		o := abs{}
		for k, e := range t {
			o[k] = proj(e)
		}
		return abs{"t": "obj", "m": o}
	case gen.Object:
		o := abs{}
		for k, e := range t {
			if e == nil {
				o[k] = abs{"t": "null"}
			} else {
				o[k] = proj(e)
			}
		}
		return abs{"t": "obj", "m": o}
	case alt.Filter:
		o := abs{}
		for k, e := range t {
			o[k] = proj(e)
		}
		return abs{"t": "filter", "m": o}
	}
	return abs{"t": "other", "v": fmt.Sprintf("%T", v)}
}

func canon(v any) string {
	b, _ := json.Marshal(v) // encoding/json sorts map keys
	return string(b)
}

// ---------------------------------------------------------------------------------------------
// builders behind one interface

type call struct {
	Op  string   `json:"op"`
	Key []string `json:"key"`
	X   any      `json:"x"`
}

type builder interface {
	do(c call) error
	result() any
}

type altB struct{ b *alt.Builder }
type genB struct{ b *gen.Builder }

func (a altB) do(c call) error {
	switch c.Op {
	case "Object":
		return a.b.Object(c.Key...)
	case "Array":
		return a.b.Array(c.Key...)
	case "Value":
		return a.b.Value(toSimple(c.X), c.Key...)
	case "Pop":
		a.b.Pop()
	case "PopAll":
		a.b.PopAll()
	case "Reset":
		a.b.Reset()
	default:
		panic("unknown call " + c.Op)
	}
	return nil
}
func (a altB) result() any { return a.b.Result() }

func (g genB) do(c call) error {
	switch c.Op {
	case "Object":
		return g.b.Object(c.Key...)
	case "Array":
		return g.b.Array(c.Key...)
	case "Value":
		return g.b.Value(toGen(c.X), c.Key...)
	case "Pop":
		g.b.Pop()
	case "PopAll":
		g.b.PopAll()
	case "Reset":
		g.b.Reset()
	default:
		panic("unknown call " + c.Op)
	}
	return nil
}
func (g genB) result() any {
	if r := g.b.Result(); r != nil {
		return r
	}
	return nil
}

func fresh(kind string, prime bool) builder {
	if kind == "alt" {
		b := &alt.Builder{}
		if prime {
			b.Reset()
		}
		return altB{b}
	}
	b := &gen.Builder{}
	if prime {
		b.Reset()
	}
	return genB{b}
}

type held struct {
	step int
	v    any
	text string
}

type obs struct {
	O  string `json:"o"`
	R  any    `json:"r"`
	St []int  `json:"st"`
}

// step applies one call and records outcome, projected Result and which earlier results changed.
func step(b builder, c call, hs *[]held, n int, keep bool) (o obs) {
	o = obs{O: "ok", R: abs{"t": "null"}, St: []int{}}
	func() {
		defer func() {
			if r := recover(); r != nil {
				o.O = "panic"
			}
		}()
		if err := b.do(c); err != nil {
			o.O = "err"
		}
	}()
	func() {
		defer func() {
			if r := recover(); r != nil {
				o.O = "panic"
			}
		}()
		r := b.result()
		o.R = proj(r)
		for _, h := range *hs {
			if canon(proj(h.v)) != h.text {
				o.St = append(o.St, h.step)
			}
		}
		if keep {
			*hs = append(*hs, held{step: n, v: r, text: canon(o.R)})
		}
	}()
	return
}

type bcase struct {
	Src   string `json:"src"`
	H     []call `json:"h"`
	Nx    []call `json:"nx"`
	Prime bool   `json:"prime"`
	Parse any    `json:"parse,omitempty"`
	Text  string `json:"text,omitempty"`
}

func fixCalls(cs []call) {
	for i := range cs {
		if cs[i].Key == nil {
			cs[i].Key = []string{}
		}
		if cs[i].X == nil {
			cs[i].X = abs{"t": "null"}
		}
	}
}

func execCases() {
	in := bufio.NewReaderSize(os.Stdin, 1<<20)
	w := bufio.NewWriterSize(os.Stdout, 1<<20)
	defer w.Flush()
	enc := json.NewEncoder(w)
	enc.SetEscapeHTML(false)
	for {
		line, err := in.ReadBytes('\n')
		if len(bytes.TrimSpace(line)) > 0 {
			var c bcase
			d := json.NewDecoder(bytes.NewReader(line))
			d.UseNumber()
			if e := d.Decode(&c); e != nil {
				fmt.Fprintln(os.Stderr, "bad case:", e)
				os.Exit(2)
			}
			fixCalls(c.H)
			fixCalls(c.Nx)
			hs := make([]abs, len(c.H))
			for i, cl := range c.H {
				hs[i] = abs{"c": cl}
			}
			nx := make([]abs, len(c.Nx))
			for i, cl := range c.Nx {
				nx[i] = abs{"c": cl}
			}
			for _, kind := range []string{"alt", "gen"} {
				b := fresh(kind, c.Prime)
				var hl []held
				for i, cl := range c.H {
					hs[i][kind] = step(b, cl, &hl, i+1, true)
				}
				for i, cl := range c.Nx {
					// a fresh builder brought to the same state, then the alternative call
					b2 := fresh(kind, c.Prime)
					var hl2 []held
					for j, pc := range c.H {
						step(b2, pc, &hl2, j+1, true)
					}
					nx[i][kind] = step(b2, cl, &hl2, len(c.H)+1, false)
				}
			}
			out := abs{"src": c.Src, "prime": c.Prime, "h": hs, "nx": nx, "hasparse": c.Parse != nil, "parse": abs{"t": "null"}}
			if c.Parse != nil {
				out["parse"] = c.Parse
				out["text"] = c.Text
			}
			if e := enc.Encode(out); e != nil {
				panic(e)
			}
		}
		if err != nil {
			break
		}
	}
}

func aInt(i int) abs     { return abs{"t": "int", "v": i} }
func aStr(s string) abs  { return abs{"t": "str", "v": s} }
func aNull() abs         { return abs{"t": "null"} }
func mk(op string, x any, key ...string) call {
	if key == nil {
		key = []string{}
	}
	if x == nil {
		x = aNull()
	}
	return call{Op: op, Key: key, X: x}
}

// the alphabet every TLC witness is extended with: every API call in every key mode and with several value kinds
func alphabet() []call {
	return []call{
		mk("Object", nil), mk("Object", nil, "a"), mk("Object", nil, "b"), mk("Object", nil, "c"),
		mk("Array", nil), mk("Array", nil, "a"), mk("Array", nil, "c"),
		mk("Value", aInt(1)), mk("Value", aInt(2), "a"), mk("Value", aStr("s"), "b"), mk("Value", aNull()), mk("Value", aNull(), "c"),
		mk("Value", abs{"t": "flt", "s": "1.5"}), mk("Value", abs{"t": "bool", "v": true}, "a"),
		mk("Pop", nil), mk("PopAll", nil), mk("Reset", nil),
	}
}

func expand() {
	in := bufio.NewReaderSize(os.Stdin, 1<<20)
	w := bufio.NewWriterSize(os.Stdout, 1<<20)
	defer w.Flush()
	enc := json.NewEncoder(w)
	n := 0
	for {
		line, err := in.ReadBytes('\n')
		if len(bytes.TrimSpace(line)) > 0 {
			var s struct {
				H []call `json:"h"`
			}
			d := json.NewDecoder(bytes.NewReader(line))
			d.UseNumber()
			if e := d.Decode(&s); e != nil {
				fmt.Fprintln(os.Stderr, "bad seq:", e)
				os.Exit(2)
			}
			fixCalls(s.H)
			n++
			enc.Encode(bcase{Src: "tlc", H: s.H, Nx: alphabet(), Prime: n%2 == 0})
			if len(s.H) > 0 {
				// Reset leads back to the initial abstract state, which the model reaches with the empty sequence: the
				// reuse of THIS concrete builder after Reset is covered by replaying every call after it as well
				enc.Encode(bcase{Src: "tlc+reset", H: append(append([]call{}, s.H...), mk("Reset", nil)), Nx: alphabet(), Prime: n%2 == 1})
			}
		}
		if err != nil {
			break
		}
	}
}

// ---- random sequences and tokenizer-derived sequences ----

type rgen struct{ r *rand.Rand }

var rkeys = []string{"a", "b", "c", "k1", "x_y", "Z", "0"}

func (g *rgen) leaf() abs {
	switch g.r.Intn(7) {
	case 0:
		return aNull()
	case 1:
		return abs{"t": "bool", "v": g.r.Intn(2) == 0}
	case 2:
		return aStr([]string{"", "x", "a b", "null"}[g.r.Intn(4)])
	case 3:
		return abs{"t": "flt", "s": []string{"1.5", "-0.25", "1e+300", "0.1"}[g.r.Intn(4)]}
	}
	return aInt(g.r.Intn(2000) - 1000)
}

func (g *rgen) seq() []call {
	var cs []call
	var open []bool // true = object
	n := 6 + g.r.Intn(40)
	for len(cs) < n {
		inObj := len(open) > 0 && open[len(open)-1]
		var key []string
		if inObj != (g.r.Intn(8) == 0) { // mostly the legal key mode, sometimes the illegal one
			key = []string{rkeys[g.r.Intn(len(rkeys))]}
		}
		legal := (len(key) > 0) == inObj
		switch k := g.r.Intn(20); {
		case k < 4:
			cs = append(cs, mk("Object", nil, key...))
			if legal {
				open = append(open, true)
			}
		case k < 8:
			cs = append(cs, mk("Array", nil, key...))
			if legal {
				open = append(open, false)
			}
		case k < 14:
			cs = append(cs, mk("Value", g.leaf(), key...))
		case k < 18:
			cs = append(cs, mk("Pop", nil))
			if len(open) > 0 {
				open = open[:len(open)-1]
			}
		case k < 19:
			cs = append(cs, mk("PopAll", nil))
			open = nil
		default:
			if g.r.Intn(3) == 0 {
				cs = append(cs, mk("Reset", nil))
				open = nil
			}
		}
	}
	if g.r.Intn(2) == 0 {
		cs = append(cs, mk("PopAll", nil))
	}
	return cs
}

func (g *rgen) jsonText(depth int) string {
	nums := []string{"0", "-1", "17", "1.5", "1e2", "-0.0", "9223372036854775807", "123456789012345678901234567890", "1e400", "0.1"}
	strs := []string{`""`, `"x"`, `"a b"`, `"\n"`, `"q\"q"`}
	if depth <= 0 || g.r.Intn(3) == 0 {
		switch g.r.Intn(6) {
		case 0:
			return "null"
		case 1:
			return []string{"true", "false"}[g.r.Intn(2)]
		case 2:
			return strs[g.r.Intn(len(strs))]
		}
		return nums[g.r.Intn(len(nums))]
	}
	n := g.r.Intn(4)
	var b bytes.Buffer
	if g.r.Intn(2) == 0 {
		b.WriteString("[")
		for i := 0; i < n; i++ {
			if i > 0 {
				b.WriteString(",")
			}
			b.WriteString(g.jsonText(depth - 1))
		}
		b.WriteString("]")
	} else {
		b.WriteString("{")
		for i := 0; i < n; i++ {
			if i > 0 {
				b.WriteString(",")
			}
			// duplicate keys on purpose now and then: the last one wins in both oj.Parse and the builders
			b.WriteString(strconv.Quote(rkeys[g.r.Intn(len(rkeys))]) + ":" + g.jsonText(depth-1))
		}
		b.WriteString("}")
	}
	return b.String()
}

// recorder turns tokenizer events into builder calls.
type recorder struct {
	cs    []call
	inObj []bool
	key   string
}

func (r *recorder) k() []string {
	if len(r.inObj) > 0 && r.inObj[len(r.inObj)-1] {
		return []string{r.key}
	}
	return nil
}
func (r *recorder) Null()            { r.cs = append(r.cs, mk("Value", aNull(), r.k()...)) }
func (r *recorder) Bool(v bool)      { r.cs = append(r.cs, mk("Value", abs{"t": "bool", "v": v}, r.k()...)) }
func (r *recorder) Int(v int64)      { r.cs = append(r.cs, mk("Value", proj(v), r.k()...)) }
func (r *recorder) Float(v float64)  { r.cs = append(r.cs, mk("Value", proj(v), r.k()...)) }
func (r *recorder) Number(v string)  { r.cs = append(r.cs, mk("Value", proj(json.Number(v)), r.k()...)) }
func (r *recorder) String(v string)  { r.cs = append(r.cs, mk("Value", aStr(v), r.k()...)) }
func (r *recorder) Key(v string)     { r.key = v }
func (r *recorder) ObjectStart()     { r.cs = append(r.cs, mk("Object", nil, r.k()...)); r.inObj = append(r.inObj, true) }
func (r *recorder) ArrayStart()      { r.cs = append(r.cs, mk("Array", nil, r.k()...)); r.inObj = append(r.inObj, false) }
func (r *recorder) ObjectEnd()       { r.cs = append(r.cs, mk("Pop", nil)); r.inObj = r.inObj[:len(r.inObj)-1] }
func (r *recorder) ArrayEnd()        { r.cs = append(r.cs, mk("Pop", nil)); r.inObj = r.inObj[:len(r.inObj)-1] }

func randCases(args []string) {
	fs := flag.NewFlagSet("rand", flag.ExitOnError)
	n := fs.Int("n", 500, "number of random sequences (the same number of tokenizer-derived ones is added)")
	fs.Parse(args)
	seed, _ := strconv.ParseInt(os.Getenv("VERIF_SEED"), 10, 64)
	g := &rgen{r: rand.New(rand.NewSource(seed*6151 + 3))}
	w := bufio.NewWriterSize(os.Stdout, 1<<20)
	defer w.Flush()
	enc := json.NewEncoder(w)
	enc.SetEscapeHTML(false)
	for i := 0; i < *n; i++ {
		enc.Encode(bcase{Src: "rand", H: g.seq(), Nx: []call{}, Prime: i%2 == 0})
		txt := g.jsonText(1 + g.r.Intn(4))
		rec := &recorder{}
		if err := oj.Tokenize([]byte(txt), rec); err != nil {
			continue
		}
		v, err := oj.Parse([]byte(txt))
		if err != nil {
			continue
		}
		enc.Encode(bcase{Src: "tok", H: rec.cs, Nx: []call{}, Prime: i%2 == 1, Parse: proj(v), Text: txt})
	}
}

// ---------------------------------------------------------------------------------------------
// alt.Filter

type fcase struct {
	Spec any `json:"spec"` // {"t":"filter","m":{key: leaf | filter}}; keys without dots
	Data any `json:"data"`
}

func nested(v any) any {
	m := v.(abs)
	if m["t"] == "filter" {
		o := map[string]any{}
		for k, e := range members(m) {
			o[k] = nested(e)
		}
		return o
	}
	if m["t"] == "int" {
		return int(num(m["v"])) // a plain Go int in the spec: NewFilter normalises it
	}
	return toSimple(m)
}

func dotted(v any, prefix string, out map[string]any) {
	for k, e := range members(v.(abs)) {
		p := k
		if prefix != "" {
			p = prefix + "." + k
		}
		if em := e.(abs); em["t"] == "filter" && len(members(em)) > 0 {
			dotted(em, p, out)
		} else if em["t"] == "filter" {
			out[p] = map[string]any{}
		} else {
			out[p] = nested(em)
		}
	}
}

func safeMatch(f func() bool) (res bool, pan bool) {
	defer func() {
		if r := recover(); r != nil {
			res, pan = false, true
		}
	}()
	return f(), false
}

func fexec() {
	in := bufio.NewReaderSize(os.Stdin, 1<<20)
	w := bufio.NewWriterSize(os.Stdout, 1<<20)
	defer w.Flush()
	enc := json.NewEncoder(w)
	enc.SetEscapeHTML(false)
	for {
		line, err := in.ReadBytes('\n')
		if len(bytes.TrimSpace(line)) > 0 {
			var c fcase
			d := json.NewDecoder(bytes.NewReader(line))
			d.UseNumber()
			if e := d.Decode(&c); e != nil {
				fmt.Fprintln(os.Stderr, "bad filter case:", e)
				os.Exit(2)
			}
			out := abs{"ev": "cell", "spec": c.Spec, "data": c.Data, "pan": false}
			nspec := nested(c.Spec).(map[string]any)
			dspec := map[string]any{}
			dotted(c.Spec, "", dspec)
			var p1, p2, p3, p4, p5 bool
			out["mn"], p1 = safeMatch(func() bool { return alt.NewFilter(nspec).Match(toSimple(c.Data)) })
			out["md"], p2 = safeMatch(func() bool { return alt.NewFilter(dspec).Match(toSimple(c.Data)) })
			out["mg"], p3 = safeMatch(func() bool {
				var data any
				if g := toGen(c.Data); g != nil {
					data = g
				}
				return alt.NewFilter(nspec).Match(data)
			})
			// the same filter matched twice: a Filter is "created and reused"
			out["m2"], p4 = safeMatch(func() bool {
				f := alt.NewFilter(nspec)
				f.Match(toSimple(c.Data))
				return f.Match(toSimple(c.Data))
			})
			out["am"], p5 = safeMatch(func() bool { return alt.Match(toSimple(nested2(c.Spec)), toSimple(c.Data)) })
			out["pan"] = p1 || p2 || p3 || p4 || p5
			func() {
				defer func() {
					if r := recover(); r != nil {
						out["pan"] = true
						out["simp"] = abs{"t": "null"}
					}
				}()
				out["simp"] = proj(alt.NewFilter(dspec).Simplify())
			}()
			if e := enc.Encode(out); e != nil {
				panic(e)
			}
		}
		if err != nil {
			break
		}
	}
}

// nested2 turns the filter normal form into a plain value tree (filter nodes become objects) for alt.Match.
func nested2(v any) any {
	m := v.(abs)
	if m["t"] == "filter" {
		o := abs{}
		for k, e := range members(m) {
			o[k] = nested2(e)
		}
		return abs{"t": "obj", "m": o}
	}
	return m
}

func (g *rgen) fleaf() abs {
	switch g.r.Intn(8) {
	case 0:
		return aNull()
	case 1:
		return abs{"t": "bool", "v": g.r.Intn(2) == 0}
	case 2:
		return aStr([]string{"x", "y", ""}[g.r.Intn(3)])
	case 3:
		return abs{"t": "flt", "s": []string{"1", "1.5", "2"}[g.r.Intn(3)]}
	case 4:
		return abs{"t": "int", "v": g.r.Intn(3), "w": "int"}
	}
	return aInt(g.r.Intn(3))
}

func (g *rgen) fspec(depth int) abs {
	m := abs{}
	for i, n := 0, g.r.Intn(3); i < n || (depth == 2 && len(m) == 0 && g.r.Intn(4) != 0); i++ {
		k := rkeys[g.r.Intn(4)]
		if depth > 0 && g.r.Intn(3) == 0 {
			m[k] = g.fspec(depth - 1)
		} else {
			m[k] = g.fleaf()
		}
	}
	return abs{"t": "filter", "m": m}
}

func (g *rgen) fdata(depth int) abs {
	if depth <= 0 || g.r.Intn(4) == 0 {
		return g.fleaf()
	}
	if g.r.Intn(3) == 0 {
		l := make([]any, g.r.Intn(4))
		for i := range l {
			l[i] = g.fdata(depth - 1)
		}
		return abs{"t": "arr", "v": l}
	}
	m := abs{}
	for i, n := 0, g.r.Intn(4); i < n; i++ {
		m[rkeys[g.r.Intn(4)]] = g.fdata(depth - 1)
	}
	return abs{"t": "obj", "m": m}
}

func frand(args []string) {
	fs := flag.NewFlagSet("frand", flag.ExitOnError)
	n := fs.Int("n", 1000, "number of random filter cases")
	fs.Parse(args)
	seed, _ := strconv.ParseInt(os.Getenv("VERIF_SEED"), 10, 64)
	g := &rgen{r: rand.New(rand.NewSource(seed*7331 + 11))}
	w := bufio.NewWriterSize(os.Stdout, 1<<20)
	defer w.Flush()
	enc := json.NewEncoder(w)
	for i := 0; i < *n; i++ {
		spec := g.fspec(2)
		data := g.fdata(3)
		if g.r.Intn(3) == 0 {
			// data derived from the spec so that matches are frequent: the spec itself with extra members, or wrapped in a slice
			data = nested2(spec).(abs)
			if g.r.Intn(2) == 0 {
				data = abs{"t": "arr", "v": []any{g.fdata(1), data}}
			}
		}
		enc.Encode(fcase{Spec: spec, Data: data})
	}
}

// ---------------------------------------------------------------------------------------------
// gen Node methods C18 does not exercise: Empty() and String() on every node type

func nodes() {
	w := bufio.NewWriterSize(os.Stdout, 1<<20)
	defer w.Flush()
	enc := json.NewEncoder(w)
	enc.SetEscapeHTML(false)
	tm := time.Unix(1700000000, 123456789).UTC()
	list := []gen.Node{gen.Bool(true), gen.Bool(false), gen.Int(0), gen.Int(-7), gen.Float(0), gen.Float(1.5), gen.String(""), gen.String("x"),
		gen.String("a\"b"), gen.Big(""), gen.Big("1e400"), gen.Time(tm), gen.Time(time.Time{}), gen.Array{}, gen.Array{gen.Int(1), nil, gen.String("s")},
		gen.Array(nil), gen.Object{}, gen.Object{"a": gen.Int(1)}, gen.Object{"n": nil}, gen.Object(nil), gen.Array{gen.Array{}, gen.Object{}}}
	gen.Sort = true
	for _, n := range list {
		out := abs{"ev": "node", "g": fmt.Sprintf("%T", n), "v": proj(n), "pan": false, "empty": false, "str": "", "parsed": false, "back": abs{"t": "null"}}
		func() {
			defer func() {
				if r := recover(); r != nil {
					out["pan"] = true
				}
			}()
			out["empty"] = n.Empty()
			s := n.String()
			out["str"] = s
			// what the text reads back as (oj.Parse), projected; "unparsable" if it is not JSON
			if v, err := oj.Parse([]byte(s)); err == nil {
				out["back"] = proj(v)
				out["parsed"] = true
			} else {
				out["back"] = abs{"t": "null"}
				out["parsed"] = false
			}
		}()
		enc.Encode(out)
	}
}

func main() {
	if len(os.Args) < 2 {
		fmt.Fprintln(os.Stderr, "usage: xbuild expand|rand|exec|frand|fexec|nodes")
		os.Exit(2)
	}
	switch os.Args[1] {
	case "expand":
		expand()
	case "rand":
		randCases(os.Args[2:])
	case "exec":
		execCases()
	case "frand":
		frand(os.Args[2:])
	case "fexec":
		fexec()
	case "nodes":
		nodes()
	default:
		fmt.Fprintln(os.Stderr, "unknown mode", os.Args[1])
		os.Exit(2)
	}
	_ = sort.Strings
}
