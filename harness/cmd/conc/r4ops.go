package main

// Round-4 families: cold struct types reached through typed containers, by-value structs with pointer-receiver
// members (holders), and the reader front-ends with documents longer than one read buffer behind slow readers.

import (
	"bytes"
	"fmt"
	"io"
	"reflect"
	"runtime"
	"strings"
	"time"

	"github.com/ohler55/ojg"
	"github.com/ohler55/ojg/alt"
	"github.com/ohler55/ojg/gen"
	"github.com/ohler55/ojg/jp"
	"github.com/ohler55/ojg/oj"
	"github.com/ohler55/ojg/pretty"
	"github.com/ohler55/ojg/sen"
)

// ---- cold types reached through typed containers -------------------------------------------------------------
var coldShapes = []string{"[]T", "[2]T", "[]*T", "map[string]T", "*[]T", "[][]T", "member", "[]T(empty-first)"}

// coldContainer wraps fresh struct values (coldValue builds new reflect.StructOf types on every call) into a typed
// container, as the top-level value or as members of another fresh struct.
func coldContainer(arg int) any {
	mk := func(a int) reflect.Value { // a fresh struct VALUE (addressable copy)
		v := reflect.ValueOf(coldValue(a*2 + 1))
		p := reflect.New(v.Type())
		p.Elem().Set(v)
		return p.Elem()
	}
	e0 := mk(arg)
	t := e0.Type()
	e1 := reflect.New(t).Elem()
	e1.Field(0).SetInt(int64(arg%5 + 10))
	switch coldShapes[(arg/2)%len(coldShapes)] {
	case "[]T":
		s := reflect.MakeSlice(reflect.SliceOf(t), 0, 2)
		return reflect.Append(s, e0, e1).Interface()
	case "[2]T":
		a := reflect.New(reflect.ArrayOf(2, t)).Elem()
		a.Index(0).Set(e0)
		a.Index(1).Set(e1)
		return a.Interface()
	case "[]*T":
		s := reflect.MakeSlice(reflect.SliceOf(reflect.PtrTo(t)), 0, 2)
		return reflect.Append(s, e0.Addr(), e1.Addr()).Interface()
	case "map[string]T":
		m := reflect.MakeMap(reflect.MapOf(reflect.TypeOf(""), t))
		m.SetMapIndex(reflect.ValueOf("k0"), e0) // one entry: the pooled (unsorted) writers must stay deterministic
		return m.Interface()
	case "*[]T":
		s := reflect.MakeSlice(reflect.SliceOf(t), 0, 2)
		p := reflect.New(s.Type())
		p.Elem().Set(reflect.Append(s, e0, e1))
		return p.Interface()
	case "[][]T":
		in := reflect.Append(reflect.MakeSlice(reflect.SliceOf(t), 0, 2), e0, e1)
		return reflect.Append(reflect.MakeSlice(reflect.SliceOf(in.Type()), 0, 1), in).Interface()
	case "member":
		tag := reflect.StructTag(fmt.Sprintf(`cold:"m%d"`, atomicNext()))
		outer := reflect.StructOf([]reflect.StructField{
			{Name: "L", Type: reflect.SliceOf(t), Tag: tag},
			{Name: "A", Type: reflect.ArrayOf(1, t), Tag: tag},
			{Name: "M", Type: reflect.MapOf(reflect.TypeOf(""), t), Tag: tag},
			{Name: "P", Type: reflect.PtrTo(reflect.SliceOf(t)), Tag: tag},
		})
		o := reflect.New(outer).Elem()
		l := reflect.Append(reflect.MakeSlice(reflect.SliceOf(t), 0, 2), e0, e1)
		o.Field(0).Set(l)
		o.Field(1).Index(0).Set(e1)
		m := reflect.MakeMap(reflect.MapOf(reflect.TypeOf(""), t))
		m.SetMapIndex(reflect.ValueOf("k"), e0)
		o.Field(2).Set(m)
		lp := reflect.New(l.Type())
		lp.Elem().Set(l)
		o.Field(3).Set(lp)
		return o.Interface()
	}
	s := reflect.MakeSlice(reflect.SliceOf(t), 0, 2) // a zero element first
	return reflect.Append(s, e1, e0).Interface()
}

func atomicNext() int64 { return nextCold() } // shares the counter of coldValue

func coldCOpt(arg int) *ojg.Options {
	o := coldOpt(arg / 3)
	if (arg/16)%2 == 1 {
		o.Indent = 2 // indented writers are separate code from the tight ones
	}
	return o
}

func coldContainerOps() []Op {
	return []Op{
		{"cold[] sen.String", "struct", func(a int) (string, []byte) { return sen.String(coldContainer(a), coldCOpt(a)), nil }},
		{"cold[] sen.String(pooled)", "struct", func(a int) (string, []byte) { return sen.String(coldContainer(a)), nil }},
		{"cold[] sen.Bytes", "struct", func(a int) (string, []byte) {
			b := sen.Bytes(coldContainer(a), coldCOpt(a))
			return string(b), b
		}},
		{"cold[] oj.JSON", "struct", func(a int) (string, []byte) { return oj.JSON(coldContainer(a), coldCOpt(a)), nil }},
		{"cold[] oj.JSON(pooled)", "struct", func(a int) (string, []byte) { return oj.JSON(coldContainer(a)), nil }},
		{"cold[] oj.Marshal", "struct", func(a int) (string, []byte) {
			b, err := oj.Marshal(coldContainer(a), coldCOpt(a))
			return string(b) + errStr(err), b
		}},
		{"cold[] alt.Decompose", "struct", func(a int) (string, []byte) {
			return sen.String(alt.Decompose(coldContainer(a), coldCOpt(a)), sortOpt), nil
		}},
		{"cold[] pretty.SEN", "struct", func(a int) (string, []byte) { return pretty.SEN(coldContainer(a), coldCOpt(a)), nil }},
		{"cold[] pretty.JSON", "struct", func(a int) (string, []byte) { return pretty.JSON(coldContainer(a), coldCOpt(a)), nil }},
	}
}

// ---- holders: by-value structs whose members have POINTER-receiver Simplify / Generic / MarshalJSON / MarshalText --
type simpP struct {
	V     int
	Owner string
}

func (s *simpP) Simplify() any { return map[string]any{"simp": fmt.Sprint(s.Owner, ":", s.V)} } // one key: unsorted writers stay deterministic

type genP struct {
	V int
}

func (g *genP) Generic() gen.Node { return gen.Object{"gen": gen.Int(g.V)} }

type jsonP struct {
	V int
}

func (j *jsonP) MarshalJSON() ([]byte, error) { return []byte(fmt.Sprintf(`{"json":%d}`, j.V)), nil }

type textP struct {
	V int
}

func (t *textP) MarshalText() ([]byte, error) { return []byte(fmt.Sprintf("text-%d", t.V)), nil }

type holder struct {
	ID int
	S  simpP
	G  genP
	J  jsonP
	T  textP
	W  time.Time
	L  []simpP
}

// holderValue: every argument gives distinguishable member values (two goroutines never agree unless they run the
// same argument).
func holderValue(arg int) holder {
	return holder{ID: arg, S: simpP{V: arg * 3, Owner: fmt.Sprint("owner-", arg)}, G: genP{V: arg * 5}, J: jsonP{V: arg * 7}, T: textP{V: arg * 11},
		W: time.Unix(1600000000+int64(arg)*3600, 0).UTC(), L: []simpP{{V: arg, Owner: "l"}, {V: -arg, Owner: "m"}}}
}

func holderOps() []Op {
	col := &ojg.Options{Sort: true, Color: true}
	omit := &ojg.Options{Sort: true, OmitNil: true}
	ind := &ojg.Options{Sort: true, Indent: 2}
	return []Op{
		{"alt.Decompose(holder)", "struct", func(a int) (string, []byte) { return canonStd(alt.Decompose(holderValue(a), omit)), nil }},
		{"alt.Decompose(holder list)", "struct", func(a int) (string, []byte) {
			return canonStd(alt.Decompose([]holder{holderValue(a), holderValue(a + 1)}, omit)), nil
		}},
		{"alt.Alter(holder)", "struct", func(a int) (string, []byte) { return canonStd(alt.Alter(holderValue(a), omit)), nil }},
		{"oj.JSON(holder,color)", "struct", func(a int) (string, []byte) { return oj.JSON(holderValue(a), col), nil }},
		{"sen.String(holder,color)", "struct", func(a int) (string, []byte) { return sen.String(holderValue(a), col), nil }},
		{"oj.JSON(holder)", "struct", func(a int) (string, []byte) { return oj.JSON(holderValue(a)), nil }},
		{"oj.JSON(holder,indent)", "struct", func(a int) (string, []byte) { return oj.JSON(holderValue(a), ind), nil }},
		{"oj.Marshal(holder)", "struct", func(a int) (string, []byte) {
			b, err := oj.Marshal(holderValue(a))
			return string(b) + errStr(err), b
		}},
		{"sen.String(holder)", "struct", func(a int) (string, []byte) { return sen.String(holderValue(a)), nil }},
		{"sen.String(holder,indent)", "struct", func(a int) (string, []byte) { return sen.String(holderValue(a), ind), nil }},
		{"pretty.JSON(holder)", "struct", func(a int) (string, []byte) { return pretty.JSON(holderValue(a), sortOpt), nil }},
		{"pretty.SEN(holder)", "struct", func(a int) (string, []byte) { return pretty.SEN(holderValue(a), sortOpt), nil }},
		{"alt.Generify(holder)", "struct", func(a int) (string, []byte) {
			n := alt.Generify(holderValue(a), omit)
			return canonStd(alt.Decompose(n)), nil
		}},
	}
}

// ---- reader front-ends: documents of several read buffers behind a reader that yields between reads ---------------
type slowReader struct {
	b []byte
	n int
}

func (r *slowReader) Read(p []byte) (int, error) {
	runtime.Gosched() // let other goroutines run between the refills, so that reader calls overlap
	if len(r.b) == 0 {
		return 0, io.EOF
	}
	n := r.n
	if n > len(r.b) {
		n = len(r.b)
	}
	if n > len(p) {
		n = len(p)
	}
	copy(p, r.b[:n])
	r.b = r.b[n:]
	return n, nil
}

// longDoc: a valid document of three or more 4096-byte buffers whose content identifies the argument everywhere.
func longDoc(arg int) []byte {
	var sb strings.Builder
	sb.WriteString(`{"id":` + fmt.Sprint(arg) + `,"rows":[`)
	for i := 0; i < 150+arg*7; i++ {
		if i > 0 {
			sb.WriteByte(',')
		}
		fmt.Fprintf(&sb, `{"i":%d,"w":"%s","v":[%d,%d.5,true,null]}`, i, strings.Repeat(string(rune('a'+arg%26)), 40+arg%13), arg, i)
	}
	sb.WriteString(`],"end":"` + strings.Repeat("z", arg%50) + `"}`)
	return []byte(sb.String())
}

func longSen(arg int) []byte {
	var sb strings.Builder
	sb.WriteString(`{id:` + fmt.Sprint(arg) + ` rows:[`)
	for i := 0; i < 150+arg*7; i++ {
		fmt.Fprintf(&sb, `{i:%d w:%s v:[%d %d.5 true null]} `, i, strings.Repeat(string(rune('a'+arg%26)), 40+arg%13), arg, i)
	}
	sb.WriteString(`] end:"` + strings.Repeat("z", arg%50) + `"}`)
	return []byte(sb.String())
}

func slow(b []byte, arg int) io.Reader { return &slowReader{b: b, n: 700 + 613*(arg%7)} }

func digestEvents(h *recHandler) string { return h.sb.String() }

func readerOps() []Op {
	target := jp.MustParseString("$.rows[*].w")
	matchAll := func(load func(r io.Reader, onData func(path jp.Expr, data any), targets ...jp.Expr) error, b []byte, a int) string {
		var sb strings.Builder
		n := 0
		err := load(slow(b, a), func(path jp.Expr, data any) {
			n++
			if n%25 == 1 {
				sb.WriteString(path.String() + "=" + fmt.Sprint(data) + ";")
			}
		}, target)
		return fmt.Sprint(n, " ", sb.String()) + errStr(err)
	}
	return []Op{
		{"oj.Load(slow)", "parse", func(a int) (string, []byte) {
			v, err := oj.Load(slow(longDoc(a), a))
			return canon(v) + errStr(err), nil
		}},
		{"oj.Parser.ParseReader(slow)", "pure", func(a int) (string, []byte) {
			p := oj.Parser{}
			v, err := p.ParseReader(slow(longDoc(a), a))
			return canon(v) + errStr(err), nil
		}},
		{"oj.ValidateReader(slow)", "pure", func(a int) (string, []byte) { return "ok" + errStr(oj.ValidateReader(slow(longDoc(a), a))), nil }},
		{"oj.ValidateReader(slow,bad)", "pure", func(a int) (string, []byte) {
			return "ok" + errStr(oj.ValidateReader(slow(append(longDoc(a), '}'), a))), nil
		}},
		{"oj.TokenizeLoad(slow)", "pure", func(a int) (string, []byte) {
			h := &recHandler{}
			err := oj.TokenizeLoad(slow(longDoc(a), a), h)
			return digestEvents(h) + errStr(err), nil
		}},
		{"oj.MatchLoad(slow)", "pure", func(a int) (string, []byte) { return matchAll(oj.MatchLoad, longDoc(a), a), nil }},
		{"gen.Parser.ParseReader(slow)", "pure", func(a int) (string, []byte) {
			p := gen.Parser{}
			n, err := p.ParseReader(slow(longDoc(a), a))
			if n == nil {
				return "nil" + errStr(err), nil
			}
			return canonStd(n.Simplify()) + errStr(err), nil
		}},
		{"sen.ParseReader(slow)", "parse", func(a int) (string, []byte) {
			v, err := sen.ParseReader(slow(longSen(a), a))
			return canon(v) + errStr(err), nil
		}},
		{"sen.Parser.ParseReader(slow)", "pure", func(a int) (string, []byte) {
			p := sen.Parser{}
			v, err := p.ParseReader(slow(longSen(a), a))
			return canon(v) + errStr(err), nil
		}},
		{"sen.TokenizeLoad(slow)", "pure", func(a int) (string, []byte) {
			h := &recHandler{}
			err := sen.TokenizeLoad(slow(longSen(a), a), h)
			return digestEvents(h) + errStr(err), nil
		}},
		{"sen.MatchLoad(slow)", "pure", func(a int) (string, []byte) { return matchAll(sen.MatchLoad, longSen(a), a), nil }},
		{"oj.Write(slow writer)", "json", func(a int) (string, []byte) {
			var b bytes.Buffer
			err := oj.Write(&yieldWriter{w: &b}, data(a), &ojg.Options{Sort: true, WriteLimit: 64})
			return b.String() + errStr(err), nil
		}},
		{"sen.Write(slow writer)", "json", func(a int) (string, []byte) {
			var b bytes.Buffer
			err := sen.Write(&yieldWriter{w: &b}, data(a), &ojg.Options{Sort: true, WriteLimit: 64})
			return b.String() + errStr(err), nil
		}},
	}
}

// yieldWriter yields between the partial writes of a writer with a small WriteLimit.
type yieldWriter struct{ w io.Writer }

func (y *yieldWriter) Write(p []byte) (int, error) {
	runtime.Gosched()
	return y.w.Write(p)
}

func init() {
	ops = append(ops, coldContainerOps()...)
	ops = append(ops, holderOps()...)
	ops = append(ops, readerOps()...)
}
