package main

// The API menu of C08.  Every op is a deterministic function of its argument index (which selects one
// of a few goroutine-private data sets), so that its sequential value can be computed once (conc ref)
// and compared with what the same call returns under concurrency.  Class = the API class of the model
// (spec/Concurrency.tla).

import (
	"bytes"
	"encoding/json"
	"fmt"
	"sort"
	"strings"

	"github.com/ohler55/ojg"
	"github.com/ohler55/ojg/alt"
	"github.com/ohler55/ojg/gen"
	"github.com/ohler55/ojg/jp"
	"github.com/ohler55/ojg/oj"
	"github.com/ohler55/ojg/pretty"
	"github.com/ohler55/ojg/sen"
)

type Op struct {
	Name  string
	Class string
	// Run returns the result as text and, for []byte results, the slice the caller now holds.
	Run func(arg int) (string, []byte)
}

const nArgs = 6

func data(arg int) any {
	a := arg % nArgs
	return map[string]any{
		"id":   a,
		"name": strings.Repeat(string(rune('a'+a)), 5+3*a),
		"list": []any{a, float64(a) + 0.5, true, nil, strings.Repeat("x", a)},
		"sub":  map[string]any{"k" + fmt.Sprint(a): []any{map[string]any{"x": a, "y": a * 2}, map[string]any{"x": a + 2, "y": "s"}}},
	}
}

func doc(arg int) []byte {
	b, _ := json.Marshal(data(arg))
	return b
}

func senDoc(arg int) []byte {
	a := arg % nArgs
	return []byte(fmt.Sprintf("{id:%d name:%s list:[%d 'q%d' true null] sub:{k:[{x:%d}]}}", a, strings.Repeat(string(rune('a'+a)), 4+a), a, a, a))
}

// canon renders a parsed value independently of ojg (encoding/json sorts map keys).
func canon(v any) string {
	b, err := json.Marshal(alt.Decompose(v))
	if err != nil {
		return "unencodable: " + err.Error()
	}
	return string(b)
}

func canonStd(v any) string {
	b, err := json.Marshal(v)
	if err != nil {
		return "unencodable: " + err.Error()
	}
	return string(b)
}

var sortOpt = &ojg.Options{Sort: true}

// shared, read-only after init: expressions, filters, scripts, recomposer
var (
	xGet    = jp.MustParseString("$.sub.*[?(@.x > 1)].y")
	xFirst  = jp.MustParseString("$.list[1]")
	xSet    = jp.MustParseString("$.sub.*[*].z")
	xDel    = jp.MustParseString("$.list[0]")
	xDesc   = jp.MustParseString("$..x")
	xScript = jp.MustNewScript("(@.x > 1 && @.y != 's')")
	xFilter = jp.MustParseString("$.sub.*[?(@.y == 's')]")
	recomp  *alt.Recomposer
)

type recHandler struct{ sb strings.Builder }

func (h *recHandler) Null()           { h.sb.WriteString("n,") }
func (h *recHandler) Bool(b bool)     { fmt.Fprintf(&h.sb, "b%v,", b) }
func (h *recHandler) Int(i int64)     { fmt.Fprintf(&h.sb, "i%d,", i) }
func (h *recHandler) Float(f float64) { fmt.Fprintf(&h.sb, "f%v,", f) }
func (h *recHandler) Number(s string) { h.sb.WriteString("N" + s + ",") }
func (h *recHandler) String(s string) { h.sb.WriteString("s" + s + ",") }
func (h *recHandler) ObjectStart()    { h.sb.WriteString("{") }
func (h *recHandler) ObjectEnd()      { h.sb.WriteString("}") }
func (h *recHandler) Key(s string)    { h.sb.WriteString("k" + s + ":") }
func (h *recHandler) ArrayStart()     { h.sb.WriteString("[") }
func (h *recHandler) ArrayEnd()       { h.sb.WriteString("]") }

func errStr(err error) string {
	if err != nil {
		return " err:" + err.Error()
	}
	return ""
}

func sortedKeys(m map[string]any) []string {
	ks := make([]string, 0, len(m))
	for k := range m {
		ks = append(ks, k)
	}
	sort.Strings(ks)
	return ks
}

var ops []Op

func init() {
	comps := map[any]alt.RecomposeFunc{}
	for _, m := range structMakers {
		comps[m(0)] = nil
	}
	var err error
	if recomp, err = alt.NewRecomposer("type", comps); err != nil {
		panic(err)
	}
	single := func(arg int) any {
		return []any{arg % nArgs, strings.Repeat("s", 3+arg%nArgs), map[string]any{"only": data(arg).(map[string]any)["list"]}}
	}
	ops = []Op{
		// ---- pooled writers: result copied (string / caller's io.Writer)
		{"oj.JSON", "json", func(a int) (string, []byte) { return oj.JSON(single(a)), nil }},
		{"oj.Write", "json", func(a int) (string, []byte) {
			var b bytes.Buffer
			err := oj.Write(&b, single(a))
			return b.String() + errStr(err), nil
		}},
		{"sen.String", "json", func(a int) (string, []byte) { return sen.String(single(a)), nil }},
		{"sen.Write", "json", func(a int) (string, []byte) {
			var b bytes.Buffer
			err := sen.Write(&b, single(a))
			return b.String() + errStr(err), nil
		}},
		// ---- pooled writer, []byte result
		{"oj.Marshal", "marshal", func(a int) (string, []byte) {
			b, err := oj.Marshal(single(a))
			return string(b) + errStr(err), b
		}},
		{"sen.Bytes", "bytes", func(a int) (string, []byte) {
			b := sen.Bytes(single(a))
			return string(b), b
		}},
		// ---- pooled parsers
		{"oj.Parse", "parse", func(a int) (string, []byte) {
			v, err := oj.Parse(doc(a))
			return canon(v) + errStr(err), nil
		}},
		{"oj.ParseString", "parse", func(a int) (string, []byte) {
			v, err := oj.ParseString(string(doc(a)))
			return canon(v) + errStr(err), nil
		}},
		{"oj.Load", "parse", func(a int) (string, []byte) {
			v, err := oj.Load(bytes.NewReader(doc(a)))
			return canon(v) + errStr(err), nil
		}},
		{"sen.Parse", "parse", func(a int) (string, []byte) {
			v, err := sen.Parse(senDoc(a))
			return canon(v) + errStr(err), nil
		}},
		{"sen.ParseReader", "parse", func(a int) (string, []byte) {
			v, err := sen.ParseReader(bytes.NewReader(senDoc(a)))
			return canon(v) + errStr(err), nil
		}},
		{"oj.Parse(bad)", "parse", func(a int) (string, []byte) {
			v, err := oj.Parse(append(doc(a), ']'))
			return canon(v) + errStr(err), nil
		}},
		{"sen.Parse(bad)", "parse", func(a int) (string, []byte) {
			v, err := sen.Parse(append(senDoc(a), []byte(" ]")...))
			return canon(v) + errStr(err), nil
		}},
		// ---- struct-info caches (first use of a type fills the cache)
		{"oj.JSON(struct)", "struct", func(a int) (string, []byte) { return oj.JSON(structMakers[a%len(structMakers)](a)), nil }},
		{"oj.Marshal(struct)", "struct", func(a int) (string, []byte) {
			b, err := oj.Marshal(structMakers[(a+5)%len(structMakers)](a))
			return string(b) + errStr(err), b
		}},
		{"sen.String(struct)", "struct", func(a int) (string, []byte) { return sen.String(structMakers[(a+3)%len(structMakers)](a)), nil }},
		{"alt.Decompose(struct)", "struct", func(a int) (string, []byte) {
			return canonStd(alt.Decompose(structMakers[(a+7)%len(structMakers)](a))), nil
		}},
		{"alt.Decompose(struct,omitempty)", "struct", func(a int) (string, []byte) {
			return canonStd(alt.Decompose(structMakers[(a+11)%len(structMakers)](0), &ojg.Options{OmitEmpty: true, CreateKey: "type"})), nil
		}},
		{"pretty.JSON(struct)", "struct", func(a int) (string, []byte) {
			return pretty.JSON(structMakers[(a+13)%len(structMakers)](a), sortOpt), nil
		}},
		// ---- recomposer with pre-registered types
		{"Recomposer.Recompose", "recompose", func(a int) (string, []byte) {
			src := structMakers[a%len(structMakers)](a)
			dec := alt.Decompose(src, &ojg.Options{CreateKey: "type"})
			out, err := recomp.Recompose(dec)
			return fmt.Sprintf("%T %+v", out, out) + errStr(err), nil
		}},
		// ---- no shared mutable state at all
		{"oj.Validate", "pure", func(a int) (string, []byte) { return "ok" + errStr(oj.Validate(doc(a))), nil }},
		{"oj.Validate(bad)", "pure", func(a int) (string, []byte) { return "ok" + errStr(oj.Validate(append(doc(a), '}'))), nil }},
		{"oj.Tokenize", "pure", func(a int) (string, []byte) {
			h := &recHandler{}
			err := oj.Tokenize(doc(a), h)
			return h.sb.String() + errStr(err), nil
		}},
		{"sen.Tokenize", "pure", func(a int) (string, []byte) {
			h := &recHandler{}
			err := sen.Tokenize(senDoc(a), h)
			return h.sb.String() + errStr(err), nil
		}},
		{"pretty.JSON", "pure", func(a int) (string, []byte) { return pretty.JSON(data(a), sortOpt, 40), nil }},
		{"pretty.SEN", "pure", func(a int) (string, []byte) { return pretty.SEN(data(a), sortOpt, 30), nil }},
		{"oj.JSON(opts)", "pure", func(a int) (string, []byte) { return oj.JSON(data(a), sortOpt), nil }},
		{"oj.Marshal(opts)", "pure", func(a int) (string, []byte) {
			b, err := oj.Marshal(data(a), sortOpt)
			return string(b) + errStr(err), b
		}},
		{"sen.String(opts)", "pure", func(a int) (string, []byte) { return sen.String(data(a), sortOpt), nil }},
		{"alt.Generify", "pure", func(a int) (string, []byte) {
			n := alt.Generify(data(a))
			return canonStd(n.(gen.Object).Simplify()), nil
		}},
		{"alt.Decompose", "pure", func(a int) (string, []byte) { return canonStd(alt.Decompose(data(a))), nil }},
		{"jp.Expr.Get", "pure", func(a int) (string, []byte) { return canonStd(xGet.Get(data(a))), nil }},
		{"jp.Expr.First", "pure", func(a int) (string, []byte) { return canonStd(xFirst.First(data(a))), nil }},
		{"jp.Expr.Get(descent)", "pure", func(a int) (string, []byte) { return fmt.Sprint(len(xDesc.Get(data(a)))), nil }},
		{"jp.Expr.Get(filter)", "pure", func(a int) (string, []byte) { return canonStd(xFilter.Get(data(a))), nil }},
		{"jp.Expr.Set", "pure", func(a int) (string, []byte) {
			d := data(a)
			err := xSet.Set(d, a)
			return canonStd(d) + errStr(err), nil
		}},
		{"jp.Expr.Del", "pure", func(a int) (string, []byte) {
			d := data(a)
			err := xDel.Del(d)
			return canonStd(d) + errStr(err), nil
		}},
		{"jp.Expr.Modify", "pure", func(a int) (string, []byte) {
			d := data(a)
			_, err := xDesc.Modify(d, func(e any) (any, bool) { return fmt.Sprint("m", e), true })
			return canonStd(d) + errStr(err), nil
		}},
		{"jp.Script.Eval", "pure", func(a int) (string, []byte) {
			list := []any{map[string]any{"x": a, "y": a}, map[string]any{"x": a + 2, "y": "s"}, map[string]any{"x": 5, "y": 1}}
			return canonStd(xScript.Eval([]any{}, list)), nil
		}},
	}
}

func opByName(n string) *Op {
	for i := range ops {
		if ops[i].Name == n {
			return &ops[i]
		}
	}
	return nil
}

func opsOfClass(c string) []*Op {
	var r []*Op
	for i := range ops {
		if ops[i].Class == c {
			r = append(r, &ops[i])
		}
	}
	return r
}
