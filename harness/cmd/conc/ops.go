package main

// The API menu of C08.  Every op is a deterministic function of its argument index (which selects one
// of a few goroutine-private data sets), so that its sequential value can be computed once (conc ref)
// and compared with what the same call returns under concurrency.  Class = the API class of the model
// (spec/Concurrency.tla).

import (
	"bytes"
	"crypto/sha1"
	"encoding/json"
	"fmt"
	"sort"
	"strings"

	"github.com/ohler55/ojg"
	"github.com/ohler55/ojg/alt"
	"github.com/ohler55/ojg/gen"
	"github.com/ohler55/ojg/jp"
	"github.com/ohler55/ojg/oj"
	"github.com/ohler55/ojg/pretty"
	"github.com/ohler55/ojg/sen"
)

type Op struct {
	Name  string
	Class string
	// Run returns the result as text and, for []byte results, the slice the caller now holds.
	Run func(arg int) (string, []byte)
}

const nArgs = 6

func data(arg int) any {
	a := arg % nArgs
	return map[string]any{
		"id":   a,
		"name": strings.Repeat(string(rune('a'+a)), 5+3*a),
		"esc":  esc(arg),
		// strings for the regular expressions given as STRING operands (=~, ~=, match(), search()): the patterns of
		// xRx select different subsets, and the subsets differ from data set to data set
		"words": []any{
			map[string]any{"s": "apple" + fmt.Sprint(a)}, map[string]any{"s": "banana"}, map[string]any{"s": "cab" + strings.Repeat("b", a%3)},
			map[string]any{"s": "abc"}, map[string]any{"s": "x" + fmt.Sprint(a)}, map[string]any{"s": strings.Repeat("c", a%2) + "bb"},
			map[string]any{"s": "anna" + strings.Repeat("a", a%2)}, map[string]any{"n": a},
		},
		"list": []any{a, float64(a) + 0.5, true, nil, strings.Repeat("x", a)},
		"sub":  map[string]any{"k" + fmt.Sprint(a): []any{map[string]any{"x": a, "y": a * 2}, map[string]any{"x": a + 2, "y": "s"}}},
		// operands of the shared filters: which rows match differs from data set to data set
		"rows": []any{
			map[string]any{"n": 1, "vals": []any{a, a + 1, 7 - a}, "lim": []any{a, 9 - a}, "tags": []any{"t" + fmt.Sprint(a), "x"}, "kids": []any{map[string]any{"x": a}, map[string]any{"x": 3}}},
			map[string]any{"n": 2, "vals": []any{3, 4 + a%2, 5}, "lim": []any{a % 3}, "tags": []any{"y"}, "kids": []any{map[string]any{"x": 2 + a%2}}},
			map[string]any{"n": 3, "vals": []any{}, "lim": []any{}, "tags": []any{}, "kids": []any{}},
			map[string]any{"n": 4, "vals": []any{a * 2, 1, 2, 3, 6}, "lim": []any{4, a}, "tags": []any{"x", "y", "t3"}, "kids": []any{map[string]any{"x": a + 1}, map[string]any{"x": a - 1}}},
		},
	}
}

// Size thresholds matter in this code base (1024 WriteLimit, 4096 read buffer and pooled-buffer sizes,
// 64 kB): the argument also selects a size class, and within a class the six data sets straddle the threshold.
var thresholds = []int{0, 1024, 4096, 65536}

func pad(arg int) string {
	cls := (arg / nArgs) % len(thresholds)
	if cls == 0 {
		return ""
	}
	n := thresholds[cls] - 90 + 36*(arg%nArgs) // -90 .. +90 around the threshold
	return strings.Repeat(string(rune('A'+arg%nArgs)), n)
}

// esc returns a string full of bytes that every writer emits as \u00XX (control characters other than
// \b \t \n \f \r, 0x7f) and of < > & (escaped by the HTML-safe writers such as oj.Marshal).  The byte differs from
// data set to data set, so two goroutines that encode at the same time write DIFFERENT escapes: a scratch
// shared between writers tears visibly.  Odd data sets get 200 of them, even ones 6 (so that the size classes
// still straddle their thresholds).
func esc(arg int) string {
	a := arg % nArgs
	n := 6
	if a%2 == 1 {
		n = 200
	}
	return strings.Repeat(string([]byte{byte(1 + a), byte(14 + a)}), n/2) + "<&>\x7f" + string([]byte{byte(0x1a + a)}) + "&<"
}

// short keeps traces small: long texts are logged as length + digest + head (TLC only compares for equality).
func short(s string) string {
	if len(s) <= 160 {
		return s
	}
	return fmt.Sprintf("#%d:%x:%s", len(s), sha1.Sum([]byte(s)), s[:48])
}

func doc(arg int) []byte {
	d := data(arg).(map[string]any)
	if p := pad(arg); p != "" {
		d["pad"] = p
	}
	b, _ := json.Marshal(d)
	return b
}

func senDoc(arg int) []byte {
	a := arg % nArgs
	return []byte(fmt.Sprintf("{id:%d name:%s list:[%d 'q%d' true null] sub:{k:[{x:%d}]} pad:%q}", a, strings.Repeat(string(rune('a'+a)), 4+a), a, a, a, pad(arg)))
}

// canon renders a parsed value independently of ojg (encoding/json sorts map keys).
func canon(v any) string {
	b, err := json.Marshal(alt.Decompose(v))
	if err != nil {
		return "unencodable: " + err.Error()
	}
	return string(b)
}

func canonStd(v any) string {
	b, err := json.Marshal(v)
	if err != nil {
		return "unencodable: " + err.Error()
	}
	return string(b)
}

var sortOpt = &ojg.Options{Sort: true}

// shared, read-only after init: expressions, filters, scripts, recomposer
var (
	xGet    = jp.MustParseString("$.sub.*[?(@.x > 1)].y")
	xFirst  = jp.MustParseString("$.list[1]")
	xSet    = jp.MustParseString("$.sub.*[*].z")
	xDel    = jp.MustParseString("$.list[0]")
	xDesc   = jp.MustParseString("$..x")
	xScript = jp.MustNewScript("(@.x > 1 && @.y != 's')")
	xFilter = jp.MustParseString("$.sub.*[?(@.y == 's')]")
	recomp  *alt.Recomposer
	// only the top-level N-types are registered; their nested struct types hang behind []*T, map[string]*T, **T
	recompNested  *alt.Recomposer
	recompNested2 *alt.Recomposer // top-level types whose nested struct types hang behind two container levels
	// shared expressions whose filters have multi-valued operands (wildcard, slice, union, nested filter,
	// descent) on the left, on the right and on both sides
	xMulti = []jp.Expr{
		jp.MustParseString("$.rows[?(@.vals[*] == 3)].n"),
		jp.MustParseString("$.rows[?(@.vals[1:3] > 4)].n"),
		jp.MustParseString("$.rows[?(@.vals[0,2] < @.lim[*])].n"),
		jp.MustParseString("$.rows[?(@.kids[?(@.x > 1)].x == 3)].n"),
		jp.MustParseString("$.rows[?(@.tags[*] in ['x','t2','t4'])].n"),
		jp.MustParseString("$.rows[?(3 == @.vals[*])].n"),
		jp.MustParseString("$..[?(@.vals[*] > 6)].n"),
		jp.MustParseString("$.rows[?(@.vals[*] > 2 && @.lim[*] < 5)].n"),
	}
	xMultiScript = jp.MustNewScript("(@.vals[*] > 2 && @.lim[1:] < 5)")
	// shared expressions whose regular expressions are STRING operands (compiled at evaluation time), all different
	xRx = []jp.Expr{
		jp.MustParseString("$.words[?(@.s =~ '^a')].s"),
		jp.MustParseString("$.words[?(@.s ~= 'an+a')].s"),
		jp.MustParseString("$.words[?match(@.s, 'b.*')].s"),
		jp.MustParseString("$.words[?search(@.s, 'c')].s"),
		jp.MustParseString("$.words[?(@.s =~ 'x[0-9]$')].s"),
		jp.MustParseString("$.words[?search(@.s, '^[a-c]{3}')].s"),
		jp.MustParseString("$.words[?match(@.s, 'c?b+')].s"),
		jp.MustParseString("$.words[?(@.s =~ 'a$' || @.s =~ '^b')].s"),
	}
)

type recHandler struct{ sb strings.Builder }

func (h *recHandler) Null()           { h.sb.WriteString("n,") }
func (h *recHandler) Bool(b bool)     { fmt.Fprintf(&h.sb, "b%v,", b) }
func (h *recHandler) Int(i int64)     { fmt.Fprintf(&h.sb, "i%d,", i) }
func (h *recHandler) Float(f float64) { fmt.Fprintf(&h.sb, "f%v,", f) }
func (h *recHandler) Number(s string) { h.sb.WriteString("N" + s + ",") }
func (h *recHandler) String(s string) { h.sb.WriteString("s" + s + ",") }
func (h *recHandler) ObjectStart()    { h.sb.WriteString("{") }
func (h *recHandler) ObjectEnd()      { h.sb.WriteString("}") }
func (h *recHandler) Key(s string)    { h.sb.WriteString("k" + s + ":") }
func (h *recHandler) ArrayStart()     { h.sb.WriteString("[") }
func (h *recHandler) ArrayEnd()       { h.sb.WriteString("]") }

func errStr(err error) string {
	if err != nil {
		return " err:" + err.Error()
	}
	return ""
}

func sortedKeys(m map[string]any) []string {
	ks := make([]string, 0, len(m))
	for k := range m {
		ks = append(ks, k)
	}
	sort.Strings(ks)
	return ks
}

var ops []Op

func init() {
	comps := map[any]alt.RecomposeFunc{}
	for _, m := range structMakers {
		comps[m(0)] = nil
	}
	var err error
	if recomp, err = alt.NewRecomposer("type", comps); err != nil {
		panic(err)
	}
	ncomps := map[any]alt.RecomposeFunc{}
	for _, m := range nestedMakers {
		ncomps[m(0)] = nil
	}
	if recompNested, err = alt.NewRecomposer("type", ncomps); err != nil {
		panic(err)
	}
	n2comps := map[any]alt.RecomposeFunc{}
	for _, m := range nested2Makers {
		n2comps[m(0)] = nil
	}
	if recompNested2, err = alt.NewRecomposer("type", n2comps); err != nil {
		panic(err)
	}
	withKey := &ojg.Options{CreateKey: "type"}
	rxop := func(name string, f func(x jp.Expr, d any) string) Op {
		return Op{name, "pure", func(a int) (string, []byte) { return f(xRx[a%len(xRx)], data(a/3)), nil }}
	}
	for _, m := range structMakers { // the process-wide recomposer: types registered BEFORE any goroutine starts
		if err = alt.DefaultRecomposer.RegisterComposer(m(0), nil); err != nil {
			panic(err)
		}
	}
	multi := func(name string, f func(x jp.Expr, d any) string) Op {
		return Op{name, "pure", func(a int) (string, []byte) { return f(xMulti[a%len(xMulti)], data(a/2)), nil }}
	}
	single := func(arg int) any {
		return []any{arg % nArgs, strings.Repeat("s", 3+arg%nArgs), map[string]any{"only": data(arg).(map[string]any)["list"]}, esc(arg), pad(arg)}
	}
	ops = []Op{
		// ---- pooled writers: result copied (string / caller's io.Writer)
		{"oj.JSON", "json", func(a int) (string, []byte) { return oj.JSON(single(a)), nil }},
		{"oj.Write", "json", func(a int) (string, []byte) {
			var b bytes.Buffer
			err := oj.Write(&b, single(a))
			return b.String() + errStr(err), nil
		}},
		{"sen.String", "json", func(a int) (string, []byte) { return sen.String(single(a)), nil }},
		{"sen.Write", "json", func(a int) (string, []byte) {
			var b bytes.Buffer
			err := sen.Write(&b, single(a))
			return b.String() + errStr(err), nil
		}},
		// ---- pooled writer, []byte result
		{"oj.Marshal", "marshal", func(a int) (string, []byte) {
			b, err := oj.Marshal(single(a))
			return string(b) + errStr(err), b
		}},
		{"sen.Bytes", "bytes", func(a int) (string, []byte) {
			b := sen.Bytes(single(a))
			return string(b), b
		}},
		// ---- pooled parsers
		{"oj.Parse", "parse", func(a int) (string, []byte) {
			v, err := oj.Parse(doc(a))
			return canon(v) + errStr(err), nil
		}},
		{"oj.ParseString", "parse", func(a int) (string, []byte) {
			v, err := oj.ParseString(string(doc(a)))
			return canon(v) + errStr(err), nil
		}},
		{"oj.Load", "parse", func(a int) (string, []byte) {
			v, err := oj.Load(bytes.NewReader(doc(a)))
			return canon(v) + errStr(err), nil
		}},
		{"sen.Parse", "parse", func(a int) (string, []byte) {
			v, err := sen.Parse(senDoc(a))
			return canon(v) + errStr(err), nil
		}},
		{"sen.ParseReader", "parse", func(a int) (string, []byte) {
			v, err := sen.ParseReader(bytes.NewReader(senDoc(a)))
			return canon(v) + errStr(err), nil
		}},
		{"oj.Parse(bad)", "parse", func(a int) (string, []byte) {
			v, err := oj.Parse(append(doc(a), ']'))
			return canon(v) + errStr(err), nil
		}},
		{"sen.Parse(bad)", "parse", func(a int) (string, []byte) {
			v, err := sen.Parse(append(senDoc(a), []byte(" ]")...))
			return canon(v) + errStr(err), nil
		}},
		// ---- struct-info caches (first use of a type fills the cache)
		{"oj.JSON(struct)", "struct", func(a int) (string, []byte) { return oj.JSON(structMakers[a%len(structMakers)](a)), nil }},
		{"oj.Marshal(struct)", "struct", func(a int) (string, []byte) {
			b, err := oj.Marshal(structMakers[(a+5)%len(structMakers)](a))
			return string(b) + errStr(err), b
		}},
		{"sen.String(struct)", "struct", func(a int) (string, []byte) { return sen.String(structMakers[(a+3)%len(structMakers)](a)), nil }},
		{"alt.Decompose(struct)", "struct", func(a int) (string, []byte) {
			return canonStd(alt.Decompose(structMakers[(a+7)%len(structMakers)](a))), nil
		}},
		{"alt.Decompose(struct,omitempty)", "struct", func(a int) (string, []byte) {
			return canonStd(alt.Decompose(structMakers[(a+11)%len(structMakers)](0), &ojg.Options{OmitEmpty: true, CreateKey: "type"})), nil
		}},
		{"pretty.JSON(struct)", "struct", func(a int) (string, []byte) {
			return pretty.JSON(structMakers[(a+13)%len(structMakers)](a), sortOpt), nil
		}},
		// ---- recomposer with pre-registered types
		{"Recomposer.Recompose", "recompose", func(a int) (string, []byte) {
			src := structMakers[a%len(structMakers)](a)
			dec := alt.Decompose(src, &ojg.Options{CreateKey: "type"})
			out, err := recomp.Recompose(dec)
			return fmt.Sprintf("%T %+v", out, out) + errStr(err), nil
		}},
		// ---- no shared mutable state at all
		{"oj.Validate", "pure", func(a int) (string, []byte) { return "ok" + errStr(oj.Validate(doc(a))), nil }},
		{"oj.Validate(bad)", "pure", func(a int) (string, []byte) { return "ok" + errStr(oj.Validate(append(doc(a), '}'))), nil }},
		{"oj.Tokenize", "pure", func(a int) (string, []byte) {
			h := &recHandler{}
			err := oj.Tokenize(doc(a), h)
			return h.sb.String() + errStr(err), nil
		}},
		{"sen.Tokenize", "pure", func(a int) (string, []byte) {
			h := &recHandler{}
			err := sen.Tokenize(senDoc(a), h)
			return h.sb.String() + errStr(err), nil
		}},
		{"pretty.JSON", "pure", func(a int) (string, []byte) { return pretty.JSON(data(a), sortOpt, 40), nil }},
		{"pretty.SEN", "pure", func(a int) (string, []byte) { return pretty.SEN(data(a), sortOpt, 30), nil }},
		{"oj.JSON(opts)", "pure", func(a int) (string, []byte) { return oj.JSON(data(a), sortOpt), nil }},
		{"oj.Marshal(opts)", "pure", func(a int) (string, []byte) {
			b, err := oj.Marshal(data(a), sortOpt)
			return string(b) + errStr(err), b
		}},
		{"sen.String(opts)", "pure", func(a int) (string, []byte) { return sen.String(data(a), sortOpt), nil }},
		{"alt.Generify", "pure", func(a int) (string, []byte) {
			n := alt.Generify(data(a))
			return canonStd(n.(gen.Object).Simplify()), nil
		}},
		{"alt.Decompose", "pure", func(a int) (string, []byte) { return canonStd(alt.Decompose(data(a))), nil }},
		{"jp.Expr.Get", "pure", func(a int) (string, []byte) { return canonStd(xGet.Get(data(a))), nil }},
		{"jp.Expr.First", "pure", func(a int) (string, []byte) { return canonStd(xFirst.First(data(a))), nil }},
		{"jp.Expr.Get(descent)", "pure", func(a int) (string, []byte) { return fmt.Sprint(len(xDesc.Get(data(a)))), nil }},
		{"jp.Expr.Get(filter)", "pure", func(a int) (string, []byte) { return canonStd(xFilter.Get(data(a))), nil }},
		{"jp.Expr.Set", "pure", func(a int) (string, []byte) {
			d := data(a)
			err := xSet.Set(d, a)
			return canonStd(d) + errStr(err), nil
		}},
		{"jp.Expr.Del", "pure", func(a int) (string, []byte) {
			d := data(a)
			err := xDel.Del(d)
			return canonStd(d) + errStr(err), nil
		}},
		{"jp.Expr.Modify", "pure", func(a int) (string, []byte) {
			d := data(a)
			_, err := xDesc.Modify(d, func(e any) (any, bool) { return fmt.Sprint("m", e), true })
			return canonStd(d) + errStr(err), nil
		}},
		{"jp.Script.Eval", "pure", func(a int) (string, []byte) {
			list := []any{map[string]any{"x": a, "y": a}, map[string]any{"x": a + 2, "y": "s"}, map[string]any{"x": 5, "y": 1}}
			return canonStd(xScript.Eval([]any{}, list)), nil
		}},
		// ---- shared expressions with multi-valued filter operands, every way of using them
		multi("jp.Get(multi)", func(x jp.Expr, d any) string { return canonStd(x.Get(d)) }),
		multi("jp.First(multi)", func(x jp.Expr, d any) string { return canonStd(x.First(d)) }),
		multi("jp.Has(multi)", func(x jp.Expr, d any) string { return fmt.Sprint(x.Has(d)) }),
		multi("jp.Locate(multi)", func(x jp.Expr, d any) string {
			var sb strings.Builder
			for _, loc := range x.Locate(d, 0) {
				sb.WriteString(loc.String() + ";")
			}
			return sb.String()
		}),
		multi("jp.Walk(multi)", func(x jp.Expr, d any) string {
			var sb strings.Builder
			x.Walk(d, func(path jp.Expr, nodes []any) {
				sb.WriteString(path.String() + "=" + canonStd(nodes[len(nodes)-1]) + ";")
			})
			return sb.String()
		}),
		multi("jp.Set(multi)", func(x jp.Expr, d any) string {
			err := x.Set(d, "set")
			return canonStd(d) + errStr(err)
		}),
		multi("jp.Del(multi)", func(x jp.Expr, d any) string {
			err := x.Del(d)
			return canonStd(d) + errStr(err)
		}),
		multi("jp.Modify(multi)", func(x jp.Expr, d any) string {
			_, err := x.Modify(d, func(e any) (any, bool) { return fmt.Sprint("m", e), true })
			return canonStd(d) + errStr(err)
		}),
		{"jp.Script.Eval(multi)", "pure", func(a int) (string, []byte) {
			return canonStd(xMultiScript.Eval([]any{}, data(a).(map[string]any)["rows"])), nil
		}},
		// ---- shared expressions with regular expressions given as string operands
		rxop("jp.Get(rx)", func(x jp.Expr, d any) string { return canonStd(x.Get(d)) }),
		rxop("jp.First(rx)", func(x jp.Expr, d any) string { return canonStd(x.First(d)) }),
		rxop("jp.Has(rx)", func(x jp.Expr, d any) string { return fmt.Sprint(x.Has(d)) }),
		rxop("jp.Locate(rx)", func(x jp.Expr, d any) string {
			var sb strings.Builder
			for _, loc := range x.Locate(d, 0) {
				sb.WriteString(loc.String() + ";")
			}
			return sb.String()
		}),
		rxop("jp.Walk(rx)", func(x jp.Expr, d any) string {
			var sb strings.Builder
			x.Walk(d, func(path jp.Expr, nodes []any) {
				sb.WriteString(path.String() + "=" + canonStd(nodes[len(nodes)-1]) + ";")
			})
			return sb.String()
		}),
		rxop("jp.Remove(rx)", func(x jp.Expr, d any) string {
			out, err := x.Remove(d)
			return canonStd(out.(map[string]any)["words"]) + errStr(err)
		}),
		rxop("jp.Modify(rx)", func(x jp.Expr, d any) string {
			_, err := x.Modify(d, func(e any) (any, bool) { return fmt.Sprint("m", e), true })
			return canonStd(d.(map[string]any)["words"]) + errStr(err)
		}),
		// ---- remaining package-level state: the process-wide recomposer (warmed up), gen nodes (gen.Sort, gen.TimeFormat)
		{"alt.Recompose(default)", "recompose", func(a int) (string, []byte) {
			src := structMakers[(a+2)%len(structMakers)](a)
			out, err := alt.Recompose(alt.Decompose(src, withKey), structMakers[(a+2)%len(structMakers)](0))
			return fmt.Sprintf("%T %+v", out, out) + errStr(err), nil
		}},
		{"oj.JSON(gen)", "json", func(a int) (string, []byte) { return oj.JSON(alt.Generify([]any{a % nArgs, esc(a), pad(a)})), nil }},
		{"sen.String(gen)", "json", func(a int) (string, []byte) { return sen.String(alt.Generify([]any{a % nArgs, esc(a), pad(a)})), nil }},
		{"gen.Parser.Parse", "pure", func(a int) (string, []byte) {
			p := gen.Parser{}
			n, err := p.Parse(doc(a))
			if n == nil {
				return "nil" + errStr(err), nil
			}
			return canonStd(n.Simplify()) + errStr(err), nil
		}},
		// ---- recomposer: nested struct types behind containers of pointers, only the top level registered
		{"Recomposer.Recompose(nested)", "recompose", func(a int) (string, []byte) {
			src := nestedMakers[a%len(nestedMakers)](a)
			out, err := recompNested.Recompose(alt.Decompose(src, withKey))
			return fmt.Sprintf("%T ", out) + canonStd(alt.Decompose(out, withKey)) + errStr(err), nil
		}},
		{"Recomposer.Recompose(nested,target)", "recompose", func(a int) (string, []byte) {
			src := nestedMakers[(a+3)%len(nestedMakers)](a)
			dst := nestedMakers[(a+3)%len(nestedMakers)](0)
			out, err := recompNested.Recompose(alt.Decompose(src), dst)
			return fmt.Sprintf("%T ", out) + canonStd(alt.Decompose(out, withKey)) + errStr(err), nil
		}},
		{"Recomposer.Recompose(nested2)", "recompose", func(a int) (string, []byte) {
			src := nested2Makers[a%len(nested2Makers)](a)
			out, err := recompNested2.Recompose(alt.Decompose(src, withKey))
			return fmt.Sprintf("%T ", out) + canonStd(alt.Decompose(out, withKey)) + errStr(err), nil
		}},
		// ---- more buffer-returning calls (private writers: immune, but held and re-inspected like the others)
		{"pretty.Writer.Marshal", "pure", func(a int) (string, []byte) {
			w := pretty.Writer{Options: ojg.DefaultOptions, Width: 80, MaxDepth: 3}
			w.Sort = true
			b, err := w.Marshal(single(a))
			return string(b) + errStr(err), b
		}},
		{"pretty.Writer.Encode", "pure", func(a int) (string, []byte) {
			w := pretty.Writer{Options: ojg.DefaultOptions, Width: 60, MaxDepth: 2, SEN: true}
			w.Sort = true
			b := w.Encode(single(a))
			return string(b), b
		}},
		{"oj.Marshal(indent arg)", "pure", func(a int) (string, []byte) {
			b, err := oj.Marshal(single(a), 2)
			return string(b) + errStr(err), b
		}},
		{"sen.Bytes(opts)", "pure", func(a int) (string, []byte) {
			b := sen.Bytes(single(a), sortOpt)
			return string(b), b
		}},
	}
}

func opByName(n string) *Op {
	for i := range ops {
		if ops[i].Name == n {
			return &ops[i]
		}
	}
	return nil
}

func opsOfClass(c string) []*Op {
	var r []*Op
	for i := range ops {
		if ops[i].Class == c {
			r = append(r, &ops[i])
		}
	}
	return r
}
