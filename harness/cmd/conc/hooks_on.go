//go:build verifhooks

package main

// Compiled only when props/C08.py found the verif hooks in the ojg tree (findings/C08-hooks.patch applied).

import (
	"github.com/ohler55/ojg/alt"
	"github.com/ohler55/ojg/oj"
	"github.com/ohler55/ojg/sen"
)

const hooksCompiled = true

func installHooks(f func(point string, inst any)) {
	oj.VerifHook = f
	sen.VerifHook = f
	alt.VerifHook = f
}
