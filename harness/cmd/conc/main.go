// Command conc is the C08 driver.  It never decides anything: it forces or samples schedules on the real
// code and records what happened; TLC (spec/TraceConcurrency.tla) judges the records with the invariants
// of spec/Concurrency.tla.
//
//	ops                         -> the API menu [{name, class}]
//	ref                         -> {"op|arg": sequential result}: every op run alone, in a fresh process
//	sched -ref F                stdin: ndjson {prog: [[class..] per goroutine], sched: [g..]} chosen by TLC
//	                            stdout: one trace line per schedule; runs under GOMAXPROCS(1) with strict
//	                            hand-off: goroutines are parked before every call and - when ojg was built
//	                            with the verif hooks (-tags verif,verifhooks) - after every pool.Get / pool.Put
//	free -ref F -n N -ops M -runs R   free-running goroutines (build with -race), seeded by VERIF_SEED
//
// events: {e:get|put, g, i: instance, p: pool} {e:lock|fill|unlock, g, m: package}
//
//	{e:ret, g, c: call index, op, cls, res, seq: sequential reference, ref: id of the returned buffer or 0}
//	{e:look, g, c, now}  the value handed out by call c of g, re-inspected later
package main

import (
	"bufio"
	"encoding/json"
	"flag"
	"fmt"
	"math/rand"
	"os"
	"runtime"
	"sort"
	"strconv"
	"strings"
	"sync"
	"sync/atomic"
	"unsafe"
)

type Event struct {
	E   string `json:"e"`
	G   int    `json:"g"`
	I   int    `json:"i,omitempty"`
	P   string `json:"p,omitempty"`
	M   string `json:"m,omitempty"`
	C   int    `json:"c,omitempty"`
	Op  string `json:"op,omitempty"`
	Cls string `json:"cls,omitempty"`
	Res string `json:"res"`
	Seq string `json:"seq"`
	Ref int    `json:"ref"`
	Now string `json:"now"`
	n   int64
}

func loadRef(path string) map[string]string {
	b, err := os.ReadFile(path)
	if err != nil {
		fmt.Fprintln(os.Stderr, "cannot read reference table:", err)
		os.Exit(2)
	}
	m := map[string]string{}
	if err := json.Unmarshal(b, &m); err != nil {
		fmt.Fprintln(os.Stderr, "bad reference table:", err)
		os.Exit(2)
	}
	return m
}

func runOp(op *Op, arg int) (res string, buf []byte) {
	defer func() {
		if r := recover(); r != nil {
			res, buf = fmt.Sprintf("PANIC %v", r), nil
		}
	}()
	return op.Run(arg)
}

func cmdRef() {
	noSleep = true
	m := map[string]string{}
	for i := range ops {
		for a := 0; a < argSpace; a++ {
			r1, _ := runOp(&ops[i], a)
			r2, _ := runOp(&ops[i], a)
			if r1 != r2 {
				fmt.Fprintf(os.Stderr, "op %s arg %d is not deterministic:\n%s\n%s\n", ops[i].Name, a, r1, r2)
				os.Exit(2)
			}
			m[ops[i].Name+"|"+strconv.Itoa(a)] = short(r1)
		}
	}
	b, _ := json.Marshal(m)
	fmt.Println(string(b))
}

func poolOf(point string) string {
	// "oj.JSON.get" -> pool name
	parts := strings.Split(point, ".")
	pkg, fn := parts[0], parts[1]
	switch {
	case strings.Contains(fn, "Marshal"):
		return pkg + ".marshal"
	case strings.Contains(fn, "Parse") || strings.Contains(fn, "Load"):
		return pkg + ".parser"
	}
	return pkg + ".writer"
}

type ids struct {
	mu sync.Mutex
	m  map[uintptr]int
}

func (x *ids) of(p uintptr) int {
	x.mu.Lock()
	defer x.mu.Unlock()
	if id, ok := x.m[p]; ok {
		return id
	}
	x.m[p] = len(x.m) + 1
	return len(x.m)
}

func ptrOf(v any) uintptr { return (*[2]uintptr)(unsafe.Pointer(&v))[1] }

func bufID(x *ids, b []byte) int {
	if cap(b) == 0 {
		return 0
	}
	return x.of(uintptr(unsafe.Pointer(&b[:1][0])))
}

// ------------------------------------------------------------------ forced schedules
type schedCase struct {
	ID    int        `json:"id"` // selects the real functions that stand for the API classes (0: position in the batch)
	Prog  [][]string `json:"prog"`
	Sched []int      `json:"sched"`
}

type heldBuf struct {
	g, c int
	buf  []byte
	str  string
	op   string
}

func pkgOf(op string) string { return op[:strings.IndexByte(op, '.')] }

// dropOwn: a caller stops looking at a buffer once it calls the same package again itself - the
// buffer-returning APIs document that the caller's own next call may reuse the buffer, so from then on
// a change could not be attributed to ANOTHER caller's call.
func dropOwn(held []*heldBuf, g int, op string, log func(Event)) []*heldBuf {
	out := held[:0:0]
	for _, h := range held {
		if h.g == g && h.op != "" && pkgOf(h.op) == pkgOf(op) {
			if h.buf != nil {
				log(Event{E: "drop", G: g, C: h.c})
			}
			continue
		}
		out = append(out, h)
	}
	return out
}

func runSchedule(id int, sc schedCase, ref map[string]string) map[string]any {
	n := len(sc.Prog)
	evs := []Event{}
	instIDs := &ids{m: map[uintptr]int{}}
	bufIDs := &ids{m: map[uintptr]int{}}
	cur := 0
	parked := make(chan string)
	resume := make([]chan struct{}, n+1)
	done := make([]bool, n+1)
	var held []*heldBuf
	park := func(g int, point string) {
		parked <- point
		<-resume[g]
	}
	if hooksCompiled {
		installHooks(func(point string, inst any) {
			g := cur
			switch {
			case strings.HasSuffix(point, ".get"):
				evs = append(evs, Event{E: "get", G: g, I: instIDs.of(ptrOf(inst)), P: poolOf(point)})
				park(g, point)
			case strings.HasSuffix(point, ".putting"): // just before pool.Put: the instance is released
				evs = append(evs, Event{E: "put", G: g, I: instIDs.of(ptrOf(inst)), P: poolOf(point)})
			case strings.HasSuffix(point, ".put"): // just after pool.Put: scheduling gate only
				park(g, point)
			case strings.HasSuffix(point, ".locked"):
				evs = append(evs, Event{E: "lock", G: g, M: strings.Split(point, ".")[0]})
			case strings.HasSuffix(point, ".fill"):
				evs = append(evs, Event{E: "fill", G: g, M: strings.Split(point, ".")[0]})
			case strings.HasSuffix(point, ".unlock"):
				evs = append(evs, Event{E: "unlock", G: g, M: strings.Split(point, ".")[0]})
			}
		})
		defer installHooks(nil)
	}
	for g := 1; g <= n; g++ {
		resume[g] = make(chan struct{})
		go func(g int) {
			for c, cls := range sc.Prog[g-1] {
				park(g, "idle")
				cands := opsOfClass(cls)
				op := cands[(id+g*7+c*3)%len(cands)]
				arg := (g*5 + c + id) % argSpace
				held = dropOwn(held, g, op.Name, func(e Event) { evs = append(evs, e) })
				res, buf := runOp(op, arg)
				evs = append(evs, Event{E: "ret", G: g, C: c + 1, Op: op.Name, Cls: cls, Res: short(res),
					Seq: ref[op.Name+"|"+strconv.Itoa(arg)], Ref: bufID(bufIDs, buf)})
				held = append(held, &heldBuf{g: g, c: c + 1, buf: buf, str: res, op: op.Name})
			}
			parked <- "end"
		}(g)
		<-parked // every goroutine parks before its first call (or ends at once)
		if len(sc.Prog[g-1]) == 0 {
			done[g] = true
		}
	}
	step := func(g int) {
		cur = g
		resume[g] <- struct{}{}
		if p := <-parked; p == "end" {
			done[g] = true
		}
		for _, h := range held {
			if h.buf != nil {
				evs = append(evs, Event{E: "look", G: h.g, C: h.c, Now: short(string(h.buf))})
			}
		}
	}
	for _, g := range sc.Sched {
		if g >= 1 && g <= n && !done[g] {
			step(g)
		}
	}
	for g := 1; g <= n; g++ { // whatever the schedule left unfinished (gate counts of the model are an upper bound)
		for !done[g] {
			step(g)
		}
	}
	return map[string]any{"id": id, "mode": "sched", "n": n, "ev": evs}
}

func cmdSched(args []string) {
	fs := flag.NewFlagSet("sched", flag.ExitOnError)
	refp := fs.String("ref", "", "reference table")
	_ = fs.Parse(args)
	ref := loadRef(*refp)
	noSleep = true
	runtime.GOMAXPROCS(1)
	sc := bufio.NewScanner(os.Stdin)
	sc.Buffer(make([]byte, 1<<20), 1<<26)
	w := bufio.NewWriterSize(os.Stdout, 1<<20)
	defer w.Flush()
	enc := json.NewEncoder(w)
	id := 0
	for sc.Scan() {
		if len(sc.Bytes()) == 0 {
			continue
		}
		var c schedCase
		if err := json.Unmarshal(sc.Bytes(), &c); err != nil {
			fmt.Fprintln(os.Stderr, "bad schedule line:", err)
			os.Exit(2)
		}
		id++
		if c.ID == 0 {
			c.ID = id
		}
		_ = enc.Encode(runSchedule(c.ID, c, ref))
	}
}

// ------------------------------------------------------------------ free running
var goids sync.Map // runtime goroutine id -> harness goroutine index

func goid() int64 {
	var b [64]byte
	s := string(b[:runtime.Stack(b[:], false)])
	s = strings.TrimPrefix(s, "goroutine ")
	if i := strings.IndexByte(s, ' '); i > 0 {
		n, _ := strconv.ParseInt(s[:i], 10, 64)
		return n
	}
	return 0
}

func runFree(run, n, m int, seed int64, ref map[string]string, menu []*Op, argList []int) map[string]any {
	var seq int64
	instIDs := &ids{m: map[uintptr]int{}}
	bufIDs := &ids{m: map[uintptr]int{}}
	per := make([][]Event, n+1)
	var hookMu sync.Mutex
	var hookEvs []Event
	if hooksCompiled {
		installHooks(func(point string, inst any) {
			gi, ok := goids.Load(goid())
			if !ok {
				return
			}
			ev := Event{G: gi.(int)}
			switch {
			case strings.HasSuffix(point, ".get"):
				ev.E, ev.I, ev.P = "get", instIDs.of(ptrOf(inst)), poolOf(point)
			case strings.HasSuffix(point, ".putting"): // recorded BEFORE the real Put, so that no Get of the same instance can precede it
				ev.E, ev.I, ev.P = "put", instIDs.of(ptrOf(inst)), poolOf(point)
			case strings.HasSuffix(point, ".locked"):
				ev.E, ev.M = "lock", strings.Split(point, ".")[0]
			case strings.HasSuffix(point, ".fill"):
				ev.E, ev.M = "fill", strings.Split(point, ".")[0]
			case strings.HasSuffix(point, ".unlock"):
				ev.E, ev.M = "unlock", strings.Split(point, ".")[0]
			default:
				return
			}
			// the sequence number is taken under the hook's own mutex: the recorded order is a real order
			hookMu.Lock()
			ev.n = atomic.AddInt64(&seq, 1)
			hookEvs = append(hookEvs, ev)
			hookMu.Unlock()
		})
		defer installHooks(nil)
	}
	var wg sync.WaitGroup
	start := make(chan struct{})
	for g := 1; g <= n; g++ {
		wg.Add(1)
		go func(g int) {
			defer wg.Done()
			goids.Store(goid(), g)
			rng := rand.New(rand.NewSource(seed*1000003 + int64(run)*7919 + int64(g)))
			var mine, pinned []*heldBuf // pinned: every buffer ever handed out stays referenced, so its address is never reused
			<-start
			for c := 1; c <= m; c++ {
				op := menu[rng.Intn(len(menu))]
				arg := rng.Intn(argSpace)
				if len(argList) > 0 {
					arg = argList[rng.Intn(len(argList))]
				}
				mine = dropOwn(mine, g, op.Name, func(e Event) {
					e.n = atomic.AddInt64(&seq, 1)
					per[g] = append(per[g], e)
				})
				res, buf := runOp(op, arg)
				per[g] = append(per[g], Event{E: "ret", G: g, C: c, Op: op.Name, Cls: op.Class, Res: short(res),
					Seq: ref[op.Name+"|"+strconv.Itoa(arg)], Ref: bufID(bufIDs, buf), n: atomic.AddInt64(&seq, 1)})
				if buf != nil {
					mine = append(mine, &heldBuf{g: g, c: c, buf: buf, op: op.Name})
					pinned = append(pinned, mine[len(mine)-1])
					if len(mine) > 3 {
						per[g] = append(per[g], Event{E: "drop", G: g, C: mine[0].c, n: atomic.AddInt64(&seq, 1)})
						mine = mine[1:]
					}
				}
				if c%2 == 0 {
					runtime.Gosched()
				}
				// the caller looks again at the buffers it still holds, after other goroutines ran
				for _, h := range mine {
					if h.c < c {
						per[g] = append(per[g], Event{E: "look", G: g, C: h.c, Now: short(string(h.buf)), n: atomic.AddInt64(&seq, 1)})
					}
				}
			}
			for _, h := range mine { // the goroutine ends: it holds nothing any more
				per[g] = append(per[g], Event{E: "drop", G: g, C: h.c, n: atomic.AddInt64(&seq, 1)})
			}
			runtime.KeepAlive(pinned)
		}(g)
	}
	close(start)
	wg.Wait()
	all := append([]Event{}, hookEvs...)
	for g := 1; g <= n; g++ {
		all = append(all, per[g]...)
	}
	sort.Slice(all, func(i, j int) bool { return all[i].n < all[j].n })
	return map[string]any{"id": run, "mode": "free", "n": n, "ev": all}
}

func cmdFree(args []string) {
	fs := flag.NewFlagSet("free", flag.ExitOnError)
	refp := fs.String("ref", "", "reference table")
	n := fs.Int("n", 4, "goroutines")
	m := fs.Int("ops", 100, "calls per goroutine")
	runs := fs.Int("runs", 1, "runs")
	only := fs.String("only", "", "restrict the menu to ops whose name contains one of these comma separated texts")
	argsFlag := fs.String("args", "", "restrict the arguments to this comma separated list (option pairs chosen by TLC)")
	procs := fs.Int("procs", 0, "GOMAXPROCS (0: default); few Ps make goroutines share the per-P pool slots")
	_ = fs.Parse(args)
	if *procs > 0 {
		runtime.GOMAXPROCS(*procs)
	}
	ref := loadRef(*refp)
	seed, _ := strconv.ParseInt(os.Getenv("VERIF_SEED"), 10, 64)
	var menu []*Op
	for i := range ops {
		keep := *only == ""
		for _, t := range strings.Split(*only, ",") {
			if t != "" && strings.Contains(ops[i].Name, t) {
				keep = true
			}
		}
		if keep {
			menu = append(menu, &ops[i])
		}
	}
	var argList []int
	for _, t := range strings.Split(*argsFlag, ",") {
		if v, err := strconv.Atoi(strings.TrimSpace(t)); err == nil {
			argList = append(argList, v)
		}
	}
	if len(menu) == 0 {
		fmt.Fprintln(os.Stderr, "empty menu")
		os.Exit(2)
	}
	enc := json.NewEncoder(os.Stdout)
	for r := 1; r <= *runs; r++ {
		_ = enc.Encode(runFree(r, *n, *m, seed, ref, menu, argList))
	}
}

func main() {
	if len(os.Args) < 2 {
		fmt.Fprintln(os.Stderr, "usage: conc ops|ref|sched|free")
		os.Exit(2)
	}
	switch os.Args[1] {
	case "ops":
		type od struct {
			Name  string `json:"name"`
			Class string `json:"class"`
		}
		var out []od
		for _, o := range ops {
			out = append(out, od{o.Name, o.Class})
		}
		b, _ := json.Marshal(map[string]any{"ops": out, "hooks": hooksCompiled, "optFields": optFields})
		fmt.Println(string(b))
	case "ref":
		cmdRef()
	case "sched":
		cmdSched(os.Args[2:])
	case "free":
		cmdFree(os.Args[2:])
	default:
		fmt.Fprintln(os.Stderr, "unknown command")
		os.Exit(2)
	}
}
