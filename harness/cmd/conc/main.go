// Command conc is the C08 driver.  It never decides anything: it forces or samples schedules on the real
// code and records what happened; TLC (spec/TraceConcurrency.tla) judges the records with the invariants
// of spec/Concurrency.tla.
//
//	ops                         -> the API menu [{name, class}]
//	ref                         -> {"op|arg": sequential result}: every op run alone, in a fresh process
//	sched -ref F                stdin: ndjson {prog: [[class..] per goroutine], sched: [g..]} chosen by TLC
//	                            stdout: one trace line per schedule; runs under GOMAXPROCS(1) with strict
//	                            hand-off: goroutines are parked before every call and - when ojg was built
//	                            with the verif hooks (-tags verif,verifhooks) - after every pool.Get / pool.Put
//	free -ref F -n N -ops M -runs R   free-running goroutines (build with -race), seeded by VERIF_SEED
//
// events: {e:get|put, g, i: instance, p: pool} {e:lock|fill|unlock, g, m: package}
//
//	{e:ret, g, c: call index, op, cls, res, seq: sequential reference, ref: id of the returned buffer or 0}
//	{e:look, g, c, now}  the value handed out by call c of g, re-inspected later
package main

import (
	"bufio"
	"encoding/json"
	"flag"
	"fmt"
	"math/rand"
	"os"
	"runtime"
	"sort"
	"strconv"
	"strings"
	"sync"
	"sync/atomic"
	"unsafe"
)

type Event struct {
	E   string `json:"e"`
	G   int    `json:"g"`
	I   int    `json:"i,omitempty"`
	P   string `json:"p,omitempty"`
	M   string `json:"m,omitempty"`
	C   int    `json:"c,omitempty"`
	Op  string `json:"op,omitempty"`
	Cls string `json:"cls,omitempty"`
	Res string `json:"res"`
	Seq string `json:"seq"`
	Ref int    `json:"ref"`
	Now string `json:"now"`
	n   int64
}

func loadRef(path string) map[string]string {
	b, err := os.ReadFile(path)
	if err != nil {
		fmt.Fprintln(os.Stderr, "cannot read reference table:", err)
		os.Exit(2)
	}
	m := map[string]string{}
	if err := json.Unmarshal(b, &m); err != nil {
		fmt.Fprintln(os.Stderr, "bad reference table:", err)
		os.Exit(2)
	}
	return m
}

func runOp(op *Op, arg int) (res string, buf []byte) {
	defer func() {
		if r := recover(); r != nil {
			res, buf = fmt.Sprintf("PANIC %v", r), nil
		}
	}()
	return op.Run(arg)
}

func cmdRef() {
	noSleep = true
	m := map[string]string{}
	for i := range ops {
		for a := 0; a < argSpace; a++ {
			r1, _ := runOp(&ops[i], a)
			r2, _ := runOp(&ops[i], a)
			if r1 != r2 {
				fmt.Fprintf(os.Stderr, "op %s arg %d is not deterministic:\n%s\n%s\n", ops[i].Name, a, r1, r2)
				os.Exit(2)
			}
			m[ops[i].Name+"|"+strconv.Itoa(a)] = short(r1)
		}
	}
	b, _ := json.Marshal(m)
	fmt.Println(string(b))
}

func poolOf(point string) string {
	// "oj.JSON.get" -> pool name
	parts := strings.Split(point, ".")
	pkg, fn := parts[0], parts[1]
	switch {
	case strings.Contains(fn, "Marshal"):
		return pkg + ".marshal"
	case strings.Contains(fn, "Parse") || strings.Contains(fn, "Load"):
		return pkg + ".parser"
	}
	return pkg + ".writer"
}

type ids struct {
	mu sync.Mutex
	m  map[uintptr]int
}

func (x *ids) of(p uintptr) int {
	x.mu.Lock()
	defer x.mu.Unlock()
	if id, ok := x.m[p]; ok {
		return id
	}
	x.m[p] = len(x.m) + 1
	return len(x.m)
}

func ptrOf(v any) uintptr { return (*[2]uintptr)(unsafe.Pointer(&v))[1] }

func bufID(x *ids, b []byte) int {
	if cap(b) == 0 {
		return 0
	}
	return x.of(uintptr(unsafe.Pointer(&b[:1][0])))
}

// ------------------------------------------------------------------ forced schedules
type schedCase struct {
	ID    int        `json:"id"` // selects the real functions that stand for the API classes (0: position in the batch)
	Prog  [][]string `json:"prog"`
	Sched []int      `json:"sched"`
	Gran  string     `json:"gran"` // "hook": the gates are the call boundaries and the designated user hook of a call
	Op    string     `json:"op"`   // if set: every "hook" call of the schedule is this op (every op against itself)
}

type heldBuf struct {
	g, c int
	buf  []byte
	str  string
	op   string
}

// pkgOf: "oj.JSON(struct)" -> "oj"; "hook[jm]:oj/JSON" -> "oj"; "hook[rf]:Recomposer.Recompose" -> "Recomposer"
func pkgOf(op string) string {
	if i := strings.IndexByte(op, ':'); i >= 0 && strings.HasSuffix(op[:i], "]") {
		op = op[i+1:]
	}
	if i := strings.IndexAny(op, "./"); i >= 0 {
		return op[:i]
	}
	return op
}

// dropOwn: a caller stops looking at a buffer once it calls the same package again itself - the
// buffer-returning APIs document that the caller's own next call may reuse the buffer, so from then on
// a change could not be attributed to ANOTHER caller's call.
func dropOwn(held []*heldBuf, g int, op string, log func(Event)) []*heldBuf {
	out := held[:0:0]
	for _, h := range held {
		if h.g == g && h.op != "" && pkgOf(h.op) == pkgOf(op) {
			if h.buf != nil {
				log(Event{E: "drop", G: g, C: h.c})
			}
			continue
		}
		out = append(out, h)
	}
	return out
}

func runSchedule(id int, sc schedCase, ref map[string]string) map[string]any {
	n := len(sc.Prog)
	evs := []Event{}
	instIDs := &ids{m: map[uintptr]int{}}
	bufIDs := &ids{m: map[uintptr]int{}}
	cur := 0
	parked := make(chan string)
	resume := make([]chan struct{}, n+1)
	done := make([]bool, n+1)
	var held []*heldBuf
	park := func(g int, point string) {
		parked <- point
		<-resume[g]
	}
	if hooksCompiled {
		installHooks(func(point string, inst any) {
			g := cur
			switch {
			case strings.HasSuffix(point, ".get"):
				evs = append(evs, Event{E: "get", G: g, I: instIDs.of(ptrOf(inst)), P: poolOf(point)})
				if sc.Gran != "hook" {
					park(g, point)
				}
			case strings.HasSuffix(point, ".putting"): // just before pool.Put: the instance is released
				evs = append(evs, Event{E: "put", G: g, I: instIDs.of(ptrOf(inst)), P: poolOf(point)})
			case strings.HasSuffix(point, ".put"): // just after pool.Put: scheduling gate only
				if sc.Gran != "hook" {
					park(g, point)
				}
			case strings.HasSuffix(point, ".locked"):
				evs = append(evs, Event{E: "lock", G: g, M: strings.Split(point, ".")[0]})
			case strings.HasSuffix(point, ".fill"):
				evs = append(evs, Event{E: "fill", G: g, M: strings.Split(point, ".")[0]})
			case strings.HasSuffix(point, ".unlock"):
				evs = append(evs, Event{E: "unlock", G: g, M: strings.Split(point, ".")[0]})
			}
		})
		defer installHooks(nil)
	}
	// user hooks (harness/cmd/conc/r7hookops.go): the designated invocation of the running call is a scheduling gate - the
	// goroutine parks INSIDE user code; bytes handed to the hook are held by it (hand) and re-read after the gate (look)
	hookSeen := make([]int, n+1)
	hookAt := make([]int, n+1)
	curOp := make([]string, n+1)
	curCall := make([]int, n+1)
	hookMode = hookSched
	schedHook = func(handed []byte) func() {
		g := cur
		hookSeen[g]++
		if handed != nil {
			evs = append(evs, Event{E: "hand", G: g, C: 1000 + curCall[g], Op: curOp[g], Res: short(string(handed)), Ref: bufID(bufIDs, handed)})
		}
		if hookSeen[g] == hookAt[g] && (sc.Gran == "hook" || sc.Gran == "gate") {
			park(g, "hook")
		}
		if handed == nil {
			return func() {}
		}
		evs = append(evs, Event{E: "look", G: g, C: 1000 + curCall[g], Now: short(string(handed))})
		return func() { evs = append(evs, Event{E: "drop", G: g, C: 1000 + curCall[g]}) }
	}
	defer func() { schedHook, hookMode = nil, hookRef }()
	for g := 1; g <= n; g++ {
		resume[g] = make(chan struct{})
		go func(g int) {
			for c, cls := range sc.Prog[g-1] {
				park(g, "idle")
				cands := opsOfClass(cls)
				op := cands[(id+g*7+c*3)%len(cands)]
				if cls == "hook" {
					op = hookOpFor(cands, id, g, c)
				}
				arg := (g*5 + c + id) % argSpace
				if cls == "hook" && sc.Op != "" {
					if op = opByName(sc.Op); op == nil {
						fmt.Fprintln(os.Stderr, "unknown op in schedule:", sc.Op)
						os.Exit(2)
					}
					// an op against itself: the two largest depth classes (500 and 1000) / the slow and the re-entrant
					// behaviours, sizes and shapes still rotate with the schedule
					arg = arg | 2 | (g % 2)
				}
				// which hook invocation of this call is the gate: mostly the first; for deep data mostly the third (the last
				// of the three Simplifiers sits just above the leaf, so the call is parked at its full depth)
				at := []int{1, 1, 2, 1}[(id/7+c)%4]
				if strings.HasPrefix(op.Name, "deep[") {
					at = []int{3, 3, 2, 1}[(id/7+c)%4]
				}
				hookSeen[g], hookAt[g], curOp[g], curCall[g] = 0, at, op.Name, c+1
				held = dropOwn(held, g, op.Name, func(e Event) { evs = append(evs, e) })
				res, buf := runOp(op, arg)
				evs = append(evs, Event{E: "ret", G: g, C: c + 1, Op: op.Name, Cls: cls, Res: short(res),
					Seq: ref[op.Name+"|"+strconv.Itoa(arg)], Ref: bufID(bufIDs, buf)})
				held = append(held, &heldBuf{g: g, c: c + 1, buf: buf, str: res, op: op.Name})
			}
			parked <- "end"
		}(g)
		<-parked // every goroutine parks before its first call (or ends at once)
		if len(sc.Prog[g-1]) == 0 {
			done[g] = true
		}
	}
	step := func(g int) {
		cur = g
		resume[g] <- struct{}{}
		if p := <-parked; p == "end" {
			done[g] = true
		}
		for _, h := range held {
			if h.buf != nil {
				evs = append(evs, Event{E: "look", G: h.g, C: h.c, Now: short(string(h.buf))})
			}
		}
	}
	for _, g := range sc.Sched {
		if g >= 1 && g <= n && !done[g] {
			step(g)
		}
	}
	for g := 1; g <= n; g++ { // whatever the schedule left unfinished (gate counts of the model are an upper bound)
		for !done[g] {
			step(g)
		}
	}
	return map[string]any{"id": id, "mode": "sched", "n": n, "ev": evs}
}

// hookOpFor chooses the real function for a "hook" call of a schedule.  Package-level scratch is shared by calls that run
// the SAME code: every op against itself is enumerated by props/C08.py (schedule field "op"); of the other schedules two
// thirds stay inside one family (same hook interface / deep data, different entry points) and one third rotates over the
// whole class.
func hookOpFor(cands []*Op, id, g, c int) *Op {
	switch id % 3 {
	case 0, 1:
		fams := []string{}
		seen := map[string]bool{}
		for _, o := range cands {
			if f := o.Name[:strings.IndexByte(o.Name, ':')]; !seen[f] {
				seen[f] = true
				fams = append(fams, f)
			}
		}
		fam := fams[(id-id/3)%len(fams)]
		var in []*Op
		for _, o := range cands {
			if strings.HasPrefix(o.Name, fam+":") {
				in = append(in, o)
			}
		}
		return in[(id/len(fams)+g*5+c*3)%len(in)]
	}
	return cands[(id+g*7+c*3)%len(cands)]
}

func cmdSched(args []string) {
	fs := flag.NewFlagSet("sched", flag.ExitOnError)
	refp := fs.String("ref", "", "reference table")
	_ = fs.Parse(args)
	ref := loadRef(*refp)
	noSleep = true
	runtime.GOMAXPROCS(1)
	sc := bufio.NewScanner(os.Stdin)
	sc.Buffer(make([]byte, 1<<20), 1<<26)
	w := bufio.NewWriterSize(os.Stdout, 1<<20)
	defer w.Flush()
	enc := json.NewEncoder(w)
	id := 0
	for sc.Scan() {
		if len(sc.Bytes()) == 0 {
			continue
		}
		var c schedCase
		if err := json.Unmarshal(sc.Bytes(), &c); err != nil {
			fmt.Fprintln(os.Stderr, "bad schedule line:", err)
			os.Exit(2)
		}
		id++
		if c.ID == 0 {
			c.ID = id
		}
		_ = enc.Encode(runSchedule(c.ID, c, ref))
	}
}

// ------------------------------------------------------------------ free running
var goids sync.Map // runtime goroutine id -> harness goroutine index

func goid() int64 {
	var b [64]byte
	s := string(b[:runtime.Stack(b[:], false)])
	s = strings.TrimPrefix(s, "goroutine ")
	if i := strings.IndexByte(s, ' '); i > 0 {
		n, _ := strconv.ParseInt(s[:i], 10, 64)
		return n
	}
	return 0
}

func runFree(run, n, m int, seed int64, ref map[string]string, menu []*Op, argList []int) map[string]any {
	var seq int64
	instIDs := &ids{m: map[uintptr]int{}}
	bufIDs := &ids{m: map[uintptr]int{}}
	per := make([][]Event, n+1)
	var hookMu sync.Mutex
	var hookEvs []Event
	if hooksCompiled {
		installHooks(func(point string, inst any) {
			gi, ok := goids.Load(goid())
			if !ok {
				return
			}
			ev := Event{G: gi.(int)}
			switch {
			case strings.HasSuffix(point, ".get"):
				ev.E, ev.I, ev.P = "get", instIDs.of(ptrOf(inst)), poolOf(point)
			case strings.HasSuffix(point, ".putting"): // recorded BEFORE the real Put, so that no Get of the same instance can precede it
				ev.E, ev.I, ev.P = "put", instIDs.of(ptrOf(inst)), poolOf(point)
			case strings.HasSuffix(point, ".locked"):
				ev.E, ev.M = "lock", strings.Split(point, ".")[0]
			case strings.HasSuffix(point, ".fill"):
				ev.E, ev.M = "fill", strings.Split(point, ".")[0]
			case strings.HasSuffix(point, ".unlock"):
				ev.E, ev.M = "unlock", strings.Split(point, ".")[0]
			default:
				return
			}
			// the sequence number is taken under the hook's own mutex: the recorded order is a real order
			hookMu.Lock()
			ev.n = atomic.AddInt64(&seq, 1)
			hookEvs = append(hookEvs, ev)
			hookMu.Unlock()
		})
		defer installHooks(nil)
	}
	var wg sync.WaitGroup
	start := make(chan struct{})
	for g := 1; g <= n; g++ {
		wg.Add(1)
		go func(g int) {
			defer wg.Done()
			goids.Store(goid(), g)
			fc := &freeCtx{g: g, bufIDs: bufIDs, log: func(e Event) {
				e.n = atomic.AddInt64(&seq, 1)
				per[g] = append(per[g], e)
			}}
			freeCtxs.Store(goid(), fc)
			defer freeCtxs.Delete(goid())
			rng := rand.New(rand.NewSource(seed*1000003 + int64(run)*7919 + int64(g)))
			var mine, pinned []*heldBuf // pinned: every buffer ever handed out stays referenced, so its address is never reused
			<-start
			for c := 1; c <= m; c++ {
				op := menu[rng.Intn(len(menu))]
				arg := rng.Intn(argSpace)
				if len(argList) > 0 {
					arg = argList[rng.Intn(len(argList))]
				}
				mine = dropOwn(mine, g, op.Name, func(e Event) {
					e.n = atomic.AddInt64(&seq, 1)
					per[g] = append(per[g], e)
				})
				fc.c, fc.op = c, op.Name
				res, buf := runOp(op, arg)
				per[g] = append(per[g], Event{E: "ret", G: g, C: c, Op: op.Name, Cls: op.Class, Res: short(res),
					Seq: ref[op.Name+"|"+strconv.Itoa(arg)], Ref: bufID(bufIDs, buf), n: atomic.AddInt64(&seq, 1)})
				if buf != nil {
					mine = append(mine, &heldBuf{g: g, c: c, buf: buf, op: op.Name})
					pinned = append(pinned, mine[len(mine)-1])
					if len(mine) > 3 {
						per[g] = append(per[g], Event{E: "drop", G: g, C: mine[0].c, n: atomic.AddInt64(&seq, 1)})
						mine = mine[1:]
					}
				}
				if c%2 == 0 {
					runtime.Gosched()
				}
				// the caller looks again at the buffers it still holds, after other goroutines ran
				for _, h := range mine {
					if h.c < c {
						per[g] = append(per[g], Event{E: "look", G: g, C: h.c, Now: short(string(h.buf)), n: atomic.AddInt64(&seq, 1)})
					}
				}
			}
			for _, h := range mine { // the goroutine ends: it holds nothing any more
				per[g] = append(per[g], Event{E: "drop", G: g, C: h.c, n: atomic.AddInt64(&seq, 1)})
			}
			runtime.KeepAlive(pinned)
		}(g)
	}
	close(start)
	wg.Wait()
	all := append([]Event{}, hookEvs...)
	for g := 1; g <= n; g++ {
		all = append(all, per[g]...)
	}
	sort.Slice(all, func(i, j int) bool { return all[i].n < all[j].n })
	return map[string]any{"id": run, "mode": "free", "n": n, "ev": all}
}

func cmdFree(args []string) {
	fs := flag.NewFlagSet("free", flag.ExitOnError)
	refp := fs.String("ref", "", "reference table")
	n := fs.Int("n", 4, "goroutines")
	m := fs.Int("ops", 100, "calls per goroutine")
	runs := fs.Int("runs", 1, "runs")
	only := fs.String("only", "", "restrict the menu to ops whose name contains one of these comma separated texts")
	argsFlag := fs.String("args", "", "restrict the arguments to this comma separated list (option pairs chosen by TLC)")
	procs := fs.Int("procs", 0, "GOMAXPROCS (0: default); few Ps make goroutines share the per-P pool slots")
	skip := fs.String("skip", "", "leave out ops whose name contains one of these comma separated texts")
	pick := fs.Int("pick", 0, "if > 0: every run uses only this many consecutive ops of the menu (run r starts at op (r-1)*pick + seed): every op against itself")
	_ = fs.Parse(args)
	hookMode = hookFree
	if *procs > 0 {
		runtime.GOMAXPROCS(*procs)
	}
	ref := loadRef(*refp)
	seed, _ := strconv.ParseInt(os.Getenv("VERIF_SEED"), 10, 64)
	var menu []*Op
	for i := range ops {
		keep := *only == ""
		for _, t := range strings.Split(*only, ",") { // "=name": that op exactly
			if t != "" && ((t[0] == '=' && ops[i].Name == t[1:]) || (t[0] != '=' && strings.Contains(ops[i].Name, t))) {
				keep = true
			}
		}
		for _, t := range strings.Split(*skip, ",") {
			if t != "" && strings.Contains(ops[i].Name, t) {
				keep = false
			}
		}
		if keep {
			menu = append(menu, &ops[i])
		}
	}
	var argList []int
	for _, t := range strings.Split(*argsFlag, ",") {
		if v, err := strconv.Atoi(strings.TrimSpace(t)); err == nil {
			argList = append(argList, v)
		}
	}
	if len(menu) == 0 {
		fmt.Fprintln(os.Stderr, "empty menu")
		os.Exit(2)
	}
	enc := json.NewEncoder(os.Stdout)
	for r := 1; r <= *runs; r++ {
		sub := menu
		if *pick > 0 {
			sub = nil
			for i := 0; i < *pick; i++ {
				sub = append(sub, menu[(int(seed%1000)+(r-1)**pick+i)%len(menu)])
			}
		}
		_ = enc.Encode(runFree(r, *n, *m, seed, ref, sub, argList))
	}
}

func main() {
	if len(os.Args) < 2 {
		fmt.Fprintln(os.Stderr, "usage: conc ops|ref|sched|free")
		os.Exit(2)
	}
	switch os.Args[1] {
	case "ops":
		type od struct {
			Name  string `json:"name"`
			Class string `json:"class"`
		}
		var out []od
		for _, o := range ops {
			out = append(out, od{o.Name, o.Class})
		}
		b, _ := json.Marshal(map[string]any{"ops": out, "hooks": hooksCompiled, "optFields": optFields})
		fmt.Println(string(b))
	case "ref":
		cmdRef()
	case "sched":
		cmdSched(os.Args[2:])
	case "free":
		cmdFree(os.Args[2:])
	default:
		fmt.Fprintln(os.Stderr, "unknown command")
		os.Exit(2)
	}
}
