package main

// Round-5 families: Write-style entry points into slow / blocking destinations, and option values SHARED by pointer.

import (
	"bytes"
	"fmt"
	"io"
	"runtime"
	"strings"
	"time"

	"github.com/ohler55/ojg"
	"github.com/ohler55/ojg/alt"
	"github.com/ohler55/ojg/oj"
	"github.com/ohler55/ojg/pretty"
	"github.com/ohler55/ojg/sen"
)

// ---- destinations ----------------------------------------------------------------------------------------------------
// sleepyWriter yields and sleeps inside Write: the caller's destination is slow, so whatever the library does between
// "encoded" and "written" (put its writer back, ...) has time to be overtaken by other goroutines.
type sleepyWriter struct{ got bytes.Buffer }

// noSleep: the sequential reference run and the forced schedules need no real delays (the results do not depend on them).
var noSleep bool

func nap(d time.Duration) {
	if !noSleep {
		time.Sleep(d)
	}
}

func (s *sleepyWriter) Write(p []byte) (int, error) {
	runtime.Gosched()
	nap(40 * time.Microsecond)
	runtime.Gosched()
	return s.got.Write(p)
}

// viaPipe writes into an io.Pipe whose reader is slow: Write BLOCKS until the reader took the bytes.
func viaPipe(write func(w io.Writer) error) (string, error) {
	pr, pw := io.Pipe()
	done := make(chan string)
	go func() {
		var b bytes.Buffer
		chunk := make([]byte, 97)
		for {
			runtime.Gosched()
			n, err := pr.Read(chunk)
			b.Write(chunk[:n])
			if err != nil {
				break
			}
			if b.Len()%5 == 0 {
				nap(20 * time.Microsecond)
			}
		}
		done <- b.String()
	}()
	err := write(pw)
	_ = pw.Close()
	return <-done, err
}

// destDoc: content that identifies the argument; even arguments stay well below WriteLimit (1024: one single final
// Write), odd ones are well above it (several flushes).
func destDoc(arg int) any {
	n := 8 + arg%23
	if arg%2 == 1 {
		n = 1500 + 37*arg
	}
	return []any{"doc", arg, strings.Repeat(string(rune('a'+arg%26)), n), map[string]any{"end": arg * 3}}
}

func destOps() []Op {
	type wf struct {
		name  string
		write func(w io.Writer, arg int) error
	}
	small := &ojg.Options{Sort: true, WriteLimit: 64}
	fns := []wf{
		{"oj.Write", func(w io.Writer, a int) error { return oj.Write(w, destDoc(a)) }},
		{"oj.Write(opts)", func(w io.Writer, a int) error { return oj.Write(w, destDoc(a), small) }},
		{"oj.Writer.Write", func(w io.Writer, a int) error { return (&oj.Writer{Options: oj.DefaultOptions}).Write(w, destDoc(a)) }},
		{"sen.Write", func(w io.Writer, a int) error { return sen.Write(w, destDoc(a)) }},
		{"sen.Write(opts)", func(w io.Writer, a int) error { return sen.Write(w, destDoc(a), small) }},
		{"sen.MustWrite", func(w io.Writer, a int) (err error) {
			defer func() {
				if r := recover(); r != nil {
					err = fmt.Errorf("%v", r)
				}
			}()
			sen.MustWrite(w, destDoc(a))
			return nil
		}},
		{"sen.Writer.Write", func(w io.Writer, a int) error { return (&sen.Writer{Options: sen.DefaultOptions}).Write(w, destDoc(a)) }},
		{"pretty.WriteJSON", func(w io.Writer, a int) error { return pretty.WriteJSON(w, destDoc(a), 60) }},
		{"pretty.WriteSEN", func(w io.Writer, a int) error { return pretty.WriteSEN(w, destDoc(a), 60) }},
		{"pretty.Writer.Write", func(w io.Writer, a int) error {
			pw := pretty.Writer{Options: ojg.DefaultOptions, Width: 70, MaxDepth: 3}
			return pw.Write(w, destDoc(a))
		}},
	}
	var out []Op
	for _, f := range fns {
		f := f
		cls := "pure"
		if f.name == "oj.Write" || f.name == "sen.Write" || f.name == "sen.MustWrite" {
			cls = "json" // pooled writer
		}
		out = append(out,
			Op{f.name + "(dest sleepy)", cls, func(a int) (string, []byte) {
				var s sleepyWriter
				err := f.write(&s, a)
				return s.got.String() + errStr(err), nil
			}},
			Op{f.name + "(dest pipe)", cls, func(a int) (string, []byte) {
				got, err := viaPipe(func(w io.Writer) error { return f.write(w, a) })
				return got + errStr(err), nil
			}})
	}
	return out
}

// ---- option values shared by pointer -----------------------------------------------------------------------------------
// A shared *ojg.Options / pretty configuration is read-only for the library: (a) its fields are unchanged after and DURING
// the calls - the op "options.snapshot(shared)" is the third goroutine that looks at them while the others run; (b) every
// result equals the sequential result for those options.  The harness itself never writes these values after init.
var intConv = ojg.Converter{
	Int:    []func(val int64) (any, bool){func(v int64) (any, bool) { return fmt.Sprint("i", v), true }},
	String: []func(val string) (any, bool){func(s string) (any, bool) { return strings.ToUpper(s), len(s) > 0 && s[0] == 'c' }},
}

var sharedOpts = []*ojg.Options{
	{Sort: true, Converter: &intConv},
	{Sort: true, Converter: &intConv, Indent: 2, CreateKey: "^", OmitNil: true},
	{Sort: true, Indent: 3, TimeFormat: time.RFC3339Nano, WriteLimit: 32, InitSize: 16, KeyExact: true},
	{Sort: true, Tab: true, OmitEmpty: true, CreateKey: "type", FullTypePath: true, TimeFormat: "second", BytesAs: ojg.BytesAsArray, UseTags: true},
	{Sort: true, Color: true, Converter: &ojg.TimeNanoConverter, OmitNil: true, HTMLUnsafe: false, FloatFormat: "%.2f", NestEmbed: true},
}

var sharedPretty = &pretty.Writer{Options: ojg.Options{Sort: true, OmitNil: true}, Width: 50, MaxDepth: 2, Align: true}

func optSnapshot(o *ojg.Options) string {
	return fmt.Sprintf("%v/%v/%v/%v/%v/%v/%q/%v/%v/%v/%v/%v/%q/%q/%v/%v/%v/%q/%v/%v", o.Indent, o.Tab, o.Sort, o.OmitNil, o.OmitEmpty, o.KeyExact,
		o.CreateKey, o.FullTypePath, o.UseTags, o.NestEmbed, o.Color, o.HTMLUnsafe, o.TimeFormat, o.TimeWrap, o.TimeMap, o.BytesAs, o.NoReflect,
		o.FloatFormat, o.Converter != nil, [2]int{o.InitSize, o.WriteLimit})
}

func sharedValue(arg int) any {
	a := arg % 7
	return map[string]any{"n": a, "list": []any{a, "c" + fmt.Sprint(a), nil, 1.5 + float64(a), []byte{byte(a)}, time.Unix(1500000000+int64(a), 0).UTC()},
		"big": int64(946684800000000000 + a), "s": &optData{Name: fmt.Sprint("n", a), In: optInner{X: a}, Raw: []byte{1, byte(a)}, F: 0.125 + float64(a)},
		"html": "<" + fmt.Sprint(a) + ">"}
}

func sharedOps() []Op {
	mk := func(name string, f func(v any, o *ojg.Options) string) Op {
		return Op{name, "pure", func(a int) (string, []byte) { return f(sharedValue(a), sharedOpts[(a/7)%len(sharedOpts)]), nil }}
	}
	flat := &ojg.Options{Sort: true}
	return []Op{
		mk("alt.Decompose(shared)", func(v any, o *ojg.Options) string { return sen.String(alt.Decompose(v, o), flat) }),
		mk("alt.Alter(shared)", func(v any, o *ojg.Options) string { return sen.String(alt.Alter(v, o), flat) }),
		mk("alt.Dup(shared)", func(v any, o *ojg.Options) string { return sen.String(alt.Dup(v, o), flat) }),
		mk("alt.Generify(shared)", func(v any, o *ojg.Options) string { return sen.String(alt.Generify(v, o), flat) }),
		mk("oj.JSON(shared)", func(v any, o *ojg.Options) string { return oj.JSON(v, o) }),
		mk("oj.Marshal(shared)", func(v any, o *ojg.Options) string {
			b, err := oj.Marshal(v, o)
			return string(b) + errStr(err)
		}),
		mk("oj.Write(shared)", func(v any, o *ojg.Options) string {
			var b bytes.Buffer
			err := oj.Write(&b, v, o)
			return b.String() + errStr(err)
		}),
		mk("sen.String(shared)", func(v any, o *ojg.Options) string { return sen.String(v, o) }),
		mk("sen.Bytes(shared)", func(v any, o *ojg.Options) string { return string(sen.Bytes(v, o)) }),
		mk("sen.Write(shared)", func(v any, o *ojg.Options) string {
			var b bytes.Buffer
			err := sen.Write(&b, v, o)
			return b.String() + errStr(err)
		}),
		mk("pretty.JSON(shared)", func(v any, o *ojg.Options) string { return pretty.JSON(v, o, 60) }),
		mk("pretty.SEN(shared)", func(v any, o *ojg.Options) string { return pretty.SEN(v, o, 60) }),
		mk("pretty.WriteJSON(shared)", func(v any, o *ojg.Options) string {
			var b bytes.Buffer
			err := pretty.WriteJSON(&b, v, o, 60)
			return b.String() + errStr(err)
		}),
		{"options.snapshot(shared)", "pure", func(int) (string, []byte) {
			var sb strings.Builder
			for _, o := range sharedOpts {
				sb.WriteString(optSnapshot(o) + ";")
			}
			p := sharedPretty
			sb.WriteString(fmt.Sprint(optSnapshot(&p.Options), p.Width, p.MaxDepth, p.Align, p.SEN))
			return sb.String(), nil
		}},
		// a pretty.Writer VALUE copied from a shared configuration (the documented way to share one)
		{"pretty.Writer copy(shared)", "pure", func(a int) (string, []byte) {
			w := *sharedPretty
			b, err := w.Marshal(sharedValue(a))
			return string(b) + errStr(err), b
		}},
	}
}

func init() {
	ops = append(ops, destOps()...)
	ops = append(ops, sharedOps()...)
}
