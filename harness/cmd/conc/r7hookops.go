package main

// The "hook" API class of spec/Concurrency.tla: package-level calls that run USER code in the middle.
//
// Every hook of the harness enters through enterHook: in free-running mode it yields a few times (and sleeps when the
// behaviour is "slow"), so that calls of different goroutines overlap INSIDE ojg as the normal case; in the forced
// schedules the designated hook invocation of a call is a scheduling gate (the goroutine parks inside user code - that
// needs no verif hooks in the ojg tree); in the sequential reference run it does nothing.  Behaviours (arg % 4):
// yield, re-enter oj (the hook itself calls oj.JSON / oj.Marshal / oj.Parse), re-enter sen + alt, slow.  Sizes of what
// the hook emits / receives ((arg / 4) % 4): tiny, around 1024, around 4096, around 65536.
//
// Families:
//   hook[jm|tm|simp|gen]:<entry>    values implementing json.Marshaler, encoding.TextMarshaler, alt.Simplifier, alt.Genericer
//                                   at the top level, in []any, in a map, as struct member by value and by pointer, through
//                                   every encoder entry point, strict (oj.Marshal) and not
//   hook[ju|attr|rf|raf|conv]:...   json.Unmarshaler targets / members / elements, AttrSetter targets, RecomposeFunc and
//                                   RecomposeAnyFunc composers (registered beforehand), ojg.Converter functions
//   hook[cb]:...                    callbacks: TokenHandler, parse / match callbacks, jp.Walk / Modify, jp.Keyed /
//                                   Indexed data, jp.Procedure
//   deep[d]:<entry>                 every recursive entry point on private data nested 10 / 100 / 500 / 1000 deep with
//                                   yielding Simplifiers at three levels

import (
	"bytes"
	"encoding/json"
	"fmt"
	"io"
	"runtime"
	"strconv"
	"strings"
	"sync"
	"time"

	"github.com/ohler55/ojg"
	"github.com/ohler55/ojg/alt"
	"github.com/ohler55/ojg/gen"
	"github.com/ohler55/ojg/jp"
	"github.com/ohler55/ojg/oj"
	"github.com/ohler55/ojg/pretty"
	"github.com/ohler55/ojg/sen"
)

// ---- the hook environment -------------------------------------------------------------------------------------------
const (
	hookRef   = 0 // sequential reference: hooks do nothing
	hookSched = 1 // forced schedule: the designated invocation parks
	hookFree  = 2 // free running: yield (and sleep when slow)
)

var (
	hookMode  = hookRef
	schedHook func(handed []byte) func() // set by runSchedule; returns what to call when the hook is about to return
	freeCtxs  sync.Map                  // runtime goroutine id -> *freeCtx
)

type freeCtx struct {
	g      int
	c      int
	op     string
	log    func(Event)
	bufIDs *ids
}

// enterHook is called first thing by every user hook.  handed: the bytes ojg handed to the hook (UnmarshalJSON), which the
// hook reads only AFTER enterHook returned.  The returned function is called when the hook has read them.
func enterHook(slow bool, handed []byte) func() {
	switch hookMode {
	case hookSched:
		if schedHook != nil {
			return schedHook(handed)
		}
	case hookFree:
		var fc *freeCtx
		if handed != nil {
			if x, ok := freeCtxs.Load(goid()); ok {
				fc = x.(*freeCtx)
				fc.log(Event{E: "hand", G: fc.g, C: 1000 + fc.c, Op: fc.op, Res: short(string(handed)), Ref: bufID(fc.bufIDs, handed)})
			}
		}
		runtime.Gosched()
		if slow {
			nap(30 * time.Microsecond)
		}
		runtime.Gosched()
		runtime.Gosched()
		if fc != nil {
			fc.log(Event{E: "look", G: fc.g, C: 1000 + fc.c, Now: short(string(handed))})
			return func() { fc.log(Event{E: "drop", G: fc.g, C: 1000 + fc.c}) }
		}
	}
	return func() {}
}

// ---- what hooks emit ----------------------------------------------------------------------------------------------------
func hookBeh(arg int) int { return arg % 4 }

func hookPayload(arg int) string {
	cls := (arg / 4) % len(thresholds)
	n := 10 + arg%9
	if cls > 0 {
		n = thresholds[cls] - 60 + 20*(arg%7)
	}
	return strings.Repeat(string(rune('a'+arg%26)), n) + strconv.Itoa(arg)
}

// reenter: what a re-entrant hook gets back from the package-level API for its own private data (valid JSON text).
func reenter(arg, pos int) string {
	priv := []any{arg, "re", pos, strings.Repeat(string(rune('A'+arg%26)), 20+arg%40)}
	switch hookBeh(arg) {
	case 1:
		b, err := oj.Marshal(priv)
		v, perr := oj.Parse([]byte(oj.JSON(priv)))
		return fmt.Sprintf(`[%s,%q,%s]`, b, errStr(err)+errStr(perr), oj.JSON(v, sortOpt))
	case 2:
		d := alt.Decompose(struct {
			A int
			B []any
		}{arg, priv}, sortOpt)
		return fmt.Sprintf(`[%q,%s]`, sen.String(priv), canonStd(d))
	}
	return `[]`
}

type hk struct{ Arg, Pos int }

func (h hk) payload() string {
	if h.Pos == 0 {
		return hookPayload(h.Arg)
	}
	return fmt.Sprint("p", h.Arg, "-", h.Pos)
}

type hkJM hk
type hkTM hk
type hkSimp hk
type hkGen hk

func (h hkJM) MarshalJSON() ([]byte, error) {
	done := enterHook(hookBeh(h.Arg) == 3, nil)
	defer done()
	return []byte(fmt.Sprintf(`{"jm":%d,"pos":%d,"p":"%s","re":%s}`, h.Arg, h.Pos, hk(h).payload(), reenter(h.Arg, h.Pos))), nil
}

func (h hkTM) MarshalText() ([]byte, error) {
	done := enterHook(hookBeh(h.Arg) == 3, nil)
	defer done()
	return []byte(fmt.Sprintf("tm-%d-%d-%s-%s", h.Arg, h.Pos, hk(h).payload(), reenter(h.Arg, h.Pos))), nil
}

func (h hkSimp) Simplify() any {
	done := enterHook(hookBeh(h.Arg) == 3, nil)
	defer done()
	return map[string]any{"simp": []any{h.Arg, h.Pos, hk(h).payload(), reenter(h.Arg, h.Pos)}} // one key: unsorted writers stay deterministic
}

func (h hkGen) Generic() gen.Node {
	done := enterHook(hookBeh(h.Arg) == 3, nil)
	defer done()
	return gen.Object{"gen": gen.Array{gen.Int(h.Arg), gen.Int(h.Pos), gen.String(hk(h).payload()), gen.String(reenter(h.Arg, h.Pos))}}
}

type stJM struct {
	A int
	M hkJM
	P *hkJM
}
type stTM struct {
	A int
	M hkTM
	P *hkTM
}
type stSimp struct {
	A int
	M hkSimp
	P *hkSimp
}
type stGen struct {
	A int
	M hkGen
	P *hkGen
}

var hookKinds = []string{"jm", "tm", "simp", "gen"}

// hookValue: the hook at the top level of a list, behind a map member (by pointer), and as struct members by value and by
// pointer - the code paths differ (appendJSON's type switch, the struct-info field functions, the reflection fallback).
func hookValue(kind string, arg int) any {
	switch kind {
	case "jm":
		return []any{hkJM{arg, 0}, map[string]any{"k": &hkJM{arg, 1}}, stJM{arg, hkJM{arg, 2}, &hkJM{arg, 3}}}
	case "tm":
		return []any{hkTM{arg, 0}, map[string]any{"k": &hkTM{arg, 1}}, stTM{arg, hkTM{arg, 2}, &hkTM{arg, 3}}}
	case "simp":
		return []any{hkSimp{arg, 0}, map[string]any{"k": &hkSimp{arg, 1}}, stSimp{arg, hkSimp{arg, 2}, &hkSimp{arg, 3}}}
	}
	return []any{hkGen{arg, 0}, map[string]any{"k": &hkGen{arg, 1}}, stGen{arg, hkGen{arg, 2}, &hkGen{arg, 3}}}
}

func encodeHookOps() []Op {
	srt := &ojg.Options{Sort: true}
	col := &ojg.Options{Sort: true, Color: true}
	ind := &ojg.Options{Sort: true, Indent: 2, OmitNil: true}
	type entry struct {
		name string
		run  func(v any) (string, []byte)
	}
	entries := []entry{
		{"oj/JSON", func(v any) (string, []byte) { return oj.JSON(v), nil }},
		{"oj/JSON+indent", func(v any) (string, []byte) { return oj.JSON(v, ind), nil }},
		{"oj/JSON+color", func(v any) (string, []byte) { return oj.JSON(v, col), nil }},
		{"oj/Marshal", func(v any) (string, []byte) { // strict
			b, err := oj.Marshal(v)
			return string(b) + errStr(err), b
		}},
		{"oj/Marshal+opts", func(v any) (string, []byte) { // strict, private writer
			b, err := oj.Marshal(v, srt)
			return string(b) + errStr(err), b
		}},
		{"oj/Write", func(v any) (string, []byte) {
			var b bytes.Buffer
			err := oj.Write(&b, v)
			return b.String() + errStr(err), nil
		}},
		{"sen/String", func(v any) (string, []byte) { return sen.String(v), nil }},
		{"sen/String+color", func(v any) (string, []byte) { return sen.String(v, col), nil }},
		{"sen/Bytes", func(v any) (string, []byte) {
			b := sen.Bytes(v)
			return string(b), b
		}},
		{"sen/Write", func(v any) (string, []byte) {
			var b bytes.Buffer
			err := sen.Write(&b, v, srt)
			return b.String() + errStr(err), nil
		}},
		{"pretty/JSON", func(v any) (string, []byte) { return pretty.JSON(v, srt), nil }},
		{"pretty/SEN", func(v any) (string, []byte) { return pretty.SEN(v, srt, 60.3), nil }},
		{"alt/Decompose", func(v any) (string, []byte) { return digestOf(alt.Decompose(v, srt)), nil }},
		{"alt/Alter", func(v any) (string, []byte) { return digestOf(alt.Alter(v, srt)), nil }},
		{"alt/Generify", func(v any) (string, []byte) { return digestOf(alt.Decompose(alt.Generify(v, srt))), nil }},
		{"alt/Dup", func(v any) (string, []byte) { return digestOf(alt.Decompose(alt.Dup(v, srt))), nil }},
	}
	var out []Op
	for _, kind := range hookKinds {
		for _, e := range entries {
			kind, e := kind, e
			if (kind == "jm" || kind == "tm") && (strings.HasPrefix(e.name, "alt/") || strings.HasPrefix(e.name, "pretty/") || strings.Contains(e.name, "+color")) {
				continue // these paths go through alt.Decompose, which reflects on the fields and never calls MarshalJSON / MarshalText
			}
			out = append(out, Op{"hook[" + kind + "]:" + e.name, "hook", func(a int) (string, []byte) { return e.run(hookValue(kind, a)) }})
		}
	}
	return out
}

// ---- decode side ----------------------------------------------------------------------------------------------------------
// hkJU reads the bytes it was handed only after it let other goroutines run.
type hkJU struct {
	Seen string
}

func (u *hkJU) UnmarshalJSON(b []byte) error {
	var hdr struct{ A int }
	_ = json.Unmarshal(b, &hdr) // encoding/json: independent of ojg; before the gate (the bytes are fresh here)
	done := enterHook(hookBeh(hdr.A) == 3, b)
	u.Seen = canonText(b) // read AFTER other goroutines had time to run
	switch hookBeh(hdr.A) {
	case 1: // the usual implementation: decode the bytes with the package-level API
		v, err := oj.Parse(b)
		u.Seen += " " + short(oj.JSON(v, sortOpt)) + errStr(err)
	case 2:
		var aux map[string]any
		err := oj.Unmarshal(b, &aux)
		u.Seen += " " + short(sen.String(aux, sortOpt)) + errStr(err)
	}
	done()
	return nil
}

// canonText: the composer re-encodes maps in map order; what the hook saw is compared after sorting the keys
// (encoding/json, independent of ojg).
func canonText(b []byte) string {
	var v any
	if err := json.Unmarshal(b, &v); err != nil {
		return "not JSON: " + short(string(b))
	}
	return short(canonStd(v))
}

type juTarget struct {
	ID int
	U  hkJU
	P  *hkJU
	L  []hkJU
	T  time.Time
	R  json.RawMessage
}

func juMember(arg, pos int) string {
	p := fmt.Sprint("m", arg, "-", pos)
	if pos == 0 {
		p = hookPayload(arg)
	}
	return fmt.Sprintf(`{"a":%d,"pos":%d,"w":"%s"}`, arg, pos, p)
}

func juDoc(arg int) []byte {
	return []byte(fmt.Sprintf(`{"id":%d,"u":%s,"p":%s,"l":[%s,%s],"t":"2022-02-03T04:05:%02dZ","r":{"raw":[%d,"%s"]}}`,
		arg, juMember(arg, 0), juMember(arg, 1), juMember(arg, 2), juMember(arg, 3), arg%60, arg, strings.Repeat("r", arg%50)))
}

func juShow(t *juTarget, err error) string {
	p := "nil"
	if t.P != nil {
		p = t.P.Seen
	}
	return fmt.Sprintf("%d|%s|%s|%v|%s|%s", t.ID, t.U.Seen, p, t.L, t.T.Format(time.RFC3339), t.R) + errStr(err)
}

// hkAttr: alt.AttrSetter target.
type hkAttr struct {
	got []string
}

func (h *hkAttr) SetAttr(attr string, val any) error {
	arg := 0
	if m, ok := val.(map[string]any); ok {
		arg = intOf(m["a"])
	}
	done := enterHook(hookBeh(arg) == 3, nil)
	defer done()
	s := attr + "=" + short(canonStd(val))
	if hookBeh(arg) == 1 {
		s += "/" + short(oj.JSON(val, sortOpt))
	} else if hookBeh(arg) == 2 {
		s += "/" + short(sen.String(alt.Dup(val), sortOpt))
	}
	h.got = append(h.got, s)
	return nil
}

type attrHolder struct {
	N int
	H *hkAttr
}

// attrSrc: the attribute NAMES and their number depend on the argument too.
func attrSrc(arg int) map[string]any {
	m := map[string]any{"x" + fmt.Sprint(arg): map[string]any{"a": arg, "w": hookPayload(arg)}, "y" + fmt.Sprint(arg%5): map[string]any{"a": arg, "l": []any{arg, "s"}}}
	if arg%2 == 1 {
		m["z"] = map[string]any{"a": arg}
	}
	return m
}

func intOf(v any) int {
	switch t := v.(type) {
	case int:
		return t
	case int64:
		return int(t)
	}
	return 0
}

// composer functions (registered before any goroutine starts)
type rfT struct {
	A     int
	W     string
	Inner *rfInner
	Re    string
}
type rfInner struct {
	V int
	S string
}
type rafT struct {
	A  int
	W  string
	Re string
}

var recompHook *alt.Recomposer

func composeRF(m map[string]any) (any, error) {
	a := intOf(m["a"])
	done := enterHook(hookBeh(a) == 3, nil)
	defer done()
	t := &rfT{A: a}
	t.W, _ = m["w"].(string)
	if in, ok := m["inner"]; ok { // a composer that recomposes its own members with the same (shared) recomposer
		var inner rfInner
		if _, err := recompHook.Recompose(in, &inner); err != nil {
			return nil, err
		}
		t.Inner = &inner
	}
	t.Re = reenter(a, 0)
	return t, nil
}

func composeRAF(v any) (any, error) {
	m, _ := v.(map[string]any)
	a := intOf(m["a"])
	done := enterHook(hookBeh(a) == 3, nil)
	defer done()
	t := &rafT{A: a, Re: reenter(a, 1)}
	t.W, _ = m["w"].(string)
	return t, nil
}

// yieldConv: ojg.Converter whose functions are user hooks.
func yieldConv(arg int) *ojg.Converter {
	return &ojg.Converter{
		String: []func(val string) (any, bool){func(s string) (any, bool) {
			done := enterHook(hookBeh(arg) == 3, nil)
			defer done()
			if strings.HasPrefix(s, "cv") {
				return []any{s, arg, reenter(arg, 2)}, true
			}
			return s, false
		}},
		Map: []func(val map[string]any) (any, bool){func(m map[string]any) (any, bool) {
			if _, ok := m["$conv"]; ok {
				done := enterHook(false, nil)
				defer done()
				return fmt.Sprint("conv:", arg, ":", len(m)), true
			}
			return m, false
		}},
	}
}

func decodeHookOps() []Op {
	return []Op{
		{"hook[ju]:oj/Unmarshal", "hook", func(a int) (string, []byte) {
			var t juTarget
			err := oj.Unmarshal(juDoc(a), &t)
			return juShow(&t, err), nil
		}},
		{"hook[ju]:sen/Unmarshal", "hook", func(a int) (string, []byte) {
			var t juTarget
			err := sen.Unmarshal(juDoc(a), &t)
			return juShow(&t, err), nil
		}},
		{"hook[ju]:oj/Parser.Unmarshal", "hook", func(a int) (string, []byte) {
			var t juTarget
			p := oj.Parser{}
			err := p.Unmarshal(juDoc(a), &t)
			return juShow(&t, err), nil
		}},
		{"hook[ju]:alt/Recompose", "hook", func(a int) (string, []byte) {
			v, perr := oj.Parse(juDoc(a))
			var t juTarget
			_, err := alt.Recompose(v, &t)
			return juShow(&t, err) + errStr(perr), nil
		}},
		{"hook[ju]:oj/Unmarshal(top)", "hook", func(a int) (string, []byte) { // the target itself is the json.Unmarshaler
			var u hkJU
			err := oj.Unmarshal([]byte(juMember(a, 0)), &u)
			return u.Seen + errStr(err), nil
		}},
		{"hook[ju]:oj/Unmarshal(list)", "hook", func(a int) (string, []byte) {
			var l []hkJU
			err := oj.Unmarshal([]byte("["+juMember(a, 0)+","+juMember(a, 1)+","+juMember(a, 2)+"]"), &l)
			var sb strings.Builder
			for _, u := range l {
				sb.WriteString(u.Seen + ";")
			}
			return sb.String() + errStr(err), nil
		}},
		{"hook[attr]:alt/Recompose", "hook", func(a int) (string, []byte) {
			h := &hkAttr{}
			_, err := alt.Recompose(attrSrc(a), h)
			return strings.Join(sortedCopy(h.got), " ") + errStr(err), nil
		}},
		{"hook[attr]:oj/Unmarshal", "hook", func(a int) (string, []byte) {
			h := &hkAttr{}
			err := oj.Unmarshal([]byte(oj.JSON(attrSrc(a), sortOpt)), h)
			return strings.Join(sortedCopy(h.got), " ") + errStr(err), nil
		}},
		{"hook[attr]:Recomposer.Recompose(member)", "hook", func(a int) (string, []byte) {
			var t attrHolder
			_, err := recompHook.Recompose(map[string]any{"n": a, "h": attrSrc(a)}, &t)
			got := []string{"nil"}
			if t.H != nil {
				got = sortedCopy(t.H.got)
			}
			return fmt.Sprint(t.N, " ") + strings.Join(got, " ") + errStr(err), nil
		}},
		{"hook[rf]:Recomposer.Recompose", "hook", func(a int) (string, []byte) {
			src := map[string]any{"type": "rfT", "a": a, "w": hookPayload(a), "inner": map[string]any{"v": a * 3, "s": fmt.Sprint("in", a)}}
			out, err := recompHook.Recompose(src)
			return short(canonStd(out)) + errStr(err), nil
		}},
		{"hook[rf]:Recomposer.Recompose(list,target)", "hook", func(a int) (string, []byte) {
			src := []any{map[string]any{"a": a, "w": hookPayload(a)}, map[string]any{"a": a + 1, "w": "w", "inner": map[string]any{"v": a, "s": "s"}}}
			var l []*rfT
			_, err := recompHook.Recompose(src, &l)
			return short(canonStd(l)) + errStr(err), nil
		}},
		{"hook[raf]:Recomposer.Recompose", "hook", func(a int) (string, []byte) {
			var t rafT
			out, err := recompHook.Recompose(map[string]any{"a": a, "w": hookPayload(a)}, &t)
			return short(canonStd(out)) + errStr(err), nil
		}},
		{"hook[conv]:alt/Decompose", "hook", func(a int) (string, []byte) {
			src := []any{"cv" + fmt.Sprint(a), "plain", map[string]any{"$conv": a, "x": 1}, map[string]any{"k": "cvk"}, hookPayload(a)}
			return digestOf(alt.Decompose(src, &ojg.Options{Converter: yieldConv(a)})), nil
		}},
		{"hook[conv]:alt/Alter", "hook", func(a int) (string, []byte) {
			src := []any{"cv" + fmt.Sprint(a), map[string]any{"$conv": a}, []any{"cvz", a}, hookPayload(a)}
			return digestOf(alt.Alter(src, &ojg.Options{Converter: yieldConv(a)})), nil
		}},
		{"hook[conv]:alt/Dup", "hook", func(a int) (string, []byte) {
			src := map[string]any{"only": []any{"cvd" + fmt.Sprint(a), map[string]any{"$conv": a, "y": 2}, hookPayload(a)}}
			return digestOf(alt.Decompose(alt.Dup(src, &ojg.Options{Converter: yieldConv(a)}))), nil
		}},
	}
}

func sortedCopy(s []string) []string {
	m := map[string]any{}
	for _, x := range s {
		m[x] = nil
	}
	return sortedKeys(m)
}

// ---- callbacks ----------------------------------------------------------------------------------------------------------
type yieldHandler struct {
	recHandler
	arg, n int
}

func (h *yieldHandler) String(s string) {
	h.n++
	if h.n%8 == 1 {
		done := enterHook(hookBeh(h.arg) == 3, nil)
		if hookBeh(h.arg) == 1 {
			s += "/" + oj.JSON(s)
		}
		done()
	}
	h.recHandler.String(s)
}

// keyedBox / indexedBox: user containers evaluated by shared jp expressions.
type keyedBox struct {
	arg int
	m   map[string]any
}

func (k *keyedBox) ValueForKey(key string) (any, bool) {
	done := enterHook(hookBeh(k.arg) == 3, nil)
	defer done()
	v, ok := k.m[key]
	return v, ok
}
func (k *keyedBox) SetValueForKey(key string, v any) { k.m[key] = v }
func (k *keyedBox) RemoveValueForKey(key string)     { delete(k.m, key) }
func (k *keyedBox) Keys() []string                   { return sortedKeys(k.m) }

type indexedBox struct {
	arg int
	l   []any
}

func (x *indexedBox) ValueAtIndex(i int) any {
	done := enterHook(false, nil)
	defer done()
	return x.l[i]
}
func (x *indexedBox) SetValueAtIndex(i int, v any) { x.l[i] = v }
func (x *indexedBox) Size() int                    { return len(x.l) }

type yieldProc struct{}

func (yieldProc) Get(data any) []any {
	done := enterHook(false, nil)
	defer done()
	if l, ok := data.([]any); ok && len(l) > 0 {
		return []any{l[len(l)-1], len(l)}
	}
	return nil
}
func (p yieldProc) First(data any) any {
	if r := p.Get(data); len(r) > 0 {
		return r[0]
	}
	return nil
}

var (
	xBox  = jp.MustParseString("$.box.rows[?(@.n > 1)].vals[1]")
	xIdx  = jp.MustParseString("$.idx[1:].x")
	xProc = jp.Expr{jp.Root(0x24), jp.Child("list"), &jp.Proc{Procedure: yieldProc{}, Script: []byte("(last)")}}
	xWalk = jp.MustParseString("$.rows[*].kids[*].x")
)

func boxedData(arg int) any {
	d := data(arg).(map[string]any)
	return map[string]any{
		"box":  &keyedBox{arg: arg, m: map[string]any{"rows": d["rows"], "id": arg}},
		"idx":  &indexedBox{arg: arg, l: []any{map[string]any{"x": arg}, map[string]any{"x": arg + 1}, map[string]any{"x": "s"}}},
		"list": d["list"],
	}
}

func multiDoc(arg int) []byte {
	var sb strings.Builder
	for i := 0; i < 5+arg%4; i++ {
		fmt.Fprintf(&sb, `{"doc":%d,"arg":%d,"w":"%s"}`+"\n", i, arg, strings.Repeat(string(rune('a'+arg%26)), 30+arg))
	}
	return []byte(sb.String())
}

func callbackHookOps() []Op {
	cb := func(arg int, sb *strings.Builder) func(any) bool {
		return func(v any) bool {
			done := enterHook(hookBeh(arg) == 3, nil)
			defer done()
			switch hookBeh(arg) {
			case 1:
				sb.WriteString(oj.JSON(v, sortOpt) + ";")
			case 2:
				sb.WriteString(sen.String(alt.Dup(v), sortOpt) + ";")
			default:
				sb.WriteString(canonStd(v) + ";")
			}
			return false
		}
	}
	onData := func(arg int, sb *strings.Builder) func(path jp.Expr, data any) {
		return func(path jp.Expr, data any) {
			done := enterHook(hookBeh(arg) == 3, nil)
			defer done()
			sb.WriteString(path.String() + "=" + oj.JSON(data, sortOpt) + ";")
		}
	}
	target := jp.MustParseString("$.rows[*].vals")
	return []Op{
		{"hook[cb]:oj/Tokenize", "hook", func(a int) (string, []byte) {
			h := &yieldHandler{arg: a}
			err := oj.Tokenize(doc(a), h)
			return short(h.sb.String()) + errStr(err), nil
		}},
		{"hook[cb]:sen/Tokenize", "hook", func(a int) (string, []byte) {
			h := &yieldHandler{arg: a}
			err := sen.Tokenize(senDoc(a), h)
			return short(h.sb.String()) + errStr(err), nil
		}},
		{"hook[cb]:oj/TokenizeLoad", "hook", func(a int) (string, []byte) {
			h := &yieldHandler{arg: a}
			err := oj.TokenizeLoad(slow(longDoc(a), a), h)
			return short(h.sb.String()) + errStr(err), nil
		}},
		{"hook[cb]:oj/Parse", "hook", func(a int) (string, []byte) {
			var sb strings.Builder
			_, err := oj.Parse(multiDoc(a), cb(a, &sb))
			return short(sb.String()) + errStr(err), nil
		}},
		{"hook[cb]:oj/Load", "hook", func(a int) (string, []byte) {
			var sb strings.Builder
			_, err := oj.Load(slow(multiDoc(a), a), cb(a, &sb))
			return short(sb.String()) + errStr(err), nil
		}},
		{"hook[cb]:sen/Parse", "hook", func(a int) (string, []byte) {
			var sb strings.Builder
			_, err := sen.Parse(multiDoc(a), cb(a, &sb))
			return short(sb.String()) + errStr(err), nil
		}},
		{"hook[cb]:sen/ParseReader", "hook", func(a int) (string, []byte) {
			var sb strings.Builder
			_, err := sen.ParseReader(slow(multiDoc(a), a), cb(a, &sb))
			return short(sb.String()) + errStr(err), nil
		}},
		{"hook[cb]:oj/Match", "hook", func(a int) (string, []byte) {
			var sb strings.Builder
			err := oj.Match(doc(a), onData(a, &sb), target)
			return short(sb.String()) + errStr(err), nil
		}},
		{"hook[cb]:sen/MatchLoad", "hook", func(a int) (string, []byte) {
			var sb strings.Builder
			err := sen.MatchLoad(slow(doc(a), a), onData(a, &sb), target)
			return short(sb.String()) + errStr(err), nil
		}},
		{"hook[cb]:jp/Walk", "hook", func(a int) (string, []byte) {
			var sb strings.Builder
			xWalk.Walk(data(a), func(path jp.Expr, nodes []any) {
				done := enterHook(hookBeh(a) == 3, nil)
				defer done()
				sb.WriteString(path.String() + "=" + canonStd(xFirst.First(data(a))) + canonStd(nodes[len(nodes)-1]) + ";")
			})
			return short(sb.String()), nil
		}},
		{"hook[cb]:jp/Modify", "hook", func(a int) (string, []byte) {
			d := data(a)
			_, err := xDesc.Modify(d, func(e any) (any, bool) {
				done := enterHook(hookBeh(a) == 3, nil)
				defer done()
				return fmt.Sprint("m", e, canonStd(xGet.Get(data(a)))), true
			})
			return short(canonStd(d)) + errStr(err), nil
		}},
		{"hook[cb]:jp/Get(keyed)", "hook", func(a int) (string, []byte) { return canonStd(xBox.Get(boxedData(a))), nil }},
		{"hook[cb]:jp/First(keyed)", "hook", func(a int) (string, []byte) { return canonStd(xBox.First(boxedData(a))), nil }},
		{"hook[cb]:jp/Get(indexed)", "hook", func(a int) (string, []byte) { return canonStd(xIdx.Get(boxedData(a))), nil }},
		{"hook[cb]:jp/Get(proc)", "hook", func(a int) (string, []byte) { return canonStd(xProc.Get(boxedData(a))), nil }},
		{"hook[cb]:jp/Set(keyed)", "hook", func(a int) (string, []byte) {
			d := boxedData(a)
			err := jp.MustParseString("$.box.rows[*].n").Set(d, a)
			return short(canonStd(d.(map[string]any)["box"].(*keyedBox).m)) + errStr(err), nil
		}},
	}
}

// ---- deep private data ------------------------------------------------------------------------------------------------
var depthClasses = []int{10, 100, 500, 1000}

// deepS: a Simplifier inside deep data; Simplify() is a hook (yields / parks) and continues the nesting.
type deepS struct {
	V    int
	Next any
}

func (y *deepS) Simplify() any {
	done := enterHook(false, nil)
	defer done()
	return map[string]any{"s": []any{y.V, y.Next}}
}

func deepDepth(arg int) int { return depthClasses[arg%4] + (arg/16)%3 }

// deepValue: depth class arg % 4, shape (arg / 4) % 4: arrays, single-member maps, alternating, alternating with a
// second member beside the nested one.  hooks: Simplifiers at depth/4, depth/2 and just above the leaf.
func deepValue(arg int, hooks bool) any {
	d := deepDepth(arg)
	shape := (arg / 4) % 4
	var v any = []any{arg, "leaf", map[string]any{"leaf": arg}}
	for i := d - 1; i >= 1; i-- { // i = depth of the container being built around v
		switch {
		case hooks && (i == d-2 || i == d/2 || i == d/4):
			v = &deepS{V: arg*1000 + i, Next: v}
		case shape == 0 || (shape >= 2 && i%2 == 0):
			if shape == 3 && i%5 == 0 {
				v = []any{i, v}
			} else {
				v = []any{v}
			}
		default:
			v = map[string]any{"k": v}
		}
	}
	return v
}

func deepJSON(arg int) []byte { return []byte(oj.JSON(deepValue(arg, false))) }

// recNode: a recursive struct type; deepRecDoc nests it depth deep.
type recNode struct {
	V    int
	Next *recNode
	L    []*recNode
}

func deepRecDoc(arg int) []byte {
	d := deepDepth(arg)
	var sb strings.Builder
	for i := 0; i < d; i++ {
		if i%3 == 2 {
			fmt.Fprintf(&sb, `{"v":%d,"l":[`, arg+i)
		} else {
			fmt.Fprintf(&sb, `{"v":%d,"next":`, arg+i)
		}
	}
	sb.WriteString(`{"v":-1}`)
	for i := d - 1; i >= 0; i-- {
		if i%3 == 2 {
			sb.WriteString(`]}`)
		} else {
			sb.WriteString(`}`)
		}
	}
	return []byte(sb.String())
}

func recDepth(n *recNode) (d, sum int) {
	for n != nil {
		d++
		sum += n.V * d
		switch {
		case n.Next != nil:
			n = n.Next
		case len(n.L) > 0:
			n = n.L[0]
		default:
			n = nil
		}
	}
	return
}

func deepOps() []Op {
	srt := &ojg.Options{Sort: true}
	col := &ojg.Options{Sort: true, Color: true}
	xLeaf := jp.MustParseString("$..leaf")
	xLeafF := jp.MustParseString("$..[?(@.leaf > -1)].leaf")
	dv := func(a int) any { return deepValue(a, true) }
	plain := func(a int) any { return deepValue(a, false) }
	return []Op{
		{"deep[d]:alt/Decompose", "hook", func(a int) (string, []byte) { return digestOf(alt.Decompose(dv(a))), nil }},
		{"deep[d]:alt/Alter", "hook", func(a int) (string, []byte) { return digestOf(alt.Alter(dv(a))), nil }},
		{"deep[d]:alt/Dup", "hook", func(a int) (string, []byte) { return digestOf(alt.Decompose(alt.Dup(dv(a)))), nil }},
		{"deep[d]:alt/Generify", "hook", func(a int) (string, []byte) { return digestOf(alt.Decompose(alt.Generify(dv(a)))), nil }},
		{"deep[d]:alt/Diff", "hook", func(a int) (string, []byte) {
			var ds []string // plain(a+64): same shape and depth class, other leaf; Diff reports members in map order
			for _, p := range alt.Diff(alt.Decompose(dv(a)), plain(a+64)) {
				ds = append(ds, p.String())
			}
			return short(strings.Join(sortedCopy(ds), " ")), nil
		}},
		{"deep[d]:alt/Compare", "hook", func(a int) (string, []byte) {
			return fmt.Sprint(len(alt.Compare(plain(a), alt.Decompose(dv(a+64)))), alt.Match(plain(a), plain(a))), nil
		}},
		{"deep[d]:oj/JSON", "hook", func(a int) (string, []byte) { return oj.JSON(dv(a)), nil }},
		{"deep[d]:oj/JSON+color", "hook", func(a int) (string, []byte) { return oj.JSON(dv(a), col), nil }},
		{"deep[d]:oj/Marshal", "hook", func(a int) (string, []byte) {
			b, err := oj.Marshal(dv(a))
			return string(b) + errStr(err), b
		}},
		{"deep[d]:oj/Write", "hook", func(a int) (string, []byte) {
			var b bytes.Buffer
			err := oj.Write(&b, dv(a), srt)
			return b.String() + errStr(err), nil
		}},
		{"deep[d]:sen/String", "hook", func(a int) (string, []byte) { return sen.String(dv(a)), nil }},
		{"deep[d]:sen/String+color", "hook", func(a int) (string, []byte) { return sen.String(dv(a), col), nil }},
		{"deep[d]:sen/Bytes", "hook", func(a int) (string, []byte) {
			b := sen.Bytes(dv(a))
			return string(b), b
		}},
		{"deep[d]:pretty/JSON", "hook", func(a int) (string, []byte) { return pretty.JSON(dv(a), srt), nil }},
		{"deep[d]:pretty/SEN", "hook", func(a int) (string, []byte) { return pretty.SEN(dv(a), srt), nil }},
		{"deep[d]:jp/Get(descent)", "hook", func(a int) (string, []byte) { return canonStd(xLeaf.Get(alt.Decompose(dv(a)))), nil }},
		{"deep[d]:jp/Get(descent,filter)", "hook", func(a int) (string, []byte) { return canonStd(xLeafF.Get(plain(a))), nil }},
		{"deep[d]:jp/Walk(descent)", "hook", func(a int) (string, []byte) {
			n, last := 0, ""
			xLeaf.Walk(plain(a), func(path jp.Expr, nodes []any) {
				n++
				last = fmt.Sprint(len(path), canonStd(nodes[len(nodes)-1]))
				if n == 1 {
					enterHook(false, nil)()
				}
			})
			return fmt.Sprint(n, " ", last), nil
		}},
		// text front-ends on deeply nested documents
		{"deep[d]:oj/Parse", "hook", func(a int) (string, []byte) {
			v, err := oj.Parse(deepJSON(a))
			return digestOf(v) + errStr(err), nil
		}},
		{"deep[d]:oj/Load", "hook", func(a int) (string, []byte) {
			v, err := oj.Load(slow(deepJSON(a), a))
			return digestOf(v) + errStr(err), nil
		}},
		{"deep[d]:oj/Validate", "hook", func(a int) (string, []byte) { return "ok" + errStr(oj.Validate(deepJSON(a))), nil }},
		{"deep[d]:oj/Tokenize", "hook", func(a int) (string, []byte) {
			h := &yieldHandler{arg: a}
			err := oj.Tokenize(deepJSON(a), h)
			return short(h.sb.String()) + errStr(err), nil
		}},
		{"deep[d]:sen/Parse", "hook", func(a int) (string, []byte) {
			v, err := sen.Parse([]byte(sen.String(plain(a))))
			return digestOf(v) + errStr(err), nil
		}},
		{"deep[d]:gen/Parser.Parse", "hook", func(a int) (string, []byte) {
			p := gen.Parser{}
			n, err := p.Parse(deepJSON(a))
			if n == nil {
				return "nil" + errStr(err), nil
			}
			return short(oj.JSON(n)) + errStr(err), nil
		}},
		{"deep[d]:oj/Unmarshal(recursive)", "hook", func(a int) (string, []byte) {
			var n recNode
			err := oj.Unmarshal(deepRecDoc(a), &n)
			d, s := recDepth(&n)
			return fmt.Sprint(d, " ", s) + errStr(err), nil
		}},
		{"deep[d]:alt/Recompose(recursive)", "hook", func(a int) (string, []byte) {
			v, perr := oj.Parse(deepRecDoc(a))
			var n recNode
			_, err := alt.Recompose(v, &n)
			d, s := recDepth(&n)
			return fmt.Sprint(d, " ", s) + errStr(err) + errStr(perr), nil
		}},
		{"deep[d]:oj/JSON(recursive)", "hook", func(a int) (string, []byte) {
			var n recNode
			_ = json.Unmarshal(deepRecDoc(a), &n)
			return short(oj.JSON(&n, &ojg.Options{OmitNil: true, OmitEmpty: true})), nil
		}},
	}
}

var _ io.Reader = (*slowReader)(nil)

func init() {
	// registration happens BEFORE concurrent use (documented; excluded by the statement)
	for _, t := range []any{&juTarget{}, &hkJU{}, &hkAttr{}, &recNode{}} {
		if err := alt.DefaultRecomposer.RegisterComposer(t, nil); err != nil {
			panic(err)
		}
	}
	var err error
	if recompHook, err = alt.NewRecomposer("type", map[any]alt.RecomposeFunc{&rfT{}: composeRF, &rfInner{}: nil, &attrHolder{}: nil, &hkAttr{}: nil},
		map[any]alt.RecomposeAnyFunc{&rafT{}: composeRAF}); err != nil {
		panic(err)
	}
	ops = append(ops, encodeHookOps()...)
	ops = append(ops, decodeHookOps()...)
	ops = append(ops, callbackHookOps()...)
	ops = append(ops, deepOps()...)
}
