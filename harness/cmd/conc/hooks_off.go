//go:build !verifhooks

package main

const hooksCompiled = false

func installHooks(func(point string, inst any)) {}
