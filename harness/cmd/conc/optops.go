package main

// Ops whose result depends on the OPTIONS of the call, and the cold-type family.
//
// Concurrency.tla: the result of a call is a function of its own arguments, options included.  For every option
// field (spec/ConcurrencyOpts.tla lists them and emits the pairs) two goroutines must make the same call at the
// same time with option values that differ in exactly that field, and each result is compared with the
// sequential value for ITS OWN options.  An argument of an (opt) op encodes  field*4 + colour*2 + on.

import (
	"bytes"
	"fmt"
	"reflect"
	"sync/atomic"
	"time"

	"github.com/ohler55/ojg"
	"github.com/ohler55/ojg/alt"
	"github.com/ohler55/ojg/oj"
	"github.com/ohler55/ojg/pretty"
	"github.com/ohler55/ojg/sen"
)

// argSpace is the number of distinct arguments per op (the data ops use arg % 24: 6 data sets x 4 size classes).
const argSpace = 64

var optFields = []string{"CreateKey", "FullTypePath", "OmitNil", "OmitEmpty", "UseTags", "KeyExact", "NestEmbed", "TimeFormat",
	"TimeWrap", "TimeMap", "BytesAs", "HTMLUnsafe", "TimeSecond", "FloatFormat", "Indent", "Tab"}

// optFor: the base options (plain or coloured) with one field switched on or off.
func optFor(arg int) *ojg.Options {
	field, colour, on := optFields[(arg/4)%len(optFields)], (arg/2)%2 == 1, arg%2 == 1
	o := ojg.DefaultOptions
	o.Sort = true
	o.Color = colour
	if field == "FullTypePath" {
		o.CreateKey = "^" // FullTypePath only shows together with a create key
	}
	if !on {
		return &o
	}
	switch field {
	case "CreateKey":
		o.CreateKey = "^"
	case "FullTypePath":
		o.FullTypePath = true
	case "OmitNil":
		o.OmitNil = true
	case "OmitEmpty":
		o.OmitEmpty = true
	case "UseTags":
		o.UseTags = true
	case "KeyExact":
		o.KeyExact = true
	case "NestEmbed":
		o.NestEmbed = true
	case "TimeFormat":
		o.TimeFormat = time.RFC3339Nano
	case "TimeWrap":
		o.TimeWrap = "@"
	case "TimeMap":
		o.TimeMap = true
		o.CreateKey = "^"
	case "BytesAs":
		o.BytesAs = ojg.BytesAsArray
	case "HTMLUnsafe":
		o.HTMLUnsafe = false
	case "TimeSecond":
		o.TimeFormat = "second"
	case "FloatFormat":
		o.FloatFormat = "%.3f"
	case "Indent":
		o.Indent = 2
	case "Tab":
		o.Tab = true
	}
	return &o
}

type optInner struct {
	X int
	Y *int
}

type optEmb struct {
	Em string `json:"em_tag,omitempty"`
}

// optData: a value whose encoding depends on every option field above.
type optData struct {
	Name  string `json:"name_tag"`
	Empty string `json:"empty_tag,omitempty"`
	Nil   *int
	Ptr   *optInner
	In    optInner
	List  []optInner
	Raw   []byte
	When  time.Time
	F     float64
	Html  string
	optEmb
	Any any
}

func optValue(arg int) any {
	a := (arg / 4) % 5 // the same data for the four option variants of a field
	return []any{
		&optData{Name: fmt.Sprint("n", a), Ptr: &optInner{X: a}, In: optInner{X: a + 1}, List: []optInner{{X: a}, {X: 2}}, Raw: []byte{1, 2, byte(a)},
			When: time.Unix(1700000000+int64(a), 123456789).UTC(), F: 1.23456789 + float64(a), Html: "<a&b>", optEmb: optEmb{Em: "e"}, Any: optInner{X: 9}},
		optData{Name: "plain", Any: []optInner{{X: a}}},
		[]optInner{{X: a}, {Y: &a}},
	}
}

func optOps() []Op {
	mk := func(name string, f func(v any, o *ojg.Options) (string, []byte)) Op {
		return Op{name, "pure", func(a int) (string, []byte) { return f(optValue(a), optFor(a)) }}
	}
	return []Op{
		mk("oj.JSON(opt)", func(v any, o *ojg.Options) (string, []byte) { return oj.JSON(v, o), nil }),
		mk("oj.Marshal(opt)", func(v any, o *ojg.Options) (string, []byte) {
			b, err := oj.Marshal(v, o)
			return string(b) + errStr(err), b
		}),
		mk("oj.Write(opt)", func(v any, o *ojg.Options) (string, []byte) {
			var b bytes.Buffer
			err := oj.Write(&b, v, o)
			return b.String() + errStr(err), nil
		}),
		mk("oj.Writer.JSON(opt)", func(v any, o *ojg.Options) (string, []byte) {
			w := oj.Writer{Options: *o}
			return w.JSON(v), nil
		}),
		mk("sen.String(opt)", func(v any, o *ojg.Options) (string, []byte) { return sen.String(v, o), nil }),
		mk("sen.Bytes(opt)", func(v any, o *ojg.Options) (string, []byte) {
			b := sen.Bytes(v, o)
			return string(b), b
		}),
		mk("sen.Write(opt)", func(v any, o *ojg.Options) (string, []byte) {
			var b bytes.Buffer
			err := sen.Write(&b, v, o)
			return b.String() + errStr(err), nil
		}),
		mk("sen.Writer.SEN(opt)", func(v any, o *ojg.Options) (string, []byte) {
			w := sen.Writer{Options: *o}
			return w.SEN(v), nil
		}),
		mk("pretty.JSON(opt)", func(v any, o *ojg.Options) (string, []byte) { return pretty.JSON(v, o, 60), nil }),
		mk("pretty.SEN(opt)", func(v any, o *ojg.Options) (string, []byte) { return pretty.SEN(v, o, 50), nil }),
		mk("pretty.Writer.Marshal(opt)", func(v any, o *ojg.Options) (string, []byte) {
			w := pretty.Writer{Options: *o, Width: 70, MaxDepth: 3}
			b, err := w.Marshal(v)
			return string(b) + errStr(err), b
		}),
		mk("alt.Decompose(opt)", func(v any, o *ojg.Options) (string, []byte) { return sen.String(alt.Decompose(v, o), sortOpt), nil }),
		mk("alt.Alter(opt)", func(v any, o *ojg.Options) (string, []byte) {
			return sen.String(alt.Alter(optValue(3), o), sortOpt), nil
		}),
	}
}

// ---- cold types: every call creates NEW struct types (reflect.StructOf; a tag that no encoder reads makes them
// distinct), so every call is the first use of its types and fills the struct-info caches of oj, sen or alt - which
// map it fills depends on OmitEmpty, which field plan it uses on UseTags / KeyExact / NestEmbed.
var coldCounter int64

func nextCold() int64 { return atomic.AddInt64(&coldCounter, 1) }

func coldValue(arg int) any {
	n := nextCold()
	tag := func(js string) reflect.StructTag { return reflect.StructTag(fmt.Sprintf(`json:"%s" cold:"%d"`, js, n)) }
	inner := reflect.StructOf([]reflect.StructField{
		{Name: "X", Type: reflect.TypeOf(0), Tag: tag("x")},
		{Name: "S", Type: reflect.TypeOf(""), Tag: tag("s,omitempty")},
	})
	leaf := reflect.StructOf([]reflect.StructField{{Name: "Z", Type: reflect.TypeOf(0), Tag: tag("z,omitempty")}})
	outer := reflect.StructOf([]reflect.StructField{
		{Name: "A", Type: reflect.TypeOf(0), Tag: tag("a")},
		{Name: "In", Type: inner, Tag: tag("in,omitempty")},    // nested struct member tagged omitempty
		{Name: "Zero", Type: leaf, Tag: tag("zero,omitempty")}, // ... that is empty
		{Name: "P", Type: reflect.PtrTo(inner), Tag: tag("p,omitempty")},
		{Name: "Nil", Type: reflect.PtrTo(leaf), Tag: tag("nil,omitempty")},
		{Name: "L", Type: reflect.SliceOf(inner), Tag: tag("l")},
		{Name: "Name", Type: reflect.TypeOf(""), Tag: tag("name,omitempty")},
	})
	a := arg % 5
	v := reflect.New(outer).Elem()
	v.Field(0).SetInt(int64(a))
	v.Field(1).Field(0).SetInt(int64(a + 1))
	p := reflect.New(inner)
	p.Elem().Field(1).SetString("p")
	v.Field(3).Set(p)
	l := reflect.MakeSlice(reflect.SliceOf(inner), 2, 2)
	l.Index(0).Field(0).SetInt(int64(a))
	v.Field(5).Set(l)
	if a%2 == 0 {
		v.Field(6).SetString("n")
	}
	if arg%2 == 0 {
		return v.Addr().Interface()
	}
	return v.Interface()
}

func coldOpt(arg int) *ojg.Options {
	o := ojg.DefaultOptions
	o.Sort = true
	k := arg / 2
	o.OmitEmpty = k%2 == 1
	o.UseTags = (k/2)%2 == 1
	o.KeyExact = (k/4)%2 == 1
	o.NestEmbed = (k/8)%2 == 1
	o.OmitNil = (k/16)%2 == 1
	return &o
}

func coldOps() []Op {
	return []Op{
		{"cold oj.JSON", "struct", func(a int) (string, []byte) { return oj.JSON(coldValue(a), coldOpt(a)), nil }},
		{"cold oj.Marshal", "struct", func(a int) (string, []byte) {
			b, err := oj.Marshal(coldValue(a), coldOpt(a))
			return string(b) + errStr(err), b
		}},
		{"cold oj.JSON(pooled)", "struct", func(a int) (string, []byte) { return oj.JSON(coldValue(a)), nil }},
		{"cold sen.String", "struct", func(a int) (string, []byte) { return sen.String(coldValue(a), coldOpt(a)), nil }},
		{"cold alt.Decompose", "struct", func(a int) (string, []byte) { return sen.String(alt.Decompose(coldValue(a), coldOpt(a)), sortOpt), nil }},
		{"cold pretty.JSON", "struct", func(a int) (string, []byte) { return pretty.JSON(coldValue(a), coldOpt(a)), nil }},
	}
}

func init() {
	ops = append(ops, optOps()...)
	ops = append(ops, coldOps()...)
}
