package main

// Round-6 ops: strict oj.Marshal of values with LONG MarshalJSON output, Unmarshal / Recompose into json.Unmarshaler
// targets that yield while they read.  (The deep-data ops of that round were replaced by the deep[d] family of
// r7hookops.go: depth classes 10 / 100 / 500 / 1000 through every recursive entry point.)

import (
	"encoding/json"
	"fmt"
	"runtime"
	"strings"
	"time"

	"github.com/ohler55/ojg"
	"github.com/ohler55/ojg/alt"
	"github.com/ohler55/ojg/oj"
	"github.com/ohler55/ojg/sen"
)

// longM: MarshalJSON returns about 20 KiB of valid JSON that identifies the argument everywhere.
type longM struct{ arg int }

func (m longM) MarshalJSON() ([]byte, error) {
	var sb strings.Builder
	sb.WriteString(`{"arg":` + fmt.Sprint(m.arg) + `,"rows":[`)
	for i := 0; i < 330+m.arg; i++ {
		if i > 0 {
			sb.WriteByte(',')
		}
		fmt.Fprintf(&sb, `{"i":%d,"w":"%s","n":[%d,true,null]}`, i, strings.Repeat(string(rune('a'+m.arg%26)), 30), m.arg)
		if i%64 == 0 {
			runtime.Gosched()
		}
	}
	sb.WriteString(`]}`)
	return []byte(sb.String()), nil
}

type shortM struct{ arg int }

func (m shortM) MarshalJSON() ([]byte, error) { return []byte(fmt.Sprintf(`{"short":%d}`, m.arg)), nil }

// slowU: UnmarshalJSON yields and sleeps while it still holds the bytes it was given.
type slowU struct {
	Seen string
}

func (u *slowU) UnmarshalJSON(b []byte) error {
	runtime.Gosched()
	nap(30 * time.Microsecond)
	runtime.Gosched()
	u.Seen = string(b) // read AFTER other goroutines had time to run
	return nil
}

type unmTarget struct {
	ID  int
	T   time.Time
	Raw json.RawMessage
	U   slowU
	L   []slowU
}

func unmDoc(arg int) []byte {
	w := strings.Repeat(string(rune('a'+arg%26)), 40+arg)
	return []byte(fmt.Sprintf(`{"id":%d,"t":"2021-03-04T05:06:%02dZ","raw":{"r":[%d,"%s"]},"u":{"who":"%s-%d"},"l":[{"k":%d},{"k":"%s"}]}`,
		arg, arg%60, arg, w, w, arg, arg, w)) // single-member objects: the composer re-encodes maps unsorted
}

func digestOf(v any) string { return short(canonStd(v)) }

func r6Ops() []Op {
	srt := &ojg.Options{Sort: true}
	return []Op{
		// ---- strict marshal of json.Marshaler values (oj.Marshal validates what MarshalJSON returns)
		{"oj.Marshal(marshaler long)", "marshal", func(a int) (string, []byte) {
			b, err := oj.Marshal([]any{longM{a}, shortM{a}})
			return string(b) + errStr(err), b
		}},
		{"oj.Marshal(marshaler long,opts)", "pure", func(a int) (string, []byte) {
			b, err := oj.Marshal(map[string]any{"m": longM{a}, "s": &shortM{a}}, srt)
			return string(b) + errStr(err), b
		}},
		{"oj.Marshal(marshaler member)", "marshal", func(a int) (string, []byte) {
			b, err := oj.Marshal(struct {
				A int
				M longM
				P *shortM
			}{a, longM{a}, &shortM{a}})
			return string(b) + errStr(err), b
		}},
		{"oj.JSON(marshaler long)", "json", func(a int) (string, []byte) { return oj.JSON([]any{longM{a}}), nil }},
		{"sen.String(marshaler long)", "json", func(a int) (string, []byte) { return sen.String([]any{longM{a}}), nil }},
		// ---- json.Unmarshaler targets
		{"oj.Unmarshal(unmarshaler)", "parse", func(a int) (string, []byte) {
			var t unmTarget
			err := oj.Unmarshal(unmDoc(a), &t)
			return fmt.Sprintf("%d %s %s %s %v", t.ID, t.T.Format(time.RFC3339), t.Raw, t.U.Seen, t.L) + errStr(err), nil
		}},
		{"sen.Unmarshal(unmarshaler)", "parse", func(a int) (string, []byte) {
			var t unmTarget
			err := sen.Unmarshal(unmDoc(a), &t)
			return fmt.Sprintf("%d %s %s %s %v", t.ID, t.T.Format(time.RFC3339), t.Raw, t.U.Seen, t.L) + errStr(err), nil
		}},
		{"alt.Recompose(unmarshaler)", "recompose", func(a int) (string, []byte) {
			v, _ := oj.Parse(unmDoc(a))
			var t unmTarget
			_, err := alt.Recompose(v, &t)
			return fmt.Sprintf("%d %s %s %s %v", t.ID, t.T.Format(time.RFC3339), t.Raw, t.U.Seen, t.L) + errStr(err), nil
		}},
		{"oj.Unmarshal(raw)", "parse", func(a int) (string, []byte) {
			var r json.RawMessage // a one-member document: the composer re-encodes maps unsorted
			err := oj.Unmarshal([]byte(fmt.Sprintf(`{"only":[%d,"%s"]}`, a, strings.Repeat(string(rune('a'+a%26)), 60+a))), &r)
			return string(r) + errStr(err), nil
		}},
	}
}

func init() {
	// the process-wide recomposer needs its types registered BEFORE concurrent use (documented; excluded by the statement)
	if err := alt.DefaultRecomposer.RegisterComposer(&unmTarget{}, nil); err != nil {
		panic(err)
	}
	ops = append(ops, r6Ops()...)
}
