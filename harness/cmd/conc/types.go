package main

// A library of distinct named struct types: the first use of each one fills the struct-info caches
// of oj, sen and alt (Go cannot create named types at run time).

type embedded struct {
	E int `json:"e"`
}

type T00 struct {
	A00  int
	Name string `json:"name,omitempty"`
	List []int
	F    float64
	embedded
}

type T01 struct {
	A01  int
	Name string `json:"name,omitempty"`
	List []int
	F    float64
	Ptr  *int
}

type T02 struct {
	A02  int
	Name string `json:"name,omitempty"`
	List []int
	F    float64
	M    map[string]int
}

type T03 struct {
	A03  int
	Name string `json:"name,omitempty"`
	List []int
	F    float64
	embedded
}

type T04 struct {
	A04  int
	Name string `json:"name,omitempty"`
	List []int
	F    float64
}

type T05 struct {
	A05  int
	Name string `json:"name,omitempty"`
	List []int
	F    float64
	Ptr  *int
}

type T06 struct {
	A06  int
	Name string `json:"name,omitempty"`
	List []int
	F    float64
	embedded
}

type T07 struct {
	A07  int
	Name string `json:"name,omitempty"`
	List []int
	F    float64
	M    map[string]int
}

type T08 struct {
	A08  int
	Name string `json:"name,omitempty"`
	List []int
	F    float64
}

type T09 struct {
	A09  int
	Name string `json:"name,omitempty"`
	List []int
	F    float64
	embedded
	Ptr *int
}

type T10 struct {
	A10  int
	Name string `json:"name,omitempty"`
	List []int
	F    float64
}

type T11 struct {
	A11  int
	Name string `json:"name,omitempty"`
	List []int
	F    float64
}

type T12 struct {
	A12  int
	Name string `json:"name,omitempty"`
	List []int
	F    float64
	embedded
	M map[string]int
}

type T13 struct {
	A13  int
	Name string `json:"name,omitempty"`
	List []int
	F    float64
	Ptr  *int
}

type T14 struct {
	A14  int
	Name string `json:"name,omitempty"`
	List []int
	F    float64
}

type T15 struct {
	A15  int
	Name string `json:"name,omitempty"`
	List []int
	F    float64
	embedded
}

type T16 struct {
	A16  int
	Name string `json:"name,omitempty"`
	List []int
	F    float64
}

type T17 struct {
	A17  int
	Name string `json:"name,omitempty"`
	List []int
	F    float64
	Ptr  *int
	M    map[string]int
}

type T18 struct {
	A18  int
	Name string `json:"name,omitempty"`
	List []int
	F    float64
	embedded
}

type T19 struct {
	A19  int
	Name string `json:"name,omitempty"`
	List []int
	F    float64
}

type T20 struct {
	A20  int
	Name string `json:"name,omitempty"`
	List []int
	F    float64
}

type T21 struct {
	A21  int
	Name string `json:"name,omitempty"`
	List []int
	F    float64
	embedded
	Ptr *int
}

type T22 struct {
	A22  int
	Name string `json:"name,omitempty"`
	List []int
	F    float64
	M    map[string]int
}

type T23 struct {
	A23  int
	Name string `json:"name,omitempty"`
	List []int
	F    float64
}

var structMakers = []func(a int) any{
	func(a int) any {
		return &T00{A00: a + 0, Name: "n0" + esc(a)[:9], List: []int{a, 0}, F: 0.5, embedded: embedded{E: a}}
	},
	func(a int) any { return &T01{A01: a + 1, Name: "n1" + esc(a)[:9], List: []int{a, 1}, F: 0.5} },
	func(a int) any {
		return &T02{A02: a + 2, Name: "n2" + esc(a)[:9], List: []int{a, 2}, F: 0.5, M: map[string]int{"m": a}}
	},
	func(a int) any {
		return &T03{A03: a + 3, Name: "n3" + esc(a)[:9], List: []int{a, 3}, F: 0.5, embedded: embedded{E: a}}
	},
	func(a int) any { return &T04{A04: a + 4, Name: "n4" + esc(a)[:9], List: []int{a, 4}, F: 0.5} },
	func(a int) any { return &T05{A05: a + 5, Name: "n5" + esc(a)[:9], List: []int{a, 5}, F: 0.5} },
	func(a int) any {
		return &T06{A06: a + 6, Name: "n6" + esc(a)[:9], List: []int{a, 6}, F: 0.5, embedded: embedded{E: a}}
	},
	func(a int) any {
		return &T07{A07: a + 7, Name: "n7" + esc(a)[:9], List: []int{a, 7}, F: 0.5, M: map[string]int{"m": a}}
	},
	func(a int) any { return &T08{A08: a + 8, Name: "n8" + esc(a)[:9], List: []int{a, 8}, F: 0.5} },
	func(a int) any {
		return &T09{A09: a + 9, Name: "n9" + esc(a)[:9], List: []int{a, 9}, F: 0.5, embedded: embedded{E: a}}
	},
	func(a int) any { return &T10{A10: a + 10, Name: "n10" + esc(a)[:9], List: []int{a, 10}, F: 0.5} },
	func(a int) any { return &T11{A11: a + 11, Name: "n11" + esc(a)[:9], List: []int{a, 11}, F: 0.5} },
	func(a int) any {
		return &T12{A12: a + 12, Name: "n12" + esc(a)[:9], List: []int{a, 12}, F: 0.5, embedded: embedded{E: a}, M: map[string]int{"m": a}}
	},
	func(a int) any { return &T13{A13: a + 13, Name: "n13" + esc(a)[:9], List: []int{a, 13}, F: 0.5} },
	func(a int) any { return &T14{A14: a + 14, Name: "n14" + esc(a)[:9], List: []int{a, 14}, F: 0.5} },
	func(a int) any {
		return &T15{A15: a + 15, Name: "n15" + esc(a)[:9], List: []int{a, 15}, F: 0.5, embedded: embedded{E: a}}
	},
	func(a int) any { return &T16{A16: a + 16, Name: "n16" + esc(a)[:9], List: []int{a, 16}, F: 0.5} },
	func(a int) any {
		return &T17{A17: a + 17, Name: "n17" + esc(a)[:9], List: []int{a, 17}, F: 0.5, M: map[string]int{"m": a}}
	},
	func(a int) any {
		return &T18{A18: a + 18, Name: "n18" + esc(a)[:9], List: []int{a, 18}, F: 0.5, embedded: embedded{E: a}}
	},
	func(a int) any { return &T19{A19: a + 19, Name: "n19" + esc(a)[:9], List: []int{a, 19}, F: 0.5} },
	func(a int) any { return &T20{A20: a + 20, Name: "n20" + esc(a)[:9], List: []int{a, 20}, F: 0.5} },
	func(a int) any {
		return &T21{A21: a + 21, Name: "n21" + esc(a)[:9], List: []int{a, 21}, F: 0.5, embedded: embedded{E: a}}
	},
	func(a int) any {
		return &T22{A22: a + 22, Name: "n22" + esc(a)[:9], List: []int{a, 22}, F: 0.5, M: map[string]int{"m": a}}
	},
	func(a int) any { return &T23{A23: a + 23, Name: "n23" + esc(a)[:9], List: []int{a, 23}, F: 0.5} },
}

// Types whose nested struct types are reachable only through containers of pointers ([]*T, map[string]*T,
// [2]*T; **T is not supported by the recomposer at all). Only the top-level types are registered beforehand.

type N00A struct {
	V int
	S string
}

type N00B struct {
	V0 int
}

type N00C struct {
	F float64
}

type N00 struct {
	Kids   []*N00A
	ByName map[string]*N00B
	Arr    [2]*N00C
	N      int
}

type N01A struct {
	V int
	S string
}

type N01B struct {
	V1 int
}

type N01C struct {
	F float64
}

type N01 struct {
	Kids   []*N01A
	ByName map[string]*N01B
	Arr    [2]*N01C
	N      int
}

type N02A struct {
	V int
	S string
}

type N02B struct {
	V2 int
}

type N02C struct {
	F float64
}

type N02 struct {
	Kids   []*N02A
	ByName map[string]*N02B
	Arr    [2]*N02C
	N      int
}

type N03A struct {
	V int
	S string
}

type N03B struct {
	V3 int
}

type N03C struct {
	F float64
}

type N03 struct {
	Kids   []*N03A
	ByName map[string]*N03B
	Arr    [2]*N03C
	N      int
}

type N04A struct {
	V int
	S string
}

type N04B struct {
	V4 int
}

type N04C struct {
	F float64
}

type N04 struct {
	Kids   []*N04A
	ByName map[string]*N04B
	Arr    [2]*N04C
	N      int
}

type N05A struct {
	V int
	S string
}

type N05B struct {
	V5 int
}

type N05C struct {
	F float64
}

type N05 struct {
	Kids   []*N05A
	ByName map[string]*N05B
	Arr    [2]*N05C
	N      int
}

type N06A struct {
	V int
	S string
}

type N06B struct {
	V6 int
}

type N06C struct {
	F float64
}

type N06 struct {
	Kids   []*N06A
	ByName map[string]*N06B
	Arr    [2]*N06C
	N      int
}

type N07A struct {
	V int
	S string
}

type N07B struct {
	V7 int
}

type N07C struct {
	F float64
}

type N07 struct {
	Kids   []*N07A
	ByName map[string]*N07B
	Arr    [2]*N07C
	N      int
}

var nestedMakers = []func(a int) any{
	func(a int) any {
		c := &N00C{F: float64(a) + 0.25}
		return &N00{Kids: []*N00A{{V: a, S: "s0"}, {V: a + 0}}, ByName: map[string]*N00B{"k": {V0: a}, "m": {V0: 0}}, Arr: [2]*N00C{c, nil}, N: a}
	},
	func(a int) any {
		c := &N01C{F: float64(a) + 0.25}
		return &N01{Kids: []*N01A{{V: a, S: "s1"}, {V: a + 1}}, ByName: map[string]*N01B{"k": {V1: a}, "m": {V1: 1}}, Arr: [2]*N01C{c, nil}, N: a}
	},
	func(a int) any {
		c := &N02C{F: float64(a) + 0.25}
		return &N02{Kids: []*N02A{{V: a, S: "s2"}, {V: a + 2}}, ByName: map[string]*N02B{"k": {V2: a}, "m": {V2: 2}}, Arr: [2]*N02C{c, nil}, N: a}
	},
	func(a int) any {
		c := &N03C{F: float64(a) + 0.25}
		return &N03{Kids: []*N03A{{V: a, S: "s3"}, {V: a + 3}}, ByName: map[string]*N03B{"k": {V3: a}, "m": {V3: 3}}, Arr: [2]*N03C{c, nil}, N: a}
	},
	func(a int) any {
		c := &N04C{F: float64(a) + 0.25}
		return &N04{Kids: []*N04A{{V: a, S: "s4"}, {V: a + 4}}, ByName: map[string]*N04B{"k": {V4: a}, "m": {V4: 4}}, Arr: [2]*N04C{c, nil}, N: a}
	},
	func(a int) any {
		c := &N05C{F: float64(a) + 0.25}
		return &N05{Kids: []*N05A{{V: a, S: "s5"}, {V: a + 5}}, ByName: map[string]*N05B{"k": {V5: a}, "m": {V5: 5}}, Arr: [2]*N05C{c, nil}, N: a}
	},
	func(a int) any {
		c := &N06C{F: float64(a) + 0.25}
		return &N06{Kids: []*N06A{{V: a, S: "s6"}, {V: a + 6}}, ByName: map[string]*N06B{"k": {V6: a}, "m": {V6: 6}}, Arr: [2]*N06C{c, nil}, N: a}
	},
	func(a int) any {
		c := &N07C{F: float64(a) + 0.25}
		return &N07{Kids: []*N07A{{V: a, S: "s7"}, {V: a + 7}}, ByName: map[string]*N07B{"k": {V7: a}, "m": {V7: 7}}, Arr: [2]*N07C{c, nil}, N: a}
	},
}

// Struct types behind TWO container levels ([][]*T, map[string][]T): see findings/C08.md #2.

type D00L struct {
	V int
}

type D00M struct {
	W0 int
}

type D00 struct {
	Grid [][]*D00L
	M    map[string][]D00M
	N    int
}

type D01L struct {
	V int
}

type D01M struct {
	W1 int
}

type D01 struct {
	Grid [][]*D01L
	M    map[string][]D01M
	N    int
}

type D02L struct {
	V int
}

type D02M struct {
	W2 int
}

type D02 struct {
	Grid [][]*D02L
	M    map[string][]D02M
	N    int
}

type D03L struct {
	V int
}

type D03M struct {
	W3 int
}

type D03 struct {
	Grid [][]*D03L
	M    map[string][]D03M
	N    int
}

var nested2Makers = []func(a int) any{
	func(a int) any {
		return &D00{Grid: [][]*D00L{{{V: a}}, {{V: a + 1}, {V: 0}}}, M: map[string][]D00M{"k": {{W0: a}}}, N: a}
	},
	func(a int) any {
		return &D01{Grid: [][]*D01L{{{V: a}}, {{V: a + 1}, {V: 1}}}, M: map[string][]D01M{"k": {{W1: a}}}, N: a}
	},
	func(a int) any {
		return &D02{Grid: [][]*D02L{{{V: a}}, {{V: a + 1}, {V: 2}}}, M: map[string][]D02M{"k": {{W2: a}}}, N: a}
	},
	func(a int) any {
		return &D03{Grid: [][]*D03L{{{V: a}}, {{V: a + 1}, {V: 3}}}, M: map[string][]D03M{"k": {{W3: a}}}, N: a}
	},
}
