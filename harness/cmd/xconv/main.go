// Command xconv drives ojg.Converter / ojg.Convert (and the alt entry points that take a Converter) and the scalar
// coercion functions alt.Bool / Int / Float / String / Time for the extension check XCONV
// (spec/Converter.tla, spec/Coerce.tla).
//
//	xconv gen  [-tier quick|thorough]   > cases.ndjson    seeded random cases (no expectations)
//	xconv exec                          < cases.ndjson > trace.ndjson
//
// INPUT ENCODING of a Go value (what TLC and `gen` emit; `g` is the Go type to build):
//
//	{g:"nil"} {g:"bool"|"gen.Bool", b} {g:"int"|"int8"|..|"uint64"|"gen.Int", i:[sign(0|1), digits...]}
//	{g:"float32"|"float64"|"gen.Float", f:"literal"} {g:"string"|"gen.String"|"gen.Big"|"json.Number"|"[]byte", s:"text"}
//	{g:"time.Time"|"gen.Time", s:"RFC3339Nano"} {g:"[]any"|"gen.Array"|"[]string"|"[]int", a:[...]}
//	{g:"map[string]any"|"gen.Object"|"map[string]int"|"map[string]string", o:[keys], v:[...]} {g:"struct"}
//
// ABSTRACT PROJECTION of a Go value (what the trace specifications read; the KIND IS THE FIELD NAME, every leaf carries
// its Go type g): {nul:0} {b,g} {i:[sign,digits..],g} {f:[shortest64, shortest32, bits],g} {s,g} {big,g} {by,g}
// {t:[sign,digits of Unix seconds..], n:nanoseconds, g} {a:[..],g} {o:[sorted keys], v:[..], g} {x:"%T", p:"%#v"}.
// Leaf numerics and times go through harness/absval (the shared projection), re-tagged.
//
// A converter case is {id, part:"conv", api:"method"|"func"|"alter"|"decompose", conv:"table"|"rfc3339"|"nano"|"mongo"|
// "rfc3339+mongo"|"none", rules:[{k, m, r}], junk:bool, v}:  a table rule {k:"int", m:{i:[..]}}, {k:"flt", m:{f:"0.5"}},
// {k:"str"|"map"|"arr", m:{s:"text"}} matches an int / float / string EQUAL to m, a map with exactly one member whose key
// is m, an array whose first element is the string m; its result r is {c: value} (a constant, built fresh per call) or
// {u:1} (the matched scalar itself / the member of the map / the last element of the array).  The closures LOOK UP this
// table; they contain no expectation.
//
// A coercion case is {id, part:"coerce", fn:"Bool"|"Int"|"Float"|"String"|"Time", v, d:[0..2 defaults]}.
//
// The driver decides nothing.  It records the projected input, result, the provided value after the call, identity of
// the returned container, panics, and FACTS TLC cannot compute on string atoms / 64-bit numbers, all from the standard
// library only (strconv / time / math/big parses of strings, truncation and micro-second floor of floats, the nearest
// float64 of an integer).  Which branch of the documented tables applies is decided by TLC (TraceConverter, TraceCoerce).
package main

import (
	"bufio"
	"encoding/json"
	"flag"
	"fmt"
	"math"
	"math/big"
	"math/rand"
	"os"
	"reflect"
	"sort"
	"strconv"
	"strings"
	"time"

	"github.com/ohler55/ojg"
	"github.com/ohler55/ojg/alt"
	"github.com/ohler55/ojg/gen"

	"verif/harness/absval"
)

type M = map[string]any

func main() {
	if len(os.Args) < 2 {
		fmt.Fprintln(os.Stderr, "usage: xconv gen|exec ...")
		os.Exit(2)
	}
	switch os.Args[1] {
	case "gen":
		genCases(os.Args[2:])
	case "exec":
		execCases()
	default:
		fmt.Fprintln(os.Stderr, "usage: xconv gen|exec ...")
		os.Exit(2)
	}
}

// ---------------------------------------------------------------------------------------------- digits

func digitsOf(s string) []int { // decimal text -> [sign, digits...] without leading zeros ("0" -> [0,0])
	neg := 0
	if strings.HasPrefix(s, "-") {
		neg, s = 1, s[1:]
	} else if strings.HasPrefix(s, "+") {
		s = s[1:]
	}
	s = strings.TrimLeft(s, "0")
	if s == "" {
		return []int{0, 0}
	}
	r := []int{neg}
	for _, c := range s {
		r = append(r, int(c-'0'))
	}
	return r
}

func textOf(d []any) string { // [sign, digits...] -> decimal text
	var sb strings.Builder
	if len(d) > 0 && num(d[0]) == 1 {
		sb.WriteByte('-')
	}
	for _, x := range d[1:] {
		sb.WriteByte(byte('0' + num(x)))
	}
	if len(d) < 2 {
		sb.WriteByte('0')
	}
	return sb.String()
}

func num(x any) int {
	switch t := x.(type) {
	case float64:
		return int(t)
	case int:
		return t
	case json.Number:
		i, _ := t.Int64()
		return int(i)
	}
	return 0
}

// ---------------------------------------------------------------------------------------------- materialise

type opaque struct{ A int }

func mat(e any) any {
	m, _ := e.(map[string]any)
	g, _ := m["g"].(string)
	switch g {
	case "nil":
		return nil
	case "bool":
		return m["b"].(bool)
	case "gen.Bool":
		return gen.Bool(m["b"].(bool))
	case "int", "int8", "int16", "int32", "int64", "uint", "uint8", "uint16", "uint32", "uint64", "gen.Int":
		txt := textOf(m["i"].([]any))
		if strings.HasPrefix(g, "uint") {
			u, err := strconv.ParseUint(txt, 10, 64)
			if err != nil {
				panic("bad case: " + txt + " as " + g)
			}
			switch g {
			case "uint":
				return uint(u)
			case "uint8":
				return uint8(u)
			case "uint16":
				return uint16(u)
			case "uint32":
				return uint32(u)
			}
			return u
		}
		i, err := strconv.ParseInt(txt, 10, 64)
		if err != nil {
			panic("bad case: " + txt + " as " + g)
		}
		switch g {
		case "int":
			return int(i)
		case "int8":
			return int8(i)
		case "int16":
			return int16(i)
		case "int32":
			return int32(i)
		case "gen.Int":
			return gen.Int(i)
		}
		return i
	case "float32":
		f, _ := strconv.ParseFloat(m["f"].(string), 32)
		return float32(f)
	case "float64":
		f, _ := strconv.ParseFloat(m["f"].(string), 64)
		return f
	case "gen.Float":
		f, _ := strconv.ParseFloat(m["f"].(string), 64)
		return gen.Float(f)
	case "string":
		return m["s"].(string)
	case "gen.String":
		return gen.String(m["s"].(string))
	case "gen.Big":
		return gen.Big(m["s"].(string))
	case "json.Number":
		return json.Number(m["s"].(string))
	case "[]byte":
		return []byte(m["s"].(string))
	case "time.Time", "gen.Time":
		t, err := time.Parse(time.RFC3339Nano, m["s"].(string))
		if err != nil {
			panic("bad case time: " + m["s"].(string))
		}
		t = t.UTC()
		if g == "gen.Time" {
			return gen.Time(t)
		}
		return t
	case "[]any":
		a := []any{}
		for _, x := range arr(m["a"]) {
			a = append(a, mat(x))
		}
		return a
	case "gen.Array":
		a := gen.Array{}
		for _, x := range arr(m["a"]) {
			n, _ := mat(x).(gen.Node)
			a = append(a, n)
		}
		return a
	case "[]string":
		a := []string{}
		for _, x := range arr(m["a"]) {
			s, _ := mat(x).(string)
			a = append(a, s)
		}
		return a
	case "[]int":
		a := []int{}
		for _, x := range arr(m["a"]) {
			i, _ := mat(x).(int)
			a = append(a, i)
		}
		return a
	case "map[string]any":
		o := map[string]any{}
		vs := arr(m["v"])
		for j, k := range arr(m["o"]) {
			o[k.(string)] = mat(vs[j])
		}
		return o
	case "gen.Object":
		o := gen.Object{}
		vs := arr(m["v"])
		for j, k := range arr(m["o"]) {
			n, _ := mat(vs[j]).(gen.Node)
			o[k.(string)] = n
		}
		return o
	case "map[string]int":
		o := map[string]int{}
		vs := arr(m["v"])
		for j, k := range arr(m["o"]) {
			i, _ := mat(vs[j]).(int)
			o[k.(string)] = i
		}
		return o
	case "map[string]string":
		o := map[string]string{}
		vs := arr(m["v"])
		for j, k := range arr(m["o"]) {
			s, _ := mat(vs[j]).(string)
			o[k.(string)] = s
		}
		return o
	case "struct":
		return opaque{A: 1}
	}
	panic(fmt.Sprintf("bad case: unknown g %q in %v", g, e))
}

func arr(x any) []any {
	a, _ := x.([]any)
	return a
}

// ---------------------------------------------------------------------------------------------- projection

var atoms = absval.Opt{StrAtoms: true}

func s32(f float64) string { return strconv.FormatFloat(float64(float32(f)), 'g', -1, 32) }

func fl(f float64, bits int) []any {
	a, _ := atoms.Encode(f).(map[string]any) // absval: {"t":"flt","s": shortest repr}
	return []any{a["s"], s32(f), bits}
}

func tm(t time.Time, g string) M {
	a, _ := atoms.Encode(t).(map[string]any) // absval: {"t":"time","sec":..,"nsec":..}
	return M{"t": digitsOf(a["sec"].(string)), "n": a["nsec"], "g": g}
}

func proj(v any) any {
	switch t := v.(type) {
	case nil:
		return M{"nul": 0}
	case bool:
		return M{"b": t, "g": "bool"}
	case gen.Bool:
		return M{"b": bool(t), "g": "gen.Bool"}
	case int, int8, int16, int32, int64, gen.Int:
		return M{"i": digitsOf(strconv.FormatInt(reflect.ValueOf(v).Int(), 10)), "g": fmt.Sprintf("%T", v)}
	case uint, uint8, uint16, uint32, uint64:
		return M{"i": digitsOf(strconv.FormatUint(reflect.ValueOf(v).Uint(), 10)), "g": fmt.Sprintf("%T", v)}
	case float32:
		return M{"f": fl(float64(t), 32), "g": "float32"}
	case float64:
		return M{"f": fl(t, 64), "g": "float64"}
	case gen.Float:
		return M{"f": fl(float64(t), 64), "g": "gen.Float"}
	case string:
		return M{"s": t, "g": "string"}
	case gen.String:
		return M{"s": string(t), "g": "gen.String"}
	case gen.Big:
		return M{"big": string(t), "g": "gen.Big"}
	case json.Number:
		return M{"big": string(t), "g": "json.Number"}
	case []byte:
		return M{"by": string(t), "g": "[]byte"}
	case time.Time:
		return tm(t, "time.Time")
	case gen.Time:
		return tm(time.Time(t), "gen.Time")
	case []any:
		a := make([]any, len(t))
		for i, e := range t {
			a[i] = proj(e)
		}
		return M{"a": a, "g": "[]any"}
	case gen.Array:
		a := make([]any, len(t))
		for i, e := range t {
			a[i] = proj(e)
		}
		return M{"a": a, "g": "gen.Array"}
	case []string:
		a := make([]any, len(t))
		for i, e := range t {
			a[i] = proj(e)
		}
		return M{"a": a, "g": "[]string"}
	case []int:
		a := make([]any, len(t))
		for i, e := range t {
			a[i] = proj(e)
		}
		return M{"a": a, "g": "[]int"}
	case map[string]any:
		return projMap(reflect.ValueOf(t), "map[string]any")
	case gen.Object:
		return projMap(reflect.ValueOf(t), "gen.Object")
	case map[string]int:
		return projMap(reflect.ValueOf(t), "map[string]int")
	case map[string]string:
		return projMap(reflect.ValueOf(t), "map[string]string")
	}
	return M{"x": fmt.Sprintf("%T", v), "p": fmt.Sprintf("%#v", v)}
}

func projMap(rv reflect.Value, g string) any {
	keys := []string{}
	for _, k := range rv.MapKeys() {
		keys = append(keys, k.String())
	}
	sort.Strings(keys)
	ks := make([]any, len(keys))
	vs := make([]any, len(keys))
	for i, k := range keys {
		ks[i] = k
		vs[i] = proj(rv.MapIndex(reflect.ValueOf(k)).Interface())
	}
	return M{"o": ks, "v": vs, "g": g}
}

// ---------------------------------------------------------------------------------------------- facts (stdlib only)

var zeroT = M{"t": []int{0, 0}, "n": 0, "g": "time.Time"}

func layoutFact(s string, layouts ...string) (int, any) {
	cls, val := 0, any(zeroT)
	for _, l := range layouts {
		if t, err := time.ParseInLocation(l, s, time.UTC); err == nil {
			c := 1
			if t.Format(l) == s {
				c = 2
			}
			if c > cls {
				cls, val = c, tm(t, "time.Time")
			}
		}
	}
	return cls, val
}

func floatFacts(f float64) M {
	r := M{"nan": math.IsNaN(f), "inf": math.IsInf(f, 0), "whole": false, "tr": []int{0, 0}, "us": 0, "usok": false, "neg": f < 0}
	if math.IsNaN(f) || math.IsInf(f, 0) {
		return r
	}
	r["whole"] = f == math.Trunc(f)
	bi, _ := new(big.Float).SetFloat64(math.Trunc(f)).Int(nil)
	r["tr"] = digitsOf(bi.String())
	if math.Abs(f) < 2000 {
		// floor(f * 10^6), exact
		x := new(big.Rat).SetFloat64(f)
		x.Mul(x, big.NewRat(1000000, 1))
		q := new(big.Int).Div(x.Num(), x.Denom()) // Euclidean division: floor for a positive denominator
		r["us"], r["usok"] = int(q.Int64()), true
	}
	return r
}

// stringFacts: everything the specifications need to know about a string atom.
func stringFacts(s string) M {
	r := M{"s": s}
	r["n3"], r["n3t"] = layoutFact(s, time.RFC3339Nano, time.RFC3339)
	r["dt"], r["dtt"] = layoutFact(s, "2006-01-02")
	r["md"], r["mdt"] = layoutFact(s, "2006-01-02T15:04:05.999Z07:00")
	// integer reading: 2 = canonical decimal (what FormatInt prints), 1 = another spelling big.Int / ParseInt reads
	r["bi"], r["biv"], r["pi"] = 0, []int{0, 0}, false
	if _, err := strconv.ParseInt(s, 10, 64); err == nil {
		r["pi"] = true
	}
	plain := s != "" && strings.Trim(s, "+-0123456789") == "" && strings.Trim(s[1:], "0123456789") == ""
	if bi, ok := new(big.Int).SetString(s, 10); ok && plain {
		r["bi"], r["biv"] = 1, digitsOf(bi.String())
		if bi.String() == s {
			r["bi"] = 2
		}
	}
	// float reading: 2 = plain decimal / exponent literal, 1 = only strconv reads it (inf, nan, hex, underscores)
	r["pf"], r["pfv"], r["pff"], r["pf32"], r["pfrange"] = 0, fl(0, 64), floatFacts(0), "0", 0
	if f, err := strconv.ParseFloat(s, 64); err == nil || (err != nil && isRange(err)) {
		r["pf"] = 1
		if strings.Trim(s, "+-0123456789.eE") == "" && !math.IsInf(f, 0) {
			r["pf"] = 2
		}
		if err != nil { // out of range: strconv returns +-Inf together with an error (pfrange = sign)
			r["pf"], r["pfrange"] = 0, 1
			if f < 0 {
				r["pfrange"] = -1
			}
		} else {
			r["pfv"], r["pff"] = fl(f, 64), floatFacts(f)
			f32, _ := strconv.ParseFloat(s, 32)
			r["pf32"] = s32(f32)
		}
	}
	r["pt"], r["ptt"] = false, zeroT
	if t, err := time.Parse(time.RFC3339Nano, s); err == nil {
		r["pt"], r["ptt"] = true, tm(t, "time.Time")
	}
	// boolean reading: 3 = exactly true/false, 2 = another letter case, 1 = only strconv.ParseBool reads it
	r["bx"], r["bv"] = 0, false
	if s == "true" || s == "false" {
		r["bx"], r["bv"] = 3, s == "true"
	} else if strings.EqualFold(s, "true") || strings.EqualFold(s, "false") {
		r["bx"], r["bv"] = 2, strings.EqualFold(s, "true")
	} else if b, err := strconv.ParseBool(s); err == nil {
		r["bx"], r["bv"] = 1, b
	}
	return r
}

func isRange(err error) bool {
	ne, ok := err.(*strconv.NumError)
	return ok && ne.Err == strconv.ErrRange
}

// valueFacts: facts about a coercion input (dummy fields where they do not apply).
func valueFacts(v any) M {
	r := M{"sf": stringFacts(""), "ff": floatFacts(0), "nf": fl(0, 64), "uns": []int{0, 0}, "unsok": false, "tf": fl(0, 64), "tfx": false}
	switch t := v.(type) {
	case string:
		r["sf"] = stringFacts(t)
	case gen.String:
		r["sf"] = stringFacts(string(t))
	case gen.Big:
		r["sf"] = stringFacts(string(t))
	case json.Number:
		r["sf"] = stringFacts(string(t))
	case []byte:
		r["sf"] = stringFacts(string(t))
	case float32:
		r["ff"] = floatFacts(float64(t))
	case float64:
		r["ff"] = floatFacts(t)
	case gen.Float:
		r["ff"] = floatFacts(float64(t))
	case int, int8, int16, int32, int64, gen.Int:
		f, _ := new(big.Float).SetInt64(reflect.ValueOf(v).Int()).Float64()
		r["nf"] = fl(f, 64)
	case uint, uint8, uint16, uint32, uint64:
		f, _ := new(big.Float).SetUint64(reflect.ValueOf(v).Uint()).Float64()
		r["nf"] = fl(f, 64)
	case time.Time:
		timeFacts(r, t)
	case gen.Time:
		timeFacts(r, time.Time(t))
	}
	return r
}

func timeFacts(r M, t time.Time) {
	ns := new(big.Int).Mul(big.NewInt(t.Unix()), big.NewInt(1000000000))
	ns.Add(ns, big.NewInt(int64(t.Nanosecond())))
	r["uns"], r["unsok"] = digitsOf(ns.String()), ns.IsInt64()
	f, exact := new(big.Rat).SetFrac(ns, big.NewInt(1000000000)).Float64()
	r["tf"], r["tfx"] = fl(f, 64), exact
}

func collectStrings(v any, set map[string]bool) {
	switch t := v.(type) {
	case string:
		set[t] = true
	case []any:
		for _, e := range t {
			collectStrings(e, set)
		}
	case map[string]any:
		for _, e := range t {
			collectStrings(e, set)
		}
	case gen.String:
		set[string(t)] = true
	case gen.Array:
		for _, e := range t {
			collectStrings(e, set)
		}
	case gen.Object:
		for _, e := range t {
			collectStrings(e, set)
		}
	case []string:
		for _, e := range t {
			set[e] = true
		}
	case map[string]string:
		for _, e := range t {
			set[e] = true
		}
	}
}

// ---------------------------------------------------------------------------------------------- exec

func execCases() {
	in := bufio.NewReaderSize(os.Stdin, 1<<20)
	out := bufio.NewWriterSize(os.Stdout, 1<<20)
	defer out.Flush()
	dec := json.NewDecoder(in)
	enc := json.NewEncoder(out)
	for {
		var c map[string]any
		if err := dec.Decode(&c); err != nil {
			break
		}
		var rec M
		switch c["part"] {
		case "conv":
			rec = runConv(c)
		case "coerce":
			rec = runCoerce(c)
		default:
			fmt.Fprintln(os.Stderr, "bad case part", c["part"])
			os.Exit(2)
		}
		if err := enc.Encode(rec); err != nil {
			fmt.Fprintln(os.Stderr, "encode:", err)
			os.Exit(2)
		}
	}
}

type rule struct {
	k     string
	mi    string // decimal text (int rules)
	mf    float64
	ms    string
	u     bool
	c     any // input encoding of the constant result
	calls *int
}

func parseRules(c map[string]any) ([]rule, []any) {
	var rs []rule
	abs := []any{}
	for _, x := range arr(c["rules"]) {
		m := x.(map[string]any)
		r := rule{k: m["k"].(string)}
		mm, _ := m["m"].(map[string]any)
		a := M{"k": r.k, "mi": []int{0, 0}, "ms": "", "ru": 0, "rc": M{"nul": 0}}
		switch r.k {
		case "int":
			r.mi = textOf(mm["i"].([]any))
			a["mi"] = digitsOf(r.mi)
		case "flt":
			r.mf, _ = strconv.ParseFloat(mm["f"].(string), 64)
			a["ms"] = fl(r.mf, 64)[0]
		default:
			r.ms = mm["s"].(string)
			a["ms"] = r.ms
		}
		rr, _ := m["r"].(map[string]any)
		if cv, ok := rr["c"]; ok {
			r.c = cv
			a["rc"] = proj(mat(cv))
		} else {
			r.u = true
			a["ru"] = 1
		}
		rs = append(rs, r)
		abs = append(abs, a)
	}
	return rs, abs
}

func (r rule) result(self any) any {
	if r.u {
		return self
	}
	return mat(r.c)
}

// funcs builds the closures of the table rules, in order.
func funcs(rs []rule) []any {
	var fs []any
	for _, r := range rs {
		r := r
		switch r.k {
		case "int":
			fs = append(fs, func(val int64) (any, bool) {
				if strconv.FormatInt(val, 10) == r.mi {
					return r.result(val), true
				}
				return val, false
			})
		case "flt":
			fs = append(fs, func(val float64) (any, bool) {
				if val == r.mf {
					return r.result(val), true
				}
				return val, false
			})
		case "str":
			fs = append(fs, func(val string) (any, bool) {
				if val == r.ms {
					return r.result(val), true
				}
				return val, false
			})
		case "map":
			fs = append(fs, func(val map[string]any) (any, bool) {
				if len(val) == 1 {
					if m, has := val[r.ms]; has {
						return r.result(m), true
					}
				}
				return val, false
			})
		case "arr":
			fs = append(fs, func(val []any) (any, bool) {
				if len(val) > 0 {
					if s, ok := val[0].(string); ok && s == r.ms {
						return r.result(val[len(val)-1]), true
					}
				}
				return val, false
			})
		}
	}
	return fs
}

func converterOf(conv string, fs []any) *ojg.Converter {
	switch conv {
	case "rfc3339":
		return &ojg.TimeRFC3339Converter
	case "nano":
		return &ojg.TimeNanoConverter
	case "mongo":
		return &ojg.MongoConverter
	case "rfc3339+mongo":
		return &ojg.Converter{String: ojg.TimeRFC3339Converter.String, Map: ojg.MongoConverter.Map}
	}
	c := &ojg.Converter{}
	for _, f := range fs {
		switch tf := f.(type) {
		case func(int64) (any, bool):
			c.Int = append(c.Int, tf)
		case func(float64) (any, bool):
			c.Float = append(c.Float, tf)
		case func(string) (any, bool):
			c.String = append(c.String, tf)
		case func(map[string]any) (any, bool):
			c.Map = append(c.Map, tf)
		case func([]any) (any, bool):
			c.Array = append(c.Array, tf)
		}
	}
	return c
}

func sameContainer(a, b any) bool {
	switch ta := a.(type) {
	case []any:
		tb, ok := b.([]any)
		if !ok || len(ta) != len(tb) {
			return false
		}
		if len(ta) == 0 {
			return true
		}
		return &ta[0] == &tb[0]
	case map[string]any:
		tb, ok := b.(map[string]any)
		return ok && reflect.ValueOf(ta).Pointer() == reflect.ValueOf(tb).Pointer()
	}
	return false
}

func runConv(c map[string]any) M {
	api, _ := c["api"].(string)
	conv, _ := c["conv"].(string)
	rs, absRules := parseRules(c)
	v := mat(c["v"])
	strs := map[string]bool{}
	collectStrings(v, strs)
	rec := M{"id": c["id"], "part": "conv", "api": api, "conv": conv, "rules": absRules, "in": proj(v), "panic": "",
		"out": M{"nul": 0}, "after": M{"nul": 0}, "same": false}
	keys := []string{}
	for s := range strs {
		keys = append(keys, s)
	}
	sort.Strings(keys)
	facts := []any{}
	for _, s := range keys {
		facts = append(facts, stringFacts(s))
	}
	rec["facts"] = facts
	fs := funcs(rs)
	if j, _ := c["junk"].(bool); j {
		fs = append([]any{func(b bool) (any, bool) { return !b, true }, 7}, fs...)
	}
	func() {
		defer func() {
			if r := recover(); r != nil {
				rec["panic"] = fmt.Sprintf("%T: %v", r, r)
			}
		}()
		var out any
		switch api {
		case "method":
			out = converterOf(conv, fs).Convert(v)
		case "func":
			out = ojg.Convert(v, fs...)
		case "alter":
			out = alt.Alter(v, &ojg.Options{Converter: converterOf(conv, fs)})
		case "decompose":
			out = alt.Decompose(v, &ojg.Options{Converter: converterOf(conv, fs)})
		default:
			panic("bad api " + api)
		}
		rec["out"] = proj(out)
		rec["same"] = sameContainer(v, out)
	}()
	rec["after"] = proj(v)
	return rec
}

func runCoerce(c map[string]any) M {
	fn, _ := c["fn"].(string)
	v := mat(c["v"])
	ds := arr(c["d"])
	rec := M{"id": c["id"], "part": "coerce", "fn": fn, "in": proj(v), "nd": len(ds), "panic": "", "out": M{"nul": 0},
		"F": valueFacts(v), "OF": stringFacts("")}
	dabs := []any{}
	dv := []any{}
	for _, d := range ds {
		x := mat(d)
		dv = append(dv, x)
		dabs = append(dabs, proj(x))
	}
	rec["d"] = dabs
	func() {
		defer func() {
			if r := recover(); r != nil {
				rec["panic"] = fmt.Sprintf("%T: %v", r, r)
			}
		}()
		var out any
		switch fn {
		case "Bool":
			a := make([]bool, len(dv))
			for i, x := range dv {
				a[i] = x.(bool)
			}
			out = alt.Bool(v, a...)
		case "Int":
			a := make([]int64, len(dv))
			for i, x := range dv {
				a[i] = x.(int64)
			}
			out = alt.Int(v, a...)
		case "Float":
			a := make([]float64, len(dv))
			for i, x := range dv {
				a[i] = x.(float64)
			}
			out = alt.Float(v, a...)
		case "String":
			a := make([]string, len(dv))
			for i, x := range dv {
				a[i] = x.(string)
			}
			s := alt.String(v, a...)
			rec["OF"] = stringFacts(s)
			out = s
		case "Time":
			a := make([]time.Time, len(dv))
			for i, x := range dv {
				a[i] = x.(time.Time)
			}
			out = alt.Time(v, a...)
		default:
			panic("bad fn " + fn)
		}
		rec["out"] = proj(out)
	}()
	return rec
}

// ---------------------------------------------------------------------------------------------- gen (seeded random)

func ienc(g string, txt string) M { return M{"g": g, "i": digitsOf(txt)} }

func genCases(args []string) {
	fs := flag.NewFlagSet("gen", flag.ExitOnError)
	tier := fs.String("tier", "quick", "")
	_ = fs.Parse(args)
	seed, _ := strconv.ParseInt(os.Getenv("VERIF_SEED"), 10, 64)
	if seed == 0 {
		seed = 1
	}
	rnd := rand.New(rand.NewSource(seed))
	n := 600
	if *tier == "thorough" {
		n = 40000
	}
	out := bufio.NewWriter(os.Stdout)
	defer out.Flush()
	enc := json.NewEncoder(out)
	for i := 0; i < n; i++ {
		_ = enc.Encode(randCoerce(rnd))
	}
	for i := 0; i < n; i++ {
		_ = enc.Encode(randConv(rnd))
	}
}

var intKinds = []string{"int", "int8", "int16", "int32", "int64", "uint", "uint8", "uint16", "uint32", "uint64", "gen.Int"}

func randIntEnc(rnd *rand.Rand) M {
	g := intKinds[rnd.Intn(len(intKinds))]
	var lo, hi *big.Int
	one := big.NewInt(1)
	bits := map[string]uint{"int8": 7, "int16": 15, "int32": 31, "uint8": 8, "uint16": 16, "uint32": 32, "uint": 64, "uint64": 64}[g]
	if bits == 0 {
		bits = 63
	}
	hi = new(big.Int).Sub(new(big.Int).Lsh(one, bits), one)
	if strings.HasPrefix(g, "uint") {
		lo = big.NewInt(0)
	} else {
		lo = new(big.Int).Neg(new(big.Int).Lsh(one, bits))
	}
	var x *big.Int
	switch rnd.Intn(5) {
	case 0:
		x = new(big.Int).Sub(hi, big.NewInt(int64(rnd.Intn(3))))
	case 1:
		x = new(big.Int).Add(lo, big.NewInt(int64(rnd.Intn(3))))
	case 2:
		x = big.NewInt(int64(rnd.Intn(7) - 3))
		if x.Cmp(lo) < 0 {
			x = lo
		}
	default:
		x = new(big.Int).Rand(rnd, new(big.Int).Add(new(big.Int).Sub(hi, lo), one))
		x.Add(x, lo)
		if rnd.Intn(2) == 0 { // mostly moderate magnitudes
			x.Rsh(x, uint(rnd.Intn(int(bits))))
		}
	}
	if x.Cmp(lo) < 0 || x.Cmp(hi) > 0 {
		x = big.NewInt(0)
	}
	return ienc(g, x.String())
}

func randFloatLit(rnd *rand.Rand) string {
	switch rnd.Intn(9) {
	case 0:
		return strconv.FormatFloat(float64(rnd.Intn(2001)-1000), 'g', -1, 64)
	case 1:
		return strconv.FormatFloat(float64(rnd.Intn(4001)-2000)/8, 'g', -1, 64)
	case 2:
		return strconv.FormatFloat(rnd.NormFloat64()*1000, 'g', -1, 64)
	case 3:
		return strconv.FormatFloat(math.Ldexp(1, 50+rnd.Intn(20))*(1-2*float64(rnd.Intn(2))), 'g', -1, 64)
	case 4:
		return strconv.FormatFloat(math.Ldexp(rnd.Float64(), rnd.Intn(140)-70), 'g', -1, 64)
	case 5:
		return []string{"NaN", "+Inf", "-Inf", "0", "-0", "9.223372036854775807e18", "-9.223372036854775808e18", "9223372036854774784"}[rnd.Intn(8)]
	case 6:
		return strconv.FormatFloat(float64(rnd.Intn(1999)-999)+0.5, 'g', -1, 64)
	case 7:
		return strconv.FormatFloat(1.5e9+rnd.Float64()*1e8, 'f', 6, 64)
	}
	return strconv.FormatFloat(rnd.Float64(), 'g', 7, 64)
}

func randStrLit(rnd *rand.Rand) string {
	switch rnd.Intn(12) {
	case 0:
		return randIntEncText(rnd)
	case 1:
		return randFloatLit(rnd)
	case 2:
		return []string{"+", "-", "", " ", "+5", "-0", "007", " 7", "7 ", "1_000", "0x10", "0x1p4", "1e3", "1E3", "1e400", "-1e400", ".5", "5.", "1e", "infinity", "Inf", "nan", "1e-400"}[rnd.Intn(23)]
	case 3:
		return []string{"true", "false", "TRUE", "False", "tRuE", "t", "f", "T", "F", "1", "0", "yes", "no", "truex", " true"}[rnd.Intn(15)]
	case 4, 5:
		return randTimeLit(rnd)
	case 6:
		return randIntEncText(rnd) + []string{"x", ".0", ".5", "e2", "0", " "}[rnd.Intn(6)]
	case 7:
		return []string{"9223372036854775807", "9223372036854775808", "-9223372036854775808", "-9223372036854775809", "18446744073709551615", "18446744073709551616", "99999999999999999999999"}[rnd.Intn(7)]
	}
	return []string{"a", "b", "abc", "$oid", "x y", "null", "{}"}[rnd.Intn(7)]
}

func randIntEncText(rnd *rand.Rand) string { return textOf(toAny(randIntEnc(rnd)["i"].([]int))) }

func toAny(a []int) []any {
	r := make([]any, len(a))
	for i, x := range a {
		r[i] = x
	}
	return r
}

func randTimeLit(rnd *rand.Rand) string {
	t := time.Unix(int64(rnd.Intn(2000000000)), int64(rnd.Intn(1000))*[]int64{0, 1, 1000, 1000000}[rnd.Intn(4)]).UTC()
	if rnd.Intn(3) == 0 {
		t = t.In(time.FixedZone("", (rnd.Intn(27)-13)*1800))
	}
	forms := []string{time.RFC3339Nano, time.RFC3339, "2006-01-02", "2006-01-02T15:04:05.999Z07:00", "2006-01-02T15:04:05.000Z07:00",
		"2006-01-02T15:04:05.000000000Z07:00", "2006-01-02 15:04:05Z07:00", "2006-01-02T15:04:05", "2006-01-02T15:04:05.0000000000Z07:00",
		"2006-01-02t15:04:05z", "2006-1-2", "2006-01-02T15:04:05,999Z07:00", "2006-01-02T15:04:05-0700", "06-01-02", "2006-01-02T15:04Z07:00"}
	s := t.Format(forms[rnd.Intn(len(forms))])
	if rnd.Intn(12) == 0 && len(s) > 3 {
		k := rnd.Intn(len(s))
		s = s[:k] + string("0129TZ:-+. x"[rnd.Intn(12)]) + s[k+1:]
	}
	return s
}

func randTimeEnc(rnd *rand.Rand, g string) M {
	t := time.Unix(int64(rnd.Intn(4000000000))-2000000000, int64(rnd.Intn(1000000000))).UTC()
	if rnd.Intn(3) == 0 {
		t = time.Unix(int64(rnd.Intn(4000)-2000), int64(rnd.Intn(4))*250000000).UTC()
	}
	return M{"g": g, "s": t.Format(time.RFC3339Nano)}
}

func randLeafEnc(rnd *rand.Rand) M {
	switch rnd.Intn(14) {
	case 0, 1, 2:
		return randIntEnc(rnd)
	case 3, 4:
		return M{"g": []string{"float64", "float32", "gen.Float"}[rnd.Intn(3)], "f": randFloatLit(rnd)}
	case 5, 6, 7:
		return M{"g": []string{"string", "string", "gen.String", "gen.Big", "[]byte"}[rnd.Intn(5)], "s": randStrLit(rnd)}
	case 8:
		return M{"g": "nil"}
	case 9:
		return M{"g": []string{"bool", "gen.Bool"}[rnd.Intn(2)], "b": rnd.Intn(2) == 0}
	case 10, 11:
		return randTimeEnc(rnd, []string{"time.Time", "gen.Time"}[rnd.Intn(2)])
	case 12:
		return M{"g": "[]any", "a": []any{}}
	}
	return []M{{"g": "struct"}, {"g": "map[string]any", "o": []any{"a"}, "v": []any{M{"g": "int", "i": []int{0, 1}}}}, {"g": "[]int", "a": []any{M{"g": "int", "i": []int{0, 3}}}}}[rnd.Intn(3)]
}

func randCoerce(rnd *rand.Rand) M {
	fn := []string{"Bool", "Int", "Float", "String", "Time"}[rnd.Intn(5)]
	nd := rnd.Intn(3)
	var pool []M
	switch fn {
	case "Bool":
		pool = []M{{"g": "bool", "b": rnd.Intn(2) == 0}, {"g": "bool", "b": rnd.Intn(2) == 0}}
	case "Int":
		pool = []M{ienc("int64", "-777001"), ienc("int64", "-888002")}
	case "Float":
		pool = []M{{"g": "float64", "f": "-777001.25"}, {"g": "float64", "f": "-888002.75"}}
	case "String":
		pool = []M{{"g": "string", "s": "<d0>"}, {"g": "string", "s": "<d1>"}}
	case "Time":
		pool = []M{{"g": "time.Time", "s": "1999-01-02T03:04:05.000000006Z"}, {"g": "time.Time", "s": "1998-07-06T05:04:03.000000002Z"}}
	}
	ds := []any{}
	for i := 0; i < nd; i++ {
		ds = append(ds, pool[i])
	}
	return M{"part": "coerce", "src": "rnd", "fn": fn, "v": randLeafEnc(rnd), "d": ds}
}

// random converter cases: a predefined converter on a tree whose leaves are time-ish / number-ish strings, big ints and
// mongo decorations; at most two leaves per tree may be read in more than one way (keeps the allowed set small).
func randConv(rnd *rand.Rand) M {
	conv := []string{"rfc3339", "nano", "mongo", "rfc3339+mongo", "none"}[rnd.Intn(5)]
	var leaf func(d int) M
	leaf = func(d int) M {
		switch rnd.Intn(10) {
		case 0, 1:
			return M{"g": "string", "s": randTimeLit(rnd)}
		case 2:
			x := big.NewInt(946684800000000000)
			x.Add(x, big.NewInt(int64(rnd.Intn(5)-2)))
			if rnd.Intn(3) == 0 {
				x.Mul(big.NewInt(int64(rnd.Intn(9)+1)), big.NewInt(1000000000000000000))
			}
			g := []string{"int64", "int", "uint64", "uint"}[rnd.Intn(4)]
			return ienc(g, x.String())
		case 3:
			return randIntEnc(rnd)
		case 4, 5, 6:
			k := []string{"$date", "$numberLong", "$numberDecimal", "$oid", "$other", "date"}[rnd.Intn(6)]
			var m M
			switch rnd.Intn(6) {
			case 0:
				m = randLeafEnc(rnd)
				if m["g"] == "struct" {
					m = M{"g": "nil"}
				}
			case 1:
				m = M{"g": "string", "s": randTimeLit(rnd)}
			default:
				m = M{"g": "string", "s": randStrLit(rnd)}
			}
			if rnd.Intn(8) == 0 {
				return M{"g": "map[string]any", "o": []any{k, "x"}, "v": []any{m, ienc("int", "3")}}
			}
			return M{"g": "map[string]any", "o": []any{k}, "v": []any{m}}
		case 7:
			if d < 3 {
				n := rnd.Intn(3)
				a := []any{}
				for i := 0; i < n; i++ {
					a = append(a, leaf(d+1))
				}
				return M{"g": "[]any", "a": a}
			}
		case 8:
			if d < 3 {
				return M{"g": "map[string]any", "o": []any{"k", "m"}, "v": []any{leaf(d + 1), leaf(d + 1)}}
			}
		}
		return M{"g": []string{"float64", "float32"}[rnd.Intn(2)], "f": randFloatLit(rnd)}
	}
	return M{"part": "conv", "src": "rnd", "api": "method", "conv": conv, "rules": []any{}, "junk": false, "v": leaf(rnd.Intn(3))}
}
