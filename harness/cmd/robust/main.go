// Command robust drives every text-consuming entry point of ojg with model-derived inputs (C06).
//
//	robust run -states st.ndjson -tier quick|thorough [-fam json,sen,jp,conv]  > trace.ndjson
//	robust one -api NAME [-limit 60]   < {"b":[..]}                            > {"r":..,"m":..}
//
// run: inputs are generated on the fly (TLC state cover x byte x continuation, mutations, truncations,
// exhaustive path/filter strings, the Unmarshal/Recompose kind matrix) and executed in worker goroutines
// under a watchdog. Non-failing calls are aggregated per (api, input class) into {ev:"agg", api, cls, must,
// n, n_ok, n_err, n_perr}; every panic (for Must* variants: every panic that does not carry a plain error)
// is shrunk and emitted individually as {ev:"fail", ...}. A call that is not back within 20 s makes the
// process print HANG <case> on stderr and exit 3. The verdicts are taken by the TLC trace spec TraceRobust.
package main

import (
	"bufio"
	"bytes"
	"encoding/json"
	"flag"
	"fmt"
	"math/rand"
	"os"
	"regexp"
	"runtime"
	"sort"
	"strconv"
	"strings"
	"sync"
	"sync/atomic"
	"time"

	"github.com/ohler55/ojg/alt"
	"github.com/ohler55/ojg/gen"
	"github.com/ohler55/ojg/jp"
	"github.com/ohler55/ojg/oj"
	"github.com/ohler55/ojg/sen"
	"verif/harness/plib"
)

// outcome classes
const (
	rOK = iota
	rErr
	rPanicErr   // panic carrying a plain error (what the Must* variants are allowed to do)
	rPanicRT    // panic carrying a runtime.Error
	rPanicOther // panic carrying something that is not an error
)

type api struct {
	name  string
	lang  string // json | sen | jp | conv
	must  bool
	heavy bool // run only on the small input sets
	call  func(b []byte) error
	// reused instances: mk returns a call bound to ONE parser/tokenizer instance that a worker keeps across inputs (it is
	// replaced after any error or panic, so the history holds successful parses only: leaks after a FAILED parse are C07's)
	mk func() func(b []byte) error
}

// extraAPI: the reused-instance and token-function variants run on the families marked extra (literals, token functions,
// documents, seeds, completions), not on the whole (state, byte, continuation) cover
func extraAPI(a *api) bool { return a.mk != nil || strings.Contains(a.name, "+Mongo") }

var quickTier = false

func noData(jp.Expr, any) {}

var matchPaths = []jp.Expr{jp.MustParseString("$.a"), jp.MustParseString("$..b[1]"), jp.MustParseString("$[0][*]")}

type tgt struct {
	A int            `json:"a"`
	B []string       `json:"b"`
	C map[string]any `json:"c"`
	D *tgt           `json:"d"`
}

func apis() []api {
	z := &oj.ZeroHandler{}
	return []api{
		{"oj.Parse", "json", false, false, func(b []byte) error { _, err := oj.Parse(b); return err }, nil},
		{"oj.ParseString", "json", false, true, func(b []byte) error { _, err := oj.ParseString(string(b)); return err }, nil},
		{"oj.Load", "json", false, true, func(b []byte) error { _, err := oj.Load(bytes.NewReader(b)); return err }, nil},
		{"oj.Load@1", "json", false, true, func(b []byte) error { _, err := oj.Load(plib.Chunked(b, "1")); return err }, nil},
		{"oj.Validate", "json", false, false, func(b []byte) error { return oj.Validate(b) }, nil},
		{"oj.ValidateReader", "json", false, true, func(b []byte) error { return oj.ValidateReader(bytes.NewReader(b)) }, nil},
		{"oj.ValidateReader@1", "json", false, true, func(b []byte) error { return oj.ValidateReader(plib.Chunked(b, "1")) }, nil},
		{"oj.Tokenize", "json", false, false, func(b []byte) error { return oj.Tokenize(b, z) }, nil},
		{"oj.TokenizeLoad", "json", false, true, func(b []byte) error { return oj.TokenizeLoad(bytes.NewReader(b), z) }, nil},
		{"oj.TokenizeLoad@1", "json", false, true, func(b []byte) error { return oj.TokenizeLoad(plib.Chunked(b, "1"), z) }, nil},
		{"oj.Unmarshal(any)", "json", false, true, func(b []byte) error { var v any; return oj.Unmarshal(b, &v) }, nil},
		{"oj.Unmarshal(struct)", "json", false, true, func(b []byte) error { var v tgt; return oj.Unmarshal(b, &v) }, nil},
		{"oj.Match", "json", false, true, func(b []byte) error { return oj.Match(b, noData, matchPaths...) }, nil},
		{"oj.MatchLoad@1", "json", false, true, func(b []byte) error { return oj.MatchLoad(plib.Chunked(b, "1"), noData, matchPaths...) }, nil},
		{"gen.Parser.Parse", "json", false, false, func(b []byte) error { p := gen.Parser{}; _, err := p.Parse(b); return err }, nil},
		{"gen.Parser.ParseReader", "json", false, true, func(b []byte) error { p := gen.Parser{}; _, err := p.ParseReader(bytes.NewReader(b)); return err }, nil},
		{"gen.Parser.ParseReader@1", "json", false, true, func(b []byte) error { p := gen.Parser{}; _, err := p.ParseReader(plib.Chunked(b, "1")); return err }, nil},
		{"oj.MustParse", "json", true, true, func(b []byte) error { oj.MustParse(b); return nil }, nil},
		{"oj.MustParseString", "json", true, true, func(b []byte) error { oj.MustParseString(string(b)); return nil }, nil},
		{"oj.MustLoad", "json", true, true, func(b []byte) error { oj.MustLoad(bytes.NewReader(b)); return nil }, nil},
		// SEN: fresh instances, so that the pending-plus leak through the pool (C07) cannot be blamed on the input
		{"sen.Parser.Parse", "sen", false, false, func(b []byte) error { p := sen.Parser{}; _, err := p.Parse(b); return err }, nil},
		{"sen.Parser.ParseReader", "sen", false, true, func(b []byte) error { p := sen.Parser{}; _, err := p.ParseReader(bytes.NewReader(b)); return err }, nil},
		{"sen.Parser.ParseReader@1", "sen", false, true, func(b []byte) error { p := sen.Parser{}; _, err := p.ParseReader(plib.Chunked(b, "1")); return err }, nil},
		// (a fresh sen.Tokenizer costs ~22 us to set up: in the quick tier it runs on the continuation-free inputs only)
		{"sen.Tokenizer.Parse", "sen", false, quickTier, func(b []byte) error { t := sen.Tokenizer{}; return t.Parse(b, z) }, nil},
		{"sen.Tokenizer.Load@1", "sen", false, true, func(b []byte) error { t := sen.Tokenizer{}; return t.Load(plib.Chunked(b, "1"), z) }, nil},
		{"sen.Parser.Unmarshal(any)", "sen", false, true, func(b []byte) error { p := sen.Parser{}; var v any; return p.Unmarshal(b, &v) }, nil},
		{"sen.Parser.Unmarshal(struct)", "sen", false, true, func(b []byte) error { p := sen.Parser{}; var v tgt; return p.Unmarshal(b, &v) }, nil},
		{"sen.Match", "sen", false, true, func(b []byte) error { return sen.Match(b, noData, matchPaths...) }, nil},
		{"sen.Parser.MustParse", "sen", true, true, func(b []byte) error { p := sen.Parser{}; p.MustParse(b); return nil }, nil},
		{"sen.Parser.MustParseReader", "sen", true, true, func(b []byte) error { p := sen.Parser{}; p.MustParseReader(bytes.NewReader(b)); return nil }, nil},
		// SEN with the optional token-function set installed (sen/mongo.go: ISODate ObjectId NumberInt NumberLong NumberDecimal)
		{"sen.Parser+Mongo.Parse", "sen", false, true, func(b []byte) error { p := sen.Parser{}; p.AddMongoFuncs(); _, err := p.Parse(b); return err }, nil},
		{"sen.Parser+Mongo.ParseReader@1", "sen", false, true, func(b []byte) error {
			p := sen.Parser{}
			p.AddMongoFuncs()
			_, err := p.ParseReader(plib.Chunked(b, "1"))
			return err
		}, nil},
		{"sen.Parser+Mongo.Unmarshal(any)", "sen", false, true, func(b []byte) error { p := sen.Parser{}; p.AddMongoFuncs(); var v any; return p.Unmarshal(b, &v) }, nil},
		{"sen.Parser+Mongo.MustParse", "sen", true, true, func(b []byte) error { p := sen.Parser{}; p.AddMongoFuncs(); p.MustParse(b); return nil }, nil},
		// one instance reused across inputs
		{"oj.Parser(reused).Parse", "json", false, true, nil, func() func([]byte) error {
			p := &oj.Parser{}
			return func(b []byte) error { _, err := p.Parse(b); return err }
		}},
		{"oj.Parser(reused).ParseReader@1", "json", false, true, nil, func() func([]byte) error {
			p := &oj.Parser{}
			return func(b []byte) error { _, err := p.ParseReader(plib.Chunked(b, "1")); return err }
		}},
		{"gen.Parser(reused).Parse", "json", false, true, nil, func() func([]byte) error {
			p := &gen.Parser{}
			return func(b []byte) error { _, err := p.Parse(b); return err }
		}},
		{"gen.Parser(reused).ParseReader@1", "json", false, true, nil, func() func([]byte) error {
			p := &gen.Parser{}
			return func(b []byte) error { _, err := p.ParseReader(plib.Chunked(b, "1")); return err }
		}},
		{"oj.Tokenizer(reused).Parse", "json", false, true, nil, func() func([]byte) error { t := &oj.Tokenizer{}; return func(b []byte) error { return t.Parse(b, z) } }},
		{"oj.Validator(reused).Validate", "json", false, true, nil, func() func([]byte) error { v := &oj.Validator{}; return func(b []byte) error { return v.Validate(b) } }},
		{"sen.Parser(reused).Parse", "sen", false, true, nil, func() func([]byte) error {
			p := &sen.Parser{}
			return func(b []byte) error { _, err := p.Parse(b); return err }
		}},
		{"sen.Parser+Mongo(reused).Parse", "sen", false, true, nil, func() func([]byte) error {
			p := &sen.Parser{}
			p.AddMongoFuncs()
			return func(b []byte) error { _, err := p.Parse(b); return err }
		}},
		{"sen.Tokenizer(reused).Parse", "sen", false, true, nil, func() func([]byte) error { t := &sen.Tokenizer{}; return func(b []byte) error { return t.Parse(b, z) } }},
		{"jp.ParseString", "jp", false, false, func(b []byte) error { _, err := jp.ParseString(string(b)); return err }, nil},
		{"jp.NewScript", "jp", false, false, func(b []byte) error { _, err := jp.NewScript(string(b)); return err }, nil},
		{"jp.MustParseString", "jp", true, false, func(b []byte) error { jp.MustParseString(string(b)); return nil }, nil},
		{"jp.MustNewScript", "jp", true, false, func(b []byte) error { jp.MustNewScript(string(b)); return nil }, nil},
	}
}

type result struct {
	r   int
	msg string
}

func callOne(a *api, b []byte) (res result) { return callWith(a.callFn(), b) }

// callFn is the api's call on a fresh instance
func (a *api) callFn() func([]byte) error {
	if a.mk != nil {
		return a.mk()
	}
	return a.call
}

// callAfter runs prev (if any) and then b on ONE fresh instance of a reused api
func callAfter(a *api, prev, b []byte) result {
	f := a.callFn()
	if a.mk != nil && prev != nil {
		callWith(f, prev)
	}
	return callWith(f, b)
}

func callWith(f func([]byte) error, b []byte) (res result) {
	defer func() {
		if x := recover(); x != nil {
			res.msg = fmt.Sprintf("%T: %v", x, x)
			switch tx := x.(type) {
			case runtime.Error:
				res.r = rPanicRT
			case error:
				_ = tx
				res.r = rPanicErr
			default:
				res.r = rPanicOther
			}
		}
	}()
	if err := f(append([]byte{}, b...)); err != nil {
		return result{r: rErr}
	}
	return result{r: rOK}
}

// a failing outcome: anything but ok/err, and for Must* variants anything but ok/panic(error)
func failing(a *api, r int) bool {
	switch r {
	case rOK:
		return false
	case rErr:
		return a.must // a Must variant has no error result; cannot happen
	case rPanicErr:
		return !a.must
	}
	return true
}

type counts struct{ n, ok, err, perr int64 }

type failure struct {
	API  string `json:"api"`
	Lang string `json:"lang"`
	Must bool   `json:"must"`
	R    string `json:"r"`
	M    string `json:"m"`
	B    []int  `json:"b"`
	Prev []int  `json:"prev"` // reused instances: the input parsed successfully on the same instance just before
	Cls  string `json:"cls"`
	N    int    `json:"count"`
	VK   string `json:"vk,omitempty"`
	TK   string `json:"tk,omitempty"`
}

type job struct {
	b     []byte
	cls   string
	lang  string // which api language set
	light bool   // only the non-heavy apis
	extra bool   // also the reused-instance / token-function variants
}

type state struct {
	Pc  string `json:"pc"`
	Key string `json:"key"`
	W   []int  `json:"w"`
	C   []int  `json:"c"`
	Cl  []int  `json:"cl"`
}

var alphaJSON = []byte(",:\"']}[{()+-.01entf\\")
var alphaSEN = []byte(",:\"']}[{()+-.01entf\\/*# \nI")
var alphaJP = []byte("$@.[]()?*'\",:-01a=!<>&|~ ")
var confusions = []string{"0", "1]", "1}", "\"\":0", ":0", "\"", "\":0", ",0", ",\"\":0", "ull", "rue", "alse", ".5", "e1", "5",
	"\"b\":1", ",\"b\":1", "\"b\":1}", ",1]", "1,2", ":1,\"b\":2"}

// (prefix, suffix) pairs; the witness of a machine state is a prefix of a JSON value, so it fits where a value is expected
var embeddings = [][2]string{
	{"[\"\\u0041\\ud83d\\ude00\",", "]"},
	{"{\"k\\u0041\":[-0.5E-2,false,\"\\ud83d\\ude00\\n\"],\n\"b\":", "}"},
	{"[true,1.25e+3,\"x\\ty\",\n null , ", "]"},
}
var embConfusions = []string{"ull", "rue", "alse", "\"b\":1", ",1", ":0"}
var classReps = []byte(" \n{}[],:\"\\/bfnrtualseE01-+.x\x01\x7f\x80cA'()")

func rName(r int) string {
	return [...]string{"ok", "err", "panic-error", "panic-runtime", "panic-nonerror"}[r]
}

var reHexChar = regexp.MustCompile(`0x[0-9a-fA-F]+ \(.*\)`)

func msgClass(m string) string {
	m = reHexChar.ReplaceAllString(m, "0x?")
	// strip numbers so that "index out of range [5] with length 3" groups
	var sb strings.Builder
	for _, c := range m {
		if c >= '0' && c <= '9' {
			continue
		}
		sb.WriteRune(c)
	}
	s := sb.String()
	if len(s) > 80 {
		s = s[:80]
	}
	return s
}

type runner struct {
	apis     []api
	agg      map[string]*counts
	fails    map[string]*failure
	mu       sync.Mutex
	inflight []atomic.Value // per worker: *flight
	calls    int64
}

type flight struct {
	t   int64
	api string
	b   []byte
}

func (rn *runner) work(w int, jobs <-chan []job, wg *sync.WaitGroup) {
	defer wg.Done()
	local := map[string]*counts{}
	var ncalls int64
	inst := map[int]func([]byte) error{} // reused instances of this worker
	prev := map[int][]byte{}
	for batch := range jobs {
		for _, j := range batch {
			fl := &flight{t: time.Now().UnixNano(), b: j.b}
			rn.inflight[w].Store(fl)
			for ai := range rn.apis {
				a := &rn.apis[ai]
				if a.lang != j.lang || (j.light && a.heavy) || (!j.extra && extraAPI(a)) {
					continue
				}
				fl.api = a.name
				var res result
				if a.mk != nil {
					if inst[ai] == nil {
						inst[ai], prev[ai] = a.mk(), nil
					}
					res = callWith(inst[ai], j.b)
					if res.r != rOK {
						if failing(a, res.r) {
							rn.recordFail(a, j, res, prev[ai])
						}
						inst[ai] = nil // never continue on an instance that failed
					} else {
						prev[ai] = j.b
					}
				} else {
					res = callOne(a, j.b)
				}
				ncalls++
				if failing(a, res.r) {
					if a.mk == nil {
						rn.recordFail(a, j, res, nil)
					}
					continue
				}
				key := a.name + "\x00" + j.cls
				c := local[key]
				if c == nil {
					c = &counts{}
					local[key] = c
				}
				c.n++
				switch res.r {
				case rOK:
					c.ok++
				case rErr:
					c.err++
				case rPanicErr:
					c.perr++
				}
			}
		}
		rn.inflight[w].Store((*flight)(nil))
	}
	rn.mu.Lock()
	for k, c := range local {
		g := rn.agg[k]
		if g == nil {
			g = &counts{}
			rn.agg[k] = g
		}
		g.n += c.n
		g.ok += c.ok
		g.err += c.err
		g.perr += c.perr
	}
	rn.calls += ncalls
	rn.mu.Unlock()
}

func (rn *runner) recordFail(a *api, j job, res result, prev []byte) {
	key := a.name + "\x00" + rName(res.r) + "\x00" + msgClass(res.msg)
	rn.mu.Lock()
	defer rn.mu.Unlock()
	f := rn.fails[key]
	if f == nil {
		rn.fails[key] = &failure{API: a.name, Lang: a.lang, Must: a.must, R: rName(res.r), M: res.msg, B: plib.Ints(j.b), Prev: plib.Ints(prev), Cls: j.cls, N: 1}
		return
	}
	f.N++
	if len(j.b)+len(prev) < len(f.B)+len(f.Prev) {
		f.B, f.Prev, f.M, f.Cls = plib.Ints(j.b), plib.Ints(prev), res.msg, j.cls
	}
}

// shrink: greedy byte removal while the same api still fails with the same outcome class
func (rn *runner) shrink(f *failure) {
	var a *api
	for i := range rn.apis {
		if rn.apis[i].name == f.API {
			a = &rn.apis[i]
		}
	}
	if a == nil {
		return
	}
	b := plib.Bytes(f.B)
	var prev []byte
	if a.mk != nil {
		// does the failure need the history at all?
		if res := callAfter(a, nil, b); failing(a, res.r) && rName(res.r) == f.R {
			f.Prev = []int{}
		} else {
			prev = plib.Bytes(f.Prev)
		}
	}
	for changed := true; changed; {
		changed = false
		for i := 0; i < len(b); i++ {
			c := append(append([]byte{}, b[:i]...), b[i+1:]...)
			res := callAfter(a, prev, c)
			if failing(a, res.r) && rName(res.r) == f.R {
				b, f.M, changed = c, res.msg, true
				i--
			}
		}
	}
	f.B = plib.Ints(b)
}

func intsOrEmpty(x []int) []int {
	if x == nil {
		return []int{}
	}
	return x
}

func seed() int64 {
	s, _ := strconv.ParseInt(os.Getenv("VERIF_SEED"), 10, 64)
	if s == 0 {
		s = 1
	}
	return s
}

func main() {
	if len(os.Args) < 2 {
		fmt.Fprintln(os.Stderr, "usage: robust run|one ...")
		os.Exit(2)
	}
	switch os.Args[1] {
	case "run":
		runAll(os.Args[2:])
	case "one":
		one(os.Args[2:])
	default:
		os.Exit(2)
	}
}

func one(args []string) {
	fs := flag.NewFlagSet("one", flag.ExitOnError)
	name := fs.String("api", "", "api name")
	limit := fs.Int("limit", 60, "seconds")
	fs.Parse(args)
	var c struct {
		B    []int `json:"b"`
		Prev []int `json:"prev"`
	}
	if err := json.NewDecoder(os.Stdin).Decode(&c); err != nil {
		fmt.Fprintln(os.Stderr, err)
		os.Exit(2)
	}
	as := apis()
	for i := range as {
		if as[i].name == *name {
			done := make(chan result, 1)
			go func() {
				var prev []byte
				if len(c.Prev) > 0 {
					prev = plib.Bytes(c.Prev)
				}
				done <- callAfter(&as[i], prev, plib.Bytes(c.B))
			}()
			select {
			case r := <-done:
				b, _ := json.Marshal(map[string]any{"r": rName(r.r), "m": r.msg, "fail": failing(&as[i], r.r)})
				fmt.Println(string(b))
			case <-time.After(time.Duration(*limit) * time.Second):
				fmt.Println(`{"r":"hang","fail":true}`)
			}
			return
		}
	}
	fmt.Fprintln(os.Stderr, "unknown api", *name)
	os.Exit(2)
}

func runAll(args []string) {
	fs := flag.NewFlagSet("run", flag.ExitOnError)
	stf := fs.String("states", "", "ndjson of JsonText machine states (TLC transition cover)")
	tier := fs.String("tier", "quick", "quick|thorough")
	fams := fs.String("fam", "json,sen,jp,conv", "families")
	litf := fs.String("lits", "", "ndjson of TLC-generated literals (JsonValueGen LIT lines: string-escape classes, number shapes)")
	fs.Parse(args)
	traceOut := os.Stdout
	if dn, err := os.OpenFile(os.DevNull, os.O_WRONLY, 0); err == nil {
		os.Stdout = dn
	}
	quickTier = *tier != "thorough"
	rn := &runner{apis: apis(), agg: map[string]*counts{}, fails: map[string]*failure{}}
	nw := runtime.NumCPU()
	if nw > 12 {
		nw = 12
	}
	rn.inflight = make([]atomic.Value, nw)
	jobs := make(chan []job, 64)
	var wg sync.WaitGroup
	for w := 0; w < nw; w++ {
		rn.inflight[w].Store((*flight)(nil))
		wg.Add(1)
		go rn.work(w, jobs, &wg)
	}
	// watchdog
	stop := make(chan struct{})
	go func() {
		tick := time.NewTicker(time.Second)
		for {
			select {
			case <-stop:
				return
			case <-tick.C:
				for w := range rn.inflight {
					if f, _ := rn.inflight[w].Load().(*flight); f != nil && time.Now().UnixNano()-f.t > int64(20*time.Second) {
						b, _ := json.Marshal(map[string]any{"api": f.api, "b": plib.Ints(f.b)})
						fmt.Fprintf(os.Stderr, "HANG %s\n", b)
						os.Exit(3)
					}
				}
			}
		}
	}()
	var batch []job
	emit := func(j job) {
		batch = append(batch, j)
		if len(batch) >= 512 {
			jobs <- batch
			batch = nil
		}
	}
	quick := *tier != "thorough"
	want := map[string]bool{}
	for _, f := range strings.Split(*fams, ",") {
		want[f] = true
	}
	r := rand.New(rand.NewSource(seed()))
	if want["json"] || want["sen"] {
		genStates(*stf, quick, want, emit)
		genMutations(r, quick, want, emit)
	}
	if *litf != "" && (want["json"] || want["sen"]) {
		genLits(*litf, quick, want, emit)
	}
	if want["sen"] {
		genSen(r, quick, emit)
		genMongo(quick, emit)
	}
	if want["jp"] {
		genJP(r, quick, emit)
	}
	if len(batch) > 0 {
		jobs <- batch
	}
	close(jobs)
	wg.Wait()
	close(stop)
	var convFails []failure
	convAgg := map[string]*counts{}
	if want["conv"] {
		convFails = convMatrix(convAgg)
	}
	// output
	out := bufio.NewWriterSize(traceOut, 1<<20)
	keys := make([]string, 0, len(rn.agg))
	for k := range rn.agg {
		keys = append(keys, k)
	}
	sort.Strings(keys)
	must := map[string]bool{}
	for _, a := range rn.apis {
		must[a.name] = a.must
	}
	for _, k := range keys {
		c := rn.agg[k]
		p := strings.SplitN(k, "\x00", 2)
		out.Write(plib.MarshalLine(map[string]any{"ev": "agg", "api": p[0], "cls": p[1], "must": must[p[0]], "n": c.n, "n_ok": c.ok, "n_err": c.err, "n_perr": c.perr}))
	}
	ck := make([]string, 0, len(convAgg))
	for k := range convAgg {
		ck = append(ck, k)
	}
	sort.Strings(ck)
	for _, k := range ck {
		c := convAgg[k]
		p := strings.SplitN(k, "\x00", 2)
		out.Write(plib.MarshalLine(map[string]any{"ev": "agg", "api": p[0], "cls": p[1], "must": false, "n": c.n, "n_ok": c.ok, "n_err": c.err, "n_perr": c.perr}))
		rn.calls += c.n
	}
	fk := make([]string, 0, len(rn.fails))
	for k := range rn.fails {
		fk = append(fk, k)
	}
	sort.Strings(fk)
	merged := map[string]*failure{}
	var order []string
	for _, k := range fk {
		f := rn.fails[k]
		rn.shrink(f)
		rn.calls += int64(f.N)
		mk := f.API + "\x00" + f.R + "\x00" + string(plib.Bytes(f.B))
		if g := merged[mk]; g != nil {
			g.N += f.N
			continue
		}
		merged[mk] = f
		order = append(order, mk)
	}
	for _, mk := range order {
		f := merged[mk]
		out.Write(plib.MarshalLine(map[string]any{"ev": "fail", "api": f.API, "lang": f.Lang, "must": f.Must, "r": f.R, "m": f.M, "b": f.B, "prev": intsOrEmpty(f.Prev), "cls": f.Cls, "count": f.N, "vk": "", "tk": ""}))
	}
	for _, f := range convFails {
		rn.calls += int64(f.N)
		out.Write(plib.MarshalLine(map[string]any{"ev": "fail", "api": f.API, "lang": "conv", "must": false, "r": f.R, "m": f.M, "b": f.B, "prev": []int{}, "cls": f.Cls, "count": f.N, "vk": f.VK, "tk": f.TK}))
	}
	out.Flush()
	fmt.Fprintf(os.Stderr, "CALLS %d\n", rn.calls)
}

// ---------------------------------------------------------------- generators
func cat(a ...[]byte) []byte {
	var r []byte
	for _, x := range a {
		r = append(r, x...)
	}
	return r
}

// conts enumerates all strings over alpha of length <= k
func conts(alpha []byte, k int, fn func([]byte)) {
	var rec func(prefix []byte, d int)
	rec = func(prefix []byte, d int) {
		fn(prefix)
		if d == k {
			return
		}
		for _, c := range alpha {
			rec(append(append([]byte{}, prefix...), c), d+1)
		}
	}
	rec(nil, 0)
}

// genStates: every JsonText machine state (BFS-shortest witness from TLC) x every byte class representative and
// alphabet byte (accepted or rejected) x every continuation of length <= k over the structural alphabet.
func genStates(path string, quick bool, want map[string]bool, emit func(job)) {
	f, err := os.Open(path)
	if err != nil {
		fmt.Fprintln(os.Stderr, "states:", err)
		os.Exit(2)
	}
	best := map[string]state{}
	sc := bufio.NewScanner(f)
	sc.Buffer(make([]byte, 1<<20), 1<<26)
	for sc.Scan() {
		var s state
		if json.Unmarshal(sc.Bytes(), &s) != nil || s.Pc == "Err" || s.Pc == "Cut" {
			continue
		}
		if b, ok := best[s.Key]; !ok || len(s.W) < len(b.W) {
			best[s.Key] = s
		}
	}
	keys := make([]string, 0, len(best))
	for k := range best {
		keys = append(keys, k)
	}
	sort.Strings(keys)
	kAll, kAlpha := 1, 2
	if !quick {
		kAll, kAlpha = 1, 3
	}
	langs := []string{}
	for _, l := range []string{"json", "sen"} {
		if want[l] {
			langs = append(langs, l)
		}
	}
	inAlpha := map[byte]bool{}
	for _, c := range alphaJSON {
		inAlpha[c] = true
	}
	for _, k := range keys {
		s := best[k]
		w, cl := plib.Bytes(s.W), plib.Bytes(s.Cl)
		if !quick && len(s.Cl) > 0 {
			kAlpha = 2 // deep states: shorter continuations in the thorough tier
		} else if !quick {
			kAlpha = 3
		}
		bytesToTry := append([]byte{}, classReps...)
		for _, c := range alphaJSON {
			if !bytes.Contains(classReps, []byte{c}) {
				bytesToTry = append(bytesToTry, c)
			}
		}
		// embeddings: the same (state, byte, continuation) cases behind prefixes that contain EARLIER tokens - an escaped
		// string with \uXXXX incl. a surrogate pair, literals, a number with fraction and exponent, newlines - so that
		// registers an earlier token left behind (hex-digit counters, literal indexes, number accumulators, the scratch
		// buffer, line/offset bookkeeping) are live when the transition is taken.  c = "" runs on every entry point incl.
		// the 1-byte readers; longer continuations on the whole-buffer front-ends (SEN: c = "" only).
		if len(w) == 0 || w[0] != 0xEF {
			for _, l := range langs {
				for ei, em := range embeddings {
					if quick && l == "sen" && ei > 0 {
						continue // the SEN front-ends are ~20x slower per call: one embedding in the quick tier
					}
					pre, post := []byte(em[0]), []byte(em[1])
					ecls := fmt.Sprintf("emb%d-step:%s", ei+1, s.Pc)
					emit(job{b: cat(pre, w), cls: fmt.Sprintf("emb%d-eof:%s", ei+1, s.Pc), lang: l})
					emit(job{b: cat(pre, w, plib.Bytes(s.C), post), cls: fmt.Sprintf("emb%d-compl:%s", ei+1, s.Pc), lang: l, extra: true})
					for _, x := range bytesToTry {
						if l != "sen" || !quick {
							for _, mid := range embConfusions {
								emit(job{b: cat(pre, w, []byte{x}, []byte(mid), cl, post), cls: ecls, lang: l, light: true})
							}
						}
						d := kAll
						if l == "sen" {
							d = 0
						}
						conts(alphaJSON, d, func(c []byte) {
							in := cat(pre, w, []byte{x}, c)
							emit(job{b: in, cls: ecls, lang: l, light: len(c) > 0})
							emit(job{b: cat(in, cl, post), cls: ecls, lang: l, light: len(c) > 0})
						})
					}
				}
				// the token under test straddles the 4096-byte refill of the reader variants: the \u prefix, padding, then
				// the witness placed so that the boundary falls 1, 2 or 3 bytes before its end
				pre0 := []byte(embeddings[0][0])
				sbytes, jmax := classReps, 3
				if quick {
					if l == "sen" {
						continue
					}
					sbytes, jmax = []byte(",]}\" :0ena\\u"), 2
				}
				for j := 1; j <= jmax && j <= len(w); j++ {
					pad := 4096 - (len(pre0) + len(w) - j)
					if pad < 0 {
						continue
					}
					pre := cat(pre0, bytes.Repeat([]byte{' '}, pad))
					scls := "straddle4096:" + s.Pc
					emit(job{b: cat(pre, w), cls: scls, lang: l})
					emit(job{b: cat(pre, w, plib.Bytes(s.C), []byte(embeddings[0][1])), cls: scls, lang: l})
					for _, x := range sbytes {
						emit(job{b: cat(pre, w, []byte{x}), cls: scls, lang: l})
						emit(job{b: cat(pre, w, []byte{x}, cl, []byte(embeddings[0][1])), cls: scls, lang: l})
					}
				}
			}
		}
		for _, l := range langs {
			emit(job{b: w, cls: "eof:" + s.Pc, lang: l})
			for _, x := range bytesToTry {
				depth := kAll
				if inAlpha[x] && l != "sen" { // the SEN front-ends are ~20x slower per call: continuations stay at kAll
					depth = kAlpha
				}
				// continuations "as if the byte had been accepted into some other grammar position" (a wrong table cell
				// typically faults only when a plausible rest of the document follows), then the state's closers
				for _, mid := range confusions {
					if quick && l == "sen" && !inAlpha[x] {
						continue // SEN calls cost ~20x a JSON call: structural bytes only in the quick tier
					}
					emit(job{b: cat(w, []byte{x}, []byte(mid), cl), cls: "step+conf:" + s.Pc, lang: l, light: l == "sen"})
				}
				conts(alphaJSON, depth, func(c []byte) {
					in := cat(w, []byte{x}, c)
					light := len(c) > 0
					emit(job{b: in, cls: "step:" + s.Pc, lang: l, light: light})
					if len(c) <= 1 && len(cl) > 0 {
						emit(job{b: cat(in, cl), cls: "step+close:" + s.Pc, lang: l, light: light})
					}
				})
			}
		}
	}
}

// genLits: the literals TLC enumerates from spec/JsonValue (JsonValueGen: every string-escape class - ASCII, 2-byte,
// 3-byte \\u, surrogate pair, lone high, lone low, U+10FFFF, raw and invalid UTF-8 - in bodies of up to 2 (thorough 3)
// segments; number shapes) as values and member names in several contexts, on ALL entry points (fresh and reused
// instances, SEN with and without token functions); the \\u classes additionally in every order of three segments
// (low after a literal U+FFFD, a pair split by another escape, reversed pairs) and straddling the 4096-byte refill.
func genLits(path string, quick bool, want map[string]bool, emit func(job)) {
	f, err := os.Open(path)
	if err != nil {
		fmt.Fprintln(os.Stderr, "lits:", err)
		os.Exit(2)
	}
	langs := []string{}
	for _, l := range []string{"json", "sen"} {
		if want[l] {
			langs = append(langs, l)
		}
	}
	strCtx := []string{"L", "[L]", "{L:1}", "{\"k\":L}", "[L,L]", "{L:L,\"z\":L}", "[\"a\\u0041\",L]"}
	numCtx := []string{"L", "[L]", "{\"a\":L}", "[L,L ]"}
	seen := map[string]bool{}
	var useg [][]byte // one-segment \u... bodies (the escape classes)
	sc := bufio.NewScanner(f)
	sc.Buffer(make([]byte, 1<<20), 1<<26)
	n := 0
	for sc.Scan() {
		var lit struct {
			Kind string `json:"kind"`
			B    []int  `json:"b"`
		}
		if json.Unmarshal(sc.Bytes(), &lit) != nil {
			continue
		}
		lb := string(plib.Bytes(lit.B))
		if seen[lb] {
			continue
		}
		seen[lb] = true
		n++
		ctxs := numCtx
		if lit.Kind == "str" {
			ctxs = strCtx
			body := lb[1 : len(lb)-1]
			if strings.HasPrefix(body, "\\u") && (len(body) == 6 || (len(body) == 12 && strings.Count(body, "\\u") == 2 && (body[2] == 'D' || body[2] == 'd'))) {
				useg = append(useg, []byte(body))
			}
		} else if quick && n%16 != 0 {
			continue // number shapes are C02's subject: one in 16 in the quick tier
		}
		for ci, c := range ctxs {
			doc := []byte(strings.ReplaceAll(c, "L", lb))
			for _, l := range langs {
				if quick && lit.Kind == "num" && l == "sen" && ci > 0 {
					continue
				}
				emit(job{b: doc, cls: "lit-" + lit.Kind, lang: l, light: quick && lit.Kind == "num" && ci > 0, extra: true})
			}
		}
	}
	// the \u classes + neighbours in every order of three segments, as value and as member name
	segs := append([][]byte{}, useg...)
	segs = append(segs, []byte("\\n"), []byte("\xef\xbf\xbd"), []byte("a"))
	for _, a := range segs {
		for _, b := range segs {
			for _, c := range segs {
				body := cat(a, b, c)
				for _, ctx := range []string{"L", "{L:L}", "[L"} {
					doc := []byte(strings.ReplaceAll(ctx, "L", "\""+string(body)+"\""))
					for _, l := range langs {
						emit(job{b: doc, cls: "lit-u3", lang: l, extra: true})
					}
				}
			}
		}
	}
	// a \u escape / surrogate pair across the 4096-byte refill of the reader variants: every split offset
	for _, a := range useg {
		for _, b := range append(append([][]byte{}, useg...), nil) {
			lit := cat([]byte("\""), a, b, []byte("\""))
			for off := 1; off < len(lit); off++ {
				pad := 4096 - 1 - off
				for _, ctx := range [][2]string{{"[", "]"}, {"{", ":1}"}} {
					doc := cat([]byte(ctx[0]), bytes.Repeat([]byte{' '}, pad), lit, []byte(ctx[1]))
					for _, l := range langs {
						if quick && (l == "sen" || len(b) > 0 && off%2 == 0) {
							continue
						}
						emit(job{b: doc, cls: "lit-straddle4096", lang: l, extra: true})
					}
				}
			}
		}
	}
}

// genMongo: every token function the library can register (sen/mongo.go) and an unknown one x every argument-shape
// class {none, good string, junk string, empty string, int, big int, float, bool, null, list, map, nested call, 2+
// arguments, unterminated} x contexts, plus every prefix x SEN-alphabet byte; run on the SEN entry points with and
// without AddMongoFuncs()
func genMongo(quick bool, emit func(job)) {
	names := []string{"ISODate", "ObjectId", "NumberInt", "NumberLong", "NumberDecimal", "Unknown"}
	shapes := []string{"()", "(\"5\")", "(\"2021-01-01T00:00:00Z\")", "(\"junk\")", "(\"\")", "('5')", "(5)", "(-5)", "(1600000000000)", "(12345678901234567890123)",
		"(1.5)", "(1e3)", "(true)", "(false)", "(null)", "([1])", "([])", "({a:1})", "({})", "(abc)", "(NumberLong(\"5\"))", "(ISODate(5))", "(Unknown(1))",
		"(\"5\" 6)", "(\"5\",\"6\")", "(5 6 7)", "(", "(\"5\"", "(5", "(\"5\"))", "( \"5\" )", "(\n5\n)", "(\"5\"+\"6\")", "(// c\n5)"}
	ctxs := []string{"X", "[X]", "{a:X}", "[X X]", "{a:X b:[X]}", "[1 X \"s\"]"}
	for _, nm := range names {
		for _, sh := range shapes {
			x := nm + sh
			for _, c := range ctxs {
				emit(job{b: []byte(strings.ReplaceAll(c, "X", x)), cls: "sen-tokenfunc", lang: "sen", extra: true})
			}
			if quick && nm != "NumberLong" && nm != "ISODate" {
				continue
			}
			doc := []byte("[" + x + "]")
			for p := len(nm); p <= len(doc); p++ {
				for _, b := range alphaSEN {
					emit(job{b: cat(doc[:p], []byte{b}), cls: "sen-tokenfunc-prefix", lang: "sen", extra: true})
					emit(job{b: cat(doc[:p], []byte{b}, doc[p:]), cls: "sen-tokenfunc-insert", lang: "sen", extra: true})
				}
			}
		}
	}
}

type dgen struct{ r *rand.Rand }

func (g *dgen) value(sb *strings.Builder, depth int, senStyle bool) {
	k := g.r.Intn(9)
	if depth <= 0 && k >= 6 {
		k = g.r.Intn(6)
	}
	str := func() {
		if senStyle && g.r.Intn(2) == 0 {
			sb.WriteString([]string{"abc", "a1", "x-y", "'q r'", "'it''s'"}[g.r.Intn(5)])
			return
		}
		sb.WriteString([]string{`"a"`, `""`, `"x\ny"`, `"é😀"`, `"a\\\"b"`, `"é"`}[g.r.Intn(6)])
	}
	switch k {
	case 0:
		sb.WriteString("null")
	case 1:
		sb.WriteString("true")
	case 2:
		sb.WriteString("false")
	case 3:
		sb.WriteString([]string{"0", "-1", "12", "1.5", "1e3", "-0.25E-2", "123456789012345678901", "1.0000000000000000005"}[g.r.Intn(8)])
	case 4, 5:
		str()
	case 6, 7:
		sb.WriteByte('[')
		n := g.r.Intn(4)
		for i := 0; i < n; i++ {
			if i > 0 {
				if senStyle && g.r.Intn(2) == 0 {
					sb.WriteByte(' ')
				} else {
					sb.WriteByte(',')
				}
			}
			g.value(sb, depth-1, senStyle)
		}
		sb.WriteByte(']')
	default:
		sb.WriteByte('{')
		n := g.r.Intn(4)
		for i := 0; i < n; i++ {
			if i > 0 {
				if senStyle && g.r.Intn(2) == 0 {
					sb.WriteByte(' ')
				} else {
					sb.WriteByte(',')
				}
			}
			if senStyle && g.r.Intn(2) == 0 {
				sb.WriteString([]string{"a", "b", "key"}[g.r.Intn(3)])
			} else {
				sb.WriteString([]string{`"a"`, `"b"`, `"k\"y"`}[g.r.Intn(3)])
			}
			sb.WriteByte(':')
			g.value(sb, depth-1, senStyle)
		}
		sb.WriteByte('}')
	}
}

func mutate(r *rand.Rand, b []byte, alpha []byte) []byte {
	b = append([]byte{}, b...)
	if len(b) == 0 {
		return []byte{alpha[r.Intn(len(alpha))]}
	}
	i := r.Intn(len(b))
	switch r.Intn(4) {
	case 0:
		return append(b[:i], b[i+1:]...)
	case 1:
		return append(b[:i], append([]byte{alpha[r.Intn(len(alpha))]}, b[i:]...)...)
	case 2:
		b[i] = alpha[r.Intn(len(alpha))]
	default:
		b[i] = byte(r.Intn(256))
	}
	return b
}

// genMutations: valid documents, truncated at every offset, with 1-3 byte mutations (all apis, incl. 1-byte readers)
func genMutations(r *rand.Rand, quick bool, want map[string]bool, emit func(job)) {
	n := 150
	if !quick {
		n = 1500
	}
	g := &dgen{r: r}
	for i := 0; i < n; i++ {
		var sb strings.Builder
		g.value(&sb, 1+r.Intn(3), false)
		doc := []byte(sb.String())
		for _, l := range []string{"json", "sen"} {
			if !want[l] {
				continue
			}
			emit(job{b: doc, cls: "valid", lang: l, extra: true})
			for k := 0; k < len(doc); k++ {
				emit(job{b: doc[:k], cls: "truncated", lang: l})
			}
			for m := 0; m < 12; m++ {
				x := doc
				for c := 0; c < 1+r.Intn(3); c++ {
					x = mutate(r, x, alphaJSON)
				}
				emit(job{b: x, cls: "mutated", lang: l, extra: true})
			}
		}
	}
}

var senSeeds = []string{
	`{a:b c:[1 2 3] // comment
 d:'x' e: "a" + "b" f:ISODate("2021-01-01T00:00:00Z") /* c */ g:null}`,
	`[1 + "x"]`, `["a" + 'b' + "c"]`, `{a:"x"+"y"}`, `[abc def 1.5e3 true nil]`, `{"a":1,"b":[true,false,null],}`,
	`[ObjectId("507f1f77bcf86cd799439011") NumberLong(3) NumberDecimal("1.5")]`, `# comment
[1]`, `[/* x */ 1 /* y */]`, `{a:{b:{c:[{d:e}]}}}`, `'single' `, `"a" + "b"`, `+abc`, `[1 2] [3]`, `{a:1}{b:2}`, `[0x1F -Infinity NaN]`,
	`ISODate("x")`, `[a(b)]`, `{a:b(1 2)}`, `"é" + '\x41'`,
}

// genSen: SEN documents: every prefix x every SEN-alphabet byte x continuation, plus mutations
func genSen(r *rand.Rand, quick bool, emit func(job)) {
	k := 0
	if !quick {
		k = 1
	}
	g := &dgen{r: r}
	seeds := append([]string{}, senSeeds...)
	n := 20
	if !quick {
		n = 300
	}
	for i := 0; i < n; i++ {
		var sb strings.Builder
		g.value(&sb, 1+r.Intn(3), true)
		seeds = append(seeds, sb.String())
	}
	for si, s := range seeds {
		doc := []byte(s)
		if si >= len(senSeeds) {
			k = 0 // random seeds: no continuation
		}
		emit(job{b: doc, cls: "sen-seed", lang: "sen", extra: true})
		for p := 0; p <= len(doc); p++ {
			if si >= len(senSeeds) && p%3 != 0 {
				continue
			}
			for _, x := range alphaSEN {
				conts(alphaSEN, k, func(c []byte) {
					emit(job{b: cat(doc[:p], []byte{x}, c), cls: "sen-prefix-step", lang: "sen", light: len(c) > 0 || (quick && si >= 8)})
				})
			}
		}
		for m := 0; m < 40; m++ {
			x := doc
			for c := 0; c < 1+r.Intn(3); c++ {
				x = mutate(r, x, alphaSEN)
			}
			emit(job{b: x, cls: "sen-mutated", lang: "sen", extra: true})
		}
	}
}

var jpSeeds = []string{
	`$.a.b[1]`, `$..a[?(@.x == 1)]`, `$[1:3:2]`, `$['a','b']`, `@.x`, `$.a[?(@.b =~ /x/)]`, `$[?(length(@.a) > 1)]`, `$[?@.a < 3 && @.b != 'x']`,
	`(@.x == 3)`, `(@.a in [1,2,3])`, `(!(@.a has true) || @.b empty false)`, `$[-1]`, `$.*`, `$..`, `$[*].a`, `$["a"]`, `$[?(@.a == {"x":1})]`,
	`(@ ~= /a.c/i)`, `$[?(@.x exists true)]`, `$[0,1,'a']`, `$[:2]`, `$[::-1]`, `(1 + 2 * 3 - 4 / 5 == @.a)`, `$.a[?(count(@.b) >= 2)]`, `$[?(match(@.a, "x"))]`,
	`$[?(search(@.a, 'x'))]`, `a.b`, `[1]`, `$.a[(@.length-1)]`, `(@.x == 'a\'b')`, `$['é']`,
}

// genJP: every string over the path alphabet up to length L, plus mutations of valid paths and filters
func genJP(r *rand.Rand, quick bool, emit func(job)) {
	L := 3
	if !quick {
		L = 4
	}
	conts(alphaJP, L, func(c []byte) {
		emit(job{b: c, cls: "jp-exhaustive", lang: "jp"})
	})
	// filter context: the same strings inside "(" and "$[?(" up to length L-1
	conts(alphaJP, L-1, func(c []byte) {
		emit(job{b: cat([]byte("("), c), cls: "jp-filter-exhaustive", lang: "jp"})
		emit(job{b: cat([]byte("$[?("), c), cls: "jp-filter-exhaustive", lang: "jp"})
		emit(job{b: cat([]byte("$[?(@.a"), c), cls: "jp-filter-exhaustive", lang: "jp"})
		emit(job{b: cat([]byte("(@.a=="), c), cls: "jp-filter-exhaustive", lang: "jp"})
	})
	for _, s := range jpSeeds {
		doc := []byte(s)
		emit(job{b: doc, cls: "jp-seed", lang: "jp"})
		for p := 0; p <= len(doc); p++ {
			emit(job{b: doc[:p], cls: "jp-truncated", lang: "jp"})
			for _, x := range alphaJP {
				emit(job{b: cat(doc[:p], []byte{x}, doc[p:]), cls: "jp-insert", lang: "jp"})
				emit(job{b: cat(doc[:p], []byte{x}), cls: "jp-prefix-step", lang: "jp"})
				if p < len(doc) {
					emit(job{b: cat(doc[:p], []byte{x}, doc[p+1:]), cls: "jp-replace", lang: "jp"})
				}
			}
			if p < len(doc) {
				emit(job{b: cat(doc[:p], doc[p+1:]), cls: "jp-delete", lang: "jp"})
			}
		}
		n := 100
		if !quick {
			n = 3000
		}
		for m := 0; m < n; m++ {
			x := doc
			for c := 0; c < 2+r.Intn(2); c++ {
				x = mutate(r, x, alphaJP)
			}
			emit(job{b: x, cls: "jp-mutated", lang: "jp"})
		}
	}
}

// ---------------------------------------------------------------- Unmarshal / Recompose kind matrix
type tStruct struct {
	A int
	B string
}
type tNested struct {
	S tStruct
	P *tStruct
	L []tStruct
	M map[string]tStruct
	I any
}
type tEmbed struct {
	tStruct
	C float64
}

func convMatrix(agg map[string]*counts) []failure {
	values := []struct {
		k string
		j string
	}{
		{"null", `null`}, {"bool", `true`}, {"int", `3`}, {"negint", `-3`}, {"bigint", `12345678901234567890123`}, {"float", `1.5`}, {"string", `"x"`},
		{"empty-array", `[]`}, {"int-array", `[1,2]`}, {"mixed-array", `[1,"a",null,[2],{"a":1}]`}, {"empty-object", `{}`},
		{"object", `{"a":1,"b":"x"}`}, {"object-upper", `{"A":1,"B":"x"}`}, {"object-wrong", `{"A":"x","B":1}`}, {"object-null", `{"A":null,"B":null}`},
		{"nested", `{"S":{"A":1},"P":{"A":2},"L":[{"A":3}],"M":{"k":{"A":4}},"I":[1]}`}, {"nested-wrong", `{"S":[1],"P":3,"L":{"A":3},"M":[1],"I":{}}`},
		{"nested-null", `{"S":null,"P":null,"L":null,"M":null,"I":null}`}, {"array-of-arrays", `[[1],[2,[3]]]`}, {"typed", `{"^":"tStruct","A":1}`},
		{"deep", `[[[[[[[[[[1]]]]]]]]]]`}, {"array-of-objects", `[{"A":1},{"A":"x"},null,3]`},
	}
	targets := []struct {
		k  string
		mk func() any
	}{
		{"bool", func() any { return new(bool) }}, {"int", func() any { return new(int) }}, {"int8", func() any { return new(int8) }},
		{"uint", func() any { return new(uint) }}, {"float64", func() any { return new(float64) }}, {"float32", func() any { return new(float32) }},
		{"string", func() any { return new(string) }}, {"[]int", func() any { return new([]int) }}, {"[]string", func() any { return new([]string) }},
		{"[]any", func() any { return new([]any) }}, {"[2]int", func() any { return new([2]int) }}, {"map[string]int", func() any { return new(map[string]int) }},
		{"map[string]any", func() any { return new(map[string]any) }}, {"map[int]string", func() any { return new(map[int]string) }},
		{"struct", func() any { return new(tStruct) }}, {"*struct", func() any { return new(*tStruct) }}, {"[]struct", func() any { return new([]tStruct) }},
		{"[]*struct", func() any { return new([]*tStruct) }}, {"nested", func() any { return new(tNested) }}, {"embed", func() any { return new(tEmbed) }},
		{"any", func() any { return new(any) }}, {"time", func() any { return new(time.Time) }}, {"[][]int", func() any { return new([][]int) }},
		{"map[string][]int", func() any { return new(map[string][]int) }}, {"chan", func() any { return new(chan int) }}, {"func", func() any { return new(func()) }},
		{"non-pointer-struct", func() any { return tStruct{} }}, {"nil", func() any { return nil }}, {"**int", func() any { return new(**int) }},
	}
	calls := []struct {
		name string
		f    func(js string, t any) error
	}{
		{"oj.Unmarshal", func(js string, t any) error { return oj.Unmarshal([]byte(js), t) }},
		{"sen.Unmarshal", func(js string, t any) error { p := sen.Parser{}; return p.Unmarshal([]byte(js), t) }},
		{"alt.Recompose", func(js string, t any) error {
			v, err := oj.ParseString(js)
			if err != nil {
				return err
			}
			_, err = alt.Recompose(v, t)
			return err
		}},
		{"alt.Recomposer.Recompose", func(js string, t any) error {
			v, err := oj.ParseString(js)
			if err != nil {
				return err
			}
			r, err := alt.NewRecomposer("^", map[any]alt.RecomposeFunc{&tStruct{}: nil})
			if err != nil {
				return err
			}
			_, err = r.Recompose(v, t)
			return err
		}},
	}
	var fails []failure
	for _, c := range calls {
		for _, v := range values {
			for _, t := range targets {
				res := func() (res result) {
					defer func() {
						if x := recover(); x != nil {
							res.msg = fmt.Sprintf("%T: %v", x, x)
							if _, ok := x.(runtime.Error); ok {
								res.r = rPanicRT
							} else if _, ok := x.(error); ok {
								res.r = rPanicErr
							} else {
								res.r = rPanicOther
							}
						}
					}()
					if err := c.f(v.j, t.mk()); err != nil {
						return result{r: rErr}
					}
					return result{r: rOK}
				}()
				if res.r >= rPanicErr {
					fails = append(fails, failure{API: c.name, Lang: "conv", R: rName(res.r), M: res.msg, B: plib.Ints([]byte(v.j)), Cls: "kind-matrix", N: 1, VK: v.k, TK: t.k})
					continue
				}
				key := c.name + "\x00kind-matrix"
				g := agg[key]
				if g == nil {
					g = &counts{}
					agg[key] = g
				}
				g.n++
				if res.r == rOK {
					g.ok++
				} else {
					g.err++
				}
			}
		}
	}
	return fails
}
