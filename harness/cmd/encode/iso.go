package main

import (
	"bytes"
	"fmt"
	"os"
	"os/exec"
	"runtime/debug"
	"strconv"
	"strings"
	"sync"
	"time"
)

// Two-stage verdicts for calls that run in child processes (recursive types).
//
// Stage 1: the child runs alongside the other workers with a SHORT limit (scaled by the measured start-up time of a
// trivial child on this machine) and a small stack limit, so that unbounded recursion and real hangs are cheap.
// Stage 2: a child that exceeded the short limit or died is re-run ALONE (no other child of this harness is running)
// with a GENEROUS limit (>= 60 s) and the default 1 GB stack. Only what happens there counts:
//   - it returns            -> the call was merely slow / deep but finite: its output is judged normally;
//   - it does not return    -> verdict hang;
//   - it dies with a Go fatal error / panic message -> verdict died (attributed to the call);
//   - it dies without such a message (killed from outside, out of memory) -> undecidable: the harness stops with
//     exit status 2 and the pipeline raises verif.Infra. Slowness never becomes a verdict.
// A verdict confirmed in stage 2 is remembered per key (kinds [+ encoder]): later calls with the same key that fail
// stage 1 are not re-run for another minute each; they are recorded as skipped and take no part in the judgement.

const smallStackEnv = "VERIF_CHILD_SMALLSTACK"

var (
	isoMu      sync.RWMutex
	calOnce    sync.Once
	calTime    time.Duration
	confirmed  sync.Map // key -> childVerdict
	slowFactor = struct {
		sync.Mutex
		f int
	}{f: 1}
)

type childVerdict struct {
	kind string // hang | died
	msg  string
}

type childResult struct {
	out     []byte
	verdict *childVerdict // nil: the call returned
	skipped bool          // stage 1 failed and the same key has a confirmed verdict already
}

// childInit is called first thing by every child: the small stack limit applies to stage 1 only.
func childInit() {
	// self-test hook: a stage-2 child that ends silently (as if killed from outside) must make the harness stop with exit
	// status 2 (verif.Infra), never a verdict
	if os.Getenv(smallStackEnv) == "0" && os.Getenv("VERIF_TEST_DIE_SILENTLY") == "1" {
		os.Exit(137)
	}
	if os.Getenv(smallStackEnv) == "1" {
		debug.SetMaxStack(32 << 20)
		// self-test hook: VERIF_TEST_SLOW_STAGE1=<ms> makes every stage-1 child that slow (a loaded machine); the check must
		// still exit 0: the calls are re-run alone, return, and are judged normally
		if ms, err := strconv.Atoi(os.Getenv("VERIF_TEST_SLOW_STAGE1")); err == nil && ms > 0 && len(os.Args) > 1 && os.Args[1] != "calchild" {
			time.Sleep(time.Duration(ms) * time.Millisecond)
		}
	}
}

func generousLimit() time.Duration {
	lim := 60 * time.Second
	if s, err := strconv.Atoi(os.Getenv("VERIF_HANG_LIMIT")); err == nil && time.Duration(s)*time.Second > lim {
		lim = time.Duration(s) * time.Second
	}
	if 200*calibrate() > lim {
		lim = 200 * calibrate()
	}
	return lim
}

// calibrate times a trivial child (process start + warm-up of the library types) once.
func calibrate() time.Duration {
	calOnce.Do(func() {
		self, _ := os.Executable()
		best := time.Duration(0)
		for i := 0; i < 3; i++ {
			t0 := time.Now()
			if err := exec.Command(self, "calchild").Run(); err != nil {
				fmt.Fprintln(os.Stderr, "UNDECIDED: the calibration child does not run:", err)
				os.Exit(2)
			}
			if d := time.Since(t0); best == 0 || d < best {
				best = d
			}
		}
		calTime = best
	})
	return calTime
}

func shortLimit(base time.Duration, scale int) time.Duration {
	lim := base
	if d := time.Duration(scale) * calibrate(); d > lim {
		lim = d
	}
	slowFactor.Lock()
	lim *= time.Duration(slowFactor.f)
	slowFactor.Unlock()
	return lim
}

type rawRun struct {
	out      []byte
	errText  string
	timedOut bool
	failed   bool
}

func runOnce(args []string, stdin []byte, limit time.Duration, smallStack bool) rawRun {
	self, _ := os.Executable()
	cmd := exec.Command(self, args...)
	cmd.Stdin = bytes.NewReader(stdin)
	cmd.Env = append(os.Environ(), smallStackEnv+"="+map[bool]string{true: "1", false: "0"}[smallStack])
	var ob, eb bytes.Buffer
	cmd.Stdout, cmd.Stderr = &ob, &eb
	if err := cmd.Start(); err != nil {
		fmt.Fprintln(os.Stderr, "UNDECIDED: child does not start:", err)
		os.Exit(2)
	}
	done := make(chan error, 1)
	go func() { done <- cmd.Wait() }()
	select {
	case err := <-done:
		return rawRun{out: bytes.TrimSpace(ob.Bytes()), errText: eb.String(), failed: err != nil || len(bytes.TrimSpace(ob.Bytes())) == 0}
	case <-time.After(limit):
		_ = cmd.Process.Kill()
		<-done
		return rawRun{errText: eb.String(), timedOut: true, failed: true}
	}
}

func hasFatalMessage(s string) bool {
	for _, l := range strings.Split(s, "\n") {
		if strings.HasPrefix(l, "fatal error:") || strings.HasPrefix(l, "panic:") || strings.HasPrefix(l, "runtime: goroutine stack exceeds") {
			return true
		}
	}
	return false
}

// runChild: the two-stage run described above.
func runChild(args []string, stdin []byte, base time.Duration, scale int, key string) childResult {
	isoMu.RLock()
	r1 := runOnce(args, stdin, shortLimit(base, scale), true)
	isoMu.RUnlock()
	if !r1.failed {
		return childResult{out: r1.out}
	}
	if v, ok := confirmed.Load(key); ok {
		cv := v.(childVerdict)
		return childResult{verdict: &cv, skipped: true}
	}
	isoMu.Lock() // alone: no other child of this harness runs now
	defer isoMu.Unlock()
	if v, ok := confirmed.Load(key); ok { // confirmed while we waited for the lock
		cv := v.(childVerdict)
		return childResult{verdict: &cv, skipped: true}
	}
	lim := generousLimit()
	r2 := runOnce(args, stdin, lim, false)
	switch {
	case !r2.failed:
		// merely slow (or deep but finite): judged normally; be more patient in stage 1 from now on
		slowFactor.Lock()
		if slowFactor.f < 16 {
			slowFactor.f *= 2
		}
		slowFactor.Unlock()
		return childResult{out: r2.out}
	case r2.timedOut:
		cv := childVerdict{"hang", fmt.Sprintf("no return within %s when run alone (short limit %s)", lim, shortLimit(base, scale))}
		confirmed.Store(key, cv)
		return childResult{verdict: &cv}
	case hasFatalMessage(r2.errText):
		cv := childVerdict{"died", "the process died: " + trunc(fatalLine(r2.errText))}
		confirmed.Store(key, cv)
		return childResult{verdict: &cv}
	}
	fmt.Fprintf(os.Stderr, "UNDECIDED: child %v ended without a result and without a Go fatal error message when run alone (killed from outside / out of memory?): %s\n",
		args, trunc(strings.TrimSpace(r2.errText)))
	os.Exit(2)
	return childResult{}
}

func isolatedKinds(c *caseSpec) string {
	var ks []string
	if c.Top != "" && kinds[c.Top].isolate {
		ks = append(ks, c.Top)
	}
	for _, f := range c.F {
		if kinds[f.K].isolate {
			ks = append(ks, f.K)
		}
	}
	return strings.Join(ks, "+")
}
