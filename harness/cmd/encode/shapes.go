package main

import (
	"encoding"
	"encoding/base64"
	"encoding/json"
	"fmt"
	"math"
	"reflect"
	"sort"
	"strconv"
	"strings"
	"time"

	"github.com/ohler55/ojg/alt"

	"verif/harness/enctypes"
	"verif/harness/enctypes2"
)

// ---------------------------------------------------------------- cases

type fieldSpec struct {
	N string `json:"n"` // field name (type name for embedded fields)
	K string `json:"k"` // kind symbol (see kinds)
	T string `json:"t"` // tag form symbol: "", nm, dash, oe, nmoe, str, dashc
	V string `json:"v"` // value variant: z (zero / nil), n (non-zero, non-nil), e (empty but not nil / alternative)
	// C: container / pointer levels in front of the kind K, outermost first: m = map[string], s = [], p = *, a = [2]
	// (enumerated by TLC: EncodeGen DeepPre); <<m, s, p>> in front of S is map[string][]*S1
	C []string `json:"c,omitempty"`
}

// composeType puts the container levels of f.C in front of the base type.
func composeType(base reflect.Type, c []string) reflect.Type {
	t := base
	for i := len(c) - 1; i >= 0; i-- {
		switch c[i] {
		case "m":
			t = reflect.MapOf(reflect.TypeOf(""), t)
		case "s":
			t = reflect.SliceOf(t)
		case "p":
			t = reflect.PtrTo(t)
		case "a":
			t = reflect.ArrayOf(2, t)
		}
	}
	return t
}

// composeValue: z = zero value; n = every level holds one populated child (arrays: child and a zero element);
// e = populated down to the DEEPEST container level, which is empty but not nil (pointer: to a zero value).
func composeValue(base kindDef, c []string, v string) reflect.Value {
	t := composeType(base.typ, c)
	rv := reflect.New(t).Elem()
	if v == "z" {
		return rv
	}
	if len(c) == 0 {
		if x := base.val("n"); x != nil {
			rv.Set(reflect.ValueOf(x))
		}
		return rv
	}
	deepest := len(c) == 1
	var child reflect.Value
	if !(deepest && v == "e") {
		child = composeValue(base, c[1:], v)
	}
	switch c[0] {
	case "m":
		rv.Set(reflect.MakeMap(t))
		if child.IsValid() {
			rv.SetMapIndex(reflect.ValueOf("k"), child)
		}
	case "s":
		rv.Set(reflect.MakeSlice(t, 0, 1))
		if child.IsValid() {
			rv.Set(reflect.Append(rv, child))
		}
	case "p":
		rv.Set(reflect.New(t.Elem()))
		if child.IsValid() {
			rv.Elem().Set(child)
		}
	case "a":
		if child.IsValid() {
			rv.Index(0).Set(child)
		}
	}
	return rv
}

type optSpec struct {
	Tags  bool   `json:"tags"`
	Exact bool   `json:"exact"`
	Nil   bool   `json:"onil"`
	Empty bool   `json:"oempty"`
	Nest  bool   `json:"nest"`
	Sort  bool   `json:"sort"`
	Ck    string `json:"ck"`
	Full  bool   `json:"full"`
	Bytes int    `json:"bytes"` // 0 string, 1 base64, 2 array (ojg.BytesAs*)
}

type caseSpec struct {
	F   []fieldSpec `json:"f"`
	Top string      `json:"top,omitempty"` // a named library type used as the top-level value instead of an anonymous shape
	V   string      `json:"v,omitempty"`   // variant of the top value
	O   *optSpec    `json:"o,omitempty"`
	// type GRAPH histories (C15): the top-level kinds that were encoded before, in this order, by every encoder under the
	// same options in the same fresh process (the case then runs in a child process of its own)
	Pre []string `json:"pre,omitempty"`
}

// graphIDs: the graph family of Recompose.tla as top-level kinds (values: the family table of c16.go; variant z = zero
// value). They are only touched in child processes: the outcome for one of them must not depend on which others the
// process has encoded before.
var graphIDs = []string{"GA", "GB", "Anon4", "HA", "HB", "HC", "MA", "MB", "EO", "EP", "A.EI", "EQ", "B.EI", "Anon1", "Anon2", "Anon3"}

func init() {
	for _, id := range graphIDs {
		v := family[id]
		kinds[id] = kindDef{typ: reflect.TypeOf(v), isolate: true, val: func(variant string) any {
			if variant == "z" {
				return nil
			}
			return v
		}}
	}
}

type kindDef struct {
	typ      reflect.Type
	emb      bool
	isolate  bool               // recursive type: C16 runs every call on it in a child process under a watchdog
	tagsOnly bool               // C16: only the tag-keyed routes are in the Inverse domain (the tag of one member names another member)
	val      func(v string) any // nil result means the zero value of typ
}

var fixedTime = time.Date(2021, 3, 4, 5, 6, 7, 123456789, time.UTC)

func ip(i int) *int { return &i }

func f32p(f float32) *float32 { return &f }

var kinds = map[string]kindDef{
	"bool":  {typ: reflect.TypeOf(false), val: func(v string) any { return v != "z" }},
	"int":   {typ: reflect.TypeOf(0), val: func(v string) any { return pick(v, 0, 7, 7) }},
	"uint8": {typ: reflect.TypeOf(uint8(0)), val: func(v string) any { return pick(v, uint8(0), uint8(200), uint8(200)) }},
	"float": {typ: reflect.TypeOf(0.0), val: func(v string) any { return pick(v, 0.0, 0.1234567890123, 1e300) }},
	// negative zero: empty by == (what omitempty means for encoding/json and every ojg encoder), not by its bits
	"nzfloat":   {typ: reflect.TypeOf(0.0), val: func(v string) any { return math.Copysign(0, -1) }},
	"nzfloat32": {typ: reflect.TypeOf(float32(0)), val: func(v string) any { return float32(math.Copysign(0, -1)) }},
	"string":    {typ: reflect.TypeOf(""), val: func(v string) any { return pick(v, "", "abc", "abc") }},
	"*int":      {typ: reflect.TypeOf((*int)(nil)), val: func(v string) any { return pick(v, (*int)(nil), ip(7), ip(0)) }},
	"*S": {typ: reflect.TypeOf((*enctypes.S1)(nil)), val: func(v string) any {
		return pick(v, (*enctypes.S1)(nil), &enctypes.S1{Sa: 3, Sb: "x"}, &enctypes.S1{})
	}},
	"[]int":   {typ: reflect.TypeOf([]int(nil)), val: func(v string) any { return pick(v, []int(nil), []int{1, 2}, []int{}) }},
	"[]uint8": {typ: reflect.TypeOf([]byte(nil)), val: func(v string) any { return pick(v, []byte(nil), []byte("hi!"), []byte{}) }},
	"[]S": {typ: reflect.TypeOf([]enctypes.S1(nil)), val: func(v string) any {
		return pick(v, []enctypes.S1(nil), []enctypes.S1{{Sa: 3, Sb: "x"}, {}}, []enctypes.S1{})
	}},
	"[]*S": {typ: reflect.TypeOf([]*enctypes.S1(nil)), val: func(v string) any {
		return pick(v, []*enctypes.S1(nil), []*enctypes.S1{{Sa: 3, Sb: "x"}, nil}, []*enctypes.S1{{Sa: 3, Sb: "x"}})
	}},
	"[2]int": {typ: reflect.TypeOf([2]int{}), val: func(v string) any { return pick(v, [2]int{}, [2]int{1, 2}, [2]int{1, 2}) }},
	"map[string]int": {typ: reflect.TypeOf(map[string]int(nil)), val: func(v string) any {
		return pick(v, map[string]int(nil), map[string]int{"k": 1, "z": 0}, map[string]int{})
	}},
	"map[string]string": {typ: reflect.TypeOf(map[string]string(nil)), val: func(v string) any {
		return pick(v, map[string]string(nil), map[string]string{"k": "v", "z": ""}, map[string]string{"z": ""})
	}},
	"map[string]*S": {typ: reflect.TypeOf(map[string]*enctypes.S1(nil)), val: func(v string) any {
		return pick(v, map[string]*enctypes.S1(nil), map[string]*enctypes.S1{"k": {Sa: 3, Sb: "x"}, "nil": nil},
			map[string]*enctypes.S1{"k": {Sa: 3, Sb: "x"}})
	}},
	"any": {typ: reflect.TypeOf((*any)(nil)).Elem(), val: func(v string) any {
		return pick(v, nil, any(enctypes.S1{Sa: 3, Sb: "x"}), any(0))
	}},
	"S": {typ: reflect.TypeOf(enctypes.S1{}), val: func(v string) any { return pick(v, enctypes.S1{}, enctypes.S1{Sa: 3, Sb: "x"}, enctypes.S1{Sa: 3}) }},
	"anon": {typ: reflect.TypeOf(struct {
		Xa int
		Xb string
	}{}), val: func(v string) any {
		t := struct {
			Xa int
			Xb string
		}{}
		if v != "z" {
			t.Xa, t.Xb = 3, "x"
		}
		return t
	}},
	"time": {typ: reflect.TypeOf(time.Time{}), val: func(v string) any { return pick(v, time.Time{}, fixedTime, fixedTime) }},
	"E1":   {typ: reflect.TypeOf(enctypes.E1{}), emb: true, val: func(v string) any { return pick(v, enctypes.E1{}, enctypes.E1{Ea: 5, Eb: "e"}, enctypes.E1{Ea: 5}) }},
	"*E1": {typ: reflect.TypeOf((*enctypes.E1)(nil)), emb: true, val: func(v string) any {
		return pick(v, (*enctypes.E1)(nil), &enctypes.E1{Ea: 5, Eb: "e"}, &enctypes.E1{})
	}},
	"E2": {typ: reflect.TypeOf(enctypes.E2{}), emb: true, val: func(v string) any { return pick(v, enctypes.E2{}, enctypes.E2{Aa: "s", Ec: 9}, enctypes.E2{Ec: 9}) }},
	"E3": {typ: reflect.TypeOf(enctypes.E3{}), emb: true, val: func(v string) any {
		return pick(v, enctypes.E3{}, enctypes.E3{Ga: 5, Gb: 6, Gc: true, Gd: 2.5, Ge: 9}, enctypes.E3{Gb: 6, Gd: 2.5})
	}},
	"E4": {typ: reflect.TypeOf(enctypes.E4{}), emb: true, val: func(v string) any {
		return pick(v, enctypes.E4{}, enctypes.E4{Ha: 11, Hb: "h", E3: enctypes.E3{Ga: 5, Gb: 6, Gc: true, Gd: 2.5, Ge: 9}, Hz: true},
			enctypes.E4{Ha: 11, E3: enctypes.E3{Gb: 6, Gd: 2.5}})
	}},
	// recursive types (member, element, top-level target); z = nil / zero, e = depth 1, n = depth 3
	"Tree": {typ: reflect.TypeOf(enctypes.Tree(nil)), isolate: true, val: func(v string) any {
		return pick(v, enctypes.Tree(nil), enctypes.Tree{"a": {"b": {"c": {}}, "d": nil}, "e": {}}, enctypes.Tree{"a": {}})
	}},
	"List": {typ: reflect.TypeOf(enctypes.List(nil)), isolate: true, val: func(v string) any {
		return pick(v, enctypes.List(nil), enctypes.List{{{{}}}, {}, {{}, {}}}, enctypes.List{{}})
	}},
	"Node": {typ: reflect.TypeOf(enctypes.Node{}), isolate: true, val: func(v string) any {
		return pick(v, enctypes.Node{}, nodeN(), enctypes.Node{V: 1, Next: &enctypes.Node{V: 2}})
	}},
	"*Node": {typ: reflect.TypeOf((*enctypes.Node)(nil)), isolate: true, val: func(v string) any {
		n := nodeN()
		return pick(v, (*enctypes.Node)(nil), &n, &enctypes.Node{V: 1})
	}},
	"[]Node": {typ: reflect.TypeOf([]enctypes.Node(nil)), isolate: true, val: func(v string) any {
		return pick(v, []enctypes.Node(nil), []enctypes.Node{nodeN(), {}}, []enctypes.Node{{V: 1}})
	}},
	"map[string]Tree": {typ: reflect.TypeOf(map[string]enctypes.Tree(nil)), isolate: true, val: func(v string) any {
		return pick(v, map[string]enctypes.Tree(nil), map[string]enctypes.Tree{"t": {"a": {"b": {}}}, "u": {}}, map[string]enctypes.Tree{"t": {}})
	}},
	"P": {typ: reflect.TypeOf(enctypes.P(nil)), isolate: true, val: func(v string) any {
		var p0 enctypes.P
		p1 := enctypes.P(&p0)
		p2 := enctypes.P(&p1)
		return pick(v, enctypes.P(nil), p2, p1)
	}},
	"Ma": {typ: reflect.TypeOf(enctypes.Ma{}), isolate: true, val: func(v string) any {
		return pick(v, enctypes.Ma{}, enctypes.Ma{N: 1, B: &enctypes.Mb{S: "b", A: &enctypes.Ma{N: 2, B: &enctypes.Mb{S: "c"}}, As: []enctypes.Ma{{N: 3}, {N: 4, B: &enctypes.Mb{}}}}},
			enctypes.Ma{N: 1, B: &enctypes.Mb{S: "b"}})
	}},
	// generic struct types (type names with [ ] . / in them)
	"Pair[int]": {typ: reflect.TypeOf(enctypes.Pair[int]{}), val: func(v string) any {
		return pick(v, enctypes.Pair[int]{}, enctypes.Pair[int]{Left: 1, Right: 2}, enctypes.Pair[int]{Right: 2})
	}},
	"Pair[string]": {typ: reflect.TypeOf(enctypes.Pair[string]{}), val: func(v string) any {
		return pick(v, enctypes.Pair[string]{}, enctypes.Pair[string]{Left: "l", Right: "r"}, enctypes.Pair[string]{Right: "r"})
	}},
	"Pair[Pair[int]]": {typ: reflect.TypeOf(enctypes.Pair[enctypes.Pair[int]]{}), val: func(v string) any {
		return pick(v, enctypes.Pair[enctypes.Pair[int]]{}, enctypes.Pair[enctypes.Pair[int]]{Left: enctypes.Pair[int]{Left: 1, Right: 2}, Right: enctypes.Pair[int]{Left: 3}},
			enctypes.Pair[enctypes.Pair[int]]{Right: enctypes.Pair[int]{Left: 3}})
	}},
	"*Pair[int]": {typ: reflect.TypeOf((*enctypes.Pair[int])(nil)), val: func(v string) any {
		return pick(v, (*enctypes.Pair[int])(nil), &enctypes.Pair[int]{Left: 1, Right: 2}, &enctypes.Pair[int]{})
	}},
	"[]Pair[int]": {typ: reflect.TypeOf([]enctypes.Pair[int](nil)), val: func(v string) any {
		return pick(v, []enctypes.Pair[int](nil), []enctypes.Pair[int]{{Left: 1, Right: 2}, {}}, []enctypes.Pair[int]{})
	}},
	"anyPair": {typ: reflect.TypeOf((*any)(nil)).Elem(), val: func(v string) any {
		return pick(v, nil, any(&enctypes.Pair[int]{Left: 1, Right: 2}), any(enctypes.Pair[string]{Left: "l"}))
	}},
	// the same struct type embedded along two paths; diamonds
	"Doc": {typ: reflect.TypeOf(enctypes.Doc{}), val: func(v string) any {
		return pick(v, enctypes.Doc{}, docN(), enctypes.Doc{Base: enctypes.Base{Stamp: enctypes.Stamp{Created: 3}, ID: 7}})
	}},
	"Doc2": {typ: reflect.TypeOf(enctypes.Doc2{}), val: func(v string) any {
		d := docN()
		return pick(v, enctypes.Doc2{}, enctypes.Doc2{Base: d.Base, Stamp: d.Stamp, Title: "t"}, enctypes.Doc2{Stamp: enctypes.Stamp{Updated: 2}})
	}},
	"Dia": {typ: reflect.TypeOf(enctypes.Dia{}), val: func(v string) any {
		return pick(v, enctypes.Dia{}, enctypes.Dia{B1: enctypes.B1{D0: enctypes.D0{K: 1}, Bx: 2}, C1: enctypes.C1{D0: enctypes.D0{K: 3}, Cx: 4}, T: "t"}, enctypes.Dia{C1: enctypes.C1{D0: enctypes.D0{K: 3}}})
	}},
	"Dia2": {typ: reflect.TypeOf(enctypes.Dia2{}), val: func(v string) any {
		return pick(v, enctypes.Dia2{}, enctypes.Dia2{B1: enctypes.B1{D0: enctypes.D0{K: 1}, Bx: 2}, D0: enctypes.D0{K: 3}, T: "t"}, enctypes.Dia2{B1: enctypes.B1{D0: enctypes.D0{K: 1}}})
	}},
	"Base": {typ: reflect.TypeOf(enctypes.Base{}), emb: true, val: func(v string) any {
		return pick(v, enctypes.Base{}, enctypes.Base{Stamp: enctypes.Stamp{Created: 3, Updated: 4}, ID: 7}, enctypes.Base{ID: 7})
	}},
	"B1": {typ: reflect.TypeOf(enctypes.B1{}), emb: true, val: func(v string) any {
		return pick(v, enctypes.B1{}, enctypes.B1{D0: enctypes.D0{K: 1}, Bx: 2}, enctypes.B1{Bx: 2})
	}},
	"C1": {typ: reflect.TypeOf(enctypes.C1{}), emb: true, val: func(v string) any {
		return pick(v, enctypes.C1{}, enctypes.C1{D0: enctypes.D0{K: 3}, Cx: 4}, enctypes.C1{D0: enctypes.D0{K: 3}})
	}},
	"D0": {typ: reflect.TypeOf(enctypes.D0{}), emb: true, val: func(v string) any { return pick(v, enctypes.D0{}, enctypes.D0{K: 5}, enctypes.D0{K: 5}) }},
	"Stamp": {typ: reflect.TypeOf(enctypes.Stamp{}), emb: true, val: func(v string) any {
		return pick(v, enctypes.Stamp{}, enctypes.Stamp{Created: 1, Updated: 2}, enctypes.Stamp{Updated: 2})
	}},
	// members whose interface data word is zero although they are not nil pointers / interfaces (OmitNil: nil members only)
	"SP":      {typ: reflect.TypeOf(enctypes.SP{}), val: func(v string) any { return pick(v, enctypes.SP{}, enctypes.SP{P: ip(7)}, enctypes.SP{P: ip(0)}) }},
	"E0":      {typ: reflect.TypeOf(enctypes.E0{}), val: func(v string) any { return enctypes.E0{} }},
	"[1]*int": {typ: reflect.TypeOf([1]*int{}), val: func(v string) any { return pick(v, [1]*int{}, [1]*int{ip(7)}, [1]*int{ip(0)}) }},
	"[1]*S": {typ: reflect.TypeOf([1]*enctypes.S1{}), val: func(v string) any {
		return pick(v, [1]*enctypes.S1{}, [1]*enctypes.S1{{Sa: 3, Sb: "x"}}, [1]*enctypes.S1{{}})
	}},
	// elements that embed a struct POINTER (e: the pointer is set, its target all zero)
	"Meta": {typ: reflect.TypeOf(enctypes.Meta{}), val: func(v string) any {
		return pick(v, enctypes.Meta{}, metaN(), enctypes.Meta{MBase: &enctypes.MBase{}, Note: "a"})
	}},
	"*Meta": {typ: reflect.TypeOf((*enctypes.Meta)(nil)), val: func(v string) any {
		m := metaN()
		return pick(v, (*enctypes.Meta)(nil), &m, &enctypes.Meta{MBase: &enctypes.MBase{}, Note: "a"})
	}},
	"[]Meta": {typ: reflect.TypeOf([]enctypes.Meta(nil)), val: func(v string) any {
		return pick(v, []enctypes.Meta(nil), []enctypes.Meta{metaN(), {MBase: &enctypes.MBase{}}}, []enctypes.Meta{{MBase: &enctypes.MBase{}, Note: "b"}})
	}},
	"map[string]Meta": {typ: reflect.TypeOf(map[string]enctypes.Meta(nil)), val: func(v string) any {
		return pick(v, map[string]enctypes.Meta(nil), map[string]enctypes.Meta{"a": metaN(), "z": {MBase: &enctypes.MBase{}}}, map[string]enctypes.Meta{"z": {MBase: &enctypes.MBase{}, Note: "c"}})
	}},
	// members whose key is the create key
	"Ev": {typ: reflect.TypeOf(enctypes.Ev{}), val: func(v string) any {
		return pick(v, enctypes.Ev{}, enctypes.Ev{Seq: 1, Type: "click"}, enctypes.Ev{Type: "key"})
	}},
	"LogT": {typ: reflect.TypeOf(enctypes.LogT{}), val: func(v string) any {
		return pick(v, enctypes.LogT{}, enctypes.LogT{Name: "log", Events: []*enctypes.Ev{{Seq: 1, Type: "click"}, {Seq: 2, Type: "key"}}, First: &enctypes.Ev{Seq: 3, Type: "Ev"}},
			enctypes.LogT{First: &enctypes.Ev{Type: "key"}})
	}},
	"Hat": {typ: reflect.TypeOf(enctypes.Hat{}), tagsOnly: true, val: func(v string) any {
		return pick(v, enctypes.Hat{}, enctypes.Hat{Caret: "c", N: 1}, enctypes.Hat{Caret: "Hat"})
	}},
	// owners that reach Leaf only through 3 .. 6 container / pointer levels, with an interface member holding a *Leaf
	// (n: deep member populated, e: deep member empty, z: everything nil)
	"Deep3": {typ: reflect.TypeOf(enctypes.Deep3{}), val: func(v string) any {
		return pick(v, enctypes.Deep3{}, enctypes.Deep3{Deep: map[string][]*enctypes.Leaf{"k": {leafN()}}, Top: leafN()}, enctypes.Deep3{Deep: map[string][]*enctypes.Leaf{}, Top: leafN()})
	}},
	"Deep4": {typ: reflect.TypeOf(enctypes.Deep4{}), val: func(v string) any {
		return pick(v, enctypes.Deep4{}, enctypes.Deep4{Deep: [][][][]enctypes.Leaf{{{{*leafN()}}}}, Top: leafN()}, enctypes.Deep4{Deep: [][][][]enctypes.Leaf{}, Top: leafN()})
	}},
	"Deep5": {typ: reflect.TypeOf(enctypes.Deep5{}), val: func(v string) any {
		return pick(v, enctypes.Deep5{}, enctypes.Deep5{Deep: map[string]map[string]map[string][]*enctypes.Leaf{"a": {"b": {"c": {leafN()}}}}, Top: leafN()},
			enctypes.Deep5{Deep: map[string]map[string]map[string][]*enctypes.Leaf{}, Top: leafN()})
	}},
	"Deep6": {typ: reflect.TypeOf(enctypes.Deep6{}), val: func(v string) any {
		return pick(v, enctypes.Deep6{}, enctypes.Deep6{Deep: map[string][]map[string][]*[2]enctypes.Leaf{"a": {{"b": {&[2]enctypes.Leaf{*leafN(), {}}}}}}, Top: leafN()},
			enctypes.Deep6{Deep: map[string][]map[string][]*[2]enctypes.Leaf{}, Top: leafN()})
	}},
	// embedded self pointers (every encoder used to die with a stack overflow while building the field plan)
	"EN": {typ: reflect.TypeOf(enctypes.EN{}), isolate: true, val: func(v string) any {
		return pick(v, enctypes.EN{}, enctypes.EN{EN: &enctypes.EN{V: 3}, V: 2}, enctypes.EN{V: 2})
	}},
	"*EN": {typ: reflect.TypeOf((*enctypes.EN)(nil)), isolate: true, val: func(v string) any {
		return pick(v, (*enctypes.EN)(nil), &enctypes.EN{EN: &enctypes.EN{V: 3}, V: 2}, &enctypes.EN{V: 2})
	}},
	"EA": {typ: reflect.TypeOf(enctypes.EA{}), isolate: true, val: func(v string) any {
		return pick(v, enctypes.EA{}, enctypes.EA{EB: &enctypes.EB{EA: &enctypes.EA{X: 3}, Y: 2}, X: 1}, enctypes.EA{EB: &enctypes.EB{Y: 2}, X: 1})
	}},
	// full-precision numerics in by-value positions (member, slice element, map element) and behind a pointer
	"N":  {typ: reflect.TypeOf(enctypes.N1{}), val: func(v string) any { return pick(v, enctypes.N1{}, n1(), enctypes.N1{Nf: -1e-300, Ni: -16777217}) }},
	"*N": {typ: reflect.TypeOf((*enctypes.N1)(nil)), val: func(v string) any { x := n1(); return pick(v, (*enctypes.N1)(nil), &x, &enctypes.N1{}) }},
	"[]N": {typ: reflect.TypeOf([]enctypes.N1(nil)), val: func(v string) any {
		return pick(v, []enctypes.N1(nil), []enctypes.N1{n1(), {}}, []enctypes.N1{})
	}},
	"map[string]N": {typ: reflect.TypeOf(map[string]enctypes.N1(nil)), val: func(v string) any {
		return pick(v, map[string]enctypes.N1(nil), map[string]enctypes.N1{"a": n1(), "z": {}}, map[string]enctypes.N1{})
	}},
	// every integer kind with `,string` (n: maxima, e: minima / upper half of the unsigned ranges) and plain
	"IS1": {typ: reflect.TypeOf(enctypes.IS1{}), tagsOnly: true, val: func(v string) any {
		return pick(v, enctypes.IS1{},
			enctypes.IS1{A: 127, B: 32767, C: 2147483647, D: 9223372036854775807, E: 9223372036854775807, F: 255, G: 65535, H: 4294967295, I: 9223372036854775807, J: 9223372036854775807},
			enctypes.IS1{A: -128, B: -32768, C: -2147483648, D: -9223372036854775808, E: -9223372036854775808, F: 128, G: 50051, H: 4000000000, I: 4611686018427387905, J: 4611686018427387905})
	}},
	"IS64": {typ: reflect.TypeOf(enctypes.IS64{}), tagsOnly: true, val: func(v string) any {
		return pick(v, enctypes.IS64{}, enctypes.IS64{I: 18446744073709551615, P: 18446744073709551615}, enctypes.IS64{I: 9223372036854775808, P: 1})
	}},
	"IP1": {typ: reflect.TypeOf(enctypes.IP1{}), val: func(v string) any {
		return pick(v, enctypes.IP1{}, enctypes.IP1{A: 127, B: 32767, C: 2147483647, D: 9007199254740991, F: 255, G: 65535, H: 4294967295, I: 9007199254740991},
			enctypes.IP1{A: -128, B: -32768, C: -2147483648, D: -9007199254740991, F: 128, G: 50051, H: 4000000000, I: 4503599627370497})
	}},
	// multi-level pointer embedding: z = outer nil, e = outer set / inner nil, n = all set
	"*P2": {typ: reflect.TypeOf((*enctypes.P2)(nil)), emb: true, val: func(v string) any {
		return pick(v, (*enctypes.P2)(nil), &enctypes.P2{P3: &enctypes.P3{Pa: 5, Pb: "p"}, Ma: 6}, &enctypes.P2{Ma: 6})
	}},
	"*Q2": {typ: reflect.TypeOf((*enctypes.Q2)(nil)), emb: true, val: func(v string) any {
		return pick(v, (*enctypes.Q2)(nil), &enctypes.Q2{Q3: enctypes.Q3{Qb: 2, P3: &enctypes.P3{Pa: 5, Pb: "p"}}, Qa: 1}, &enctypes.Q2{Q3: enctypes.Q3{Qb: 2}, Qa: 1})
	}},
	"R1": {typ: reflect.TypeOf(enctypes.R1{}), emb: true, val: func(v string) any {
		return pick(v, enctypes.R1{Ra: 1}, enctypes.R1{Ra: 1, P2: &enctypes.P2{P3: &enctypes.P3{Pa: 5, Pb: "p"}, Ma: 6}}, enctypes.R1{Ra: 1, P2: &enctypes.P2{Ma: 6}})
	}},
	// byte arrays and named byte types: only a []byte (named or not) follows BytesAs, an array of bytes is an array of numbers
	"[0]uint8": {typ: reflect.TypeOf([0]byte{}), val: func(v string) any { return [0]byte{} }},
	"[1]uint8": {typ: reflect.TypeOf([1]byte{}), val: func(v string) any { return pick(v, [1]byte{}, [1]byte{7}, [1]byte{7}) }},
	"[4]uint8": {typ: reflect.TypeOf([4]byte{}), val: func(v string) any { return pick(v, [4]byte{}, [4]byte{104, 105, 33, 0}, [4]byte{1, 2, 3, 4}) }},
	"BA4": {typ: reflect.TypeOf(enctypes.BA4{}), val: func(v string) any {
		return pick(v, enctypes.BA4{}, enctypes.BA4{104, 105, 33, 0}, enctypes.BA4{1, 2, 3, 4})
	}},
	"BS": {typ: reflect.TypeOf(enctypes.BS(nil)), val: func(v string) any { return pick(v, enctypes.BS(nil), enctypes.BS("hi!"), enctypes.BS{}) }},
	"[][4]uint8": {typ: reflect.TypeOf([][4]byte(nil)), val: func(v string) any {
		return pick(v, [][4]byte(nil), [][4]byte{{104, 105, 33, 0}, {}}, [][4]byte{})
	}},
	"[]BS": {typ: reflect.TypeOf([]enctypes.BS(nil)), val: func(v string) any {
		return pick(v, []enctypes.BS(nil), []enctypes.BS{enctypes.BS("hi!"), nil, {}}, []enctypes.BS{})
	}},
	"map[string][4]uint8": {typ: reflect.TypeOf(map[string][4]byte(nil)), val: func(v string) any {
		return pick(v, map[string][4]byte(nil), map[string][4]byte{"k": {104, 105, 33, 0}, "z": {}}, map[string][4]byte{})
	}},
	// float32 values that are not dyadic: the shortest float32 text (1.1) differs from the float64 expansion (1.100000023841858)
	"float32":  {typ: reflect.TypeOf(float32(0)), val: func(v string) any { return pick(v, float32(0), float32(1.1), float32(-0.3)) }},
	"*float32": {typ: reflect.TypeOf((*float32)(nil)), val: func(v string) any { return pick(v, (*float32)(nil), f32p(98.6), f32p(0)) }},
	"[]float32": {typ: reflect.TypeOf([]float32(nil)), val: func(v string) any {
		return pick(v, []float32(nil), []float32{1.1, 98.6, -0.3, 3.4e38, 1e-7}, []float32{})
	}},
	"[2]float32": {typ: reflect.TypeOf([2]float32{}), val: func(v string) any { return pick(v, [2]float32{}, [2]float32{1.1, 1e-7}, [2]float32{98.6, 0}) }},
	"map[string]float32": {typ: reflect.TypeOf(map[string]float32(nil)), val: func(v string) any {
		return pick(v, map[string]float32(nil), map[string]float32{"a": 1.1, "b": 3.4e38, "z": 0}, map[string]float32{})
	}},
	"[]anyF": {typ: reflect.TypeOf([]any(nil)), val: func(v string) any {
		return pick(v, []any(nil), []any{float32(1.1), float32(98.6), []any{float32(-0.3)}}, []any{})
	}},
	// a string member longer than the default WriteLimit (1024) of the io.Writer entry points
	"lstring": {typ: reflect.TypeOf(""), val: func(v string) any { return pick(v, "", strings.Repeat("long-string/", 100), "abc") }},
	// []any (also as the top-level target) holding user struct pointers identified through the create key, directly and nested
	"[]anyP": {typ: reflect.TypeOf([]any(nil)), val: func(v string) any {
		return pick(v, []any(nil), []any{&enctypes.S1{Sa: 3, Sb: "x"}, []any{&enctypes.T{X: 4, Name: "t"}, "s"}, map[string]any{"k": &enctypes.S1{Sa: 5, Sb: "y"}},
			[]any{[]any{[]any{&enctypes.S1{Sa: 9, Sb: "d"}}}}}, []any{&enctypes.S1{}})
	}},
	"L1": {typ: reflect.TypeOf(enctypes.L1{}), val: func(v string) any {
		return pick(v, enctypes.L1{}, enctypes.L1{
			Items: []any{&enctypes.S1{Sa: 3, Sb: "x"}, []any{&enctypes.T{X: 4, Name: "t"}, "s"}, map[string]any{"k": &enctypes.S1{Sa: 5, Sb: "y"}},
				[]any{[]any{[]any{&enctypes.S1{Sa: 9, Sb: "d"}}}, map[string]any{"m": []any{[]any{&enctypes.T{X: 8, Name: "n"}}}}}},
			M: map[string]any{"a": []any{&enctypes.S1{Sa: 1, Sb: "a"}}, "b": &enctypes.T{X: 2, Name: "b"},
				"c": map[string]any{"d": []any{[]any{&enctypes.S1{Sa: 6, Sb: "e"}}}}},
			X: []any{&enctypes.S1{Sa: 7, Sb: "z"}},
		}, enctypes.L1{Items: []any{&enctypes.S1{}}, X: &enctypes.T{X: 1}})
	}},
	// `,string` mixed with plain numeric / bool members; tags that name another member
	"Str1": {typ: reflect.TypeOf(enctypes.Str1{}), val: func(v string) any {
		return pick(v, enctypes.Str1{}, enctypes.Str1{A: 1, B: 2.5, C: true, D: 5}, enctypes.Str1{D: 5})
	}},
	"Str2": {typ: reflect.TypeOf(enctypes.Str2{}), val: func(v string) any {
		return pick(v, enctypes.Str2{}, enctypes.Str2{D: 5, A: 1, C: true, B: 0.1234567890123, E: 0.1234567890123, F: true}, enctypes.Str2{A: 1, B: 2.5})
	}},
	"Col1": {typ: reflect.TypeOf(enctypes.Col1{}), tagsOnly: true, val: func(v string) any {
		return pick(v, enctypes.Col1{}, enctypes.Col1{Kind: "k", Type: "t"}, enctypes.Col1{Type: "t"})
	}},
	"Col2": {typ: reflect.TypeOf(enctypes.Col2{}), tagsOnly: true, val: func(v string) any {
		return pick(v, enctypes.Col2{}, enctypes.Col2{Id: 1, Num: 2, Z: 3}, enctypes.Col2{Num: 2})
	}},
	"Col3": {typ: reflect.TypeOf(enctypes.Col3{}), tagsOnly: true, val: func(v string) any {
		return pick(v, enctypes.Col3{}, enctypes.Col3{Name: "n", Title: "t", Count: 1}, enctypes.Col3{Name: "n", Count: 2})
	}},
	// containers of struct VALUES with a zero-valued member in some element (a tag on the field must not reach the elements)
	"[2]S": {typ: reflect.TypeOf([2]enctypes.S1{}), val: func(v string) any {
		return pick(v, [2]enctypes.S1{}, [2]enctypes.S1{{Sa: 3}, {Sb: "x"}}, [2]enctypes.S1{{Sa: 3, Sb: "x"}, {Sa: 4, Sb: "y"}})
	}},
	"map[string]S": {typ: reflect.TypeOf(map[string]enctypes.S1(nil)), val: func(v string) any {
		return pick(v, map[string]enctypes.S1(nil), map[string]enctypes.S1{"k": {Sa: 3, Sb: "x"}, "z": {}, "h": {Sb: "y"}}, map[string]enctypes.S1{})
	}},
	// containers of structs whose pointer / slice / map members are populated differently from element to element
	"map[string]M":  {typ: reflect.TypeOf(map[string]enctypes.M1(nil)), val: func(v string) any { return mapM(v) }},
	"map[string]*M": {typ: reflect.TypeOf(map[string]*enctypes.M1(nil)), val: func(v string) any { return mapPM(v) }},
	"[]M":           {typ: reflect.TypeOf([]enctypes.M1(nil)), val: func(v string) any { return sliceM(v) }},
	"[]*M":          {typ: reflect.TypeOf([]*enctypes.M1(nil)), val: func(v string) any { return slicePM(v) }},
	// named library types as field kinds
	"T1": {typ: reflect.TypeOf(enctypes.T{}), val: func(v string) any { return pick(v, enctypes.T{}, enctypes.T{X: 4, Name: "t"}, enctypes.T{X: 4}) }},
	"T2": {typ: reflect.TypeOf(enctypes2.T{}), val: func(v string) any {
		return pick(v, enctypes2.T{}, enctypes2.T{Y: "y", Flag: true}, enctypes2.T{Y: "y"})
	}},
	"*T2": {typ: reflect.TypeOf((*enctypes2.T)(nil)), val: func(v string) any {
		return pick(v, (*enctypes2.T)(nil), &enctypes2.T{Y: "y", Flag: true}, &enctypes2.T{})
	}},
	"U": {typ: reflect.TypeOf(enctypes.U{}), val: func(v string) any {
		return pick(v, enctypes.U{}, enctypes.U{Ts: []enctypes.T{{X: 1, Name: "a"}, {}}, N: 2}, enctypes.U{Ts: []enctypes.T{}})
	}},
	"V": {typ: reflect.TypeOf(enctypes.V{}), val: func(v string) any {
		return pick(v, enctypes.V{}, enctypes.V{P: &enctypes2.T{Y: "y", Flag: true}, N: 2}, enctypes.V{P: &enctypes2.T{}})
	}},
	"W": {typ: reflect.TypeOf(enctypes.W{}), val: func(v string) any {
		return pick(v, enctypes.W{}, enctypes.W{I: enctypes.T{X: 4, Name: "t"}, N: 2}, enctypes.W{I: &enctypes2.T{Y: "y"}, N: 1})
	}},
	"Tagged": {typ: reflect.TypeOf(enctypes.Tagged{}), val: func(v string) any {
		return pick(v, enctypes.Tagged{}, enctypes.Tagged{A: 1, B: "b", C: ip(2), D: true, F: 2.5, G: 3}, enctypes.Tagged{A: 1, C: ip(0)})
	}},
	"Unexp": {typ: reflect.TypeOf(enctypes.Unexp{}), val: func(v string) any {
		return pick(v, enctypes.Unexp{}, enctypes.NewUnexp(3, "p"), enctypes.NewUnexp(0, "p"))
	}},
	"Emb": {typ: reflect.TypeOf(enctypes.Emb{}), val: func(v string) any {
		return pick(v, enctypes.Emb{}, enctypes.Emb{E1: enctypes.E1{Ea: 5, Eb: "e"}, Z: 1}, enctypes.Emb{Z: 1})
	}},
	"EmbPtr": {typ: reflect.TypeOf(enctypes.EmbPtr{}), val: func(v string) any {
		return pick(v, enctypes.EmbPtr{}, enctypes.EmbPtr{E1: &enctypes.E1{Ea: 5, Eb: "e"}, Z: 1}, enctypes.EmbPtr{E1: &enctypes.E1{}})
	}},
	"Simp":  {typ: reflect.TypeOf(enctypes.Simp{}), val: func(v string) any { return pick(v, enctypes.Simp{}, enctypes.Simp{N: 3}, enctypes.Simp{N: 3}) }},
	"PSimp": {typ: reflect.TypeOf(enctypes.PSimp{}), val: func(v string) any { return pick(v, enctypes.PSimp{}, enctypes.PSimp{N: 3}, enctypes.PSimp{N: 3}) }},
	"Gen":   {typ: reflect.TypeOf(enctypes.Gen{}), val: func(v string) any { return pick(v, enctypes.Gen{}, enctypes.Gen{N: 3}, enctypes.Gen{N: 3}) }},
	"JM":    {typ: reflect.TypeOf(enctypes.JM{}), val: func(v string) any { return pick(v, enctypes.JM{}, enctypes.JM{N: 3}, enctypes.JM{N: 3}) }},
	"PJM":   {typ: reflect.TypeOf(enctypes.PJM{}), val: func(v string) any { return pick(v, enctypes.PJM{}, enctypes.PJM{N: 3}, enctypes.PJM{N: 3}) }},
	"TM":    {typ: reflect.TypeOf(enctypes.TM{}), val: func(v string) any { return pick(v, enctypes.TM{}, enctypes.TM{N: 3}, enctypes.TM{N: 3}) }},
	"MyInt": {typ: reflect.TypeOf(enctypes.MyInt(0)), val: func(v string) any { return pick(v, enctypes.MyInt(0), enctypes.MyInt(7), enctypes.MyInt(7)) }},
}

// elements: full, bare (pointer / slice / map members absent), other full, bare again; every call builds fresh values
func m1s(v string) []enctypes.M1 {
	full := enctypes.M1{Mp: ip(1), Ms: []int{1}, Mm: map[string]int{"x": 1}, Mn: 1}
	other := enctypes.M1{Mp: ip(3), Ms: []int{3, 4}, Mm: map[string]int{"y": 2}, Mn: 3}
	if v == "e" {
		return []enctypes.M1{full, {Mn: 2}}
	}
	return []enctypes.M1{full, {Mn: 2}, other, {Mn: 4}}
}

func mapM(v string) any {
	if v == "z" {
		return map[string]enctypes.M1(nil)
	}
	m := map[string]enctypes.M1{}
	for i, x := range m1s(v) {
		m[string(rune('a'+i))] = x
	}
	return m
}

func mapPM(v string) any {
	if v == "z" {
		return map[string]*enctypes.M1(nil)
	}
	m := map[string]*enctypes.M1{}
	for i, x := range m1s(v) {
		x := x
		m[string(rune('a'+i))] = &x
	}
	return m
}

func sliceM(v string) any {
	if v == "z" {
		return []enctypes.M1(nil)
	}
	return m1s(v)
}

func slicePM(v string) any {
	if v == "z" {
		return []*enctypes.M1(nil)
	}
	var a []*enctypes.M1
	for _, x := range m1s(v) {
		x := x
		a = append(a, &x)
	}
	return a
}

func docN() enctypes.Doc {
	return enctypes.Doc{Stamp: enctypes.Stamp{Created: 1, Updated: 2}, Base: enctypes.Base{Stamp: enctypes.Stamp{Created: 3, Updated: 4}, ID: 7}, Title: "t"}
}

func metaN() enctypes.Meta { return enctypes.Meta{MBase: &enctypes.MBase{Rev: 1, Tag: "g"}, Note: "a"} }

func leafN() *enctypes.Leaf { return &enctypes.Leaf{La: 1, Lb: "l"} }

func nodeN() enctypes.Node {
	return enctypes.Node{V: 1, Next: &enctypes.Node{V: 2, Next: &enctypes.Node{V: 3, Kids: []enctypes.Node{{V: 4}}}},
		Kids: []enctypes.Node{{V: 5, M: map[string]*enctypes.Node{"k": {V: 6}}}, {}},
		M:    map[string]*enctypes.Node{"a": {V: 7, Kids: []enctypes.Node{{V: 8}}}, "b": {V: 9}}}
}

func n1() enctypes.N1 {
	return enctypes.N1{Nf: 0.1234567890123, Ng: 1e300, Nh: 16777217, Nt: 1e-300, Ni: 16777217, Nu: 50051, Nb: true, Ns: 1.1}
}

func pick(v string, z, n, e any) any {
	switch v {
	case "z":
		return z
	case "e":
		return e
	}
	return n
}

func tagString(f fieldSpec) string {
	nm := "z" + strings.ToLower(f.N)
	switch f.T {
	case "nm":
		return `json:"` + nm + `"`
	case "dash":
		return `json:"-"`
	case "oe":
		return `json:",omitempty"`
	case "nmoe":
		return `json:"` + nm + `,omitempty"`
	case "str":
		return `json:",string"`
	case "dashc":
		return `json:"-,"`
	// several options in every order (every tag parser must read the option LIST, not the option text), unknown options mixed in
	case "stroe":
		return `json:",string,omitempty"`
	case "nmstroe":
		return `json:"` + nm + `,string,omitempty"`
	case "nmoestr":
		return `json:"` + nm + `,omitempty,string"`
	case "xstroe":
		return `json:",future,string,x,omitempty"`
	}
	return ""
}

// buildValue materialises the case: an anonymous struct type made with reflect.StructOf (or a named library
// type for "top" cases) and an addressable value of it.
func buildValue(c *caseSpec) (rv reflect.Value, err error) {
	defer func() {
		if r := recover(); r != nil {
			err = fmt.Errorf("cannot build: %v", r)
		}
	}()
	if c.Top != "" {
		kd, ok := kinds[c.Top]
		if !ok {
			return rv, fmt.Errorf("unknown kind %q", c.Top)
		}
		rv = reflect.New(kd.typ).Elem()
		if x := kd.val(c.V); x != nil {
			rv.Set(reflect.ValueOf(x))
		}
		return rv, nil
	}
	sf := make([]reflect.StructField, len(c.F))
	for i, f := range c.F {
		kd, ok := kinds[f.K]
		if !ok {
			return rv, fmt.Errorf("unknown kind %q", f.K)
		}
		sf[i] = reflect.StructField{Name: f.N, Type: composeType(kd.typ, f.C), Tag: reflect.StructTag(tagString(f)), Anonymous: kd.emb && len(f.C) == 0}
	}
	st := reflect.StructOf(sf)
	rv = reflect.New(st).Elem()
	for i, f := range c.F {
		if len(f.C) > 0 {
			rv.Field(i).Set(composeValue(kinds[f.K], f.C, f.V))
		} else if x := kinds[f.K].val(f.V); x != nil {
			rv.Field(i).Set(reflect.ValueOf(x))
		}
	}
	return rv, nil
}

// ---------------------------------------------------------------- typed projection of a Go value (what EncTree reads)

// tv nodes are records whose fields depend on g; the specification reads only the fields that exist for that g:
//
//	bool int uint8 float string: s (canonical text), name (named scalar type or "")
//	ptr iface: nil, a (the target as a 1-element list, empty when nil)
//	slice: nil, byt, s, b64 (for []byte), a;  array: a;  map: nil, k (sorted keys), a
//	struct: name, pkg, f (fields in declaration order);  time: s (unix nanos), nil (zero time)
//	custom: how (jsonm textm simplifier genericer, "/ptr" when only the pointer type implements it), name, nil
//	other: nothing
type tvNode map[string]any

type tvField struct {
	N    string `json:"n"`
	L1   string `json:"l1"`  // name with the first letter lower-cased
	La   string `json:"la"`  // name entirely lower-cased
	Exp  bool   `json:"exp"` // exported
	Emb  bool   `json:"emb"` // anonymous (embedded)
	Tp   bool   `json:"tp"`  // has a json tag
	Tn   string `json:"tn"`  // tag name part
	Oe   bool   `json:"oe"`  // ,omitempty
	Str  bool   `json:"str"` // ,string
	Dash bool   `json:"dash"`
	V    tvNode `json:"v"`
}

var (
	simplifierT = reflect.TypeOf((*alt.Simplifier)(nil)).Elem()
	genericerT  = reflect.TypeOf((*alt.Genericer)(nil)).Elem()
	jsonmT      = reflect.TypeOf((*json.Marshaler)(nil)).Elem()
	textmT      = reflect.TypeOf((*encoding.TextMarshaler)(nil)).Elem()
	timeT       = reflect.TypeOf(time.Time{})
)

func customHow(t reflect.Type) string {
	if t == timeT {
		return ""
	}
	for _, c := range []struct {
		it reflect.Type
		n  string
	}{{jsonmT, "jsonm"}, {textmT, "textm"}, {simplifierT, "simplifier"}, {genericerT, "genericer"}} {
		if t.Implements(c.it) {
			return c.n
		}
		if t.Kind() != reflect.Ptr && t.Kind() != reflect.Interface && reflect.PtrTo(t).Implements(c.it) {
			return c.n + "/ptr"
		}
	}
	return ""
}

func canonFloat(f float64) string {
	if f == float64(int64(f)) && f > -1e15 && f < 1e15 {
		return strconv.FormatInt(int64(f), 10)
	}
	return strconv.FormatFloat(f, 'g', -1, 64)
}

// canon32: a float32 denotes its shortest float32 text (what strconv prints with bit size 32), not its float64 expansion
func canon32(f float32) string {
	return canonNum(strconv.FormatFloat(float64(f), 'g', -1, 32))
}

func project(rv reflect.Value) tvNode {
	t := rv.Type()
	if how := customHow(t); how != "" && t.Kind() != reflect.Interface {
		return tvNode{"g": "custom", "how": how, "name": t.Name(), "nil": t.Kind() == reflect.Ptr && rv.IsNil()}
	}
	if t == timeT {
		tm := rv.Interface().(time.Time)
		return tvNode{"g": "time", "s": strconv.FormatInt(tm.UnixNano(), 10), "nil": tm.IsZero()}
	}
	switch rv.Kind() {
	case reflect.Bool:
		return tvNode{"g": "bool", "s": strconv.FormatBool(rv.Bool()), "name": namedScalar(t)}
	case reflect.Int, reflect.Int8, reflect.Int16, reflect.Int32, reflect.Int64:
		return tvNode{"g": "int", "s": strconv.FormatInt(rv.Int(), 10), "name": namedScalar(t)}
	case reflect.Uint, reflect.Uint8, reflect.Uint16, reflect.Uint32, reflect.Uint64:
		g := "int"
		if rv.Kind() == reflect.Uint8 {
			g = "uint8"
		}
		n := tvNode{"g": g, "s": strconv.FormatUint(rv.Uint(), 10), "name": namedScalar(t)}
		if rv.Uint() > 1<<63-1 {
			n["sneg"] = strconv.FormatInt(int64(rv.Uint()), 10) // the same bits read as an int64
			n["big"] = true                                     // upper half of the uint64 range (a fact about the number the specification cannot read off its text)
		}
		return n
	case reflect.Float32:
		return tvNode{"g": "float", "s": canon32(float32(rv.Float())), "s64": canonFloat(rv.Float()), "name": namedScalar(t)}
	case reflect.Float64:
		return tvNode{"g": "float", "s": canonFloat(rv.Float()), "s64": canonFloat(rv.Float()), "name": namedScalar(t)}
	case reflect.String:
		return tvNode{"g": "string", "s": rv.String(), "name": namedScalar(t)}
	case reflect.Ptr, reflect.Interface:
		g := "ptr"
		if rv.Kind() == reflect.Interface {
			g = "iface"
		}
		n := tvNode{"g": g, "nil": true, "a": []tvNode{}}
		if rv.Kind() == reflect.Ptr && t.Elem().Kind() == reflect.Struct && embedsItself(t.Elem(), t.Elem(), 0) {
			n["cyc"] = true // also for a nil pointer: the encoders build the field plan of the target type anyway
		}
		if rv.IsNil() {
			return n
		}
		n["nil"], n["a"] = false, []tvNode{project(rv.Elem())}
		return n
	case reflect.Slice, reflect.Array:
		a := []tvNode{}
		for i := 0; i < rv.Len(); i++ {
			a = append(a, project(rv.Index(i)))
		}
		if rv.Kind() == reflect.Array {
			return tvNode{"g": "array", "a": a}
		}
		n := tvNode{"g": "slice", "nil": rv.IsNil(), "byt": false, "s": "", "b64": "", "a": a}
		if t.Elem().Kind() == reflect.Uint8 {
			b := rv.Bytes()
			n["byt"], n["s"], n["b64"] = true, string(b), base64.StdEncoding.EncodeToString(b)
		}
		return n
	case reflect.Map:
		if t.Key().Kind() != reflect.String {
			return tvNode{"g": "other"}
		}
		keys := rv.MapKeys()
		sort.Slice(keys, func(i, j int) bool { return keys[i].String() < keys[j].String() })
		ks, a := []string{}, []tvNode{}
		for _, k := range keys {
			ks = append(ks, k.String())
			a = append(a, project(rv.MapIndex(k)))
		}
		return tvNode{"g": "map", "nil": rv.IsNil(), "k": ks, "a": a}
	case reflect.Struct:
		fs := []tvField{}
		for i := 0; i < t.NumField(); i++ {
			f := t.Field(i)
			tf := tvField{N: f.Name, Exp: f.PkgPath == "", Emb: f.Anonymous}
			tf.L1 = strings.ToLower(f.Name[:1]) + f.Name[1:]
			tf.La = strings.ToLower(f.Name)
			if tag, ok := f.Tag.Lookup("json"); ok && tag != "" {
				parts := strings.Split(tag, ",")
				tf.Tp = true
				tf.Tn = parts[0]
				if parts[0] == "-" && len(parts) == 1 {
					tf.Dash = true
				}
				for _, p := range parts[1:] {
					switch p {
					case "omitempty":
						tf.Oe = true
					case "string":
						tf.Str = true
					}
				}
			}
			if tf.Exp {
				tf.V = project(rv.Field(i))
			} else {
				tf.V = tvNode{"g": "other"}
			}
			fs = append(fs, tf)
		}
		n := tvNode{"g": "struct", "name": t.Name(), "pkg": t.PkgPath(), "fname": t.PkgPath() + "/" + t.Name(), "f": fs}
		if embedsItself(t, t, 0) {
			n["cyc"] = true // the type embeds a pointer to itself, directly or through other embedded structs (type identity is a harness fact)
		}
		return n
	}
	return tvNode{"g": "other"}
}

func embedsItself(root, t reflect.Type, depth int) bool {
	if depth > 6 {
		return false
	}
	for i := 0; i < t.NumField(); i++ {
		f := t.Field(i)
		if !f.Anonymous {
			continue
		}
		ft := f.Type
		if ft.Kind() == reflect.Ptr {
			ft = ft.Elem()
		}
		if ft.Kind() != reflect.Struct {
			continue
		}
		if ft == root || embedsItself(root, ft, depth+1) {
			return true
		}
	}
	return false
}

func namedScalar(t reflect.Type) string {
	if t.PkgPath() != "" {
		return t.Name()
	}
	return ""
}
