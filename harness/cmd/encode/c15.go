package main

import (
	"bytes"
	"encoding/json"
	"fmt"
	"io"
	"os"
	"reflect"
	"sort"
	"strconv"
	"strings"
	"time"

	"github.com/ohler55/ojg"
	"github.com/ohler55/ojg/alt"
	"github.com/ohler55/ojg/oj"
	"github.com/ohler55/ojg/pretty"
	"github.com/ohler55/ojg/sen"
)

// ---------------------------------------------------------------- output trees (uniform record shape)

type tree struct {
	T string   `json:"t"` // null bool num str arr obj
	S string   `json:"s"` // bool: "true"/"false"; num: canonical text; str: content
	A []tree   `json:"a"` // array elements
	M []member `json:"m"` // object members, sorted by (key, encoded value); duplicates are kept
}

type member struct {
	K string `json:"k"`
	V tree   `json:"v"`
}

func leaf(t, s string) tree { return tree{T: t, S: s, A: []tree{}, M: []member{}} }

func canonNum(lit string) string {
	if !strings.ContainsAny(lit, ".eE") {
		neg := strings.HasPrefix(lit, "-")
		d := strings.TrimLeft(strings.TrimPrefix(lit, "-"), "0")
		if d == "" {
			return "0"
		}
		if neg {
			return "-" + d
		}
		return d
	}
	f, err := strconv.ParseFloat(lit, 64)
	if err != nil {
		return "?" + lit
	}
	return canonFloat(f)
}

func sortMembers(ms []member) {
	sort.SliceStable(ms, func(i, j int) bool {
		if ms[i].K != ms[j].K {
			return ms[i].K < ms[j].K
		}
		return string(mustJSON(ms[i].V)) < string(mustJSON(ms[j].V))
	})
}

// treeFromJSON reads one JSON text with encoding/json (never with ojg), keeping duplicate members.
func treeFromJSON(b []byte) (t tree, err error) {
	dec := json.NewDecoder(bytes.NewReader(b))
	dec.UseNumber()
	if t, err = readTree(dec); err != nil {
		return
	}
	if _, e2 := dec.Token(); e2 != io.EOF {
		err = fmt.Errorf("trailing data")
	}
	return
}

func readTree(dec *json.Decoder) (tree, error) {
	tok, err := dec.Token()
	if err != nil {
		return tree{}, err
	}
	switch tt := tok.(type) {
	case nil:
		return leaf("null", ""), nil
	case bool:
		return leaf("bool", strconv.FormatBool(tt)), nil
	case json.Number:
		return leaf("num", canonNum(string(tt))), nil
	case string:
		return leaf("str", tt), nil
	case json.Delim:
		switch tt {
		case '[':
			n := leaf("arr", "")
			for dec.More() {
				e, err := readTree(dec)
				if err != nil {
					return n, err
				}
				n.A = append(n.A, e)
			}
			_, err = dec.Token()
			return n, err
		case '{':
			n := leaf("obj", "")
			for dec.More() {
				kt, err := dec.Token()
				if err != nil {
					return n, err
				}
				k, _ := kt.(string)
				e, err := readTree(dec)
				if err != nil {
					return n, err
				}
				n.M = append(n.M, member{K: k, V: e})
			}
			sortMembers(n.M)
			_, err = dec.Token()
			return n, err
		}
	}
	return tree{}, fmt.Errorf("unexpected token %v", tok)
}

// treeFromAny projects simple data (result of sen.Parse or alt.Decompose).
func treeFromAny(v any) tree {
	switch tv := v.(type) {
	case nil:
		return leaf("null", "")
	case bool:
		return leaf("bool", strconv.FormatBool(tv))
	case int64:
		return leaf("num", strconv.FormatInt(tv, 10))
	case int:
		return leaf("num", strconv.Itoa(tv))
	case uint64:
		return leaf("num", strconv.FormatUint(tv, 10))
	case float64:
		return leaf("num", canonFloat(tv))
	case float32:
		return leaf("num", canon32(tv))
	case string:
		return leaf("str", tv)
	case json.Number: // sen.Parse hands numbers beyond int64 / float64 precision on as their text
		return leaf("num", canonNum(string(tv)))
	case time.Time:
		return leaf("num", strconv.FormatInt(tv.UnixNano(), 10))
	case []any:
		n := leaf("arr", "")
		for _, e := range tv {
			n.A = append(n.A, treeFromAny(e))
		}
		return n
	case map[string]any:
		n := leaf("obj", "")
		for k, e := range tv {
			n.M = append(n.M, member{K: k, V: treeFromAny(e)})
		}
		sortMembers(n.M)
		return n
	}
	// other integer / float widths (alt.Decompose hands some of them through unchanged)
	rv := reflect.ValueOf(v)
	switch rv.Kind() {
	case reflect.Int, reflect.Int8, reflect.Int16, reflect.Int32, reflect.Int64:
		return leaf("num", strconv.FormatInt(rv.Int(), 10))
	case reflect.Uint, reflect.Uint8, reflect.Uint16, reflect.Uint32, reflect.Uint64:
		return leaf("num", strconv.FormatUint(rv.Uint(), 10))
	case reflect.Float32:
		return leaf("num", canon32(float32(rv.Float())))
	case reflect.Float64:
		return leaf("num", canonFloat(rv.Float()))
	case reflect.String:
		return leaf("str", rv.String())
	case reflect.Bool:
		return leaf("bool", strconv.FormatBool(rv.Bool()))
	}
	return leaf("other", fmt.Sprintf("%T", v))
}

// ---------------------------------------------------------------- options

func (o optSpec) options() ojg.Options {
	opt := ojg.DefaultOptions
	opt.Sort = o.Sort
	opt.OmitNil = o.Nil
	opt.OmitEmpty = o.Empty
	opt.UseTags = o.Tags
	opt.KeyExact = o.Exact
	opt.NestEmbed = o.Nest
	opt.CreateKey = o.Ck
	opt.FullTypePath = o.Full
	opt.BytesAs = ojg.BytesAsString + o.Bytes
	return opt
}

func hasKind(c *caseSpec, ks ...string) bool {
	for _, f := range c.F {
		for _, k := range ks {
			if f.K == k {
				return true
			}
		}
	}
	return false
}

// expandOpts: cases that carry explicit options are run with exactly those; otherwise the option masks of the tier.
// quick: the 6 distinct field plans x {OmitNil, OmitEmpty} with Sort and CreateKey alternating; thorough: the full
// product of the seven flags. BytesAs varies only when the shape has a []byte field, FullTypePath with CreateKey.
func expandOpts(c *caseSpec, masks string) []optSpec {
	if c.O != nil {
		return []optSpec{*c.O}
	}
	var res []optSpec
	if masks != "thorough" {
		// quick: 12 hand-picked masks: every plan x every omit combination, NestEmbed / Sort / CreateKey spread over them
		for i, m := range []string{"TE----", "TE--e-", "TEnN-s", "TEnNek", "-E---k", "-En-es", "-E-N--", "-E-Nek", "--n---", "----ek", "---N-s", "--nNe-"} {
			res = append(res, optSpec{Tags: m[0] == 'T', Exact: m[1] == 'E', Nest: m[2] == 'n', Nil: m[3] == 'N', Empty: m[4] == 'e',
				Sort: m[5] == 's', Ck: map[bool]string{true: "^"}[m[5] == 'k'], Full: m[5] == 'k' && i%2 == 1, Bytes: 1})
		}
	}
	n := 0
	for _, tags := range []bool{true, false} {
		for _, exact := range []bool{true, false} {
			if tags && !exact || masks != "thorough" {
				continue // tags without exact: same field plan as tags+exact (KeyExact is only consulted without UseTags)
			}
			for _, nest := range []bool{false, true} {
				for _, onil := range []bool{false, true} {
					for _, oempty := range []bool{false, true} {
						n++
						base := optSpec{Tags: tags, Exact: exact, Nest: nest, Nil: onil, Empty: oempty, Bytes: 1}
						for _, alt := range []bool{false, true} {
							o := base
							o.Sort = alt != (n%2 == 0)
							if alt {
								o.Ck = "^"
								o.Full = n%2 == 0
							}
							res = append(res, o)
						}
					}
				}
			}
		}
	}
	if !res[0].Tags || !res[0].Exact || res[0].Nest || res[0].Nil || res[0].Empty {
		panic("the first mask must be the Go-compatible one")
	}
	res[0].Ck, res[0].Full = "", false
	if hasKind(c, "[]uint8", "[0]uint8", "[1]uint8", "[4]uint8", "BA4", "BS", "[][4]uint8", "[]BS", "map[string][4]uint8") ||
		strings.Contains(c.Top, "uint8") || c.Top == "BA4" || c.Top == "BS" || c.Top == "[]BS" {
		for _, b := range []int{0, 2} {
			for _, tags := range []bool{true, false} {
				res = append(res, optSpec{Tags: tags, Exact: true, Bytes: b}, optSpec{Tags: tags, Exact: true, Bytes: b, Empty: true})
			}
		}
	}
	return res
}

func goCompat(o optSpec) bool {
	return o.Tags && o.Exact && !o.Nest && !o.Nil && !o.Empty && o.Ck == "" && o.Bytes == 1
}

// ---------------------------------------------------------------- running the encoders

type outGroup struct {
	As   []string `json:"as"`
	R    string   `json:"r"` // ok | fail (error, panic, or empty output) | invalid (output does not parse)
	M    string   `json:"m"`
	Tree tree     `json:"tree"`
}

type event struct {
	Case caseSpec   `json:"-"`
	Tv   tvNode     `json:"tv"`
	O    optSpec    `json:"o"`
	Go   bool       `json:"gocompat"`
	Outs []outGroup `json:"outs"`
	Gj   outGroup   `json:"gj"`
}

type encoder struct {
	name string
	json bool // output is JSON text (validity is checked with JsonText)
	fn   func(x, px any, o *ojg.Options) (raw string, t *tree, err error)
}

func jsonOut(s string) (string, *tree, error) {
	if s == "" {
		return "", nil, fmt.Errorf("empty output")
	}
	return s, nil, nil
}

var encoders = []encoder{
	{"oj.JSON", true, func(x, px any, o *ojg.Options) (string, *tree, error) { return jsonOut(oj.JSON(x, o)) }},
	{"oj.JSON/ptr", true, func(x, px any, o *ojg.Options) (string, *tree, error) { return jsonOut(oj.JSON(px, o)) }},
	{"oj.JSON/indent", true, func(x, px any, o *ojg.Options) (string, *tree, error) {
		o2 := *o
		o2.Indent = 2
		return jsonOut(oj.JSON(px, &o2))
	}},
	{"oj.Marshal", true, func(x, px any, o *ojg.Options) (string, *tree, error) {
		b, err := oj.Marshal(x, o)
		if err != nil {
			return "", nil, err
		}
		return jsonOut(string(b))
	}},
	{"oj.Write", true, func(x, px any, o *ojg.Options) (string, *tree, error) {
		var buf bytes.Buffer
		if err := oj.Write(&buf, x, o); err != nil {
			return "", nil, err
		}
		return jsonOut(buf.String())
	}},
	// io.Writer entry points with tiny write limits: flushing in the middle of a struct must not change the document
	{"oj.Write/wl1", true, func(x, px any, o *ojg.Options) (string, *tree, error) {
		return writeTo(o, 1, func(w io.Writer, o2 *ojg.Options) error { return oj.Write(w, x, o2) }, false)
	}},
	{"oj.Write/wl40", true, func(x, px any, o *ojg.Options) (string, *tree, error) {
		return writeTo(o, 40, func(w io.Writer, o2 *ojg.Options) error { return oj.Write(w, px, o2) }, false)
	}},
	{"sen.Write", false, func(x, px any, o *ojg.Options) (string, *tree, error) {
		return writeTo(o, 0, func(w io.Writer, o2 *ojg.Options) error { return sen.Write(w, x, o2) }, true)
	}},
	{"sen.Write/wl7", false, func(x, px any, o *ojg.Options) (string, *tree, error) {
		return writeTo(o, 7, func(w io.Writer, o2 *ojg.Options) error { return sen.Write(w, px, o2) }, true)
	}},
	{"pretty.WriteJSON", true, func(x, px any, o *ojg.Options) (string, *tree, error) {
		return writeTo(o, 0, func(w io.Writer, o2 *ojg.Options) error { return pretty.WriteJSON(w, x, o2) }, false)
	}},
	{"pretty.WriteJSON/wl7", true, func(x, px any, o *ojg.Options) (string, *tree, error) {
		return writeTo(o, 7, func(w io.Writer, o2 *ojg.Options) error { return pretty.WriteJSON(w, x, o2) }, false)
	}},
	{"pretty.WriteSEN/wl7", false, func(x, px any, o *ojg.Options) (string, *tree, error) {
		return writeTo(o, 7, func(w io.Writer, o2 *ojg.Options) error { return pretty.WriteSEN(w, x, o2) }, true)
	}},
	{"sen.String", false, func(x, px any, o *ojg.Options) (string, *tree, error) { return senOut(sen.String(x, o)) }},
	{"sen.String/indent", false, func(x, px any, o *ojg.Options) (string, *tree, error) {
		o2 := *o
		o2.Indent = 2
		return senOut(sen.String(px, &o2))
	}},
	{"sen.String/ptr", false, func(x, px any, o *ojg.Options) (string, *tree, error) { return senOut(sen.String(px, o)) }},
	{"pretty.JSON", true, func(x, px any, o *ojg.Options) (string, *tree, error) { return jsonOut(pretty.JSON(x, o)) }},
	{"alt.Decompose", false, func(x, px any, o *ojg.Options) (string, *tree, error) {
		t := treeFromAny(alt.Decompose(x, o))
		return "", &t, nil
	}},
	{"alt.Decompose/ptr", false, func(x, px any, o *ojg.Options) (string, *tree, error) {
		t := treeFromAny(alt.Decompose(px, o))
		return "", &t, nil
	}},
	{"alt.Decompose+oj.JSON", true, func(x, px any, o *ojg.Options) (string, *tree, error) {
		return jsonOut(oj.JSON(alt.Decompose(x, o), o))
	}},
}

// errUnparsed: the SEN text is not read back by sen.Parse. Whether SEN output re-reads is C10's property, not C15's:
// such outputs are recorded with r = "unparsed" and left out of the judgement.
var errUnparsed = fmt.Errorf("sen output does not parse back")

// writeTo runs an io.Writer entry point with the given WriteLimit (0 = default) and collects everything written
func writeTo(o *ojg.Options, limit int, fn func(w io.Writer, o2 *ojg.Options) error, isSen bool) (string, *tree, error) {
	o2 := *o
	if limit > 0 {
		o2.WriteLimit = limit
	}
	var buf bytes.Buffer
	if err := fn(&buf, &o2); err != nil {
		return "", nil, err
	}
	if isSen {
		return senOut(buf.String())
	}
	return jsonOut(buf.String())
}

func senOut(s string) (string, *tree, error) {
	if s == "" {
		return "", nil, fmt.Errorf("empty output")
	}
	v, err := sen.Parse([]byte(s))
	if err != nil {
		return s, nil, errUnparsed
	}
	t := treeFromAny(v)
	return s, &t, nil
}

func callEncoder(e encoder, x, px any, o *ojg.Options) (raw string, t tree, r, msg string) {
	defer func() {
		if rec := recover(); rec != nil {
			r, msg, t = "fail", "panic: "+trunc(fmt.Sprint(rec)), leaf("none", "")
		}
	}()
	oc := *o
	raw, tp, err := e.fn(x, px, &oc)
	if err == errUnparsed {
		return raw, leaf("none", ""), "fail", "sen output does not parse back: " + trunc(raw)
	}
	if err != nil {
		return raw, leaf("none", ""), "fail", trunc(err.Error())
	}
	if tp != nil {
		return raw, *tp, "ok", ""
	}
	tt, err := treeFromJSON([]byte(raw))
	if err != nil {
		return raw, leaf("none", ""), "invalid", trunc(err.Error() + ": " + raw)
	}
	return raw, tt, "ok", ""
}

func trunc(s string) string {
	if len(s) > 120 {
		return s[:120]
	}
	return s
}

type callFunc func(e encoder, x, px any, o *ojg.Options) (raw string, t tree, r, msg string)

var marshal0Enc = encoder{"oj.Marshal0", true, func(x, px any, o *ojg.Options) (string, *tree, error) {
	b, err := oj.Marshal(x)
	if err != nil {
		return "", nil, err
	}
	return jsonOut(string(b))
}}

func runCase(c *caseSpec, o optSpec) (event, map[string]string) {
	return runCaseWith(c, o, callEncoder)
}

func runCaseWith(c *caseSpec, o optSpec, call callFunc) (event, map[string]string) {
	ev := event{Case: *c, O: o, Go: goCompat(o), Gj: outGroup{As: []string{"encoding/json"}, R: "skip", Tree: leaf("none", "")}}
	ev.Case.O = &o
	raws := map[string]string{}
	rv, err := buildValue(c)
	if err != nil {
		fmt.Fprintln(os.Stderr, "encode:", err)
		os.Exit(2)
	}
	ev.Tv = project(rv)
	x, px := rv.Interface(), rv.Addr().Interface()
	opt := o.options()
	groups := map[string]*outGroup{}
	var order []string
	add := func(name string, t tree, r, msg string) {
		key := r + "|" + string(mustJSON(t))
		if r != "ok" {
			key = r + "|" + name // failures are reported per encoder
		}
		g := groups[key]
		if g == nil {
			g = &outGroup{R: r, M: msg, Tree: t}
			groups[key] = g
			order = append(order, key)
		}
		g.As = append(g.As, name)
	}
	for _, e := range encoders {
		raw, t, r, msg := call(e, x, px, &opt)
		add(e.name, t, r, msg)
		if e.json && raw != "" {
			raws[e.name] = raw
		}
	}
	if ev.Go {
		// oj.Marshal without options uses the Go-compatible defaults
		raw, t, r, msg := call(marshal0Enc, x, px, &opt)
		add("oj.Marshal0", t, r, msg)
		if raw != "" {
			raws["oj.Marshal0"] = raw
		}
		if b, err := json.Marshal(x); err == nil {
			if t, err := treeFromJSON(b); err == nil {
				ev.Gj.R, ev.Gj.Tree = "ok", t
			}
		} else {
			ev.Gj.R, ev.Gj.M = "fail", trunc(err.Error())
		}
	}
	for _, k := range order {
		ev.Outs = append(ev.Outs, *groups[k])
	}
	return ev, raws
}

// ---------------------------------------------------------------- isolation of recursive types (a fatal error kills the process)

type childOut struct {
	Ev   *event            `json:"ev,omitempty"`
	Raws map[string]string `json:"raws,omitempty"`
	Raw  string            `json:"raw"`
	T    tree              `json:"t"`
	R    string            `json:"r"`
	M    string            `json:"m"`
}

func allEncoders() []encoder { return append(append([]encoder{}, encoders...), marshal0Enc) }

// execChild: `execchild all` runs one (case, options) with every encoder, `execchild <i>` one encoder of it.
func execChild(args []string) {
	lines := readLines(os.Stdin)
	var c caseSpec
	if err := json.Unmarshal(lines[0], &c); err != nil || c.O == nil {
		panic(fmt.Sprint("execchild: bad case ", err))
	}
	childInit()
	warmUp()
	// the history of the process: every earlier top-level kind goes through every encoder under the same options
	for _, pre := range c.Pre {
		pc := caseSpec{Top: pre, V: c.V, O: c.O}
		runCaseWith(&pc, *c.O, callEncoder)
	}
	if args[0] == "all" || strings.HasPrefix(args[0], "skip:") {
		// skip:<names>: encoders that killed the process under an earlier option mask of the same case are not called
		skip := map[string]string{}
		if strings.HasPrefix(args[0], "skip:") {
			for _, kv := range strings.Split(args[0][5:], ";") {
				if p := strings.SplitN(kv, "=", 2); len(p) == 2 {
					skip[p[0]] = p[1]
				}
			}
		}
		ev, raws := runCaseWith(&c, *c.O, func(e encoder, x, px any, o *ojg.Options) (string, tree, string, string) {
			if why, dead := skip[e.name]; dead {
				return "", leaf("none", ""), "fail", why
			}
			return callEncoder(e, x, px, o)
		})
		os.Stdout.Write(mustJSON(childOut{Ev: &ev, Raws: raws}))
		return
	}
	i, _ := strconv.Atoi(args[0])
	rv, err := buildValue(&c)
	if err != nil {
		panic(err)
	}
	opt := c.O.options()
	raw, t, r, m := callEncoder(allEncoders()[i], rv.Interface(), rv.Addr().Interface(), &opt)
	os.Stdout.Write(mustJSON(childOut{Raw: raw, T: t, R: r, M: m}))
}

// spawn runs one execchild. The whole-case child ("all", "skip:...") gets a single stage: if it fails every encoder is run
// in a child of its own, and those runs get the two-stage verdict of iso.go (key: encoder + recursive kinds).
func spawn(arg string, line []byte, key string) (out []byte, died string) {
	if key == "" {
		isoMu.RLock()
		r := runOnce([]string{"execchild", arg}, line, shortLimit(5*time.Second, 25), true)
		isoMu.RUnlock()
		if r.failed {
			return nil, "no result from the whole-case child"
		}
		return r.out, ""
	}
	res := runChild([]string{"execchild", arg}, line, 5*time.Second, 25, key)
	if res.verdict != nil {
		return nil, "fatal: " + res.verdict.msg
	}
	return res.out, ""
}

func fatalLine(s string) string {
	for _, pre := range []string{"fatal error", "panic", "runtime:"} {
		for _, l := range strings.Split(s, "\n") {
			if strings.HasPrefix(l, pre) {
				return l
			}
		}
	}
	return strings.TrimSpace(s)
}

// runIsolated runs one (case, options) in a child process; if that dies or hangs every encoder is run in a child of its own
// so that the death is attributed to the encoders that cause it (r = fail, m = fatal: ...).
func runIsolated(c *caseSpec, o optSpec, dead map[string]string) (event, map[string]string) {
	cc := *c
	cc.O = &o
	line := mustJSON(cc)
	arg := "all"
	if len(dead) > 0 {
		var kv []string
		for n, why := range dead {
			kv = append(kv, n+"="+strings.NewReplacer(";", ",", "=", ":").Replace(why))
		}
		sort.Strings(kv)
		arg = "skip:" + strings.Join(kv, ";")
	}
	if out, died := spawn(arg, line, ""); died == "" {
		var co childOut
		if err := json.Unmarshal(out, &co); err == nil && co.Ev != nil {
			co.Ev.Case = cc
			return *co.Ev, co.Raws
		}
	}
	idx := map[string]int{}
	for i, e := range allEncoders() {
		idx[e.name] = i
	}
	return runCaseWith(c, o, func(e encoder, x, px any, opt *ojg.Options) (string, tree, string, string) {
		out, died := spawn(strconv.Itoa(idx[e.name]), line, e.name+"|"+isolatedKinds(c))
		if died != "" {
			dead[e.name] = died // remembered for the remaining option masks of this case
			return "", leaf("none", ""), "fail", died
		}
		var co childOut
		if err := json.Unmarshal(out, &co); err != nil {
			return "", leaf("none", ""), "fail", "fatal: unreadable child output"
		}
		return co.Raw, co.T, co.R, co.M
	})
}

// warmUp puts the process-wide struct-info caches of the library types into a fixed state, so that the result for a
// case does not depend on which cases ran before it in the same process (replays run one case per process).
func warmUp() {
	names := make([]string, 0, len(kinds))
	for k := range kinds {
		names = append(names, k)
	}
	sort.Strings(names)
	for _, empty := range []bool{false, true} {
		for _, k := range names {
			kd := kinds[k]
			if kd.isolate {
				continue // recursive types are only touched in child processes
			}
			t := kd.typ
			if t.Kind() == reflect.Ptr {
				t = t.Elem()
			}
			if t.Kind() != reflect.Struct {
				continue
			}
			v := reflect.New(t).Interface()
			o := ojg.DefaultOptions
			o.OmitEmpty = empty
			func() {
				defer func() { _ = recover() }()
				_ = oj.JSON(v, &o)
				_ = sen.String(v, &o)
				_ = alt.Decompose(v, &o)
			}()
		}
	}
}

// writeValid writes the distinct JSON outputs in the trace format of TraceJson (mode c01): each must be accepted by JsonText.
func writeValid(path string, seen map[string]map[string]bool) {
	f, err := os.Create(path)
	if err != nil {
		panic(err)
	}
	defer f.Close()
	keys := make([]string, 0, len(seen))
	for k := range seen {
		keys = append(keys, k)
	}
	sort.Strings(keys)
	for _, k := range keys {
		var as []string
		for a := range seen[k] {
			as = append(as, a)
		}
		sort.Strings(as)
		b := make([]int, len(k))
		for i := 0; i < len(k); i++ {
			b[i] = int(k[i])
		}
		line := map[string]any{"b": b, "o": []any{map[string]any{"as": as, "r": 1, "l": 0, "c": 0, "pe": false, "m": ""}}}
		f.Write(mustJSON(line))
		f.Write([]byte("\n"))
	}
}
