package main

func rtCases(args []string)   { panic("not yet") }
func histCases(args []string) { panic("not yet") }
func histChild(args []string) { panic("not yet") }
