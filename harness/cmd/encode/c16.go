package main

import (
	"bufio"
	"bytes"
	"encoding/json"
	"flag"
	"fmt"
	"os"
	"os/exec"
	"reflect"
	"strconv"
	"strings"
	"sync/atomic"
	"time"

	"github.com/ohler55/ojg"
	"github.com/ohler55/ojg/alt"
	"github.com/ohler55/ojg/oj"
	"github.com/ohler55/ojg/sen"

	"verif/harness/enctypes"
	"verif/harness/enctypes2"
)

// ---------------------------------------------------------------- the type family of the history check (Recompose.tla)

var family = map[string]any{
	"A.T": enctypes.T{X: 4, Name: "t"},
	"B.T": enctypes2.T{Y: "y", Flag: true},
	"Anon1": struct {
		P int
		Q string
	}{1, "q"},
	"Anon2": struct {
		R string
		S int
	}{"r", 2},
	"A.U":  enctypes.U{Ts: []enctypes.T{{X: 1, Name: "a"}}, N: 2},
	"A.V":  enctypes.V{P: &enctypes2.T{Y: "y", Flag: true}, N: 2},
	"A.V1": enctypes.V1{P: &enctypes.T{X: 4, Name: "t"}, N: 3},
	"A.W":  enctypes.W{I: &enctypes.T{X: 4, Name: "t"}, N: 2},
	// the graph family: embedding cycles, mutually recursive members, embedded parts that are targets too, a same-named
	// embedded type, anonymous types that contain others. Every value sets every member its type offers (the members
	// that Go's shadowing rule hides cannot be carried by JSON and stay zero).
	"GA":   enctypes.GA{GB: &enctypes.GB{B1: 5, B2: "b"}, A1: 1, A2: "a"},
	"GB":   enctypes.GB{GA: &enctypes.GA{A1: 7, A2: "x"}, B1: 2, B2: "y"},
	"HA":   enctypes.HA{HB: &enctypes.HB{HC: &enctypes.HC{Hc: 3}, Hb: 2}, Ha: 1},
	"HB":   enctypes.HB{HC: &enctypes.HC{HA: &enctypes.HA{Ha: 4}, Hc: 5}, Hb: 6},
	"HC":   enctypes.HC{HA: &enctypes.HA{HB: &enctypes.HB{Hb: 7}, Ha: 8}, Hc: 9},
	"MA":   enctypes.MA{Bs: []*enctypes.MB{{As: map[string]*enctypes.MA{"k": {N: 3}}, S: "s"}, {S: "t"}}, N: 1},
	"MB":   enctypes.MB{As: map[string]*enctypes.MA{"a": {Bs: []*enctypes.MB{{S: "v"}}, N: 2}, "b": {N: 4}}, S: "u"},
	"EO":   enctypes.EO{EI: enctypes.EI{I1: 1, I2: "i"}, O: 2},
	"EP":   enctypes.EP{EI: &enctypes.EI{I1: 3, I2: "j"}, P: 4},
	"A.EI": enctypes.EI{I1: 5, I2: "k"},
	"EQ":   enctypes.EQ{EI: enctypes2.EI{J1: "j", J2: true}, Q: 6},
	"B.EI": enctypes2.EI{J1: "m", J2: true},
	"Anon3": struct {
		In struct {
			P int
			Q string
		}
		Z int
	}{struct {
		P int
		Q string
	}{3, "w"}, 4},
	"Anon4": struct {
		*enctypes.GA
		K int
	}{&enctypes.GA{GB: &enctypes.GB{B1: 8, B2: "c"}, A1: 9, A2: "d"}, 3},
}

const createKey = "^"

func decOpts() *ojg.Options {
	o := ojg.DefaultOptions
	o.CreateKey = createKey
	o.TimeFormat = time.RFC3339Nano
	return &o
}

type callRec struct {
	T     string `json:"t"`
	Ok    bool   `json:"ok"`
	M     string `json:"m"`
	Res   tvNode `json:"res"`
	RefOk bool   `json:"refok"`
	RefM  string `json:"refm"`
	Ref   tvNode `json:"ref"`
	Orig  tvNode `json:"orig"`
	// what the same entry point produces for this target in a fresh PROCESS in which it is the only target ever used
	// (filled in by the parent from a child run on the one-element history)
	SoloOk bool            `json:"solook"`
	SoloM  string          `json:"solom"`
	Solo   json.RawMessage `json:"solo,omitempty"`
}

type histEvent struct {
	Ev    string    `json:"ev"`
	Mode  string    `json:"mode"`
	H     []string  `json:"h"`
	Calls []callRec `json:"calls"`
}

// recomposeVia runs one recomposition of data into a new value of type t through the chosen entry point.
func recomposeVia(mode string, own *alt.Recomposer, data any, t reflect.Type) (res reflect.Value, err error) {
	defer func() {
		if r := recover(); r != nil {
			err = fmt.Errorf("panic: %v", r)
		}
	}()
	ptr := reflect.New(t)
	switch mode {
	case "own":
		_, err = own.Recompose(data, ptr.Interface())
	case "alt.Recompose":
		_, err = alt.Recompose(data, ptr.Interface())
	case "oj.Unmarshal":
		err = oj.Unmarshal([]byte(oj.JSON(data, &ojg.Options{Sort: true})), ptr.Interface())
	case "sen.Unmarshal":
		err = sen.Unmarshal([]byte(sen.String(data, &ojg.Options{Sort: true})), ptr.Interface())
	case "sen.Unmarshal/own":
		err = sen.Unmarshal([]byte(sen.String(data, &ojg.Options{Sort: true})), ptr.Interface(), own)
	case "oj.Unmarshal/own":
		err = oj.Unmarshal([]byte(oj.JSON(data, &ojg.Options{Sort: true})), ptr.Interface(), own)
	default:
		err = fmt.Errorf("unknown mode %s", mode)
	}
	return ptr.Elem(), err
}

func freshRecomposer() *alt.Recomposer {
	r, err := alt.NewRecomposer(createKey, nil)
	if err != nil {
		panic(err)
	}
	return r
}

func runHistory(mode string, h []string) histEvent {
	ev := histEvent{Ev: "hist", Mode: mode, H: h}
	own := freshRecomposer()
	alt.DefaultRecomposer.CreateKey = createKey
	for _, id := range h {
		v, ok := family[id]
		if !ok {
			fmt.Fprintln(os.Stderr, "unknown type id", id)
			os.Exit(2)
		}
		rv := reflect.ValueOf(v)
		data := alt.Decompose(v, decOpts())
		c := callRec{T: id, Orig: project(rv)}
		res, err := recomposeVia(mode, own, data, rv.Type())
		c.Ok = err == nil
		if err != nil {
			c.M = trunc(err.Error())
			c.Res = tvNode{"g": "other"}
		} else {
			c.Res = project(res)
		}
		// reference: a FRESH recomposer for this one call (through the instance API, so that nothing is shared)
		refMode := "own"
		if mode == "oj.Unmarshal" {
			refMode = "oj.Unmarshal/own"
		} else if mode == "sen.Unmarshal" {
			refMode = "sen.Unmarshal/own"
		}
		ref, rerr := recomposeVia(refMode, freshRecomposer(), data, rv.Type())
		c.RefOk = rerr == nil
		if rerr != nil {
			c.RefM = trunc(rerr.Error())
			c.Ref = tvNode{"g": "other"}
		} else {
			c.Ref = project(ref)
		}
		ev.Calls = append(ev.Calls, c)
	}
	return ev
}

type histCase struct {
	H    []string `json:"h"`
	Mode string   `json:"mode,omitempty"`
}

// histCases: every history runs in a fresh subprocess (alt.DefaultRecomposer and whatever else the library keeps per type
// is process wide), mode own on one alt.Recomposer of its own, the other modes on alt.DefaultRecomposer. The reference
// "solo" of a call is the result of the same entry point for the same target in a fresh process whose only target it is:
// one child per (mode, type) on the one-element history.
func histCases(args []string) {
	fs := flag.NewFlagSet("hist", flag.ExitOnError)
	mode := fs.String("mode", "own", "own | alt.Recompose | oj.Unmarshal | sen.Unmarshal")
	fs.Parse(args)
	lines := readLines(os.Stdin)
	self, _ := os.Executable()
	child := func(m string, line []byte) []byte {
		cmd := exec.Command(self, "histchild", m)
		cmd.Stdin = bytes.NewReader(line)
		var ob, eb bytes.Buffer
		cmd.Stdout, cmd.Stderr = &ob, &eb
		if err := cmd.Run(); err != nil {
			fmt.Fprintln(os.Stderr, "histchild failed:", err, eb.String())
			os.Exit(2)
		}
		return bytes.TrimSpace(ob.Bytes())
	}
	cases := make([]histCase, len(lines))
	type mt struct{ m, t string }
	var need []mt
	have := map[mt]int{}
	for i := range lines {
		if err := json.Unmarshal(lines[i], &cases[i]); err != nil {
			panic(err)
		}
		if cases[i].Mode == "" {
			cases[i].Mode = *mode
		}
		for _, t := range cases[i].H {
			k := mt{cases[i].Mode, t}
			if _, ok := have[k]; !ok {
				have[k] = len(need)
				need = append(need, k)
			}
		}
	}
	solos := make([]callRec, len(need))
	parallelMap(len(need), func(i int) [][]byte {
		var ev struct {
			Calls []struct {
				Ok  bool            `json:"ok"`
				M   string          `json:"m"`
				Res json.RawMessage `json:"res"`
			} `json:"calls"`
		}
		out := child(need[i].m, mustJSON(histCase{H: []string{need[i].t}, Mode: need[i].m}))
		if err := json.Unmarshal(out, &ev); err != nil || len(ev.Calls) != 1 {
			fmt.Fprintln(os.Stderr, "histchild (solo): unreadable output", err)
			os.Exit(2)
		}
		solos[i] = callRec{SoloOk: ev.Calls[0].Ok, SoloM: ev.Calls[0].M, Solo: ev.Calls[0].Res}
		return nil
	})
	out := parallelMap(len(lines), func(i int) [][]byte {
		// the child's record is passed on as it is (raw), only the solo fields are set
		var ev struct {
			Ev    string                       `json:"ev"`
			Mode  string                       `json:"mode"`
			H     []string                     `json:"h"`
			Calls []map[string]json.RawMessage `json:"calls"`
		}
		if err := json.Unmarshal(child(cases[i].Mode, lines[i]), &ev); err != nil || len(ev.Calls) != len(cases[i].H) {
			fmt.Fprintln(os.Stderr, "histchild: unreadable output", err)
			os.Exit(2)
		}
		for k := range ev.Calls {
			so := solos[have[mt{cases[i].Mode, cases[i].H[k]}]]
			ev.Calls[k]["solook"], ev.Calls[k]["solom"], ev.Calls[k]["solo"] = mustJSON(so.SoloOk), mustJSON(so.SoloM), so.Solo
		}
		return [][]byte{mustJSON(ev)}
	})
	w := bufio.NewWriterSize(os.Stdout, 1<<20)
	for _, rs := range out {
		for _, r := range rs {
			w.Write(r)
			w.WriteByte('\n')
		}
	}
	w.Flush()
}

func histChild(args []string) {
	lines := readLines(os.Stdin)
	var hc histCase
	if err := json.Unmarshal(lines[0], &hc); err != nil {
		panic(err)
	}
	os.Stdout.Write(mustJSON(runHistory(args[0], hc.H)))
	os.Stdout.Write([]byte("\n"))
}

// ---------------------------------------------------------------- Inverse on the C15 shapes

type rtEvent struct {
	Ev       string `json:"ev"`
	API      string `json:"api"`
	Ok       bool   `json:"ok"`
	M        string `json:"m"`
	Res      tvNode `json:"res"`
	Orig     tvNode `json:"orig"`
	Hang     bool   `json:"hang"`     // the call did not return within the watchdog period (child process killed)
	Skip     bool   `json:"skip"`     // stage 1 failed and the same kinds already have a verdict confirmed alone in this run: not judged
	TagKeyed bool   `json:"tagkeyed"` // the data was written with UseTags (keys are the json tag names)
	Alias    bool   `json:"alias"`    // two positions of the result share a pointer target, map or slice backing array
	OAlias   bool   `json:"oalias"`   // ... of the original
}

// registered: the types an interface-typed field may hold must be known to the recomposer (that is what the create key is for)
func rtRecomposer(ck ...string) *alt.Recomposer {
	key := createKey
	if len(ck) > 0 && ck[0] != "" {
		key = ck[0]
	}
	r, err := alt.NewRecomposer(key, map[any]alt.RecomposeFunc{&enctypes.S1{}: nil, &enctypes.T{}: nil, &enctypes.Pair[int]{}: nil, &enctypes.Pair[string]{}: nil})
	if err != nil {
		panic(err)
	}
	return r
}

// aliased reports whether two different positions inside the value share storage: the same pointer target, the same map,
// or the same slice backing array. Writing through one of them would be observable through the other; pointer identity
// is a fact only the Go side can supply.
func aliased(rv reflect.Value) bool {
	seen := map[[2]uintptr]bool{}
	var walk func(v reflect.Value) bool
	mark := func(kind uintptr, p uintptr) bool {
		k := [2]uintptr{kind, p}
		if seen[k] {
			return true
		}
		seen[k] = true
		return false
	}
	walk = func(v reflect.Value) bool {
		switch v.Kind() {
		case reflect.Ptr:
			if v.IsNil() {
				return false
			}
			return mark(1, v.Pointer()) || walk(v.Elem())
		case reflect.Interface:
			if v.IsNil() {
				return false
			}
			return walk(v.Elem())
		case reflect.Map:
			if v.IsNil() {
				return false
			}
			if mark(2, v.Pointer()) {
				return true
			}
			it := v.MapRange()
			for it.Next() {
				if walk(it.Value()) {
					return true
				}
			}
		case reflect.Slice:
			if v.IsNil() || v.Len() == 0 {
				return false
			}
			if mark(3, v.Pointer()) {
				return true
			}
			fallthrough
		case reflect.Array:
			for i := 0; i < v.Len(); i++ {
				if walk(v.Index(i)) {
					return true
				}
			}
		case reflect.Struct:
			if v.Type() == timeT {
				return false
			}
			for i := 0; i < v.NumField(); i++ {
				if v.Type().Field(i).PkgPath == "" && walk(v.Field(i)) {
					return true
				}
			}
		}
		return false
	}
	return walk(rv)
}

// rtOptions: the three key naming modes
func rtOptions(mode string) *ojg.Options {
	o := decOpts()
	switch mode {
	case "exact":
		o.KeyExact = true
	case "tags":
		o.UseTags = true
	}
	return o
}

type rtAPI struct {
	name  string
	route string // dec | oj | sen
	mode  string // low | exact | tags
	ptr   bool   // the encoder gets a pointer (addressable value: offset based field plans)
	ck    string // create key ("" = the harness default "^"); "type" collides with members called Type
}

// The three original routes keep their names (lower-case keys, value passed); the others add key naming modes and
// addressable sources.
var rtAPIs = []rtAPI{
	{"alt.Decompose->Recompose", "dec", "low", false, ""},
	{"oj.Marshal->Unmarshal", "oj", "low", false, ""},
	{"sen.String->Unmarshal", "sen", "low", false, ""},
	{"alt.Decompose(ptr)->Recompose", "dec", "low", true, ""},
	{"oj.Marshal(ptr)->Unmarshal", "oj", "low", true, ""},
	{"sen.String(ptr)->Unmarshal", "sen", "low", true, ""},
	{"alt.Decompose/exact->Recompose", "dec", "exact", false, ""},
	{"oj.Marshal/exact->Unmarshal", "oj", "exact", false, ""},
	{"alt.Decompose(ptr)/exact->Recompose", "dec", "exact", true, ""},
	{"oj.Marshal(ptr)/exact->Unmarshal", "oj", "exact", true, ""},
	{"sen.String(ptr)/exact->Unmarshal", "sen", "exact", true, ""},
	{"alt.Decompose/tags->Recompose", "dec", "tags", false, ""},
	{"oj.Marshal/tags->Unmarshal", "oj", "tags", false, ""},
	{"alt.Decompose(ptr)/tags->Recompose", "dec", "tags", true, ""},
	{"oj.Marshal(ptr)/tags->Unmarshal", "oj", "tags", true, ""},
	{"sen.String(ptr)/tags->Unmarshal", "sen", "tags", true, ""},
	// create key "type": a member whose key is the create key must survive (and must not be taken for a type name)
	{"alt.Decompose/ck=type->Recompose", "dec", "low", false, "type"},
	{"alt.Decompose(ptr)/ck=type->Recompose", "dec", "low", true, "type"},
	{"oj.Marshal(ptr)/ck=type->Unmarshal", "oj", "low", true, "type"},
	{"sen.String(ptr)/ck=type->Unmarshal", "sen", "low", true, "type"},
}

func rtOne(api rtAPI, rv reflect.Value) (ev rtEvent) {
	ev = rtEvent{Ev: "rt", API: api.name, Orig: project(rv), Res: tvNode{"g": "other"}, OAlias: aliased(rv), TagKeyed: api.mode == "tags"}
	defer func() {
		if r := recover(); r != nil {
			ev.Ok, ev.M = false, trunc(fmt.Sprintf("panic: %v", r))
		}
	}()
	ptr := reflect.New(rv.Type())
	src := rv.Interface()
	if api.ptr {
		src = rv.Addr().Interface()
	}
	opt := rtOptions(api.mode)
	if api.ck != "" {
		opt.CreateKey = api.ck
	}
	var err error
	switch api.route {
	case "dec":
		_, err = rtRecomposer(api.ck).Recompose(alt.Decompose(src, opt), ptr.Interface())
	case "oj":
		var b []byte
		if b, err = oj.Marshal(src, opt); err == nil {
			err = oj.Unmarshal(b, ptr.Interface(), rtRecomposer(api.ck))
		}
	case "sen":
		err = sen.Unmarshal([]byte(sen.String(src, opt)), ptr.Interface(), rtRecomposer(api.ck))
	}
	if err != nil {
		ev.M = trunc(err.Error())
		return
	}
	ev.Ok = true
	ev.Res = project(ptr.Elem())
	ev.Alias = aliased(ptr.Elem())
	return
}

// rtIsolated runs one round trip in a child process (encode rtchild <api index>) with the two-stage verdict of iso.go.
func rtIsolated(line []byte, ai int, api rtAPI, c *caseSpec) []byte {
	return rtIsolatedKey(line, ai, api, c, isolatedKinds(c))
}

// rtGuarded runs one in-process round trip under a timer. A call that has not returned after lateLimit is abandoned (its goroutine
// keeps running until the process ends) and the same round trip is repeated in a watched child process, which gives the two-stage
// hang / died verdict of iso.go: a type that was not expected to need isolation must not be able to stall the whole driver.
const lateLimit = 15 * time.Second

var lateHangs int32

func rtGuarded(line []byte, ai int, api rtAPI, c *caseSpec, rv reflect.Value) (ev []byte, hung bool) {
	if atomic.LoadInt32(&lateHangs) < 12 { // every abandoned call keeps a core busy: after a dozen everything goes to child processes
		done := make(chan []byte, 1)
		go func() { done <- mustJSON(rtOne(api, rv)) }()
		select {
		case ev = <-done:
			return ev, false
		case <-time.After(lateLimit):
			atomic.AddInt32(&lateHangs, 1)
		}
	}
	ks := []string{c.Top}
	for _, f := range c.F {
		ks = append(ks, f.K)
	}
	ev = rtIsolatedKey(line, ai, api, c, "late:"+strings.Join(ks, "+")+"/"+api.name)
	return ev, bytes.Contains(ev, []byte(`"hang":true`))
}

func rtIsolatedKey(line []byte, ai int, api rtAPI, c *caseSpec, key string) []byte {
	res := runChild([]string{"rtchild", fmt.Sprint(ai)}, line, 1500*time.Millisecond, 10, key)
	if res.verdict == nil {
		return res.out
	}
	rv, err := buildValue(c)
	if err != nil {
		fmt.Fprintln(os.Stderr, "encode:", err)
		os.Exit(2)
	}
	return mustJSON(rtEvent{Ev: "rt", API: api.name, Hang: true, Skip: res.skipped, M: res.verdict.msg, Orig: project(rv), Res: tvNode{"g": "other"},
		TagKeyed: api.mode == "tags"})
}

func lastLine(s string) string { return fatalLine(s) }

func lastLineOld(s string) string {
	for _, l := range strings.Split(s, "\n") {
		if strings.HasPrefix(l, "fatal error") || strings.HasPrefix(l, "panic") || strings.HasPrefix(l, "runtime:") {
			return l
		}
	}
	return strings.TrimSpace(s)
}

// rtChild: one round trip of one case through one route, in this process.
func rtChild(args []string) {
	childInit()
	lines := readLines(os.Stdin)
	var c caseSpec
	if err := json.Unmarshal(lines[0], &c); err != nil {
		panic(err)
	}
	ai, _ := strconv.Atoi(args[0])
	rv, err := buildValue(&c)
	if err != nil {
		fmt.Fprintln(os.Stderr, "encode:", err)
		os.Exit(2)
	}
	os.Stdout.Write(mustJSON(rtOne(rtAPIs[ai], rv)))
	os.Stdout.Write([]byte("\n"))
}

func rtCases(args []string) {
	fs := flag.NewFlagSet("rt", flag.ExitOnError)
	casesOut := fs.String("cases", "", "write one case per trace line here")
	fs.Parse(args)
	lines := readLines(os.Stdin)
	out := parallelMap(len(lines), func(i int) [][]byte {
		var c caseSpec
		if err := json.Unmarshal(lines[i], &c); err != nil {
			panic(err)
		}
		// Go map iteration order is random and the recomposer walks decomposed maps: shapes with map members are
		// recomposed several times (every repetition is an event of its own, judged like any other).
		reps := 1
		for _, f := range c.F {
			if len(f.K) > 3 && f.K[:4] == "map[" {
				reps = 6
			}
		}
		// types whose tags name other members are in the Inverse domain with tag-keyed data only
		tagsOnly := c.Top != "" && kinds[c.Top].tagsOnly
		for _, f := range c.F {
			tagsOnly = tagsOnly || kinds[f.K].tagsOnly
		}
		isolate := c.Top != "" && kinds[c.Top].isolate
		for _, f := range c.F {
			isolate = isolate || kinds[f.K].isolate
		}
		var res [][]byte
		hung := false
		for ai, api := range rtAPIs {
			if tagsOnly && api.mode != "tags" {
				continue
			}
			if hung {
				continue // one hang per case is enough: the remaining routes of this case are not run (watchdog time)
			}
			if isolate {
				// recursive types: one child process per call under a watchdog; a call that does not return (or kills
				// the process, e.g. by unbounded recursion) is recorded as an event with hang = true
				ev := rtIsolated(lines[i], ai, api, &c)
				hung = bytes.Contains(ev, []byte(`"hang":true`))
				res = append(res, ev, mustJSON(map[string]any{"f": c.F, "top": c.Top, "v": c.V, "api": api.name}))
				continue
			}
			for k := 0; k < reps; k++ {
				rv, err := buildValue(&c) // fresh value per run: nothing is shared between runs
				if err != nil {
					fmt.Fprintln(os.Stderr, "encode:", err)
					os.Exit(2)
				}
				var ev []byte
				ev, hung = rtGuarded(lines[i], ai, api, &c, rv)
				res = append(res, ev, mustJSON(map[string]any{"f": c.F, "top": c.Top, "v": c.V, "api": api.name}))
				if hung {
					break
				}
			}
		}
		return res
	})
	w := bufio.NewWriterSize(os.Stdout, 1<<20)
	var cw *bufio.Writer
	if *casesOut != "" {
		cf, err := os.Create(*casesOut)
		if err != nil {
			panic(err)
		}
		defer cf.Close()
		cw = bufio.NewWriterSize(cf, 1<<20)
		defer cw.Flush()
	}
	for _, rs := range out {
		for k := 0; k+1 < len(rs); k += 2 {
			w.Write(rs[k])
			w.WriteByte('\n')
			if cw != nil {
				cw.Write(rs[k+1])
				cw.WriteByte('\n')
			}
		}
	}
	w.Flush()
}
