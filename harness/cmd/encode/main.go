// Command encode drives the real ojg encoders (C15) and the recomposer (C16) on cases chosen by TLC.
//
//	encode exec   [-masks quick|thorough|one] [-valid out.ndjson] < cases.ndjson > trace.ndjson     (C15)
//	encode rt     < cases.ndjson > trace.ndjson                                                    (C16 inverse)
//	encode hist   -mode own|default < histories.ndjson > trace.ndjson                               (C16 history)
//	encode histchild                                                                               (internal)
//
// The harness only materialises the cases, calls the real code, and projects values and outputs onto
// the abstract forms the TLA+ trace specifications read. It takes no decisions.
package main

import (
	"bufio"
	"bytes"
	"encoding/json"
	"flag"
	"fmt"
	"io"
	"os"
	"runtime"
	"sync"
)

func main() {
	if len(os.Args) < 2 {
		fmt.Fprintln(os.Stderr, "usage: encode exec|rt|hist ...")
		os.Exit(2)
	}
	switch os.Args[1] {
	case "exec":
		execCases(os.Args[2:])
	case "rt":
		rtCases(os.Args[2:])
	case "hist":
		histCases(os.Args[2:])
	case "calchild": // calibration: process start + warm-up, nothing else
		childInit()
		warmUp()
	case "execchild":
		execChild(os.Args[2:])
	case "rtchild":
		rtChild(os.Args[2:])
	case "histchild":
		histChild(os.Args[2:])
	default:
		fmt.Fprintln(os.Stderr, "unknown mode", os.Args[1])
		os.Exit(2)
	}
}

func readLines(f *os.File) [][]byte {
	var res [][]byte
	sc := bufio.NewScanner(f)
	sc.Buffer(make([]byte, 1<<20), 1<<28)
	for sc.Scan() {
		if len(bytes.TrimSpace(sc.Bytes())) > 0 {
			res = append(res, append([]byte{}, sc.Bytes()...))
		}
	}
	return res
}

// parallelMap runs fn over 0..n-1 on several goroutines and returns the results in order.
func parallelMap(n int, fn func(i int) [][]byte) [][][]byte {
	res := make([][][]byte, n)
	w := runtime.NumCPU() / 2
	if w < 1 {
		w = 1
	}
	if w > 8 {
		w = 8
	}
	var wg sync.WaitGroup
	ch := make(chan int, 64)
	for k := 0; k < w; k++ {
		wg.Add(1)
		go func() {
			defer wg.Done()
			for i := range ch {
				res[i] = fn(i)
			}
		}()
	}
	for i := 0; i < n; i++ {
		ch <- i
	}
	close(ch)
	wg.Wait()
	return res
}

func mustJSON(v any) []byte {
	b, err := json.Marshal(v)
	if err != nil {
		panic(err)
	}
	return b
}

func execCases(args []string) {
	fs := flag.NewFlagSet("exec", flag.ExitOnError)
	masks := fs.String("masks", "quick", "option masks applied to cases without explicit options: quick|thorough|one")
	valid := fs.String("valid", "", "write the distinct JSON outputs here (TraceJson format) for the validity check")
	casesOut := fs.String("cases", "", "write the expanded cases (one per trace line, with explicit options) here")
	fs.Parse(args)
	lines := readLines(os.Stdin)
	warmUp()
	var vmu sync.Mutex
	seen := map[string]map[string]bool{}
	out := parallelMap(len(lines), func(i int) [][]byte {
		var c caseSpec
		if err := json.Unmarshal(lines[i], &c); err != nil {
			panic(fmt.Sprintf("bad case line %d: %v", i+1, err))
		}
		var res [][]byte
		isolate := c.Top != "" && kinds[c.Top].isolate
		for _, f := range c.F {
			isolate = isolate || kinds[f.K].isolate
		}
		dead := map[string]string{}
		for _, o := range expandOpts(&c, *masks) {
			var ev event
			var raws map[string]string
			if isolate {
				ev, raws = runIsolated(&c, o, dead) // recursive types: child process, a fatal error is attributed to the case
			} else {
				ev, raws = runCase(&c, o)
			}
			res = append(res, mustJSON(ev), mustJSON(ev.Case))
			if *valid != "" {
				vmu.Lock()
				for enc, raw := range raws {
					m := seen[raw]
					if m == nil {
						m = map[string]bool{}
						seen[raw] = m
					}
					m[enc] = true
				}
				vmu.Unlock()
			}
		}
		return res
	})
	w := bufio.NewWriterSize(os.Stdout, 1<<20)
	cw := bufio.NewWriter(io.Discard)
	if *casesOut != "" {
		cf, err := os.Create(*casesOut)
		if err != nil {
			panic(err)
		}
		defer cf.Close()
		cw = bufio.NewWriterSize(cf, 1<<20)
	}
	for _, rs := range out {
		for k := 0; k+1 < len(rs); k += 2 {
			w.Write(rs[k])
			w.WriteByte('\n')
			cw.Write(rs[k+1])
			cw.WriteByte('\n')
		}
	}
	w.Flush()
	cw.Flush()
	if *valid != "" {
		writeValid(*valid, seen)
	}
}
