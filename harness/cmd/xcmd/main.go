// Command xcmd drives the real `oj` command line application (cmd/oj of the tree under test, built as a separate
// binary) as a black box for the extension check XCMD (spec/OjCmd.tla, spec/TraceOjCmd.tla).
//
//	xcmd exec -oj <path of the oj binary> [-par n]  < cases.ndjson > trace.ndjson
//
// A case is {id, cell, docs, obs}:
//
//	cell  value options: {z, x:[menu idx], w, m:[..], d:[..], a, o, dig, xt:[path texts], mt:[script texts],
//	      dt:[path texts], at: plan text}
//	docs  [{b:[bytes]}] the input documents in order, rendered by the specification (TLC)
//	obs   the runs to make: {fz, sen, srt, ind, tab, p, col, bri, html, safe, xpos, mpos,
//	      src: "stdin"|"files"|"arg", sep: separator between documents, split:[group sizes] (files), cut (arg),
//	      conf: {dash, f, cs, cj, hs, hj} each a list of 0/1 settings {sen, lazy, ind, col}}
//
// For every observation the driver makes a fresh directory with its own working directory and HOME, writes the
// configuration and input files, runs oj and records {args, out:[bytes of stdout], rc, errn, err}.  It decides nothing:
// what the run should have printed is judged by TLC (TraceOjCmd).
package main

import (
	"bufio"
	"bytes"
	"context"
	"encoding/json"
	"errors"
	"flag"
	"fmt"
	"os"
	"os/exec"
	"path/filepath"
	"runtime"
	"strconv"
	"sync"
	"time"
)

type M = map[string]any

func main() {
	if len(os.Args) < 2 || os.Args[1] != "exec" {
		fmt.Fprintln(os.Stderr, "usage: xcmd exec -oj <binary> [-par n] < cases.ndjson > trace.ndjson")
		os.Exit(2)
	}
	fs := flag.NewFlagSet("exec", flag.ExitOnError)
	ojBin := fs.String("oj", "", "path of the oj binary")
	par := fs.Int("par", runtime.NumCPU()/2, "parallel runs")
	_ = fs.Parse(os.Args[2:])
	if *ojBin == "" {
		fail("no -oj binary")
	}
	if *par < 1 {
		*par = 1
	}
	base, err := os.MkdirTemp("", "xcmd-run-")
	if err != nil {
		fail(err.Error())
	}
	defer os.RemoveAll(base)

	var cases []M
	sc := bufio.NewScanner(os.Stdin)
	sc.Buffer(make([]byte, 1<<20), 1<<26)
	for sc.Scan() {
		if len(bytes.TrimSpace(sc.Bytes())) == 0 {
			continue
		}
		var c M
		if err := json.Unmarshal(sc.Bytes(), &c); err != nil {
			fail("bad case: " + err.Error())
		}
		cases = append(cases, c)
	}
	type job struct{ ci, oi int }
	jobs := make(chan job, 64)
	var wg sync.WaitGroup
	var mu sync.Mutex
	var firstErr error
	for w := 0; w < *par; w++ {
		wg.Add(1)
		go func() {
			defer wg.Done()
			for j := range jobs {
				c := cases[j.ci]
				ob := c["obs"].([]any)[j.oi].(M)
				dir := filepath.Join(base, fmt.Sprintf("c%d_o%d", j.ci, j.oi))
				if err := runOne(*ojBin, dir, c, ob); err != nil {
					mu.Lock()
					if firstErr == nil {
						firstErr = err
					}
					mu.Unlock()
				}
				_ = os.RemoveAll(dir)
			}
		}()
	}
	for ci, c := range cases {
		for oi := range c["obs"].([]any) {
			jobs <- job{ci, oi}
		}
	}
	close(jobs)
	wg.Wait()
	if firstErr != nil {
		fail(firstErr.Error())
	}
	out := bufio.NewWriterSize(os.Stdout, 1<<20)
	enc := json.NewEncoder(out)
	for _, c := range cases {
		if err := enc.Encode(c); err != nil {
			fail(err.Error())
		}
	}
	_ = out.Flush()
}

func fail(msg string) {
	fmt.Fprintln(os.Stderr, "xcmd:", msg)
	os.Exit(3)
}

func toBytes(v any) []byte {
	l, _ := v.([]any)
	b := make([]byte, len(l))
	for i, x := range l {
		b[i] = byte(x.(float64))
	}
	return b
}

func fromBytes(b []byte) []any {
	l := make([]any, len(b))
	for i, x := range b {
		l[i] = float64(x)
	}
	return l
}

func boolOf(m M, k string) bool {
	b, _ := m[k].(bool)
	return b
}

func strs(v any) []string {
	l, _ := v.([]any)
	r := make([]string, len(l))
	for i, x := range l {
		r[i], _ = x.(string)
	}
	return r
}

// the text of a configuration file: SEN as shown by -help-config, or JSON
func confText(rec M, asJSON bool) string {
	sen, lazy, col := boolOf(rec, "sen"), boolOf(rec, "lazy"), boolOf(rec, "col")
	ind := int(rec["ind"].(float64))
	if asJSON {
		return fmt.Sprintf("{\"sen\": %t, \"lazy\": %t, \"color\": %t, \"bright\": false, \"format\": {\"indent\": %d}}\n", sen, lazy, col, ind)
	}
	return fmt.Sprintf("// generated\n{\n  sen: %t\n  lazy: %t\n  color: %t\n  bright: false\n  format: {indent: %d}\n}\n", sen, lazy, col, ind)
}

func runOne(ojBin, dir string, c, ob M) error {
	cwd := filepath.Join(dir, "cwd")
	home := filepath.Join(dir, "home")
	for _, d := range []string{cwd, home} {
		if err := os.MkdirAll(d, 0o755); err != nil {
			return err
		}
	}
	cell := c["cell"].(M)
	var args []string
	// configuration files
	if conf, ok := ob["conf"].(M); ok {
		put := func(key, path string, asJSON bool) (bool, error) {
			l, _ := conf[key].([]any)
			if len(l) == 0 {
				return false, nil
			}
			return true, os.WriteFile(path, []byte(confText(l[0].(M), asJSON)), 0o644)
		}
		if boolOf(conf, "dash") {
			args = append(args, "-f", "-")
		}
		fp := filepath.Join(dir, "named-config.sen")
		if has, err := put("f", fp, false); err != nil {
			return err
		} else if has {
			args = append(args, "-f", fp)
		}
		for _, e := range []struct {
			key, path string
			js        bool
		}{{"cs", filepath.Join(cwd, ".oj-config.sen"), false}, {"cj", filepath.Join(cwd, ".oj-config.json"), true},
			{"hs", filepath.Join(home, ".oj-config.sen"), false}, {"hj", filepath.Join(home, ".oj-config.json"), true}} {
			if _, err := put(e.key, e.path, e.js); err != nil {
				return err
			}
		}
	}
	// formatting options
	if boolOf(ob, "fz") {
		args = append(args, "-z")
	}
	if boolOf(ob, "sen") {
		args = append(args, "-sen")
	}
	if boolOf(ob, "srt") {
		args = append(args, "-s")
	}
	if ind := int(ob["ind"].(float64)); ind >= 0 {
		args = append(args, "-i", strconv.Itoa(ind))
	}
	if boolOf(ob, "tab") {
		args = append(args, "-t")
	}
	if p, _ := ob["p"].(string); p != "" {
		args = append(args, "-p", p)
	}
	for _, f := range [][2]string{{"col", "-c"}, {"bri", "-b"}, {"html", "-html"}, {"safe", "-safe"}} {
		if boolOf(ob, f[0]) {
			args = append(args, f[1])
		}
	}
	// value options
	var positional []string
	for _, t := range strs(cell["xt"]) {
		if boolOf(ob, "xpos") {
			positional = append(positional, t)
		} else {
			args = append(args, "-x", t)
		}
	}
	for _, t := range strs(cell["mt"]) {
		if boolOf(ob, "mpos") {
			positional = append(positional, t)
		} else {
			args = append(args, "-m", t)
		}
	}
	for _, t := range strs(cell["dt"]) {
		args = append(args, "-d", t)
	}
	if at, _ := cell["at"].(string); at != "" {
		args = append(args, "-a", at)
	}
	for _, f := range [][2]string{{"w", "-w"}, {"o", "-o"}, {"dig", "-dig"}} {
		if boolOf(cell, f[0]) {
			args = append(args, f[1])
		}
	}
	args = append(args, positional...)
	// input
	var docs [][]byte
	for _, d := range c["docs"].([]any) {
		docs = append(docs, toBytes(d.(M)["b"]))
	}
	sep, _ := ob["sep"].(string)
	if sep == "" {
		sep = "\n"
	}
	join := func(ds [][]byte) []byte {
		var b []byte
		for _, d := range ds {
			b = append(b, d...)
			b = append(b, sep...)
		}
		return b
	}
	var stdin []byte
	switch src, _ := ob["src"].(string); src {
	case "files":
		split, _ := ob["split"].([]any)
		at := 0
		for i, g := range split {
			n := int(g.(float64))
			if at+n > len(docs) {
				n = len(docs) - at
			}
			path := filepath.Join(dir, fmt.Sprintf("in%d.json", i))
			if err := os.WriteFile(path, join(docs[at:at+n]), 0o644); err != nil {
				return err
			}
			at += n
			args = append(args, path)
		}
		if at != len(docs) {
			return fmt.Errorf("case %v: split does not cover the documents", c["id"])
		}
	case "arg":
		if len(docs) != 1 {
			return fmt.Errorf("case %v: arg source needs exactly one document", c["id"])
		}
		cut := int(ob["cut"].(float64))
		if cut <= 0 || cut >= len(docs[0]) {
			args = append(args, string(docs[0]))
		} else {
			args = append(args, string(docs[0][:cut]), string(docs[0][cut:]))
		}
	default:
		stdin = join(docs)
	}
	ctx, cancel := context.WithTimeout(context.Background(), 20*time.Second)
	defer cancel()
	cmd := exec.CommandContext(ctx, ojBin, args...)
	cmd.Dir = cwd
	cmd.Env = []string{"HOME=" + home, "PATH=/usr/bin:/bin", "TZ=UTC"}
	cmd.Stdin = bytes.NewReader(stdin)
	var so, se bytes.Buffer
	cmd.Stdout, cmd.Stderr = &so, &se
	err := cmd.Run()
	rc := 0
	if err != nil {
		var ee *exec.ExitError
		if ctx.Err() != nil {
			return fmt.Errorf("case %v: oj %q timed out", c["id"], args)
		}
		if errors.As(err, &ee) && ee.ExitCode() >= 0 {
			rc = ee.ExitCode()
		} else {
			return fmt.Errorf("case %v: oj %q did not run: %v", c["id"], args, err)
		}
	}
	if so.Len() > 1<<16 {
		return fmt.Errorf("case %v: unexpectedly large output (%d bytes)", c["id"], so.Len())
	}
	shown := make([]any, len(args))
	for i, a := range args {
		shown[i] = a
	}
	ob["args"] = shown
	ob["out"] = fromBytes(so.Bytes())
	ob["rc"] = float64(rc)
	ob["errn"] = float64(se.Len())
	msg := se.String()
	if len(msg) > 120 {
		msg = msg[:120]
	}
	ob["err"] = msg
	return nil
}
