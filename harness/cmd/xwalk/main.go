// Command xwalk is the Go driver of the extension check XWALK (traversal and event streams of ojg).
//
//	xwalk walk-gen  -n N          seeded random data trees (ndjson cases)
//	xwalk walk-exec               cases on stdin -> one observation of the real jp.Walk per (tree, justLeaves, mode) on stdout
//	xwalk tok-gen   -n N          seeded random JSON texts with truncation / corruption mutations (ndjson cases)
//	xwalk tok-exec                cases on stdin -> the event streams the real tokenizers / callback parsers delivered
//
// The driver only builds the data, calls the real code and records what it did; every verdict is TLC's
// (spec/TraceWalk.tla, spec/TraceTokenEvents.tla).
package main

import (
	"bufio"
	"encoding/json"
	"flag"
	"fmt"
	"os"
	"strconv"
)

func seed() int64 {
	s, err := strconv.ParseInt(os.Getenv("VERIF_SEED"), 10, 64)
	if err != nil || s == 0 {
		s = 1
	}
	return s
}

func readCases(f func(c map[string]any)) {
	sc := bufio.NewScanner(os.Stdin)
	sc.Buffer(make([]byte, 1<<20), 1<<28)
	for sc.Scan() {
		line := sc.Bytes()
		if len(line) == 0 {
			continue
		}
		var c map[string]any
		if err := json.Unmarshal(line, &c); err != nil {
			fmt.Fprintln(os.Stderr, "bad case line:", err)
			os.Exit(3)
		}
		f(c)
	}
	if err := sc.Err(); err != nil {
		fmt.Fprintln(os.Stderr, "reading cases:", err)
		os.Exit(3)
	}
}

var out = bufio.NewWriterSize(os.Stdout, 1<<20)

func emit(v any) {
	b, err := json.Marshal(v)
	if err != nil {
		fmt.Fprintln(os.Stderr, "marshal:", err)
		os.Exit(3)
	}
	out.Write(b)
	out.WriteByte('\n')
}

func main() {
	if len(os.Args) < 2 {
		fmt.Fprintln(os.Stderr, "usage: xwalk walk-gen|walk-exec|tok-gen|tok-exec")
		os.Exit(3)
	}
	fs := flag.NewFlagSet(os.Args[1], flag.ExitOnError)
	n := fs.Int("n", 1000, "number of cases")
	_ = fs.Parse(os.Args[2:])
	defer out.Flush()
	switch os.Args[1] {
	case "walk-gen":
		walkGen(*n)
	case "walk-exec":
		walkExec()
	case "tok-gen":
		tokGen(*n)
	case "tok-exec":
		tokExec()
	default:
		fmt.Fprintln(os.Stderr, "unknown subcommand", os.Args[1])
		os.Exit(3)
	}
}
