package main

import (
	"math/rand"
	"reflect"
	"sort"
	"strconv"
	"time"

	"verif/harness/absval"

	"github.com/ohler55/ojg/gen"
	"github.com/ohler55/ojg/jp"
)

// ---------------------------------------------------------------- the node types only this driver knows

// simNode implements alt.Simplifier; its simplification is inner.
type simNode struct{ inner any }

func (s *simNode) Simplify() any { return s.inner }

type pt struct {
	A int
	B string
}

type keyed struct{ m map[string]any }

func (k *keyed) ValueForKey(key string) (any, bool) { v, ok := k.m[key]; return v, ok }
func (k *keyed) SetValueForKey(key string, v any)   { k.m[key] = v }
func (k *keyed) RemoveValueForKey(key string)       { delete(k.m, key) }
func (k *keyed) Keys() []string {
	ks := make([]string, 0, len(k.m))
	for x := range k.m {
		ks = append(ks, x)
	}
	sort.Strings(ks)
	return ks
}

type indexed struct{ a []any }

func (x *indexed) ValueAtIndex(i int) any       { return x.a[i] }
func (x *indexed) SetValueAtIndex(i int, v any) { x.a[i] = v }
func (x *indexed) Size() int                    { return len(x.a) }

var t0 = time.Date(2021, 2, 3, 4, 5, 6, 7, time.UTC)

// opaque values: leaves for jp.Walk as written (typed collections, structs, user collections, time, []byte, pointers)
func opaque(id string) any {
	switch id {
	case "ints":
		return []int{1, 2}
	case "smap":
		return map[string]int{"a": 1, "b": 2}
	case "struct":
		return pt{A: 1, B: "x"}
	case "time":
		return t0
	case "bytes":
		return []byte("ab")
	case "keyed":
		return &keyed{m: map[string]any{"k": int64(1)}}
	case "indexed":
		return &indexed{a: []any{int64(1), "x"}}
	case "ptr":
		return &pt{A: 2, B: "y"}
	}
	panic("unknown opaque id " + id)
}

var opaqueIDs = []string{"ints", "smap", "struct", "time", "bytes", "keyed", "indexed", "ptr"}

func opaqueID(v any) (string, bool) {
	var id string
	switch v.(type) {
	case []int:
		id = "ints"
	case map[string]int:
		id = "smap"
	case pt:
		id = "struct"
	case time.Time:
		id = "time"
	case []byte:
		id = "bytes"
	case *keyed:
		id = "keyed"
	case *indexed:
		id = "indexed"
	case *pt:
		id = "ptr"
	default:
		return "", false
	}
	if !reflect.DeepEqual(v, opaque(id)) {
		return "modified:" + id, true
	}
	return id, true
}

func bytesOf(x any) []byte {
	l, _ := x.([]any)
	b := make([]byte, len(l))
	for i, e := range l {
		b[i] = byte(e.(float64))
	}
	return b
}

func ints(b []byte) []int {
	r := make([]int, len(b))
	for i, x := range b {
		r[i] = int(x)
	}
	return r
}

// build the Go data a case tree describes
func build(n map[string]any) any {
	g := n["g"].(float64) == 1
	switch n["t"].(string) {
	case "leaf":
		a := n["a"].(map[string]any)
		switch a["t"].(string) {
		case "null":
			return nil
		case "bool":
			if g {
				return gen.Bool(a["v"].(bool))
			}
			return a["v"].(bool)
		case "int":
			i := int64(a["v"].(float64))
			if g {
				return gen.Int(i)
			}
			if i%2 != 0 {
				return int(i) // Walk lists every Go integer width as a leaf
			}
			return i
		case "str":
			s := string(bytesOf(a["v"]))
			if g {
				return gen.String(s)
			}
			return s
		case "flt":
			f, _ := strconv.ParseFloat(a["s"].(string), 64)
			if g {
				return gen.Float(f)
			}
			return f
		case "opq":
			return opaque(a["id"].(string))
		}
	case "arr":
		kids := n["v"].([]any)
		if g {
			a := make(gen.Array, len(kids))
			for i, k := range kids {
				if v := build(k.(map[string]any)); v != nil {
					a[i] = v.(gen.Node)
				}
			}
			return a
		}
		a := make([]any, len(kids))
		for i, k := range kids {
			a[i] = build(k.(map[string]any))
		}
		return a
	case "obj":
		kids := n["v"].([]any)
		keys := n["k"].([]any)
		if g {
			o := gen.Object{}
			for i, k := range kids {
				if v := build(k.(map[string]any)); v != nil {
					o[string(bytesOf(keys[i]))] = v.(gen.Node)
				} else {
					o[string(bytesOf(keys[i]))] = nil
				}
			}
			return o
		}
		o := map[string]any{}
		for i, k := range kids {
			o[string(bytesOf(keys[i]))] = build(k.(map[string]any))
		}
		return o
	case "sim":
		return &simNode{inner: build(n["v"].(map[string]any))}
	}
	panic("bad node")
}

// proj is the projection of a Go value onto the node encoding of spec/Walk.tla (leaf payload = harness/absval).
func proj(v any) any {
	if id, ok := opaqueID(v); ok {
		return map[string]any{"t": "leaf", "g": 0, "a": map[string]any{"t": "opq", "id": id}}
	}
	switch t := v.(type) {
	case nil:
		return map[string]any{"t": "leaf", "g": 0, "a": map[string]any{"t": "null"}}
	case *simNode:
		return map[string]any{"t": "sim", "g": 0, "v": proj(t.inner)}
	case []any:
		a := make([]any, len(t))
		for i, e := range t {
			a[i] = proj(e)
		}
		return map[string]any{"t": "arr", "g": 0, "v": a}
	case gen.Array:
		a := make([]any, len(t))
		for i, e := range t {
			if e == nil {
				a[i] = proj(nil)
			} else {
				a[i] = proj(e)
			}
		}
		return map[string]any{"t": "arr", "g": 1, "v": a}
	case map[string]any:
		ks := make([]string, 0, len(t))
		for k := range t {
			ks = append(ks, k)
		}
		sort.Strings(ks)
		kk, vv := make([]any, len(ks)), make([]any, len(ks))
		for i, k := range ks {
			kk[i], vv[i] = ints([]byte(k)), proj(t[k])
		}
		return map[string]any{"t": "obj", "g": 0, "k": kk, "v": vv}
	case gen.Object:
		ks := make([]string, 0, len(t))
		for k := range t {
			ks = append(ks, k)
		}
		sort.Strings(ks)
		kk, vv := make([]any, len(ks)), make([]any, len(ks))
		for i, k := range ks {
			kk[i] = ints([]byte(k))
			if t[k] == nil {
				vv[i] = proj(nil)
			} else {
				vv[i] = proj(t[k])
			}
		}
		return map[string]any{"t": "obj", "g": 1, "k": kk, "v": vv}
	}
	g := 0
	if _, ok := v.(gen.Node); ok {
		g = 1
	}
	a, _ := absval.Encode(v).(map[string]any)
	if a == nil || a["t"] == "arr" || a["t"] == "obj" {
		a = map[string]any{"t": "other"}
	}
	return map[string]any{"t": "leaf", "g": g, "a": a}
}

// expand replaces every Simplifier by its simplification (the view Walk documents through its test)
func expand(v any) any {
	switch t := v.(type) {
	case *simNode:
		return expand(t.inner)
	case []any:
		a := make([]any, len(t))
		for i, e := range t {
			a[i] = expand(e)
		}
		return a
	case map[string]any:
		o := map[string]any{}
		for k, e := range t {
			o[k] = expand(e)
		}
		return o
	}
	return v
}

type frag struct {
	F string `json:"f"`
	K []int  `json:"k"`
	I int    `json:"i"`
}

type wev struct {
	P      []frag `json:"p"`
	Root   bool   `json:"root"`
	Ps     string `json:"ps"`
	Val    any    `json:"val"`
	Get    []any  `json:"get"`
	First  any    `json:"first"`
	Getx   []any  `json:"getx"`
	Firstx any    `json:"firstx"`
}

func frags(p jp.Expr) (fs []frag, root bool) {
	fs = []frag{}
	for i, f := range p {
		switch t := f.(type) {
		case jp.Root:
			if i == 0 {
				root = true
				continue
			}
			fs = append(fs, frag{F: "x:root-inside", K: []int{}})
		case jp.Child:
			fs = append(fs, frag{F: "c", K: ints([]byte(string(t)))})
		case jp.Nth:
			fs = append(fs, frag{F: "n", K: []int{}, I: int(t)})
		default:
			fs = append(fs, frag{F: "x:" + reflect.TypeOf(f).String(), K: []int{}})
		}
	}
	return
}

var panicNode = map[string]any{"t": "panic", "g": 0}

func safeGet(p jp.Expr, data any) (res []any, first any) {
	res = []any{}
	func() {
		defer func() {
			if r := recover(); r != nil {
				res = []any{panicNode}
			}
		}()
		for _, v := range p.Get(data) {
			res = append(res, proj(v))
		}
	}()
	func() {
		defer func() {
			if r := recover(); r != nil {
				first = panicNode
			}
		}()
		first = proj(p.First(data))
	}()
	return
}

func sameFrags(a, b jp.Expr) bool {
	if len(a) != len(b) {
		return false
	}
	for i := range a {
		if !reflect.DeepEqual(a[i], b[i]) {
			return false
		}
	}
	return true
}

// observe runs the real jp.Walk once.
func observe(tree map[string]any, jl bool, mode string) map[string]any {
	data := build(tree)
	xdata := expand(data)
	evs := []wev{}
	var kept, copies []jp.Expr
	res := "ok"
	done := make(chan string, 1)
	go func() {
		defer func() {
			if r := recover(); r != nil {
				done <- "panic"
			}
		}()
		cb := func(path jp.Expr, value any) {
			cp := make(jp.Expr, len(path))
			copy(cp, path)
			kept = append(kept, path)
			copies = append(copies, cp)
			fs, root := frags(cp)
			e := wev{P: fs, Root: root, Ps: cp.String(), Val: proj(value)}
			e.Get, e.First = safeGet(cp, data)
			e.Getx, e.Firstx = safeGet(cp, xdata)
			evs = append(evs, e)
			if mode == "append" {
				// the doc asks for a copy before SAVING the path; using it (here: extending it) is not forbidden
				_ = append(path, jp.Child("zz"), jp.Nth(99))
			}
			if len(evs) > 100000 {
				panic("runaway")
			}
		}
		if jl {
			jp.Walk(data, cb, true)
		} else if mode == "append" {
			jp.Walk(data, cb, false)
		} else {
			jp.Walk(data, cb)
		}
		done <- "ok"
	}()
	select {
	case res = <-done:
	case <-time.After(10 * time.Second):
		res = "hang"
		return map[string]any{"tree": tree, "jl": jl, "as": []string{mode}, "r": res, "ev": []wev{}, "post": proj(nil), "stale": 0}
	}
	stale := 0
	for i := range kept {
		if !sameFrags(kept[i], copies[i]) {
			stale++
		}
	}
	return map[string]any{"tree": tree, "jl": jl, "as": []string{mode}, "r": res, "ev": evs, "post": proj(data), "stale": stale}
}

func walkExec() {
	readCases(func(c map[string]any) {
		tree := c["tree"].(map[string]any)
		jls := []bool{false, true}
		if v, ok := c["jl"].(bool); ok { // a replayed observation
			jls = []bool{v}
		}
		modes := []string{"plain", "append"}
		if as, ok := c["as"].([]any); ok && len(as) > 0 {
			modes = []string{as[0].(string)}
		}
		for _, jl := range jls {
			for _, m := range modes {
				o := observe(tree, jl, m)
				o["id"], o["src"], o["nn"], o["nl"] = c["id"], c["src"], c["nn"], c["nl"]
				if o["nn"] == nil {
					o["nn"], o["nl"] = 0, 0
				}
				if o["id"] == nil {
					o["id"] = 0
				}
				if o["src"] == nil {
					o["src"] = "?"
				}
				emit(o)
			}
		}
	})
}

// ---------------------------------------------------------------- seeded random trees

var keyPool = []string{"", "$", "'", "0", "a", "a.b", "b", "x y", "é", "[0]", "a[1]", "@", "*", "..", "\"", "\\", "k\n", "日本", "\U0001F600", "a'b", "-1", "true", "longer key with spaces"}

func randTree(r *rand.Rand, depth int, g int, top bool) map[string]any {
	leaf := func() map[string]any {
		var a map[string]any
		switch k := r.Intn(12); {
		case k == 0:
			return map[string]any{"t": "leaf", "g": 0, "a": map[string]any{"t": "null"}}
		case k <= 2:
			a = map[string]any{"t": "bool", "v": r.Intn(2) == 0}
		case k <= 5:
			a = map[string]any{"t": "int", "v": []int{0, 1, 1, -7, 2, 1000000, -3}[r.Intn(7)]}
		case k <= 8:
			a = map[string]any{"t": "str", "v": ints([]byte([]string{"", "a", "a", "a.b", "é", "x y"}[r.Intn(6)]))}
		case k == 9:
			a = map[string]any{"t": "flt", "s": []string{"1.5", "-0.25", "1e+21"}[r.Intn(3)]}
		default:
			if g == 1 {
				a = map[string]any{"t": "int", "v": 1}
			} else {
				a = map[string]any{"t": "opq", "id": opaqueIDs[r.Intn(len(opaqueIDs))]}
			}
		}
		return map[string]any{"t": "leaf", "g": g, "a": a}
	}
	var n map[string]any
	if depth == 0 || (!top && r.Intn(3) == 0) {
		n = leaf()
	} else {
		w := r.Intn(5)
		if r.Intn(2) == 0 {
			kids := make([]any, w)
			for i := range kids {
				kids[i] = randTree(r, depth-1, g, false)
			}
			n = map[string]any{"t": "arr", "g": g, "v": kids}
		} else {
			set := map[string]bool{}
			for len(set) < w {
				set[keyPool[r.Intn(len(keyPool))]] = true
			}
			ks := make([]string, 0, w)
			for k := range set {
				ks = append(ks, k)
			}
			sort.Strings(ks)
			kk, kids := make([]any, w), make([]any, w)
			for i, k := range ks {
				kk[i] = ints([]byte(k))
				kids[i] = randTree(r, depth-1, g, false)
			}
			n = map[string]any{"t": "obj", "g": g, "k": kk, "v": kids}
		}
	}
	if g == 0 && r.Intn(9) == 0 {
		n = map[string]any{"t": "sim", "g": 0, "v": n}
	}
	return n
}

func walkGen(n int) {
	r := rand.New(rand.NewSource(seed()))
	for i := 0; i < n; i++ {
		emit(map[string]any{"src": "go", "tree": randTree(r, 1+r.Intn(4), r.Intn(2), true), "nn": 0, "nl": 0})
	}
}
