package main

func tokGen(n int) {}
func tokExec()     {}
