package main

import (
	"encoding/json"
	"fmt"
	"io"
	"math/rand"
	"os"
	"strings"

	"verif/harness/absval"
	"verif/harness/plib"

	"github.com/ohler55/ojg/gen"
	"github.com/ohler55/ojg/oj"
	"github.com/ohler55/ojg/sen"
)

var numEnc = absval.Opt{AlwaysDec: true, FloatMid: true}

// rec is the recording oj.TokenHandler: nothing but the callbacks, in order.
type rec struct{ ev []map[string]any }

func (h *rec) add(e map[string]any) {
	if len(h.ev) < 200000 {
		h.ev = append(h.ev, e)
	}
}
func (h *rec) Null()           { h.add(map[string]any{"k": "null"}) }
func (h *rec) Bool(v bool)     { h.add(map[string]any{"k": "bool", "v": v}) }
func (h *rec) Int(v int64)     { h.add(map[string]any{"k": "int", "r": numEnc.Encode(v)}) }
func (h *rec) Float(v float64) { h.add(map[string]any{"k": "float", "r": numEnc.Encode(v)}) }
func (h *rec) Number(v string) { h.add(map[string]any{"k": "number", "r": numEnc.Encode(json.Number(v))}) }
func (h *rec) String(v string) { h.add(map[string]any{"k": "string", "v": ints([]byte(v))}) }
func (h *rec) Key(v string)    { h.add(map[string]any{"k": "key", "v": ints([]byte(v))}) }
func (h *rec) ObjectStart()    { h.add(map[string]any{"k": "{"}) }
func (h *rec) ObjectEnd()      { h.add(map[string]any{"k": "}"}) }
func (h *rec) ArrayStart()     { h.add(map[string]any{"k": "["}) }
func (h *rec) ArrayEnd()       { h.add(map[string]any{"k": "]"}) }

type obsT struct {
	Fam string           `json:"fam"`
	As  []string         `json:"as"`
	Err int              `json:"err"`
	Pan int              `json:"pan"`
	Ev  []map[string]any `json:"ev"`
	sig string
}

type call struct {
	fam, api string
	run      func(y []byte, h *rec) error
}

func docCB(h *rec) func(any) {
	return func(v any) { h.add(map[string]any{"k": "doc", "r": numEnc.Encode(v)}) }
}

var chunkModes = []string{"whole", "1", "2", "3", "7", "half", "dataerr"}

func calls(y []byte, extraSplit []int) []call {
	cs := []call{
		{"oj", "oj.Tokenize", func(y []byte, h *rec) error { return oj.Tokenize(y, h) }},
		{"oj", "oj.TokenizeString", func(y []byte, h *rec) error { return oj.TokenizeString(string(y), h) }},
		{"oj", "oj.Tokenizer.Parse", func(y []byte, h *rec) error { return (&oj.Tokenizer{}).Parse(y, h) }},
		{"sen", "sen.Tokenize", func(y []byte, h *rec) error { return sen.Tokenize(y, h) }},
		{"sen", "sen.TokenizeString", func(y []byte, h *rec) error { return sen.TokenizeString(string(y), h) }},
		{"sen", "sen.Tokenizer.Parse", func(y []byte, h *rec) error { return (&sen.Tokenizer{}).Parse(y, h) }},
		{"docs-oj", "oj.ParseString+func(any)bool", func(y []byte, h *rec) error {
			cb := docCB(h)
			_, err := oj.ParseString(string(y), func(v any) bool { cb(v); return false })
			return err
		}},
		{"docs-oj", "oj.Parser.Parse+func(any)", func(y []byte, h *rec) error {
			_, err := (&oj.Parser{}).Parse(y, docCB(h))
			return err
		}},
		{"docs-oj", "oj.Parser.Parse+chan", func(y []byte, h *rec) error {
			ch := make(chan any, 16)
			done := make(chan struct{})
			cb := docCB(h)
			go func() {
				for v := range ch {
					cb(v)
				}
				close(done)
			}()
			var err error
			func() {
				defer func() { close(ch); <-done }()
				_, err = (&oj.Parser{}).Parse(y, ch)
			}()
			return err
		}},
		{"docs-sen", "sen.Parser.Parse+func(any)", func(y []byte, h *rec) error {
			_, err := (&sen.Parser{}).Parse(y, docCB(h))
			return err
		}},
		{"docs-gen", "gen.Parser.Parse+func(gen.Node)", func(y []byte, h *rec) error {
			cb := docCB(h)
			_, err := (&gen.Parser{}).Parse(y, func(n gen.Node) {
				if n == nil {
					cb(nil)
				} else {
					cb(n)
				}
			})
			return err
		}},
	}
	modes := append([]string{}, chunkModes...)
	for _, k := range extraSplit {
		if 0 < k && k < len(y) {
			modes = append(modes, fmt.Sprintf("split:%d", k))
		}
	}
	for _, m := range modes {
		m := m
		rd := func(y []byte) io.Reader { return plib.Chunked(y, m) }
		cs = append(cs,
			call{"oj", "oj.TokenizeLoad@" + m, func(y []byte, h *rec) error { return oj.TokenizeLoad(rd(y), h) }},
			call{"sen", "sen.TokenizeLoad@" + m, func(y []byte, h *rec) error { return sen.TokenizeLoad(rd(y), h) }},
		)
		if m == "whole" || m == "1" || m == "3" || strings.HasPrefix(m, "split") {
			cs = append(cs,
				call{"docs-oj", "oj.Parser.ParseReader+func(any)@" + m, func(y []byte, h *rec) error {
					_, err := (&oj.Parser{}).ParseReader(rd(y), docCB(h))
					return err
				}},
				call{"docs-sen", "sen.Parser.ParseReader+func(any)@" + m, func(y []byte, h *rec) error {
					_, err := (&sen.Parser{}).ParseReader(rd(y), docCB(h))
					return err
				}},
			)
		}
	}
	return cs
}

func runCall(c call, y []byte) (o obsT) {
	h := &rec{}
	o.Fam = c.fam
	func() {
		defer func() {
			if r := recover(); r != nil {
				o.Pan = 1
			}
		}()
		if err := c.run(y, h); err != nil {
			o.Err = 1
		}
	}()
	o.Ev = h.ev
	if o.Ev == nil {
		o.Ev = []map[string]any{}
	}
	b, _ := json.Marshal(o.Ev)
	o.sig = fmt.Sprintf("%s|%d|%d|%s", o.Fam, o.Err, o.Pan, b)
	return
}

func toBytes(x any) []byte { return bytesOf(x) }

func tokOne(c map[string]any) map[string]any {
	y := toBytes(c["y"])
	var split []int
	if m, ok := c["m"].(map[string]any); ok {
		if k, ok := m["k"].(float64); ok && k > 1 {
			split = []int{int(k) - 1, int(k)}
		}
	}
	if len(y) > 4096 {
		split = append(split, 4095, 4096, 4097)
	}
	only, _ := c["only"].(string) // replay of a single api
	var obs []*obsT
	idx := map[string]*obsT{}
	perFam := map[string]int{}
	ncalls := 0
	for _, cl := range calls(y, split) {
		if only != "" && cl.api != only {
			continue
		}
		o := runCall(cl, y)
		ncalls++
		perFam[cl.fam]++
		if p, ok := idx[o.sig]; ok {
			p.As = append(p.As, cl.api)
			continue
		}
		o.As = []string{cl.api}
		oc := o
		idx[o.sig] = &oc
		obs = append(obs, &oc)
	}
	for _, o := range obs {
		if len(o.As) == perFam[o.Fam] && len(o.As) > 1 {
			o.As = []string{"all " + o.Fam}
		}
	}
	c["obs"] = obs
	c["calls"] = ncalls
	if c["ne"] == nil {
		c["ne"], c["nd"] = -1, -1
	}
	if c["id"] == nil {
		c["id"] = 0
	}
	if c["src"] == nil {
		c["src"] = "?"
	}
	return c
}

func tokExec() {
	const W = 6
	type job struct {
		c   map[string]any
		res chan map[string]any
	}
	jobs := make(chan job, 64)
	order := make(chan chan map[string]any, 64)
	for w := 0; w < W; w++ {
		go func() {
			for j := range jobs {
				j.res <- tokOne(j.c)
			}
		}()
	}
	fin := make(chan struct{})
	go func() {
		for r := range order {
			emit(<-r)
		}
		close(fin)
	}()
	readCases(func(c map[string]any) {
		r := make(chan map[string]any, 1)
		order <- r
		jobs <- job{c, r}
	})
	close(jobs)
	close(order)
	<-fin
}

// ---------------------------------------------------------------- seeded random texts

var numPool = []string{"0", "-0", "1", "-1", "7", "12", "-12", "100", "2147483648", "9223372036854775806", "9223372036854775807", "9223372036854775808",
	"-9223372036854775807", "-9223372036854775808", "-9223372036854775809", "18446744073709551616", "123456789012345678901234567890",
	"0.0", "-0.0", "0.1", "1.5", "2.50", "1.0", "1e2", "1E+2", "1e-2", "0e0", "1e5", "1.25e3", "12.5E-1", "1e22", "1e23", "1e308", "1.7976931348623157e308",
	"1.7976931348623159e308", "1e309", "1e400", "-1e400", "1e-400", "4.9e-324", "2.2250738585072014e-308", "1.234567890123456789", "0.30000000000000004",
	"100000000000000000000.5", "9007199254740993", "9007199254740993.0", "1e1022", "1e1023", "123456789012345678", "1234567890.123456789", "0.000001", "1e-7"}

var strPool = []string{``, `a`, `b`, `a.b`, `x y`, `é`, `日本`, `\n`, `a\tb`, `\"`, `\\`, `\/`, `\b\f\r`, `A`, `é`, `é`, `€`, `😀`, `😀 x`,
	`\ud83d`, `\ude00`, `\ud83dx`, `\ud83d\ude00`, `\u0000`, `\u001f`, "\U0001F600", `{\"a\":1}`, `[1,2]`, `null`, `true`, `12`, `//`, `/* c */`, `'q'`, `a,b`, `a:b`, ` lead`, `trail `, `}`, `]`}

type rgen struct {
	r   *rand.Rand
	b   []byte
	sw  [][2]int // admissible swaps: position (1-based), replacement byte
	big bool
}

func (g *rgen) ws() {
	if g.r.Intn(3) == 0 {
		for i := g.r.Intn(3); i >= 0; i-- {
			g.b = append(g.b, " \n\t\r"[g.r.Intn(4)])
		}
	}
}

func (g *rgen) str() {
	g.b = append(g.b, '"')
	{
		g.b = append(g.b, strPool[g.r.Intn(len(strPool))]...)
		if g.r.Intn(4) == 0 {
			g.b = append(g.b, strPool[g.r.Intn(len(strPool))]...)
		}
	}
	g.b = append(g.b, '"')
}

func (g *rgen) value(depth int) {
	k := g.r.Intn(10)
	if depth == 0 && k >= 7 {
		k = g.r.Intn(7)
	}
	switch {
	case k == 0:
		g.b = append(g.b, []string{"null", "true", "false"}[g.r.Intn(3)]...)
	case k <= 3:
		g.b = append(g.b, numPool[g.r.Intn(len(numPool))]...)
	case k <= 6:
		g.str()
	case k <= 8 || true:
		obj := k == 9 || g.r.Intn(3) == 0
		n := g.r.Intn(5)
		if obj {
			g.b = append(g.b, '{')
		} else {
			g.b = append(g.b, '[')
		}
		g.ws()
		for i := 0; i < n; i++ {
			if i > 0 {
				g.sw = append(g.sw, [2]int{len(g.b) + 1, ':'})
				g.b = append(g.b, ',')
				g.ws()
			}
			if obj {
				g.str()
				g.ws()
				g.sw = append(g.sw, [2]int{len(g.b) + 1, ','})
				g.b = append(g.b, ':')
				g.ws()
			}
			g.value(depth - 1)
			g.ws()
		}
		if obj {
			g.sw = append(g.sw, [2]int{len(g.b) + 1, ']'})
			g.b = append(g.b, '}')
		} else {
			g.sw = append(g.sw, [2]int{len(g.b) + 1, '}'})
			g.b = append(g.b, ']')
		}
	}
}

func tokGen(n int) {
	r := rand.New(rand.NewSource(seed()))
	for i := 0; i < n; i++ {
		// texts beyond 4096 bytes are expensive for TLC (4 kB payloads in every state): one in the quick tier, one in 200 otherwise
		g := &rgen{r: r, big: i == 39 || (i%200 == 39 && os.Getenv("VERIF_TIER") == "thorough")}
		if r.Intn(25) == 0 {
			g.b = append(g.b, 0xEF, 0xBB, 0xBF)
		}
		g.ws()
		if g.big {
			// one long string document in front: the 4096-byte refill boundary of the readers falls into what follows
			g.b = append(g.b, '"')
			g.b = append(g.b, strings.Repeat("p", 4040+r.Intn(50))...)
			g.b = append(g.b, '"', '\n')
		}
		docs := 1
		if r.Intn(4) == 0 || g.big {
			docs = 2 + r.Intn(3)
		}
		for d := 0; d < docs; d++ {
			if d > 0 {
				last := g.b[len(g.b)-1]
				if !(r.Intn(3) == 0 && (last == '}' || last == ']')) {
					g.b = append(g.b, " \n"[r.Intn(2)])
				}
				if r.Intn(3) == 0 { // force a container so that tight separation occurs
					g.b = append(g.b, "[{"[r.Intn(2)])
					g.sw = append(g.sw, [2]int{len(g.b) + 1, map[byte]int{'[': '}', '{': ']'}[g.b[len(g.b)-1]]})
					g.b = append(g.b, map[byte]byte{'[': ']', '{': '}'}[g.b[len(g.b)-1]])
					continue
				}
			}
			g.value(1 + r.Intn(4))
		}
		g.ws()
		x := ints(g.b)
		mk := func(t string, k, b int, y []byte) {
			emit(map[string]any{"src": "go", "x": x, "m": map[string]any{"t": t, "k": k, "b": b}, "y": ints(y), "ne": -1, "nd": -1})
		}
		mk("none", 0, 0, g.b)
		if g.big {
			if r.Intn(2) == 0 {
				k := 4090 + r.Intn(20)
				if k >= len(g.b) {
					k = len(g.b) - 1
				}
				mk("cut", k, 0, g.b[:k])
			}
			continue
		}
		ncut := 3
		for c := 0; c < ncut && len(g.b) > 0; c++ {
			k := r.Intn(len(g.b))
			mk("cut", k, 0, g.b[:k])
		}
		for c := 0; c < 2 && len(g.sw) > 0; c++ {
			s := g.sw[r.Intn(len(g.sw))]
			y := append([]byte{}, g.b...)
			y[s[0]-1] = byte(s[1])
			mk("swap", s[0], s[1], y)
		}
	}
}
